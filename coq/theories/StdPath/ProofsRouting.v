(** Routing (C11): atomicity of the advance functions, their effect on assembled views, pointer
    monotonicity, the MAC input block, acceptance of HopMacValidator. *)
From Coq Require Import Lia ZifyBool ZifyNat ZifyN.
From Sci Require Import Common.ListAux StdPath.Model StdPath.ModelRouting StdPath.Proofs StdPath.ProofsRev StdPath.ProofsEnc.
Local Open Scope N_scope.
Ltac Zify.zify_post_hook ::= Z.div_mod_to_equations.
Arguments N.add : simpl never. Arguments N.sub : simpl never. Arguments N.mul : simpl never.
Arguments N.div : simpl never. Arguments N.modulo : simpl never. Arguments N.eqb : simpl never.
Arguments N.ltb : simpl never. Arguments N.leb : simpl never. Arguments N.lxor : simpl never.
Arguments N.min : simpl never. Arguments N.testbit : simpl never. Arguments N.ldiff : simpl never.

Lemma mac_layout_matches : mac_layout_ok = true.
Proof. reflexivity. Qed.

(** * Err => bytes unchanged: every byte string, every validator *)
Lemma commit_never_err {O} b ci ch info hop (r : O) b' e : commit b ci ch info hop r <> (b', Err e).
Proof.
  unfold commit. destruct (info_field b ci); [|discriminate].
  destruct (hop_field _ ch); discriminate.
Qed.

Lemma advance_ingress_err_unchanged {E} (v : validator E) fi b b' e :
  advance_ingress v fi b = (b', Err e) -> b' = b.
Proof.
  unfold advance_ingress. intros H.
  destruct (calculate_segment_index b (curr_hf b)) as [[[seg st] en]|]; [|inversion H; reflexivity].
  destruct (st && en); [inversion H; reflexivity|].
  destruct (negb (seg =? curr_inf b)); [inversion H; reflexivity|].
  destruct (hop_field b (curr_hf b)) as [hop0|]; [|inversion H; reflexivity].
  destruct (info_field b (curr_inf b)) as [info0|]; [|inversion H; reflexivity].
  destruct (hop_count b <=? curr_hf b + 1); destruct en.
  - match type of H with (let '(_, _) := ?c in _) = _ => destruct c as [b1 r1] eqn:Ec end.
    destruct r1; cbn [obind] in H; inversion H; subst. exfalso. eapply commit_never_err; eauto.
  - inversion H.
  - destruct (63 <? curr_hf b + 1); [inversion H; reflexivity|].
    destruct (hop_field b (curr_hf b + 1)); [|inversion H; reflexivity].
    destruct (info_field b (seg + 1)); [|inversion H; reflexivity].
    match type of H with (let '(_, _) := ?c in _) = _ => destruct c as [b1 r1] eqn:Ec end.
    destruct r1; cbn [obind] in H; inversion H; subst. exfalso. eapply commit_never_err; eauto.
  - match type of H with (let '(_, _) := ?c in _) = _ => destruct c as [b1 r1] eqn:Ec end.
    destruct r1; cbn [obind] in H; inversion H; subst. exfalso. eapply commit_never_err; eauto.
Qed.

Lemma advance_egress_err_unchanged {E} (v : validator E) b b' e :
  advance_egress v b = (b', Err e) -> b' = b.
Proof.
  unfold advance_egress. intros H.
  destruct (calculate_segment_index b (curr_hf b)) as [[[seg st] en]|]; [|inversion H; reflexivity].
  destruct (negb (seg =? curr_inf b)); [inversion H; reflexivity|].
  destruct (hop_field b (curr_hf b)) as [hop0|]; [|inversion H; reflexivity].
  destruct (info_field b (curr_inf b)) as [info0|]; [|inversion H; reflexivity].
  destruct (hop_count b <=? curr_hf b + 1); [inversion H; reflexivity|].
  destruct (63 <? curr_hf b + 1); [inversion H; reflexivity|].
  destruct en; [inversion H; reflexivity|].
  cbn [negb] in H.
  match type of H with (let '(_, _) := ?c in _) = _ => destruct c as [b1 r1] eqn:Ec end.
  destruct r1; inversion H; subst. exfalso. eapply commit_never_err; eauto.
Qed.

(** * replacing one field of an assembled view *)
Definition upd {A} (l : list A) (i : nat) (x : A) : list A := firstn i l ++ [x] ++ skipn (S i) l.

Lemma In_firstn' {A} (x : A) n l : In x (firstn n l) -> In x l.
Proof.
  revert l; induction n as [|n IH]; intros l H; [destruct H|].
  destruct l as [|y l]; [destruct H|]. cbn in H. destruct H as [->|H]; [now left|right; auto].
Qed.
Lemma In_skipn' {A} (x : A) n l : In x (skipn n l) -> In x l.
Proof.
  revert l; induction n as [|n IH]; intros l H; [exact H|].
  destruct l as [|y l]; [destruct H|]. cbn in H. right. auto.
Qed.

Lemma upd_length {A} (l : list A) i x : (i < length l)%nat -> length (upd l i x) = length l.
Proof. intros H. unfold upd. rewrite !app_length, firstn_length, skipn_length. cbn. lia. Qed.
Lemma upd_all_len {A} k (l : list (list A)) i x : all_len k l -> length x = k -> all_len k (upd l i x).
Proof.
  intros H Hx. unfold upd, all_len in *. apply Forall_app. split.
  - apply Forall_forall. intros y Hy. rewrite Forall_forall in H. apply H. eapply In_firstn'. exact Hy.
  - apply Forall_app. split; [constructor; auto|].
    apply Forall_forall. intros y Hy. rewrite Forall_forall in H. apply H. eapply In_skipn'. exact Hy.
Qed.

Lemma nth_error_split' {A} (l : list A) i x :
  nth_error l i = Some x -> l = firstn i l ++ x :: skipn (S i) l.
Proof.
  revert i; induction l as [|y l IH]; intros i H; [destruct i; discriminate|].
  destruct i as [|i]; cbn in *; [now injection H as ->|]. f_equal. apply IH. exact H.
Qed.

Lemma nth_error_nth' {A} (l : list A) i d : (i < length l)%nat -> nth_error l i = Some (nth i l d).
Proof.
  revert i; induction l as [|y l IH]; intros i H; cbn in H; [lia|].
  destruct i; cbn; [reflexivity|]. apply IH. lia.
Qed.

Lemma shaped_upd s0 s1 s2 IF HF i j x y :
  shaped s0 s1 s2 IF HF -> (i < length IF)%nat -> (j < length HF)%nat -> length x = 8%nat -> length y = 12%nat ->
  shaped s0 s1 s2 (upd IF i x) (upd HF j y).
Proof.
  intros [H1 H2 H3 H4] Hi Hj Hx Hy. constructor.
  - apply upd_all_len; assumption.
  - apply upd_all_len; assumption.
  - rewrite upd_length by assumption. exact H3.
  - rewrite upd_length by assumption. exact H4.
Qed.

Lemma upd_same {A} (l : list A) i d : (i < length l)%nat -> upd l i (nth i l d) = l.
Proof. intros H. unfold upd. symmetry. apply nth_error_split'. now apply nth_error_nth'. Qed.

Lemma nth_upd_same {A} (l : list A) i x d : (i < length l)%nat -> nth i (upd l i x) d = x.
Proof.
  intros H. unfold upd. rewrite app_nth2 by (rewrite firstn_length; lia).
  rewrite firstn_length, Nat.min_l by lia. now rewrite Nat.sub_diag.
Qed.
Lemma nth_upd_other {A} (l : list A) i j x d : (i < length l)%nat -> i <> j -> nth j (upd l i x) d = nth j l d.
Proof.
  intros Hi Hij. unfold upd.
  pose proof (nth_error_split' l i (nth i l d) (nth_error_nth' l i d Hi)) as Esp.
  set (pre := firstn i l) in *. set (post := skipn (S i) l) in *.
  assert (Hpre : length pre = i) by (unfold pre; rewrite firstn_length; lia).
  rewrite Esp. clear Esp.
  destruct (Nat.lt_ge_cases j i) as [Hlt|Hge].
  - rewrite (app_nth1 pre) by lia. rewrite (app_nth1 pre) by lia. reflexivity.
  - rewrite (app_nth2 pre) by lia. rewrite (app_nth2 pre) by lia. rewrite Hpre.
    destruct (j - i)%nat as [|k] eqn:Ek; [lia|]. reflexivity.
Qed.

Section SetField.
Variables ci ch rsv s0 s1 s2 : N.
Variables IF HF : list (list N).
Hypothesis Hm : meta_ok ci ch rsv s0 s1 s2.
Hypothesis Hs : shaped s0 s1 s2 IF HF.

Lemma set_info_assembled i x :
  (i < length IF)%nat -> length x = 8%nat ->
  set_range (assemble ci ch rsv s0 s1 s2 IF HF) (info_off i) x = assemble ci ch rsv s0 s1 s2 (upd IF i x) HF.
Proof.
  intros Hi Hx. pose proof (nth_error_nth' IF i [] Hi) as Hn. set (old := nth i IF []) in *.
  assert (Hold : length old = 8%nat).
  { pose proof (sh_if_len _ _ _ _ _ Hs) as Ha. unfold all_len in Ha. rewrite Forall_forall in Ha.
    apply Ha. eapply nth_error_In. exact Hn. }
  pose proof (nth_error_split' _ _ _ Hn) as Esp.
  unfold assemble, upd. rewrite Esp at 1. rewrite !concat_app. cbn [concat]. rewrite app_nil_r.
  rewrite <- !app_assoc. rewrite (app_assoc (mk_meta _ _ _ _ _ _)).
  rewrite (app_assoc (mk_meta ci ch rsv s0 s1 s2) (concat (firstn i IF)) (x ++ _)).
  apply set_range_app; [|lia].
  rewrite app_length, mk_meta_length, (concat_length_all 8).
  - rewrite firstn_length, Nat.min_l by lia. unfold info_off. lia.
  - apply Forall_forall. intros y Hy. pose proof (sh_if_len _ _ _ _ _ Hs) as Ha. unfold all_len in Ha.
    rewrite Forall_forall in Ha. apply Ha. eapply In_firstn'. exact Hy.
Qed.

Lemma set_hop_assembled j x :
  (j < length HF)%nat -> length x = 12%nat ->
  set_range (assemble ci ch rsv s0 s1 s2 IF HF) (4 + 8 * length IF + 12 * j) x
  = assemble ci ch rsv s0 s1 s2 IF (upd HF j x).
Proof.
  intros Hj Hx. pose proof (nth_error_nth' HF j [] Hj) as Hn. set (old := nth j HF []) in *.
  assert (Hold : length old = 12%nat).
  { pose proof (sh_hf_len _ _ _ _ _ Hs) as Ha. unfold all_len in Ha. rewrite Forall_forall in Ha.
    apply Ha. eapply nth_error_In. exact Hn. }
  pose proof (nth_error_split' _ _ _ Hn) as Esp.
  unfold assemble, upd. rewrite Esp at 1. rewrite !concat_app. cbn [concat]. rewrite app_nil_r.
  rewrite !app_assoc. rewrite <- (app_assoc _ old), <- (app_assoc _ x).
  apply set_range_app; [|lia].
  rewrite !app_length, mk_meta_length, (concat_length_all 8), (concat_length_all 12).
  - rewrite firstn_length, Nat.min_l by lia. lia.
  - apply Forall_forall. intros y Hy. pose proof (sh_hf_len _ _ _ _ _ Hs) as Ha. unfold all_len in Ha.
    rewrite Forall_forall in Ha. apply Ha. eapply In_firstn'. exact Hy.
  - apply Hs.
Qed.

End SetField.

Lemma commit_assembled {O} ci ch rsv s0 s1 s2 IF HF cidx hidx info hop (r : O) :
  meta_ok ci ch rsv s0 s1 s2 -> shaped s0 s1 s2 IF HF ->
  cidx < N.of_nat (length IF) -> hidx < N.of_nat (length HF) -> length info = 8%nat -> length hop = 12%nat ->
  commit (assemble ci ch rsv s0 s1 s2 IF HF) cidx hidx info hop r
  = (assemble ci ch rsv s0 s1 s2 (upd IF (N.to_nat cidx) info) (upd HF (N.to_nat hidx) hop), Ok r).
Proof.
  intros Hm Hs Hc Hh Hi Hp. unfold commit.
  rewrite (asm_info_field _ _ _ _ _ _ _ _ Hm Hs) by exact Hc.
  rewrite (set_info_assembled _ _ _ _ _ _ _ _ Hs) by (auto; lia).
  assert (Hs1 : shaped s0 s1 s2 (upd IF (N.to_nat cidx) info) HF).
  { rewrite <- (upd_same HF (N.to_nat hidx) []) by lia. apply shaped_upd; auto; try lia.
    pose proof (sh_hf_len _ _ _ _ _ Hs) as Ha. unfold all_len in Ha. rewrite Forall_forall in Ha.
    apply Ha. apply nth_In. lia. }
  rewrite (asm_hop_field _ _ _ _ _ _ _ _ Hm Hs1) by exact Hh.
  unfold hop_off. rewrite (asm_info_count _ _ _ _ _ _ _ _ Hm Hs1), Nat2N.id.
  rewrite (set_hop_assembled _ _ _ _ _ _ _ _ Hs1) by (auto; lia). reflexivity.
Qed.

(** * which bytes an advance may change *)
Definition info_segid_only (a c : list N) : Prop :=
  length c = length a /\ firstn 2 c = firstn 2 a /\ skipn 4 c = skipn 4 a.
Definition hop_flags_only (a c : list N) : Prop := length c = length a /\ skipn 1 c = skipn 1 a.

Lemma info_segid_only_refl a : info_segid_only a a.
Proof. repeat split. Qed.
Lemma hop_flags_only_refl a : hop_flags_only a a.
Proof. repeat split. Qed.

Lemma if_set_segid_only f v : length f = 8%nat -> info_segid_only f (if_set_segid f v).
Proof.
  intros H. unfold info_segid_only, if_set_segid, set_range. rewrite be_bytes_length.
  refine (conj _ (conj _ _)).
  - rewrite !app_length, firstn_length, skipn_length, be_bytes_length. lia.
  - apply firstn_app_exact. rewrite firstn_length. lia.
  - rewrite app_assoc. apply skipn_app_exact. rewrite app_length, firstn_length, be_bytes_length. lia.
Qed.
Lemma hf_set_flags_only f v : length f = 12%nat -> hop_flags_only f (hf_set_flags f v).
Proof.
  intros H. unfold hop_flags_only, hf_set_flags, set_byte, set_range. cbn [length firstn app Nat.add].
  split.
  - cbn [length]. rewrite skipn_length. lia.
  - reflexivity.
Qed.

Section Inv.
Variables ci ch rsv s0 s1 s2 : N.
Variables IF HF : list (list N).
Hypothesis Hm : meta_ok ci ch rsv s0 s1 s2.
Hypothesis Hs : shaped s0 s1 s2 IF HF.
Let b := assemble ci ch rsv s0 s1 s2 IF HF.

Lemma hop_field_some_inv j h :
  hop_field b j = Some h -> j < N.of_nat (length HF) /\ h = nth (N.to_nat j) HF [] /\ length h = 12%nat.
Proof.
  intros H. assert (Hj : j < N.of_nat (length HF)).
  { subst b. unfold hop_field in H. rewrite (asm_hop_count _ _ _ _ _ _ _ _ Hm Hs) in H.
    destruct (N.of_nat (length HF) <=? j) eqn:E; [discriminate|lia]. }
  subst b. rewrite (asm_hop_field _ _ _ _ _ _ _ _ Hm Hs j Hj) in H. injection H as <-.
  refine (conj Hj (conj eq_refl _)).
  pose proof (sh_hf_len _ _ _ _ _ Hs) as Ha. unfold all_len in Ha. rewrite Forall_forall in Ha.
  apply Ha. apply nth_In. lia.
Qed.
Lemma info_field_some_inv i f :
  info_field b i = Some f -> i < N.of_nat (length IF) /\ f = nth (N.to_nat i) IF [] /\ length f = 8%nat.
Proof.
  intros H. assert (Hi : i < N.of_nat (length IF)).
  { subst b. unfold info_field in H. rewrite (asm_info_count _ _ _ _ _ _ _ _ Hm Hs) in H.
    destruct (N.of_nat (length IF) <=? i) eqn:E; [discriminate|lia]. }
  subst b. rewrite (asm_info_field _ _ _ _ _ _ _ _ Hm Hs i Hi) in H. injection H as <-.
  refine (conj Hi (conj eq_refl _)).
  pose proof (sh_if_len _ _ _ _ _ Hs) as Ha. unfold all_len in Ha. rewrite Forall_forall in Ha.
  apply Ha. apply nth_In. lia.
Qed.
End Inv.

(** the egress step on an accepted view: what the bytes afterwards are *)
Lemma advance_egress_shape {E} (v : validator E) ci ch rsv s0 s1 s2 IF HF b' r :
  meta_ok ci ch rsv s0 s1 s2 -> shaped s0 s1 s2 IF HF ->
  advance_egress v (assemble ci ch rsv s0 s1 s2 IF HF) = (b', Ok r) ->
  exists info1 hop1,
    b' = assemble ci (ch + 1) rsv s0 s1 s2 (upd IF (N.to_nat ci) info1) (upd HF (N.to_nat ch) hop1)
    /\ ch + 1 < s0 + s1 + s2 /\ ch + 1 <= 63
    /\ ci < N.of_nat (length IF) /\ ch < N.of_nat (length HF)
    /\ info_segid_only (nth (N.to_nat ci) IF []) info1 /\ hop_flags_only (nth (N.to_nat ch) HF []) hop1.
Proof.
  intros Hm Hs H. unfold advance_egress in H.
  rewrite (asm_curr_hf _ _ _ _ _ _ _ _ Hm), (asm_curr_inf _ _ _ _ _ _ _ _ Hm),
          (asm_hop_count _ _ _ _ _ _ _ _ Hm Hs) in H.
  destruct (calculate_segment_index _ ch) as [[[seg st] en]|]; [|discriminate].
  destruct (negb (seg =? ci)); [discriminate|].
  destruct (hop_field _ ch) as [hop0|] eqn:Eh; [|discriminate].
  destruct (info_field _ ci) as [info0|] eqn:Ei; [|discriminate].
  destruct (hop_field_some_inv _ _ _ _ _ _ _ _ Hm Hs _ _ Eh) as (Hch & -> & Hlh).
  destruct (info_field_some_inv _ _ _ _ _ _ _ _ Hm Hs _ _ Ei) as (Hci & -> & Hli).
  set (hop0 := nth (N.to_nat ch) HF []) in *. set (info0 := nth (N.to_nat ci) IF []) in *.
  destruct (N.of_nat (length HF) <=? ch + 1) eqn:Efin; [discriminate|].
  destruct (63 <? ch + 1) eqn:Efit; [discriminate|].
  destruct en; [discriminate|]. cbn [negb] in H.
  match type of H with context [commit _ ci ch ?i1 ?h1 tt] => set (info1 := i1) in *; set (hop1 := h1) in * end.
  assert (Ho1 : info_segid_only info0 info1).
  { unfold info1. destruct (if_cons_dir info0); [apply if_set_segid_only; exact Hli|apply info_segid_only_refl]. }
  assert (Ho2 : hop_flags_only hop0 hop1).
  { unfold hop1. destruct (N.testbit _ _); [apply hf_set_flags_only; exact Hlh|apply hop_flags_only_refl]. }
  rewrite (commit_assembled _ _ _ _ _ _ _ _ ci ch info1 hop1 tt Hm Hs Hci Hch) in H.
  2:{ destruct Ho1 as [Hl _]. lia. } 2:{ destruct Ho2 as [Hl _]. lia. }
  injection H as <- _. exists info1, hop1.
  pose proof (sh_hf_cnt _ _ _ _ _ Hs) as Hn.
  refine (conj _ (conj _ (conj _ (conj Hci (conj Hch (conj Ho1 Ho2)))))); try lia.
  unfold assemble. rewrite (put_curr_hf _ _ _ _ _ _ Hm).
  rewrite (N.mod_small (ch + 1) 256) by lia. rewrite (N.mod_small (ch + 1) 64) by lia. reflexivity.
Qed.

(** the ingress step on an accepted view *)
Lemma advance_ingress_shape {E} (v : validator E) fi ci ch rsv s0 s1 s2 IF HF b' r :
  meta_ok ci ch rsv s0 s1 s2 -> shaped s0 s1 s2 IF HF ->
  advance_ingress v fi (assemble ci ch rsv s0 s1 s2 IF HF) = (b', Ok r) ->
  exists info1 hop1 ci' ch',
    b' = assemble ci' ch' rsv s0 s1 s2 (upd IF (N.to_nat ci) info1) (upd HF (N.to_nat ch) hop1)
    /\ ((ci' = ci /\ ch' = ch)
        \/ (ci' = ci + 1 /\ ch' = ch + 1 /\ ch + 1 < s0 + s1 + s2 /\ ch + 1 <= 63
            /\ ci + 1 < N.of_nat (length IF)
            /\ exists st, calc_seg_idx_aux ch 0 0 [s0; s1; s2] = Some (ci, st, true)))
    /\ ci < N.of_nat (length IF) /\ ch < N.of_nat (length HF)
    /\ info_segid_only (nth (N.to_nat ci) IF []) info1 /\ hop_flags_only (nth (N.to_nat ch) HF []) hop1.
Proof.
  intros Hm Hs H. unfold advance_ingress in H.
  rewrite (asm_curr_hf _ _ _ _ _ _ _ _ Hm), (asm_curr_inf _ _ _ _ _ _ _ _ Hm),
          (asm_hop_count _ _ _ _ _ _ _ _ Hm Hs) in H.
  unfold calculate_segment_index in H. rewrite (asm_seg_lens _ _ _ _ _ _ _ _ Hm) in H.
  destruct (calc_seg_idx_aux ch 0 0 [s0; s1; s2]) as [[[seg st] en]|] eqn:Ecalc; [|discriminate].
  destruct (st && en); [discriminate|].
  destruct (negb (seg =? ci)) eqn:Eseg; [discriminate|].
  assert (seg = ci) by (destruct (seg =? ci) eqn:E'; [lia|discriminate]). subst seg.
  destruct (hop_field _ ch) as [hop0|] eqn:Eh; [|discriminate].
  destruct (info_field _ ci) as [info0|] eqn:Ei; [|discriminate].
  destruct (hop_field_some_inv _ _ _ _ _ _ _ _ Hm Hs _ _ Eh) as (Hch & -> & Hlh).
  destruct (info_field_some_inv _ _ _ _ _ _ _ _ Hm Hs _ _ Ei) as (Hci & -> & Hli).
  set (hop0 := nth (N.to_nat ch) HF []) in *. set (info0 := nth (N.to_nat ci) IF []) in *.
  match type of H with context [v_hop v ch hop0 ?i1 st en] => set (info1 := i1) in * end.
  match type of H with context [commit _ ci ch info1 ?h1 _] => set (hop1 := h1) in * end.
  assert (Ho1 : info_segid_only info0 info1).
  { unfold info1. destruct (negb fi && negb (if_cons_dir info0)); [apply if_set_segid_only; exact Hli|apply info_segid_only_refl]. }
  assert (Ho2 : hop_flags_only hop0 hop1).
  { unfold hop1. destruct (negb fi && N.testbit _ _); [apply hf_set_flags_only; exact Hlh|apply hop_flags_only_refl]. }
  assert (Hl1 : length info1 = 8%nat) by (destruct Ho1 as [Hl _]; lia).
  assert (Hl2 : length hop1 = 12%nat) by (destruct Ho2 as [Hl _]; lia).
  pose proof (sh_hf_cnt _ _ _ _ _ Hs) as Hn.
  destruct (N.of_nat (length HF) <=? ch + 1) eqn:Efin; destruct en.
  - rewrite (commit_assembled _ _ _ _ _ _ _ _ ci ch info1 hop1 _ Hm Hs Hci Hch Hl1 Hl2) in H.
    cbn [obind] in H. injection H as <- _. exists info1, hop1, ci, ch.
    refine (conj eq_refl (conj (or_introl (conj eq_refl eq_refl)) (conj Hci (conj Hch (conj Ho1 Ho2))))).
  - discriminate.
  - destruct (63 <? ch + 1) eqn:Efit; [discriminate|].
    destruct (hop_field _ (ch + 1)) as [nh|] eqn:Enh; [|discriminate].
    destruct (info_field _ (ci + 1)) as [ni|] eqn:Eni; [|discriminate].
    destruct (hop_field_some_inv _ _ _ _ _ _ _ _ Hm Hs _ _ Enh) as (Hch1 & _ & _).
    destruct (info_field_some_inv _ _ _ _ _ _ _ _ Hm Hs _ _ Eni) as (Hci1 & _ & _).
    pose proof (sh_if_cnt _ _ _ _ _ Hs) as Hni.
    assert (Hci3 : ci + 1 < 4) by (unfold nz in Hni; destruct (s0 =? 0), (s1 =? 0), (s2 =? 0); lia).
    assert (Eptr : set_curr_inf (set_curr_hf (assemble ci ch rsv s0 s1 s2 IF HF) ((ch + 1) mod 256)) ((ci + 1) mod 256)
                   = assemble (ci + 1) (ch + 1) rsv s0 s1 s2 IF HF).
    { unfold assemble. rewrite (put_curr_hf _ _ _ _ _ _ Hm).
      assert (Hm1 : meta_ok ci ((ch + 1) mod 256 mod 64) rsv s0 s1 s2) by (unfold meta_ok in *; lia).
      rewrite (put_curr_inf _ _ _ _ _ _ Hm1).
      rewrite (N.mod_small (ch + 1) 256), (N.mod_small (ch + 1) 64),
              (N.mod_small (ci + 1) 256), (N.mod_small (ci + 1) 4) by lia. reflexivity. }
    rewrite Eptr in H.
    assert (Hm2 : meta_ok (ci + 1) (ch + 1) rsv s0 s1 s2) by (unfold meta_ok in *; lia).
    rewrite (commit_assembled _ _ _ _ _ _ _ _ ci ch info1 hop1 _ Hm2 Hs Hci Hch Hl1 Hl2) in H.
    cbn [obind] in H. injection H as <- _. exists info1, hop1, (ci + 1), (ch + 1).
    refine (conj eq_refl (conj (or_intror _) (conj Hci (conj Hch (conj Ho1 Ho2))))).
    refine (conj eq_refl (conj eq_refl (conj _ (conj _ (conj Hci1 (ex_intro _ st eq_refl)))))); lia.
  - rewrite (commit_assembled _ _ _ _ _ _ _ _ ci ch info1 hop1 _ Hm Hs Hci Hch Hl1 Hl2) in H.
    cbn [obind] in H. injection H as <- _. exists info1, hop1, ci, ch.
    refine (conj eq_refl (conj (or_introl (conj eq_refl eq_refl)) (conj Hci (conj Hch (conj Ho1 Ho2))))).
Qed.

(** * the MAC input block determines its five fields *)
Lemma app_eq_len {A} (a a' r r' : list A) : length a = length a' -> a ++ r = a' ++ r' -> a = a' /\ r = r'.
Proof.
  revert a'; induction a as [|x a IH]; intros [|y a'] Hl H; cbn in *; try lia; [auto|].
  injection H as -> H. destruct (IH a' ltac:(lia) H) as [-> ->]. auto.
Qed.

Lemma be_bytes_inj n v w : v < 256 ^ N.of_nat n -> w < 256 ^ N.of_nat n -> be_bytes n v = be_bytes n w -> v = w.
Proof. intros Hv Hw E. rewrite <- (be_val_be_bytes n v Hv), <- (be_val_be_bytes n w Hw). now rewrite E. Qed.

Lemma mac_input_length beta ts e ci ce : length (mac_input beta ts e ci ce) = 16%nat.
Proof. unfold mac_input. rewrite !app_length, !be_bytes_length. reflexivity. Qed.

Lemma mac_input_injective_lemma beta ts e ci ce beta' ts' e' ci' ce' :
  beta < 65536 -> ts < 4294967296 -> e < 256 -> ci < 65536 -> ce < 65536 ->
  beta' < 65536 -> ts' < 4294967296 -> e' < 256 -> ci' < 65536 -> ce' < 65536 ->
  mac_input beta ts e ci ce = mac_input beta' ts' e' ci' ce' ->
  beta = beta' /\ ts = ts' /\ e = e' /\ ci = ci' /\ ce = ce'.
Proof.
  intros B T X I G B' T' X' I' G' H. unfold mac_input in H.
  apply app_eq_len in H as [_ H]; [|reflexivity].
  apply app_eq_len in H as [H1 H]; [|now rewrite !be_bytes_length].
  apply app_eq_len in H as [H2 H]; [|now rewrite !be_bytes_length].
  apply app_eq_len in H as [H3 H]; [|reflexivity].
  apply app_eq_len in H as [H4 H]; [|now rewrite !be_bytes_length].
  apply app_eq_len in H as [H5 _]; [|now rewrite !be_bytes_length].
  apply (be_bytes_inj 2) in H1; [|exact B|exact B'].
  apply (be_bytes_inj 4) in H2; [|exact T|exact T'].
  apply (be_bytes_inj 2) in H4; [|exact I|exact I'].
  apply (be_bytes_inj 2) in H5; [|exact G|exact G'].
  injection H3 as H3. rewrite !N.mod_small in H3 by lia. auto.
Qed.

(** * HopMacValidator accepts exactly when the carried MAC is the truncated MAC of the block *)
Lemma list_eqb_N_eq (a c : list N) : list_eqb N.eqb a c = true <-> a = c.
Proof.
  revert c; induction a as [|x a IH]; intros [|y c]; cbn; try (split; congruence).
  rewrite andb_true_iff, IH, N.eqb_eq. split; [intros [-> ->]; reflexivity|intros H; injection H; auto].
Qed.

Lemma hop_mac_check_none cmac key hop info :
  hop_mac_check cmac key hop info = None
  <-> hf_mac hop = firstn 6 (cmac key (mac_input (if_segid info) (if_ts info) (hf_exp hop)
                                               (hf_cons_ingress hop) (hf_cons_egress hop))).
Proof.
  unfold hop_mac_check, calculate_hop_mac.
  destruct (list_eqb N.eqb _ _) eqn:E.
  - apply list_eqb_N_eq in E. split; auto.
  - split; [discriminate|]. intros H. apply list_eqb_N_eq in H. congruence.
Qed.

(** * the segment index of the last hop is a segment end (the unreachable!() arm) *)
Lemma calc_last_is_end ch s0 s1 s2 seg st en :
  calc_seg_idx_aux ch 0 0 [s0; s1; s2] = Some (seg, st, en) -> s0 + s1 + s2 <= ch + 1 -> en = true.
Proof.
  cbn [calc_seg_idx_aux]. intros H Hf.
  destruct (ch <? 0 + s0) eqn:E0; [injection H as _ _ <-; lia|].
  destruct (ch <? 0 + s0 + s1) eqn:E1; [injection H as _ _ <-; lia|].
  destruct (ch <? 0 + s0 + s1 + s2) eqn:E2; [injection H as _ _ <-; lia|discriminate].
Qed.
Lemma calc_some_lt ch s0 s1 s2 r : calc_seg_idx_aux ch 0 0 [s0; s1; s2] = Some r -> ch < s0 + s1 + s2.
Proof.
  cbn [calc_seg_idx_aux]. intros H.
  destruct (ch <? 0 + s0) eqn:E0; [lia|].
  destruct (ch <? 0 + s0 + s1) eqn:E1; [lia|].
  destruct (ch <? 0 + s0 + s1 + s2) eqn:E2; [lia|discriminate].
Qed.

(** * no panic on accepted views *)
Lemma advance_ingress_no_panic {E} (v : validator E) fi b :
  view_ok b = true -> is_panic (snd (advance_ingress v fi b)) = false.
Proof.
  intros Hv.
  destruct (view_decompose b Hv) as (ci & ch & rsv & s0 & s1 & s2 & IF & HF & -> & Hm & Hs & _).
  unfold advance_ingress.
  rewrite (asm_curr_hf _ _ _ _ _ _ _ _ Hm), (asm_curr_inf _ _ _ _ _ _ _ _ Hm),
          (asm_hop_count _ _ _ _ _ _ _ _ Hm Hs).
  unfold calculate_segment_index. rewrite (asm_seg_lens _ _ _ _ _ _ _ _ Hm).
  destruct (calc_seg_idx_aux ch 0 0 [s0; s1; s2]) as [[[seg st] en]|] eqn:Ecalc; [|reflexivity].
  destruct (st && en); [reflexivity|].
  destruct (negb (seg =? ci)) eqn:Eseg; [reflexivity|].
  assert (seg = ci) by (destruct (seg =? ci) eqn:E'; [lia|discriminate]). subst seg.
  destruct (hop_field _ ch) as [hop0|] eqn:Eh; [|reflexivity].
  destruct (info_field _ ci) as [info0|] eqn:Ei; [|reflexivity].
  destruct (hop_field_some_inv _ _ _ _ _ _ _ _ Hm Hs _ _ Eh) as (Hch & -> & Hlh).
  destruct (info_field_some_inv _ _ _ _ _ _ _ _ Hm Hs _ _ Ei) as (Hci & -> & Hli).
  set (hop0 := nth (N.to_nat ch) HF []) in *. set (info0 := nth (N.to_nat ci) IF []) in *.
  match goal with |- context [v_hop v ch hop0 ?i1 st en] => set (info1 := i1) in * end.
  match goal with |- context [commit _ ci ch info1 ?h1 _] => set (hop1 := h1) in * end.
  assert (Hl1 : length info1 = 8%nat).
  { unfold info1. destruct (negb fi && negb (if_cons_dir info0)); [|exact Hli].
    destruct (if_set_segid_only info0 (mac_beta_step (if_segid info0) (hf_mac hop0)) Hli) as [Hl _]. lia. }
  assert (Hl2 : length hop1 = 12%nat).
  { unfold hop1. destruct (negb fi && N.testbit _ _); [|exact Hlh].
    match goal with |- length (hf_set_flags hop0 ?x) = _ => destruct (hf_set_flags_only hop0 x Hlh) as [Hl _] end. lia. }
  pose proof (sh_hf_cnt _ _ _ _ _ Hs) as Hn.
  destruct (N.of_nat (length HF) <=? ch + 1) eqn:Efin; destruct en.
  - rewrite (commit_assembled _ _ _ _ _ _ _ _ ci ch info1 hop1 _ Hm Hs Hci Hch Hl1 Hl2). reflexivity.
  - exfalso. pose proof (calc_last_is_end _ _ _ _ _ _ _ Ecalc ltac:(lia)). discriminate.
  - destruct (63 <? ch + 1) eqn:Efit; [reflexivity|].
    destruct (hop_field _ (ch + 1)) as [nh|] eqn:Enh; [|reflexivity].
    destruct (info_field _ (ci + 1)) as [ni|] eqn:Eni; [|reflexivity].
    destruct (info_field_some_inv _ _ _ _ _ _ _ _ Hm Hs _ _ Eni) as (Hci1 & _ & _).
    pose proof (sh_if_cnt _ _ _ _ _ Hs) as Hni.
    assert (Hci3 : ci + 1 < 4) by (unfold nz in Hni; destruct (s0 =? 0), (s1 =? 0), (s2 =? 0); lia).
    assert (Eptr : set_curr_inf (set_curr_hf (assemble ci ch rsv s0 s1 s2 IF HF) ((ch + 1) mod 256)) ((ci + 1) mod 256)
                   = assemble (ci + 1) (ch + 1) rsv s0 s1 s2 IF HF).
    { unfold assemble. rewrite (put_curr_hf _ _ _ _ _ _ Hm).
      assert (Hm1 : meta_ok ci ((ch + 1) mod 256 mod 64) rsv s0 s1 s2) by (unfold meta_ok in *; lia).
      rewrite (put_curr_inf _ _ _ _ _ _ Hm1).
      rewrite (N.mod_small (ch + 1) 256), (N.mod_small (ch + 1) 64),
              (N.mod_small (ci + 1) 256), (N.mod_small (ci + 1) 4) by lia. reflexivity. }
    rewrite Eptr.
    assert (Hm2 : meta_ok (ci + 1) (ch + 1) rsv s0 s1 s2) by (unfold meta_ok in *; lia).
    rewrite (commit_assembled _ _ _ _ _ _ _ _ ci ch info1 hop1 _ Hm2 Hs Hci Hch Hl1 Hl2). reflexivity.
  - rewrite (commit_assembled _ _ _ _ _ _ _ _ ci ch info1 hop1 _ Hm Hs Hci Hch Hl1 Hl2). reflexivity.
Qed.

Lemma advance_egress_no_panic {E} (v : validator E) b :
  view_ok b = true -> is_panic (snd (advance_egress v b)) = false.
Proof.
  intros Hv.
  destruct (view_decompose b Hv) as (ci & ch & rsv & s0 & s1 & s2 & IF & HF & -> & Hm & Hs & _).
  unfold advance_egress.
  rewrite (asm_curr_hf _ _ _ _ _ _ _ _ Hm), (asm_curr_inf _ _ _ _ _ _ _ _ Hm),
          (asm_hop_count _ _ _ _ _ _ _ _ Hm Hs).
  destruct (calculate_segment_index _ ch) as [[[seg st] en]|]; [|reflexivity].
  destruct (negb (seg =? ci)); [reflexivity|].
  destruct (hop_field _ ch) as [hop0|] eqn:Eh; [|reflexivity].
  destruct (info_field _ ci) as [info0|] eqn:Ei; [|reflexivity].
  destruct (hop_field_some_inv _ _ _ _ _ _ _ _ Hm Hs _ _ Eh) as (Hch & -> & Hlh).
  destruct (info_field_some_inv _ _ _ _ _ _ _ _ Hm Hs _ _ Ei) as (Hci & -> & Hli).
  set (hop0 := nth (N.to_nat ch) HF []) in *. set (info0 := nth (N.to_nat ci) IF []) in *.
  destruct (N.of_nat (length HF) <=? ch + 1); [reflexivity|].
  destruct (63 <? ch + 1); [reflexivity|].
  destruct en; [reflexivity|]. cbn [negb].
  match goal with |- context [commit _ ci ch ?i1 ?h1 tt] => set (info1 := i1) in *; set (hop1 := h1) in * end.
  assert (Hl1 : length info1 = 8%nat).
  { unfold info1. destruct (if_cons_dir info0); [|exact Hli].
    destruct (if_set_segid_only info0 (mac_beta_step (if_segid info0) (hf_mac hop0)) Hli) as [Hl _]. lia. }
  assert (Hl2 : length hop1 = 12%nat).
  { unfold hop1. destruct (N.testbit _ _); [|exact Hlh].
    match goal with |- length (hf_set_flags hop0 ?x) = _ => destruct (hf_set_flags_only hop0 x Hlh) as [Hl _] end. lia. }
  rewrite (commit_assembled _ _ _ _ _ _ _ _ ci ch info1 hop1 tt Hm Hs Hci Hch Hl1 Hl2). reflexivity.
Qed.

(** * ranges of the decoded fields *)
Lemma be_val_lt l : bytes_ok l = true -> be_val 0 l < 256 ^ N.of_nat (length l).
Proof.
  assert (G : forall l acc k, bytes_ok l = true -> acc < 256 ^ k -> be_val acc l < 256 ^ (k + N.of_nat (length l))).
  { induction l0 as [|x l0 IH]; intros acc k Hb Ha; cbn [be_val length].
    - now rewrite N.add_0_r.
    - unfold bytes_ok in Hb. cbn [forallb] in Hb. apply andb_prop in Hb as [Hx Hb]. unfold byte_ok in Hx.
      rewrite Nat2N.inj_succ, <- N.add_succ_comm. apply IH; [exact Hb|].
      rewrite N.pow_succ_r'. lia. }
  intros Hb. apply (G l 0 0 Hb). reflexivity.
Qed.
Lemma bytes_ok_get_range f off len : bytes_ok f = true -> bytes_ok (get_range f off len) = true.
Proof.
  intros H. unfold get_range, bytes_ok in *. apply forallb_forall. intros x Hx.
  apply In_firstn' in Hx. apply In_skipn' in Hx. rewrite forallb_forall in H. auto.
Qed.
Lemma field16_lt f off : bytes_ok f = true -> be_val 0 (get_range f off 2) < 65536.
Proof.
  intros H. pose proof (be_val_lt _ (bytes_ok_get_range f off 2 H)) as Hl.
  assert (length (get_range f off 2) <= 2)%nat by (unfold get_range; rewrite firstn_length; lia).
  eapply N.lt_le_trans; [exact Hl|]. change 65536 with (256 ^ 2). apply N.pow_le_mono_r; lia.
Qed.
Lemma field32_lt f off : bytes_ok f = true -> be_val 0 (get_range f off 4) < 4294967296.
Proof.
  intros H. pose proof (be_val_lt _ (bytes_ok_get_range f off 4 H)) as Hl.
  assert (length (get_range f off 4) <= 4)%nat by (unfold get_range; rewrite firstn_length; lia).
  eapply N.lt_le_trans; [exact Hl|]. change 4294967296 with (256 ^ 4). apply N.pow_le_mono_r; lia.
Qed.
Lemma byte_lt' f i : bytes_ok f = true -> byte f i < 256.
Proof.
  unfold byte, bytes_ok. revert i. induction f as [|x f IH]; intros i H; destruct i; cbn [nth]; try lia.
  - cbn [forallb] in H. apply andb_prop in H as [H _]. unfold byte_ok in H. lia.
  - cbn [forallb] in H. apply andb_prop in H as [_ H]. apply IH. exact H.
Qed.

Lemma asm_hop_count_sum ci ch rsv s0 s1 s2 IF HF :
  meta_ok ci ch rsv s0 s1 s2 -> hop_count (assemble ci ch rsv s0 s1 s2 IF HF) = s0 + s1 + s2.
Proof.
  intros Hm. unfold hop_count.
  now rewrite (asm_seg0 _ _ _ _ _ _ _ _ Hm), (asm_seg1 _ _ _ _ _ _ _ _ Hm), (asm_seg2 _ _ _ _ _ _ _ _ Hm).
Qed.

(** * accepted views stay accepted *)
Lemma mk_meta_bytes_ok ci ch rsv s0 s1 s2 : meta_ok ci ch rsv s0 s1 s2 -> bytes_ok (mk_meta ci ch rsv s0 s1 s2) = true.
Proof.
  unfold meta_ok, mk_meta, bytes_ok, byte_ok. intros H. cbn [forallb]. rewrite !andb_true_iff. repeat split; lia.
Qed.

Lemma view_ok_assemble ci ch rsv s0 s1 s2 IF HF :
  meta_ok ci ch rsv s0 s1 s2 -> shaped s0 s1 s2 IF HF ->
  Forall (fun f => bytes_ok f = true) IF -> Forall (fun f => bytes_ok f = true) HF ->
  view_ok (assemble ci ch rsv s0 s1 s2 IF HF) = true.
Proof.
  intros Hm Hs HI HH. unfold view_ok. rewrite !andb_true_iff. refine (conj (conj _ _) _).
  - rewrite (asm_length _ _ _ _ _ _ _ _ Hs). apply Nat.leb_le. lia.
  - rewrite (asm_required_size _ _ _ _ _ _ _ _ Hm Hs). apply N.eqb_refl.
  - unfold assemble, bytes_ok. rewrite !forallb_app, !andb_true_iff.
    refine (conj (mk_meta_bytes_ok _ _ _ _ _ _ Hm) (conj _ _)); apply bytes_ok_concat; assumption.
Qed.

Lemma Forall_upd {A} (P : A -> Prop) l i x : Forall P l -> P x -> Forall P (upd l i x).
Proof.
  intros Hl Hx. unfold upd. apply Forall_app. split.
  - apply Forall_forall. intros y Hy. rewrite Forall_forall in Hl. apply Hl. eapply In_firstn'. exact Hy.
  - apply Forall_app. split; [constructor; auto|].
    apply Forall_forall. intros y Hy. rewrite Forall_forall in Hl. apply Hl. eapply In_skipn'. exact Hy.
Qed.

Lemma if_set_segid_bytes_ok f v : bytes_ok f = true -> bytes_ok (if_set_segid f v) = true.
Proof.
  intros H. unfold if_set_segid, set_range, bytes_ok in *. rewrite !forallb_app, !andb_true_iff.
  refine (conj _ (conj (be_bytes_ok 2 v) _)); apply forallb_forall; intros x Hx; rewrite forallb_forall in H; apply H.
  - eapply In_firstn'. exact Hx.
  - eapply In_skipn'. exact Hx.
Qed.
Lemma hf_set_flags_bytes_ok f v : bytes_ok f = true -> bytes_ok (hf_set_flags f v) = true.
Proof.
  intros H. unfold hf_set_flags, set_byte, set_range, bytes_ok in *. rewrite !forallb_app, !andb_true_iff.
  refine (conj _ (conj _ _)).
  - apply forallb_forall; intros x Hx; rewrite forallb_forall in H; apply H. eapply In_firstn'. exact Hx.
  - cbn [forallb]. unfold byte_ok. assert (v mod 256 < 256) by (apply N.mod_lt; lia). rewrite andb_true_r. lia.
  - apply forallb_forall; intros x Hx; rewrite forallb_forall in H; apply H. eapply In_skipn'. exact Hx.
Qed.

(** * the exact effect of the advance functions on accepted views *)
Definition ing_info (fi : bool) (info hop : list N) : list N :=
  if negb fi && negb (if_cons_dir info)
  then if_set_segid info (mac_beta_step (if_segid info) (hf_mac hop)) else info.
Definition ing_hop (fi : bool) (info hop : list N) : list N :=
  if negb fi && N.testbit (hf_flags hop) (if if_cons_dir info then 1 else 0)
  then hf_set_flags hop (N.ldiff (hf_flags hop)
         (if if_cons_dir info then FLAG_CONS_INGRESS_ROUTER_ALERT else FLAG_CONS_EGRESS_ROUTER_ALERT))
  else hop.
Definition eg_info (info hop : list N) : list N :=
  if if_cons_dir info then if_set_segid info (mac_beta_step (if_segid info) (hf_mac hop)) else info.
Definition eg_hop (info hop : list N) : list N :=
  if N.testbit (hf_flags hop) (if if_cons_dir info then 0 else 1)
  then hf_set_flags hop (N.ldiff (hf_flags hop)
         (if if_cons_dir info then FLAG_CONS_EGRESS_ROUTER_ALERT else FLAG_CONS_INGRESS_ROUTER_ALERT))
  else hop.
Definition vres_err {E O} (r : vres (E := E) O) : option E :=
  match r with VOk _ => None | VFailed _ e => Some e end.
Lemma vres_err_vresult {E O} (verr : option E) (o : O) : vres_err (vresult verr o) = verr.
Proof. destruct verr; reflexivity. Qed.

Lemma ing_info_only fi info hop : length info = 8%nat -> info_segid_only info (ing_info fi info hop).
Proof. intros H. unfold ing_info. destruct (_ && _); [now apply if_set_segid_only|apply info_segid_only_refl]. Qed.
Lemma ing_hop_only fi info hop : length hop = 12%nat -> hop_flags_only hop (ing_hop fi info hop).
Proof. intros H. unfold ing_hop. destruct (_ && _); [now apply hf_set_flags_only|apply hop_flags_only_refl]. Qed.
Lemma eg_info_only info hop : length info = 8%nat -> info_segid_only info (eg_info info hop).
Proof. intros H. unfold eg_info. destruct (if_cons_dir info); [now apply if_set_segid_only|apply info_segid_only_refl]. Qed.
Lemma eg_hop_only info hop : length hop = 12%nat -> hop_flags_only hop (eg_hop info hop).
Proof. intros H. unfold eg_hop. destruct (N.testbit _ _); [now apply hf_set_flags_only|apply hop_flags_only_refl]. Qed.
Lemma ing_info_bytes_ok fi info hop : bytes_ok info = true -> bytes_ok (ing_info fi info hop) = true.
Proof. intros H. unfold ing_info. destruct (_ && _); [now apply if_set_segid_bytes_ok|exact H]. Qed.
Lemma ing_hop_bytes_ok fi info hop : bytes_ok hop = true -> bytes_ok (ing_hop fi info hop) = true.
Proof. intros H. unfold ing_hop. destruct (_ && _); [now apply hf_set_flags_bytes_ok|exact H]. Qed.
Lemma eg_info_bytes_ok info hop : bytes_ok info = true -> bytes_ok (eg_info info hop) = true.
Proof. intros H. unfold eg_info. destruct (if_cons_dir info); [now apply if_set_segid_bytes_ok|exact H]. Qed.
Lemma eg_hop_bytes_ok info hop : bytes_ok hop = true -> bytes_ok (eg_hop info hop) = true.
Proof. intros H. unfold eg_hop. destruct (N.testbit _ _); [now apply hf_set_flags_bytes_ok|exact H]. Qed.

Lemma advance_egress_exact {E} (v : validator E) ci ch rsv s0 s1 s2 IF HF b' r :
  meta_ok ci ch rsv s0 s1 s2 -> shaped s0 s1 s2 IF HF ->
  advance_egress v (assemble ci ch rsv s0 s1 s2 IF HF) = (b', Ok r) ->
  let hop0 := nth (N.to_nat ch) HF [] in
  let info0 := nth (N.to_nat ci) IF [] in
  b' = assemble ci (ch + 1) rsv s0 s1 s2 (upd IF (N.to_nat ci) (eg_info info0 hop0)) (upd HF (N.to_nat ch) (eg_hop info0 hop0))
  /\ ch + 1 < s0 + s1 + s2 /\ ch + 1 <= 63 /\ ci < N.of_nat (length IF) /\ ch < N.of_nat (length HF)
  /\ exists st, calc_seg_idx_aux ch 0 0 [s0; s1; s2] = Some (ci, st, false)
                /\ vres_err r = v_hop v ch hop0 info0 st false.
Proof.
  intros Hm Hs H hop0' info0'. unfold advance_egress in H.
  rewrite (asm_curr_hf _ _ _ _ _ _ _ _ Hm), (asm_curr_inf _ _ _ _ _ _ _ _ Hm),
          (asm_hop_count _ _ _ _ _ _ _ _ Hm Hs) in H.
  unfold calculate_segment_index in H. rewrite (asm_seg_lens _ _ _ _ _ _ _ _ Hm) in H.
  destruct (calc_seg_idx_aux ch 0 0 [s0; s1; s2]) as [[[seg st] en]|] eqn:Ecalc; [|discriminate].
  destruct (negb (seg =? ci)) eqn:Eseg; [discriminate|].
  assert (seg = ci) by (destruct (seg =? ci) eqn:E'; [lia|discriminate]). subst seg.
  destruct (hop_field _ ch) as [hop0|] eqn:Eh; [|discriminate].
  destruct (info_field _ ci) as [info0|] eqn:Ei; [|discriminate].
  destruct (hop_field_some_inv _ _ _ _ _ _ _ _ Hm Hs _ _ Eh) as (Hch & -> & Hlh).
  destruct (info_field_some_inv _ _ _ _ _ _ _ _ Hm Hs _ _ Ei) as (Hci & -> & Hli).
  fold hop0' info0' in H, Hlh, Hli.
  destruct (N.of_nat (length HF) <=? ch + 1) eqn:Efin; [discriminate|].
  destruct (63 <? ch + 1) eqn:Efit; [discriminate|].
  destruct en; [discriminate|]. cbn [negb] in H.
  fold (eg_info info0' hop0') in H. fold (eg_hop info0' hop0') in H.
  rewrite (commit_assembled _ _ _ _ _ _ _ _ ci ch _ _ tt Hm Hs Hci Hch) in H.
  2:{ destruct (eg_info_only info0' hop0' Hli) as [Hl _]. lia. }
  2:{ destruct (eg_hop_only info0' hop0' Hlh) as [Hl _]. lia. }
  injection H as <- <-.
  pose proof (sh_hf_cnt _ _ _ _ _ Hs) as Hn.
  refine (conj _ (conj _ (conj _ (conj Hci (conj Hch (ex_intro _ st (conj eq_refl _))))))); try lia.
  - unfold assemble. rewrite (put_curr_hf _ _ _ _ _ _ Hm).
    rewrite (N.mod_small (ch + 1) 256) by lia. rewrite (N.mod_small (ch + 1) 64) by lia. reflexivity.
  - apply vres_err_vresult.
Qed.

Lemma advance_ingress_exact {E} (v : validator E) fi ci ch rsv s0 s1 s2 IF HF b' r :
  meta_ok ci ch rsv s0 s1 s2 -> shaped s0 s1 s2 IF HF ->
  advance_ingress v fi (assemble ci ch rsv s0 s1 s2 IF HF) = (b', Ok r) ->
  let hop0 := nth (N.to_nat ch) HF [] in
  let info0 := nth (N.to_nat ci) IF [] in
  let info1 := ing_info fi info0 hop0 in
  let hop1 := ing_hop fi info0 hop0 in
  ci < N.of_nat (length IF) /\ ch < N.of_nat (length HF)
  /\ exists st en, calc_seg_idx_aux ch 0 0 [s0; s1; s2] = Some (ci, st, en)
     /\ (((en = false \/ s0 + s1 + s2 <= ch + 1)
          /\ b' = assemble ci ch rsv s0 s1 s2 (upd IF (N.to_nat ci) info1) (upd HF (N.to_nat ch) hop1)
          /\ vres_err r = v_hop v ch hop0 info1 st en)
         \/ (en = true /\ ch + 1 < s0 + s1 + s2 /\ ch + 1 <= 63 /\ ci + 1 < N.of_nat (length IF)
             /\ b' = assemble (ci + 1) (ch + 1) rsv s0 s1 s2 (upd IF (N.to_nat ci) info1) (upd HF (N.to_nat ch) hop1)
             /\ vres_err r =
                or_else (or_else (v_hop v ch hop0 info1 st true)
                                 (v_seg v ch hop1 info1 (nth (N.to_nat (ch + 1)) HF []) (nth (N.to_nat (ci + 1)) IF [])))
                        (v_hop v (ch + 1) (nth (N.to_nat (ch + 1)) HF []) (nth (N.to_nat (ci + 1)) IF []) true false))).
Proof.
  intros Hm Hs H hop0' info0' info1' hop1'. unfold advance_ingress in H.
  rewrite (asm_curr_hf _ _ _ _ _ _ _ _ Hm), (asm_curr_inf _ _ _ _ _ _ _ _ Hm),
          (asm_hop_count _ _ _ _ _ _ _ _ Hm Hs) in H.
  unfold calculate_segment_index in H. rewrite (asm_seg_lens _ _ _ _ _ _ _ _ Hm) in H.
  destruct (calc_seg_idx_aux ch 0 0 [s0; s1; s2]) as [[[seg st] en]|] eqn:Ecalc; [|discriminate].
  destruct (st && en); [discriminate|].
  destruct (negb (seg =? ci)) eqn:Eseg; [discriminate|].
  assert (seg = ci) by (destruct (seg =? ci) eqn:E'; [lia|discriminate]). subst seg.
  destruct (hop_field _ ch) as [hop0|] eqn:Eh; [|discriminate].
  destruct (info_field _ ci) as [info0|] eqn:Ei; [|discriminate].
  destruct (hop_field_some_inv _ _ _ _ _ _ _ _ Hm Hs _ _ Eh) as (Hch & -> & Hlh).
  destruct (info_field_some_inv _ _ _ _ _ _ _ _ Hm Hs _ _ Ei) as (Hci & -> & Hli).
  fold hop0' info0' in H, Hlh, Hli.
  fold (ing_info fi info0' hop0') in H. fold info1' in H.
  fold (ing_hop fi info0' hop0') in H. fold hop1' in H.
  assert (Hl1 : length info1' = 8%nat) by (destruct (ing_info_only fi info0' hop0' Hli) as [Hl _]; unfold info1'; lia).
  assert (Hl2 : length hop1' = 12%nat) by (destruct (ing_hop_only fi info0' hop0' Hlh) as [Hl _]; unfold hop1'; lia).
  pose proof (sh_hf_cnt _ _ _ _ _ Hs) as Hn.
  refine (conj Hci (conj Hch (ex_intro _ st (ex_intro _ en (conj eq_refl _))))).
  destruct (N.of_nat (length HF) <=? ch + 1) eqn:Efin; destruct en.
  - rewrite (commit_assembled _ _ _ _ _ _ _ _ ci ch info1' hop1' _ Hm Hs Hci Hch Hl1 Hl2) in H.
    cbn [obind] in H. injection H as <- <-. left.
    refine (conj (or_intror _) (conj eq_refl (vres_err_vresult _ _))). lia.
  - discriminate.
  - destruct (63 <? ch + 1) eqn:Efit; [discriminate|].
    destruct (hop_field _ (ch + 1)) as [nh|] eqn:Enh; [|discriminate].
    destruct (info_field _ (ci + 1)) as [ni|] eqn:Eni; [|discriminate].
    destruct (hop_field_some_inv _ _ _ _ _ _ _ _ Hm Hs _ _ Enh) as (Hch1 & -> & _).
    destruct (info_field_some_inv _ _ _ _ _ _ _ _ Hm Hs _ _ Eni) as (Hci1 & -> & _).
    pose proof (sh_if_cnt _ _ _ _ _ Hs) as Hni.
    assert (Hci3 : ci + 1 < 4) by (unfold nz in Hni; destruct (s0 =? 0), (s1 =? 0), (s2 =? 0); lia).
    assert (Eptr : set_curr_inf (set_curr_hf (assemble ci ch rsv s0 s1 s2 IF HF) ((ch + 1) mod 256)) ((ci + 1) mod 256)
                   = assemble (ci + 1) (ch + 1) rsv s0 s1 s2 IF HF).
    { unfold assemble. rewrite (put_curr_hf _ _ _ _ _ _ Hm).
      assert (Hm1 : meta_ok ci ((ch + 1) mod 256 mod 64) rsv s0 s1 s2) by (unfold meta_ok in *; lia).
      rewrite (put_curr_inf _ _ _ _ _ _ Hm1).
      rewrite (N.mod_small (ch + 1) 256), (N.mod_small (ch + 1) 64),
              (N.mod_small (ci + 1) 256), (N.mod_small (ci + 1) 4) by lia. reflexivity. }
    rewrite Eptr in H.
    assert (Hm2 : meta_ok (ci + 1) (ch + 1) rsv s0 s1 s2) by (unfold meta_ok in *; lia).
    rewrite (commit_assembled _ _ _ _ _ _ _ _ ci ch info1' hop1' _ Hm2 Hs Hci Hch Hl1 Hl2) in H.
    cbn [obind] in H. injection H as <- <-. right.
    refine (conj eq_refl (conj _ (conj _ (conj Hci1 (conj eq_refl (vres_err_vresult _ _)))))); lia.
  - rewrite (commit_assembled _ _ _ _ _ _ _ _ ci ch info1' hop1' _ Hm Hs Hci Hch Hl1 Hl2) in H.
    cbn [obind] in H. injection H as <- <-. left.
    refine (conj (or_introl eq_refl) (conj eq_refl (vres_err_vresult _ _))).
Qed.

(** * accepted views stay accepted, the pointer moves forward *)
Lemma Forall_nth_ok (l : list (list N)) i :
  Forall (fun f => bytes_ok f = true) l -> bytes_ok (nth i l []) = true.
Proof.
  intros H. destruct (Nat.lt_ge_cases i (length l)) as [Hi|Hi].
  - rewrite Forall_forall in H. apply H. now apply nth_In.
  - now rewrite nth_overflow by lia.
Qed.

Lemma egress_step {E} (v : validator E) b b' r :
  view_ok b = true -> advance_egress v b = (b', Ok r) ->
  view_ok b' = true /\ curr_hf b' = curr_hf b + 1 /\ curr_hf b' < hop_count b /\ hop_count b' = hop_count b.
Proof.
  intros Hv H.
  destruct (view_decompose b Hv) as (ci & ch & rsv & s0 & s1 & s2 & IF & HF & -> & Hm & Hs & Hb).
  destruct (bytes_ok_assemble _ _ _ _ _ _ _ _ Hb) as [HbI HbH].
  destruct (advance_egress_exact v _ _ _ _ _ _ _ _ _ _ Hm Hs H) as (-> & H1 & H2 & Hci & Hch & _).
  assert (Hm' : meta_ok ci (ch + 1) rsv s0 s1 s2) by (unfold meta_ok in *; lia).
  rewrite (asm_curr_hf _ _ _ _ _ _ _ _ Hm'), (asm_curr_hf _ _ _ _ _ _ _ _ Hm).
  rewrite !asm_hop_count_sum by assumption.
  refine (conj _ (conj eq_refl (conj H1 eq_refl))).
  pose proof (sh_if_len _ _ _ _ _ Hs) as HaI. pose proof (sh_hf_len _ _ _ _ _ Hs) as HaH.
  unfold all_len in HaI, HaH. rewrite Forall_forall in HaI, HaH.
  apply view_ok_assemble; [exact Hm'| | |].
  - apply shaped_upd; auto; try lia.
    + destruct (eg_info_only (nth (N.to_nat ci) IF []) (nth (N.to_nat ch) HF [])) as [Hl _]; [apply HaI, nth_In; lia|].
      rewrite Hl. apply HaI, nth_In. lia.
    + destruct (eg_hop_only (nth (N.to_nat ci) IF []) (nth (N.to_nat ch) HF [])) as [Hl _]; [apply HaH, nth_In; lia|].
      rewrite Hl. apply HaH, nth_In. lia.
  - apply Forall_upd; [exact HbI|]. apply eg_info_bytes_ok. now apply Forall_nth_ok.
  - apply Forall_upd; [exact HbH|]. apply eg_hop_bytes_ok. now apply Forall_nth_ok.
Qed.

Lemma ingress_step {E} (v : validator E) fi b b' r :
  view_ok b = true -> advance_ingress v fi b = (b', Ok r) ->
  view_ok b' = true /\ curr_hf b <= curr_hf b' /\ hop_count b' = hop_count b /\ curr_hf b' < hop_count b.
Proof.
  intros Hv H.
  destruct (view_decompose b Hv) as (ci & ch & rsv & s0 & s1 & s2 & IF & HF & -> & Hm & Hs & Hb).
  destruct (bytes_ok_assemble _ _ _ _ _ _ _ _ Hb) as [HbI HbH].
  destruct (advance_ingress_exact v fi _ _ _ _ _ _ _ _ _ _ Hm Hs H) as (Hci & Hch & st & en & Ecalc & Hcase).
  pose proof (calc_some_lt _ _ _ _ _ Ecalc) as Hlt.
  pose proof (sh_if_len _ _ _ _ _ Hs) as HaI. pose proof (sh_hf_len _ _ _ _ _ Hs) as HaH.
  unfold all_len in HaI, HaH. rewrite Forall_forall in HaI, HaH.
  pose proof (sh_if_cnt _ _ _ _ _ Hs) as Hni.
  assert (HIF3 : N.of_nat (length IF) <= 3) by (unfold nz in Hni; destruct (s0 =? 0), (s1 =? 0), (s2 =? 0); lia).
  assert (Hsh : shaped s0 s1 s2 (upd IF (N.to_nat ci) (ing_info fi (nth (N.to_nat ci) IF []) (nth (N.to_nat ch) HF [])))
                              (upd HF (N.to_nat ch) (ing_hop fi (nth (N.to_nat ci) IF []) (nth (N.to_nat ch) HF [])))).
  { apply shaped_upd; auto; try lia.
    + destruct (ing_info_only fi (nth (N.to_nat ci) IF []) (nth (N.to_nat ch) HF [])) as [Hl _]; [apply HaI, nth_In; lia|].
      rewrite Hl. apply HaI, nth_In. lia.
    + destruct (ing_hop_only fi (nth (N.to_nat ci) IF []) (nth (N.to_nat ch) HF [])) as [Hl _]; [apply HaH, nth_In; lia|].
      rewrite Hl. apply HaH, nth_In. lia. }
  assert (HfI : Forall (fun f => bytes_ok f = true) (upd IF (N.to_nat ci) (ing_info fi (nth (N.to_nat ci) IF []) (nth (N.to_nat ch) HF [])))).
  { apply Forall_upd; [exact HbI|]. apply ing_info_bytes_ok. now apply Forall_nth_ok. }
  assert (HfH : Forall (fun f => bytes_ok f = true) (upd HF (N.to_nat ch) (ing_hop fi (nth (N.to_nat ci) IF []) (nth (N.to_nat ch) HF [])))).
  { apply Forall_upd; [exact HbH|]. apply ing_hop_bytes_ok. now apply Forall_nth_ok. }
  rewrite (asm_curr_hf _ _ _ _ _ _ _ _ Hm). rewrite !asm_hop_count_sum by assumption.
  destruct Hcase as [(_ & -> & _)|(_ & H1 & H2 & H3 & -> & _)].
  - rewrite (asm_curr_hf _ _ _ _ _ _ _ _ Hm). rewrite ?asm_hop_count_sum by assumption.
    refine (conj _ (conj _ (conj eq_refl Hlt))); [|lia].
    apply view_ok_assemble; assumption.
  - assert (Hm' : meta_ok (ci + 1) (ch + 1) rsv s0 s1 s2) by (unfold meta_ok in *; lia).
    rewrite (asm_curr_hf _ _ _ _ _ _ _ _ Hm'). rewrite ?asm_hop_count_sum by assumption.
    refine (conj _ (conj _ (conj eq_refl H1))); [|lia].
    apply view_ok_assemble; assumption.
Qed.

Lemma process_forwarded {E} (v : validator E) fi b b' eg :
  view_ok b = true -> process_at_as v fi b = (b', Forwarded eg) ->
  view_ok b' = true /\ curr_hf b < curr_hf b' /\ curr_hf b' < hop_count b /\ hop_count b' = hop_count b.
Proof.
  intros Hv H. unfold process_at_as in H.
  destruct (advance_ingress v fi b) as [b1 r1] eqn:E1.
  destruct r1 as [[o|o e]|e|s]; try discriminate.
  destruct (io_action o); [|discriminate].
  destruct (advance_egress v b1) as [b2 r2] eqn:E2.
  destruct r2 as [[o2|o2 e2]|e2|s2]; try discriminate. injection H as <- _.
  destruct (ingress_step v fi b b1 _ Hv E1) as (Hv1 & Hle & Hc1 & _).
  destruct (egress_step v b1 b2 _ Hv1 E2) as (Hv2 & Hs2 & Hlt & Hc2).
  refine (conj Hv2 (conj _ (conj _ _))); lia.
Qed.

(** a run of ASes, each with its own validator and entry side, all of which forward *)
Fixpoint forwarded_through {E} (vs : list (validator E * bool)) (b : list N) : option (list N) :=
  match vs with
  | [] => Some b
  | (v, fi) :: r =>
    match process_at_as v fi b with
    | (b1, Forwarded _) => forwarded_through r b1
    | _ => None
    end
  end.

Lemma forwarded_through_measure {E} (vs : list (validator E * bool)) b b' :
  view_ok b = true -> forwarded_through vs b = Some b' ->
  view_ok b' = true /\ curr_hf b + N.of_nat (length vs) <= curr_hf b' /\ hop_count b' = hop_count b
  /\ (vs <> [] -> curr_hf b' < hop_count b).
Proof.
  revert b. induction vs as [|[v fi] vs IH]; intros b Hv H; cbn [forwarded_through length] in *.
  - injection H as <-. refine (conj Hv (conj _ (conj eq_refl _))); [lia|congruence].
  - destruct (process_at_as v fi b) as [b1 res] eqn:E1. destruct res; try discriminate.
    destruct (process_forwarded v fi b b1 _ Hv E1) as (Hv1 & Hlt & Hlt2 & Hc).
    destruct (IH b1 Hv1 H) as (Hv' & Hle & Hc' & Hne).
    refine (conj Hv' (conj _ (conj _ _))); [lia|lia|]. intros _.
    destruct vs as [|x vs'].
    + cbn in H. injection H as <-. lia.
    + rewrite <- Hc. apply Hne. discriminate.
Qed.

(** * forward computation of the advance functions on accepted views *)
Definition ing_alert (info hop : list N) : bool := N.testbit (hf_flags hop) (if if_cons_dir info then 1 else 0).
Definition eg_alert (info hop : list N) : bool := N.testbit (hf_flags hop) (if if_cons_dir info then 0 else 1).

Section Forward.
Context {E : Type} (v : validator E).
Variables ci ch rsv s0 s1 s2 : N.
Variables IF HF : list (list N).
Hypothesis Hm : meta_ok ci ch rsv s0 s1 s2.
Hypothesis Hs : shaped s0 s1 s2 IF HF.
Hypothesis Hci : ci < N.of_nat (length IF).
Hypothesis Hch : ch < N.of_nat (length HF).
Let b := assemble ci ch rsv s0 s1 s2 IF HF.
Let hop0 := nth (N.to_nat ch) HF [].
Let info0 := nth (N.to_nat ci) IF [].

Lemma hop0_len : length hop0 = 12%nat.
Proof.
  pose proof (sh_hf_len _ _ _ _ _ Hs) as Ha. unfold all_len in Ha. rewrite Forall_forall in Ha.
  apply Ha. apply nth_In. lia.
Qed.
Lemma info0_len : length info0 = 8%nat.
Proof.
  pose proof (sh_if_len _ _ _ _ _ Hs) as Ha. unfold all_len in Ha. rewrite Forall_forall in Ha.
  apply Ha. apply nth_In. lia.
Qed.

(* ingress without segment change: the final hop, or the interior of a segment *)
Lemma ingress_fwd fi st en :
  calc_seg_idx_aux ch 0 0 [s0; s1; s2] = Some (ci, st, en) -> st && en = false ->
  (N.of_nat (length HF) <=? ch + 1) = en ->
  let info1 := ing_info fi info0 hop0 in
  let hop1 := ing_hop fi info0 hop0 in
  advance_ingress v fi b
  = (assemble ci ch rsv s0 s1 s2 (upd IF (N.to_nat ci) info1) (upd HF (N.to_nat ch) hop1),
     Ok (vresult (v_hop v ch hop0 info1 st en)
                 (mkIngOut (ing_alert info0 hop0) (hf_ingress_if hop0 info0)
                           (if en then ForwardLocal else ContinueEgress (hf_egress_if hop1 info1))))).
Proof.
  intros Ecalc Hse Harm info1 hop1. unfold advance_ingress. subst b.
  rewrite (asm_curr_hf _ _ _ _ _ _ _ _ Hm), (asm_curr_inf _ _ _ _ _ _ _ _ Hm),
          (asm_hop_count _ _ _ _ _ _ _ _ Hm Hs).
  unfold calculate_segment_index. rewrite (asm_seg_lens _ _ _ _ _ _ _ _ Hm), Ecalc, Hse, N.eqb_refl.
  cbn [negb]. rewrite (asm_hop_field _ _ _ _ _ _ _ _ Hm Hs ch Hch), (asm_info_field _ _ _ _ _ _ _ _ Hm Hs ci Hci).
  fold hop0 info0. fold (ing_info fi info0 hop0). fold info1. fold (ing_hop fi info0 hop0). fold hop1.
  rewrite Harm.
  assert (Hl1 : length info1 = 8%nat) by (destruct (ing_info_only fi info0 hop0 info0_len) as [Hl _]; unfold info1; rewrite Hl; apply info0_len).
  assert (Hl2 : length hop1 = 12%nat) by (destruct (ing_hop_only fi info0 hop0 hop0_len) as [Hl _]; unfold hop1; rewrite Hl; apply hop0_len).
  destruct en.
  - rewrite (commit_assembled _ _ _ _ _ _ _ _ ci ch info1 hop1 _ Hm Hs Hci Hch Hl1 Hl2). reflexivity.
  - rewrite (commit_assembled _ _ _ _ _ _ _ _ ci ch info1 hop1 _ Hm Hs Hci Hch Hl1 Hl2). reflexivity.
Qed.

Lemma egress_fwd st :
  calc_seg_idx_aux ch 0 0 [s0; s1; s2] = Some (ci, st, false) ->
  ch + 1 < N.of_nat (length HF) -> ch + 1 <= 63 ->
  advance_egress v b
  = (assemble ci (ch + 1) rsv s0 s1 s2 (upd IF (N.to_nat ci) (eg_info info0 hop0)) (upd HF (N.to_nat ch) (eg_hop info0 hop0)),
     Ok (vresult (v_hop v ch hop0 info0 st false)
                 (mkEgOut (eg_alert info0 hop0) (hf_egress_if (eg_hop info0 hop0) (eg_info info0 hop0))))).
Proof.
  intros Ecalc Hnf Hfit. unfold advance_egress. subst b.
  rewrite (asm_curr_hf _ _ _ _ _ _ _ _ Hm), (asm_curr_inf _ _ _ _ _ _ _ _ Hm),
          (asm_hop_count _ _ _ _ _ _ _ _ Hm Hs).
  unfold calculate_segment_index. rewrite (asm_seg_lens _ _ _ _ _ _ _ _ Hm), Ecalc, N.eqb_refl.
  cbn [negb]. rewrite (asm_hop_field _ _ _ _ _ _ _ _ Hm Hs ch Hch), (asm_info_field _ _ _ _ _ _ _ _ Hm Hs ci Hci).
  fold hop0 info0.
  destruct (N.of_nat (length HF) <=? ch + 1) eqn:E1; [lia|].
  destruct (63 <? ch + 1) eqn:E2; [lia|].
  fold (eg_info info0 hop0). fold (eg_hop info0 hop0).
  rewrite (commit_assembled _ _ _ _ _ _ _ _ ci ch _ _ tt Hm Hs Hci Hch).
  2:{ destruct (eg_info_only info0 hop0 info0_len) as [Hl _]. rewrite Hl. apply info0_len. }
  2:{ destruct (eg_hop_only info0 hop0 hop0_len) as [Hl _]. rewrite Hl. apply hop0_len. }
  unfold assemble. rewrite (put_curr_hf _ _ _ _ _ _ Hm).
  rewrite (N.mod_small (ch + 1) 256) by lia. rewrite (N.mod_small (ch + 1) 64) by lia. reflexivity.
Qed.
End Forward.

(** * authentic hop fields verify: one AS, either direction, entry from inside or outside *)
Definition sigma (hop : list N) : N := be_val 0 (firstn 2 (hf_mac hop)).
Definition mac_ok (cmac : list N -> list N -> list N) (key : list N) (beta ts : N) (hop : list N) : Prop :=
  hf_mac hop = firstn 6 (cmac key (mac_input beta ts (hf_exp hop) (hf_cons_ingress hop) (hf_cons_egress hop))).

Lemma lxor_lt_pow2 a c k : a < 2 ^ k -> c < 2 ^ k -> N.lxor a c < 2 ^ k.
Proof.
  intros Ha Hc. destruct (N.eq_dec (N.lxor a c) 0) as [E|Hn]; [rewrite E; lia|].
  apply (proj2 (N.log2_lt_pow2 (N.lxor a c) k (proj1 (N.neq_0_lt_0 _) Hn))).
  pose proof (N.log2_lxor a c) as Hl.
  destruct (N.eq_dec a 0) as [Ea|Ha0]; destruct (N.eq_dec c 0) as [Ec|Hc0].
  - subst. now rewrite N.lxor_0_l in Hn.
  - subst a. rewrite N.lxor_0_l. apply (proj1 (N.log2_lt_pow2 c k (proj1 (N.neq_0_lt_0 _) Hc0))). exact Hc.
  - subst c. rewrite N.lxor_0_r. apply (proj1 (N.log2_lt_pow2 a k (proj1 (N.neq_0_lt_0 _) Ha0))). exact Ha.
  - pose proof (proj1 (N.log2_lt_pow2 a k (proj1 (N.neq_0_lt_0 _) Ha0)) Ha).
    pose proof (proj1 (N.log2_lt_pow2 c k (proj1 (N.neq_0_lt_0 _) Hc0)) Hc). lia.
Qed.

Lemma hop_fields_of_tail x y r :
  hf_mac (x :: r) = hf_mac (y :: r) /\ hf_exp (x :: r) = hf_exp (y :: r)
  /\ hf_cons_ingress (x :: r) = hf_cons_ingress (y :: r) /\ hf_cons_egress (x :: r) = hf_cons_egress (y :: r).
Proof. repeat split. Qed.

Lemma hop_flags_only_fields a c :
  length a = 12%nat -> hop_flags_only a c ->
  hf_mac c = hf_mac a /\ hf_exp c = hf_exp a /\ hf_cons_ingress c = hf_cons_ingress a
  /\ hf_cons_egress c = hf_cons_egress a.
Proof.
  intros Hl [Hlen Hsk]. destruct a as [|x r]; [discriminate|]. destruct c as [|y r']; [cbn in Hlen; lia|].
  cbn [skipn] in Hsk. subst r'. apply hop_fields_of_tail.
Qed.

Lemma info_segid_only_fields a c :
  length a = 8%nat -> info_segid_only a c -> if_flags c = if_flags a /\ if_ts c = if_ts a /\ if_cons_dir c = if_cons_dir a.
Proof.
  intros Hl (Hlen & Hf & Hsk).
  assert (Hfl : if_flags c = if_flags a).
  { unfold if_flags, byte. destruct a as [|x a]; [discriminate|]. destruct c as [|y c]; [cbn in Hlen; lia|].
    destruct a as [|x' a]; [discriminate|]. destruct c as [|y' c]; [cbn in Hlen; lia|].
    cbn [firstn] in Hf. now injection Hf. }
  refine (conj Hfl (conj _ _)).
  - unfold if_ts, get_range. now rewrite Hsk.
  - unfold if_cons_dir. now rewrite Hfl.
Qed.

Lemma if_segid_set info v : length info = 8%nat -> v < 65536 -> if_segid (if_set_segid info v) = v.
Proof.
  intros Hl Hv. unfold if_segid, if_set_segid, set_range, get_range.
  rewrite skipn_app_exact by (rewrite firstn_length; lia).
  rewrite firstn_app_exact by (now rewrite be_bytes_length). apply (be_val_be_bytes 2). exact Hv.
Qed.

Lemma upd_upd {A} (l : list A) i x y : (i < length l)%nat -> upd (upd l i x) i y = upd l i y.
Proof.
  intros Hi. unfold upd.
  rewrite firstn_app_exact by (rewrite firstn_length; lia).
  f_equal. f_equal. rewrite app_assoc. rewrite skipn_app_exact; [reflexivity|].
  rewrite app_length, firstn_length. cbn. lia.
Qed.

Lemma hop_mac_check_flags cmac key hop hop' info :
  length hop = 12%nat -> hop_flags_only hop hop' ->
  hop_mac_check cmac key hop' info = hop_mac_check cmac key hop info.
Proof.
  intros Hl Ho. destruct (hop_flags_only_fields _ _ Hl Ho) as (E1 & E2 & E3 & E4).
  unfold hop_mac_check. now rewrite E1, E2, E3, E4.
Qed.

Section Authentic.
Variable cmac : list N -> list N -> list N.
Variable key : list N.
Variables ci ch rsv s0 s1 s2 : N.
Variables IF HF : list (list N).
Hypothesis Hm : meta_ok ci ch rsv s0 s1 s2.
Hypothesis Hs : shaped s0 s1 s2 IF HF.
Hypothesis Hci : ci < N.of_nat (length IF).
Hypothesis Hch : ch < N.of_nat (length HF).
Hypothesis HbI : Forall (fun f => bytes_ok f = true) IF.
Hypothesis HbH : Forall (fun f => bytes_ok f = true) HF.
Let b := assemble ci ch rsv s0 s1 s2 IF HF.
Let hop0 := nth (N.to_nat ch) HF [].
Let info0 := nth (N.to_nat ci) IF [].

(* the chaining value the owning AS authenticates with: the carried SegID, XOR-stepped on
   arrival from outside against construction direction *)
Definition beta_used (fi : bool) : N :=
  if fi || if_cons_dir info0 then if_segid info0 else N.lxor (if_segid info0) (sigma hop0).

Lemma ing_info_segid fi :
  if_segid (ing_info fi info0 hop0) = beta_used fi /\ if_ts (ing_info fi info0 hop0) = if_ts info0
  /\ if_cons_dir (ing_info fi info0 hop0) = if_cons_dir info0.
Proof.
  assert (Hl : length info0 = 8%nat) by (unfold info0; eapply info0_len; eassumption).
  destruct (info_segid_only_fields _ _ Hl (ing_info_only fi info0 hop0 Hl)) as (_ & Et & Ec).
  refine (conj _ (conj Et Ec)).
  unfold ing_info, beta_used. destruct fi; cbn [negb andb orb]; [reflexivity|].
  destruct (if_cons_dir info0); cbn [negb]; [reflexivity|].
  apply if_segid_set; [exact Hl|]. unfold mac_beta_step. fold (sigma hop0).
  apply (lxor_lt_pow2 _ _ 16).
  - apply field16_lt. now apply Forall_nth_ok.
  - unfold sigma. apply (N.lt_le_trans _ (256 ^ N.of_nat (length (firstn 2 (hf_mac hop0))))).
    + apply be_val_lt. unfold hf_mac, get_range, bytes_ok. apply forallb_forall. intros x Hx.
      apply In_firstn' in Hx. apply In_firstn' in Hx. apply In_skipn' in Hx.
      pose proof (Forall_nth_ok HF (N.to_nat ch) HbH) as Hb. fold hop0 in Hb. unfold bytes_ok in Hb.
      rewrite forallb_forall in Hb. auto.
    + change (2 ^ 16) with (256 ^ 2). apply N.pow_le_mono_r; [lia|]. rewrite firstn_length. lia.
Qed.

(** interior of a segment: the AS forwards, SegID afterwards as the next AS expects it *)
Lemma as_forwards_authentic fi st :
  calc_seg_idx_aux ch 0 0 [s0; s1; s2] = Some (ci, st, false) ->
  ch + 1 < N.of_nat (length HF) -> ch + 1 <= 63 ->
  mac_ok cmac key (beta_used fi) (if_ts info0) hop0 ->
  exists info' hop' eg,
    process_at_as (hop_mac_validator cmac key) fi b
    = (assemble ci (ch + 1) rsv s0 s1 s2 (upd IF (N.to_nat ci) info') (upd HF (N.to_nat ch) hop'), Forwarded eg)
    /\ hop_flags_only hop0 hop' /\ info_segid_only info0 info'
    /\ if_segid info' = (if if_cons_dir info0 then N.lxor (beta_used fi) (sigma hop0) else beta_used fi)
    /\ bytes_ok info' = true /\ bytes_ok hop' = true.
Proof.
  intros Ecalc Hnf Hfit Hmac.
  assert (Hli : length info0 = 8%nat) by (unfold info0; eapply info0_len; eassumption).
  assert (Hlh : length hop0 = 12%nat) by (unfold hop0; eapply hop0_len; eassumption).
  destruct (ing_info_segid fi) as (Eseg & Ets & Ecd).
  set (info1 := ing_info fi info0 hop0) in *. set (hop1 := ing_hop fi info0 hop0).
  pose proof (ing_info_only fi info0 hop0 Hli) as Ho1. fold info1 in Ho1.
  pose proof (ing_hop_only fi info0 hop0 Hlh) as Ho2. fold hop1 in Ho2.
  assert (Hl1 : length info1 = 8%nat) by (destruct Ho1 as [Hl _]; lia).
  assert (Hl2 : length hop1 = 12%nat) by (destruct Ho2 as [Hl _]; lia).
  (* ingress *)
  assert (Harm : (N.of_nat (length HF) <=? ch + 1) = false) by lia.
  unfold process_at_as. subst b.
  rewrite (ingress_fwd (hop_mac_validator cmac key) _ _ _ _ _ _ _ _ Hm Hs Hci Hch fi st false Ecalc (andb_false_r st) Harm).
  fold hop0 info0 info1 hop1.
  assert (Ev1 : v_hop (hop_mac_validator cmac key) ch hop0 info1 st false = None).
  { cbn [v_hop hop_mac_validator]. apply hop_mac_check_none. rewrite Eseg, Ets. exact Hmac. }
  rewrite Ev1. cbn [vresult io_action].
  (* egress on the committed state *)
  assert (Hi' : (N.to_nat ci < length IF)%nat) by lia. assert (Hh' : (N.to_nat ch < length HF)%nat) by lia.
  assert (Hs1 : shaped s0 s1 s2 (upd IF (N.to_nat ci) info1) (upd HF (N.to_nat ch) hop1)) by (apply shaped_upd; auto).
  assert (Hci1 : ci < N.of_nat (length (upd IF (N.to_nat ci) info1))) by (rewrite upd_length; lia).
  assert (Hch1 : ch < N.of_nat (length (upd HF (N.to_nat ch) hop1))) by (rewrite upd_length; lia).
  assert (Hnf1 : ch + 1 < N.of_nat (length (upd HF (N.to_nat ch) hop1))) by (rewrite upd_length; lia).
  rewrite (egress_fwd (hop_mac_validator cmac key) _ _ _ _ _ _ _ _ Hm Hs1 Hci1 Hch1 st Ecalc Hnf1 Hfit).
  rewrite !nth_upd_same by lia.
  assert (Ev2 : v_hop (hop_mac_validator cmac key) ch hop1 info1 st false = None).
  { cbn [v_hop hop_mac_validator]. rewrite (hop_mac_check_flags cmac key hop0 hop1 info1 Hlh Ho2).
    apply hop_mac_check_none. rewrite Eseg, Ets. exact Hmac. }
  rewrite Ev2. cbn [vresult].
  rewrite !upd_upd by lia.
  exists (eg_info info1 hop1), (eg_hop info1 hop1), (eo_egress (mkEgOut (eg_alert info1 hop1) (hf_egress_if (eg_hop info1 hop1) (eg_info info1 hop1)))).
  assert (Hbi1 : bytes_ok info1 = true) by (unfold info1; apply ing_info_bytes_ok; now apply Forall_nth_ok).
  assert (Hbh1 : bytes_ok hop1 = true) by (unfold hop1; apply ing_hop_bytes_ok; now apply Forall_nth_ok).
  refine (conj eq_refl (conj _ (conj _ (conj _ (conj (eg_info_bytes_ok _ _ Hbi1) (eg_hop_bytes_ok _ _ Hbh1)))))).
  - destruct (eg_hop_only info1 hop1 Hl2) as [Ha Hb2]. destruct Ho2 as [Hc Hd]. split; [lia|congruence].
  - destruct (eg_info_only info1 hop1 Hl1) as (Ha & Hb2 & Hc). destruct Ho1 as (Hd & He & Hf).
    refine (conj _ (conj _ _)); [lia|congruence|congruence].
  - unfold eg_info. rewrite Ecd. destruct (if_cons_dir info0); [|exact Eseg].
    destruct (hop_flags_only_fields _ _ Hlh Ho2) as (Em & _).
    unfold mac_beta_step. rewrite Em. fold (sigma hop0). rewrite Eseg.
    apply if_segid_set; [exact Hl1|].
    apply (lxor_lt_pow2 _ _ 16).
    + rewrite <- Eseg. apply field16_lt.
      unfold info1. apply ing_info_bytes_ok. now apply Forall_nth_ok.
    + unfold sigma. apply (N.lt_le_trans _ (256 ^ N.of_nat (length (firstn 2 (hf_mac hop0))))).
      * apply be_val_lt. unfold hf_mac, get_range, bytes_ok. apply forallb_forall. intros x Hx.
        apply In_firstn' in Hx. apply In_firstn' in Hx. apply In_skipn' in Hx.
        pose proof (Forall_nth_ok HF (N.to_nat ch) HbH) as Hb. fold hop0 in Hb. unfold bytes_ok in Hb.
        rewrite forallb_forall in Hb. auto.
      * change (2 ^ 16) with (256 ^ 2). apply N.pow_le_mono_r; [lia|]. rewrite firstn_length. lia.
Qed.

(** the last hop of the path: delivered locally *)
Lemma as_delivers_authentic fi st :
  calc_seg_idx_aux ch 0 0 [s0; s1; s2] = Some (ci, st, true) -> st = false ->
  N.of_nat (length HF) <= ch + 1 ->
  mac_ok cmac key (beta_used fi) (if_ts info0) hop0 ->
  exists b', process_at_as (hop_mac_validator cmac key) fi b = (b', Delivered).
Proof.
  intros Ecalc -> Hfin Hmac.
  destruct (ing_info_segid fi) as (Eseg & Ets & Ecd).
  assert (Harm : (N.of_nat (length HF) <=? ch + 1) = true) by lia.
  unfold process_at_as. subst b.
  rewrite (ingress_fwd (hop_mac_validator cmac key) _ _ _ _ _ _ _ _ Hm Hs Hci Hch fi false true Ecalc eq_refl Harm).
  fold hop0 info0.
  assert (Ev1 : v_hop (hop_mac_validator cmac key) ch hop0 (ing_info fi info0 hop0) false true = None).
  { cbn [v_hop hop_mac_validator]. apply hop_mac_check_none. rewrite Eseg, Ets. exact Hmac. }
  rewrite Ev1. cbn [vresult io_action]. eexists. reflexivity.
Qed.
End Authentic.

(** * a whole run of ASes inside one segment: chained MACs verify hop after hop *)
Section Walk.
Variable cmac : list N -> list N -> list N.

(** the chaining values along the WIRE order of the hop fields: in construction direction the
    next value folds in the hop just validated, against it the hop about to be validated *)
Fixpoint wire_chain (cons : bool) (ts beta : N) (hops : list (list N)) (keys : list (list N)) : Prop :=
  match hops, keys with
  | h :: r, k :: kr =>
    mac_ok cmac k beta ts h
    /\ match r with
       | [] => True
       | h' :: _ => wire_chain cons ts (if cons then N.lxor beta (sigma h) else N.lxor beta (sigma h')) r kr
       end
  | _, _ => True
  end.

Definition run_of (fi : bool) (keys : list (list N)) : list (validator (list N * list N) * bool) :=
  match keys with
  | [] => []
  | k :: kr => (hop_mac_validator cmac k, fi) :: map (fun k' => (hop_mac_validator cmac k', false)) kr
  end.

Lemma segment_walk keys :
  forall fi ci ch rsv s0 s1 s2 IF HF,
    meta_ok ci ch rsv s0 s1 s2 -> shaped s0 s1 s2 IF HF ->
    ci < N.of_nat (length IF) ->
    Forall (fun f => bytes_ok f = true) IF -> Forall (fun f => bytes_ok f = true) HF ->
    ch + N.of_nat (length keys) < N.of_nat (length HF) -> ch + N.of_nat (length keys) <= 63 ->
    (forall i, (i < length keys)%nat -> exists st, calc_seg_idx_aux (ch + N.of_nat i) 0 0 [s0; s1; s2] = Some (ci, st, false)) ->
    let info0 := nth (N.to_nat ci) IF [] in
    wire_chain (if_cons_dir info0) (if_ts info0) (beta_used ci ch IF HF fi)
               (firstn (length keys) (skipn (N.to_nat ch) HF)) keys ->
    exists b', forwarded_through (run_of fi keys) (assemble ci ch rsv s0 s1 s2 IF HF) = Some b'
               /\ curr_hf b' = ch + N.of_nat (length keys).
Proof.
  induction keys as [|k kr IH]; intros fi ci ch rsv s0 s1 s2 IF HF Hm Hs Hci HbI HbH Hlen Hfit Hint info0 Hchain.
  - cbn [run_of forwarded_through length]. eexists. split; [reflexivity|].
    rewrite (asm_curr_hf _ _ _ _ _ _ _ _ Hm). cbn. lia.
  - cbn [length] in *. rewrite Nat2N.inj_succ in *.
    assert (Hch : ch < N.of_nat (length HF)) by lia.
    destruct (Hint 0%nat ltac:(lia)) as [st Ecalc]. rewrite N.add_0_r in Ecalc.
    (* the hop fields ahead *)
    assert (Hsk : skipn (N.to_nat ch) HF = nth (N.to_nat ch) HF [] :: skipn (S (N.to_nat ch)) HF).
    { pose proof (nth_error_split' HF (N.to_nat ch) _ (nth_error_nth' HF (N.to_nat ch) [] ltac:(lia))) as Esp.
      rewrite Esp at 1. rewrite skipn_app_exact by (rewrite firstn_length; lia). reflexivity. }
    rewrite Hsk in Hchain. cbn [firstn wire_chain] in Hchain. destruct Hchain as [Hmac Hrest].
    destruct (as_forwards_authentic cmac k ci ch rsv s0 s1 s2 IF HF Hm Hs Hci Hch HbI HbH fi st Ecalc ltac:(lia) ltac:(lia) Hmac)
      as (info' & hop' & eg & Eproc & Hfo & Hso & Eseg & Hbi' & Hbh').
    cbn [run_of forwarded_through]. rewrite Eproc.
    destruct kr as [|k2 kr'].
    + cbn [map forwarded_through]. eexists. split; [reflexivity|].
      assert (Hm1 : meta_ok ci (ch + 1) rsv s0 s1 s2) by (unfold meta_ok in *; lia).
      rewrite (asm_curr_hf _ _ _ _ _ _ _ _ Hm1). cbn [length]. lia.
    + (* the state after the first AS *)
      set (IF1 := upd IF (N.to_nat ci) info'). set (HF1 := upd HF (N.to_nat ch) hop').
      assert (Hli : length (nth (N.to_nat ci) IF []) = 8%nat) by (eapply info0_len; eassumption).
      assert (Hlh : length (nth (N.to_nat ch) HF []) = 12%nat) by (eapply hop0_len; eassumption).
      assert (Hm1 : meta_ok ci (ch + 1) rsv s0 s1 s2) by (unfold meta_ok in *; lia).
      assert (Hs1 : shaped s0 s1 s2 IF1 HF1).
      { apply shaped_upd; auto; try lia; [destruct Hso as [Hl _]; lia|destruct Hfo as [Hl _]; lia]. }
      assert (Hci1 : ci < N.of_nat (length IF1)) by (unfold IF1; rewrite upd_length; lia).
      assert (HbI1 : Forall (fun f => bytes_ok f = true) IF1) by (apply Forall_upd; assumption).
      assert (HbH1 : Forall (fun f => bytes_ok f = true) HF1) by (apply Forall_upd; assumption).
      assert (Hlen1 : length HF1 = length HF) by (unfold HF1; apply upd_length; lia).
      assert (Hinfo1 : nth (N.to_nat ci) IF1 [] = info') by (unfold IF1; apply nth_upd_same; lia).
      destruct (info_segid_only_fields _ _ Hli Hso) as (_ & Ets & Ecd).
      change (map (fun k' => (hop_mac_validator cmac k', false)) (k2 :: kr')) with (run_of false (k2 :: kr')).
      destruct (IH false ci (ch + 1) rsv s0 s1 s2 IF1 HF1 Hm1 Hs1 Hci1 HbI1 HbH1) as (b' & Efw & Ehf).
      * rewrite Hlen1. cbn [length] in *. rewrite Nat2N.inj_succ in *. lia.
      * cbn [length] in *. rewrite Nat2N.inj_succ in *. lia.
      * intros i Hi. destruct (Hint (S i) ltac:(cbn [length] in *; lia)) as [st' E']. exists st'.
        rewrite <- E'. f_equal. lia.
      * (* the chain continues with the SegID left behind *)
        rewrite Hinfo1, Ecd, Ets.
        replace (N.to_nat (ch + 1)) with (S (N.to_nat ch)) by lia.
        assert (Hsk1 : skipn (S (N.to_nat ch)) HF1 = skipn (S (N.to_nat ch)) HF).
        { unfold HF1, upd. rewrite app_assoc. apply skipn_app_exact. rewrite app_length, firstn_length. cbn. lia. }
        rewrite Hsk1.
        destruct (skipn (S (N.to_nat ch)) HF) as [|h' r'] eqn:Esk.
        { exfalso. apply (f_equal (@length _)) in Esk. rewrite skipn_length in Esk. cbn [length] in *. lia. }
        cbn [length firstn] in Hrest |- *.
        assert (Hh' : nth (N.to_nat (ch + 1)) HF1 [] = h').
        { unfold HF1. rewrite nth_upd_other by lia.
          replace (N.to_nat (ch + 1)) with (S (N.to_nat ch)) by lia.
          rewrite <- (firstn_skipn (S (N.to_nat ch)) HF), Esk.
          rewrite app_nth2; rewrite firstn_length, Nat.min_l by lia; [|lia]. now rewrite Nat.sub_diag. }
        assert (Ebeta : beta_used ci (ch + 1) IF1 HF1 false
                        = (if if_cons_dir (nth (N.to_nat ci) IF []) then N.lxor (beta_used ci ch IF HF fi) (sigma (nth (N.to_nat ch) HF []))
                           else N.lxor (beta_used ci ch IF HF fi) (sigma h'))).
        { unfold beta_used at 1. rewrite Hinfo1, Hh', Ecd, Eseg. cbn [orb].
          destruct (if_cons_dir (nth (N.to_nat ci) IF [])); reflexivity. }
        rewrite Ebeta. exact Hrest.
      * exists b'. split; [exact Efw|]. rewrite Ehf. cbn [length]. rewrite !Nat2N.inj_succ. lia.
Qed.
End Walk.

(** * a segment chained in construction order gives the wire chains of both directions *)
Section ConsChain.
Variable cmac : list N -> list N -> list N.

Fixpoint cons_chain (ts beta : N) (hops : list (list N)) (keys : list (list N)) : Prop :=
  match hops, keys with
  | h :: r, k :: kr => mac_ok cmac k beta ts h /\ cons_chain ts (N.lxor beta (sigma h)) r kr
  | _, _ => True
  end.
Definition beta_after (beta : N) (hops : list (list N)) : N := fold_left (fun b h => N.lxor b (sigma h)) hops beta.

Lemma wire_chain_cons ts beta hops keys :
  cons_chain ts beta hops keys -> wire_chain cmac true ts beta hops keys.
Proof.
  revert beta keys. induction hops as [|h r IH]; intros beta keys H; [exact I|].
  destruct keys as [|k kr]; [exact I|]. cbn [cons_chain wire_chain] in *. destruct H as [H1 H2].
  split; [exact H1|]. destruct r as [|h' r']; [exact I|]. apply IH. exact H2.
Qed.

Lemma cons_chain_app ts beta hs ks h k :
  length hs = length ks ->
  cons_chain ts beta (hs ++ [h]) (ks ++ [k]) <-> cons_chain ts beta hs ks /\ mac_ok cmac k (beta_after beta hs) ts h.
Proof.
  revert beta ks. induction hs as [|x hs IH]; intros beta [|y ks] Hl; cbn [length] in Hl; try lia.
  - cbn. tauto.
  - cbn [app cons_chain beta_after fold_left]. rewrite (IH _ ks ltac:(lia)). unfold beta_after. tauto.
Qed.

Lemma beta_after_app beta hs h : beta_after beta (hs ++ [h]) = N.lxor (beta_after beta hs) (sigma h).
Proof. unfold beta_after. now rewrite fold_left_app. Qed.

Lemma wire_chain_against ts beta hops keys :
  length hops = length keys -> cons_chain ts beta hops keys ->
  wire_chain cmac false ts (beta_after beta (removelast hops)) (rev hops) (rev keys).
Proof.
  revert keys. induction hops as [|h hs IH] using rev_ind; intros keys Hl H; [exact I|].
  destruct keys as [|k0 ks0] using rev_ind; [rewrite app_length in Hl; cbn in Hl; lia|]. clear IHks0.
  rewrite !app_length in Hl. cbn [length] in Hl.
  apply cons_chain_app in H as [Hc Hm]; [|lia].
  rewrite removelast_last, !rev_app_distr. cbn [rev app wire_chain]. split; [exact Hm|].
  specialize (IH ks0 ltac:(lia) Hc).
  destruct (rev hs) as [|h' r'] eqn:Er; [exact I|].
  (* h' is the last hop of hs *)
  assert (Ehs : hs = rev r' ++ [h']).
  { rewrite <- (rev_involutive hs), Er. reflexivity. }
  replace (N.lxor (beta_after beta hs) (sigma h')) with (beta_after beta (removelast hs)); [exact IH|].
  rewrite Ehs, removelast_last, beta_after_app, N.lxor_assoc, N.lxor_nilpotent, N.lxor_0_r. reflexivity.
Qed.
End ConsChain.

(** * the AS at a segment change *)
Section Crossover.
Context {E : Type} (v : validator E).
Variables ci ch rsv s0 s1 s2 : N.
Variables IF HF : list (list N).
Hypothesis Hm : meta_ok ci ch rsv s0 s1 s2.
Hypothesis Hs : shaped s0 s1 s2 IF HF.
Hypothesis Hci : ci + 1 < N.of_nat (length IF).
Hypothesis Hch : ch + 1 < N.of_nat (length HF).
Hypothesis Hfit : ch + 1 <= 63.
Let b := assemble ci ch rsv s0 s1 s2 IF HF.
Let hop0 := nth (N.to_nat ch) HF [].
Let info0 := nth (N.to_nat ci) IF [].
Let nh := nth (N.to_nat (ch + 1)) HF [].
Let ni := nth (N.to_nat (ci + 1)) IF [].

Lemma ingress_fwd_cross fi :
  calc_seg_idx_aux ch 0 0 [s0; s1; s2] = Some (ci, false, true) ->
  let info1 := ing_info fi info0 hop0 in
  let hop1 := ing_hop fi info0 hop0 in
  advance_ingress v fi b
  = (assemble (ci + 1) (ch + 1) rsv s0 s1 s2 (upd IF (N.to_nat ci) info1) (upd HF (N.to_nat ch) hop1),
     Ok (vresult (or_else (or_else (v_hop v ch hop0 info1 false true) (v_seg v ch hop1 info1 nh ni))
                          (v_hop v (ch + 1) nh ni true false))
                 (mkIngOut (ing_alert info0 hop0) (hf_ingress_if hop0 info0) (ContinueEgress (hf_egress_if nh ni))))).
Proof.
  intros Ecalc info1 hop1. unfold advance_ingress. subst b.
  assert (Hci0 : ci < N.of_nat (length IF)) by lia. assert (Hch0 : ch < N.of_nat (length HF)) by lia.
  rewrite (asm_curr_hf _ _ _ _ _ _ _ _ Hm), (asm_curr_inf _ _ _ _ _ _ _ _ Hm),
          (asm_hop_count _ _ _ _ _ _ _ _ Hm Hs).
  unfold calculate_segment_index. rewrite (asm_seg_lens _ _ _ _ _ _ _ _ Hm), Ecalc, N.eqb_refl.
  cbn [negb andb]. rewrite (asm_hop_field _ _ _ _ _ _ _ _ Hm Hs ch Hch0), (asm_info_field _ _ _ _ _ _ _ _ Hm Hs ci Hci0).
  fold hop0 info0. fold (ing_info fi info0 hop0). fold info1. fold (ing_hop fi info0 hop0). fold hop1.
  destruct (N.of_nat (length HF) <=? ch + 1) eqn:E1; [lia|].
  destruct (63 <? ch + 1) eqn:E2; [lia|].
  rewrite (asm_hop_field _ _ _ _ _ _ _ _ Hm Hs (ch + 1) Hch), (asm_info_field _ _ _ _ _ _ _ _ Hm Hs (ci + 1) Hci).
  fold nh ni.
  assert (Hli : length info0 = 8%nat) by (unfold info0; eapply info0_len; eassumption).
  assert (Hlh : length hop0 = 12%nat) by (unfold hop0; eapply hop0_len; eassumption).
  assert (Hl1 : length info1 = 8%nat) by (destruct (ing_info_only fi info0 hop0 Hli) as [Hl _]; unfold info1; lia).
  assert (Hl2 : length hop1 = 12%nat) by (destruct (ing_hop_only fi info0 hop0 Hlh) as [Hl _]; unfold hop1; lia).
  pose proof (sh_if_cnt _ _ _ _ _ Hs) as Hni.
  assert (Hci3 : ci + 1 < 4) by (unfold nz in Hni; destruct (s0 =? 0), (s1 =? 0), (s2 =? 0); lia).
  assert (Eptr : set_curr_inf (set_curr_hf (assemble ci ch rsv s0 s1 s2 IF HF) ((ch + 1) mod 256)) ((ci + 1) mod 256)
                 = assemble (ci + 1) (ch + 1) rsv s0 s1 s2 IF HF).
  { unfold assemble. rewrite (put_curr_hf _ _ _ _ _ _ Hm).
    assert (Hm1 : meta_ok ci ((ch + 1) mod 256 mod 64) rsv s0 s1 s2) by (unfold meta_ok in *; lia).
    rewrite (put_curr_inf _ _ _ _ _ _ Hm1).
    rewrite (N.mod_small (ch + 1) 256), (N.mod_small (ch + 1) 64),
            (N.mod_small (ci + 1) 256), (N.mod_small (ci + 1) 4) by lia. reflexivity. }
  rewrite Eptr.
  assert (Hm2 : meta_ok (ci + 1) (ch + 1) rsv s0 s1 s2) by (unfold meta_ok in *; lia).
  rewrite (commit_assembled _ _ _ _ _ _ _ _ ci ch info1 hop1 _ Hm2 Hs Hci0 Hch0 Hl1 Hl2). reflexivity.
Qed.
End Crossover.

Section CrossoverAuthentic.
Variable cmac : list N -> list N -> list N.
Variable key : list N.
Variables ci ch rsv s0 s1 s2 : N.
Variables IF HF : list (list N).
Hypothesis Hm : meta_ok ci ch rsv s0 s1 s2.
Hypothesis Hs : shaped s0 s1 s2 IF HF.
Hypothesis Hci : ci + 1 < N.of_nat (length IF).
Hypothesis Hch : ch + 2 < N.of_nat (length HF).
Hypothesis Hfit : ch + 2 <= 63.
Hypothesis HbI : Forall (fun f => bytes_ok f = true) IF.
Hypothesis HbH : Forall (fun f => bytes_ok f = true) HF.
Let hop0 := nth (N.to_nat ch) HF [].
Let info0 := nth (N.to_nat ci) IF [].
Let nh := nth (N.to_nat (ch + 1)) HF [].
Let ni := nth (N.to_nat (ci + 1)) IF [].

(** the AS at a segment change validates the last hop of one segment (with the chaining value
    of that segment) and the first hop of the next (with the SegID of the next info field as it
    stands), at ingress and again at egress, and forwards *)
Lemma as_crossover_authentic fi :
  calc_seg_idx_aux ch 0 0 [s0; s1; s2] = Some (ci, false, true) ->
  calc_seg_idx_aux (ch + 1) 0 0 [s0; s1; s2] = Some (ci + 1, true, false) ->
  mac_ok cmac key (beta_used ci ch IF HF fi) (if_ts info0) hop0 ->
  mac_ok cmac key (if_segid ni) (if_ts ni) nh ->
  exists b' eg,
    process_at_as (hop_mac_validator cmac key) fi (assemble ci ch rsv s0 s1 s2 IF HF) = (b', Forwarded eg)
    /\ curr_hf b' = ch + 2 /\ curr_inf b' = ci + 1.
Proof.
  intros Ec0 Ec1 Hmac0 Hmac1.
  assert (Hci0 : ci < N.of_nat (length IF)) by lia. assert (Hch0 : ch < N.of_nat (length HF)) by lia.
  assert (Hli : length info0 = 8%nat) by (unfold info0; eapply info0_len; eassumption).
  assert (Hlh : length hop0 = 12%nat) by (unfold hop0; eapply hop0_len; eassumption).
  destruct (ing_info_segid cmac ci ch s0 s1 s2 IF HF Hs Hci0 Hch0 HbI HbH fi) as (Eseg & Ets & Ecd).
  fold info0 hop0 in Eseg, Ets, Ecd.
  set (info1 := ing_info fi info0 hop0) in *. set (hop1 := ing_hop fi info0 hop0).
  pose proof (ing_info_only fi info0 hop0 Hli) as Ho1. fold info1 in Ho1.
  pose proof (ing_hop_only fi info0 hop0 Hlh) as Ho2. fold hop1 in Ho2.
  assert (Hl1 : length info1 = 8%nat) by (destruct Ho1 as [Hl _]; lia).
  assert (Hl2 : length hop1 = 12%nat) by (destruct Ho2 as [Hl _]; lia).
  unfold process_at_as.
  rewrite (ingress_fwd_cross (hop_mac_validator cmac key) _ _ _ _ _ _ _ _ Hm Hs Hci ltac:(lia) ltac:(lia) fi Ec0).
  fold hop0 info0 info1 hop1 nh ni.
  assert (Ev0 : v_hop (hop_mac_validator cmac key) ch hop0 info1 false true = None).
  { cbn [v_hop hop_mac_validator]. apply hop_mac_check_none. rewrite Eseg, Ets. exact Hmac0. }
  assert (Ev1 : forall i st en, v_hop (hop_mac_validator cmac key) i nh ni st en = None).
  { intros. cbn [v_hop hop_mac_validator]. apply hop_mac_check_none. exact Hmac1. }
  rewrite Ev0, Ev1. cbn [v_seg hop_mac_validator or_else vresult io_action].
  (* egress of the same AS, now in the next segment *)
  assert (Hi' : (N.to_nat ci < length IF)%nat) by lia. assert (Hh' : (N.to_nat ch < length HF)%nat) by lia.
  pose proof (sh_if_cnt _ _ _ _ _ Hs) as Hni.
  assert (Hci3 : ci + 1 < 4) by (unfold nz in Hni; destruct (s0 =? 0), (s1 =? 0), (s2 =? 0); lia).
  assert (Hm2 : meta_ok (ci + 1) (ch + 1) rsv s0 s1 s2) by (unfold meta_ok in *; lia).
  assert (Hs1 : shaped s0 s1 s2 (upd IF (N.to_nat ci) info1) (upd HF (N.to_nat ch) hop1)) by (apply shaped_upd; auto).
  assert (Hci1 : ci + 1 < N.of_nat (length (upd IF (N.to_nat ci) info1))) by (rewrite upd_length; lia).
  assert (Hch1 : ch + 1 < N.of_nat (length (upd HF (N.to_nat ch) hop1))) by (rewrite upd_length; lia).
  assert (Hnf1 : ch + 1 + 1 < N.of_nat (length (upd HF (N.to_nat ch) hop1))) by (rewrite upd_length; lia).
  rewrite (egress_fwd (hop_mac_validator cmac key) _ _ _ _ _ _ _ _ Hm2 Hs1 Hci1 Hch1 true Ec1 Hnf1 ltac:(lia)).
  rewrite !nth_upd_other by lia. fold nh ni.
  rewrite Ev1. cbn [vresult].
  eexists. eexists. split; [reflexivity|].
  assert (Hm3 : meta_ok (ci + 1) (ch + 1 + 1) rsv s0 s1 s2) by (unfold meta_ok in *; lia).
  rewrite (asm_curr_hf _ _ _ _ _ _ _ _ Hm3), (asm_curr_inf _ _ _ _ _ _ _ _ Hm3). split; lia.
Qed.
End CrossoverAuthentic.

(** * reversal keeps the chaining state: same hop, same SegID and timestamp, CONS_DIR negated *)
Lemma toggle_fields f :
  length f = 8%nat -> bytes_ok f = true ->
  if_segid (toggle_cons_dir f) = if_segid f /\ if_ts (toggle_cons_dir f) = if_ts f
  /\ if_cons_dir (toggle_cons_dir f) = negb (if_cons_dir f).
Proof.
  intros Hl Hb. destruct f as [|x r]; [discriminate|].
  assert (Hx : x < 256).
  { unfold bytes_ok in Hb. cbn [forallb] in Hb. apply andb_prop in Hb as [Hx _]. unfold byte_ok in Hx. lia. }
  unfold toggle_cons_dir, if_set_flags, if_flags, set_byte, set_range, byte.
  cbn [nth firstn skipn app length Nat.add].
  refine (conj eq_refl (conj eq_refl _)).
  unfold if_cons_dir, if_flags, byte. cbn [nth]. change FLAG_CONS_DIR with 1.
  rewrite (N.mod_small (N.lxor x 1) 256) by (apply lxor_1_lt; exact Hx).
  rewrite N.lxor_spec. change (N.testbit 1 0) with true. now destruct (N.testbit x 0).
Qed.

Lemma reverse_keeps_chaining_state ci ch rsv s0 s1 s2 IF HF b' :
  meta_ok ci ch rsv s0 s1 s2 -> shaped s0 s1 s2 IF HF ->
  Forall (fun f => bytes_ok f = true) IF ->
  N.of_nat (length IF) = rev_seg_count s1 s2 ->
  view_try_reverse (assemble ci ch rsv s0 s1 s2 IF HF) = (b', Ok tt) ->
  exists ci' ch' a c d,
    let IF' := rev (map toggle_cons_dir IF) in
    let HF' := rev HF in
    b' = assemble ci' ch' rsv a c d IF' HF' /\ meta_ok ci' ch' rsv a c d /\ shaped a c d IF' HF'
    /\ ci' < N.of_nat (length IF') /\ ch' < N.of_nat (length HF')
    /\ nth (N.to_nat ch') HF' [] = nth (N.to_nat ch) HF []
    /\ if_segid (nth (N.to_nat ci') IF' []) = if_segid (nth (N.to_nat ci) IF [])
    /\ if_ts (nth (N.to_nat ci') IF' []) = if_ts (nth (N.to_nat ci) IF [])
    /\ if_cons_dir (nth (N.to_nat ci') IF' []) = negb (if_cons_dir (nth (N.to_nat ci) IF []))
    /\ beta_used ci' ch' IF' HF' true = if_segid (nth (N.to_nat ci) IF []).
Proof.
  intros Hm Hs HbI Hcnt H.
  destruct (view_reverse_cases _ _ _ _ _ _ _ _ Hm Hs) as [[e He]|(a & c & d & E & H0 & Hch & Hci & Hfit & Hr)].
  { rewrite He in H. discriminate. }
  rewrite Hr in H. injection H as <-.
  assert (Hrc : rev_seg_count s1 s2 <= 3) by (unfold rev_seg_count; destruct (s1 =? 0); [|destruct (s2 =? 0)]; lia).
  assert (Hm' : meta_ok (rev_seg_count s1 s2 - ci - 1) (s0 + s1 + s2 - ch - 1) rsv a c d).
  { unfold meta_ok in Hm. apply (rev_lens_ok ci ch rsv s0 s1 s2 a c d _ _ E Hm); lia. }
  assert (Hs' : shaped a c d (rev (map toggle_cons_dir IF)) (rev HF)).
  { apply (shaped_rev s0 s1 s2); auto.
    - apply (rev_lens_nz _ _ _ _ _ _ E). - apply (rev_lens_sum _ _ _ _ _ _ E). }
  pose proof (sh_hf_cnt _ _ _ _ _ Hs) as Hn.
  exists (rev_seg_count s1 s2 - ci - 1), (s0 + s1 + s2 - ch - 1), a, c, d. cbv zeta.
  assert (Hinfo : nth (N.to_nat (rev_seg_count s1 s2 - ci - 1)) (rev (map toggle_cons_dir IF)) []
                  = toggle_cons_dir (nth (N.to_nat ci) IF [])).
  { rewrite rev_nth by (rewrite map_length; lia). rewrite map_length.
    replace (length IF - S (N.to_nat (rev_seg_count s1 s2 - ci - 1)))%nat with (N.to_nat ci) by lia.
    rewrite (nth_indep _ [] (toggle_cons_dir [])) by (rewrite map_length; lia). apply map_nth. }
  assert (Hhop : nth (N.to_nat (s0 + s1 + s2 - ch - 1)) (rev HF) [] = nth (N.to_nat ch) HF []).
  { rewrite rev_nth by lia. f_equal. lia. }
  assert (Hli : length (nth (N.to_nat ci) IF []) = 8%nat).
  { pose proof (sh_if_len _ _ _ _ _ Hs) as Ha. unfold all_len in Ha. rewrite Forall_forall in Ha. apply Ha, nth_In. lia. }
  destruct (toggle_fields _ Hli (Forall_nth_ok IF (N.to_nat ci) HbI)) as (T1 & T2 & T3).
  refine (conj eq_refl (conj Hm' (conj Hs' (conj _ (conj _ (conj Hhop _)))))).
  - rewrite rev_length, map_length. lia.
  - rewrite rev_length. lia.
  - rewrite Hinfo. refine (conj T1 (conj T2 (conj T3 _))).
    unfold beta_used. rewrite Hinfo. cbn [orb]. exact T1.
Qed.
