(** Concrete inputs for the non-vacuity [Example]s of Props_C11 / Props_C12 (definitions only). *)
From Sci Require Import StdPath.Model StdPath.ModelRouting StdPath.Proofs StdPath.ProofsRouting Common.AesCmac.
Local Open Scope N_scope.

(** C12: a two-segment model at position (1, 2) *)
Definition ex_hop (k : N) : hop := mkHop 0 63 k (k + 1) [1; 2; 3; 4; 5; k].
Definition ex_path : spath :=
  mkPath 1 2 [mkSeg (mkInfo 0 7 1700000000) [ex_hop 1; ex_hop 3];
              mkSeg (mkInfo 1 9 1700000100) [ex_hop 5; ex_hop 7; ex_hop 9]].

(** C11: a two-hop construction-direction segment chained with the Gallina AES-128-CMAC *)
Definition ex_key1 : list N := repeat 7 16.
Definition ex_key2 : list N := repeat 9 16.
Definition ex_ts : N := 1700000000.
Definition ex_mk (key : list N) (beta exp ci ce : N) : list N :=
  [0; exp] ++ be_bytes 2 ci ++ be_bytes 2 ce ++ firstn 6 (aes_cmac key (mac_input beta ex_ts exp ci ce)).
Definition ex_h1 : list N := ex_mk ex_key1 4660 63 0 5.
Definition ex_h2 : list N := ex_mk ex_key2 (N.lxor 4660 (sigma ex_h1)) 63 8 0.
Definition ex_view : list N :=
  assemble 0 0 0 2 0 0 [[1; 0] ++ be_bytes 2 4660 ++ be_bytes 4 ex_ts] [ex_h1; ex_h2].

(** C11, composed walk: two segments of two hops, the first travelled against construction
    direction, the second in construction direction; ASes A, B (crossover), C *)
Definition ex_kA : list N := repeat 1 16.
Definition ex_kB : list N := repeat 2 16.
Definition ex_kC : list N := repeat 3 16.
Definition ex_keyf (j : nat) : list N :=
  match j with 0%nat => ex_kA | 1%nat => ex_kB | 2%nat => ex_kB | _ => ex_kC end.
(* segment 0 in construction order: c0 (AS B), c1 (AS A), chained from 200 *)
Definition ex_c0 : list N := ex_mk ex_kB 200 63 0 11.
Definition ex_c1 : list N := ex_mk ex_kA (N.lxor 200 (sigma ex_c0)) 63 12 0.
(* segment 1 in construction order: d0 (AS B), d1 (AS C), chained from 100 *)
Definition ex_d0 : list N := ex_mk ex_kB 100 63 0 21.
Definition ex_d1 : list N := ex_mk ex_kC (N.lxor 100 (sigma ex_d0)) 63 22 0.
Definition ex2_IF : list (list N) :=
  [[0; 0] ++ be_bytes 2 (N.lxor 200 (sigma ex_c0)) ++ be_bytes 4 ex_ts;
   [1; 0] ++ be_bytes 2 100 ++ be_bytes 4 ex_ts].
Definition ex2_HF : list (list N) := [ex_c1; ex_c0; ex_d0; ex_d1].
