(** Model of sciparse proto/dataplane_path/standard/routing.rs
      (StandardPathView::advance_ingress_with_validator, advance_egress_with_validator,
       AdvanceValidator, NoValidation, HopMacValidator)
    and proto/dataplane_path/standard/mac.rs (calculate_hop_mac, mac_beta_step,
    mac_chaining_beta).  Definitions only, statement by statement, on the byte-level view of
    [Model].  The block cipher MAC is a parameter [cmac : key -> message -> 16 bytes]. *)
From Sci Require Export StdPath.Model.
Local Open Scope N_scope.

(** the MAC input block assumed below, against the generated offsets of mac.rs *)
Definition mac_layout_ok : bool :=
  (MAC_INPUT_LEN =? 16) && pairN_eqb MAC_IN_BETA (2, 4) && pairN_eqb MAC_IN_TS (4, 8)
  && pairN_eqb MAC_IN_EXP (9, 10) && pairN_eqb MAC_IN_CI (10, 12) && pairN_eqb MAC_IN_CE (12, 14)
  && (MAC_LEN =? 6).

(** * mac.rs *)
(* the 16-byte CMAC input:  0(2) beta(2) timestamp(4) 0(1) exp(1) cons_ingress(2) cons_egress(2) 0(2) *)
Definition mac_input (beta ts exp ci ce : N) : list N :=
  [0; 0] ++ be_bytes 2 beta ++ be_bytes 4 ts ++ [0; exp mod 256] ++ be_bytes 2 ci ++ be_bytes 2 ce ++ [0; 0].

(* accumulator ^ u16::from_be_bytes([hop_mac[0], hop_mac[1]]) *)
Definition mac_beta_step (acc : N) (mac : list N) : N := N.lxor acc (be_val 0 (firstn 2 mac)).
Definition mac_chaining_beta (seg_id : N) (macs : list (list N)) : N := fold_left mac_beta_step macs seg_id.

Section WithMac.
Variable cmac : list N -> list N -> list N.   (* key, message -> 16-byte tag *)

Definition calculate_hop_mac (beta ts exp ci ce : N) (key : list N) : list N :=
  firstn 6 (cmac key (mac_input beta ts exp ci ce)).
End WithMac.

(** * routing.rs *)
Inductive adv_err :=
| HopOutOfBounds (i : N) | InfoOutOfBounds (i : N)
| InvalidSegmentIndex (expected actual : N)
| InvalidPathState (code : N).      (* 1 = single-hop segment, 2 = segment end at egress *)

Inductive ing_action := ContinueEgress (egress_if : N) | ForwardLocal.
Record ing_out := mkIngOut { io_alert : bool; io_ingress : N; io_action : ing_action }.
Record eg_out := mkEgOut { eo_alert : bool; eo_egress : N }.

Section Advance.
Context {E : Type}.

(* trait AdvanceValidator: validate_hop(hop_index, hop_field, info_field, is_segment_start,
   is_segment_end), validate_segment_change(hop_index, curr_hop, curr_info, next_hop, next_info);
   [None] = Ok(()) *)
Record validator := mkValidator {
  v_hop : N -> list N -> list N -> bool -> bool -> option E;
  v_seg : N -> list N -> list N -> list N -> list N -> option E }.

Inductive vres (O : Type) := VOk (o : O) | VFailed (o : O) (e : E).
Arguments VOk {O} o. Arguments VFailed {O} o e.

Definition or_else (a : option E) (f : option E) : option E := match a with Some e => Some e | None => f end.
Definition vresult {O} (verr : option E) (o : O) : vres O :=
  match verr with Some e => VFailed o e | None => VOk o end.

(* HopFieldView::ingress_interface / egress_interface *)
Definition hf_ingress_if (hop info : list N) : N :=
  if if_cons_dir info then hf_cons_ingress hop else hf_cons_egress hop.
Definition hf_egress_if (hop info : list N) : N :=
  if if_cons_dir info then hf_cons_egress hop else hf_cons_ingress hop.

(* "Commit the updated fields": *info_field_mut(curr_info_idx).expect(..) = info; *hop_field_mut(curr_hop_idx).expect(..) = hop *)
Definition commit {O} (b : list N) (curr_info_idx curr_hop_idx : N) (info hop : list N) (r : O)
  : list N * outcome O adv_err :=
  match info_field b curr_info_idx with
  | None => (b, Panic P_EXPECT_MUT)
  | Some _ =>
    let b1 := set_range b (info_off (N.to_nat curr_info_idx)) info in
    match hop_field b1 curr_hop_idx with
    | None => (b1, Panic P_EXPECT_MUT)
    | Some _ => (set_range b1 (hop_off b1 (N.to_nat curr_hop_idx)) hop, Ok r)
    end
  end.

Definition advance_ingress (v : validator) (from_internal_interface : bool) (b : list N)
  : list N * outcome (vres ing_out) adv_err :=
  let hop_field_count := hop_count b in
  let curr_hop_idx := curr_hf b in
  let curr_info_idx := curr_inf b in
  match calculate_segment_index b curr_hop_idx with
  | None => (b, Err (HopOutOfBounds curr_hop_idx))
  | Some (seg_idx, start_of_segment, end_of_segment) =>
    if start_of_segment && end_of_segment then (b, Err (InvalidPathState 1)) else
    if negb (seg_idx =? curr_info_idx) then (b, Err (InvalidSegmentIndex seg_idx curr_info_idx)) else
    let is_final_hop := hop_field_count <=? curr_hop_idx + 1 in
    match hop_field b curr_hop_idx with
    | None => (b, Err (HopOutOfBounds curr_hop_idx))
    | Some hop0 =>
    match info_field b curr_info_idx with
    | None => (b, Err (InfoOutOfBounds curr_info_idx))
    | Some info0 =>
      let curr_ingress_interface := hf_ingress_if hop0 info0 in
      let in_construction_dir := if_cons_dir info0 in
      (* If not in construction dir, update mac before validation *)
      let info1 :=
        if negb from_internal_interface && negb in_construction_dir
        then if_set_segid info0 (mac_beta_step (if_segid info0) (hf_mac hop0)) else info0 in
      (* Validate the current hop field *)
      let verr := v_hop v curr_hop_idx hop0 info1 start_of_segment end_of_segment in
      (* SCMP alert at the ingress router *)
      let scmp_alert := N.testbit (hf_flags hop0) (if in_construction_dir then 1 else 0) in
      let hop1 :=
        if negb from_internal_interface && scmp_alert
        then hf_set_flags hop0 (N.ldiff (hf_flags hop0)
               (if in_construction_dir then FLAG_CONS_INGRESS_ROUTER_ALERT else FLAG_CONS_EGRESS_ROUTER_ALERT))
        else hop0 in
      match is_final_hop, end_of_segment with
      | true, true =>
        let '(b', r) := commit b curr_info_idx curr_hop_idx info1 hop1 (mkIngOut scmp_alert curr_ingress_interface ForwardLocal) in
        (b', o <- r ;; Ok (vresult verr o))
      | false, false =>
        let '(b', r) := commit b curr_info_idx curr_hop_idx info1 hop1
                          (mkIngOut scmp_alert curr_ingress_interface (ContinueEgress (hf_egress_if hop1 info1))) in
        (b', o <- r ;; Ok (vresult verr o))
      | false, true =>
        (* C11 repair: the advanced index must fit the 6-bit CurrHF field *)
        if 63 <? curr_hop_idx + 1 then (b, Err (HopOutOfBounds (curr_hop_idx + 1))) else
        match hop_field b (curr_hop_idx + 1) with
        | None => (b, Err (HopOutOfBounds (curr_hop_idx + 1)))
        | Some next_hop =>
        match info_field b (seg_idx + 1) with
        | None => (b, Err (InfoOutOfBounds (seg_idx + 1)))
        | Some next_info =>
          let verr := or_else verr (v_seg v curr_hop_idx hop1 info1 next_hop next_info) in
          let egress_if := hf_egress_if next_hop next_info in
          let verr := or_else verr (v_hop v (curr_hop_idx + 1) next_hop next_info true false) in
          let b1 := set_curr_hf b ((curr_hop_idx + 1) mod 256) in
          let b2 := set_curr_inf b1 ((seg_idx + 1) mod 256) in
          let '(b', r) := commit b2 curr_info_idx curr_hop_idx info1 hop1
                            (mkIngOut scmp_alert curr_ingress_interface (ContinueEgress egress_if)) in
          (b', o <- r ;; Ok (vresult verr o))
        end end
      | true, false => (b, Panic P_UNREACHABLE)
      end
    end end
  end.

Definition advance_egress (v : validator) (b : list N) : list N * outcome (vres eg_out) adv_err :=
  let hop_field_count := hop_count b in
  let curr_hop_idx := curr_hf b in
  let curr_info_idx := curr_inf b in
  match calculate_segment_index b curr_hop_idx with
  | None => (b, Err (HopOutOfBounds curr_hop_idx))
  | Some (seg_idx, start_of_segment, end_of_segment) =>
    if negb (seg_idx =? curr_info_idx) then (b, Err (InvalidSegmentIndex seg_idx curr_info_idx)) else
    let is_final_hop := hop_field_count <=? curr_hop_idx + 1 in
    match hop_field b curr_hop_idx with
    | None => (b, Err (HopOutOfBounds curr_hop_idx))
    | Some hop0 =>
    match info_field b curr_info_idx with
    | None => (b, Err (InfoOutOfBounds curr_info_idx))
    | Some info0 =>
      let in_construction_dir := if_cons_dir info0 in
      if is_final_hop then (b, Err (HopOutOfBounds (curr_hop_idx + 1))) else
      (* C11 repair: the advanced index must fit the 6-bit CurrHF field *)
      if 63 <? curr_hop_idx + 1 then (b, Err (HopOutOfBounds (curr_hop_idx + 1))) else
      if end_of_segment then (b, Err (InvalidPathState 2)) else
      if negb (seg_idx =? curr_info_idx) then (b, Err (InvalidSegmentIndex seg_idx curr_info_idx)) else
      let verr := v_hop v curr_hop_idx hop0 info0 start_of_segment end_of_segment in
      (* Update segment_id if we are in construction dir *)
      let info1 :=
        if in_construction_dir
        then if_set_segid info0 (mac_beta_step (if_segid info0) (hf_mac hop0)) else info0 in
      let scmp_alert := N.testbit (hf_flags hop0) (if in_construction_dir then 0 else 1) in
      let hop1 :=
        if scmp_alert
        then hf_set_flags hop0 (N.ldiff (hf_flags hop0)
               (if in_construction_dir then FLAG_CONS_EGRESS_ROUTER_ALERT else FLAG_CONS_INGRESS_ROUTER_ALERT))
        else hop0 in
      let '(b1, r) := commit b curr_info_idx curr_hop_idx info1 hop1 tt in
      match r with
      | Ok _ =>
        let b2 := set_curr_hf b1 ((curr_hop_idx + 1) mod 256) in
        (b2, Ok (vresult verr (mkEgOut scmp_alert (hf_egress_if hop1 info1))))
      | Err e => (b1, Err e)
      | Panic s => (b1, Panic s)
      end
    end end
  end.
End Advance.
Arguments VOk {E O} o. Arguments VFailed {E O} o e.
Arguments validator E : clear implicits.

(** NoValidation *)
Definition no_validation : validator Empty_set :=
  mkValidator (fun _ _ _ _ _ => None) (fun _ _ _ _ _ => None).

(** HopMacValidator: the error carries (expected, actual) *)
Definition hop_mac_check (cmac : list N -> list N -> list N) (key : list N) (hop info : list N)
  : option (list N * list N) :=
  let mac := hf_mac hop in
  let expected := calculate_hop_mac cmac (if_segid info) (if_ts info) (hf_exp hop)
                                    (hf_cons_ingress hop) (hf_cons_egress hop) key in
  if list_eqb N.eqb mac expected then None else Some (expected, mac).
Definition hop_mac_validator (cmac : list N -> list N -> list N) (key : list N)
  : validator (list N * list N) :=
  mkValidator (fun _ hop info _ _ => hop_mac_check cmac key hop info) (fun _ _ _ _ _ => None).

(** * one AS: ingress, then egress when the packet continues *)
Inductive as_result :=
| Forwarded (egress_if : N) | Delivered | Rejected | Failed (e : adv_err) | Panicked.

Definition process_at_as {E} (v : validator E) (from_internal : bool) (b : list N) : list N * as_result :=
  let '(b1, r1) := advance_ingress v from_internal b in
  match r1 with
  | Ok (VOk o) =>
    match io_action o with
    | ForwardLocal => (b1, Delivered)
    | ContinueEgress _ =>
      let '(b2, r2) := advance_egress v b1 in
      match r2 with
      | Ok (VOk o2) => (b2, Forwarded (eo_egress o2))
      | Ok (VFailed _ _) => (b2, Rejected)
      | Err e => (b2, Failed e)
      | Panic _ => (b2, Panicked)
      end
    end
  | Ok (VFailed _ _) => (b1, Rejected)
  | Err e => (b1, Failed e)
  | Panic _ => (b1, Panicked)
  end.

(** * OneHopPathView::set_second_hop / OneHopPath::set_second_hop (as repaired for C12: the
      model copies ExpTime from the first hop like the view and the reference router do, the
      view clears the flags of the second hop like the model does) *)
Definition hf_set_cons_ingress (f : list N) (v : N) : list N := set_range f 2 (be_bytes 2 v).
Definition hf_set_cons_egress (f : list N) (v : N) : list N := set_range f 4 (be_bytes 2 v).
Definition hf_set_exp (f : list N) (v : N) : list N := set_byte f 1 (v mod 256).
Definition hf_set_mac (f : list N) (mac : list N) : list N := set_range f 6 (firstn 6 mac).

Section SecondHop.
Variable cmac : list N -> list N -> list N.

Definition oh_view_set_second_hop (b : list N) (ingress_interface : N) (key : list N) (advanced : bool) : list N :=
  let info := oh_info b in
  let beta := if advanced then if_segid info else mac_beta_step (if_segid info) (hf_mac (oh_hop1 b)) in
  let timestamp := if_ts info in
  let hop1 := oh_hop1 b in
  let hop2 := oh_hop2 b in
  let hop2 := hf_set_flags hop2 0 in
  let hop2 := hf_set_cons_ingress hop2 ingress_interface in
  let hop2 := hf_set_cons_ingress hop2 ingress_interface in
  let hop2 := hf_set_cons_egress hop2 0 in
  let hop2 := hf_set_cons_ingress hop2 ingress_interface in
  let hop2 := hf_set_exp hop2 (hf_exp hop1) in
  let mac := calculate_hop_mac cmac beta timestamp (hf_exp hop2) (hf_cons_ingress hop2) (hf_cons_egress hop2) key in
  set_range b 20 (hf_set_mac hop2 mac).

Definition oh_model_set_second_hop (p : onehop) (ingress_interface : N) (key : list N) (advanced : bool) : onehop :=
  let beta := if advanced then i_segid (o_info p) else mac_beta_step (i_segid (o_info p)) (h_mac (o_hop1 p)) in
  let exp := h_exp (o_hop1 p) in
  mkOne (o_info p) (o_hop1 p)
        (mkHop 0 exp ingress_interface 0
               (calculate_hop_mac cmac beta (i_ts (o_info p)) exp ingress_interface 0 key)).
End SecondHop.
