(** One-hop paths: set_second_hop on the view and on the model agree (C12), and the second hop
    they build verifies at the second AS (C11). *)
From Coq Require Import Lia ZifyBool ZifyNat ZifyN.
From Sci Require Import Common.ListAux StdPath.Model StdPath.ModelRouting StdPath.Proofs StdPath.ProofsRev
     StdPath.ProofsEnc StdPath.ProofsQuery StdPath.ProofsRouting.
Local Open Scope N_scope.
Ltac Zify.zify_post_hook ::= Z.div_mod_to_equations.
Arguments N.add : simpl never. Arguments N.sub : simpl never. Arguments N.mul : simpl never.
Arguments N.div : simpl never. Arguments N.modulo : simpl never. Arguments N.eqb : simpl never.
Arguments N.ltb : simpl never. Arguments N.leb : simpl never. Arguments N.lxor : simpl never.
Arguments N.min : simpl never. Arguments N.testbit : simpl never.

Lemma be_bytes_2 v : be_bytes 2 v = [(v / 256) mod 256; v mod 256].
Proof. reflexivity. Qed.

Lemma list6 (l : list N) : length l = 6%nat -> exists a c d e f g, l = [a; c; d; e; f; g].
Proof.
  intros H. destruct l as [|a [|c [|d [|e [|f [|g [|h r]]]]]]]; cbn in H; try lia.
  now exists a, c, d, e, f, g.
Qed.

Lemma second_hop_bytes f e c1 c2 g1 g2 m0 m1 m2 m3 m4 m5 ing exp1 :
  hf_set_exp (hf_set_cons_ingress (hf_set_cons_egress (hf_set_cons_ingress (hf_set_cons_ingress
     (hf_set_flags [f; e; c1; c2; g1; g2; m0; m1; m2; m3; m4; m5] 0) ing) ing) 0) ing) exp1
  = [0; exp1 mod 256; (ing / 256) mod 256; ing mod 256; 0; 0; m0; m1; m2; m3; m4; m5].
Proof. reflexivity. Qed.

Lemma set_mac_bytes a c d e f g m0 m1 m2 m3 m4 m5 t0 t1 t2 t3 t4 t5 :
  hf_set_mac [a; c; d; e; f; g; m0; m1; m2; m3; m4; m5] [t0; t1; t2; t3; t4; t5]
  = [a; c; d; e; f; g; t0; t1; t2; t3; t4; t5].
Proof. reflexivity. Qed.

Section SecondHopAgrees.
Variable cmac : list N -> list N -> list N.
Variable p : onehop.
Hypothesis Ht : onehop_typed p = true.
Variables (ingress : N) (key : list N) (advanced : bool).
Hypothesis Hin : ingress < 65536.

Let beta := if advanced then i_segid (o_info p) else mac_beta_step (i_segid (o_info p)) (h_mac (o_hop1 p)).
Let blk := mac_input beta (i_ts (o_info p)) (h_exp (o_hop1 p)) ingress 0.
Hypothesis Hmac : (6 <= length (cmac key blk))%nat.

Lemma oh_set_second_hop_commutes :
  oh_view_set_second_hop cmac (oh_encode p) ingress key advanced
  = oh_encode (oh_model_set_second_hop cmac p ingress key advanced).
Proof.
  destruct (oh_typed_inv p Ht) as (Hi & H1 & H2). destruct (oh_parts p Ht) as (Ei & E1 & E2).
  pose proof (info_typed_inv _ Hi) as (Hf & Hsg & Hts).
  pose proof (hop_typed_inv _ H1) as (F1 & X1 & C1 & G1 & L1 & B1).
  pose proof (hop_typed_inv _ H2) as (F2 & X2 & C2 & G2 & L2 & B2).
  unfold oh_view_set_second_hop. rewrite Ei, E1, E2.
  (* the fields read back from the encoding *)
  assert (Esg : if_segid (enc_info (o_info p)) = i_segid (o_info p)).
  { pose proof (dec_enc_info _ Hi) as E. now apply (f_equal i_segid) in E. }
  assert (Ets : if_ts (enc_info (o_info p)) = i_ts (o_info p)).
  { pose proof (dec_enc_info _ Hi) as E. now apply (f_equal i_ts) in E. }
  assert (Emac : hf_mac (enc_hop (o_hop1 p)) = h_mac (o_hop1 p)).
  { pose proof (dec_enc_hop _ H1) as E. now apply (f_equal h_mac) in E. }
  assert (Eexp : hf_exp (enc_hop (o_hop1 p)) = h_exp (o_hop1 p)).
  { pose proof (dec_enc_hop _ H1) as E. now apply (f_equal h_exp) in E. }
  rewrite Esg, Ets, Emac, Eexp. fold beta.
  (* the second hop field as twelve concrete bytes *)
  destruct (list6 _ L2) as (m0 & m1 & m2 & m3 & m4 & m5 & Em).
  assert (Eh2 : enc_hop (o_hop2 p)
                = [h_flags (o_hop2 p) mod 256; h_exp (o_hop2 p) mod 256;
                   (h_ci (o_hop2 p) / 256) mod 256; h_ci (o_hop2 p) mod 256;
                   (h_ce (o_hop2 p) / 256) mod 256; h_ce (o_hop2 p) mod 256; m0; m1; m2; m3; m4; m5]).
  { unfold enc_hop. rewrite Em, !be_bytes_2. reflexivity. }
  rewrite Eh2. cbv zeta. rewrite second_hop_bytes.
  assert (Ee : h_exp (o_hop1 p) mod 256 = h_exp (o_hop1 p)) by (apply N.mod_small; lia).
  rewrite Ee.
  assert (Ex : hf_exp [0; h_exp (o_hop1 p); ingress / 256 mod 256; ingress mod 256; 0; 0; m0; m1; m2; m3; m4; m5] = h_exp (o_hop1 p)) by reflexivity.
  assert (Ec : hf_cons_ingress [0; h_exp (o_hop1 p); ingress / 256 mod 256; ingress mod 256; 0; 0; m0; m1; m2; m3; m4; m5] = ingress).
  { unfold hf_cons_ingress, get_range. cbn [skipn firstn be_val]. lia. }
  assert (Ez : hf_cons_egress [0; h_exp (o_hop1 p); ingress / 256 mod 256; ingress mod 256; 0; 0; m0; m1; m2; m3; m4; m5] = 0) by reflexivity.
  rewrite Ex, Ec, Ez. unfold calculate_hop_mac. fold blk.
  destruct (list6 (firstn 6 (cmac key blk)) ltac:(rewrite firstn_length; lia)) as (t0 & t1 & t2 & t3 & t4 & t5 & Et).
  rewrite Et, set_mac_bytes.
  (* put the hop back and compare with the encoding of the model *)
  unfold oh_model_set_second_hop. fold beta. unfold oh_encode. cbn [o_info o_hop1 o_hop2].
  assert (Enew : enc_hop (mkHop 0 (h_exp (o_hop1 p)) ingress 0
                                (calculate_hop_mac cmac beta (i_ts (o_info p)) (h_exp (o_hop1 p)) ingress 0 key))
                 = [0; h_exp (o_hop1 p); (ingress / 256) mod 256; ingress mod 256; 0; 0; t0; t1; t2; t3; t4; t5]).
  { unfold enc_hop, calculate_hop_mac. cbn [h_flags h_exp h_ci h_ce h_mac]. fold blk.
    rewrite firstn_firstn. cbn [Nat.min]. rewrite Et, !be_bytes_2, Ee. reflexivity. }
  rewrite Enew. rewrite !app_assoc.
  apply set_range_app_end.
  - rewrite app_length, enc_info_length, enc_hop_length by assumption. reflexivity.
  - rewrite enc_hop_length by assumption. reflexivity.
Qed.
End SecondHopAgrees.

(** * the second hop built by set_second_hop authenticates at the second AS *)
Section SecondHopAuthentic.
Variable cmac : list N -> list N -> list N.
Variable p : onehop.
Hypothesis Ht : onehop_typed p = true.
Variables (ingress : N) (key : list N) (advanced : bool).
Hypothesis Hin : ingress < 65536.
Let beta := if advanced then i_segid (o_info p) else mac_beta_step (i_segid (o_info p)) (h_mac (o_hop1 p)).
Let blk := mac_input beta (i_ts (o_info p)) (h_exp (o_hop1 p)) ingress 0.
Hypothesis Hmac : (6 <= length (cmac key blk))%nat.
Hypothesis Hmacb : bytes_ok (cmac key blk) = true.

Lemma beta_lt : beta < 65536.
Proof.
  destruct (oh_typed_inv p Ht) as (Hi & H1 & _).
  pose proof (info_typed_inv _ Hi) as (_ & Hsg & _). pose proof (hop_typed_inv _ H1) as (_ & _ & _ & _ & L1 & B1).
  unfold beta. destruct advanced; [exact Hsg|]. unfold mac_beta_step.
  apply (lxor_lt_pow2 _ _ 16); [exact Hsg|].
  apply (N.lt_le_trans _ (256 ^ N.of_nat (length (firstn 2 (h_mac (o_hop1 p)))))).
  - apply be_val_lt. unfold bytes_ok in *. apply forallb_forall. intros x Hx. apply In_firstn' in Hx.
    rewrite forallb_forall in B1. auto.
  - change (2 ^ 16) with (256 ^ 2). apply N.pow_le_mono_r; [lia|]. rewrite firstn_length. lia.
Qed.

(** the hop field the model builds, presented to HopMacValidator with the key of the second AS
    and an info field carrying the chaining value after hop 1, is accepted *)
Lemma oh_second_hop_authentic :
  let p' := oh_model_set_second_hop cmac p ingress key advanced in
  let info2 := mkInfo (i_flags (o_info p)) beta (i_ts (o_info p)) in
  hop_typed (o_hop2 p') = true
  /\ forall i st en, v_hop (hop_mac_validator cmac key) i (enc_hop (o_hop2 p')) (enc_info info2) st en = None.
Proof.
  intros p' info2.
  destruct (oh_typed_inv p Ht) as (Hi & H1 & _).
  pose proof (info_typed_inv _ Hi) as (Hf & Hsg & Hts). pose proof (hop_typed_inv _ H1) as (_ & X1 & _).
  assert (Hty : hop_typed (o_hop2 p') = true).
  { unfold p', oh_model_set_second_hop, hop_typed. cbn [o_hop2 h_flags h_exp h_ci h_ce h_mac]. fold beta.
    unfold calculate_hop_mac. fold blk. rewrite firstn_length, Nat.min_l by lia.
    assert (Hb6 : bytes_ok (firstn 6 (cmac key blk)) = true).
    { unfold bytes_ok in *. apply forallb_forall. intros x Hx. apply In_firstn' in Hx. rewrite forallb_forall in Hmacb. auto. }
    rewrite Hb6. rewrite !andb_true_iff. repeat split; first [lia|reflexivity]. }
  split; [exact Hty|]. intros i st en. cbn [v_hop hop_mac_validator]. apply hop_mac_check_none.
  assert (Hi2 : info_typed info2 = true).
  { unfold info_typed, info2. cbn [i_flags i_segid i_ts]. pose proof beta_lt. rewrite !andb_true_iff. lia. }
  pose proof (dec_enc_hop _ Hty) as Eh. pose proof (dec_enc_info _ Hi2) as Ei.
  assert (E1 : hf_mac (enc_hop (o_hop2 p')) = h_mac (o_hop2 p')) by (now apply (f_equal h_mac) in Eh).
  assert (E2 : hf_exp (enc_hop (o_hop2 p')) = h_exp (o_hop2 p')) by (now apply (f_equal h_exp) in Eh).
  assert (E3 : hf_cons_ingress (enc_hop (o_hop2 p')) = h_ci (o_hop2 p')) by (now apply (f_equal h_ci) in Eh).
  assert (E4 : hf_cons_egress (enc_hop (o_hop2 p')) = h_ce (o_hop2 p')) by (now apply (f_equal h_ce) in Eh).
  assert (E5 : if_segid (enc_info info2) = beta) by (now apply (f_equal i_segid) in Ei).
  assert (E6 : if_ts (enc_info info2) = i_ts (o_info p)) by (now apply (f_equal i_ts) in Ei).
  rewrite E1, E2, E3, E4, E5, E6. unfold p', oh_model_set_second_hop. cbn [o_hop2 h_mac h_exp h_ci h_ce]. fold beta.
  unfold calculate_hop_mac. fold blk. reflexivity.
Qed.
End SecondHopAuthentic.
