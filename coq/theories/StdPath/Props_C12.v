(** C12 -- property theorems only.  Each is closed by short glue from lemmas of [Proofs*],
    and followed by [Print Assumptions].

    [view_ok b]: b is a byte string the view constructor accepts (4-byte meta header, total
    length exactly the size the segment lengths ask for, every element a byte): includes
    zero-length first/middle segments, pointers out of range, more than 64 hop fields.
    [wf p]: p is a model the encoder accepts (wire_valid, with the CurrHF range check of the
    C03 repair) whose fields are inside the ranges of their Rust types. *)
From Sci Require Import StdPath.Model StdPath.ModelRouting StdPath.Spec StdPath.Proofs StdPath.ProofsRev StdPath.ProofsEnc StdPath.ProofsQuery StdPath.ProofsOneHop StdPath.Examples.
Local Open Scope N_scope.

(** Reversing the encoded bytes in place gives exactly the encoding of the reversed model,
    with the same Ok/Err result, for every accepted model at every pointer position. *)
Theorem reverse_commutes :
  forall p, wf p ->
    view_try_reverse (encode p) = (encode (fst (model_try_reverse p)), snd (model_try_reverse p)).
Proof. intros p H. apply reverse_commutes_wfp. apply wf_inv. exact H. Qed.
Print Assumptions reverse_commutes.

(** ... and decoding the reversed bytes gives the reversed model. *)
Theorem reverse_commutes_decoded :
  forall p p', wf p -> model_try_reverse p = (p', Ok tt) ->
    from_view (fst (view_try_reverse (encode p))) = p'.
Proof.
  intros p p' H E. pose proof (wf_inv p H) as Hw. rewrite (reverse_commutes_wfp p Hw), E. cbn [fst].
  destruct (63 <? m_hop_count p - p_ch p - 1) eqn:Hfit.
  - exfalso. unfold model_try_reverse in E. destruct Hw as (Hlen & _ & Hch & _ & Hci). unfold m_info_count in E.
    destruct (N.of_nat (length (p_segs p)) =? 0); [discriminate|].
    destruct (m_hop_count p <=? p_ch p); [discriminate|].
    destruct (N.of_nat (length (p_segs p)) <=? p_ci p); [discriminate|]. rewrite Hfit in E. discriminate.
  - destruct (model_reverse_wfp p Hw Hfit) as [E' Hw']. rewrite E in E'. injection E' as ->.
    apply from_view_encode_wfp. exact Hw'.
Qed.
Print Assumptions reverse_commutes_decoded.

(** Reversal is its own inverse on EVERY byte string the view constructor accepts. *)
Theorem reverse_involutive :
  forall b b', view_ok b = true -> view_try_reverse b = (b', Ok tt) -> view_try_reverse b' = (b, Ok tt).
Proof. exact view_reverse_involutive. Qed.
Print Assumptions reverse_involutive.

(** Reversal preserves the logical position: on every accepted byte string the hop field under
    the pointer afterwards is the hop field that was under the pointer before, at the mirrored
    index. *)
Theorem reverse_preserves_position :
  forall b b', view_ok b = true -> view_try_reverse b = (b', Ok tt) ->
    exists h, hop_field b (curr_hf b) = Some h /\ hop_field b' (curr_hf b') = Some h
              /\ curr_hf b' + curr_hf b + 1 = hop_count b.
Proof. exact view_reverse_same_hop. Qed.
Print Assumptions reverse_preserves_position.

(** View and model compute the same expiry. *)
Theorem expiration_agrees :
  forall p, wf p -> view_expiration (encode p) = model_expiration p.
Proof. intros p H. apply expiration_agrees_wfp. apply wf_inv. exact H. Qed.
Print Assumptions expiration_agrees.

(** Conversion in either direction: decode (encode p) = p. *)
Theorem to_model_encode_id :
  forall p, wf p -> from_view (encode p) = p.
Proof. intros p H. apply from_view_encode_wfp. apply wf_inv. exact H. Qed.
Print Assumptions to_model_encode_id.

(** Segment queries (the owned model offers no interface queries; those exist on views only).
    On EVERY byte string the iterator yields exactly the leading non-empty segments and
    [calculate_segment_index] meets its specification ([Spec.sp_seg_index]: the position of the
    hop in the list of all hops tagged with segment index / first / last); on an encoding the
    counts are the model's. *)
Theorem queries_agree :
  (forall b, view_segments b = Ok (segments_spec (seg0_len b) (seg1_len b) (seg2_len b)))
  /\ (forall b k, calculate_segment_index b k = sp_seg_index (seg_lens b) k)
  /\ (forall p, wf p ->
        hop_count (encode p) = m_hop_count p /\ info_count (encode p) = m_info_count p
        /\ total_segments (encode p) = m_info_count p).
Proof.
  split; [exact view_segments_spec|]. split; [exact calc_seg_index_spec|]. intros p H. apply wf_inv in H.
  destruct (encode_assembled p H) as (l0 & l1 & l2 & Epad & Eenc & Hm & Hs & Hl0 & Hrc & Hsum).
  rewrite Eenc. unfold hop_count, info_count, total_segments, m_info_count.
  rewrite (asm_seg0 _ _ _ _ _ _ _ _ Hm), (asm_seg1 _ _ _ _ _ _ _ _ Hm), (asm_seg2 _ _ _ _ _ _ _ _ Hm).
  refine (conj Hsum (conj _ _)).
  - rewrite <- (sh_if_cnt _ _ _ _ _ Hs). unfold infos_of. now rewrite !map_length.
  - rewrite <- Hrc. unfold rev_seg_count. destruct (l0 =? 0) eqn:E; [apply N.eqb_eq in E; contradiction|reflexivity].
Qed.
Print Assumptions queries_agree.

(** One-hop paths: in-place reversal of the view = reversal of the model, and the conversion
    to a reversed standard path is the meta header followed by the reversed view. *)
Theorem onehop_agrees :
  forall p, onehop_typed p = true ->
    oh_view_try_reverse (oh_encode p) = (oh_encode (fst (oh_model_try_reverse p)), snd (oh_model_try_reverse p))
    /\ forall sp, oh_into_reversed_standard p = Ok sp ->
         encode sp = mk_meta 0 0 0 2 0 0 ++ fst (oh_view_try_reverse (oh_encode p)).
Proof.
  intros p H. split; [apply oh_reverse_commutes; exact H|].
  intros sp E. apply (oh_conversion_agrees p H sp E).
Qed.
Print Assumptions onehop_agrees.

(** set_second_hop on the one-hop view and on the one-hop model build the same path, for every
    MAC function (the premise only says that the MAC used has at least the six bytes kept). *)
Theorem onehop_set_second_hop_agrees :
  forall (cmac : list N -> list N -> list N) (p : onehop) (ingress : N) (key : list N) (advanced : bool),
    onehop_typed p = true -> ingress < 65536 ->
    (6 <= length (cmac key (mac_input
            (if advanced then i_segid (o_info p) else mac_beta_step (i_segid (o_info p)) (h_mac (o_hop1 p)))
            (i_ts (o_info p)) (h_exp (o_hop1 p)) ingress 0)))%nat ->
    oh_view_set_second_hop cmac (oh_encode p) ingress key advanced
    = oh_encode (oh_model_set_second_hop cmac p ingress key advanced).
Proof. intros. apply oh_set_second_hop_commutes; assumption. Qed.
Print Assumptions onehop_set_second_hop_agrees.

(** An operation that reports an error leaves its operand untouched: EVERY byte string (view,
    one-hop view), every model, every ScionPath. *)
Theorem err_leaves_bytes_unchanged :
  (forall b b' e, view_try_reverse b = (b', Err e) -> b' = b)
  /\ (forall b b' e, oh_view_try_reverse b = (b', Err e) -> b' = b)
  /\ (forall p p' e, model_try_reverse p = (p', Err e) -> p' = p)
  /\ (forall p p' e, scion_try_reverse p = (p', Err e) -> p' = p).
Proof.
  exact (conj view_reverse_err_unchanged (conj oh_view_reverse_err_unchanged
        (conj model_reverse_err_unchanged scion_reverse_err_unchanged))).
Qed.
Print Assumptions err_leaves_bytes_unchanged.

(** No modelled panic site (unchecked slice, expect, u32/usize overflow) is reachable: views
    on every accepted byte string, models on every typed model. *)
Theorem no_panic :
  (forall b, view_ok b = true ->
     is_panic (snd (view_try_reverse b)) = false /\ is_panic (view_segments b) = false
     /\ is_panic (view_expiration b) = false)
  /\ (forall b, is_panic (snd (oh_view_try_reverse b)) = false /\ is_panic (oh_view_expiration b) = false)
  /\ (forall p, is_panic (snd (model_try_reverse p)) = false)
  /\ (forall p, path_typed p = true -> is_panic (model_expiration p) = false).
Proof.
  refine (conj _ (conj _ (conj model_reverse_no_panic model_expiration_no_panic))).
  - intros b H. exact (conj (view_reverse_no_panic b H) (conj (view_segments_no_panic b) (view_expiration_no_panic b H))).
  - intros b. split; [|reflexivity]. unfold oh_view_try_reverse. destruct (_ =? 0); reflexivity.
Qed.
Print Assumptions no_panic.

(** non-vacuity: a two-segment model at position (1, 2) is accepted; reversal succeeds and the
    involution/commutation theorems apply to it *)
Example ex_path_wf : wf ex_path.
Proof. split; vm_compute; reflexivity. Qed.
Example ex_path_reversed :
  snd (view_try_reverse (encode ex_path)) = Ok tt
  /\ view_ok (encode ex_path) = true
  /\ p_ch (fst (model_try_reverse ex_path)) = 2 /\ p_ci (fst (model_try_reverse ex_path)) = 0.
Proof. vm_compute. repeat split; reflexivity. Qed.
