(** C12 -- property theorems only.  Each is closed by short glue from lemmas of [Proofs*],
    and followed by [Print Assumptions]. *)
From Sci Require Import StdPath.Model StdPath.Spec StdPath.Proofs StdPath.ProofsRev.
Local Open Scope N_scope.

(** On any byte string whatsoever (in particular every one the view constructor accepts:
    zero-length middle segment, pointers out of range, more than 64 hop fields), a reversal
    that reports an error returns the bytes unchanged. *)
Theorem err_leaves_bytes_unchanged :
  forall b b' e, view_try_reverse b = (b', Err e) -> b' = b.
Proof. exact view_reverse_err_unchanged. Qed.
Print Assumptions err_leaves_bytes_unchanged.

(** Reversal is its own inverse on every byte string the view constructor accepts. *)
Theorem reverse_involutive :
  forall b b', view_ok b = true -> view_try_reverse b = (b', Ok tt) -> view_try_reverse b' = (b, Ok tt).
Proof. exact view_reverse_involutive. Qed.
Print Assumptions reverse_involutive.
