(** Segment iteration, expiration, one-hop paths: totality (no modelled panic) on every
    accepted byte string and agreement between view and model on encodings. *)
From Coq Require Import Lia ZifyBool ZifyNat ZifyN.
From Sci Require Import Common.ListAux StdPath.Model StdPath.Spec StdPath.Proofs StdPath.ProofsRev StdPath.ProofsEnc.
Local Open Scope N_scope.
Ltac Zify.zify_post_hook ::= Z.div_mod_to_equations.
Arguments N.add : simpl never. Arguments N.sub : simpl never. Arguments N.mul : simpl never.
Arguments N.div : simpl never. Arguments N.modulo : simpl never. Arguments N.eqb : simpl never.
Arguments N.ltb : simpl never. Arguments N.leb : simpl never. Arguments N.lxor : simpl never.
Arguments N.min : simpl never. Arguments N.testbit : simpl never.

(** * the segment iterator yields the leading non-empty segments, on every byte string *)
Definition segments_spec (s0 s1 s2 : N) : list (N * N * N) :=
  if s0 =? 0 then [] else
  if s1 =? 0 then [(0, 0, s0)] else
  if s2 =? 0 then [(0, 0, s0); (1, s0, s1)] else [(0, 0, s0); (1, s0, s1); (2, s0 + s1, s2)].

Lemma view_segments_spec b : view_segments b = Ok (segments_spec (seg0_len b) (seg1_len b) (seg2_len b)).
Proof.
  unfold view_segments, segments_spec. cbn [seg_iter].
  unfold total_segments, info_count, hop_count, seg_lens, nz.
  set (s0 := seg0_len b). set (s1 := seg1_len b). set (s2 := seg2_len b).
  change (0 + 1) with 1. change (1 + 1) with 2. change (2 + 1) with 3.
  change (N.to_nat 0) with 0%nat. change (N.to_nat 1) with 1%nat. change (N.to_nat 2) with 2%nat.
  cbn [nth].
  destruct (s0 =? 0) eqn:E0.
  { change (0 <=? 0) with true. reflexivity. }
  destruct (s1 =? 0) eqn:E1.
  { change (1 <=? 0) with false. change (1 <=? 1) with true.
    destruct (1 + 0 + (if s2 =? 0 then 0 else 1) <=? 0) eqn:A; [destruct (s2 =? 0); lia|].
    destruct (s0 + s1 + s2 <? 0 + s0) eqn:B; [lia|]. reflexivity. }
  destruct (s2 =? 0) eqn:E2.
  { change (2 <=? 0) with false. change (2 <=? 1) with false. change (2 <=? 2) with true.
    change (1 + 1 + 0) with 2. change (2 <=? 0) with false. change (2 <=? 1) with false.
    destruct (s0 + s1 + s2 <? 0 + s0) eqn:B; [lia|].
    destruct (s0 + s1 + s2 <? 0 + s0 + s1) eqn:C; [lia|]. cbn [obind]. now rewrite N.add_0_l. }
  change (3 <=? 0) with false. change (3 <=? 1) with false. change (3 <=? 2) with false. change (3 <=? 3) with true.
  change (1 + 1 + 1) with 3. change (3 <=? 0) with false. change (3 <=? 1) with false. change (3 <=? 2) with false.
  destruct (s0 + s1 + s2 <? 0 + s0) eqn:B; [lia|].
  destruct (s0 + s1 + s2 <? 0 + s0 + s1) eqn:C; [lia|].
  destruct (s0 + s1 + s2 <? 0 + s0 + s1 + s2) eqn:D; [lia|]. cbn [obind]. now rewrite N.add_0_l.
Qed.

Lemma view_segments_no_panic b : is_panic (view_segments b) = false.
Proof. now rewrite view_segments_spec. Qed.

(** * expiration *)
Lemma list_min_in l m : list_min l = Some m -> In m l.
Proof.
  destruct l as [|x r]; [discriminate|]. cbn [list_min]. intros E. injection E as <-.
  revert x. induction r as [|y r IH]; intros x; cbn [fold_left]; [now left|].
  destruct (IH (N.min x y)) as [H|H].
  - rewrite <- H. destruct (N.min_spec x y) as [[_ ->]|[_ ->]]; [now left|right; now left].
  - right. now right.
Qed.
Lemma list_min_some l : l <> [] -> exists m, list_min l = Some m.
Proof. destruct l; [congruence|]. intros _. eexists. reflexivity. Qed.

Lemma exp_secs_small e : e < 256 -> exp_secs e <= 86400.
Proof. intros H. unfold exp_secs. change EXP_TIME_UNIT_MILLIS with 337500. lia. Qed.

Lemma segment_expiry_ok ts exps :
  exps <> [] -> Forall (fun e => e < 256) exps -> exists v, segment_expiry ts exps = Ok v.
Proof.
  intros Hne Hb. destruct (list_min_some exps Hne) as [m Hm]. unfold segment_expiry. rewrite Hm.
  pose proof (list_min_in _ _ Hm) as Hin. rewrite Forall_forall in Hb. specialize (Hb m Hin).
  pose proof (exp_secs_small m Hb). unfold U32_MAX.
  destruct (4294967295 <? exp_secs m) eqn:E; [lia|]. eexists. reflexivity.
Qed.

Lemma fold_expiry_ok segs acc :
  Forall (fun '(ts, exps) => exps <> [] /\ Forall (fun e => e < 256) exps) segs ->
  exists v, fold_expiry acc segs = Ok v.
Proof.
  intros H. revert acc. induction H as [|[ts exps] segs [H1 H2] _ IH]; intros acc; cbn [fold_expiry].
  - eexists. reflexivity.
  - destruct (segment_expiry_ok ts exps H1 H2) as [v ->]. cbn [obind]. apply IH.
Qed.

Lemma byte_lt f i : bytes_ok f = true -> byte f i < 256.
Proof.
  unfold byte, bytes_ok. revert i. induction f as [|x f IH]; intros i H; destruct i; cbn [nth]; try lia.
  - cbn [forallb] in H. apply andb_prop in H as [H _]. unfold byte_ok in H. lia.
  - cbn [forallb] in H. apply andb_prop in H as [_ H]. apply IH. exact H.
Qed.

Lemma In_firstn {A} (x : A) n l : In x (firstn n l) -> In x l.
Proof.
  revert l; induction n as [|n IH]; intros l H; [destruct H|].
  destruct l as [|y l]; [destruct H|]. cbn in H. destruct H as [->|H]; [now left|right; auto].
Qed.

Lemma view_expiration_no_panic b : view_ok b = true -> is_panic (view_expiration b) = false.
Proof.
  intros Hv.
  destruct (view_decompose b Hv) as (ci & ch & rsv & s0 & s1 & s2 & IF & HF & -> & Hm & Hs & Hb).
  unfold view_expiration. destruct (total_segments _ =? 0); [reflexivity|].
  rewrite view_segments_spec. cbn [obind].
  rewrite (asm_seg0 _ _ _ _ _ _ _ _ Hm), (asm_seg1 _ _ _ _ _ _ _ _ Hm), (asm_seg2 _ _ _ _ _ _ _ _ Hm).
  match goal with |- is_panic (fold_expiry _ ?l) = false => destruct (fold_expiry_ok l U32_MAX) as [v ->]; [|reflexivity] end.
  apply Forall_map. unfold seg_hops. rewrite (asm_hop_fields _ _ _ _ _ _ _ _ Hm Hs).
  destruct (bytes_ok_assemble _ _ _ _ _ _ _ _ Hb) as [_ HbH].
  pose proof (sh_hf_cnt _ _ _ _ _ Hs) as Hn.
  assert (Hgen : forall hi len, 1 <= len -> hi + len <= s0 + s1 + s2 ->
            map hf_exp (firstn (N.to_nat len) (skipn (N.to_nat hi) HF)) <> []
            /\ Forall (fun e => e < 256) (map hf_exp (firstn (N.to_nat len) (skipn (N.to_nat hi) HF)))).
  { intros hi len H1 H2. split.
    - intros E. apply (f_equal (@length N)) in E. rewrite map_length, firstn_length, skipn_length in E. cbn in E. lia.
    - apply Forall_map. apply Forall_forall. intros f Hf. apply byte_lt.
      apply In_firstn in Hf. assert (Hf' : In f HF).
      { rewrite <- (firstn_skipn (N.to_nat hi) HF). apply in_or_app. now right. }
      rewrite Forall_forall in HbH. auto. }
  unfold segments_spec.
  destruct (s0 =? 0) eqn:E0; [constructor|].
  destruct (s1 =? 0) eqn:E1; [|destruct (s2 =? 0) eqn:E2].
  - repeat constructor; apply Hgen; lia.
  - repeat constructor; apply Hgen; lia.
  - repeat constructor; apply Hgen; lia.
Qed.

(** ** view and model expiration agree on encodings *)
Lemma if_ts_enc_info i : info_typed i = true -> if_ts (enc_info i) = i_ts i.
Proof. intros H. pose proof (dec_enc_info i H) as E. apply (f_equal i_ts) in E. exact E. Qed.
Lemma hf_exp_enc_hop h : hop_typed h = true -> hf_exp (enc_hop h) = h_exp h.
Proof. intros H. pose proof (dec_enc_hop h H) as E. apply (f_equal h_exp) in E. exact E. Qed.
Lemma map_hf_exp_enc hs :
  Forall (fun h => hop_typed h = true) hs -> map hf_exp (map enc_hop hs) = map h_exp hs.
Proof. intros H. rewrite map_map. apply map_ext_in. intros h Hin. rewrite Forall_forall in H. apply hf_exp_enc_hop. auto. Qed.

Lemma fold_expiry_model segs acc :
  Forall seg_ok segs ->
  fold_expiry acc (map (fun sg => (i_ts (s_info sg), map h_exp (s_hops sg))) segs) = m_fold_expiry acc segs.
Proof.
  intros H. revert acc. induction H as [|s segs [Hl _] _ IH]; intros acc; [reflexivity|].
  cbn [map fold_expiry m_fold_expiry]. unfold segment_expiry.
  assert (Hne : map h_exp (s_hops s) <> []).
  { intros E. apply (f_equal (@length N)) in E. rewrite map_length in E. unfold seg_len in Hl. cbn in E. lia. }
  destruct (list_min_some _ Hne) as [m ->].
  destruct (U32_MAX <? exp_secs m); [reflexivity|]. cbn [obind]. apply IH.
Qed.

Lemma seg_ok_inv s : seg_ok s -> 1 <= seg_len s <= 63 /\ info_typed (s_info s) = true
                                 /\ Forall (fun h => hop_typed h = true) (s_hops s).
Proof. intros [H1 H2]. apply seg_typed_inv in H2. tauto. Qed.

Lemma expiration_agrees_wfp p : wfp p -> view_expiration (encode p) = model_expiration p.
Proof.
  intros Hwf.
  destruct (encode_assembled p Hwf) as (l0 & l1 & l2 & Epad & Eenc & Hm & Hs & Hl0 & Hrc & Hsum).
  destruct Hwf as (Hlen & Hok & Hch & Hch63 & Hci).
  unfold model_expiration. rewrite <- (fold_expiry_model _ _ Hok).
  rewrite Eenc. unfold view_expiration, total_segments.
  rewrite view_segments_spec.
  rewrite (asm_seg0 _ _ _ _ _ _ _ _ Hm), (asm_seg1 _ _ _ _ _ _ _ _ Hm), (asm_seg2 _ _ _ _ _ _ _ _ Hm).
  destruct (l0 =? 0) eqn:E0; [lia|].
  assert (Ez : ((if l1 =? 0 then 1 else if l2 =? 0 then 2 else 3) =? 0) = false)
    by (destruct (l1 =? 0); [|destruct (l2 =? 0)]; reflexivity).
  rewrite Ez. cbn [obind]. f_equal.
  unfold seg_info, seg_hops.
  rewrite (asm_info_fields _ _ _ _ _ _ _ _ Hm Hs), (asm_hop_fields _ _ _ _ _ _ _ _ Hm Hs).
  unfold segments_spec. rewrite E0.
  destruct p as [ci ch segs]. cbn [p_ci p_ch p_segs] in *.
  destruct segs as [|x [|y [|z [|w r]]]]; cbn [length] in Hlen; try lia;
    cbn [map pad3] in Epad; injection Epad as <- <- <-.
  - assert (Hx := seg_ok_inv x ltac:(inversion Hok; assumption)). destruct Hx as (Hx & Hix & Hhx).
    change (0 =? 0) with true. cbv iota. unfold infos_of, hops_of. cbn [map concat nth].
    change (N.to_nat 0) with 0%nat. cbn [skipn nth]. rewrite app_nil_r.
    unfold seg_len at 1. rewrite Nat2N.id, <- (map_length enc_hop), firstn_all.
    rewrite (if_ts_enc_info _ Hix), (map_hf_exp_enc _ Hhx). reflexivity.
  - assert (Hx := seg_ok_inv x ltac:(inversion Hok; assumption)). destruct Hx as (Hx & Hix & Hhx).
    assert (Hy := seg_ok_inv y ltac:(inversion Hok as [|? ? _ Hok']; inversion Hok'; assumption)). destruct Hy as (Hy & Hiy & Hhy).
    destruct (seg_len y =? 0) eqn:E1; [lia|]. change (0 =? 0) with true. cbv iota.
    unfold infos_of, hops_of. cbn [map concat nth].
    change (N.to_nat 0) with 0%nat. change (N.to_nat 1) with 1%nat. cbn [skipn nth]. rewrite app_nil_r, map_app.
    unfold seg_len at 1 2 3. rewrite !Nat2N.id.
    rewrite firstn_app_exact by (now rewrite map_length). rewrite skipn_app_exact by (now rewrite map_length).
    rewrite <- (map_length enc_hop (s_hops y)), firstn_all.
    rewrite (if_ts_enc_info _ Hix), (if_ts_enc_info _ Hiy), (map_hf_exp_enc _ Hhx), (map_hf_exp_enc _ Hhy). reflexivity.
  - assert (Hx := seg_ok_inv x ltac:(inversion Hok; assumption)). destruct Hx as (Hx & Hix & Hhx).
    assert (Hy := seg_ok_inv y ltac:(inversion Hok as [|? ? _ Hok']; inversion Hok'; assumption)). destruct Hy as (Hy & Hiy & Hhy).
    assert (Hz := seg_ok_inv z ltac:(inversion Hok as [|? ? _ Hok']; inversion Hok' as [|? ? _ Hok'']; inversion Hok''; assumption)).
    destruct Hz as (Hz & Hiz & Hhz).
    destruct (seg_len y =? 0) eqn:E1; [lia|]. destruct (seg_len z =? 0) eqn:E2; [lia|].
    unfold infos_of, hops_of. cbn [map concat nth].
    change (N.to_nat 0) with 0%nat. change (N.to_nat 1) with 1%nat. change (N.to_nat 2) with 2%nat.
    cbn [skipn nth]. rewrite app_nil_r, !map_app.
    unfold seg_len. rewrite N2Nat.inj_add, !Nat2N.id.
    rewrite firstn_app_exact by (now rewrite map_length).
    rewrite (skipn_app_exact (map enc_hop (s_hops x))) by (now rewrite map_length).
    rewrite firstn_app_exact by (now rewrite map_length).
    rewrite app_assoc. rewrite skipn_app_exact by (now rewrite app_length, !map_length).
    rewrite <- (map_length enc_hop (s_hops z)), firstn_all.
    rewrite (if_ts_enc_info _ Hix), (if_ts_enc_info _ Hiy), (if_ts_enc_info _ Hiz),
            (map_hf_exp_enc _ Hhx), (map_hf_exp_enc _ Hhy), (map_hf_exp_enc _ Hhz). reflexivity.
Qed.

(** * one-hop paths *)
Lemma oh_view_reverse_err_unchanged b b' e : oh_view_try_reverse b = (b', Err e) -> b' = b.
Proof. unfold oh_view_try_reverse. destruct (_ =? 0); intros H; inversion H; reflexivity. Qed.

Lemma hf_ci_enc_hop h : hop_typed h = true -> hf_cons_ingress (enc_hop h) = h_ci h.
Proof. intros H. pose proof (dec_enc_hop h H) as E. apply (f_equal h_ci) in E. exact E. Qed.

Section OneHop.
Variable p : onehop.
Hypothesis Ht : onehop_typed p = true.
Let i := o_info p. Let h1 := o_hop1 p. Let h2 := o_hop2 p.

Lemma oh_typed_inv : info_typed i = true /\ hop_typed h1 = true /\ hop_typed h2 = true.
Proof. unfold onehop_typed in Ht. rewrite !andb_true_iff in Ht. tauto. Qed.

Lemma oh_parts :
  oh_info (oh_encode p) = enc_info i /\ oh_hop1 (oh_encode p) = enc_hop h1 /\ oh_hop2 (oh_encode p) = enc_hop h2.
Proof.
  destruct oh_typed_inv as (Hi & H1 & H2).
  unfold oh_info, oh_hop1, oh_hop2, oh_encode, get_range. fold i h1 h2.
  refine (conj _ (conj _ _)).
  - cbn [skipn]. apply firstn_app_exact. now rewrite enc_info_length.
  - rewrite skipn_app_exact by (now rewrite enc_info_length). apply firstn_app_exact. now rewrite enc_hop_length.
  - rewrite app_assoc. rewrite skipn_app_exact by (now rewrite app_length, enc_info_length, enc_hop_length).
    apply firstn_all2. rewrite enc_hop_length by exact H2. lia.
Qed.

Lemma oh_reverse_commutes :
  oh_view_try_reverse (oh_encode p) = (oh_encode (fst (oh_model_try_reverse p)), snd (oh_model_try_reverse p)).
Proof.
  destruct oh_typed_inv as (Hi & H1 & H2). destruct oh_parts as (Ei & E1 & E2).
  unfold oh_view_try_reverse, oh_model_try_reverse. rewrite E2, E1. fold h2.
  rewrite (hf_ci_enc_hop _ H2). destruct (h_ci h2 =? 0); [reflexivity|]. cbn [fst snd]. f_equal.
  unfold oh_encode at 1 2. fold i h1 h2.
  assert (Es1 : set_range (enc_info i ++ enc_hop h1 ++ enc_hop h2) 8 (enc_hop h2)
                = enc_info i ++ enc_hop h2 ++ enc_hop h2).
  { apply set_range_app; [now rewrite enc_info_length|now rewrite !enc_hop_length]. }
  rewrite Es1.
  assert (Es2 : set_range (enc_info i ++ enc_hop h2 ++ enc_hop h2) 20 (enc_hop h1)
                = enc_info i ++ enc_hop h2 ++ enc_hop h1).
  { rewrite app_assoc. rewrite (app_assoc (enc_info i) (enc_hop h2) (enc_hop h1)).
    apply set_range_app_end; [now rewrite app_length, enc_info_length, enc_hop_length|now rewrite !enc_hop_length]. }
  rewrite Es2.
  assert (Eo : oh_info (enc_info i ++ enc_hop h2 ++ enc_hop h1) = enc_info i).
  { unfold oh_info, get_range. cbn [skipn]. apply firstn_app_exact. now rewrite enc_info_length. }
  rewrite Eo, (toggle_enc_info _ Hi).
  unfold oh_encode. cbn [o_info o_hop1 o_hop2].
  change (enc_info i ++ enc_hop h2 ++ enc_hop h1) with ([] ++ enc_info i ++ enc_hop h2 ++ enc_hop h1).
  change (enc_info (m_toggle i) ++ enc_hop h2 ++ enc_hop h1) with ([] ++ enc_info (m_toggle i) ++ enc_hop h2 ++ enc_hop h1).
  apply set_range_app; [reflexivity|now rewrite !enc_info_length].
Qed.

(** the conversion to a reversed standard path = meta header (one segment of two hops,
    both pointers 0) followed by the one-hop view reversed in place *)
Lemma oh_conversion_agrees sp :
  oh_into_reversed_standard p = Ok sp ->
  encode sp = mk_meta 0 0 0 2 0 0 ++ fst (oh_view_try_reverse (oh_encode p))
  /\ snd (oh_view_try_reverse (oh_encode p)) = Ok tt.
Proof.
  rewrite oh_reverse_commutes. unfold oh_into_reversed_standard, oh_model_try_reverse. fold h2 h1 i.
  destruct (h_ci h2 =? 0); [discriminate|]. intros E. injection E as <-. cbn [fst snd]. split; [|reflexivity].
  unfold encode, m_segment_sizes, oh_encode. cbn [p_segs p_ci p_ch map nth_error s_hops s_info concat o_info o_hop1 o_hop2 seg_len length].
  cbn [map concat]. rewrite !app_nil_r. cbn [map concat]. rewrite !app_nil_r. reflexivity.
Qed.
End OneHop.

(** * the model's own operations: atomic and total *)
Lemma model_reverse_err_unchanged p p' e : model_try_reverse p = (p', Err e) -> p' = p.
Proof.
  unfold model_try_reverse. intros H.
  repeat match type of H with (if ?c then _ else _) = _ => destruct c end; inversion H; reflexivity.
Qed.

Lemma model_reverse_no_panic p : is_panic (snd (model_try_reverse p)) = false.
Proof.
  unfold model_try_reverse. fold (rev_segs (p_segs p)).
  destruct (m_info_count p =? 0); [reflexivity|].
  destruct (m_hop_count p <=? p_ch p) eqn:E1; [reflexivity|].
  destruct (m_info_count p <=? p_ci p); [reflexivity|].
  destruct (63 <? m_hop_count p - p_ch p - 1); [reflexivity|].
  assert (Hcnt : m_hop_count (mkPath (p_ci p) (p_ch p) (rev_segs (p_segs p))) = m_hop_count p).
  { rewrite !m_hop_count_eq. cbn [p_segs]. now rewrite hops_of_rev_segs, rev_length. }
  rewrite Hcnt. destruct (m_hop_count p - p_ch p <? 1) eqn:E3; [lia|]. reflexivity.
Qed.

Lemma model_expiration_no_panic p : path_typed p = true -> is_panic (model_expiration p) = false.
Proof.
  unfold path_typed, model_expiration. rewrite !andb_true_iff. intros [_ Ht]. rewrite forallb_forall in Ht.
  generalize U32_MAX at 1. induction (p_segs p) as [|s segs IH]; intros acc; [reflexivity|].
  cbn [m_fold_expiry].
  destruct (list_min (map h_exp (s_hops s))) as [m|] eqn:Em; [|reflexivity].
  assert (Hs : seg_typed s = true) by (apply Ht; now left).
  apply seg_typed_inv in Hs as [_ Hh]. apply list_min_in in Em. apply in_map_iff in Em as (h & <- & Hin).
  rewrite Forall_forall in Hh. apply Hh in Hin. apply hop_typed_inv in Hin as (_ & He & _).
  pose proof (exp_secs_small _ He). unfold U32_MAX at 1.
  destruct (4294967295 <? exp_secs (h_exp h)) eqn:E; [lia|]. apply IH. intros x Hx. apply Ht. now right.
Qed.

Lemma scion_reverse_err_unchanged p p' e : scion_try_reverse p = (p', Err e) -> p' = p.
Proof.
  unfold scion_try_reverse. destruct (view_try_reverse (sp_dp p)) as [b' r] eqn:E.
  destruct r; intros H; inversion H; subst.
  apply view_reverse_err_unchanged in E. subst. now destruct p.
Qed.

(** * calculate_segment_index meets its specification, on every byte string *)
Lemma nth_error_map_seq_app {A} (f : nat -> A) n rest k :
  nth_error (map f (seq 0 n) ++ rest) k = if (k <? n)%nat then Some (f k) else nth_error rest (k - n).
Proof.
  destruct (k <? n)%nat eqn:E.
  - apply Nat.ltb_lt in E. rewrite nth_error_app1 by (now rewrite map_length, seq_length).
    rewrite nth_error_map, nth_error_nth' with (d := 0%nat) by (now rewrite seq_length).
    rewrite seq_nth by exact E. reflexivity.
  - apply Nat.ltb_ge in E. rewrite nth_error_app2 by (now rewrite map_length, seq_length).
    now rewrite map_length, seq_length.
Qed.

Lemma calc_seg_index_spec b k : calculate_segment_index b k = sp_seg_index (seg_lens b) k.
Proof.
  unfold calculate_segment_index, sp_seg_index, sp_positions, seg_lens.
  set (a := seg0_len b). set (c := seg1_len b). set (d := seg2_len b).
  cbn [length seq combine flat_map calc_seg_idx_aux].
  rewrite !nth_error_map_seq_app.
  assert (Hb : forall (x y : N) (i j : nat), (x = y <-> i = j) -> (x =? y) = (i =? j)%nat).
  { intros x y i j H. apply eq_true_iff_eq. rewrite N.eqb_eq, Nat.eqb_eq. exact H. }
  destruct (k <? 0 + a) eqn:E0.
  - destruct (N.to_nat k <? N.to_nat a)%nat eqn:F0; [|lia].
    rewrite (Hb k 0 (N.to_nat k) 0%nat ltac:(lia)), (Hb (k + 1) (0 + a) (S (N.to_nat k)) (N.to_nat a) ltac:(lia)).
    reflexivity.
  - destruct (N.to_nat k <? N.to_nat a)%nat eqn:F0; [lia|].
    destruct (k <? 0 + a + c) eqn:E1.
    + destruct (N.to_nat k - N.to_nat a <? N.to_nat c)%nat eqn:F1; [|lia].
      rewrite (Hb k (0 + a) (N.to_nat k - N.to_nat a)%nat 0%nat ltac:(lia)),
              (Hb (k + 1) (0 + a + c) (S (N.to_nat k - N.to_nat a)) (N.to_nat c) ltac:(lia)).
      reflexivity.
    + destruct (N.to_nat k - N.to_nat a <? N.to_nat c)%nat eqn:F1; [lia|].
      destruct (k <? 0 + a + c + d) eqn:E2.
      * destruct (N.to_nat k - N.to_nat a - N.to_nat c <? N.to_nat d)%nat eqn:F2; [|lia].
        rewrite (Hb k (0 + a + c) (N.to_nat k - N.to_nat a - N.to_nat c)%nat 0%nat ltac:(lia)),
                (Hb (k + 1) (0 + a + c + d) (S (N.to_nat k - N.to_nat a - N.to_nat c)) (N.to_nat d) ltac:(lia)).
        reflexivity.
      * destruct (N.to_nat k - N.to_nat a - N.to_nat c <? N.to_nat d)%nat eqn:F2; [lia|].
        symmetry. apply nth_error_None. cbn. lia.
Qed.
