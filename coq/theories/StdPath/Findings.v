(** Witnesses, by computation, for the defects of the unrepaired code that C12 found (all
    repaired in /repo, see known_findings/C12.json "fixed"): the ORIGINAL statement order of
    StandardPathView::try_reverse and the original OneHopPathView::expiration are modelled
    here and shown to violate the property on concrete inputs; the same inputs satisfy it on
    the repaired model (Model.v). *)
From Sci Require Import StdPath.Model StdPath.ModelRouting StdPath.Spec Common.AesCmac.
Local Open Scope N_scope.

(** view.rs before the repair: the segment lengths are swapped BEFORE the two range checks,
    and there is no check that the reversed position fits CurrHF *)
Definition view_try_reverse_orig (b : list N) : list N * outcome unit rev_err :=
  let seg0 := seg0_len b in
  let seg1 := seg1_len b in
  let seg2 := seg2_len b in
  let curr_hop_idx := curr_hf b in
  let curr_info_idx := curr_inf b in
  if seg0 =? 0 then (b, Err RevNoSegments) else
  let seg_count := if seg1 =? 0 then 1 else if seg2 =? 0 then 2 else 3 in
  let b1 := swap_seg_lens b seg_count seg0 seg1 seg2 in
  let total_hops := seg0 + seg1 + seg2 in
  if total_hops <=? curr_hop_idx then (b1, Err RevHopOOB) else
  if seg_count <=? curr_info_idx then (b1, Err RevInfoOOB) else
  let b3 := reverse_fields b1 in
  let new_hop_idx := (total_hops - curr_hop_idx) - 1 in
  let new_info_idx := (seg_count - curr_info_idx) - 1 in
  (set_curr_inf (set_curr_hf b3 (new_hop_idx mod 256)) (new_info_idx mod 256), Ok tt).

Definition zeros (n : nat) : list N := repeat 0 n.
(** segment lengths (2,1,0), CurrHF = 5 (out of range), CurrINF = 0: 2 info + 3 hop fields *)
Definition w_210_hf5 : list N := mk_meta 0 5 0 2 1 0 ++ zeros (2 * 8 + 3 * 12).

Lemma w_210_hf5_accepted : view_ok w_210_hf5 = true.
Proof. vm_compute. reflexivity. Qed.

(** the original code reports an error and leaves the segment lengths swapped to (1,2,0) *)
Lemma reverse_error_left_lengths_swapped_refuted :
  let '(b', r) := view_try_reverse_orig w_210_hf5 in
  r = Err RevHopOOB /\ b' <> w_210_hf5 /\ seg_lens b' = [1; 2; 0].
Proof. vm_compute. refine (conj eq_refl (conj _ eq_refl)). discriminate. Qed.

(** the repaired code reports the same error and leaves the bytes alone *)
Lemma reverse_error_repaired :
  view_try_reverse w_210_hf5 = (w_210_hf5, Err RevHopOOB).
Proof. vm_compute. reflexivity. Qed.

(** 70 hop fields (30,30,10), position 0: the original code "succeeds" and writes
    69 mod 64 = 5 into CurrHF, so the current hop is no longer the same hop *)
Definition hopN (k : N) : list N := [0; 0; 0; k; 0; k + 100; 0; 0; 0; 0; 0; 0].
Definition w_70hops : list N :=
  mk_meta 0 0 0 30 30 10 ++ zeros 24 ++ concat (map hopN (map N.of_nat (seq 0 70))).
Lemma w_70hops_accepted : view_ok w_70hops = true.
Proof. vm_compute. reflexivity. Qed.
Lemma reverse_truncates_position_refuted :
  let '(b', r) := view_try_reverse_orig w_70hops in
  r = Ok tt /\ sp_curr_hf b' = 5 /\ sp_hop_at b' (sp_curr_hf b') <> sp_hop_at w_70hops (sp_curr_hf w_70hops).
Proof. vm_compute. refine (conj eq_refl (conj eq_refl _)). discriminate. Qed.
Lemma reverse_truncation_repaired :
  view_try_reverse w_70hops = (w_70hops, Err RevHopUnfit).
Proof. vm_compute. reflexivity. Qed.

(** onehop/view.rs before the repair: `base + secs as u32` overflows u32 (panic in a debug
    build, wrap-around in release) for timestamps in the last day before 2^32 *)
Definition oh_view_expiration_orig (b : list N) : outcome N unit :=
  let base := if_ts (oh_info b) in
  let min_exp := N.min (hf_exp (oh_hop1 b)) (hf_exp (oh_hop2 b)) in
  let s := base + exp_secs min_exp mod 4294967296 in
  if U32_MAX <? s then Panic P_ADD_U32 else Ok s.
Definition w_onehop_late : list N := [1; 0; 0; 0; 255; 255; 255; 255] ++ zeros 24.
Lemma onehop_expiration_panics_refuted :
  oh_view_ok w_onehop_late = true /\ oh_view_expiration_orig w_onehop_late = Panic P_ADD_U32.
Proof. vm_compute. split; reflexivity. Qed.
Lemma onehop_expiration_repaired : oh_view_expiration w_onehop_late = Ok U32_MAX.
Proof. vm_compute. reflexivity. Qed.

(** onehop/{view,model}.rs before the repair: set_second_hop of the MODEL wrote ExpTime 0 into
    the second hop (the view and the reference router copy it from the first hop) and the VIEW
    kept whatever flags the second hop carried (the model clears them): the same call on the two
    representations of the same path built different second hops, with different MACs *)
Definition oh_model_set_second_hop_orig (cmac : list N -> list N -> list N) (p : onehop)
           (ingress_interface : N) (key : list N) (advanced : bool) : onehop :=
  let beta := if advanced then i_segid (o_info p) else mac_beta_step (i_segid (o_info p)) (h_mac (o_hop1 p)) in
  mkOne (o_info p) (o_hop1 p)
        (mkHop 0 0 ingress_interface 0 (calculate_hop_mac cmac beta (i_ts (o_info p)) 0 ingress_interface 0 key)).
Definition w_onehop_model : onehop :=
  mkOne (mkInfo 1 4660 1700000000) (mkHop 0 63 0 5 [1; 2; 3; 4; 5; 6]) (mkHop 0 0 0 0 [0; 0; 0; 0; 0; 0]).
Lemma onehop_set_second_hop_disagrees_refuted :
  onehop_typed w_onehop_model = true
  /\ oh_view_set_second_hop aes_cmac (oh_encode w_onehop_model) 7 (repeat 9 16) true
     <> oh_encode (oh_model_set_second_hop_orig aes_cmac w_onehop_model 7 (repeat 9 16) true)
  /\ hf_exp (oh_hop2 (oh_view_set_second_hop aes_cmac (oh_encode w_onehop_model) 7 (repeat 9 16) true)) = 63
  /\ h_exp (o_hop2 (oh_model_set_second_hop_orig aes_cmac w_onehop_model 7 (repeat 9 16) true)) = 0.
Proof. vm_compute. refine (conj eq_refl (conj _ (conj eq_refl eq_refl))). discriminate. Qed.
Lemma onehop_set_second_hop_repaired :
  oh_view_set_second_hop aes_cmac (oh_encode w_onehop_model) 7 (repeat 9 16) true
  = oh_encode (oh_model_set_second_hop aes_cmac w_onehop_model 7 (repeat 9 16) true).
Proof. vm_compute. reflexivity. Qed.
