(** The composed statement for C11: a whole authentic multi-segment path is walked hop after
    hop to local delivery, and the arrived path, reversed, is walked back to its origin. *)
From Coq Require Import Lia ZifyBool ZifyNat ZifyN.
From Sci Require Import Common.ListAux StdPath.Model StdPath.ModelRouting StdPath.Proofs StdPath.ProofsRev
     StdPath.ProofsEnc StdPath.ProofsRouting StdPath.ProofsWalk.
Local Open Scope N_scope.
Ltac Zify.zify_post_hook ::= Z.div_mod_to_equations.
Arguments N.add : simpl never. Arguments N.sub : simpl never. Arguments N.mul : simpl never.
Arguments N.div : simpl never. Arguments N.modulo : simpl never. Arguments N.eqb : simpl never.
Arguments N.ltb : simpl never. Arguments N.leb : simpl never. Arguments N.lxor : simpl never.
Arguments N.min : simpl never. Arguments N.testbit : simpl never. Arguments N.ldiff : simpl never.

(** * the segment index of a hop inside each of the three segments *)
Lemma bool_N_nat (x y : N) (i j : nat) : (x = y <-> i = j) -> (x =? y) = (i =? j)%nat.
Proof. intros H. apply eq_true_iff_eq. rewrite N.eqb_eq, Nat.eqb_eq. exact H. Qed.

Lemma calc_seg0 s0 s1 s2 (j n : nat) :
  N.of_nat n = s0 -> (j < n)%nat ->
  calc s0 s1 s2 (0 + N.of_nat j) = Some (0, (j =? 0)%nat, (S j =? n)%nat).
Proof.
  intros E Hj. unfold calc. cbn [calc_seg_idx_aux].
  destruct (0 + N.of_nat j <? 0 + s0) eqn:E0; [|lia].
  rewrite (bool_N_nat (0 + N.of_nat j) 0 j 0%nat ltac:(lia)), (bool_N_nat (0 + N.of_nat j + 1) (0 + s0) (S j) n ltac:(lia)).
  reflexivity.
Qed.
Lemma calc_seg1 s0 s1 s2 (j n : nat) base :
  base = s0 -> N.of_nat n = s1 -> (j < n)%nat ->
  calc s0 s1 s2 (base + N.of_nat j) = Some (0 + 1, (j =? 0)%nat, (S j =? n)%nat).
Proof.
  intros -> E Hj. unfold calc. cbn [calc_seg_idx_aux].
  destruct (s0 + N.of_nat j <? 0 + s0) eqn:E0; [lia|].
  destruct (s0 + N.of_nat j <? 0 + s0 + s1) eqn:E1; [|lia].
  rewrite (bool_N_nat (s0 + N.of_nat j) (0 + s0) j 0%nat ltac:(lia)),
          (bool_N_nat (s0 + N.of_nat j + 1) (0 + s0 + s1) (S j) n ltac:(lia)).
  reflexivity.
Qed.
Lemma calc_seg2 s0 s1 s2 (j n : nat) base :
  base = s0 + s1 -> N.of_nat n = s2 -> (j < n)%nat ->
  calc s0 s1 s2 (base + N.of_nat j) = Some (0 + 1 + 1, (j =? 0)%nat, (S j =? n)%nat).
Proof.
  intros -> E Hj. unfold calc. cbn [calc_seg_idx_aux].
  destruct (s0 + s1 + N.of_nat j <? 0 + s0) eqn:E0; [lia|].
  destruct (s0 + s1 + N.of_nat j <? 0 + s0 + s1) eqn:E1; [lia|].
  destruct (s0 + s1 + N.of_nat j <? 0 + s0 + s1 + s2) eqn:E2; [|lia].
  rewrite (bool_N_nat (s0 + s1 + N.of_nat j) (0 + s0 + s1) j 0%nat ltac:(lia)),
          (bool_N_nat (s0 + s1 + N.of_nat j + 1) (0 + s0 + s1 + s2) (S j) n ltac:(lia)).
  reflexivity.
Qed.

(** * slices of reversed lists *)
Lemma slice_rev {A} (l : list A) b n :
  (b + n <= length l)%nat ->
  firstn n (skipn b (rev l)) = rev (firstn n (skipn (length l - b - n) l)).
Proof.
  intros H.
  rewrite <- (firstn_skipn (length l - b - n) l) at 1.
  rewrite <- (firstn_skipn n (skipn (length l - b - n) l)) at 1.
  rewrite !rev_app_distr, <- app_assoc.
  rewrite skipn_app_exact by (rewrite rev_length, skipn_length, skipn_length; lia).
  apply firstn_app_exact. rewrite rev_length, firstn_length, skipn_length. lia.
Qed.

Lemma keys_rev (keyf : nat -> list N) tot b n :
  (b + n <= tot)%nat ->
  map (fun j => keyf (tot - 1 - j)%nat) (seq b n) = rev (map keyf (seq (tot - b - n) n)).
Proof.
  induction n as [|n IH]; intros H; [reflexivity|].
  replace (seq b (S n)) with (seq b n ++ [(b + n)%nat]) by (symmetry; apply seq_snoc).
  rewrite map_app, (IH ltac:(lia)). cbn [map].
  replace (seq (tot - b - S n) (S n)) with ((tot - b - S n)%nat :: seq (tot - b - n) n)
    by (cbn [seq]; do 2 f_equal; lia).
  cbn [map rev]. do 3 f_equal. lia.
Qed.

Lemma nth_rev_toggle IF i :
  (i < length IF)%nat ->
  nth i (rev (map toggle_cons_dir IF)) [] = toggle_cons_dir (nth (length IF - 1 - i) IF []).
Proof.
  intros H. rewrite rev_nth by (rewrite map_length; lia). rewrite map_length.
  rewrite (nth_indep _ [] (toggle_cons_dir [])) by (rewrite map_length; lia).
  rewrite map_nth. f_equal. f_equal. lia.
Qed.

(** * a segment of the arrived path, seen from the reversed path *)
Lemma seg_rev_hyp cmac (keyf : nat -> list N) (T IF0 IF' : list (list N)) (i nseg base n : nat) :
  length IF' = nseg -> (i < nseg)%nat -> (base + n <= length T)%nat ->
  length (nth i IF' []) = 8%nat -> bytes_ok (nth i IF' []) = true ->
  info_segid_only (nth i IF0 []) (nth i IF' []) ->
  let info := nth i IF0 [] in
  let S := firstn n (skipn base T) in
  let K := map keyf (seq base n) in
  seg_chained cmac (if_cons_dir info) (if_ts info) (if_segid info) S K ->
  if_segid (nth i IF' []) = seg_end (if_cons_dir info) true (if_segid info) S ->
  let infor := nth (nseg - 1 - i) (rev (map toggle_cons_dir IF')) [] in
  seg_chained cmac (if_cons_dir infor) (if_ts infor) (if_segid infor)
              (firstn n (skipn (length T - base - n) (rev T)))
              (map (fun j => keyf (length T - 1 - j)%nat) (seq (length T - base - n) n)).
Proof.
  intros Hl Hi Hb Hl8 Hbo Hso info S K Hch Hsid infor.
  assert (Einf : infor = toggle_cons_dir (nth i IF' [])).
  { unfold infor. rewrite nth_rev_toggle by lia. do 2 f_equal. lia. }
  destruct (toggle_fields _ Hl8 Hbo) as (T1 & T2 & T3).
  assert (Hl0 : length info = 8%nat) by (destruct Hso as [E _]; unfold info; lia).
  destruct (info_segid_only_fields _ _ Hl0 Hso) as (_ & Ets & Ecd).
  rewrite Einf, T1, T2, T3, Ets, Ecd, Hsid.
  rewrite (slice_rev T (length T - base - n) n ltac:(lia)).
  rewrite (keys_rev keyf (length T) (length T - base - n) n ltac:(lia)).
  replace (length T - (length T - base - n) - n)%nat with base by lia.
  apply (seg_chained_ok cmac _ _ _ _ _ Hch).
Qed.

(** * both directions, given the hypotheses of the way back as a function of the arrived state *)
Section Core.
Variable cmac : list N -> list N -> list N.
Variable keyf : nat -> list N.
Variables rsv s0 s1 s2 a c d : N.
Variables IF0 HF : list (list N).
Let T := map tl1 HF.
Let keyr := fun j => keyf (length T - 1 - j)%nat.
Hypothesis Htot : N.of_nat (length T) = s0 + s1 + s2.
Hypothesis H64 : s0 + s1 + s2 <= 64.
Hypothesis Hm0 : meta_ok 0 0 rsv s0 s1 s2.
Hypothesis Hs : shaped s0 s1 s2 IF0 HF.
Hypothesis HbI : Forall (fun f => bytes_ok f = true) IF0.
Hypothesis HbH : Forall (fun f => bytes_ok f = true) HF.
Hypothesis Hrl : rev_lens s0 s1 s2 = (a, c, d).
Hypothesis Hs0 : s0 <> 0.
Variables (ns nsr : list nat) (n0 nr : nat).
Hypothesis Hrc : rev_seg_count s1 s2 = N.of_nat (S (length ns)).
Hypothesis Hfwd : path_ok cmac keyf s0 s1 s2 T IF0 ns 0 0 n0.
Hypothesis Hback :
  forall IF' HF',
    shaped s0 s1 s2 IF' HF' -> Forall (fun f => bytes_ok f = true) IF' -> map tl1 HF' = T ->
    length IF' = length IF0 -> (forall i, info_segid_only (nth i IF0 []) (nth i IF' [])) ->
    (forall j, (j < S (length ns))%nat -> if_segid (nth j IF' []) = nth j (full_ends T IF0 ns 0 0 n0) 0) ->
    path_ok cmac keyr a c d (rev T) (rev (map toggle_cons_dir IF')) nsr 0 0 nr.

Lemma both_directions_core :
  let b := assemble 0 0 rsv s0 s1 s2 IF0 HF in
  let tot := (length T) in
  exists b1 b2,
    forwarded_through (ases cmac keyf ns true 0 n0) b = Some b1
    /\ process_at_as (hop_mac_validator cmac (keyf (N.to_nat (last_hop ns 0 n0)))) false b1 = (b2, Delivered)
    /\ curr_hf b1 + 1 = N.of_nat tot /\ last_hop ns 0 n0 + 1 = N.of_nat tot
    /\ exists br br1 br2,
         view_try_reverse b2 = (br, Ok tt)
         /\ forwarded_through (ases cmac keyr nsr true 0 nr) br = Some br1
         /\ process_at_as (hop_mac_validator cmac (keyr (N.to_nat (last_hop nsr 0 nr)))) false br1 = (br2, Delivered)
         /\ curr_hf br1 + 1 = N.of_nat tot /\ last_hop nsr 0 nr + 1 = N.of_nat tot.
Proof.
  intros b tot.
  destruct (path_delivers cmac keyf rsv s0 s1 s2 T IF0 Htot H64 ns n0 HF Hfwd Hm0 Hs HbI HbH eq_refl)
    as (IF1 & HF1 & IF' & HF' & Hres).
  cbv zeta in Hres. destruct Hres as (Efw & Eproc & Elast & Hs' & HbI' & HbH' & HT' & HlI' & Hstat' & Hsegids).
  set (el := last_hop ns 0 n0) in *. set (ci1 := N.of_nat (length ns)) in *.
  assert (Hrc3 : rev_seg_count s1 s2 <= 3) by (unfold rev_seg_count; destruct (s1 =? 0); [|destruct (s2 =? 0)]; lia).
  assert (Hm1 : meta_ok ci1 el rsv s0 s1 s2) by (unfold meta_ok in *; unfold ci1; lia).
  exists (assemble ci1 el rsv s0 s1 s2 IF1 HF1), (assemble ci1 el rsv s0 s1 s2 IF' HF').
  refine (conj Efw (conj Eproc (conj _ (conj _ _)))).
  - rewrite (asm_curr_hf _ _ _ _ _ _ _ _ Hm1). unfold tot. lia.
  - unfold tot. lia.
  - (* the way back *)
    pose proof (rev_lens_sum _ _ _ _ _ _ Hrl) as Esum.
    assert (Erev : view_try_reverse (assemble ci1 el rsv s0 s1 s2 IF' HF')
                   = (assemble 0 0 rsv a c d (rev (map toggle_cons_dir IF')) (rev HF'), Ok tt)).
    { rewrite (view_try_reverse_assembled _ _ _ _ _ _ _ _ a c d Hm1 Hs' Hrl Hs0); try (unfold ci1; lia).
      do 2 f_equal; unfold ci1; lia. }
    assert (Hmr : meta_ok 0 0 rsv a c d).
    { unfold meta_ok in Hm0. apply (rev_lens_ok 0 0 rsv s0 s1 s2 a c d 0 0 Hrl Hm0); lia. }
    assert (Hsr : shaped a c d (rev (map toggle_cons_dir IF')) (rev HF')).
    { apply (shaped_rev s0 s1 s2); [exact Hs'| |exact Esum]. apply (rev_lens_nz _ _ _ _ _ _ Hrl). }
    assert (HbIr : Forall (fun f => bytes_ok f = true) (rev (map toggle_cons_dir IF'))).
    { apply Forall_rev. apply Forall_map. eapply Forall_impl; [|exact HbI']. intros f. apply toggle_bytes_ok. }
    assert (HbHr : Forall (fun f => bytes_ok f = true) (rev HF')) by (apply Forall_rev; exact HbH').
    assert (HTr : map tl1 (rev HF') = rev T) by (now rewrite map_rev, HT').
    assert (Htotr : N.of_nat (length (rev T)) = a + c + d) by (rewrite rev_length; lia).
    assert (H64r : a + c + d <= 64) by lia.
    destruct (path_delivers cmac keyr rsv a c d (rev T) (rev (map toggle_cons_dir IF')) Htotr H64r nsr nr (rev HF')
                (Hback IF' HF' Hs' HbI' HT' HlI' Hstat' Hsegids) Hmr Hsr HbIr HbHr HTr)
      as (IFr1 & HFr1 & IFr' & HFr' & Hresr).
    cbv zeta in Hresr. destruct Hresr as (Efwr & Eprocr & Elastr & _).
    assert (Hmr1 : meta_ok (N.of_nat (length nsr)) (last_hop nsr 0 nr) rsv a c d).
    { rewrite rev_length in Elastr. unfold meta_ok in *.
      pose proof (Hback IF' HF' Hs' HbI' HT' HlI' Hstat' Hsegids) as Hd. apply path_ok_depth in Hd; [|exact Htotr|exact H64r].
      pose proof (sh_if_cnt _ _ _ _ _ Hsr) as Hn.
      assert (N.of_nat (length (rev (map toggle_cons_dir IF'))) <= 3)
        by (unfold nz in Hn; destruct (a =? 0), (c =? 0), (d =? 0); lia).
      repeat split; lia. }
    eexists. eexists. eexists. refine (conj Erev (conj Efwr (conj Eprocr (conj _ _)))).
    + rewrite (asm_curr_hf _ _ _ _ _ _ _ _ Hmr1). rewrite rev_length in Elastr. unfold tot. lia.
    + rewrite rev_length in Elastr. unfold tot. lia.
Qed.
End Core.

(** * the statement over a list of segment lengths *)
Definition base_of (L : list nat) (i : nat) : nat := fold_right Nat.add 0%nat (firstn i L).
Definition lens_of (L : list nat) : N * N * N :=
  (N.of_nat (nth 0 L 0%nat), N.of_nat (nth 1 L 0%nat), N.of_nat (nth 2 L 0%nat)).

(** every segment is chained in construction order with the keys of its ASes and carries the
    SegID of its first hop on the wire; every segment has two to 63 hops *)
Definition segs_chained cmac (keyf : nat -> list N) (T IF : list (list N)) (L : list nat) : Prop :=
  forall i, (i < length L)%nat ->
    (2 <= nth i L 0 <= 63)%nat
    /\ let info := nth i IF [] in
       seg_chained cmac (if_cons_dir info) (if_ts info) (if_segid info)
                   (firstn (nth i L 0%nat) (skipn (base_of L i) T))
                   (map keyf (seq (base_of L i) (nth i L 0%nat))).
(** the two hop fields at a segment change belong to the same AS *)
Definition keys_cross (keyf : nat -> list N) (L : list nat) : Prop :=
  forall i, (S i < length L)%nat -> keyf (base_of L (S i)) = keyf (base_of L (S i) - 1)%nat.

Lemma back_seg cmac (keyf : nat -> list N) s0 s1 s2 (T IF0 IF' HF' : list (list N)) (i i' nseg base base' n : nat) :
  shaped s0 s1 s2 IF' HF' -> Forall (fun f => bytes_ok f = true) IF' ->
  length IF' = nseg -> (i < nseg)%nat -> i' = (nseg - 1 - i)%nat ->
  (base + n <= length T)%nat -> base' = (length T - base - n)%nat ->
  (forall j, info_segid_only (nth j IF0 []) (nth j IF' [])) ->
  let info := nth i IF0 [] in
  seg_chained cmac (if_cons_dir info) (if_ts info) (if_segid info) (firstn n (skipn base T)) (map keyf (seq base n)) ->
  if_segid (nth i IF' []) = seg_end (if_cons_dir info) true (if_segid info) (firstn n (skipn base T)) ->
  let infor := nth i' (rev (map toggle_cons_dir IF')) [] in
  seg_ok cmac (if_cons_dir infor) (if_ts infor) true (if_segid infor)
         (firstn n (skipn base' (rev T))) (map (fun j => keyf (length T - 1 - j)%nat) (seq base' n)).
Proof.
  intros Hs HbI Hl Hi -> Hb -> Hstat info Hch Hsid infor.
  assert (Hl8 : length (nth i IF' []) = 8%nat).
  { pose proof (sh_if_len _ _ _ _ _ Hs) as Ha. unfold all_len in Ha. rewrite Forall_forall in Ha. apply Ha, nth_In. lia. }
  pose proof (seg_rev_hyp cmac keyf T IF0 IF' i nseg base n Hl Hi Hb Hl8 (Forall_nth_ok IF' i HbI) (Hstat i) Hch Hsid) as H.
  cbv zeta in H. apply (seg_chained_ok cmac _ _ _ _ _ H).
Qed.

Definition walk_hyps cmac (keyf : nat -> list N) (rsv s0 s1 s2 : N) (IF HF : list (list N)) (L : list nat) : Prop :=
  lens_of L = (s0, s1, s2) /\ (1 <= length L <= 3)%nat /\ (fold_right Nat.add 0%nat L <= 64)%nat /\ rsv < 64
  /\ shaped s0 s1 s2 IF HF
  /\ Forall (fun f => bytes_ok f = true) IF /\ Forall (fun f => bytes_ok f = true) HF
  /\ segs_chained cmac keyf (map tl1 HF) IF L /\ keys_cross keyf L.

Definition both_directions_statement cmac (keyf : nat -> list N) (rsv s0 s1 s2 : N) (IF HF : list (list N)) (L : list nat) : Prop :=
  let tot := fold_right Nat.add 0%nat L in
  let keyr := fun j => keyf (tot - 1 - j)%nat in
  let b := assemble 0 0 rsv s0 s1 s2 IF HF in
  exists b1 b2,
    forwarded_through (ases cmac keyf (tl L) true 0 (hd 0%nat L)) b = Some b1
    /\ process_at_as (hop_mac_validator cmac (keyf (tot - 1)%nat)) false b1 = (b2, Delivered)
    /\ curr_hf b1 + 1 = N.of_nat tot
    /\ exists br br1 br2,
         view_try_reverse b2 = (br, Ok tt)
         /\ forwarded_through (ases cmac keyr (tl (rev L)) true 0 (hd 0%nat (rev L))) br = Some br1
         /\ process_at_as (hop_mac_validator cmac (keyf 0%nat)) false br1 = (br2, Delivered)
         /\ curr_hf br1 + 1 = N.of_nat tot.

Lemma both_directions_1 cmac keyf rsv s0 s1 s2 IF HF n0 :
  walk_hyps cmac keyf rsv s0 s1 s2 IF HF [n0] -> both_directions_statement cmac keyf rsv s0 s1 s2 IF HF [n0].
Proof.
  intros (HL & Hlen & H64 & Hrsv & Hs & HbI & HbH & Hch & Hkx).
  set (T := map tl1 HF) in *.
  unfold lens_of in HL. cbn [nth] in HL. injection HL as <- <- <-.
  destruct (Hch 0%nat ltac:(cbn; lia)) as [[Hn0 Hn063] Hc0]. cbn [nth base_of firstn fold_right] in Hn0, Hn063, Hc0. cbv zeta in Hc0.
  pose proof (sh_hf_cnt _ _ _ _ _ Hs) as HnH. pose proof (sh_if_cnt _ _ _ _ _ Hs) as HnI.
  assert (Enz : nz (N.of_nat n0) = 1) by (apply nz_pos; lia). rewrite Enz in HnI. change (N.of_nat 0) with 0 in HnI. change (nz 0) with 0 in HnI.
  assert (HlT : length T = n0) by (unfold T; rewrite map_length; lia).
  cbn [fold_right] in H64.
  assert (Hm0 : meta_ok 0 0 rsv (N.of_nat n0) (N.of_nat 0) (N.of_nat 0)) by (unfold meta_ok; lia).
  assert (Htot : N.of_nat (length T) = N.of_nat n0 + N.of_nat 0 + N.of_nat 0) by lia.
  assert (H64' : N.of_nat n0 + N.of_nat 0 + N.of_nat 0 <= 64) by lia.
  assert (Hrl : rev_lens (N.of_nat n0) (N.of_nat 0) (N.of_nat 0) = (N.of_nat n0, N.of_nat 0, N.of_nat 0)) by reflexivity.
  assert (Hfwd : path_ok cmac keyf (N.of_nat n0) (N.of_nat 0) (N.of_nat 0) T IF [] 0 0 n0).
  { cbn [path_ok]. refine (conj Hn0 (conj _ (conj _ (conj _ _)))); [lia| | |lia].
    - intros j Hj. apply calc_seg0; [reflexivity|exact Hj].
    - apply (seg_chained_ok cmac _ _ _ _ _ Hc0). }
  destruct (both_directions_core cmac keyf rsv _ _ _ _ _ _ IF HF Htot H64' Hm0 Hs HbI HbH Hrl ltac:(lia) [] [] n0 n0 eq_refl Hfwd)
    as (b1 & b2 & E1 & E2 & E3 & E4 & br & br1 & br2 & R1 & R2 & R3 & R4 & R5).
  { intros IF' HF' Hs' HbI' HT' HlI' Hstat' Hsegids. fold T. rewrite HlT.
    cbn [path_ok]. refine (conj Hn0 (conj _ (conj _ (conj _ _)))).
    - rewrite rev_length, map_length. lia.
    - intros j Hj. apply calc_seg0; [reflexivity|exact Hj].
    - assert (A1 : length IF' = 1%nat) by lia. assert (A2 : (0 + n0 <= length T)%nat) by lia.
      assert (A3 : 0%nat = (length T - 0 - n0)%nat) by lia.
      pose proof (back_seg cmac keyf _ _ _ T IF IF' HF' 0 0 1 0 0 n0 Hs' HbI' A1 ltac:(lia) eq_refl A2 A3 Hstat' Hc0) as Hb.
      cbv zeta in Hb. rewrite HlT in Hb. apply Hb.
      rewrite (Hsegids 0%nat ltac:(cbn; lia)). reflexivity.
    - rewrite rev_length. lia. }
  fold T in E1, E2, E3, E4, R1, R2, R3, R4, R5. rewrite HlT in *.
  unfold both_directions_statement. cbn [tl hd rev app fold_right]. rewrite Nat.add_0_r.
  exists b1, b2. refine (conj E1 (conj _ (conj E3 _))).
  - replace (n0 - 1)%nat with (N.to_nat (last_hop [] 0 n0)) by lia. exact E2.
  - exists br, br1, br2. refine (conj R1 (conj R2 (conj _ R4))).
    replace 0%nat with (n0 - 1 - N.to_nat (last_hop [] 0 n0))%nat at 1 by lia. exact R3.
Qed.

Lemma both_directions_2 cmac keyf rsv s0 s1 s2 IF HF n0 n1 :
  walk_hyps cmac keyf rsv s0 s1 s2 IF HF [n0; n1] -> both_directions_statement cmac keyf rsv s0 s1 s2 IF HF [n0; n1].
Proof.
  intros (HL & Hlen & H64 & Hrsv & Hs & HbI & HbH & Hch & Hkx).
  set (T := map tl1 HF) in *.
  unfold lens_of in HL. cbn [nth] in HL. injection HL as <- <- <-.
  destruct (Hch 0%nat ltac:(cbn; lia)) as [[Hn0 Hn063] Hc0]. cbn [nth base_of firstn fold_right] in Hn0, Hn063, Hc0. cbv zeta in Hc0.
  destruct (Hch 1%nat ltac:(cbn; lia)) as [[Hn1 Hn163] Hc1]. cbn [nth base_of firstn fold_right] in Hn1, Hn163, Hc1. cbv zeta in Hc1.
  rewrite Nat.add_0_r in Hc1.
  pose proof (Hkx 0%nat ltac:(cbn; lia)) as Hk. cbn [base_of firstn fold_right] in Hk. rewrite Nat.add_0_r in Hk.
  pose proof (sh_hf_cnt _ _ _ _ _ Hs) as HnH. pose proof (sh_if_cnt _ _ _ _ _ Hs) as HnI.
  rewrite (nz_pos (N.of_nat n0)), (nz_pos (N.of_nat n1)) in HnI by lia.
  change (N.of_nat 0) with 0 in HnI. change (nz 0) with 0 in HnI.
  assert (HlT : length T = (n0 + n1)%nat) by (unfold T; rewrite map_length; lia).
  cbn [fold_right] in H64.
  assert (Hm0 : meta_ok 0 0 rsv (N.of_nat n0) (N.of_nat n1) (N.of_nat 0)) by (unfold meta_ok; lia).
  assert (Htot : N.of_nat (length T) = N.of_nat n0 + N.of_nat n1 + N.of_nat 0) by lia.
  assert (H64' : N.of_nat n0 + N.of_nat n1 + N.of_nat 0 <= 64) by lia.
  assert (Hrl : rev_lens (N.of_nat n0) (N.of_nat n1) (N.of_nat 0) = (N.of_nat n1, N.of_nat n0, N.of_nat 0)).
  { unfold rev_lens. destruct (N.of_nat n1 =? 0) eqn:E; [lia|]. reflexivity. }
  assert (Hrc : rev_seg_count (N.of_nat n1) (N.of_nat 0) = N.of_nat 2).
  { unfold rev_seg_count. destruct (N.of_nat n1 =? 0) eqn:E; [lia|]. reflexivity. }
  assert (Hfwd : path_ok cmac keyf (N.of_nat n0) (N.of_nat n1) (N.of_nat 0) T IF [n1] 0 0 n0).
  { cbn [path_ok]. refine (conj Hn0 (conj _ (conj _ (conj _ (conj _ _))))); [lia| | | |].
    - intros j Hj. apply calc_seg0; [reflexivity|exact Hj].
    - apply (seg_chained_ok cmac _ _ _ _ _ Hc0).
    - cbn [N.to_nat Nat.add]. exact Hk.
    - refine (conj Hn1 (conj _ (conj _ (conj _ _)))); [lia| | |lia].
      + intros j Hj. apply calc_seg1; [lia|reflexivity|exact Hj].
      + replace (N.to_nat (0 + N.of_nat n0)) with n0 by lia. replace (N.to_nat (0 + 1)) with 1%nat by lia.
        apply (seg_chained_ok cmac _ _ _ _ _ Hc1). }
  destruct (both_directions_core cmac keyf rsv _ _ _ _ _ _ IF HF Htot H64' Hm0 Hs HbI HbH Hrl ltac:(lia) [n1] [n0] n0 n1 Hrc Hfwd)
    as (b1 & b2 & E1 & E2 & E3 & E4 & br & br1 & br2 & R1 & R2 & R3 & R4 & R5).
  { intros IF' HF' Hs' HbI' HT' HlI' Hstat' Hsegids. fold T. rewrite HlT.
    assert (A1 : length IF' = 2%nat) by lia.
    pose proof (Hsegids 0%nat ltac:(cbn; lia)) as Sg0. pose proof (Hsegids 1%nat ltac:(cbn; lia)) as Sg1.
    cbn [full_ends nth] in Sg0, Sg1.
    replace (N.to_nat (0 + N.of_nat n0)) with n0 in Sg1 by lia. replace (N.to_nat (0 + 1)) with 1%nat in Sg1 by lia.
    cbn [path_ok]. refine (conj Hn1 (conj _ (conj _ (conj _ (conj _ _))))).
    - rewrite rev_length, map_length. lia.
    - intros j Hj. apply calc_seg0; [reflexivity|exact Hj].
    - assert (A2 : (n0 + n1 <= length T)%nat) by lia. assert (A3 : 0%nat = (length T - n0 - n1)%nat) by lia.
      pose proof (back_seg cmac keyf _ _ _ T IF IF' HF' 1 0 2 n0 0 n1 Hs' HbI' A1 ltac:(lia) eq_refl A2 A3 Hstat' Hc1 Sg1) as Hb.
      cbv zeta in Hb. rewrite HlT in Hb. exact Hb.
    - cbn [N.to_nat Nat.add]. replace (n0 + n1 - 1 - n1)%nat with (n0 - 1)%nat by lia.
      replace (n0 + n1 - 1 - (n1 - 1))%nat with n0 by lia. symmetry. exact Hk.
    - refine (conj Hn0 (conj _ (conj _ (conj _ _)))).
      + rewrite rev_length, map_length. lia.
      + intros j Hj. apply calc_seg1; [lia|reflexivity|exact Hj].
      + assert (A2 : (0 + n0 <= length T)%nat) by lia. assert (A3 : n1 = (length T - 0 - n0)%nat) by lia.
        pose proof (back_seg cmac keyf _ _ _ T IF IF' HF' 0 1 2 0 n1 n0 Hs' HbI' A1 ltac:(lia) eq_refl A2 A3 Hstat' Hc0 Sg0) as Hb.
        cbv zeta in Hb. rewrite HlT in Hb.
        replace (N.to_nat (0 + N.of_nat n1)) with n1 by lia. replace (N.to_nat (0 + 1)) with 1%nat by lia. exact Hb.
      + rewrite rev_length. lia. }
  fold T in E1, E2, E3, E4, R1, R2, R3, R4, R5. rewrite HlT in *.
  assert (El : last_hop [n1] 0 n0 = N.of_nat (n0 + n1 - 1)) by (cbn [last_hop]; lia).
  assert (Elr : last_hop [n0] 0 n1 = N.of_nat (n0 + n1 - 1)) by (cbn [last_hop]; lia).
  unfold both_directions_statement. cbn [tl hd rev app fold_right]. rewrite Nat.add_0_r.
  exists b1, b2. refine (conj E1 (conj _ (conj E3 _))).
  - replace (n0 + n1 - 1)%nat with (N.to_nat (last_hop [n1] 0 n0)) by lia. exact E2.
  - exists br, br1, br2. refine (conj R1 (conj R2 (conj _ R4))).
    replace 0%nat with (n0 + n1 - 1 - N.to_nat (last_hop [n0] 0 n1))%nat at 1 by lia. exact R3.
Qed.

Lemma both_directions_3 cmac keyf rsv s0 s1 s2 IF HF n0 n1 n2 :
  walk_hyps cmac keyf rsv s0 s1 s2 IF HF [n0; n1; n2] -> both_directions_statement cmac keyf rsv s0 s1 s2 IF HF [n0; n1; n2].
Proof.
  intros (HL & Hlen & H64 & Hrsv & Hs & HbI & HbH & Hch & Hkx).
  set (T := map tl1 HF) in *.
  unfold lens_of in HL. cbn [nth] in HL. injection HL as <- <- <-.
  destruct (Hch 0%nat ltac:(cbn; lia)) as [[Hn0 Hn063] Hc0]. cbn [nth base_of firstn fold_right] in Hn0, Hn063, Hc0. cbv zeta in Hc0.
  destruct (Hch 1%nat ltac:(cbn; lia)) as [[Hn1 Hn163] Hc1]. cbn [nth base_of firstn fold_right] in Hn1, Hn163, Hc1. cbv zeta in Hc1.
  destruct (Hch 2%nat ltac:(cbn; lia)) as [[Hn2 Hn263] Hc2]. cbn [nth base_of firstn fold_right] in Hn2, Hn263, Hc2. cbv zeta in Hc2.
  rewrite Nat.add_0_r in Hc1, Hc2.
  pose proof (Hkx 0%nat ltac:(cbn; lia)) as Hk0. cbn [base_of firstn fold_right] in Hk0. rewrite Nat.add_0_r in Hk0.
  pose proof (Hkx 1%nat ltac:(cbn; lia)) as Hk1. cbn [base_of firstn fold_right] in Hk1. rewrite Nat.add_0_r in Hk1.
  pose proof (sh_hf_cnt _ _ _ _ _ Hs) as HnH. pose proof (sh_if_cnt _ _ _ _ _ Hs) as HnI.
  rewrite (nz_pos (N.of_nat n0)), (nz_pos (N.of_nat n1)), (nz_pos (N.of_nat n2)) in HnI by lia.
  assert (HlT : length T = (n0 + n1 + n2)%nat) by (unfold T; rewrite map_length; lia).
  cbn [fold_right] in H64.
  assert (Hm0 : meta_ok 0 0 rsv (N.of_nat n0) (N.of_nat n1) (N.of_nat n2)) by (unfold meta_ok; lia).
  assert (Htot : N.of_nat (length T) = N.of_nat n0 + N.of_nat n1 + N.of_nat n2) by lia.
  assert (H64' : N.of_nat n0 + N.of_nat n1 + N.of_nat n2 <= 64) by lia.
  assert (Hrl : rev_lens (N.of_nat n0) (N.of_nat n1) (N.of_nat n2) = (N.of_nat n2, N.of_nat n1, N.of_nat n0)).
  { unfold rev_lens. destruct (N.of_nat n1 =? 0) eqn:E; [lia|]. destruct (N.of_nat n2 =? 0) eqn:E'; [lia|]. reflexivity. }
  assert (Hrc : rev_seg_count (N.of_nat n1) (N.of_nat n2) = N.of_nat 3).
  { unfold rev_seg_count. destruct (N.of_nat n1 =? 0) eqn:E; [lia|]. destruct (N.of_nat n2 =? 0) eqn:E'; [lia|]. reflexivity. }
  assert (Hfwd : path_ok cmac keyf (N.of_nat n0) (N.of_nat n1) (N.of_nat n2) T IF [n1; n2] 0 0 n0).
  { cbn [path_ok]. refine (conj Hn0 (conj _ (conj _ (conj _ (conj _ _))))); [lia| | | |].
    - intros j Hj. apply calc_seg0; [reflexivity|exact Hj].
    - apply (seg_chained_ok cmac _ _ _ _ _ Hc0).
    - cbn [N.to_nat Nat.add]. exact Hk0.
    - refine (conj Hn1 (conj _ (conj _ (conj _ (conj _ _))))); [lia| | | |].
      + intros j Hj. apply calc_seg1; [lia|reflexivity|exact Hj].
      + replace (N.to_nat (0 + N.of_nat n0)) with n0 by lia. replace (N.to_nat (0 + 1)) with 1%nat by lia.
        apply (seg_chained_ok cmac _ _ _ _ _ Hc1).
      + replace (N.to_nat (0 + N.of_nat n0)) with n0 by lia. exact Hk1.
      + refine (conj Hn2 (conj _ (conj _ (conj _ _)))); [lia| | |lia].
        * intros j Hj. apply calc_seg2; [lia|reflexivity|exact Hj].
        * replace (N.to_nat (0 + N.of_nat n0 + N.of_nat n1)) with (n0 + n1)%nat by lia.
          replace (N.to_nat (0 + 1 + 1)) with 2%nat by lia.
          apply (seg_chained_ok cmac _ _ _ _ _ Hc2). }
  destruct (both_directions_core cmac keyf rsv _ _ _ _ _ _ IF HF Htot H64' Hm0 Hs HbI HbH Hrl ltac:(lia) [n1; n2] [n1; n0] n0 n2 Hrc Hfwd)
    as (b1 & b2 & E1 & E2 & E3 & E4 & br & br1 & br2 & R1 & R2 & R3 & R4 & R5).
  { intros IF' HF' Hs' HbI' HT' HlI' Hstat' Hsegids. fold T. rewrite HlT.
    assert (A1 : length IF' = 3%nat) by lia.
    pose proof (Hsegids 0%nat ltac:(cbn; lia)) as Sg0. pose proof (Hsegids 1%nat ltac:(cbn; lia)) as Sg1.
    pose proof (Hsegids 2%nat ltac:(cbn; lia)) as Sg2.
    cbn [full_ends nth] in Sg0, Sg1, Sg2.
    replace (N.to_nat (0 + N.of_nat n0)) with n0 in Sg1 by lia. replace (N.to_nat (0 + 1)) with 1%nat in Sg1 by lia.
    replace (N.to_nat (0 + N.of_nat n0 + N.of_nat n1)) with (n0 + n1)%nat in Sg2 by lia.
    replace (N.to_nat (0 + 1 + 1)) with 2%nat in Sg2 by lia.
    cbn [path_ok]. refine (conj Hn2 (conj _ (conj _ (conj _ (conj _ _))))).
    - rewrite rev_length, map_length. lia.
    - intros j Hj. apply calc_seg0; [reflexivity|exact Hj].
    - assert (A2 : (n0 + n1 + n2 <= length T)%nat) by lia. assert (A3 : 0%nat = (length T - (n0 + n1) - n2)%nat) by lia.
      pose proof (back_seg cmac keyf _ _ _ T IF IF' HF' 2 0 3 (n0 + n1) 0 n2 Hs' HbI' A1 ltac:(lia) eq_refl A2 A3 Hstat' Hc2 Sg2) as Hb.
      cbv zeta in Hb. rewrite HlT in Hb. exact Hb.
    - cbn [N.to_nat Nat.add]. replace (n0 + n1 + n2 - 1 - n2)%nat with (n0 + n1 - 1)%nat by lia.
      replace (n0 + n1 + n2 - 1 - (n2 - 1))%nat with (n0 + n1)%nat by lia. symmetry. exact Hk1.
    - refine (conj Hn1 (conj _ (conj _ (conj _ (conj _ _))))).
      + rewrite rev_length, map_length. lia.
      + intros j Hj. apply calc_seg1; [lia|reflexivity|exact Hj].
      + assert (A2 : (n0 + n1 <= length T)%nat) by lia. assert (A3 : n2 = (length T - n0 - n1)%nat) by lia.
        pose proof (back_seg cmac keyf _ _ _ T IF IF' HF' 1 1 3 n0 n2 n1 Hs' HbI' A1 ltac:(lia) eq_refl A2 A3 Hstat' Hc1 Sg1) as Hb.
        cbv zeta in Hb. rewrite HlT in Hb.
        replace (N.to_nat (0 + N.of_nat n2)) with n2 by lia. replace (N.to_nat (0 + 1)) with 1%nat by lia. exact Hb.
      + replace (N.to_nat (0 + N.of_nat n2)) with n2 by lia.
        replace (n0 + n1 + n2 - 1 - (n2 + n1))%nat with (n0 - 1)%nat by lia.
        replace (n0 + n1 + n2 - 1 - (n2 + n1 - 1))%nat with n0 by lia. symmetry. exact Hk0.
      + refine (conj Hn0 (conj _ (conj _ (conj _ _)))).
        * rewrite rev_length, map_length. lia.
        * intros j Hj. apply calc_seg2; [lia|reflexivity|exact Hj].
        * assert (A2 : (0 + n0 <= length T)%nat) by lia. assert (A3 : (n2 + n1)%nat = (length T - 0 - n0)%nat) by lia.
          pose proof (back_seg cmac keyf _ _ _ T IF IF' HF' 0 2 3 0 (n2 + n1) n0 Hs' HbI' A1 ltac:(lia) eq_refl A2 A3 Hstat' Hc0 Sg0) as Hb.
          cbv zeta in Hb. rewrite HlT in Hb.
          replace (N.to_nat (0 + N.of_nat n2 + N.of_nat n1)) with (n2 + n1)%nat by lia.
          replace (N.to_nat (0 + 1 + 1)) with 2%nat by lia. exact Hb.
        * rewrite rev_length. lia. }
  fold T in E1, E2, E3, E4, R1, R2, R3, R4, R5. rewrite HlT in *.
  assert (El : last_hop [n1; n2] 0 n0 = N.of_nat (n0 + n1 + n2 - 1)) by (cbn [last_hop]; lia).
  assert (Elr : last_hop [n1; n0] 0 n2 = N.of_nat (n0 + n1 + n2 - 1)) by (cbn [last_hop]; lia).
  unfold both_directions_statement. cbn [tl hd rev app fold_right]. rewrite Nat.add_0_r, Nat.add_assoc.
  exists b1, b2. refine (conj E1 (conj _ (conj E3 _))).
  - replace (n0 + n1 + n2 - 1)%nat with (N.to_nat (last_hop [n1; n2] 0 n0)) by lia. exact E2.
  - exists br, br1, br2. refine (conj R1 (conj R2 (conj _ R4))).
    replace 0%nat with (n0 + n1 + n2 - 1 - N.to_nat (last_hop [n1; n0] 0 n2))%nat at 1 by lia. exact R3.
Qed.

(** the composed statement for one, two or three segments *)
Lemma walk_both_directions cmac keyf rsv s0 s1 s2 IF HF L :
  walk_hyps cmac keyf rsv s0 s1 s2 IF HF L -> both_directions_statement cmac keyf rsv s0 s1 s2 IF HF L.
Proof.
  intros H. assert (Hlen : (1 <= length L <= 3)%nat) by apply H.
  destruct L as [|n0 [|n1 [|n2 [|n3 r]]]]; cbn [length] in Hlen; try lia.
  - now apply both_directions_1.
  - now apply both_directions_2.
  - now apply both_directions_3.
Qed.
