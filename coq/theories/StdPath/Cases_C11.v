(** Correspondence driver for C11: evaluated by [vm_compute] on case files written by
    harness/hc_stdpath/src/bin/h_path_routing.rs.  The model (ModelRouting, with the Gallina
    AES-CMAC of Common/AesCmac as the MAC) is run through the same step sequence as the
    implementation and every result and every intermediate byte string is compared (bit 1);
    the property oracles below are evaluated on the IMPLEMENTATION's observed output (bit 2). *)
From Sci Require Export StdPath.ModelRouting StdPath.Spec Common.AesCmac.
Local Open Scope N_scope.

Inductive rref := RSame | RLit (l : list N) | RDiff (d : list (N * N)).   (* RDiff: (position, new byte) *)
Record rstd := mkRC {
  rc_kind : N;                    (* 0 free, 1 authentic walk (every step must pass), 2/3 single/double bit flip *)
  rc_b : list N;                  (* path bytes *)
  rc_keys : list (list N);        (* forwarding keys *)
  rc_steps : list (N * N);        (* (kind, validator): kind 0 ingress from outside, 1 ingress from inside,
                                     2 egress, 3 try_reverse; validator 0 none, 1+k HopMacValidator keys[k],
                                     100+j rejects validate_hop(j), 200 rejects every segment change *)
  rc_res : list (N * list N * rref * N);   (* code, parameters, bytes afterwards, CurrHF before *)
  rc_owner : N }.                 (* flips: hop index owning the flipped bit, 1000+s for info field s, 999 none *)

Definition mk_val (keys : list (list N)) (code : N) : validator (list N) :=
  if code =? 0 then mkValidator (fun _ _ _ _ _ => None) (fun _ _ _ _ _ => None)
  else if code <? 100 then
    let key := nth (N.to_nat (code - 1)) keys [] in
    mkValidator (fun _ hop info _ _ => option_map fst (hop_mac_check aes_cmac key hop info))
                (fun _ _ _ _ _ => None)
  else if code <? 200 then
    mkValidator (fun i _ _ _ _ => if i =? code - 100 then Some [] else None) (fun _ _ _ _ _ => None)
  else mkValidator (fun _ _ _ _ _ => None) (fun _ _ _ _ _ => Some []).

Definition b2n (x : bool) : N := if x then 1 else 0.
Definition err_enc (e : adv_err) : N * list N :=
  match e with
  | HopOutOfBounds i => (10, [i]) | InfoOutOfBounds i => (11, [i])
  | InvalidSegmentIndex a c => (12, [a; c]) | InvalidPathState c => (13, [c])
  end.
Definition ing_params (o : ing_out) : list N :=
  [b2n (io_alert o); io_ingress o] ++
  match io_action o with ForwardLocal => [0; 0] | ContinueEgress e => [1; e] end.
Definition ing_enc (r : outcome (vres (E := list N) ing_out) adv_err) : N * list N :=
  match r with
  | Ok (VOk o) => (0, ing_params o)
  | Ok (VFailed o e) => (1, ing_params o ++ e)
  | Err e => err_enc e
  | Panic _ => (99, [])
  end.
Definition eg_enc (r : outcome (vres (E := list N) eg_out) adv_err) : N * list N :=
  match r with
  | Ok (VOk o) => (0, [b2n (eo_alert o); eo_egress o])
  | Ok (VFailed o e) => (1, [b2n (eo_alert o); eo_egress o] ++ e)
  | Err e => err_enc e
  | Panic _ => (99, [])
  end.

Definition model_step (keys : list (list N)) (b : list N) (st : N * N) : N * list N * list N :=
  let '(kind, vc) := st in
  if kind =? 3 then
    let '(b', r) := view_try_reverse b in
    (match r with Ok _ => 0 | Err _ => 20 | Panic _ => 99 end, [], b')
  else if kind =? 2 then
    let '(b', r) := advance_egress (mk_val keys vc) b in (eg_enc r, b')
  else
    let '(b', r) := advance_ingress (mk_val keys vc) (kind =? 1) b in (ing_enc r, b').

Fixpoint set_nth (l : list N) (i : nat) (x : N) : list N :=
  match l, i with
  | [], _ => []
  | _ :: r, O => x :: r
  | y :: r, S i' => y :: set_nth r i' x
  end.
Definition resolve (prev : list N) (r : rref) : list N :=
  match r with
  | RSame => prev
  | RLit l => l
  | RDiff d => fold_left (fun acc '(i, x) => set_nth acc (N.to_nat i) x) d prev
  end.

Fixpoint run_mismatch (keys : list (list N)) (b : list N) (steps : list (N * N))
         (res : list (N * list N * rref * N)) : bool :=
  match steps, res with
  | [], [] => false
  | st :: sr, (code, params, after, _) :: rr =>
    let '(mc, mp, mb) := model_step keys b st in
    let ab := resolve b after in
    negb ((mc =? code) && list_eqb N.eqb mp params && list_eqb N.eqb mb ab)
    || run_mismatch keys ab sr rr
  | _, _ => true
  end.

(** * oracles on the implementation's output (independent readers of [Spec]) *)
Fixpoint diff_positions (k : N) (a c : list N) : list N :=
  match a, c with
  | x :: a', y :: c' => (if x =? y then [] else [k]) ++ diff_positions (k + 1) a' c'
  | [], [] => []
  | _, _ => [k]      (* different lengths *)
  end.

Definition step_oracle (pb ab : list N) (kind code hop_before : N) : bool :=
  (hop_before =? sp_curr_hf pb)
  && negb (code =? 99)
  && (if 10 <=? code then list_eqb N.eqb ab pb            (* Err: bytes exactly as they were *)
      else if kind =? 3 then true                         (* try_reverse: C12 *)
      else
        let hf := sp_curr_hf pb in let hf' := sp_curr_hf ab in
        let ci := sp_curr_inf pb in let ci' := sp_curr_inf ab in
        let allowed := [0; 4 + 8 * ci + 2; 4 + 8 * ci + 3; 4 + 8 * sp_ninfo pb + 12 * hf] in
        list_eqb N.eqb (sp_lens ab) (sp_lens pb)
        && forallb (fun k => existsb (N.eqb k) allowed) (diff_positions 0 pb ab)
        && (if kind =? 2
            then (hf' =? hf + 1) && (hf' <? sp_nhops pb) && (ci' =? ci)
            else ((hf' =? hf) && (ci' =? ci))
                 || ((hf' =? hf + 1) && (hf' <? sp_nhops pb) && (ci' =? ci + 1)
                     && match sp_seg_index (sp_lens pb) hf' with Some (_, true, _) => true | _ => false end))).

Fixpoint run_oracle (b : list N) (steps : list (N * N)) (res : list (N * list N * rref * N)) : bool :=
  match steps, res with
  | (kind, _) :: sr, (code, _, after, hb) :: rr =>
    let ab := resolve b after in
    step_oracle b ab kind code hb && run_oracle ab sr rr
  | _, _ => true
  end.

(** the states before/after every step, with kind and code *)
Fixpoint trace (b : list N) (steps : list (N * N)) (res : list (N * list N * rref * N))
  : list (N * N * N * N) :=      (* kind, code, CurrHF before, CurrHF after *)
  match steps, res with
  | (kind, _) :: sr, (code, _, after, hb) :: rr =>
    let ab := resolve b after in (kind, code, hb, sp_curr_hf ab) :: trace ab sr rr
  | _, _ => []
  end.

Definition owner_hop (b : list N) (owner : N) : N :=
  if owner <? 1000 then owner
  else fold_right N.add 0 (firstn (N.to_nat (owner - 1000)) (filter (fun x => negb (x =? 0)) (sp_lens b))).

(** a tampered authenticated bit: no step that validates the owning hop field may pass, and
    (single flip) the walk must be rejected somewhere *)
Definition tamper_oracle (c : rstd) : bool :=
  if rc_owner c =? 999 then true else
  let o := owner_hop (rc_b c) (rc_owner c) in
  let tr := trace (rc_b c) (rc_steps c) (rc_res c) in
  forallb (fun '(kind, code, hb, ha) =>
             negb ((code =? 0) && (kind <? 3) && ((hb =? o) || ((kind <? 2) && (ha =? o))))) tr
  && ((rc_kind c =? 3) || existsb (fun '(_, code, _, _) => negb (code =? 0)) tr).

(** one-hop cases: set_second_hop(ingress, key, advanced) on the view and on the model made from
    the same bytes; [oc_view] = view bytes afterwards, [oc_model] = encoding of the model afterwards *)
Record ocase := mkOC {
  oc_b : list N; oc_key : list N; oc_ingress : N; oc_adv : N; oc_view : list N; oc_model : list N }.
Inductive rcase := RStd (c : rstd) | ROne (c : ocase).

Definition one_verdict (c : ocase) : N :=
  let adv := oc_adv c =? 1 in
  let mismatch :=
      negb (list_eqb N.eqb (oh_view_set_second_hop aes_cmac (oc_b c) (oc_ingress c) (oc_key c) adv) (oc_view c)
            && list_eqb N.eqb (oh_encode (oh_model_set_second_hop aes_cmac (oh_from_view (oc_b c)) (oc_ingress c) (oc_key c) adv))
                        (oc_model c)) in
  (* the second hop field built by the IMPLEMENTATION must authenticate at the second AS: its MAC
     is the specification MAC (Gallina AES-CMAC) over the fields as finally stored *)
  let ok := sp_onehop_second_hop_ok aes_cmac (oc_key c) adv (oc_ingress c) (oc_view c)
            && sp_onehop_second_hop_ok aes_cmac (oc_key c) adv (oc_ingress c) (oc_model c)
            (* info field and first hop untouched *)
            && list_eqb N.eqb (firstn 20 (oc_view c)) (firstn 20 (oc_b c)) in
  (if mismatch then 1 else 0) + (if ok then 0 else 2).

Definition std_verdict (c : rstd) : N :=
  let mismatch := run_mismatch (rc_keys c) (rc_b c) (rc_steps c) (rc_res c) in
  let ok := run_oracle (rc_b c) (rc_steps c) (rc_res c)
            && (if rc_kind c =? 1 then forallb (fun '(code, _, _, _) => code =? 0) (rc_res c) else true)
            && (if 2 <=? rc_kind c then tamper_oracle c else true) in
  (if mismatch then 1 else 0) + (if ok then 0 else 2).
Definition verdict (c : rcase) : N := match c with RStd c => std_verdict c | ROne c => one_verdict c end.
Definition verdicts (cs : list rcase) : list N := map verdict cs.
