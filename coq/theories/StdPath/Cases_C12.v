(** Correspondence driver for C12: evaluated by [vm_compute] on case files written by
    harness/hc_stdpath/src/bin/h_path_views.rs.  For each case the model is run on the same
    path bytes as the implementation and every observed result is compared (bit 1); the
    property oracles of [Spec] are evaluated on the IMPLEMENTATION's observed output (bit 2). *)
From Sci Require Export StdPath.Model StdPath.ModelRouting StdPath.Spec Common.AesCmac.
Local Open Scope N_scope.

(** byte strings / models that repeat an earlier one are given by reference (Coq parses long
    literals slowly): [BSame] = the input bytes, [BRev] = the bytes after the view's
    try_reverse; [MSame] = the model before the call *)
Inductive bref := BSame | BRev | BLit (l : list N).
Inductive mref := MSame | MLit (p : spath).
Definition bresolve (b rb : list N) (r : bref) : list N :=
  match r with BSame => b | BRev => rb | BLit l => l end.
Definition mresolve (m : spath) (r : mref) : spath := match r with MSame => m | MLit p => p end.

Record vstd := mkVS {
  vs_b : list N;                 (* path bytes, exactly the size of the view *)
  vs_rev : N * bref;               (* StandardPathView::try_reverse: code, bytes afterwards *)
  vs_rev2 : N * bref;             (* a second try_reverse on the result (98 = not run) *)
  vs_expv : N;                   (* view expiration *)
  vs_segidx : list N;            (* calculate_segment_index(k), k = 0 .. hop_count + 1 *)
  vs_segs : list (N * N * N);    (* segments(): offset of info field, offset of first hop, hop count *)
  vs_m : spath;                  (* to_model() *)
  vs_mrev : N * mref;            (* StandardPath::try_reverse on it: code, model afterwards *)
  vs_mexp : N;                   (* model expiration *)
  vs_menc : N * bref;             (* try_encode_to_vec of the model: 0 + bytes / 1 *)
  vs_mrevenc : N * bref;          (* try_encode_to_vec of the reversed model (98 = not run) *)
  vs_sp : N * bref * N }.      (* ScionPath::try_reverse: code, dataplane bytes, endpoint state *)

Record vone := mkVO {
  vo_b : list N; vo_rev : N * list N; vo_expv : N; vo_m : onehop; vo_mrev : N * onehop;
  vo_menc : N * list N; vo_conv : N * spath; vo_convenc : N * list N;
  vo_key : list N;                          (* forwarding key used for set_second_hop *)
  vo_ssh : list (N * list N * list N) }.    (* set_second_hop(0x1234, key, advanced): advanced,
                                               view bytes afterwards, encoding of the model afterwards *)

Inductive vcase := VStd (c : vstd) | VOne (c : vone).

Definition rev_code (r : outcome unit rev_err) : N :=
  match r with
  | Ok _ => 0 | Err RevNoSegments => 1 | Err RevHopOOB => 2 | Err RevInfoOOB => 3
  | Err RevSecondHopUnset => 4 | Err RevHopUnfit => 5 | Panic _ => 99
  end.
Definition EXP_PANIC : N := 4294967395.
Definition exp_code (r : outcome N unit) : N := match r with Ok v => v | _ => EXP_PANIC end.
Definition segidx_code (r : option (N * bool * bool)) : N :=
  match r with
  | None => 0
  | Some (s, st, en) => 1 + s * 4 + (if st then 2 else 0) + (if en then 1 else 0)
  end.

Definition info_eqb (a c : info) : bool :=
  (i_flags a =? i_flags c) && (i_segid a =? i_segid c) && (i_ts a =? i_ts c).
Definition hop_eqb (a c : hop) : bool :=
  (h_flags a =? h_flags c) && (h_exp a =? h_exp c) && (h_ci a =? h_ci c) && (h_ce a =? h_ce c)
  && list_eqb N.eqb (h_mac a) (h_mac c).
Definition seg_eqb (a c : seg) : bool :=
  info_eqb (s_info a) (s_info c) && list_eqb hop_eqb (s_hops a) (s_hops c).
Definition spath_eqb (a c : spath) : bool :=
  (p_ci a =? p_ci c) && (p_ch a =? p_ch c) && list_eqb seg_eqb (p_segs a) (p_segs c).
Definition onehop_eqb (a c : onehop) : bool :=
  info_eqb (o_info a) (o_info c) && hop_eqb (o_hop1 a) (o_hop1 c) && hop_eqb (o_hop2 a) (o_hop2 c).
Definition cb_eqb (a c : N * list N) : bool := (fst a =? fst c) && list_eqb N.eqb (snd a) (snd c).
Definition trip_eqb (a c : N * N * N) : bool :=
  let '(a1, a2, a3) := a in let '(c1, c2, c3) := c in (a1 =? c1) && (a2 =? c2) && (a3 =? c3).

Definition wire_valid := wire_valid_gen WIRE_VALID_CHECKS_CURR_HF_FITS.
Definition enc_result (p : spath) : N * list N :=
  if wire_valid p then (0, encode p) else (1, []).
Definition nseq (n : N) : list N := map N.of_nat (seq 0 (N.to_nat n)).

(** * model vs implementation *)
Definition std_mismatch (c : vstd) : bool :=
  let b := vs_b c in
  let '(b1, r1) := view_try_reverse b in
  let rev2 := if rev_code r1 =? 0 then let '(b2, r2) := view_try_reverse b1 in (rev_code r2, b2) else (98, []) in
  let segs := match view_segments b with
              | Ok l => map (fun '(si, hi, len) => (4 + 8 * si, N.of_nat (hop_off b (N.to_nat hi)), len)) l
              | _ => [(99, 99, 99)] end in
  let m := from_view b in
  let '(m1, mr) := model_try_reverse m in
  let '(s1, sr) := scion_try_reverse (mkSP 1 2 b (Some 7)) in
  let rb := bresolve b b (snd (vs_rev c)) in
  let res := fun x : N * bref => (fst x, bresolve b rb (snd x)) in
  negb (cb_eqb (rev_code r1, b1) (res (vs_rev c))
        && cb_eqb (if rev_code r1 =? 0 then rev2 else (98, b)) (res (vs_rev2 c))
        && (exp_code (view_expiration b) =? vs_expv c)
        && list_eqb N.eqb (map (fun k => segidx_code (calculate_segment_index b k)) (nseq (hop_count b + 2))) (vs_segidx c)
        && list_eqb trip_eqb segs (vs_segs c)
        && spath_eqb m (vs_m c)
        && (rev_code mr =? fst (vs_mrev c)) && spath_eqb m1 (mresolve (vs_m c) (snd (vs_mrev c)))
        && (exp_code (model_expiration m) =? vs_mexp c)
        && cb_eqb (enc_result m) (res (vs_menc c))
        && cb_eqb (if rev_code mr =? 0 then enc_result m1 else (98, [])) (res (vs_mrevenc c))
        && (let '(code, bytes, ep) := vs_sp c in
            (rev_code sr =? code) && list_eqb N.eqb (sp_dp s1) (bresolve b rb bytes)
            && ((if sp_src s1 =? 2 then 1 else 0) =? ep))).

Definition one_mismatch (c : vone) : bool :=
  let b := vo_b c in
  let '(b1, r1) := oh_view_try_reverse b in
  let m := oh_from_view b in
  let '(m1, mr) := oh_model_try_reverse m in
  let conv := oh_into_reversed_standard m in
  negb (cb_eqb (rev_code r1, b1) (vo_rev c)
        && (exp_code (oh_view_expiration b) =? vo_expv c)
        && onehop_eqb m (vo_m c)
        && (rev_code mr =? fst (vo_mrev c)) && onehop_eqb m1 (snd (vo_mrev c))
        && cb_eqb (0, oh_encode m) (vo_menc c)
        && match conv with
           | Ok p => (fst (vo_conv c) =? 0) && spath_eqb p (snd (vo_conv c)) && cb_eqb (enc_result p) (vo_convenc c)
           | Err e => (fst (vo_conv c) =? rev_code (Err e)) && (fst (vo_convenc c) =? 98)
           | Panic _ => false
           end
        && forallb (fun '(adv, vb, mb) =>
                      list_eqb N.eqb (oh_view_set_second_hop aes_cmac b 4660 (vo_key c) (adv =? 1)) vb
                      && list_eqb N.eqb (oh_encode (oh_model_set_second_hop aes_cmac m 4660 (vo_key c) (adv =? 1))) mb)
                   (vo_ssh c)).

(** * property oracles on the implementation's observed output *)
Definition std_oracle_ok (c : vstd) : bool :=
  let b := vs_b c in
  let rc := fst (vs_rev c) in
  let rb := bresolve b b (snd (vs_rev c)) in
  let res := fun x : N * bref => (fst x, bresolve b rb (snd x)) in
  let '(spc, spr, ep) := vs_sp c in
  let spb := bresolve b rb spr in
  (* an operation that reports an error leaves the bytes unchanged *)
  let atomic := ((rc =? 0) || list_eqb N.eqb rb b)
                && ((spc =? 0) || (list_eqb N.eqb spb b && (ep =? 0))) in
  (* nothing panics *)
  let nopanic := negb (rc =? 99) && negb (fst (vs_rev2 c) =? 99) && negb (vs_expv c =? EXP_PANIC)
                 && negb (existsb (N.eqb 99) (vs_segidx c))
                 && negb (existsb (fun '(a, _, _) => a =? 99) (vs_segs c))
                 && negb (fst (vs_mrev c) =? 99) && negb (vs_mexp c =? EXP_PANIC)
                 && negb (fst (vs_menc c) =? 99) && negb (fst (vs_mrevenc c) =? 99) && negb (spc =? 99) in
  (* segment queries meet their specification on every accepted byte string *)
  let segidx_ok := list_eqb N.eqb (map (fun k => segidx_code (sp_seg_index (sp_lens b) k)) (nseq (sp_nhops b + 2)))
                                  (vs_segidx c) in
  (* ScionPath reversal = dataplane reversal + endpoint swap, fingerprint consistent *)
  let sp_ok := (spc =? rc) && list_eqb N.eqb spb rb && (if spc =? 0 then ep =? 1 else ep =? 0) in
  (* b is the encoding of a model the encoder accepts: view and model must agree *)
  let canonical := cb_eqb (res (vs_menc c)) (0, b) in
  let agree :=
    if canonical then
      (rc =? fst (vs_mrev c))
      && (vs_expv c =? vs_mexp c)
      && (if rc =? 0 then
            cb_eqb (res (vs_mrevenc c)) (0, rb)                       (* reversal commutes with encoding *)
            && cb_eqb (res (vs_rev2 c)) (0, b)                        (* reversal is its own inverse *)
            && list_eqb N.eqb (sp_hop_at rb (sp_curr_hf rb)) (sp_hop_at b (sp_curr_hf b))   (* same hop *)
            && sp_info_toggled (sp_info_at rb (sp_curr_inf rb)) (sp_info_at b (sp_curr_inf b))
            && (sp_curr_hf rb + sp_curr_hf b + 1 =? sp_nhops b)
          else true)
    else true in
  atomic && nopanic && segidx_ok && sp_ok && agree.

Definition one_oracle_ok (c : vone) : bool :=
  let b := vo_b c in
  let '(rc, rb) := vo_rev c in
  let atomic := (rc =? 0) || list_eqb N.eqb rb b in
  let nopanic := negb (rc =? 99) && negb (vo_expv c =? EXP_PANIC) && negb (fst (vo_mrev c) =? 99)
                 && negb (fst (vo_conv c) =? 99) && negb (fst (vo_convenc c) =? 99) in
  let canonical := cb_eqb (vo_menc c) (0, b) in
  let agree :=
    if canonical then
      (rc =? fst (vo_mrev c)) && (rc =? fst (vo_conv c))
      && (if rc =? 0 then
            (* the one-hop view reversed in place = the reversed standard path without its meta header *)
            match vo_convenc c with
            | (0, e) => list_eqb N.eqb (skipn 4 e) rb && list_eqb N.eqb (firstn 4 e) [0; 0; 32; 0]
            | _ => false
            end
          else true)
      (* set_second_hop on the view and on the model build the same path *)
      && forallb (fun '(_, vb, mb) => list_eqb N.eqb vb mb) (vo_ssh c)
    else true in
  atomic && nopanic && agree.

Definition verdict (c : vcase) : N :=
  match c with
  | VStd c => (if std_mismatch c then 1 else 0) + (if std_oracle_ok c then 0 else 2)
  | VOne c => (if one_mismatch c then 1 else 0) + (if one_oracle_ok c then 0 else 2)
  end.
Definition verdicts (cs : list vcase) : list N := map verdict cs.
