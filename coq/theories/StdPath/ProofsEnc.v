(** Encoding and decoding: the encoding of an accepted model is an assembled view; decoding
    it gives the model back; reversal, expiration and the segment queries commute with it. *)
From Coq Require Import Lia ZifyBool ZifyNat ZifyN.
From Sci Require Import Common.ListAux StdPath.Model StdPath.Proofs StdPath.ProofsRev.
Local Open Scope N_scope.
Ltac Zify.zify_post_hook ::= Z.div_mod_to_equations.
Arguments N.add : simpl never. Arguments N.sub : simpl never. Arguments N.mul : simpl never.
Arguments N.div : simpl never. Arguments N.modulo : simpl never. Arguments N.eqb : simpl never.
Arguments N.ltb : simpl never. Arguments N.leb : simpl never. Arguments N.lxor : simpl never.
Arguments N.min : simpl never. Arguments N.testbit : simpl never.

(** the models the encoder accepts (wire_valid with the CurrHF range check of the C03 repair),
    with every field inside the range of its Rust type *)
Definition wf (p : spath) : Prop := wire_valid_gen true p = true /\ path_typed p = true.

(** * big-endian fields *)
Lemma be_bytes_length n v : length (be_bytes n v) = n.
Proof. revert v; induction n as [|n IH]; intros v; cbn; [reflexivity|]. rewrite app_length, IH. cbn. lia. Qed.

Lemma be_val_app acc l x : be_val acc (l ++ [x]) = be_val acc l * 256 + x.
Proof. revert acc; induction l as [|y l IH]; intros acc; cbn; [reflexivity|]. apply IH. Qed.

Lemma be_val_be_bytes n v : v < 256 ^ N.of_nat n -> be_val 0 (be_bytes n v) = v.
Proof.
  revert v; induction n as [|n IH]; intros v H.
  - cbn in *. lia.
  - cbn [be_bytes]. rewrite be_val_app, IH.
    + pose proof (N.div_mod v 256). lia.
    + rewrite Nat2N.inj_succ, N.pow_succ_r' in H. apply N.div_lt_upper_bound; lia.
Qed.

Lemma be_bytes_ok n v : bytes_ok (be_bytes n v) = true.
Proof.
  revert v; induction n as [|n IH]; intros v; cbn; [reflexivity|].
  unfold bytes_ok in *. rewrite forallb_app, IH. cbn. unfold byte_ok.
  assert (v mod 256 < 256) by (apply N.mod_lt; lia). apply N.ltb_lt in H. now rewrite H.
Qed.

(** * info and hop fields *)
Lemma enc_info_length i : length (enc_info i) = 8%nat.
Proof. unfold enc_info. rewrite !app_length, !be_bytes_length. reflexivity. Qed.

Lemma hop_typed_inv h :
  hop_typed h = true ->
  h_flags h < 256 /\ h_exp h < 256 /\ h_ci h < 65536 /\ h_ce h < 65536 /\ length (h_mac h) = 6%nat
  /\ bytes_ok (h_mac h) = true.
Proof. unfold hop_typed. rewrite !andb_true_iff. intros (((((H1 & H2) & H3) & H4) & H5) & H6). repeat split; try lia. exact H6. Qed.
Lemma info_typed_inv i :
  info_typed i = true -> i_flags i < 256 /\ i_segid i < 65536 /\ i_ts i < 4294967296.
Proof. unfold info_typed. rewrite !andb_true_iff. lia. Qed.

Lemma enc_hop_length h : hop_typed h = true -> length (enc_hop h) = 12%nat.
Proof.
  intros H. apply hop_typed_inv in H as (_ & _ & _ & _ & H & _).
  unfold enc_hop. rewrite !app_length, !be_bytes_length, firstn_length, H. reflexivity.
Qed.

Lemma dec_enc_info i : info_typed i = true -> dec_info (enc_info i) = i.
Proof.
  intros H. apply info_typed_inv in H as (H1 & H2 & H3). destruct i as [f s t]. cbn [i_flags i_segid i_ts] in *.
  unfold dec_info, enc_info, if_flags, if_segid, if_ts, byte, get_range. cbn [i_flags i_segid i_ts app nth].
  f_equal.
  - apply N.mod_small; lia.
  - cbn [skipn]. rewrite firstn_app_exact by (now rewrite be_bytes_length). apply (be_val_be_bytes 2). exact H2.
  - change (skipn 4 (f mod 256 :: 0 :: be_bytes 2 s ++ be_bytes 4 t)) with (skipn 2 (be_bytes 2 s ++ be_bytes 4 t)).
    rewrite skipn_app_exact by (now rewrite be_bytes_length).
    rewrite firstn_all2 by (rewrite be_bytes_length; lia). apply (be_val_be_bytes 4). exact H3.
Qed.

Lemma dec_enc_hop h : hop_typed h = true -> dec_hop (enc_hop h) = h.
Proof.
  intros H. apply hop_typed_inv in H as (H1 & H2 & H3 & H4 & H5 & _). destruct h as [f e ci ce mac].
  cbn [h_flags h_exp h_ci h_ce h_mac] in *.
  unfold dec_hop, enc_hop, hf_flags, hf_exp, hf_cons_ingress, hf_cons_egress, hf_mac, byte, get_range.
  cbn [h_flags h_exp h_ci h_ce h_mac app nth].
  f_equal.
  - apply N.mod_small; lia.
  - apply N.mod_small; lia.
  - cbn [skipn]. rewrite firstn_app_exact by (now rewrite be_bytes_length). apply (be_val_be_bytes 2). exact H3.
  - change (skipn 4 (f mod 256 :: e mod 256 :: be_bytes 2 ci ++ be_bytes 2 ce ++ firstn 6 mac))
      with (skipn 2 (be_bytes 2 ci ++ be_bytes 2 ce ++ firstn 6 mac)).
    rewrite skipn_app_exact by (now rewrite be_bytes_length).
    rewrite firstn_app_exact by (now rewrite be_bytes_length). apply (be_val_be_bytes 2). exact H4.
  - change (skipn 6 (f mod 256 :: e mod 256 :: be_bytes 2 ci ++ be_bytes 2 ce ++ firstn 6 mac))
      with (skipn 4 (be_bytes 2 ci ++ be_bytes 2 ce ++ firstn 6 mac)).
    rewrite app_assoc. rewrite skipn_app_exact by (now rewrite app_length, !be_bytes_length).
    rewrite firstn_firstn. apply firstn_all2. lia.
Qed.

Lemma toggle_enc_info i : info_typed i = true -> toggle_cons_dir (enc_info i) = enc_info (m_toggle i).
Proof.
  intros H. apply info_typed_inv in H as (H1 & _ & _).
  unfold toggle_cons_dir, if_set_flags, if_flags, set_byte, set_range, byte, enc_info, m_toggle.
  cbn [i_flags i_segid i_ts app nth firstn skipn length Nat.add].
  f_equal. now rewrite (N.mod_small (i_flags i) 256) by lia.
Qed.

Lemma m_toggle_typed i : info_typed i = true -> info_typed (m_toggle i) = true.
Proof.
  intros H. pose proof (info_typed_inv i H) as (H1 & H2 & H3).
  unfold info_typed, m_toggle. cbn [i_flags i_segid i_ts].
  pose proof (lxor_1_lt (i_flags i) H1). change FLAG_CONS_DIR with 1. rewrite !andb_true_iff. lia.
Qed.

(** * the encoding of an accepted model is an assembled view *)
Definition infos_of (segs : list seg) : list info := map s_info segs.
Definition hops_of (segs : list seg) : list hop := concat (map s_hops segs).
Definition seg_ok (s : seg) : Prop := 1 <= seg_len s <= 63 /\ seg_typed s = true.

Definition pad3 (l : list N) : N * N * N :=
  match l with
  | [] => (0, 0, 0) | [a] => (a, 0, 0) | [a; c] => (a, c, 0) | a :: c :: d :: _ => (a, c, d)
  end.

Lemma seg_typed_inv s : seg_typed s = true -> info_typed (s_info s) = true /\ Forall (fun h => hop_typed h = true) (s_hops s).
Proof. unfold seg_typed. rewrite andb_true_iff, forallb_forall, Forall_forall. auto. Qed.

Definition wfp (p : spath) : Prop :=
  (1 <= length (p_segs p) <= 3)%nat /\ Forall seg_ok (p_segs p)
  /\ p_ch p < m_hop_count p /\ p_ch p <= 63 /\ p_ci p < N.of_nat (length (p_segs p)).

Lemma wf_inv p : wf p -> wfp p.
Proof.
  unfold wfp.
  unfold wf, wire_valid_gen, path_typed, m_info_count. rewrite !andb_true_iff, !negb_true_iff.
  intros [W T]. destruct W as [[[[[[H1 H2] H3] H4] H5] H6] H7]. destruct T as [[[T1 T2] T3] T4].
  cbn [andb] in H5. rewrite forallb_forall in H7, T4.
  refine (conj _ (conj _ (conj _ (conj _ _)))); try lia.
  apply Forall_forall. intros s Hs. specialize (H7 s Hs). specialize (T4 s Hs).
  rewrite andb_true_iff, !negb_true_iff in H7. change MAX_SEGMENT_HOPS with 63 in H7.
  split; [lia|exact T4].
Qed.

Lemma all_len_enc_info l : all_len 8 (map enc_info l).
Proof. unfold all_len. apply Forall_map. apply Forall_forall. intros i _. apply enc_info_length. Qed.
Lemma all_len_enc_hop l : Forall (fun h => hop_typed h = true) l -> all_len 12 (map enc_hop l).
Proof. unfold all_len. intros H. apply Forall_map. eapply Forall_impl; [|exact H]. apply enc_hop_length. Qed.

Lemma hops_of_typed segs : Forall seg_ok segs -> Forall (fun h => hop_typed h = true) (hops_of segs).
Proof.
  unfold hops_of. induction 1 as [|s segs [_ Hs] _ IH]; cbn; [constructor|].
  apply Forall_app. split; [apply (seg_typed_inv s Hs)|exact IH].
Qed.
Lemma infos_of_typed segs : Forall seg_ok segs -> Forall (fun i => info_typed i = true) (infos_of segs).
Proof.
  unfold infos_of. induction 1 as [|s segs [_ Hs] _ IH]; cbn; constructor; [apply (seg_typed_inv s Hs)|exact IH].
Qed.

Lemma hops_of_length segs : N.of_nat (length (hops_of segs)) = fold_right (fun s a => seg_len s + a) 0 segs.
Proof.
  unfold hops_of, seg_len. induction segs as [|s segs IH]; cbn [map concat fold_right length]; [reflexivity|].
  rewrite app_length, Nat2N.inj_add, IH. reflexivity.
Qed.

Lemma nz_pos a : 1 <= a -> nz a = 1.
Proof. intros H. unfold nz. destruct (a =? 0) eqn:E; lia. Qed.

Lemma encode_assembled p :
  wfp p ->
  exists l0 l1 l2,
    pad3 (map seg_len (p_segs p)) = (l0, l1, l2)
    /\ encode p = assemble (p_ci p) (p_ch p) 0 l0 l1 l2
                           (map enc_info (infos_of (p_segs p))) (map enc_hop (hops_of (p_segs p)))
    /\ meta_ok (p_ci p) (p_ch p) 0 l0 l1 l2
    /\ shaped l0 l1 l2 (map enc_info (infos_of (p_segs p))) (map enc_hop (hops_of (p_segs p)))
    /\ l0 <> 0 /\ rev_seg_count l1 l2 = N.of_nat (length (p_segs p)) /\ l0 + l1 + l2 = m_hop_count p.
Proof.
  intros Hwf. destruct Hwf as (Hlen & Hok & Hch & Hch63 & Hci).
  pose proof (hops_of_typed _ Hok) as Hht.
  pose proof (hops_of_length (p_segs p)) as Hhl. fold (m_hop_count p) in Hhl.
  unfold encode, m_segment_sizes, m_hop_count in *. unfold infos_of.
  destruct p as [ci ch segs]. cbn [p_ci p_ch p_segs] in *.
  destruct segs as [|x [|y [|z [|w r]]]]; cbn [length] in Hlen; try lia.
  - assert (Hx : 1 <= seg_len x <= 63) by (inversion Hok as [|? ? Hx' _]; apply Hx').
    exists (seg_len x), 0, 0. cbn [map nth_error pad3 fold_right length] in *.
    rewrite !(N.mod_small (seg_len x) 256), !(N.mod_small (seg_len x) 64), !(N.mod_small ci 4), !(N.mod_small ch 64) by lia.
    change (0 mod 64) with 0.
    refine (conj eq_refl (conj eq_refl (conj _ (conj _ (conj _ (conj _ _)))))).
    + unfold meta_ok. lia.
    + constructor; [exact (all_len_enc_info (infos_of [x]))|apply all_len_enc_hop; exact Hht| |].
      * cbn [map length]. rewrite (nz_pos (seg_len x)) by lia. change (nz 0) with 0. lia.
      * rewrite map_length, Hhl. lia.
    + lia.
    + reflexivity.
    + lia.
  - assert (Hx : 1 <= seg_len x <= 63) by (inversion Hok as [|? ? Hx' _]; apply Hx').
    assert (Hy : 1 <= seg_len y <= 63) by (inversion Hok as [|? ? _ Hok']; inversion Hok' as [|? ? Hy' _]; apply Hy').
    exists (seg_len x), (seg_len y), 0. cbn [map nth_error pad3 fold_right length] in *.
    rewrite !(N.mod_small (seg_len x) 256), !(N.mod_small (seg_len x) 64),
            !(N.mod_small (seg_len y) 256), !(N.mod_small (seg_len y) 64), !(N.mod_small ci 4), !(N.mod_small ch 64) by lia.
    change (0 mod 64) with 0.
    refine (conj eq_refl (conj eq_refl (conj _ (conj _ (conj _ (conj _ _)))))).
    + unfold meta_ok. lia.
    + constructor; [exact (all_len_enc_info (infos_of [x; y]))|apply all_len_enc_hop; exact Hht| |].
      * cbn [map length]. rewrite (nz_pos (seg_len x)), (nz_pos (seg_len y)) by lia. change (nz 0) with 0. lia.
      * rewrite map_length, Hhl. lia.
    + lia.
    + unfold rev_seg_count. destruct (seg_len y =? 0) eqn:E; [lia|reflexivity].
    + lia.
  - assert (Hx : 1 <= seg_len x <= 63) by (inversion Hok as [|? ? Hx' _]; apply Hx').
    assert (Hy : 1 <= seg_len y <= 63) by (inversion Hok as [|? ? _ Hok']; inversion Hok' as [|? ? Hy' _]; apply Hy').
    assert (Hz : 1 <= seg_len z <= 63) by (inversion Hok as [|? ? _ Hok']; inversion Hok' as [|? ? _ Hok'']; inversion Hok'' as [|? ? Hz' _]; apply Hz').
    exists (seg_len x), (seg_len y), (seg_len z). cbn [map nth_error pad3 fold_right length] in *.
    rewrite !(N.mod_small (seg_len x) 256), !(N.mod_small (seg_len x) 64),
            !(N.mod_small (seg_len y) 256), !(N.mod_small (seg_len y) 64),
            !(N.mod_small (seg_len z) 256), !(N.mod_small (seg_len z) 64), !(N.mod_small ci 4), !(N.mod_small ch 64) by lia.

    refine (conj eq_refl (conj eq_refl (conj _ (conj _ (conj _ (conj _ _)))))).
    + unfold meta_ok. lia.
    + constructor; [exact (all_len_enc_info (infos_of [x; y; z]))|apply all_len_enc_hop; exact Hht| |].
      * cbn [map length]. rewrite (nz_pos (seg_len x)), (nz_pos (seg_len y)), (nz_pos (seg_len z)) by lia. lia.
      * rewrite map_length, Hhl. lia.
    + lia.
    + unfold rev_seg_count. destruct (seg_len y =? 0) eqn:E; [lia|]. destruct (seg_len z =? 0) eqn:E'; [lia|reflexivity].
    + lia.
Qed.

(** * the model's reversal *)
Definition rev_segs (segs : list seg) : list seg :=
  map (fun s => mkSeg (s_info s) (rev (s_hops s)))
      (rev (map (fun s => mkSeg (m_toggle (s_info s)) (s_hops s)) segs)).

Lemma rev_segs_cons s segs :
  rev_segs (s :: segs) = rev_segs segs ++ [mkSeg (m_toggle (s_info s)) (rev (s_hops s))].
Proof. unfold rev_segs. cbn [map rev]. rewrite map_app. reflexivity. Qed.
Lemma hops_of_app a c : hops_of (a ++ c) = hops_of a ++ hops_of c.
Proof. unfold hops_of. now rewrite map_app, concat_app. Qed.
Lemma infos_of_app a c : infos_of (a ++ c) = infos_of a ++ infos_of c.
Proof. unfold infos_of. now rewrite map_app. Qed.
Lemma hops_of_rev_segs segs : hops_of (rev_segs segs) = rev (hops_of segs).
Proof.
  induction segs as [|s segs IH]; [reflexivity|].
  rewrite rev_segs_cons, hops_of_app, IH. unfold hops_of at 2 3. cbn [map concat s_hops].
  rewrite app_nil_r. fold (hops_of segs). now rewrite rev_app_distr.
Qed.
Lemma infos_of_rev_segs segs : infos_of (rev_segs segs) = rev (map m_toggle (infos_of segs)).
Proof.
  induction segs as [|s segs IH]; [reflexivity|].
  rewrite rev_segs_cons, infos_of_app, IH. unfold infos_of. cbn [map rev s_info]. reflexivity.
Qed.
Lemma rev_segs_length segs : length (rev_segs segs) = length segs.
Proof. unfold rev_segs. now rewrite map_length, rev_length, map_length. Qed.

Lemma m_hop_count_eq p : m_hop_count p = N.of_nat (length (hops_of (p_segs p))).
Proof. unfold m_hop_count. now rewrite hops_of_length. Qed.

Lemma rev_segs_ok segs : Forall seg_ok segs -> Forall seg_ok (rev_segs segs).
Proof.
  intros H. unfold rev_segs. apply Forall_map. apply Forall_rev. apply Forall_map.
  eapply Forall_impl; [|exact H]. intros s [Hl Ht]. unfold seg_ok, seg_len in *. cbn [s_hops s_info].
  rewrite rev_length. split; [exact Hl|].
  apply seg_typed_inv in Ht as [Hi Hh]. unfold seg_typed. cbn [s_hops s_info].
  rewrite (m_toggle_typed _ Hi). cbn [andb]. apply forallb_forall. intros h Hin.
  apply in_rev in Hin. rewrite Forall_forall in Hh. auto.
Qed.

Lemma model_reverse_wfp p :
  wfp p ->
  (63 <? (m_hop_count p - p_ch p) - 1) = false ->
  let p' := mkPath (N.of_nat (length (p_segs p)) - p_ci p - 1) (m_hop_count p - p_ch p - 1) (rev_segs (p_segs p)) in
  model_try_reverse p = (p', Ok tt) /\ wfp p'.
Proof.
  intros (Hlen & Hok & Hch & Hch63 & Hci) Hfit p'.
  assert (Hcnt : m_hop_count (mkPath (p_ci p) (p_ch p) (rev_segs (p_segs p))) = m_hop_count p).
  { rewrite !m_hop_count_eq. cbn [p_segs]. now rewrite hops_of_rev_segs, rev_length. }
  split.
  - unfold model_try_reverse, m_info_count. fold (rev_segs (p_segs p)).
    destruct (N.of_nat (length (p_segs p)) =? 0) eqn:E0; [lia|].
    destruct (m_hop_count p <=? p_ch p) eqn:E1; [lia|].
    destruct (N.of_nat (length (p_segs p)) <=? p_ci p) eqn:E2; [lia|].
    rewrite Hfit, Hcnt.
    destruct (m_hop_count p - p_ch p <? 1) eqn:E3; [lia|].
    unfold p'. f_equal. f_equal; apply N.mod_small; lia.
  - unfold wfp, p'. cbn [p_ci p_ch p_segs]. rewrite rev_segs_length.
    rewrite (m_hop_count_eq (mkPath _ _ _)). cbn [p_segs]. rewrite hops_of_rev_segs, rev_length, <- m_hop_count_eq.
    refine (conj Hlen (conj (rev_segs_ok _ Hok) _)). lia.
Qed.

(** * reversal commutes with encoding *)
Lemma map_toggle_enc_info l :
  Forall (fun i => info_typed i = true) l ->
  map toggle_cons_dir (map enc_info l) = map enc_info (map m_toggle l).
Proof.
  intros H. rewrite !map_map. apply map_ext_in. intros i Hi. rewrite Forall_forall in H.
  apply toggle_enc_info. auto.
Qed.

Lemma pad3_rev_segs segs l0 l1 l2 :
  (1 <= length segs <= 3)%nat -> Forall seg_ok segs -> pad3 (map seg_len segs) = (l0, l1, l2) ->
  pad3 (map seg_len (rev_segs segs)) = rev_lens l0 l1 l2.
Proof.
  intros Hlen Hok E. unfold rev_segs, rev_lens.
  destruct segs as [|x [|y [|z [|w r]]]]; cbn [length] in Hlen; try lia;
    unfold seg_len in *; cbn [map rev app pad3 s_hops] in *; rewrite ?rev_length;
    injection E as <- <- <-.
  - reflexivity.
  - assert (Hy : 1 <= seg_len y <= 63) by (inversion Hok as [|? ? _ Hok']; inversion Hok' as [|? ? Hy' _]; apply Hy').
    unfold seg_len in Hy. destruct (N.of_nat (length (s_hops y)) =? 0) eqn:E; [lia|]. reflexivity.
  - assert (Hy : 1 <= seg_len y <= 63) by (inversion Hok as [|? ? _ Hok']; inversion Hok' as [|? ? Hy' _]; apply Hy').
    assert (Hz : 1 <= seg_len z <= 63) by (inversion Hok as [|? ? _ Hok']; inversion Hok' as [|? ? _ Hok'']; inversion Hok'' as [|? ? Hz' _]; apply Hz').
    unfold seg_len in Hy, Hz. destruct (N.of_nat (length (s_hops y)) =? 0) eqn:E; [lia|].
    destruct (N.of_nat (length (s_hops z)) =? 0) eqn:E'; [lia|]. reflexivity.
Qed.

Lemma reverse_commutes_wfp p :
  wfp p ->
  view_try_reverse (encode p) = (encode (fst (model_try_reverse p)), snd (model_try_reverse p)).
Proof.
  intros Hwf.
  destruct (encode_assembled p Hwf) as (l0 & l1 & l2 & Epad & Eenc & Hm & Hs & Hl0 & Hrc & Hsum).
  assert (Hwf' := Hwf). destruct Hwf' as (Hlen & Hok & Hch & Hch63 & Hci).
  destruct (63 <? (m_hop_count p - p_ch p) - 1) eqn:Hfit.
  - (* both refuse: the reversed position does not fit CurrHF *)
    assert (Em : model_try_reverse p = (p, Err RevHopUnfit)).
    { unfold model_try_reverse, m_info_count.
      destruct (N.of_nat (length (p_segs p)) =? 0) eqn:E0; [lia|].
      destruct (m_hop_count p <=? p_ch p) eqn:E1; [lia|].
      destruct (N.of_nat (length (p_segs p)) <=? p_ci p) eqn:E2; [lia|].
      now rewrite Hfit. }
    rewrite Em. cbn [fst snd]. rewrite Eenc. unfold view_try_reverse.
    rewrite (asm_seg0 _ _ _ _ _ _ _ _ Hm), (asm_seg1 _ _ _ _ _ _ _ _ Hm), (asm_seg2 _ _ _ _ _ _ _ _ Hm),
            (asm_curr_hf _ _ _ _ _ _ _ _ Hm), (asm_curr_inf _ _ _ _ _ _ _ _ Hm).
    fold (rev_seg_count l1 l2). rewrite Hrc, Hsum.
    destruct (l0 =? 0) eqn:E0; [lia|].
    destruct (m_hop_count p <=? p_ch p) eqn:E1; [lia|].
    destruct (N.of_nat (length (p_segs p)) <=? p_ci p) eqn:E2; [lia|].
    now rewrite Hfit.
  - destruct (model_reverse_wfp p Hwf Hfit) as [Em Hwf2]. rewrite Em. cbn [fst snd].
    destruct (encode_assembled _ Hwf2) as (k0 & k1 & k2 & Epad2 & Eenc2 & _).
    cbn [p_ci p_ch p_segs] in *. rewrite Eenc2, Eenc.
    rewrite (pad3_rev_segs _ _ _ _ Hlen Hok Epad) in Epad2.
    rewrite (view_try_reverse_assembled _ _ _ _ _ _ _ _ k0 k1 k2 Hm Hs Epad2 Hl0); try lia.
    rewrite Hrc, Hsum. f_equal. f_equal.
    + rewrite infos_of_rev_segs, map_rev. f_equal. apply map_toggle_enc_info.
      apply infos_of_typed. exact Hok.
    + now rewrite hops_of_rev_segs, map_rev.
Qed.

(** * decode (encode p) = p *)
Lemma zip_segments_encoded segs (rest : list N) :
  Forall seg_ok segs -> (length segs <= length rest)%nat ->
  (forall k s, nth_error segs k = Some s -> nth_error rest k = Some (seg_len s)) ->
  zip_segments (map enc_info (infos_of segs)) rest (map enc_hop (hops_of segs)) = segs.
Proof.
  revert rest. induction segs as [|s segs IH]; intros rest Hok Hl Hn; [reflexivity|].
  destruct rest as [|n rest]; cbn [length] in Hl; [lia|].
  assert (En : n = seg_len s) by (specialize (Hn 0%nat s eq_refl); cbn in Hn; congruence). subst n.
  inversion Hok as [|? ? [_ Hs] Hok']; subst.
  unfold infos_of, hops_of. cbn [map concat zip_segments]. fold (hops_of segs). fold (infos_of segs).
  rewrite map_app. unfold seg_len. rewrite Nat2N.id.
  rewrite firstn_app_exact by (now rewrite map_length). rewrite skipn_app_exact by (now rewrite map_length).
  apply seg_typed_inv in Hs as [Hi Hh].
  f_equal.
  - destruct s as [i hs]. cbn [s_info s_hops] in *. f_equal; [apply dec_enc_info; exact Hi|].
    rewrite map_map. rewrite <- (map_id hs) at 2. apply map_ext_in. intros h Hin.
    rewrite Forall_forall in Hh. apply dec_enc_hop. auto.
  - apply IH; [exact Hok'|lia|]. intros k s' Hk. exact (Hn (S k) s' Hk).
Qed.

Lemma from_view_encode_wfp p : wfp p -> from_view (encode p) = p.
Proof.
  intros Hwf.
  destruct (encode_assembled p Hwf) as (l0 & l1 & l2 & Epad & Eenc & Hm & Hs & Hl0 & Hrc & Hsum).
  destruct Hwf as (Hlen & Hok & Hch & Hch63 & Hci).
  rewrite Eenc. unfold from_view.
  rewrite (asm_curr_inf _ _ _ _ _ _ _ _ Hm), (asm_curr_hf _ _ _ _ _ _ _ _ Hm),
          (asm_info_fields _ _ _ _ _ _ _ _ Hm Hs), (asm_hop_fields _ _ _ _ _ _ _ _ Hm Hs),
          (asm_seg_lens _ _ _ _ _ _ _ _ Hm).
  destruct p as [ci ch segs]. cbn [p_ci p_ch p_segs] in *. f_equal.
  apply zip_segments_encoded; [exact Hok|cbn [length]; lia|].
  intros k s Hk.
  destruct segs as [|x [|y [|z [|w r]]]]; cbn [length] in Hlen; try lia;
    cbn [map pad3] in Epad; injection Epad as <- <- <-;
    repeat (destruct k as [|k]; cbn [nth_error] in *; try congruence); destruct k; discriminate.
Qed.
