(** Reversal: the view's in-place reversal computed on assembled views, atomicity, absence of
    panics, involution; the model's reversal; commutation with encoding. *)
From Coq Require Import Lia ZifyBool ZifyNat ZifyN.
From Sci Require Import Common.ListAux StdPath.Model StdPath.Proofs.
Local Open Scope N_scope.
Ltac Zify.zify_post_hook ::= Z.div_mod_to_equations.
Arguments N.add : simpl never. Arguments N.sub : simpl never. Arguments N.mul : simpl never.
Arguments N.div : simpl never. Arguments N.modulo : simpl never. Arguments N.eqb : simpl never.
Arguments N.ltb : simpl never. Arguments N.leb : simpl never. Arguments N.lxor : simpl never.
Arguments N.min : simpl never. Arguments N.testbit : simpl never.

Definition rev_seg_count (s1 s2 : N) : N := if s1 =? 0 then 1 else if s2 =? 0 then 2 else 3.
Definition rev_lens (s0 s1 s2 : N) : N * N * N :=
  if s1 =? 0 then (s0, s1, s2) else if s2 =? 0 then (s1, s0, s2) else (s2, s1, s0).

Lemma rev_lens_sum s0 s1 s2 a c d : rev_lens s0 s1 s2 = (a, c, d) -> a + c + d = s0 + s1 + s2.
Proof. unfold rev_lens. destruct (s1 =? 0); [|destruct (s2 =? 0)]; intros E; inversion E; lia. Qed.
Lemma rev_lens_nz s0 s1 s2 a c d :
  rev_lens s0 s1 s2 = (a, c, d) -> nz a + nz c + nz d = nz s0 + nz s1 + nz s2.
Proof. unfold rev_lens. destruct (s1 =? 0); [|destruct (s2 =? 0)]; intros E; inversion E; lia. Qed.
Lemma rev_lens_ok ci ch rsv s0 s1 s2 a c d ci' ch' :
  rev_lens s0 s1 s2 = (a, c, d) -> meta_ok ci ch rsv s0 s1 s2 -> ci' < 4 -> ch' < 64 ->
  meta_ok ci' ch' rsv a c d.
Proof.
  unfold rev_lens, meta_ok. destruct (s1 =? 0); [|destruct (s2 =? 0)]; intros E; inversion E; lia.
Qed.

Lemma swap_seg_lens_meta ci ch rsv s0 s1 s2 r a c d :
  meta_ok ci ch rsv s0 s1 s2 -> rev_lens s0 s1 s2 = (a, c, d) ->
  swap_seg_lens (mk_meta ci ch rsv s0 s1 s2 ++ r) (rev_seg_count s1 s2) s0 s1 s2
  = mk_meta ci ch rsv a c d ++ r.
Proof.
  intros Hm E. unfold swap_seg_lens, rev_seg_count, rev_lens in *.
  assert (Hm' := Hm). destruct Hm' as (H1 & H2 & H3 & H4 & H5 & H6).
  destruct (s1 =? 0) eqn:E1; [inversion E; subst; reflexivity|].
  destruct (s2 =? 0) eqn:E2; inversion E; subst; cbn [N.eqb].
  - change (2 =? 1) with false. change (2 =? 2) with true. cbv iota.
    rewrite (put_seg0_len _ _ _ _ _ _ Hm).
    rewrite put_seg1_len by (unfold meta_ok; lia).
    rewrite !N.mod_small by lia. reflexivity.
  - change (3 =? 1) with false. change (3 =? 2) with false. cbv iota.
    rewrite (put_seg0_len _ _ _ _ _ _ Hm).
    rewrite put_seg1_len by (unfold meta_ok; lia).
    rewrite put_seg2_len by (unfold meta_ok; lia).
    rewrite !N.mod_small by lia. reflexivity.
Qed.

(** the repaired try_reverse on an assembled view, when every check passes *)
Lemma view_try_reverse_assembled ci ch rsv s0 s1 s2 IF HF a c d :
  meta_ok ci ch rsv s0 s1 s2 -> shaped s0 s1 s2 IF HF -> rev_lens s0 s1 s2 = (a, c, d) ->
  s0 <> 0 -> ch < s0 + s1 + s2 -> ci < rev_seg_count s1 s2 -> (s0 + s1 + s2 - ch) - 1 <= 63 ->
  view_try_reverse (assemble ci ch rsv s0 s1 s2 IF HF)
  = (assemble (rev_seg_count s1 s2 - ci - 1) (s0 + s1 + s2 - ch - 1) rsv a c d
              (rev (map toggle_cons_dir IF)) (rev HF), Ok tt).
Proof.
  intros Hm Hs E Hs0 Hch Hci Hfit. unfold view_try_reverse.
  rewrite (asm_seg0 _ _ _ _ _ _ _ _ Hm), (asm_seg1 _ _ _ _ _ _ _ _ Hm), (asm_seg2 _ _ _ _ _ _ _ _ Hm),
          (asm_curr_hf _ _ _ _ _ _ _ _ Hm), (asm_curr_inf _ _ _ _ _ _ _ _ Hm).
  fold (rev_seg_count s1 s2).
  destruct (s0 =? 0) eqn:E0; [lia|].
  destruct (s0 + s1 + s2 <=? ch) eqn:E1; [lia|].
  destruct (rev_seg_count s1 s2 <=? ci) eqn:E2; [lia|].
  destruct (63 <? s0 + s1 + s2 - ch - 1) eqn:E3; [lia|].
  assert (Eb1 : swap_seg_lens (assemble ci ch rsv s0 s1 s2 IF HF) (rev_seg_count s1 s2) s0 s1 s2
                = assemble ci ch rsv a c d IF HF).
  { unfold assemble. apply (swap_seg_lens_meta _ _ _ _ _ _ _ _ _ _ Hm E). }
  cbv zeta. rewrite !Eb1.
  assert (Hm1 : meta_ok ci ch rsv a c d).
  { unfold meta_ok in Hm. apply (rev_lens_ok ci ch rsv s0 s1 s2 a c d ci ch E Hm); lia. }
  assert (Hs1 : shaped a c d IF HF).
  { destruct Hs as [H1 H2 H3 H4]. constructor; auto.
    - rewrite (rev_lens_nz _ _ _ _ _ _ E). exact H3.
    - rewrite (rev_lens_sum _ _ _ _ _ _ E). exact H4. }
  rewrite (asm_required_size _ _ _ _ _ _ _ _ Hm1 Hs1), N.ltb_irrefl.
  rewrite (reverse_fields_assembled _ _ _ _ _ _ _ _ Hm1 Hs1).
  destruct (s0 + s1 + s2 - ch <? 1) eqn:E4; [lia|].
  unfold assemble. rewrite (put_curr_hf _ _ _ _ _ _ Hm1).
  assert (Hrc : rev_seg_count s1 s2 <= 3) by (unfold rev_seg_count; destruct (s1 =? 0); [|destruct (s2 =? 0)]; lia).
  assert (Hm2 : meta_ok ci ((s0 + s1 + s2 - ch - 1) mod 256 mod 64) rsv a c d).
  { unfold meta_ok in *. repeat split; try lia. }
  rewrite (put_curr_inf _ _ _ _ _ _ Hm2).
  rewrite (N.mod_small (s0 + s1 + s2 - ch - 1) 256) by lia.
  rewrite (N.mod_small (rev_seg_count s1 s2 - ci - 1) 256) by lia.
  rewrite (N.mod_small (s0 + s1 + s2 - ch - 1) 64) by lia.
  rewrite (N.mod_small (rev_seg_count s1 s2 - ci - 1) 4) by lia.
  reflexivity.
Qed.

(** ** an operation that reports an error leaves the bytes unchanged: every byte string *)
Lemma view_reverse_err_unchanged b b' e :
  view_try_reverse b = (b', Err e) -> b' = b.
Proof.
  unfold view_try_reverse. intros H.
  repeat match type of H with
         | (if ?c then _ else _) = _ => destruct c
         | (let '(_, _) := ?x in _) = _ => destruct x
         end; inversion H; reflexivity.
Qed.

(** ** on accepted views the reversal either fails or is given by [view_try_reverse_assembled] *)
Lemma view_reverse_cases ci ch rsv s0 s1 s2 IF HF :
  meta_ok ci ch rsv s0 s1 s2 -> shaped s0 s1 s2 IF HF ->
  let b := assemble ci ch rsv s0 s1 s2 IF HF in
  (exists e, view_try_reverse b = (b, Err e))
  \/ (exists a c d, rev_lens s0 s1 s2 = (a, c, d) /\ s0 <> 0 /\ ch < s0 + s1 + s2
                    /\ ci < rev_seg_count s1 s2 /\ (s0 + s1 + s2 - ch) - 1 <= 63
                    /\ view_try_reverse b
                       = (assemble (rev_seg_count s1 s2 - ci - 1) (s0 + s1 + s2 - ch - 1) rsv a c d
                                   (rev (map toggle_cons_dir IF)) (rev HF), Ok tt)).
Proof.
  intros Hm Hs b.
  destruct (s0 =? 0) eqn:E0; [|destruct (s0 + s1 + s2 <=? ch) eqn:E1;
    [|destruct (rev_seg_count s1 s2 <=? ci) eqn:E2; [|destruct (63 <? s0 + s1 + s2 - ch - 1) eqn:E3]]].
  1-4: left; unfold b, view_try_reverse;
       rewrite (asm_seg0 _ _ _ _ _ _ _ _ Hm), (asm_seg1 _ _ _ _ _ _ _ _ Hm), (asm_seg2 _ _ _ _ _ _ _ _ Hm),
               (asm_curr_hf _ _ _ _ _ _ _ _ Hm), (asm_curr_inf _ _ _ _ _ _ _ _ Hm);
       fold (rev_seg_count s1 s2); rewrite ?E0, ?E1, ?E2, ?E3; eexists; reflexivity.
  right. destruct (rev_lens s0 s1 s2) as [[a c] d] eqn:E.
  exists a, c, d. refine (conj eq_refl (conj _ (conj _ (conj _ (conj _ _))))); try lia.
  apply view_try_reverse_assembled; auto; lia.
Qed.

Lemma view_reverse_no_panic b : view_ok b = true -> is_panic (snd (view_try_reverse b)) = false.
Proof.
  intros H. destruct (view_decompose b H) as (ci & ch & rsv & s0 & s1 & s2 & IF & HF & -> & Hm & Hs & _).
  destruct (view_reverse_cases _ _ _ _ _ _ _ _ Hm Hs) as [[e ->]|(a & c & d & _ & _ & _ & _ & _ & ->)]; reflexivity.
Qed.

(** ** reversal is its own inverse, on every accepted byte string *)
Lemma lxor_1_lt x : x < 256 -> N.lxor x 1 < 256.
Proof.
  intros H. destruct (N.eq_dec x 0) as [->|Hx]; [reflexivity|].
  assert (Hl : N.log2 (N.lxor x 1) <= N.max (N.log2 x) (N.log2 1)) by apply N.log2_lxor.
  assert (N.log2 x < 8) by (apply (proj1 (N.log2_lt_pow2 x 8 ltac:(lia))); exact H).
  destruct (N.eq_dec (N.lxor x 1) 0) as [->|Hn]; [lia|].
  apply (proj2 (N.log2_lt_pow2 (N.lxor x 1) 8 ltac:(lia))). change (N.log2 1) with 0 in Hl. lia.
Qed.

Lemma toggle_involutive f :
  (1 <= length f)%nat -> bytes_ok f = true -> toggle_cons_dir (toggle_cons_dir f) = f.
Proof.
  destruct f as [|x r]; cbn [length]; [lia|]. intros _ Hb.
  unfold bytes_ok in Hb. cbn [forallb] in Hb. apply andb_prop in Hb as [Hx _].
  unfold byte_ok in Hx. apply N.ltb_lt in Hx.
  unfold toggle_cons_dir, if_set_flags, if_flags, set_byte, set_range, byte.
  cbn [nth firstn skipn app length Nat.add]. f_equal.
  change FLAG_CONS_DIR with 1.
  rewrite (N.mod_small (N.lxor x 1) 256) by (apply lxor_1_lt; exact Hx).
  rewrite N.lxor_assoc, N.lxor_nilpotent, N.lxor_0_r. apply N.mod_small. exact Hx.
Qed.

Lemma toggle_bytes_ok f : bytes_ok f = true -> bytes_ok (toggle_cons_dir f) = true.
Proof.
  intros Hb.
  assert (Hv : byte_ok (N.lxor (if_flags f) FLAG_CONS_DIR mod 256) = true).
  { unfold byte_ok. apply N.ltb_lt. apply N.mod_lt. lia. }
  unfold toggle_cons_dir, if_set_flags, set_byte, set_range.
  destruct f as [|x r]; cbn [firstn skipn app length Nat.add bytes_ok forallb].
  - now rewrite Hv.
  - rewrite Hv. unfold bytes_ok in Hb. cbn [forallb] in Hb. apply andb_prop in Hb. apply Hb.
Qed.

Lemma bytes_ok_concat l : bytes_ok (concat l) = true <-> Forall (fun f => bytes_ok f = true) l.
Proof.
  unfold bytes_ok. induction l as [|x l IH]; cbn [concat]; [split; auto|].
  rewrite forallb_app, andb_true_iff, IH. split.
  - intros [H1 H2]. constructor; auto.
  - intros H. inversion H; auto.
Qed.

Lemma bytes_ok_assemble ci ch rsv s0 s1 s2 IF HF :
  bytes_ok (assemble ci ch rsv s0 s1 s2 IF HF) = true ->
  Forall (fun f => bytes_ok f = true) IF /\ Forall (fun f => bytes_ok f = true) HF.
Proof.
  unfold assemble, bytes_ok. rewrite !forallb_app, !andb_true_iff. intros (_ & H1 & H2).
  split; apply bytes_ok_concat; assumption.
Qed.

Lemma map_toggle_involutive IF :
  all_len 8 IF -> Forall (fun f => bytes_ok f = true) IF ->
  map toggle_cons_dir (map toggle_cons_dir IF) = IF.
Proof.
  intros H1 H2. induction IF as [|f IF IH]; [reflexivity|]. inversion H1; inversion H2; subst.
  cbn [map]. rewrite toggle_involutive; [|lia|assumption]. f_equal. apply IH; assumption.
Qed.

Lemma rev_lens_twice s0 s1 s2 a c d :
  rev_lens s0 s1 s2 = (a, c, d) -> s0 <> 0 ->
  rev_lens a c d = (s0, s1, s2) /\ a <> 0 /\ rev_seg_count c d = rev_seg_count s1 s2.
Proof.
  unfold rev_lens, rev_seg_count. intros E H0.
  destruct (s1 =? 0) eqn:E1; [injection E as <- <- <-; rewrite E1; auto|].
  destruct (s2 =? 0) eqn:E2; injection E as <- <- <-.
  - assert (E3 : (s0 =? 0) = false) by lia. rewrite E3, E2. repeat split; lia.
  - rewrite E1. assert (E3 : (s0 =? 0) = false) by lia. rewrite E3. repeat split; lia.
Qed.

Lemma view_reverse_involutive b b' :
  view_ok b = true -> view_try_reverse b = (b', Ok tt) -> view_try_reverse b' = (b, Ok tt).
Proof.
  intros Hv H.
  destruct (view_decompose b Hv) as (ci & ch & rsv & s0 & s1 & s2 & IF & HF & -> & Hm & Hs & Hb).
  destruct (view_reverse_cases _ _ _ _ _ _ _ _ Hm Hs) as [[e He]|(a & c & d & E & H0 & Hch & Hci & Hfit & Hr)].
  { rewrite He in H. discriminate. }
  rewrite Hr in H. inversion H; subst b'; clear H.
  destruct (rev_lens_twice _ _ _ _ _ _ E H0) as (E' & Ha & Erc).
  assert (Hrc : rev_seg_count s1 s2 <= 3) by (unfold rev_seg_count; destruct (s1 =? 0); [|destruct (s2 =? 0)]; lia).
  assert (Hm' : meta_ok (rev_seg_count s1 s2 - ci - 1) (s0 + s1 + s2 - ch - 1) rsv a c d).
  { unfold meta_ok in Hm. apply (rev_lens_ok ci ch rsv s0 s1 s2 a c d _ _ E Hm); lia. }
  assert (Hs' : shaped a c d (rev (map toggle_cons_dir IF)) (rev HF)).
  { apply (shaped_rev s0 s1 s2); auto.
    - apply (rev_lens_nz _ _ _ _ _ _ E). - apply (rev_lens_sum _ _ _ _ _ _ E). }
  pose proof (rev_lens_sum _ _ _ _ _ _ E) as Esum.
  rewrite (view_try_reverse_assembled _ _ _ _ _ _ _ _ s0 s1 s2 Hm' Hs' E' Ha); try lia.
  2:{ unfold meta_ok in Hm. lia. }
  destruct (bytes_ok_assemble _ _ _ _ _ _ _ _ Hb) as [HbI HbH].
  rewrite <- map_rev, rev_involutive, (map_toggle_involutive IF (sh_if_len _ _ _ _ _ Hs) HbI), rev_involutive.
  rewrite Erc, Esum. unfold meta_ok in Hm.
  replace (rev_seg_count s1 s2 - (rev_seg_count s1 s2 - ci - 1) - 1) with ci by lia.
  replace (s0 + s1 + s2 - (s0 + s1 + s2 - ch - 1) - 1) with ch by lia.
  reflexivity.
Qed.

(** ** the hop under the pointer is the same hop: every accepted byte string *)
Lemma nth_chunk k (l : list (list N)) (r : list N) j :
  all_len k l -> (j < length l)%nat -> firstn k (skipn (k * j) (concat l ++ r)) = nth j l [].
Proof.
  intros H. revert j. induction H as [|x l Hx _ IH]; intros j Hj; cbn [length] in Hj; [lia|].
  cbn [concat]. rewrite <- app_assoc. destruct j as [|j].
  - rewrite Nat.mul_0_r. cbn [skipn nth]. apply firstn_app_exact. auto.
  - replace (k * S j)%nat with (length x + k * j)%nat by lia.
    rewrite skipn_app, skipn_all2 by lia. cbn [app nth].
    replace (length x + k * j - length x)%nat with (k * j)%nat by lia. apply IH. lia.
Qed.

Section AssembledFields.
Variables ci ch rsv s0 s1 s2 : N.
Variables IF HF : list (list N).
Hypothesis Hm : meta_ok ci ch rsv s0 s1 s2.
Hypothesis Hs : shaped s0 s1 s2 IF HF.
Let b := assemble ci ch rsv s0 s1 s2 IF HF.

Lemma asm_hop_field j : j < N.of_nat (length HF) -> hop_field b j = Some (nth (N.to_nat j) HF []).
Proof.
  intros Hj. subst b. unfold hop_field. rewrite (asm_hop_count _ _ _ _ _ _ _ _ Hm Hs).
  destruct (N.of_nat (length HF) <=? j) eqn:E; [lia|]. f_equal.
  unfold get_range, hop_off. rewrite (asm_info_count _ _ _ _ _ _ _ _ Hm Hs), Nat2N.id.
  unfold assemble. rewrite app_assoc.
  rewrite <- (app_nil_r (concat HF)).
  replace (4 + 8 * length IF + 12 * N.to_nat j)%nat
    with (length (mk_meta ci ch rsv s0 s1 s2 ++ concat IF) + 12 * N.to_nat j)%nat.
  2:{ rewrite app_length, mk_meta_length, (concat_length_all 8) by apply Hs. lia. }
  rewrite skipn_app, skipn_all2 by lia. cbn [app].
  match goal with |- context [(?a + ?c - ?a)%nat] => replace (a + c - a)%nat with c by lia end.
  apply nth_chunk; [apply Hs|lia].
Qed.

Lemma asm_info_field i : i < N.of_nat (length IF) -> info_field b i = Some (nth (N.to_nat i) IF []).
Proof.
  intros Hi. subst b. unfold info_field. rewrite (asm_info_count _ _ _ _ _ _ _ _ Hm Hs).
  destruct (N.of_nat (length IF) <=? i) eqn:E; [lia|]. f_equal.
  unfold get_range, info_off. unfold assemble.
  replace (4 + 8 * N.to_nat i)%nat with (length (mk_meta ci ch rsv s0 s1 s2) + 8 * N.to_nat i)%nat
    by (rewrite mk_meta_length; lia).
  rewrite skipn_app, skipn_all2 by lia. cbn [app].
  match goal with |- context [(?a + ?c - ?a)%nat] => replace (a + c - a)%nat with c by lia end.
  apply nth_chunk; [apply Hs|lia].
Qed.
End AssembledFields.

Lemma view_reverse_same_hop b b' :
  view_ok b = true -> view_try_reverse b = (b', Ok tt) ->
  exists h, hop_field b (curr_hf b) = Some h /\ hop_field b' (curr_hf b') = Some h
            /\ curr_hf b' + curr_hf b + 1 = hop_count b.
Proof.
  intros Hv H.
  destruct (view_decompose b Hv) as (ci & ch & rsv & s0 & s1 & s2 & IF & HF & -> & Hm & Hs & Hb).
  destruct (view_reverse_cases _ _ _ _ _ _ _ _ Hm Hs) as [[e He]|(a & c & d & E & H0 & Hch & Hci & Hfit & Hr)].
  { rewrite He in H. discriminate. }
  rewrite Hr in H. inversion H; subst b'; clear H.
  assert (Hrc : rev_seg_count s1 s2 <= 3) by (unfold rev_seg_count; destruct (s1 =? 0); [|destruct (s2 =? 0)]; lia).
  assert (Hm' : meta_ok (rev_seg_count s1 s2 - ci - 1) (s0 + s1 + s2 - ch - 1) rsv a c d).
  { unfold meta_ok in Hm. apply (rev_lens_ok ci ch rsv s0 s1 s2 a c d _ _ E Hm); lia. }
  assert (Hs' : shaped a c d (rev (map toggle_cons_dir IF)) (rev HF)).
  { apply (shaped_rev s0 s1 s2); auto.
    - apply (rev_lens_nz _ _ _ _ _ _ E). - apply (rev_lens_sum _ _ _ _ _ _ E). }
  pose proof (sh_hf_cnt _ _ _ _ _ Hs) as Hn.
  exists (nth (N.to_nat ch) HF []).
  rewrite (asm_curr_hf _ _ _ _ _ _ _ _ Hm), (asm_curr_hf _ _ _ _ _ _ _ _ Hm'),
          (asm_hop_count _ _ _ _ _ _ _ _ Hm Hs).
  refine (conj _ (conj _ _)).
  - apply asm_hop_field; auto. lia.
  - rewrite (asm_hop_field _ _ _ _ _ _ _ _ Hm' Hs') by (rewrite rev_length; lia).
    f_equal. rewrite rev_nth by lia. f_equal. lia.
  - lia.
Qed.
