(** C11 -- property theorems only.  Each is closed by short glue from lemmas of [Proofs*] and
    followed by [Print Assumptions].

    "Fails" is [Err] (DESIGN, C11): the advance functions have three outcomes, Err, Ok(Ok) and
    Ok(ValidationFailed); only Err promises an untouched path.  [view_ok b]: b is a byte string
    the view constructor accepts.  The validator is an arbitrary record of two functions; the
    MAC is an arbitrary function [cmac]. *)
From Sci Require Import StdPath.Model StdPath.ModelRouting StdPath.Spec StdPath.Proofs StdPath.ProofsRev
     StdPath.ProofsEnc StdPath.ProofsRouting.
Local Open Scope N_scope.

(** Err => the path bytes are exactly as they were: EVERY byte string, every validator, entry
    from inside and outside the AS. *)
Theorem advance_err_unchanged :
  forall (E : Type) (v : validator E) (from_internal : bool) (b b' : list N) (e : adv_err),
    (advance_ingress v from_internal b = (b', Err e) -> b' = b)
    /\ (advance_egress v b = (b', Err e) -> b' = b).
Proof.
  intros E v fi b b' e. split; [apply advance_ingress_err_unchanged|apply advance_egress_err_unchanged].
Qed.
Print Assumptions advance_err_unchanged.

(** Any other result (validated or ValidationFailed) changes at most: the SegID of the current
    info field, the flags byte of the current hop field, and the two pointers.  Stated on the
    decomposition of the view into meta header, info fields [IF] and hop fields [HF]. *)
Theorem validation_failed_changes_only :
  forall (E : Type) (v : validator E) (from_internal : bool) (b b' : list N),
    view_ok b = true ->
    ((exists r, advance_ingress v from_internal b = (b', Ok r)) \/ (exists r, advance_egress v b = (b', Ok r))) ->
    exists ci ch rsv s0 s1 s2 IF HF info1 hop1 ci' ch',
      b = assemble ci ch rsv s0 s1 s2 IF HF
      /\ b' = assemble ci' ch' rsv s0 s1 s2 (upd IF (N.to_nat ci) info1) (upd HF (N.to_nat ch) hop1)
      /\ info_segid_only (nth (N.to_nat ci) IF []) info1
      /\ hop_flags_only (nth (N.to_nat ch) HF []) hop1.
Proof.
  intros E v fi b b' Hv H.
  destruct (view_decompose b Hv) as (ci & ch & rsv & s0 & s1 & s2 & IF & HF & -> & Hm & Hs & _).
  exists ci, ch, rsv, s0, s1, s2, IF, HF.
  destruct H as [[r H]|[r H]].
  - destruct (advance_ingress_shape v fi _ _ _ _ _ _ _ _ _ _ Hm Hs H) as (info1 & hop1 & ci' & ch' & -> & _ & _ & _ & H1 & H2).
    exists info1, hop1, ci', ch'. auto.
  - destruct (advance_egress_shape v _ _ _ _ _ _ _ _ _ _ Hm Hs H) as (info1 & hop1 & -> & _ & _ & _ & _ & H1 & H2).
    exists info1, hop1, ci, (ch + 1). auto.
Qed.
Print Assumptions validation_failed_changes_only.

(** A non-Err egress moves CurrHF forward by exactly one, never to or past the hop count;
    a non-Err ingress leaves both pointers or, at a segment change, moves both forward by one. *)
Theorem forward_increases_curr_hf :
  forall (E : Type) (v : validator E) (from_internal : bool) (b b' : list N),
    view_ok b = true ->
    ((exists r, advance_egress v b = (b', Ok r)) ->
       curr_hf b' = curr_hf b + 1 /\ curr_hf b' < hop_count b /\ hop_count b' = hop_count b
       /\ curr_inf b' = curr_inf b)
    /\ ((exists r, advance_ingress v from_internal b = (b', Ok r)) ->
          hop_count b' = hop_count b
          /\ ((curr_hf b' = curr_hf b /\ curr_inf b' = curr_inf b)
              \/ (curr_hf b' = curr_hf b + 1 /\ curr_inf b' = curr_inf b + 1 /\ curr_hf b' < hop_count b
                  /\ exists st, calculate_segment_index b (curr_hf b) = Some (curr_inf b, st, true)))).
Proof.
  intros E v fi b b' Hv.
  destruct (view_decompose b Hv) as (ci & ch & rsv & s0 & s1 & s2 & IF & HF & -> & Hm & Hs & _).
  rewrite (asm_curr_hf _ _ _ _ _ _ _ _ Hm), (asm_curr_inf _ _ _ _ _ _ _ _ Hm).
  rewrite !(asm_hop_count_sum _ _ _ _ _ _ _ _ Hm).
  split; intros [r H].
  - destruct (advance_egress_shape v _ _ _ _ _ _ _ _ _ _ Hm Hs H) as (info1 & hop1 & -> & H1 & H2 & _).
    assert (Hm' : meta_ok ci (ch + 1) rsv s0 s1 s2) by (unfold meta_ok in *; lia).
    rewrite (asm_curr_hf _ _ _ _ _ _ _ _ Hm'), (asm_curr_inf _ _ _ _ _ _ _ _ Hm').
    rewrite (asm_hop_count_sum _ _ _ _ _ _ _ _ Hm').
    auto.
  - destruct (advance_ingress_shape v fi _ _ _ _ _ _ _ _ _ _ Hm Hs H) as (info1 & hop1 & ci' & ch' & -> & Hc & Hci & _).
    assert (Hm' : meta_ok ci' ch' rsv s0 s1 s2).
    { pose proof (sh_if_cnt _ _ _ _ _ Hs) as Hni.
      assert (N.of_nat (length IF) <= 3) by (unfold nz in Hni; destruct (s0 =? 0), (s1 =? 0), (s2 =? 0); lia).
      unfold meta_ok in *. destruct Hc as [[-> ->]|(-> & -> & ? & ? & ? & _)]; lia. }
    rewrite (asm_curr_hf _ _ _ _ _ _ _ _ Hm'), (asm_curr_inf _ _ _ _ _ _ _ _ Hm').
    rewrite (asm_hop_count_sum _ _ _ _ _ _ _ _ Hm').
    split; [reflexivity|].
    destruct Hc as [[-> ->]|(-> & -> & H1 & H2 & H3 & st & H4)]; [left; auto|right].
    refine (conj eq_refl (conj eq_refl (conj H1 _))). exists st.
    unfold calculate_segment_index. rewrite (asm_seg_lens _ _ _ _ _ _ _ _ Hm). exact H4.
Qed.
Print Assumptions forward_increases_curr_hf.

(** The 16-byte CMAC input block determines beta, timestamp, ExpTime, ConsIngress, ConsEgress. *)
Theorem mac_input_injective :
  forall beta ts e ci ce beta' ts' e' ci' ce',
    beta < 65536 -> ts < 4294967296 -> e < 256 -> ci < 65536 -> ce < 65536 ->
    beta' < 65536 -> ts' < 4294967296 -> e' < 256 -> ci' < 65536 -> ce' < 65536 ->
    mac_input beta ts e ci ce = mac_input beta' ts' e' ci' ce' ->
    beta = beta' /\ ts = ts' /\ e = e' /\ ci = ci' /\ ce = ce'.
Proof. exact mac_input_injective_lemma. Qed.
Print Assumptions mac_input_injective.

(** HopMacValidator accepts a hop field exactly when the carried MAC equals the first six
    bytes of the MAC of the input block built from the SegID and timestamp of the info field it
    is given and the hop's ExpTime/ConsIngress/ConsEgress -- for every MAC function. *)
Theorem accept_iff_mac_equal :
  forall (cmac : list N -> list N -> list N) (key hop info : list N) i st en,
    v_hop (hop_mac_validator cmac key) i hop info st en = None
    <-> hf_mac hop = firstn 6 (cmac key (mac_input (if_segid info) (if_ts info) (hf_exp hop)
                                                   (hf_cons_ingress hop) (hf_cons_egress hop))).
Proof. intros. apply hop_mac_check_none. Qed.
Print Assumptions accept_iff_mac_equal.

(** Tampering: if any authenticated field of the hop (ExpTime, ConsIngress, ConsEgress), its
    segment's timestamp, or the chaining value on arrival differs from the authentic one, the
    MAC input AT THE OWNING AS differs; with the instance premise that the MAC of the new block
    is not the carried MAC (unforgeability of this instance), the owning AS rejects. *)
Theorem tamper_changes_owner_input :
  forall (cmac : list N -> list N -> list N) (key hop info hop' info' : list N),
    bytes_ok hop = true -> bytes_ok info = true -> bytes_ok hop' = true -> bytes_ok info' = true ->
    length hop = 12%nat -> length info = 8%nat -> length hop' = 12%nat -> length info' = 8%nat ->
    (if_segid info, if_ts info, hf_exp hop, hf_cons_ingress hop, hf_cons_egress hop)
      <> (if_segid info', if_ts info', hf_exp hop', hf_cons_ingress hop', hf_cons_egress hop') ->
    let blk := mac_input (if_segid info) (if_ts info) (hf_exp hop) (hf_cons_ingress hop) (hf_cons_egress hop) in
    let blk' := mac_input (if_segid info') (if_ts info') (hf_exp hop') (hf_cons_ingress hop') (hf_cons_egress hop') in
    blk <> blk'
    /\ (hf_mac hop' <> firstn 6 (cmac key blk') ->
        forall i st en, v_hop (hop_mac_validator cmac key) i hop' info' st en <> None).
Proof.
  intros cmac key hop info hop' info' B1 B2 B3 B4 L1 L2 L3 L4 Hne blk blk'. split.
  - intros Heq. apply Hne. unfold blk, blk' in Heq.
    apply mac_input_injective_lemma in Heq as (-> & -> & -> & -> & ->); [reflexivity|..];
      try (apply field16_lt; assumption); try (apply field32_lt; assumption); try (apply byte_lt'; assumption).
  - intros Hmac i st en Hn. apply Hmac. apply (proj1 (hop_mac_check_none cmac key hop' info')). exact Hn.
Qed.
Print Assumptions tamper_changes_owner_input.

(** No modelled panic site (the two expect()s of the commit, unreachable!(), u8 overflow) is
    reachable on any accepted view, with any validator. *)
Theorem advance_no_panic :
  forall (E : Type) (v : validator E) (from_internal : bool) (b : list N),
    view_ok b = true ->
    is_panic (snd (advance_ingress v from_internal b)) = false
    /\ is_panic (snd (advance_egress v b)) = false.
Proof.
  intros E v fi b Hv. split; [apply advance_ingress_no_panic|apply advance_egress_no_panic]; exact Hv.
Qed.
Print Assumptions advance_no_panic.

(** One AS (ingress, then egress when the packet continues) that forwards moves CurrHF strictly
    forward and keeps it below the hop count; hence a run of ASes that all forward -- each with
    its own validator, entered from inside or outside -- is shorter than the number of hop
    fields left: a packet is processed at most as many times as it has hop fields. *)
Theorem processed_at_most_hop_count_times :
  forall (E : Type) (vs : list (validator E * bool)) (b b' : list N),
    view_ok b = true -> forwarded_through vs b = Some b' ->
    curr_hf b + N.of_nat (length vs) <= curr_hf b'
    /\ hop_count b' = hop_count b
    /\ (vs <> [] -> curr_hf b + N.of_nat (length vs) < hop_count b).
Proof.
  intros E vs b b' Hv H.
  destruct (forwarded_through_measure vs b b' Hv H) as (_ & H1 & H2 & H3).
  refine (conj H1 (conj H2 _)). intros Hne. specialize (H3 Hne). lia.
Qed.
Print Assumptions processed_at_most_hop_count_times.

(** A segment whose MACs are chained correctly in construction order ([cons_chain]: hop i
    carries MAC_{key i}(beta_i, ts, ...), beta_{i+1} = beta_i xor MAC_i[0..2]) verifies hop
    after hop, for every MAC function and every assignment of keys to ASes:
    (1) travelled in construction direction, entered from inside or outside, starting with
        SegID = beta of the first hop ahead;
    (2) travelled against construction direction (the hop fields in reverse order on the wire),
        starting with the chaining value of the last hop, XOR-stepped on arrival from outside;
    every AS in the run forwards and CurrHF ends behind the run;
    (3) the final hop of the path is delivered locally.
    PARTIAL: the runs inside the segments (this theorem), the AS at a segment change
    ([authentic_crossover_forwards]) and the final hop ([authentic_last_hop_delivers]) are
    proved separately and are not composed into one statement about a whole multi-segment
    walk; "also after try_reverse at any position" is [reversal_keeps_chaining_state] below (the
    reversed path is in the state clause (1)/(2) starts from, with entry from inside), again
    not composed with the runs; whole walks -- forward, reversed at the end or in the middle,
    and back -- are exercised on the real code by the authentic cases of the correspondence. *)
Theorem authentic_verifies_both_directions_partial :
  forall (cmac : list N -> list N -> list N) (keys hops : list (list N)) (fi : bool)
         ci ch rsv s0 s1 s2 IF HF,
    meta_ok ci ch rsv s0 s1 s2 -> shaped s0 s1 s2 IF HF -> ci < N.of_nat (length IF) ->
    Forall (fun f => bytes_ok f = true) IF -> Forall (fun f => bytes_ok f = true) HF ->
    length hops = length keys ->
    ch + N.of_nat (length keys) < N.of_nat (length HF) -> ch + N.of_nat (length keys) <= 63 ->
    (forall i, (i < length keys)%nat ->
       exists st, calc_seg_idx_aux (ch + N.of_nat i) 0 0 [s0; s1; s2] = Some (ci, st, false)) ->
    let b := assemble ci ch rsv s0 s1 s2 IF HF in
    let info0 := nth (N.to_nat ci) IF [] in
    forall beta0, cons_chain cmac (if_ts info0) beta0 hops keys ->
    (* (1) construction direction *)
    (if_cons_dir info0 = true -> if_segid info0 = beta0 ->
     firstn (length keys) (skipn (N.to_nat ch) HF) = hops ->
     exists b', forwarded_through (run_of cmac fi keys) b = Some b' /\ curr_hf b' = ch + N.of_nat (length keys))
    (* (2) against construction direction *)
    /\ (if_cons_dir info0 = false ->
        beta_used ci ch IF HF fi = beta_after beta0 (removelast hops) ->
        firstn (length keys) (skipn (N.to_nat ch) HF) = rev hops ->
        exists b', forwarded_through (run_of cmac fi (rev keys)) b = Some b' /\ curr_hf b' = ch + N.of_nat (length keys)).
Proof.
  intros cmac keys hops fi ci ch rsv s0 s1 s2 IF HF Hm Hs Hci HbI HbH Hl Hlen Hfit Hint b info0 beta0 Hchain.
  split.
  - intros Hcd Hseg Hhops.
    apply (segment_walk cmac keys fi ci ch rsv s0 s1 s2 IF HF Hm Hs Hci HbI HbH Hlen Hfit Hint).
    fold info0. rewrite Hcd, Hhops. unfold beta_used. fold info0. rewrite Hcd, orb_true_r, Hseg.
    apply wire_chain_cons. exact Hchain.
  - intros Hcd Hbeta Hhops.
    rewrite <- (rev_length keys).
    apply (segment_walk cmac (rev keys) fi ci ch rsv s0 s1 s2 IF HF Hm Hs Hci HbI HbH);
      rewrite ?rev_length; auto.
    fold info0. rewrite Hcd, Hhops, Hbeta.
    apply wire_chain_against; assumption.
Qed.
Print Assumptions authentic_verifies_both_directions_partial.

(** (3) the last hop of the path: an authentic hop field is validated and the packet is
    delivered locally, entered from inside or outside, in either direction. *)
Theorem authentic_last_hop_delivers :
  forall (cmac : list N -> list N -> list N) (key : list N) (fi : bool) ci ch rsv s0 s1 s2 IF HF,
    meta_ok ci ch rsv s0 s1 s2 -> shaped s0 s1 s2 IF HF ->
    ci < N.of_nat (length IF) -> ch < N.of_nat (length HF) ->
    Forall (fun f => bytes_ok f = true) IF -> Forall (fun f => bytes_ok f = true) HF ->
    calc_seg_idx_aux ch 0 0 [s0; s1; s2] = Some (ci, false, true) ->
    N.of_nat (length HF) <= ch + 1 ->
    mac_ok cmac key (beta_used ci ch IF HF fi) (if_ts (nth (N.to_nat ci) IF [])) (nth (N.to_nat ch) HF []) ->
    exists b', process_at_as (hop_mac_validator cmac key) fi (assemble ci ch rsv s0 s1 s2 IF HF) = (b', Delivered).
Proof.
  intros cmac key fi ci ch rsv s0 s1 s2 IF HF Hm Hs Hci Hch HbI HbH Ecalc Hfin Hmac.
  eapply as_delivers_authentic; eauto.
Qed.
Print Assumptions authentic_last_hop_delivers.

(** The AS at a segment change: authentic last hop of one segment (validated with that segment's
    chaining value) and authentic first hop of the next (validated with the SegID of the next
    info field as it stands): validated at ingress and egress, forwarded, both pointers moved. *)
Theorem authentic_crossover_forwards :
  forall (cmac : list N -> list N -> list N) (key : list N) (fi : bool) ci ch rsv s0 s1 s2 IF HF,
    meta_ok ci ch rsv s0 s1 s2 -> shaped s0 s1 s2 IF HF ->
    ci + 1 < N.of_nat (length IF) -> ch + 2 < N.of_nat (length HF) -> ch + 2 <= 63 ->
    Forall (fun f => bytes_ok f = true) IF -> Forall (fun f => bytes_ok f = true) HF ->
    calc_seg_idx_aux ch 0 0 [s0; s1; s2] = Some (ci, false, true) ->
    calc_seg_idx_aux (ch + 1) 0 0 [s0; s1; s2] = Some (ci + 1, true, false) ->
    mac_ok cmac key (beta_used ci ch IF HF fi) (if_ts (nth (N.to_nat ci) IF [])) (nth (N.to_nat ch) HF []) ->
    mac_ok cmac key (if_segid (nth (N.to_nat (ci + 1)) IF [])) (if_ts (nth (N.to_nat (ci + 1)) IF []))
           (nth (N.to_nat (ch + 1)) HF []) ->
    exists b' eg,
      process_at_as (hop_mac_validator cmac key) fi (assemble ci ch rsv s0 s1 s2 IF HF) = (b', Forwarded eg)
      /\ curr_hf b' = ch + 2 /\ curr_inf b' = ci + 1.
Proof.
  intros cmac key fi ci ch rsv s0 s1 s2 IF HF Hm Hs Hci Hch Hfit HbI HbH E0 E1 M0 M1.
  eapply as_crossover_authentic; eauto.
Qed.
Print Assumptions authentic_crossover_forwards.

(** Reversal at any position of a path with well-formed segment lengths keeps the chaining
    state: the same hop field is under the pointer, the info field under the pointer has the
    same SegID and timestamp with CONS_DIR negated, so the chaining value used on entry from
    inside the AS ([beta_used .. true]) is exactly the SegID carried before the reversal. *)
Theorem reversal_keeps_chaining_state :
  forall ci ch rsv s0 s1 s2 IF HF b',
    meta_ok ci ch rsv s0 s1 s2 -> shaped s0 s1 s2 IF HF ->
    Forall (fun f => bytes_ok f = true) IF ->
    N.of_nat (length IF) = rev_seg_count s1 s2 ->
    view_try_reverse (assemble ci ch rsv s0 s1 s2 IF HF) = (b', Ok tt) ->
    exists ci' ch' a c d,
      let IF' := rev (map toggle_cons_dir IF) in
      let HF' := rev HF in
      b' = assemble ci' ch' rsv a c d IF' HF' /\ meta_ok ci' ch' rsv a c d /\ shaped a c d IF' HF'
      /\ ci' < N.of_nat (length IF') /\ ch' < N.of_nat (length HF')
      /\ nth (N.to_nat ch') HF' [] = nth (N.to_nat ch) HF []
      /\ if_segid (nth (N.to_nat ci') IF' []) = if_segid (nth (N.to_nat ci) IF [])
      /\ if_ts (nth (N.to_nat ci') IF' []) = if_ts (nth (N.to_nat ci) IF [])
      /\ if_cons_dir (nth (N.to_nat ci') IF' []) = negb (if_cons_dir (nth (N.to_nat ci) IF []))
      /\ beta_used ci' ch' IF' HF' true = if_segid (nth (N.to_nat ci) IF []).
Proof. exact reverse_keeps_chaining_state. Qed.
Print Assumptions reversal_keeps_chaining_state.

(** non-vacuity: with the Gallina AES-128-CMAC, a two-hop construction-direction segment chained
    as the theorem requires is forwarded by its first AS and delivered at its second *)
From Sci Require Import Common.AesCmac StdPath.Examples.
Example ex_walk :
  view_ok ex_view = true
  /\ (let '(b1, r1) := process_at_as (hop_mac_validator aes_cmac ex_key1) true ex_view in
      r1 = Forwarded 5
      /\ snd (process_at_as (hop_mac_validator aes_cmac ex_key2) false b1) = Delivered
      /\ snd (process_at_as (hop_mac_validator aes_cmac ex_key1) false b1) = Rejected).
Proof. vm_compute. repeat split; reflexivity. Qed.
