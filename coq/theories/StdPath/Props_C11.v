(** C11 -- property theorems only.  Each is closed by short glue from lemmas of [Proofs*] and
    followed by [Print Assumptions].

    "Fails" is [Err] (DESIGN, C11): the advance functions have three outcomes, Err, Ok(Ok) and
    Ok(ValidationFailed); only Err promises an untouched path.  [view_ok b]: b is a byte string
    the view constructor accepts.  The validator is an arbitrary record of two functions; the
    MAC is an arbitrary function [cmac]. *)
From Sci Require Import StdPath.Model StdPath.ModelRouting StdPath.Spec StdPath.Proofs StdPath.ProofsRev
     StdPath.ProofsEnc StdPath.ProofsRouting.
From Sci Require StdPath.Bridge.
From Sci Require Import StdPath.ProofsWalk StdPath.ProofsWalkTop StdPath.ProofsOneHop.
Local Open Scope N_scope.

(** Err => the path bytes are exactly as they were: EVERY byte string, every validator, entry
    from inside and outside the AS. *)
Theorem advance_err_unchanged :
  forall (E : Type) (v : validator E) (from_internal : bool) (b b' : list N) (e : adv_err),
    (advance_ingress v from_internal b = (b', Err e) -> b' = b)
    /\ (advance_egress v b = (b', Err e) -> b' = b).
Proof.
  intros E v fi b b' e. split; [apply advance_ingress_err_unchanged|apply advance_egress_err_unchanged].
Qed.
Print Assumptions advance_err_unchanged.

(** Any other result (validated or ValidationFailed) changes at most: the SegID of the current
    info field, the flags byte of the current hop field, and the two pointers.  Stated on the
    decomposition of the view into meta header, info fields [IF] and hop fields [HF]. *)
Theorem validation_failed_changes_only :
  forall (E : Type) (v : validator E) (from_internal : bool) (b b' : list N),
    view_ok b = true ->
    ((exists r, advance_ingress v from_internal b = (b', Ok r)) \/ (exists r, advance_egress v b = (b', Ok r))) ->
    exists ci ch rsv s0 s1 s2 IF HF info1 hop1 ci' ch',
      b = assemble ci ch rsv s0 s1 s2 IF HF
      /\ b' = assemble ci' ch' rsv s0 s1 s2 (upd IF (N.to_nat ci) info1) (upd HF (N.to_nat ch) hop1)
      /\ info_segid_only (nth (N.to_nat ci) IF []) info1
      /\ hop_flags_only (nth (N.to_nat ch) HF []) hop1.
Proof.
  intros E v fi b b' Hv H.
  destruct (view_decompose b Hv) as (ci & ch & rsv & s0 & s1 & s2 & IF & HF & -> & Hm & Hs & _).
  exists ci, ch, rsv, s0, s1, s2, IF, HF.
  destruct H as [[r H]|[r H]].
  - destruct (advance_ingress_shape v fi _ _ _ _ _ _ _ _ _ _ Hm Hs H) as (info1 & hop1 & ci' & ch' & -> & _ & _ & _ & H1 & H2).
    exists info1, hop1, ci', ch'. auto.
  - destruct (advance_egress_shape v _ _ _ _ _ _ _ _ _ _ Hm Hs H) as (info1 & hop1 & -> & _ & _ & _ & _ & H1 & H2).
    exists info1, hop1, ci, (ch + 1). auto.
Qed.
Print Assumptions validation_failed_changes_only.

(** A non-Err egress moves CurrHF forward by exactly one, never to or past the hop count;
    a non-Err ingress leaves both pointers or, at a segment change, moves both forward by one. *)
Theorem forward_increases_curr_hf :
  forall (E : Type) (v : validator E) (from_internal : bool) (b b' : list N),
    view_ok b = true ->
    ((exists r, advance_egress v b = (b', Ok r)) ->
       curr_hf b' = curr_hf b + 1 /\ curr_hf b' < hop_count b /\ hop_count b' = hop_count b
       /\ curr_inf b' = curr_inf b)
    /\ ((exists r, advance_ingress v from_internal b = (b', Ok r)) ->
          hop_count b' = hop_count b
          /\ ((curr_hf b' = curr_hf b /\ curr_inf b' = curr_inf b)
              \/ (curr_hf b' = curr_hf b + 1 /\ curr_inf b' = curr_inf b + 1 /\ curr_hf b' < hop_count b
                  /\ exists st, calculate_segment_index b (curr_hf b) = Some (curr_inf b, st, true)))).
Proof.
  intros E v fi b b' Hv.
  destruct (view_decompose b Hv) as (ci & ch & rsv & s0 & s1 & s2 & IF & HF & -> & Hm & Hs & _).
  rewrite (asm_curr_hf _ _ _ _ _ _ _ _ Hm), (asm_curr_inf _ _ _ _ _ _ _ _ Hm).
  rewrite !(asm_hop_count_sum _ _ _ _ _ _ _ _ Hm).
  split; intros [r H].
  - destruct (advance_egress_shape v _ _ _ _ _ _ _ _ _ _ Hm Hs H) as (info1 & hop1 & -> & H1 & H2 & _).
    assert (Hm' : meta_ok ci (ch + 1) rsv s0 s1 s2) by (unfold meta_ok in *; lia).
    rewrite (asm_curr_hf _ _ _ _ _ _ _ _ Hm'), (asm_curr_inf _ _ _ _ _ _ _ _ Hm').
    rewrite (asm_hop_count_sum _ _ _ _ _ _ _ _ Hm').
    auto.
  - destruct (advance_ingress_shape v fi _ _ _ _ _ _ _ _ _ _ Hm Hs H) as (info1 & hop1 & ci' & ch' & -> & Hc & Hci & _).
    assert (Hm' : meta_ok ci' ch' rsv s0 s1 s2).
    { pose proof (sh_if_cnt _ _ _ _ _ Hs) as Hni.
      assert (N.of_nat (length IF) <= 3) by (unfold nz in Hni; destruct (s0 =? 0), (s1 =? 0), (s2 =? 0); lia).
      unfold meta_ok in *. destruct Hc as [[-> ->]|(-> & -> & ? & ? & ? & _)]; lia. }
    rewrite (asm_curr_hf _ _ _ _ _ _ _ _ Hm'), (asm_curr_inf _ _ _ _ _ _ _ _ Hm').
    rewrite (asm_hop_count_sum _ _ _ _ _ _ _ _ Hm').
    split; [reflexivity|].
    destruct Hc as [[-> ->]|(-> & -> & H1 & H2 & H3 & st & H4)]; [left; auto|right].
    refine (conj eq_refl (conj eq_refl (conj H1 _))). exists st.
    unfold calculate_segment_index. rewrite (asm_seg_lens _ _ _ _ _ _ _ _ Hm). exact H4.
Qed.
Print Assumptions forward_increases_curr_hf.

(** The 16-byte CMAC input block determines beta, timestamp, ExpTime, ConsIngress, ConsEgress. *)
Theorem mac_input_injective :
  forall beta ts e ci ce beta' ts' e' ci' ce',
    beta < 65536 -> ts < 4294967296 -> e < 256 -> ci < 65536 -> ce < 65536 ->
    beta' < 65536 -> ts' < 4294967296 -> e' < 256 -> ci' < 65536 -> ce' < 65536 ->
    mac_input beta ts e ci ce = mac_input beta' ts' e' ci' ce' ->
    beta = beta' /\ ts = ts' /\ e = e' /\ ci = ci' /\ ce = ce'.
Proof. exact mac_input_injective_lemma. Qed.
Print Assumptions mac_input_injective.

(** HopMacValidator accepts a hop field exactly when the carried MAC equals the first six
    bytes of the MAC of the input block built from the SegID and timestamp of the info field it
    is given and the hop's ExpTime/ConsIngress/ConsEgress -- for every MAC function. *)
Theorem accept_iff_mac_equal :
  forall (cmac : list N -> list N -> list N) (key hop info : list N) i st en,
    v_hop (hop_mac_validator cmac key) i hop info st en = None
    <-> hf_mac hop = firstn 6 (cmac key (mac_input (if_segid info) (if_ts info) (hf_exp hop)
                                                   (hf_cons_ingress hop) (hf_cons_egress hop))).
Proof. intros. apply hop_mac_check_none. Qed.
Print Assumptions accept_iff_mac_equal.

(** Tampering: if any authenticated field of the hop (ExpTime, ConsIngress, ConsEgress), its
    segment's timestamp, or the chaining value on arrival differs from the authentic one, the
    MAC input AT THE OWNING AS differs; with the instance premise that the MAC of the new block
    is not the carried MAC (unforgeability of this instance), the owning AS rejects. *)
Theorem tamper_changes_owner_input :
  forall (cmac : list N -> list N -> list N) (key hop info hop' info' : list N),
    bytes_ok hop = true -> bytes_ok info = true -> bytes_ok hop' = true -> bytes_ok info' = true ->
    length hop = 12%nat -> length info = 8%nat -> length hop' = 12%nat -> length info' = 8%nat ->
    (if_segid info, if_ts info, hf_exp hop, hf_cons_ingress hop, hf_cons_egress hop)
      <> (if_segid info', if_ts info', hf_exp hop', hf_cons_ingress hop', hf_cons_egress hop') ->
    let blk := mac_input (if_segid info) (if_ts info) (hf_exp hop) (hf_cons_ingress hop) (hf_cons_egress hop) in
    let blk' := mac_input (if_segid info') (if_ts info') (hf_exp hop') (hf_cons_ingress hop') (hf_cons_egress hop') in
    blk <> blk'
    /\ (hf_mac hop' <> firstn 6 (cmac key blk') ->
        forall i st en, v_hop (hop_mac_validator cmac key) i hop' info' st en <> None).
Proof.
  intros cmac key hop info hop' info' B1 B2 B3 B4 L1 L2 L3 L4 Hne blk blk'. split.
  - intros Heq. apply Hne. unfold blk, blk' in Heq.
    apply mac_input_injective_lemma in Heq as (-> & -> & -> & -> & ->); [reflexivity|..];
      try (apply field16_lt; assumption); try (apply field32_lt; assumption); try (apply byte_lt'; assumption).
  - intros Hmac i st en Hn. apply Hmac. apply (proj1 (hop_mac_check_none cmac key hop' info')). exact Hn.
Qed.
Print Assumptions tamper_changes_owner_input.

(** No modelled panic site (the two expect()s of the commit, unreachable!(), u8 overflow) is
    reachable on any accepted view, with any validator. *)
Theorem advance_no_panic :
  forall (E : Type) (v : validator E) (from_internal : bool) (b : list N),
    view_ok b = true ->
    is_panic (snd (advance_ingress v from_internal b)) = false
    /\ is_panic (snd (advance_egress v b)) = false.
Proof.
  intros E v fi b Hv. split; [apply advance_ingress_no_panic|apply advance_egress_no_panic]; exact Hv.
Qed.
Print Assumptions advance_no_panic.

(** One AS (ingress, then egress when the packet continues) that forwards moves CurrHF strictly
    forward and keeps it below the hop count; hence a run of ASes that all forward -- each with
    its own validator, entered from inside or outside -- is shorter than the number of hop
    fields left: a packet is processed at most as many times as it has hop fields. *)
Theorem processed_at_most_hop_count_times :
  forall (E : Type) (vs : list (validator E * bool)) (b b' : list N),
    view_ok b = true -> forwarded_through vs b = Some b' ->
    curr_hf b + N.of_nat (length vs) <= curr_hf b'
    /\ hop_count b' = hop_count b
    /\ (vs <> [] -> curr_hf b + N.of_nat (length vs) < hop_count b).
Proof.
  intros E vs b b' Hv H.
  destruct (forwarded_through_measure vs b b' Hv H) as (_ & H1 & H2 & H3).
  refine (conj H1 (conj H2 _)). intros Hne. specialize (H3 Hne). lia.
Qed.
Print Assumptions processed_at_most_hop_count_times.

(** A run of ASes inside ONE segment (a piece of the composed theorem below): a segment whose
    MACs are chained correctly in construction order ([cons_chain]) verifies hop after hop, in
    construction direction (1) and against it (2), the first AS entered from inside or outside,
    for every MAC function and every assignment of keys. *)
Theorem authentic_segment_run :
  forall (cmac : list N -> list N -> list N) (keys hops : list (list N)) (fi : bool)
         ci ch rsv s0 s1 s2 IF HF,
    meta_ok ci ch rsv s0 s1 s2 -> shaped s0 s1 s2 IF HF -> ci < N.of_nat (length IF) ->
    Forall (fun f => bytes_ok f = true) IF -> Forall (fun f => bytes_ok f = true) HF ->
    length hops = length keys ->
    ch + N.of_nat (length keys) < N.of_nat (length HF) -> ch + N.of_nat (length keys) <= 63 ->
    (forall i, (i < length keys)%nat ->
       exists st, calc_seg_idx_aux (ch + N.of_nat i) 0 0 [s0; s1; s2] = Some (ci, st, false)) ->
    let b := assemble ci ch rsv s0 s1 s2 IF HF in
    let info0 := nth (N.to_nat ci) IF [] in
    forall beta0, cons_chain cmac (if_ts info0) beta0 hops keys ->
    (* (1) construction direction *)
    (if_cons_dir info0 = true -> if_segid info0 = beta0 ->
     firstn (length keys) (skipn (N.to_nat ch) HF) = hops ->
     exists b', forwarded_through (run_of cmac fi keys) b = Some b' /\ curr_hf b' = ch + N.of_nat (length keys))
    (* (2) against construction direction *)
    /\ (if_cons_dir info0 = false ->
        beta_used ci ch IF HF fi = beta_after beta0 (removelast hops) ->
        firstn (length keys) (skipn (N.to_nat ch) HF) = rev hops ->
        exists b', forwarded_through (run_of cmac fi (rev keys)) b = Some b' /\ curr_hf b' = ch + N.of_nat (length keys)).
Proof.
  intros cmac keys hops fi ci ch rsv s0 s1 s2 IF HF Hm Hs Hci HbI HbH Hl Hlen Hfit Hint b info0 beta0 Hchain.
  split.
  - intros Hcd Hseg Hhops.
    apply (segment_walk cmac keys fi ci ch rsv s0 s1 s2 IF HF Hm Hs Hci HbI HbH Hlen Hfit Hint).
    fold info0. rewrite Hcd, Hhops. unfold beta_used. fold info0. rewrite Hcd, orb_true_r, Hseg.
    apply wire_chain_cons. exact Hchain.
  - intros Hcd Hbeta Hhops.
    rewrite <- (rev_length keys).
    apply (segment_walk cmac (rev keys) fi ci ch rsv s0 s1 s2 IF HF Hm Hs Hci HbI HbH);
      rewrite ?rev_length; auto.
    fold info0. rewrite Hcd, Hhops, Hbeta.
    apply wire_chain_against; assumption.
Qed.
Print Assumptions authentic_segment_run.

(** THE COMPOSED STATEMENT.  A path of one to three segments [L] (2..63 hop fields each, at
    most 64 in total), every segment chained in construction order from its own beta_0 with the
    keys of its ASes and carrying the SegID of its first hop on the wire ([segs_chained], any
    mix of construction directions), the two hop fields at every segment change belonging to
    one AS ([keys_cross]; regular crossovers and shortcuts alike: a shortcut segment is a
    chained sub-run from a later beta), positioned at its first hop:
    - walking it AS by AS -- ingress then egress at every on-path AS, the first one entered from
      inside, segment changes included -- every AS validates its hop field(s) and forwards, the
      last AS delivers locally; CurrHF goes up by one per AS (two at the AS of a segment change,
      which owns two hop fields) and ends at the last hop field;
    - the arrived bytes, reversed with try_reverse, are again such a path and are walked back
      the same way to local delivery at the origin.
    For every MAC function and every key assignment; by induction over the ASes of each run
    and over the segments ([ProofsWalk.walk_from]).
    PARTIAL only in this: PEERING hop fields (info flag P, MAC chained over the peer interface)
    are not covered -- routing.rs has no peering logic at all, such paths are not accepted by
    HopMacValidator (a finding of the Network area, C01/C13), so "every authentic path" is proved
    for non-peering paths. *)
Theorem authentic_verifies_both_directions_partial :
  forall (cmac : list N -> list N -> list N) (keyf : nat -> list N) (rsv s0 s1 s2 : N)
         (IF HF : list (list N)) (L : list nat),
    walk_hyps cmac keyf rsv s0 s1 s2 IF HF L ->
    both_directions_statement cmac keyf rsv s0 s1 s2 IF HF L.
Proof. exact walk_both_directions. Qed.
Print Assumptions authentic_verifies_both_directions_partial.

(** (3) the last hop of the path: an authentic hop field is validated and the packet is
    delivered locally, entered from inside or outside, in either direction. *)
Theorem authentic_last_hop_delivers :
  forall (cmac : list N -> list N -> list N) (key : list N) (fi : bool) ci ch rsv s0 s1 s2 IF HF,
    meta_ok ci ch rsv s0 s1 s2 -> shaped s0 s1 s2 IF HF ->
    ci < N.of_nat (length IF) -> ch < N.of_nat (length HF) ->
    Forall (fun f => bytes_ok f = true) IF -> Forall (fun f => bytes_ok f = true) HF ->
    calc_seg_idx_aux ch 0 0 [s0; s1; s2] = Some (ci, false, true) ->
    N.of_nat (length HF) <= ch + 1 ->
    mac_ok cmac key (beta_used ci ch IF HF fi) (if_ts (nth (N.to_nat ci) IF [])) (nth (N.to_nat ch) HF []) ->
    exists b', process_at_as (hop_mac_validator cmac key) fi (assemble ci ch rsv s0 s1 s2 IF HF) = (b', Delivered).
Proof.
  intros cmac key fi ci ch rsv s0 s1 s2 IF HF Hm Hs Hci Hch HbI HbH Ecalc Hfin Hmac.
  eapply as_delivers_authentic; eauto.
Qed.
Print Assumptions authentic_last_hop_delivers.

(** The AS at a segment change: authentic last hop of one segment (validated with that segment's
    chaining value) and authentic first hop of the next (validated with the SegID of the next
    info field as it stands): validated at ingress and egress, forwarded, both pointers moved. *)
Theorem authentic_crossover_forwards :
  forall (cmac : list N -> list N -> list N) (key : list N) (fi : bool) ci ch rsv s0 s1 s2 IF HF,
    meta_ok ci ch rsv s0 s1 s2 -> shaped s0 s1 s2 IF HF ->
    ci + 1 < N.of_nat (length IF) -> ch + 2 < N.of_nat (length HF) -> ch + 2 <= 63 ->
    Forall (fun f => bytes_ok f = true) IF -> Forall (fun f => bytes_ok f = true) HF ->
    calc_seg_idx_aux ch 0 0 [s0; s1; s2] = Some (ci, false, true) ->
    calc_seg_idx_aux (ch + 1) 0 0 [s0; s1; s2] = Some (ci + 1, true, false) ->
    mac_ok cmac key (beta_used ci ch IF HF fi) (if_ts (nth (N.to_nat ci) IF [])) (nth (N.to_nat ch) HF []) ->
    mac_ok cmac key (if_segid (nth (N.to_nat (ci + 1)) IF [])) (if_ts (nth (N.to_nat (ci + 1)) IF []))
           (nth (N.to_nat (ch + 1)) HF []) ->
    exists b' eg,
      process_at_as (hop_mac_validator cmac key) fi (assemble ci ch rsv s0 s1 s2 IF HF) = (b', Forwarded eg)
      /\ curr_hf b' = ch + 2 /\ curr_inf b' = ci + 1.
Proof.
  intros cmac key fi ci ch rsv s0 s1 s2 IF HF Hm Hs Hci Hch Hfit HbI HbH E0 E1 M0 M1.
  eapply as_crossover_authentic; eauto.
Qed.
Print Assumptions authentic_crossover_forwards.

(** Reversal at any position of a path with well-formed segment lengths keeps the chaining
    state: the same hop field is under the pointer, the info field under the pointer has the
    same SegID and timestamp with CONS_DIR negated, so the chaining value used on entry from
    inside the AS ([beta_used .. true]) is exactly the SegID carried before the reversal. *)
Theorem reversal_keeps_chaining_state :
  forall ci ch rsv s0 s1 s2 IF HF b',
    meta_ok ci ch rsv s0 s1 s2 -> shaped s0 s1 s2 IF HF ->
    Forall (fun f => bytes_ok f = true) IF ->
    N.of_nat (length IF) = rev_seg_count s1 s2 ->
    view_try_reverse (assemble ci ch rsv s0 s1 s2 IF HF) = (b', Ok tt) ->
    exists ci' ch' a c d,
      let IF' := rev (map toggle_cons_dir IF) in
      let HF' := rev HF in
      b' = assemble ci' ch' rsv a c d IF' HF' /\ meta_ok ci' ch' rsv a c d /\ shaped a c d IF' HF'
      /\ ci' < N.of_nat (length IF') /\ ch' < N.of_nat (length HF')
      /\ nth (N.to_nat ch') HF' [] = nth (N.to_nat ch) HF []
      /\ if_segid (nth (N.to_nat ci') IF' []) = if_segid (nth (N.to_nat ci) IF [])
      /\ if_ts (nth (N.to_nat ci') IF' []) = if_ts (nth (N.to_nat ci) IF [])
      /\ if_cons_dir (nth (N.to_nat ci') IF' []) = negb (if_cons_dir (nth (N.to_nat ci) IF []))
      /\ beta_used ci' ch' IF' HF' true = if_segid (nth (N.to_nat ci) IF []).
Proof. exact reverse_keeps_chaining_state. Qed.
Print Assumptions reversal_keeps_chaining_state.

(** BRIDGE to the structural router model of the Network area (C13/C01): on every byte string
    accepted by the view constructor whose decoding [Bridge.dec_path] is a well-formed structural
    path, the byte-level advance functions -- run with pocketscion's
    StandardValidator seen through the decoding ([Bridge.bridge_val_ingress/egress]) -- and the
    structural [sdk_advance_ingress]/[sdk_advance_egress] of Network/Model.v agree: both Err,
    or both Ok with the same alert flag, interface(s), action and validation verdict, and the
    decoding of the bytes afterwards is the structural path afterwards ([Bridge.rel_ingress],
    [Bridge.rel_egress]).  For every MAC function, topology, key, time and interface.
    (Building this bridge exposed that the structural model lacked the CurrHF-fit guard of
    routing.rs; it has since been added there and no bound on the hop count is needed.) *)
Theorem byte_advance_refines_structural :
  forall (key : Type) (mac : key -> N -> N -> N -> N -> N -> N) (t : Bridge.NM.topology key)
         (ia : N) (K : key) (now cur_if eg_if : N) (b : list N),
    view_ok b = true -> Bridge.NM.wf_path (Bridge.dec_path b) = true ->
    Bridge.rel_ingress
      (advance_ingress (Bridge.bridge_val_ingress mac t ia K now cur_if (curr_hf b)) (cur_if =? 0) b)
      (Bridge.NM.sdk_advance_ingress mac t ia K now cur_if (Bridge.dec_path b))
    /\ Bridge.rel_egress
         (advance_egress (Bridge.bridge_val_egress mac K now eg_if) b)
         (Bridge.NM.sdk_advance_egress mac K now eg_if (Bridge.dec_path b)).
Proof.
  intros. split; [apply Bridge.bridge_ingress|apply Bridge.bridge_egress]; assumption.
Qed.
Print Assumptions byte_advance_refines_structural.

(** One-hop paths: the second hop field that [set_second_hop] builds -- on the model, and on the
    view, whose result is the encoding of the model's ([Props_C12.onehop_set_second_hop_agrees]) --
    authenticates at the second AS: HopMacValidator with the key of the second AS accepts it
    under the chaining value after hop 1, with the ExpTime as finally stored (= that of hop 1).
    For every MAC function whose output has the six bytes that are kept. *)
Theorem onehop_second_hop_authentic :
  forall (cmac : list N -> list N -> list N) (p : onehop) (ingress : N) (key : list N) (advanced : bool),
    onehop_typed p = true -> ingress < 65536 ->
    let beta := if advanced then i_segid (o_info p) else mac_beta_step (i_segid (o_info p)) (h_mac (o_hop1 p)) in
    let blk := mac_input beta (i_ts (o_info p)) (h_exp (o_hop1 p)) ingress 0 in
    (6 <= length (cmac key blk))%nat -> bytes_ok (cmac key blk) = true ->
    let p' := oh_model_set_second_hop cmac p ingress key advanced in
    h_exp (o_hop2 p') = h_exp (o_hop1 p)
    /\ forall i st en,
         v_hop (hop_mac_validator cmac key) i (enc_hop (o_hop2 p'))
               (enc_info (mkInfo (i_flags (o_info p)) beta (i_ts (o_info p)))) st en = None.
Proof.
  intros cmac p ingress key advanced Ht Hin beta blk Hl Hb p'. split; [reflexivity|].
  apply (oh_second_hop_authentic cmac p Ht ingress key advanced Hin Hl Hb).
Qed.
Print Assumptions onehop_second_hop_authentic.

(** non-vacuity: with the Gallina AES-128-CMAC, a two-hop construction-direction segment chained
    as the theorem requires is forwarded by its first AS and delivered at its second *)
From Sci Require Import Common.AesCmac StdPath.Examples.
Example ex_walk :
  view_ok ex_view = true
  /\ (let '(b1, r1) := process_at_as (hop_mac_validator aes_cmac ex_key1) true ex_view in
      r1 = Forwarded 5
      /\ snd (process_at_as (hop_mac_validator aes_cmac ex_key2) false b1) = Delivered
      /\ snd (process_at_as (hop_mac_validator aes_cmac ex_key1) false b1) = Rejected).
Proof. vm_compute. repeat split; reflexivity. Qed.

(** non-vacuity of the composed theorem: a concrete two-segment path (first segment against,
    second in construction direction, AES-128-CMAC) meets its hypotheses *)
Example ex_walk2_hyps : walk_hyps aes_cmac ex_keyf 0 2 2 0 ex2_IF ex2_HF [2; 2]%nat.
Proof.
  unfold walk_hyps.
  refine (conj eq_refl (conj _ (conj _ (conj _ (conj _ (conj _ (conj _ (conj _ _)))))))).
  - cbn. lia.
  - cbn. lia.
  - reflexivity.
  - constructor; [repeat constructor| repeat constructor | reflexivity | reflexivity].
  - repeat constructor.
  - repeat constructor.
  - intros i Hi. destruct i as [|[|i]]; [| |cbn in Hi; lia].
    + split; [cbn; lia|]. cbv zeta. unfold seg_chained.
      refine (conj eq_refl (conj _ (ex_intro _ 200 (conj _ _)))); [vm_compute; discriminate| |vm_compute; reflexivity].
      vm_compute. repeat split; reflexivity.
    + split; [cbn; lia|]. cbv zeta. unfold seg_chained.
      refine (conj eq_refl (conj _ (ex_intro _ 100 (conj _ _)))); [vm_compute; discriminate| |vm_compute; reflexivity].
      vm_compute. repeat split; reflexivity.
  - intros i Hi. destruct i as [|i]; [reflexivity|cbn in Hi; lia].
Qed.
Example ex_walk2 : both_directions_statement aes_cmac ex_keyf 0 2 2 0 ex2_IF ex2_HF [2; 2]%nat.
Proof. exact (authentic_verifies_both_directions_partial _ _ _ _ _ _ _ _ _ ex_walk2_hyps). Qed.

(** non-vacuity of the bridge: the decoding of that path is a well-formed structural path *)
Example ex_bridge_wf :
  view_ok (assemble 0 0 0 2 2 0 ex2_IF ex2_HF) = true
  /\ Bridge.NM.wf_path (Bridge.dec_path (assemble 0 0 0 2 2 0 ex2_IF ex2_HF)) = true.
Proof. vm_compute. split; reflexivity. Qed.
