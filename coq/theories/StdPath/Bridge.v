(** Bridge between the byte-level routing model of this area (ModelRouting: what the
    correspondence check validates against the real sciparse code) and the STRUCTURAL router
    model of the Network area (Network/Model.v: [sdk_advance_ingress] / [sdk_advance_egress],
    on which the C13/C01 router theorems are stated).

    [dec_path] decodes a byte string into the Network-style structural path; the pocketscion
    StandardValidator of the Network model is seen from the byte level as a validator record
    whose functions decode their arguments ([bridge_val_*]).  The theorems say that on every
    byte string accepted by the view constructor whose decoding is [wf_path] the byte-level advance and
    the structural advance give the same verdict and the decoded result is the structural
    result. *)
From Coq Require Import Lia ZifyBool ZifyNat ZifyN.
From Sci Require Import Common.ListAux StdPath.Model StdPath.ModelRouting StdPath.Proofs StdPath.ProofsRev
     StdPath.ProofsEnc StdPath.ProofsRouting.
From Sci Require Network.Model.
Module NM := Sci.Network.Model.
Local Open Scope N_scope.
Ltac Zify.zify_post_hook ::= Z.div_mod_to_equations.
Arguments N.add : simpl never. Arguments N.sub : simpl never. Arguments N.mul : simpl never.
Arguments N.div : simpl never. Arguments N.modulo : simpl never. Arguments N.eqb : simpl never.
Arguments N.ltb : simpl never. Arguments N.leb : simpl never. Arguments N.lxor : simpl never.
Arguments N.min : simpl never. Arguments N.testbit : simpl never. Arguments N.ldiff : simpl never.

(** * decoding *)
Definition dec_infof (f : list N) : NM.infof :=
  NM.mkInfo (N.testbit (if_flags f) 1) (N.testbit (if_flags f) 0) (if_segid f) (if_ts f).
Definition dec_hopf (f : list N) : NM.hopf :=
  NM.mkHop (N.testbit (hf_flags f) 1) (N.testbit (hf_flags f) 0) (hf_exp f)
           (hf_cons_ingress f) (hf_cons_egress f) (be_val 0 (hf_mac f)).
(** the segment lengths without the unused (zero) trailing entries *)
Definition dec_lens (s0 s1 s2 : N) : list nat :=
  if s2 =? 0 then (if s1 =? 0 then (if s0 =? 0 then [] else [N.to_nat s0]) else [N.to_nat s0; N.to_nat s1])
  else [N.to_nat s0; N.to_nat s1; N.to_nat s2].
Definition dec_path (b : list N) : NM.path :=
  NM.mkPath (N.to_nat (curr_inf b)) (N.to_nat (curr_hf b))
            (dec_lens (seg0_len b) (seg1_len b) (seg2_len b))
            (map dec_infof (info_fields b)) (map dec_hopf (hop_fields b)).

Lemma dec_path_assembled ci ch rsv s0 s1 s2 IF HF :
  meta_ok ci ch rsv s0 s1 s2 -> shaped s0 s1 s2 IF HF ->
  dec_path (assemble ci ch rsv s0 s1 s2 IF HF)
  = NM.mkPath (N.to_nat ci) (N.to_nat ch) (dec_lens s0 s1 s2) (map dec_infof IF) (map dec_hopf HF).
Proof.
  intros Hm Hs. unfold dec_path.
  now rewrite (asm_curr_inf _ _ _ _ _ _ _ _ Hm), (asm_curr_hf _ _ _ _ _ _ _ _ Hm),
    (asm_seg0 _ _ _ _ _ _ _ _ Hm), (asm_seg1 _ _ _ _ _ _ _ _ Hm), (asm_seg2 _ _ _ _ _ _ _ _ Hm),
    (asm_info_fields _ _ _ _ _ _ _ _ Hm Hs), (asm_hop_fields _ _ _ _ _ _ _ _ Hm Hs).
Qed.

(** well-formed segment lengths: non-empty segments first *)
Definition lens_wf (s0 s1 s2 : N) : Prop := s0 <> 0 /\ (s1 = 0 -> s2 = 0).

Lemma wf_path_lens ci ch rsv s0 s1 s2 IF HF :
  meta_ok ci ch rsv s0 s1 s2 -> shaped s0 s1 s2 IF HF ->
  NM.wf_path (dec_path (assemble ci ch rsv s0 s1 s2 IF HF)) = true -> lens_wf s0 s1 s2.
Proof.
  intros Hm Hs. rewrite (dec_path_assembled _ _ _ _ _ _ _ _ Hm Hs). unfold NM.wf_path, lens_wf, dec_lens.
  cbn [NM.p_lens NM.p_infos NM.p_hops]. rewrite !map_length.
  pose proof (sh_if_cnt _ _ _ _ _ Hs) as Hn. unfold nz in Hn.
  destruct (s2 =? 0) eqn:E2; destruct (s1 =? 0) eqn:E1; destruct (s0 =? 0) eqn:E0;
    cbn [length forallb fold_right]; rewrite ?andb_true_iff; intros H; split; try lia;
    repeat match goal with H : _ /\ _ |- _ => destruct H end; try lia.
Qed.

Lemma seg_index_bridge s0 s1 s2 ch :
  lens_wf s0 s1 s2 ->
  NM.seg_index (dec_lens s0 s1 s2) (N.to_nat ch)
  = option_map (fun '(i, st, en) => (N.to_nat i, st, en)) (calc_seg_idx_aux ch 0 0 [s0; s1; s2]).
Proof.
  intros [H0 H1]. unfold NM.seg_index, dec_lens. cbn [calc_seg_idx_aux].
  assert (Hb : forall (x y : N) (i j : nat), (x = y <-> i = j) -> (x =? y) = (i =? j)%nat).
  { intros x y i j H. apply eq_true_iff_eq. rewrite N.eqb_eq, Nat.eqb_eq. exact H. }
  assert (Hl : forall (x y : N) (i j : nat), (x < y <-> (i < j)%nat) -> (x <? y) = (i <? j)%nat).
  { intros x y i j H. apply eq_true_iff_eq. rewrite N.ltb_lt, Nat.ltb_lt. exact H. }
  assert (E0 : (s0 =? 0) = false) by lia. rewrite E0.
  destruct (s2 =? 0) eqn:E2; [destruct (s1 =? 0) eqn:E1|]; cbn [NM.seg_index_aux].
  - assert (s1 = 0) by lia. assert (s2 = 0) by lia. subst s1 s2.
    rewrite (Hl ch (0 + s0) (N.to_nat ch) (0 + N.to_nat s0)%nat ltac:(lia)).
    destruct (N.to_nat ch <? 0 + N.to_nat s0)%nat eqn:F0; cbn [option_map].
    + rewrite (Hb ch 0 (N.to_nat ch) 0%nat ltac:(lia)), (Hb (ch + 1) (0 + s0) (S (N.to_nat ch)) (0 + N.to_nat s0)%nat ltac:(lia)). reflexivity.
    + destruct (ch <? 0 + s0 + 0) eqn:G1; [lia|]. destruct (ch <? 0 + s0 + 0 + 0) eqn:G2; [lia|]. reflexivity.
  - assert (s2 = 0) by lia. subst s2.
    rewrite (Hl ch (0 + s0) (N.to_nat ch) (0 + N.to_nat s0)%nat ltac:(lia)).
    destruct (N.to_nat ch <? 0 + N.to_nat s0)%nat eqn:F0; cbn [option_map].
    + rewrite (Hb ch 0 (N.to_nat ch) 0%nat ltac:(lia)), (Hb (ch + 1) (0 + s0) (S (N.to_nat ch)) (0 + N.to_nat s0)%nat ltac:(lia)). reflexivity.
    + rewrite (Hl ch (0 + s0 + s1) (N.to_nat ch) (0 + N.to_nat s0 + N.to_nat s1)%nat ltac:(lia)).
      destruct (N.to_nat ch <? 0 + N.to_nat s0 + N.to_nat s1)%nat eqn:F1; cbn [option_map].
      * rewrite (Hb ch (0 + s0) (N.to_nat ch) (0 + N.to_nat s0)%nat ltac:(lia)),
                (Hb (ch + 1) (0 + s0 + s1) (S (N.to_nat ch)) (0 + N.to_nat s0 + N.to_nat s1)%nat ltac:(lia)). reflexivity.
      * destruct (ch <? 0 + s0 + s1 + 0) eqn:G2; [lia|]. reflexivity.
  - rewrite (Hl ch (0 + s0) (N.to_nat ch) (0 + N.to_nat s0)%nat ltac:(lia)).
    destruct (N.to_nat ch <? 0 + N.to_nat s0)%nat eqn:F0; cbn [option_map].
    + rewrite (Hb ch 0 (N.to_nat ch) 0%nat ltac:(lia)), (Hb (ch + 1) (0 + s0) (S (N.to_nat ch)) (0 + N.to_nat s0)%nat ltac:(lia)). reflexivity.
    + rewrite (Hl ch (0 + s0 + s1) (N.to_nat ch) (0 + N.to_nat s0 + N.to_nat s1)%nat ltac:(lia)).
      destruct (N.to_nat ch <? 0 + N.to_nat s0 + N.to_nat s1)%nat eqn:F1; cbn [option_map].
      * rewrite (Hb ch (0 + s0) (N.to_nat ch) (0 + N.to_nat s0)%nat ltac:(lia)),
                (Hb (ch + 1) (0 + s0 + s1) (S (N.to_nat ch)) (0 + N.to_nat s0 + N.to_nat s1)%nat ltac:(lia)). reflexivity.
      * rewrite (Hl ch (0 + s0 + s1 + s2) (N.to_nat ch) (0 + N.to_nat s0 + N.to_nat s1 + N.to_nat s2)%nat ltac:(lia)).
        destruct (N.to_nat ch <? 0 + N.to_nat s0 + N.to_nat s1 + N.to_nat s2)%nat eqn:F2; cbn [option_map]; [|reflexivity].
        rewrite (Hb ch (0 + s0 + s1) (N.to_nat ch) (0 + N.to_nat s0 + N.to_nat s1)%nat ltac:(lia)),
                (Hb (ch + 1) (0 + s0 + s1 + s2) (S (N.to_nat ch)) (0 + N.to_nat s0 + N.to_nat s1 + N.to_nat s2)%nat ltac:(lia)). reflexivity.
Qed.

(** * small facts *)
Lemma nat_eqb_N a c : (N.to_nat a =? N.to_nat c)%nat = (a =? c).
Proof. apply eq_true_iff_eq. rewrite Nat.eqb_eq, N.eqb_eq. lia. Qed.

Lemma nth_error_map_some {A B} (f : A -> B) l (d : A) i :
  (i < length l)%nat -> nth_error (map f l) i = Some (f (nth i l d)).
Proof. intros H. rewrite nth_error_map, (nth_error_nth' l i d H). reflexivity. Qed.
Lemma nth_error_map_none {A B} (f : A -> B) l i :
  (length l <= i)%nat -> nth_error (map f l) i = None.
Proof. intros H. apply nth_error_None. now rewrite map_length. Qed.

Lemma nm_upd_map {A B} (f : A -> B) l i x :
  (i < length l)%nat -> NM.upd (map f l) i (f x) = map f (upd l i x).
Proof.
  revert i. induction l as [|y l IH]; intros i H; cbn [length] in H; [lia|].
  destruct i as [|i].
  - reflexivity.
  - unfold NM.upd, upd in *. cbn [map skipn firstn app]. specialize (IH i ltac:(lia)).
    destruct (skipn i (map f l)) as [|z r] eqn:E.
    + exfalso. apply (f_equal (@length _)) in E. rewrite skipn_length, map_length in E. cbn in E. lia.
    + cbn [app]. f_equal. exact IH.
Qed.

Lemma bit_mod256 a m : m < 8 -> N.testbit (a mod 256) m = N.testbit a m.
Proof. intros H. change 256 with (2 ^ 8). now apply N.mod_pow2_bits_low. Qed.

(** first two MAC bytes of the 48-bit MAC number *)
Lemma beta_step_bridge segid (hop : list N) :
  length hop = 12%nat -> bytes_ok hop = true ->
  NM.beta_step segid (be_val 0 (hf_mac hop)) = mac_beta_step segid (hf_mac hop).
Proof.
  intros Hl Hb. unfold NM.beta_step, mac_beta_step. f_equal.
  do 12 (destruct hop as [|? hop]; [discriminate|]). destruct hop; [|discriminate].
  unfold bytes_ok in Hb. cbn [forallb] in Hb. unfold byte_ok in Hb. rewrite !andb_true_iff in Hb.
  unfold hf_mac, get_range. cbn [skipn firstn be_val]. lia.
Qed.

Lemma dec_hopf_cons x r :
  dec_hopf (x :: r) = NM.mkHop (N.testbit x 1) (N.testbit x 0) (hf_exp (x :: r)) (hf_cons_ingress (x :: r))
                               (hf_cons_egress (x :: r)) (be_val 0 (hf_mac (x :: r))).
Proof. reflexivity. Qed.

Lemma dec_set_flags hop v :
  length hop = 12%nat ->
  dec_hopf (hf_set_flags hop v)
  = NM.mkHop (N.testbit v 1) (N.testbit v 0) (NM.h_exp (dec_hopf hop)) (NM.h_in (dec_hopf hop))
             (NM.h_eg (dec_hopf hop)) (NM.h_mac (dec_hopf hop)).
Proof.
  intros Hl. destruct hop as [|x r]; [discriminate|].
  unfold hf_set_flags, set_byte, set_range. cbn [firstn skipn app length Nat.add].
  rewrite !dec_hopf_cons. cbn [NM.h_exp NM.h_in NM.h_eg NM.h_mac].
  rewrite !bit_mod256 by lia. reflexivity.
Qed.

Lemma dec_set_segid info v :
  length info = 8%nat -> v < 65536 ->
  dec_infof (if_set_segid info v) = NM.set_segid (dec_infof info) v.
Proof.
  intros Hl Hv. destruct (info_segid_only_fields _ _ Hl (if_set_segid_only info v Hl)) as (Ef & Et & _).
  unfold dec_infof, NM.set_segid. cbn [NM.i_peer NM.i_cons NM.i_ts]. rewrite Ef, Et, (if_segid_set _ _ Hl Hv). reflexivity.
Qed.

Lemma sigma_lt hop : bytes_ok hop = true -> be_val 0 (firstn 2 (hf_mac hop)) < 65536.
Proof.
  intros Hb. apply (N.lt_le_trans _ (256 ^ N.of_nat (length (firstn 2 (hf_mac hop))))).
  - apply be_val_lt. unfold hf_mac, get_range, bytes_ok in *. apply forallb_forall. intros x Hx.
    apply In_firstn' in Hx. apply In_firstn' in Hx. apply In_skipn' in Hx. rewrite forallb_forall in Hb. auto.
  - change 65536 with (256 ^ 2). apply N.pow_le_mono_r; [lia|]. rewrite firstn_length. lia.
Qed.

Section FieldBridge.
Variables info hop : list N.
Hypothesis Hli : length info = 8%nat.
Hypothesis Hlh : length hop = 12%nat.
Hypothesis Hbi : bytes_ok info = true.
Hypothesis Hbh : bytes_ok hop = true.
Let inf := dec_infof info.
Let h := dec_hopf hop.

Lemma step_lt : mac_beta_step (if_segid info) (hf_mac hop) < 65536.
Proof.
  unfold mac_beta_step. apply (lxor_lt_pow2 _ _ 16); [apply field16_lt; exact Hbi|apply sigma_lt; exact Hbh].
Qed.

Lemma dec_ing_info fi :
  dec_infof (ing_info fi info hop)
  = if negb fi && negb (NM.i_cons inf) then NM.set_segid inf (NM.beta_step (NM.i_segid inf) (NM.h_mac h)) else inf.
Proof.
  unfold ing_info, if_cons_dir. subst inf h. cbn [NM.i_cons NM.i_segid NM.h_mac dec_infof dec_hopf].
  destruct (negb fi && negb (N.testbit (if_flags info) 0)); [|reflexivity].
  rewrite (dec_set_segid _ _ Hli step_lt), (beta_step_bridge _ _ Hlh Hbh). reflexivity.
Qed.

Lemma dec_eg_info :
  dec_infof (eg_info info hop)
  = if NM.i_cons inf then NM.set_segid inf (NM.beta_step (NM.i_segid inf) (NM.h_mac h)) else inf.
Proof.
  unfold eg_info, if_cons_dir. subst inf h. cbn [NM.i_cons NM.i_segid NM.h_mac dec_infof dec_hopf].
  destruct (N.testbit (if_flags info) 0); [|reflexivity].
  rewrite (dec_set_segid _ _ Hli step_lt), (beta_step_bridge _ _ Hlh Hbh). reflexivity.
Qed.

Lemma dec_ing_hop fi :
  dec_hopf (ing_hop fi info hop)
  = let alert := if NM.i_cons inf then NM.h_ain h else NM.h_aeg h in
    if negb fi && alert then (if NM.i_cons inf then NM.set_ain h false else NM.set_aeg h false) else h.
Proof.
  unfold ing_hop, if_cons_dir. subst inf h. cbn [NM.i_cons NM.h_ain NM.h_aeg dec_infof dec_hopf]. cbv zeta.
  destruct (N.testbit (if_flags info) 0) eqn:Ec.
  - destruct (negb fi && N.testbit (hf_flags hop) 1); [|reflexivity].
    rewrite (dec_set_flags _ _ Hlh). unfold NM.set_ain. cbn [NM.h_aeg NM.h_exp NM.h_in NM.h_eg NM.h_mac dec_hopf].
    rewrite !N.ldiff_spec. change FLAG_CONS_INGRESS_ROUTER_ALERT with 2.
    change (N.testbit 2 1) with true. change (N.testbit 2 0) with false.
    now rewrite andb_false_r, andb_true_r.
  - destruct (negb fi && N.testbit (hf_flags hop) 0); [|reflexivity].
    rewrite (dec_set_flags _ _ Hlh). unfold NM.set_aeg. cbn [NM.h_ain NM.h_exp NM.h_in NM.h_eg NM.h_mac dec_hopf].
    rewrite !N.ldiff_spec. change FLAG_CONS_EGRESS_ROUTER_ALERT with 1.
    change (N.testbit 1 1) with false. change (N.testbit 1 0) with true.
    now rewrite andb_false_r, andb_true_r.
Qed.

Lemma dec_eg_hop :
  dec_hopf (eg_hop info hop)
  = let alert := if NM.i_cons inf then NM.h_aeg h else NM.h_ain h in
    if alert then (if NM.i_cons inf then NM.set_aeg h false else NM.set_ain h false) else h.
Proof.
  unfold eg_hop, if_cons_dir. subst inf h. cbn [NM.i_cons NM.h_ain NM.h_aeg dec_infof dec_hopf]. cbv zeta.
  destruct (N.testbit (if_flags info) 0) eqn:Ec.
  - destruct (N.testbit (hf_flags hop) 0); [|reflexivity].
    rewrite (dec_set_flags _ _ Hlh). unfold NM.set_aeg. cbn [NM.h_ain NM.h_exp NM.h_in NM.h_eg NM.h_mac dec_hopf].
    rewrite !N.ldiff_spec. change FLAG_CONS_EGRESS_ROUTER_ALERT with 1.
    change (N.testbit 1 1) with false. change (N.testbit 1 0) with true.
    now rewrite andb_false_r, andb_true_r.
  - destruct (N.testbit (hf_flags hop) 1); [|reflexivity].
    rewrite (dec_set_flags _ _ Hlh). unfold NM.set_ain. cbn [NM.h_aeg NM.h_exp NM.h_in NM.h_eg NM.h_mac dec_hopf].
    rewrite !N.ldiff_spec. change FLAG_CONS_INGRESS_ROUTER_ALERT with 2.
    change (N.testbit 2 1) with true. change (N.testbit 2 0) with false.
    now rewrite andb_false_r, andb_true_r.
Qed.

Lemma dec_ifaces info' hop' :
  hf_ingress_if hop' info' = NM.hop_ingress (dec_hopf hop') (dec_infof info')
  /\ hf_egress_if hop' info' = NM.hop_egress (dec_hopf hop') (dec_infof info').
Proof. split; reflexivity. Qed.
End FieldBridge.

(** * the bridge *)
Lemma fit_bridge ch : (63 <? S (N.to_nat ch))%nat = (63 <? ch + 1).
Proof. apply eq_true_iff_eq. rewrite Nat.ltb_lt, N.ltb_lt. lia. Qed.

Lemma nth_error_map_N {A B} (f : A -> B) (l : list A) (d : A) (i : N) :
  nth_error (map f l) (N.to_nat i) = if N.of_nat (length l) <=? i then None else Some (f (nth (N.to_nat i) l d)).
Proof.
  destruct (N.of_nat (length l) <=? i) eqn:E.
  - apply nth_error_map_none. lia.
  - apply nth_error_map_some. lia.
Qed.

Lemma hop_field_asm ci ch rsv s0 s1 s2 IF HF j :
  meta_ok ci ch rsv s0 s1 s2 -> shaped s0 s1 s2 IF HF ->
  hop_field (assemble ci ch rsv s0 s1 s2 IF HF) j
  = if N.of_nat (length HF) <=? j then None else Some (nth (N.to_nat j) HF []).
Proof.
  intros Hm Hs. destruct (N.of_nat (length HF) <=? j) eqn:E.
  - unfold hop_field. now rewrite (asm_hop_count _ _ _ _ _ _ _ _ Hm Hs), E.
  - apply (asm_hop_field _ _ _ _ _ _ _ _ Hm Hs). lia.
Qed.
Lemma info_field_asm ci ch rsv s0 s1 s2 IF HF i :
  meta_ok ci ch rsv s0 s1 s2 -> shaped s0 s1 s2 IF HF ->
  info_field (assemble ci ch rsv s0 s1 s2 IF HF) i
  = if N.of_nat (length IF) <=? i then None else Some (nth (N.to_nat i) IF []).
Proof.
  intros Hm Hs. destruct (N.of_nat (length IF) <=? i) eqn:E.
  - unfold info_field. now rewrite (asm_info_count _ _ _ _ _ _ _ _ Hm Hs), E.
  - apply (asm_info_field _ _ _ _ _ _ _ _ Hm Hs). lia.
Qed.

Lemma dec_commit ci' ch' rsv s0 s1 s2 IF HF i j x y :
  meta_ok ci' ch' rsv s0 s1 s2 -> shaped s0 s1 s2 IF HF ->
  i < N.of_nat (length IF) -> j < N.of_nat (length HF) -> length x = 8%nat -> length y = 12%nat ->
  dec_path (assemble ci' ch' rsv s0 s1 s2 (upd IF (N.to_nat i) x) (upd HF (N.to_nat j) y))
  = NM.mkPath (N.to_nat ci') (N.to_nat ch') (dec_lens s0 s1 s2)
              (NM.upd (map dec_infof IF) (N.to_nat i) (dec_infof x))
              (NM.upd (map dec_hopf HF) (N.to_nat j) (dec_hopf y)).
Proof.
  intros Hm Hs Hi Hj Hx Hy.
  assert (Hi' : (N.to_nat i < length IF)%nat) by lia. assert (Hj' : (N.to_nat j < length HF)%nat) by lia.
  rewrite (dec_path_assembled _ _ _ _ _ _ _ _ Hm (shaped_upd _ _ _ _ _ _ _ _ _ Hs Hi' Hj' Hx Hy)).
  rewrite !nm_upd_map by assumption. reflexivity.
Qed.

Lemma or_else_bridge {E} (a c : option E) : or_else a c = NM.or_else a c.
Proof. destruct a; reflexivity. Qed.

Section Bridge.
Context {key : Type}.
Variable mac : key -> N -> N -> N -> N -> N -> N.
Variable t : NM.topology key.
Variables (ia : N) (K : key) (now : N).

(** pocketscion's StandardValidator as the byte-level advance sees it: its functions decode
    their arguments; [after_change] (a Cell in the code) is true exactly for the call on the
    hop after the current one *)
Definition bridge_val_ingress (cur_if ch : N) : validator NM.serr :=
  mkValidator
    (fun idx hop info _ _ =>
       NM.sdk_validate_hop mac true (negb (idx =? ch)) cur_if now K (dec_hopf hop) (dec_infof info))
    (fun _ h i nh ni =>
       NM.sdk_validate_seg_change t ia (dec_hopf h) (dec_infof i) (dec_hopf nh) (dec_infof ni)).
Definition bridge_val_egress (eg_if : N) : validator NM.serr :=
  mkValidator
    (fun _ hop info _ _ => NM.sdk_validate_hop mac false false eg_if now K (dec_hopf hop) (dec_infof info))
    (fun _ _ _ _ _ => None).

Definition vres_out {O} (r : vres (E := NM.serr) O) : O := match r with VOk o => o | VFailed o _ => o end.

Definition rel_ingress (r : list N * outcome (vres (E := NM.serr) ing_out) adv_err)
           (s : outcome (NM.path * bool * N * option N * option NM.serr) unit) : Prop :=
  match snd r, s with
  | Err _, Err _ => True
  | Panic _, Panic _ => True
  | Ok vr, Ok (p', alert, ing, act, verr) =>
    dec_path (fst r) = p' /\ io_alert (vres_out vr) = alert /\ io_ingress (vres_out vr) = ing
    /\ match io_action (vres_out vr) with ForwardLocal => None | ContinueEgress e => Some e end = act
    /\ vres_err vr = verr
  | _, _ => False
  end.
Definition rel_egress (r : list N * outcome (vres (E := NM.serr) eg_out) adv_err)
           (s : outcome (NM.path * bool * N * option NM.serr) unit) : Prop :=
  match snd r, s with
  | Err _, Err _ => True
  | Panic _, Panic _ => True
  | Ok vr, Ok (p', alert, eg, verr) =>
    dec_path (fst r) = p' /\ eo_alert (vres_out vr) = alert /\ eo_egress (vres_out vr) = eg
    /\ vres_err vr = verr
  | _, _ => False
  end.

Lemma vres_out_vresult {O} (verr : option NM.serr) (o : O) : vres_out (vresult verr o) = o.
Proof. destruct verr; reflexivity. Qed.

Lemma bridge_egress_assembled ci ch rsv s0 s1 s2 IF HF eg_if :
  meta_ok ci ch rsv s0 s1 s2 -> shaped s0 s1 s2 IF HF ->
  Forall (fun f => bytes_ok f = true) IF -> Forall (fun f => bytes_ok f = true) HF ->
  lens_wf s0 s1 s2 ->
  rel_egress (advance_egress (bridge_val_egress eg_if) (assemble ci ch rsv s0 s1 s2 IF HF))
             (NM.sdk_advance_egress mac K now eg_if (dec_path (assemble ci ch rsv s0 s1 s2 IF HF))).
Proof.
  intros Hm Hs HbI HbH Hwf.
  pose proof (sh_hf_cnt _ _ _ _ _ Hs) as Hn.
  rewrite (dec_path_assembled _ _ _ _ _ _ _ _ Hm Hs).
  unfold NM.sdk_advance_egress. cbn [NM.p_lens NM.p_ch NM.p_ci NM.p_hops NM.p_infos].
  rewrite (seg_index_bridge _ _ _ _ Hwf), map_length.
  rewrite (nth_error_map_N dec_hopf HF [] ch), (nth_error_map_N dec_infof IF [] ci).
  unfold advance_egress.
  rewrite (asm_curr_hf _ _ _ _ _ _ _ _ Hm), (asm_curr_inf _ _ _ _ _ _ _ _ Hm),
          (asm_hop_count _ _ _ _ _ _ _ _ Hm Hs).
  unfold calculate_segment_index. rewrite (asm_seg_lens _ _ _ _ _ _ _ _ Hm).
  rewrite (hop_field_asm _ _ _ _ _ _ _ _ ch Hm Hs), (info_field_asm _ _ _ _ _ _ _ _ ci Hm Hs).
  destruct (calc_seg_idx_aux ch 0 0 [s0; s1; s2]) as [[[seg st] en]|] eqn:Ecalc; cbn [option_map]; [|exact I].
  rewrite nat_eqb_N.
  destruct (negb (seg =? ci)) eqn:Eseg; [exact I|].
  assert (seg = ci) by (destruct (seg =? ci) eqn:E'; [lia|discriminate]). subst seg.
  destruct (N.of_nat (length HF) <=? ch) eqn:Eh; [exact I|].
  destruct (N.of_nat (length IF) <=? ci) eqn:Ei; [exact I|].
  assert (Hfin : (length HF <=? N.to_nat ch + 1)%nat = (N.of_nat (length HF) <=? ch + 1)).
  { apply eq_true_iff_eq. rewrite Nat.leb_le, N.leb_le. lia. }
  rewrite Hfin.
  destruct (N.of_nat (length HF) <=? ch + 1) eqn:Efin; [exact I|].
  rewrite fit_bridge.
  destruct (63 <? ch + 1) eqn:Efit; [exact I|].
  destruct en; [exact I|]. cbn [negb].
  set (hop0 := nth (N.to_nat ch) HF []). set (info0 := nth (N.to_nat ci) IF []).
  assert (Hci : ci < N.of_nat (length IF)) by lia. assert (Hch : ch < N.of_nat (length HF)) by lia.
  assert (Hli : length info0 = 8%nat) by (unfold info0; eapply info0_len; eassumption).
  assert (Hlh : length hop0 = 12%nat) by (unfold hop0; eapply hop0_len; eassumption).
  assert (Hbi : bytes_ok info0 = true) by (unfold info0; now apply Forall_nth_ok).
  assert (Hbh : bytes_ok hop0 = true) by (unfold hop0; now apply Forall_nth_ok).
  fold (eg_info info0 hop0). fold (eg_hop info0 hop0).
  rewrite (commit_assembled _ _ _ _ _ _ _ _ ci ch _ _ tt Hm Hs Hci Hch).
  2:{ destruct (eg_info_only info0 hop0 Hli) as [Hl _]. lia. }
  2:{ destruct (eg_hop_only info0 hop0 Hlh) as [Hl _]. lia. }
  unfold rel_egress. cbn [fst snd]. rewrite vres_out_vresult, vres_err_vresult. cbn [eo_alert eo_egress].
  rewrite <- (dec_eg_info info0 hop0 Hli Hlh Hbi Hbh).
  pose proof (dec_eg_hop info0 hop0 Hlh) as Eh1. cbv zeta in Eh1. rewrite <- Eh1.
  refine (conj _ (conj _ (conj _ _))).
  - unfold assemble. rewrite (put_curr_hf _ _ _ _ _ _ Hm).
    rewrite (N.mod_small (ch + 1) 256) by lia. rewrite (N.mod_small (ch + 1) 64) by lia.
    fold (assemble ci (ch + 1) rsv s0 s1 s2 (upd IF (N.to_nat ci) (eg_info info0 hop0)) (upd HF (N.to_nat ch) (eg_hop info0 hop0))).
    assert (Hm' : meta_ok ci (ch + 1) rsv s0 s1 s2) by (unfold meta_ok in *; lia).
    rewrite (dec_commit _ _ _ _ _ _ _ _ _ _ _ _ Hm' Hs Hci Hch).
    + f_equal. lia.
    + destruct (eg_info_only info0 hop0 Hli) as [Hl _]. lia.
    + destruct (eg_hop_only info0 hop0 Hlh) as [Hl _]. lia.
  - unfold if_cons_dir, dec_infof, dec_hopf. cbn [NM.i_cons NM.h_aeg NM.h_ain].
    destruct (N.testbit (if_flags info0) 0); reflexivity.
  - reflexivity.
  - reflexivity.
Qed.
End Bridge.

Section BridgeIngress.
Context {key : Type}.
Variable mac : key -> N -> N -> N -> N -> N -> N.
Variable t : NM.topology key.
Variables (ia : N) (K : key) (now : N).

Lemma bridge_ingress_assembled ci ch rsv s0 s1 s2 IF HF cur_if :
  meta_ok ci ch rsv s0 s1 s2 -> shaped s0 s1 s2 IF HF ->
  Forall (fun f => bytes_ok f = true) IF -> Forall (fun f => bytes_ok f = true) HF ->
  lens_wf s0 s1 s2 ->
  rel_ingress (advance_ingress (bridge_val_ingress mac t ia K now cur_if ch) (cur_if =? 0)
                               (assemble ci ch rsv s0 s1 s2 IF HF))
              (NM.sdk_advance_ingress mac t ia K now cur_if (dec_path (assemble ci ch rsv s0 s1 s2 IF HF))).
Proof.
  intros Hm Hs HbI HbH Hwf.
  pose proof (sh_hf_cnt _ _ _ _ _ Hs) as Hn. pose proof (sh_if_cnt _ _ _ _ _ Hs) as Hni.
  rewrite (dec_path_assembled _ _ _ _ _ _ _ _ Hm Hs).
  unfold NM.sdk_advance_ingress. cbn [NM.p_lens NM.p_ch NM.p_ci NM.p_hops NM.p_infos].
  rewrite (seg_index_bridge _ _ _ _ Hwf), map_length.
  rewrite (nth_error_map_N dec_hopf HF [] ch), (nth_error_map_N dec_infof IF [] ci).
  unfold advance_ingress.
  rewrite (asm_curr_hf _ _ _ _ _ _ _ _ Hm), (asm_curr_inf _ _ _ _ _ _ _ _ Hm),
          (asm_hop_count _ _ _ _ _ _ _ _ Hm Hs).
  unfold calculate_segment_index. rewrite (asm_seg_lens _ _ _ _ _ _ _ _ Hm).
  rewrite (hop_field_asm _ _ _ _ _ _ _ _ ch Hm Hs), (info_field_asm _ _ _ _ _ _ _ _ ci Hm Hs).
  destruct (calc_seg_idx_aux ch 0 0 [s0; s1; s2]) as [[[seg st] en]|] eqn:Ecalc; cbn [option_map]; [|exact I].
  destruct (st && en); [exact I|].
  rewrite nat_eqb_N.
  destruct (negb (seg =? ci)) eqn:Eseg; [exact I|].
  assert (seg = ci) by (destruct (seg =? ci) eqn:E'; [lia|discriminate]). subst seg.
  destruct (N.of_nat (length HF) <=? ch) eqn:Eh; [exact I|].
  destruct (N.of_nat (length IF) <=? ci) eqn:Ei; [exact I|].
  assert (Hfin : (length HF <=? N.to_nat ch + 1)%nat = (N.of_nat (length HF) <=? ch + 1)).
  { apply eq_true_iff_eq. rewrite Nat.leb_le, N.leb_le. lia. }
  rewrite Hfin.
  set (hop0 := nth (N.to_nat ch) HF []). set (info0 := nth (N.to_nat ci) IF []).
  assert (Hci : ci < N.of_nat (length IF)) by lia. assert (Hch : ch < N.of_nat (length HF)) by lia.
  assert (Hli : length info0 = 8%nat) by (unfold info0; eapply info0_len; eassumption).
  assert (Hlh : length hop0 = 12%nat) by (unfold hop0; eapply hop0_len; eassumption).
  assert (Hbi : bytes_ok info0 = true) by (unfold info0; now apply Forall_nth_ok).
  assert (Hbh : bytes_ok hop0 = true) by (unfold hop0; now apply Forall_nth_ok).
  set (fi := cur_if =? 0).
  fold (ing_info fi info0 hop0). fold (ing_hop fi info0 hop0).
  set (info1 := ing_info fi info0 hop0). set (hop1 := ing_hop fi info0 hop0).
  assert (Hl1 : length info1 = 8%nat) by (destruct (ing_info_only fi info0 hop0 Hli) as [Hl _]; unfold info1; lia).
  assert (Hl2 : length hop1 = 12%nat) by (destruct (ing_hop_only fi info0 hop0 Hlh) as [Hl _]; unfold hop1; lia).
  (* the structural side in terms of the decoded updated fields *)
  cbv zeta.
  pose proof (dec_ing_info info0 hop0 Hli Hlh Hbi Hbh fi) as E1. fold info1 in E1. rewrite <- E1.
  pose proof (dec_ing_hop info0 hop0 Hlh fi) as E2. cbv zeta in E2. fold hop1 in E2. rewrite <- E2.
  assert (Ealert : N.testbit (hf_flags hop0) (if if_cons_dir info0 then 1 else 0)
                   = (if NM.i_cons (dec_infof info0) then NM.h_ain (dec_hopf hop0) else NM.h_aeg (dec_hopf hop0))).
  { unfold if_cons_dir, dec_infof, dec_hopf. cbn [NM.i_cons NM.h_aeg NM.h_ain].
    destruct (N.testbit (if_flags info0) 0); reflexivity. }
  assert (Ev0 : forall st' en', v_hop (bridge_val_ingress mac t ia K now cur_if ch) ch hop0 info1 st' en'
                = NM.sdk_validate_hop mac true false cur_if now K (dec_hopf hop0) (dec_infof info1)).
  { intros. cbn [v_hop bridge_val_ingress]. now rewrite N.eqb_refl. }
  destruct (N.of_nat (length HF) <=? ch + 1) eqn:Efin; destruct en.
  - (* final hop *)
    rewrite (commit_assembled _ _ _ _ _ _ _ _ ci ch info1 hop1 _ Hm Hs Hci Hch Hl1 Hl2).
    unfold rel_ingress. cbn [fst snd obind]. rewrite vres_out_vresult, vres_err_vresult. cbn [io_alert io_ingress io_action].
    refine (conj (dec_commit _ _ _ _ _ _ _ _ _ _ _ _ Hm Hs Hci Hch Hl1 Hl2) (conj Ealert (conj eq_refl (conj eq_refl (Ev0 _ _))))).
  - (* unreachable *)
    exfalso. pose proof (calc_last_is_end _ _ _ _ _ _ _ Ecalc ltac:(lia)). discriminate.
  - (* segment change *)
    rewrite fit_bridge.
    destruct (63 <? ch + 1) eqn:Efit; [exact I|].
    rewrite (hop_field_asm _ _ _ _ _ _ _ _ (ch + 1) Hm Hs), (info_field_asm _ _ _ _ _ _ _ _ (ci + 1) Hm Hs).
    replace (S (N.to_nat ch)) with (N.to_nat (ch + 1)) by lia.
    replace (S (N.to_nat ci)) with (N.to_nat (ci + 1)) by lia.
    rewrite (nth_error_map_N dec_hopf HF [] (ch + 1)), (nth_error_map_N dec_infof IF [] (ci + 1)).
    destruct (N.of_nat (length HF) <=? ch + 1) eqn:Eh1; [exact I|].
    destruct (N.of_nat (length IF) <=? ci + 1) eqn:Ei1; [exact I|].
    assert (Hci3 : ci + 1 < 4) by (unfold nz in Hni; destruct (s0 =? 0), (s1 =? 0), (s2 =? 0); lia).
    assert (Eptr : set_curr_inf (set_curr_hf (assemble ci ch rsv s0 s1 s2 IF HF) ((ch + 1) mod 256)) ((ci + 1) mod 256)
                   = assemble (ci + 1) (ch + 1) rsv s0 s1 s2 IF HF).
    { unfold assemble. rewrite (put_curr_hf _ _ _ _ _ _ Hm).
      assert (Hm1 : meta_ok ci ((ch + 1) mod 256 mod 64) rsv s0 s1 s2) by (unfold meta_ok in *; lia).
      rewrite (put_curr_inf _ _ _ _ _ _ Hm1).
      rewrite (N.mod_small (ch + 1) 256), (N.mod_small (ch + 1) 64),
              (N.mod_small (ci + 1) 256), (N.mod_small (ci + 1) 4) by lia. reflexivity. }
    rewrite Eptr.
    assert (Hm2 : meta_ok (ci + 1) (ch + 1) rsv s0 s1 s2) by (unfold meta_ok in *; lia).
    rewrite (commit_assembled _ _ _ _ _ _ _ _ ci ch info1 hop1 _ Hm2 Hs Hci Hch Hl1 Hl2).
    unfold rel_ingress. cbn [fst snd obind]. rewrite vres_out_vresult, vres_err_vresult. cbn [io_alert io_ingress io_action].
    refine (conj _ (conj Ealert (conj eq_refl (conj eq_refl _)))).
    + rewrite (dec_commit _ _ _ _ _ _ _ _ _ _ _ _ Hm2 Hs Hci Hch Hl1 Hl2). f_equal; lia.
    + rewrite !or_else_bridge, Ev0. cbn [v_seg v_hop bridge_val_ingress].
      assert (Ene : (ch + 1 =? ch) = false) by lia. rewrite Ene. reflexivity.
  - (* interior *)
    rewrite (commit_assembled _ _ _ _ _ _ _ _ ci ch info1 hop1 _ Hm Hs Hci Hch Hl1 Hl2).
    unfold rel_ingress. cbn [fst snd obind]. rewrite vres_out_vresult, vres_err_vresult. cbn [io_alert io_ingress io_action].
    refine (conj (dec_commit _ _ _ _ _ _ _ _ _ _ _ _ Hm Hs Hci Hch Hl1 Hl2) (conj Ealert (conj eq_refl (conj eq_refl (Ev0 _ _))))).
Qed.
End BridgeIngress.

(** * on every accepted byte string
    NOTE.  An earlier version of this theorem needed [hop_count b <= 64]: the structural model
    then lacked the CurrHF-fit guard of routing.rs (C11 repair); the Network model now has it
    (Err when the advanced index exceeds 63) and the bound is gone. *)
Section BridgeTop.
Context {key : Type}.
Variable mac : key -> N -> N -> N -> N -> N -> N.
Variable t : NM.topology key.
Variables (ia : N) (K : key) (now : N).

Lemma bridge_ingress b cur_if :
  view_ok b = true -> NM.wf_path (dec_path b) = true ->
  rel_ingress (advance_ingress (bridge_val_ingress mac t ia K now cur_if (curr_hf b)) (cur_if =? 0) b)
              (NM.sdk_advance_ingress mac t ia K now cur_if (dec_path b)).
Proof.
  intros Hv Hwf.
  destruct (view_decompose b Hv) as (ci & ch & rsv & s0 & s1 & s2 & IF & HF & -> & Hm & Hs & Hb).
  destruct (bytes_ok_assemble _ _ _ _ _ _ _ _ Hb) as [HbI HbH].
  rewrite (asm_curr_hf _ _ _ _ _ _ _ _ Hm).
  apply bridge_ingress_assembled; auto. eapply wf_path_lens; eauto.
Qed.

Lemma bridge_egress b eg_if :
  view_ok b = true -> NM.wf_path (dec_path b) = true ->
  rel_egress (advance_egress (bridge_val_egress mac K now eg_if) b)
             (NM.sdk_advance_egress mac K now eg_if (dec_path b)).
Proof.
  intros Hv Hwf.
  destruct (view_decompose b Hv) as (ci & ch & rsv & s0 & s1 & s2 & IF & HF & -> & Hm & Hs & Hb).
  destruct (bytes_ok_assemble _ _ _ _ _ _ _ _ Hb) as [HbI HbH].
  apply bridge_egress_assembled; auto. eapply wf_path_lens; eauto.
Qed.
End BridgeTop.
