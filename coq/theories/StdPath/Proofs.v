(** Lemmas about the byte-level path model: list/chunk facts, the meta header as six fields,
    the decomposition of every accepted view into meta ++ info fields ++ hop fields. *)
From Coq Require Import Lia ZifyBool ZifyNat ZifyN.
From Sci Require Import Common.ListAux StdPath.Model.
Local Open Scope N_scope.
Ltac Zify.zify_post_hook ::= Z.div_mod_to_equations.
Arguments N.add : simpl never. Arguments N.sub : simpl never. Arguments N.mul : simpl never.
Arguments N.div : simpl never. Arguments N.modulo : simpl never. Arguments N.eqb : simpl never.
Arguments N.ltb : simpl never. Arguments N.leb : simpl never. Arguments N.lxor : simpl never.
Arguments N.min : simpl never. Arguments N.testbit : simpl never.

Lemma layout_matches : layout_ok = true.
Proof. reflexivity. Qed.

(** * lists *)
Lemma firstn_app_exact {A} (l r : list A) n : n = length l -> firstn n (l ++ r) = l.
Proof. intros ->. rewrite firstn_app, Nat.sub_diag, firstn_all. cbn. apply app_nil_r. Qed.
Lemma skipn_app_exact {A} (l r : list A) n : n = length l -> skipn n (l ++ r) = r.
Proof. intros ->. rewrite skipn_app, Nat.sub_diag, skipn_all. reflexivity. Qed.

Lemma set_range_app (p v w r : list N) n :
  n = length p -> length v = length w -> set_range (p ++ v ++ r) n w = p ++ w ++ r.
Proof.
  intros -> Hl. unfold set_range. rewrite firstn_app_exact by reflexivity. f_equal. f_equal.
  rewrite skipn_app. rewrite skipn_all2 by lia. cbn [app].
  replace (length p + length w - length p)%nat with (length v) by lia.
  apply skipn_app_exact. reflexivity.
Qed.

Lemma set_range_app_end (p v w : list N) n :
  n = length p -> length v = length w -> set_range (p ++ v) n w = p ++ w.
Proof.
  intros Hn Hl. pose proof (set_range_app p v w [] n Hn Hl) as H.
  now rewrite !app_nil_r in H.
Qed.

Lemma set_range_length (b v : list N) off :
  (off + length v <= length b)%nat -> length (set_range b off v) = length b.
Proof.
  intros H. unfold set_range. rewrite !app_length, firstn_length, skipn_length. lia.
Qed.

Definition all_len {A} (k : nat) (l : list (list A)) : Prop := Forall (fun x => length x = k) l.

Lemma concat_length_all {A} k (l : list (list A)) : all_len k l -> length (concat l) = (k * length l)%nat.
Proof. induction 1 as [|x l Hx _ IH]; cbn; [lia|]. rewrite app_length, IH, Hx. lia. Qed.

Lemma chunks_concat {A} k (l : list (list A)) (r : list A) :
  all_len k l -> chunks k (length l) (concat l ++ r) = l.
Proof.
  induction 1 as [|x l Hx _ IH]; cbn [length chunks concat]; [reflexivity|].
  rewrite <- app_assoc. rewrite firstn_app_exact, skipn_app_exact by auto. f_equal. exact IH.
Qed.

Lemma chunks_all_len {A} k n (l : list A) : (k * n <= length l)%nat -> all_len k (chunks k n l).
Proof.
  revert l; induction n as [|n IH]; intros l H; cbn; constructor.
  - rewrite firstn_length. lia.
  - apply IH. rewrite skipn_length. lia.
Qed.
Lemma chunks_length {A} k n (l : list A) : length (chunks k n l) = n.
Proof. revert l; induction n as [|n IH]; intros l; cbn; [reflexivity|]. now rewrite IH. Qed.

Lemma firstn_plus {A} (a c : nat) (l : list A) :
  firstn (a + c) l = firstn a l ++ firstn c (skipn a l).
Proof.
  revert l; induction a as [|a IH]; intros l; cbn; [reflexivity|].
  destruct l as [|x l]; cbn; [now rewrite firstn_nil|]. now rewrite IH.
Qed.

Lemma concat_chunks {A} k n (l : list A) : concat (chunks k n l) = firstn (k * n) l.
Proof.
  revert l; induction n as [|n IH]; intros l; cbn [chunks concat].
  - now rewrite Nat.mul_0_r.
  - rewrite IH. replace (k * S n)%nat with (k + k * n)%nat by lia.
    now rewrite firstn_plus.
Qed.

Lemma all_len_rev {A} k (l : list (list A)) : all_len k l -> all_len k (rev l).
Proof. intros H. apply Forall_rev. exact H. Qed.
Lemma all_len_map {A} k (f : list A -> list A) (l : list (list A)) :
  (forall x, length x = k -> length (f x) = k) -> all_len k l -> all_len k (map f l).
Proof. intros Hf H. induction H; cbn; constructor; auto. Qed.

Lemma rev_concat_map {A} (l : list (list A)) : rev (concat l) = concat (map (@rev A) (rev l)).
Proof.
  induction l as [|x l IH]; cbn; [reflexivity|].
  rewrite rev_app_distr, IH, map_app, concat_app. cbn. now rewrite app_nil_r.
Qed.

(** * the meta header *)
Definition meta_ok (ci ch rsv s0 s1 s2 : N) : Prop :=
  ci < 4 /\ ch < 64 /\ rsv < 64 /\ s0 < 64 /\ s1 < 64 /\ s2 < 64.

Lemma mk_meta_length ci ch rsv s0 s1 s2 : length (mk_meta ci ch rsv s0 s1 s2) = 4%nat.
Proof. reflexivity. Qed.

Lemma meta_canon m0 m1 m2 m3 :
  m0 < 256 -> m1 < 256 -> m2 < 256 -> m3 < 256 ->
  [m0; m1; m2; m3] =
  mk_meta (m0 / 64) (m0 mod 64) (m1 / 4) ((m1 mod 4) * 16 + m2 / 16) ((m2 mod 16) * 4 + m3 / 64) (m3 mod 64)
  /\ meta_ok (m0 / 64) (m0 mod 64) (m1 / 4) ((m1 mod 4) * 16 + m2 / 16) ((m2 mod 16) * 4 + m3 / 64) (m3 mod 64).
Proof.
  intros H0 H1 H2 H3. unfold mk_meta, meta_ok. split.
  - f_equal; [lia|]. f_equal; [lia|]. f_equal; [lia|]. f_equal. lia.
  - lia.
Qed.

Section Meta.
Variables ci ch rsv s0 s1 s2 : N.
Hypothesis Hm : meta_ok ci ch rsv s0 s1 s2.
Variable r : list N.
Let b := mk_meta ci ch rsv s0 s1 s2 ++ r.

Lemma get_curr_inf : curr_inf b = ci.
Proof. unfold meta_ok in Hm. unfold b, curr_inf, byte, mk_meta. cbn [app nth]. lia. Qed.
Lemma get_curr_hf : curr_hf b = ch.
Proof. unfold meta_ok in Hm. unfold b, curr_hf, byte, mk_meta. cbn [app nth]. lia. Qed.
Lemma get_meta_rsv : meta_rsv b = rsv.
Proof. unfold meta_ok in Hm. unfold b, meta_rsv, byte, mk_meta. cbn [app nth]. lia. Qed.
Lemma get_seg0_len : seg0_len b = s0.
Proof. unfold meta_ok in Hm. unfold b, seg0_len, byte, mk_meta. cbn [app nth]. lia. Qed.
Lemma get_seg1_len : seg1_len b = s1.
Proof. unfold meta_ok in Hm. unfold b, seg1_len, byte, mk_meta. cbn [app nth]. lia. Qed.
Lemma get_seg2_len : seg2_len b = s2.
Proof. unfold meta_ok in Hm. unfold b, seg2_len, byte, mk_meta. cbn [app nth]. lia. Qed.

Lemma put_curr_inf v : set_curr_inf b v = mk_meta (v mod 4) ch rsv s0 s1 s2 ++ r.
Proof.
  unfold meta_ok in Hm. unfold b, set_curr_inf, set_byte, set_range, byte, mk_meta.
  cbn [app nth firstn skipn length Nat.add]. f_equal. lia.
Qed.
Lemma put_curr_hf v : set_curr_hf b v = mk_meta ci (v mod 64) rsv s0 s1 s2 ++ r.
Proof.
  unfold meta_ok in Hm. unfold b, set_curr_hf, set_byte, set_range, byte, mk_meta.
  cbn [app nth firstn skipn length Nat.add]. f_equal. lia.
Qed.
Lemma put_seg0_len v : set_seg0_len b v = mk_meta ci ch rsv (v mod 64) s1 s2 ++ r.
Proof.
  unfold meta_ok in Hm. unfold b, set_seg0_len, set_byte, set_range, byte, mk_meta.
  cbn [app nth firstn skipn length Nat.add]. f_equal. f_equal; [lia|]. f_equal. lia.
Qed.
Lemma put_seg1_len v : set_seg1_len b v = mk_meta ci ch rsv s0 (v mod 64) s2 ++ r.
Proof.
  unfold meta_ok in Hm. unfold b, set_seg1_len, set_byte, set_range, byte, mk_meta.
  cbn [app nth firstn skipn length Nat.add]. f_equal. f_equal. f_equal; [lia|]. f_equal. lia.
Qed.
Lemma put_seg2_len v : set_seg2_len b v = mk_meta ci ch rsv s0 s1 (v mod 64) ++ r.
Proof.
  unfold meta_ok in Hm. unfold b, set_seg2_len, set_byte, set_range, byte, mk_meta.
  cbn [app nth firstn skipn length Nat.add]. f_equal. f_equal. f_equal. f_equal. lia.
Qed.
End Meta.

(** * assembled form of a view: meta ++ info fields ++ hop fields *)
Definition assemble (ci ch rsv s0 s1 s2 : N) (IF HF : list (list N)) : list N :=
  mk_meta ci ch rsv s0 s1 s2 ++ concat IF ++ concat HF.

Record shaped (s0 s1 s2 : N) (IF HF : list (list N)) : Prop := mkShaped {
  sh_if_len : all_len 8 IF;
  sh_hf_len : all_len 12 HF;
  sh_if_cnt : N.of_nat (length IF) = nz s0 + nz s1 + nz s2;
  sh_hf_cnt : N.of_nat (length HF) = s0 + s1 + s2 }.

Section Assembled.
Variables ci ch rsv s0 s1 s2 : N.
Variables IF HF : list (list N).
Hypothesis Hm : meta_ok ci ch rsv s0 s1 s2.
Hypothesis Hs : shaped s0 s1 s2 IF HF.
Let b := assemble ci ch rsv s0 s1 s2 IF HF.

Lemma asm_curr_inf : curr_inf b = ci. Proof. apply get_curr_inf; exact Hm. Qed.
Lemma asm_curr_hf : curr_hf b = ch. Proof. apply get_curr_hf; exact Hm. Qed.
Lemma asm_seg0 : seg0_len b = s0. Proof. apply get_seg0_len; exact Hm. Qed.
Lemma asm_seg1 : seg1_len b = s1. Proof. apply get_seg1_len; exact Hm. Qed.
Lemma asm_seg2 : seg2_len b = s2. Proof. apply get_seg2_len; exact Hm. Qed.
Lemma asm_info_count : info_count b = N.of_nat (length IF).
Proof. unfold info_count. rewrite asm_seg0, asm_seg1, asm_seg2. symmetry. apply (sh_if_cnt _ _ _ _ _ Hs). Qed.
Lemma asm_hop_count : hop_count b = N.of_nat (length HF).
Proof. unfold hop_count. rewrite asm_seg0, asm_seg1, asm_seg2. symmetry. apply (sh_hf_cnt _ _ _ _ _ Hs). Qed.
Lemma asm_seg_lens : seg_lens b = [s0; s1; s2].
Proof. unfold seg_lens. now rewrite asm_seg0, asm_seg1, asm_seg2. Qed.
Lemma asm_length : length b = (4 + 8 * length IF + 12 * length HF)%nat.
Proof.
  unfold b, assemble. rewrite !app_length, mk_meta_length.
  rewrite (concat_length_all 8), (concat_length_all 12); [lia| |]; apply Hs.
Qed.
Lemma asm_required_size : required_size b = N.of_nat (length b).
Proof. unfold required_size. rewrite asm_info_count, asm_hop_count, asm_length. lia. Qed.
Lemma asm_info_fields : info_fields b = IF.
Proof.
  unfold info_fields. rewrite asm_info_count, Nat2N.id. unfold b, assemble.
  rewrite skipn_app_exact by reflexivity. apply chunks_concat. apply Hs.
Qed.
Lemma asm_hop_off : hop_off b 0 = (4 + 8 * length IF)%nat.
Proof. unfold hop_off. rewrite asm_info_count, Nat2N.id. lia. Qed.
Lemma asm_hop_fields : hop_fields b = HF.
Proof.
  unfold hop_fields. rewrite asm_hop_count, Nat2N.id, asm_hop_off. unfold b, assemble.
  rewrite app_assoc. rewrite skipn_app_exact.
  - rewrite <- (app_nil_r (concat HF)). apply chunks_concat. apply Hs.
  - rewrite app_length, mk_meta_length, (concat_length_all 8) by apply Hs. reflexivity.
Qed.
End Assembled.

Lemma toggle_length f : length f = 8%nat -> length (toggle_cons_dir f) = 8%nat.
Proof.
  intros H. unfold toggle_cons_dir, if_set_flags, set_byte. rewrite set_range_length; cbn [length]; lia.
Qed.

Lemma shaped_rev s0 s1 s2 s0' s1' s2' IF HF :
  shaped s0 s1 s2 IF HF ->
  nz s0' + nz s1' + nz s2' = nz s0 + nz s1 + nz s2 -> s0' + s1' + s2' = s0 + s1 + s2 ->
  shaped s0' s1' s2' (rev (map toggle_cons_dir IF)) (rev HF).
Proof.
  intros [H1 H2 H3 H4] E1 E2. constructor.
  - apply all_len_rev. apply all_len_map; [apply toggle_length|exact H1].
  - apply all_len_rev. exact H2.
  - rewrite rev_length, map_length. lia.
  - rewrite rev_length. lia.
Qed.

(** reversing the fields of an assembled view *)
Lemma reverse_fields_assembled ci ch rsv s0 s1 s2 IF HF :
  meta_ok ci ch rsv s0 s1 s2 -> shaped s0 s1 s2 IF HF ->
  reverse_fields (assemble ci ch rsv s0 s1 s2 IF HF)
  = assemble ci ch rsv s0 s1 s2 (rev (map toggle_cons_dir IF)) (rev HF).
Proof.
  intros Hm Hs. unfold reverse_fields.
  rewrite (asm_info_fields _ _ _ _ _ _ _ _ Hm Hs).
  assert (Hs' : shaped s0 s1 s2 (rev (map toggle_cons_dir IF)) HF).
  { destruct Hs as [H1 H2 H3 H4]. constructor; auto.
    - apply all_len_rev. apply all_len_map; [apply toggle_length|exact H1].
    - now rewrite rev_length, map_length. }
  assert (E1 : set_range (assemble ci ch rsv s0 s1 s2 IF HF) 4 (concat (rev (map toggle_cons_dir IF)))
               = assemble ci ch rsv s0 s1 s2 (rev (map toggle_cons_dir IF)) HF).
  { unfold assemble. apply set_range_app; [reflexivity|].
    rewrite (concat_length_all 8), (concat_length_all 8); [|apply Hs'|apply Hs].
    now rewrite rev_length, map_length. }
  rewrite E1. rewrite (asm_hop_fields _ _ _ _ _ _ _ _ Hm Hs'), (asm_hop_off _ _ _ _ _ _ _ _ Hm Hs').
  unfold assemble. rewrite !app_assoc.
  apply set_range_app_end.
  - rewrite app_length, mk_meta_length, (concat_length_all 8) by apply Hs'. reflexivity.
  - rewrite (concat_length_all 12), (concat_length_all 12); [|apply all_len_rev; apply Hs|apply Hs].
    now rewrite rev_length.
Qed.

(** every byte string the view constructor accepts is an assembled view *)
Lemma view_decompose b :
  view_ok b = true ->
  exists ci ch rsv s0 s1 s2 IF HF,
    b = assemble ci ch rsv s0 s1 s2 IF HF /\ meta_ok ci ch rsv s0 s1 s2 /\ shaped s0 s1 s2 IF HF
    /\ bytes_ok b = true.
Proof.
  unfold view_ok. intros H. apply andb_prop in H as [H Hb]. apply andb_prop in H as [H4 Hsz].
  apply Nat.leb_le in H4. apply N.eqb_eq in Hsz.
  destruct b as [|m0 [|m1 [|m2 [|m3 r]]]]; cbn [length] in H4; try lia.
  assert (Hb' := Hb). unfold bytes_ok in Hb'. cbn [forallb] in Hb'. unfold byte_ok in Hb'.
  repeat (apply andb_prop in Hb' as [?Hx Hb']). apply N.ltb_lt in Hx, Hx0, Hx1, Hx2.
  destruct (meta_canon m0 m1 m2 m3 Hx Hx0 Hx1 Hx2) as [Ec Hm].
  set (ci := m0 / 64) in *. set (ch := m0 mod 64) in *. set (rsv := m1 / 4) in *.
  set (s0 := (m1 mod 4) * 16 + m2 / 16) in *. set (s1 := (m2 mod 16) * 4 + m3 / 64) in *.
  set (s2 := m3 mod 64) in *.
  assert (Eb : m0 :: m1 :: m2 :: m3 :: r = mk_meta ci ch rsv s0 s1 s2 ++ r).
  { change (m0 :: m1 :: m2 :: m3 :: r) with ([m0; m1; m2; m3] ++ r). now rewrite Ec. }
  rewrite Eb in Hsz. unfold required_size, info_count, hop_count in Hsz.
  rewrite (get_seg0_len _ _ _ _ _ _ Hm), (get_seg1_len _ _ _ _ _ _ Hm), (get_seg2_len _ _ _ _ _ _ Hm) in Hsz.
  rewrite app_length, mk_meta_length in Hsz.
  set (ni := N.to_nat (nz s0 + nz s1 + nz s2)) in *. set (nh := N.to_nat (s0 + s1 + s2)) in *.
  assert (Hr : length r = (8 * ni + 12 * nh)%nat) by (unfold ni, nh; lia).
  exists ci, ch, rsv, s0, s1, s2, (chunks 8 ni r), (chunks 12 nh (skipn (8 * ni) r)).
  refine (conj _ (conj Hm (conj _ Hb))).
  - rewrite Eb. unfold assemble. f_equal. rewrite !concat_chunks.
    rewrite <- (firstn_skipn (8 * ni) r) at 1. f_equal.
    symmetry. apply firstn_all2. rewrite skipn_length. lia.
  - constructor.
    + apply chunks_all_len. lia.
    + apply chunks_all_len. rewrite skipn_length. lia.
    + rewrite chunks_length. unfold ni. lia.
    + rewrite chunks_length. unfold nh. lia.
Qed.
