(** Whole walks over authentic multi-segment paths (C11): the per-AS lemmas of ProofsRouting
    composed by induction over the ASes of a run, with the state after each piece made
    explicit.  Hop fields are described by their TAILS (everything but the flags byte), which
    no advance ever changes; info fields by their SegID (the only part that changes). *)
From Coq Require Import Lia ZifyBool ZifyNat ZifyN.
From Sci Require Import Common.ListAux StdPath.Model StdPath.ModelRouting StdPath.Proofs StdPath.ProofsRev
     StdPath.ProofsEnc StdPath.ProofsRouting.
Local Open Scope N_scope.
Ltac Zify.zify_post_hook ::= Z.div_mod_to_equations.
Arguments N.add : simpl never. Arguments N.sub : simpl never. Arguments N.mul : simpl never.
Arguments N.div : simpl never. Arguments N.modulo : simpl never. Arguments N.eqb : simpl never.
Arguments N.ltb : simpl never. Arguments N.leb : simpl never. Arguments N.lxor : simpl never.
Arguments N.min : simpl never. Arguments N.testbit : simpl never. Arguments N.ldiff : simpl never.

(** * hop fields by their tails *)
Definition tl1 (h : list N) : list N := skipn 1 h.
Definition sigmaT (t : list N) : N := be_val 0 (firstn 2 (firstn 6 (skipn 5 t))).
Definition mac_okT (cmac : list N -> list N -> list N) (key : list N) (beta ts : N) (t : list N) : Prop :=
  firstn 6 (skipn 5 t)
  = firstn 6 (cmac key (mac_input beta ts (nth 0 t 0) (be_val 0 (firstn 2 (skipn 1 t))) (be_val 0 (firstn 2 (skipn 3 t))))).

Lemma sigma_tl h : length h = 12%nat -> sigma h = sigmaT (tl1 h).
Proof. destruct h as [|x r]; [discriminate|]. reflexivity. Qed.
Lemma mac_ok_tl cmac key beta ts h :
  length h = 12%nat -> (mac_ok cmac key beta ts h <-> mac_okT cmac key beta ts (tl1 h)).
Proof. destruct h as [|x r]; [discriminate|]. intros _. reflexivity. Qed.

Lemma map_upd {A B} (f : A -> B) l i x : map f (upd l i x) = upd (map f l) i (f x).
Proof. unfold upd. now rewrite !map_app, firstn_map, skipn_map. Qed.
Lemma map_upd_same {A B} (f : A -> B) l i x d :
  (i < length l)%nat -> f x = f (nth i l d) -> map f (upd l i x) = map f l.
Proof.
  intros Hi Hx. rewrite map_upd, Hx. rewrite <- (map_nth f l d i). apply upd_same. now rewrite map_length.
Qed.

Lemma hop_flags_only_tl a c : hop_flags_only a c -> tl1 c = tl1 a.
Proof. intros [_ H]. exact H. Qed.

Lemma info_segid_only_trans a c d : info_segid_only a c -> info_segid_only c d -> info_segid_only a d.
Proof. intros (H1 & H2 & H3) (H4 & H5 & H6). unfold info_segid_only. repeat split; congruence. Qed.

Lemma skipn_cons_nth {A} (l : list A) i d : (i < length l)%nat -> skipn i l = nth i l d :: skipn (S i) l.
Proof.
  intros Hi. pose proof (nth_error_split' l i _ (nth_error_nth' l i d Hi)) as Esp.
  rewrite Esp at 1. rewrite skipn_app_exact by (rewrite firstn_length; lia). reflexivity.
Qed.

(** * a run of interior ASes: verification conditions and SegID evolution on the tails *)
Section Run.
Variable cmac : list N -> list N -> list N.

Definition step_segid (cons fi : bool) (s : N) (t : list N) : N :=
  if cons then N.lxor s (sigmaT t) else if fi then s else N.lxor s (sigmaT t).
Definition step_beta (cons fi : bool) (s : N) (t : list N) : N :=
  if fi || cons then s else N.lxor s (sigmaT t).

Fixpoint run_segid (cons fi : bool) (s : N) (ts : list (list N)) : N :=
  match ts with [] => s | t :: r => run_segid cons false (step_segid cons fi s t) r end.
Fixpoint run_ok (cons : bool) (tsmp : N) (fi : bool) (s : N) (ts keys : list (list N)) : Prop :=
  match ts, keys with
  | t :: r, k :: kr => mac_okT cmac k (step_beta cons fi s t) tsmp t /\ run_ok cons tsmp false (step_segid cons fi s t) r kr
  | _, _ => True
  end.

Lemma run_state keys :
  forall fi ci ch rsv s0 s1 s2 IF HF,
    meta_ok ci ch rsv s0 s1 s2 -> shaped s0 s1 s2 IF HF ->
    ci < N.of_nat (length IF) ->
    Forall (fun f => bytes_ok f = true) IF -> Forall (fun f => bytes_ok f = true) HF ->
    ch + N.of_nat (length keys) < N.of_nat (length HF) -> ch + N.of_nat (length keys) <= 63 ->
    (forall i, (i < length keys)%nat -> exists st, calc_seg_idx_aux (ch + N.of_nat i) 0 0 [s0; s1; s2] = Some (ci, st, false)) ->
    let info0 := nth (N.to_nat ci) IF [] in
    let T := map tl1 HF in
    let slice := firstn (length keys) (skipn (N.to_nat ch) T) in
    run_ok (if_cons_dir info0) (if_ts info0) fi (if_segid info0) slice keys ->
    exists IF' HF',
      forwarded_through (run_of cmac fi keys) (assemble ci ch rsv s0 s1 s2 IF HF)
      = Some (assemble ci (ch + N.of_nat (length keys)) rsv s0 s1 s2 IF' HF')
      /\ shaped s0 s1 s2 IF' HF'
      /\ Forall (fun f => bytes_ok f = true) IF' /\ Forall (fun f => bytes_ok f = true) HF'
      /\ map tl1 HF' = T /\ length IF' = length IF
      /\ (forall i, i <> N.to_nat ci -> nth i IF' [] = nth i IF [])
      /\ info_segid_only info0 (nth (N.to_nat ci) IF' [])
      /\ if_segid (nth (N.to_nat ci) IF' []) = run_segid (if_cons_dir info0) fi (if_segid info0) slice.
Proof.
  induction keys as [|k kr IH]; intros fi ci ch rsv s0 s1 s2 IF HF Hm Hs Hci HbI HbH Hlen Hfit Hint info0 T slice Hrun.
  - cbn [run_of forwarded_through length]. exists IF, HF. cbn [N.of_nat]. rewrite N.add_0_r.
    refine (conj eq_refl (conj Hs (conj HbI (conj HbH (conj eq_refl (conj eq_refl (conj _ (conj (info_segid_only_refl _) _)))))))); auto.
  - cbn [length] in *. rewrite Nat2N.inj_succ in *.
    assert (Hch : ch < N.of_nat (length HF)) by lia.
    destruct (Hint 0%nat ltac:(lia)) as [st Ecalc]. rewrite N.add_0_r in Ecalc.
    assert (Hli : length info0 = 8%nat) by (unfold info0; eapply info0_len; eassumption).
    assert (Hlh : length (nth (N.to_nat ch) HF []) = 12%nat) by (eapply hop0_len; eassumption).
    set (hop0 := nth (N.to_nat ch) HF []) in *.
    assert (HT : (N.to_nat ch < length T)%nat) by (unfold T; rewrite map_length; lia).
    assert (Eslice : slice = tl1 hop0 :: firstn (length kr) (skipn (S (N.to_nat ch)) T)).
    { unfold slice. rewrite (skipn_cons_nth T (N.to_nat ch) (tl1 []) HT). cbn [firstn]. f_equal.
      unfold T. now rewrite map_nth. }
    rewrite Eslice in Hrun. cbn [run_ok] in Hrun. destruct Hrun as [Hmac Hrest].
    assert (Hmac' : mac_ok cmac k (beta_used ci ch IF HF fi) (if_ts info0) hop0).
    { apply (mac_ok_tl _ _ _ _ _ Hlh). unfold beta_used. fold info0 hop0. rewrite (sigma_tl _ Hlh). exact Hmac. }
    destruct (as_forwards_authentic cmac k ci ch rsv s0 s1 s2 IF HF Hm Hs Hci Hch HbI HbH fi st Ecalc ltac:(lia) ltac:(lia) Hmac')
      as (info' & hop' & eg & Eproc & Hfo & Hso & Eseg & Hbi' & Hbh').
    fold info0 hop0 in Hfo, Hso, Eseg.
    cbn [run_of forwarded_through]. rewrite Eproc.
    set (IF1 := upd IF (N.to_nat ci) info'). set (HF1 := upd HF (N.to_nat ch) hop').
    assert (Hm1 : meta_ok ci (ch + 1) rsv s0 s1 s2) by (unfold meta_ok in *; lia).
    assert (Hs1 : shaped s0 s1 s2 IF1 HF1).
    { apply shaped_upd; auto; try lia; [destruct Hso as [Hl _]; lia|destruct Hfo as [Hl _]; lia]. }
    assert (Hci1 : ci < N.of_nat (length IF1)) by (unfold IF1; rewrite upd_length; lia).
    assert (HbI1 : Forall (fun f => bytes_ok f = true) IF1) by (apply Forall_upd; assumption).
    assert (HbH1 : Forall (fun f => bytes_ok f = true) HF1) by (apply Forall_upd; assumption).
    assert (Hlen1 : length HF1 = length HF) by (unfold HF1; apply upd_length; lia).
    assert (HlenI1 : length IF1 = length IF) by (unfold IF1; apply upd_length; lia).
    assert (Hinfo1 : nth (N.to_nat ci) IF1 [] = info') by (unfold IF1; apply nth_upd_same; lia).
    assert (HT1 : map tl1 HF1 = T).
    { unfold HF1, T. apply (map_upd_same tl1 HF (N.to_nat ch) hop' []); [lia|]. apply hop_flags_only_tl. exact Hfo. }
    destruct (info_segid_only_fields _ _ Hli Hso) as (_ & Ets & Ecd).
    assert (Esid : if_segid info' = step_segid (if_cons_dir info0) fi (if_segid info0) (tl1 hop0)).
    { rewrite Eseg. unfold step_segid, beta_used. fold info0 hop0. rewrite (sigma_tl _ Hlh).
      destruct (if_cons_dir info0); [now rewrite orb_true_r|]. rewrite orb_false_r. destruct fi; reflexivity. }
    change (match kr with [] => [] | _ => _ end) with (run_of cmac false kr) || idtac.
    assert (Erun : (match kr with
                    | [] => []
                    | _ :: _ => map (fun k' => (hop_mac_validator cmac k', false)) kr
                    end) = run_of cmac false kr) by (destruct kr; reflexivity).
    destruct (IH false ci (ch + 1) rsv s0 s1 s2 IF1 HF1 Hm1 Hs1 Hci1 HbI1 HbH1) as (IF' & HF' & Efw & Hs' & HbI' & HbH' & HT' & HlI' & Hoth & Hso' & Eseg').
    + rewrite Hlen1. lia.
    + lia.
    + intros i Hi. destruct (Hint (S i) ltac:(lia)) as [st' E']. exists st'. rewrite <- E'. f_equal. lia.
    + rewrite Hinfo1, HT1, Ecd, Ets, Esid. replace (N.to_nat (ch + 1)) with (S (N.to_nat ch)) by lia. exact Hrest.
    + exists IF', HF'.
      assert (Efw2 : forwarded_through (map (fun k' => (hop_mac_validator cmac k', false)) kr)
                                       (assemble ci (ch + 1) rsv s0 s1 s2 IF1 HF1)
                     = Some (assemble ci (ch + N.succ (N.of_nat (length kr))) rsv s0 s1 s2 IF' HF')).
      { destruct kr as [|k2 kr']; [|].
        - cbn [run_of forwarded_through length map] in *. rewrite Efw. f_equal. f_equal. cbn. lia.
        - cbn [run_of map length] in Efw |- *. rewrite Efw. f_equal. f_equal. cbn [length]. lia. }
      rewrite Efw2.
      refine (conj eq_refl (conj Hs' (conj HbI' (conj HbH' (conj _ (conj _ (conj _ (conj _ _)))))))).
      * now rewrite HT', HT1.
      * now rewrite HlI', HlenI1.
      * intros i Hi. rewrite (Hoth i Hi). unfold IF1. apply nth_upd_other; lia.
      * rewrite Hinfo1 in Hso'. eapply info_segid_only_trans; eassumption.
      * rewrite Eseg', Hinfo1, HT1, Ecd, Esid, Eslice. cbn [run_segid].
        replace (N.to_nat (ch + 1)) with (S (N.to_nat ch)) by lia. reflexivity.
Qed.
End Run.

(** * the final AS and the AS at a segment change, with the state afterwards *)
Lemma sigma_lt16 hop : bytes_ok hop = true -> sigma hop < 2 ^ 16.
Proof.
  intros Hb. unfold sigma. apply (N.lt_le_trans _ (256 ^ N.of_nat (length (firstn 2 (hf_mac hop))))).
  - apply be_val_lt. unfold hf_mac, get_range, bytes_ok in *. apply forallb_forall. intros x Hx.
    apply In_firstn' in Hx. apply In_firstn' in Hx. apply In_skipn' in Hx. rewrite forallb_forall in Hb. auto.
  - change (2 ^ 16) with (256 ^ 2). apply N.pow_le_mono_r; [lia|]. rewrite firstn_length. lia.
Qed.

Lemma eg_info_segid info hop :
  length info = 8%nat -> bytes_ok info = true -> bytes_ok hop = true ->
  if_segid (eg_info info hop) = (if if_cons_dir info then N.lxor (if_segid info) (sigma hop) else if_segid info).
Proof.
  intros Hl Hbi Hbh. unfold eg_info. destruct (if_cons_dir info); [|reflexivity].
  apply if_segid_set; [exact Hl|]. unfold mac_beta_step. fold (sigma hop).
  apply (lxor_lt_pow2 _ _ 16); [apply field16_lt; exact Hbi|apply sigma_lt16; exact Hbh].
Qed.

Section Pieces.
Variable cmac : list N -> list N -> list N.
Variable key : list N.
Variables ci ch rsv s0 s1 s2 : N.
Variables IF HF : list (list N).
Hypothesis Hm : meta_ok ci ch rsv s0 s1 s2.
Hypothesis Hs : shaped s0 s1 s2 IF HF.
Hypothesis HbI : Forall (fun f => bytes_ok f = true) IF.
Hypothesis HbH : Forall (fun f => bytes_ok f = true) HF.
Let info0 := nth (N.to_nat ci) IF [].
Let hop0 := nth (N.to_nat ch) HF [].

Lemma last_state fi st :
  ci < N.of_nat (length IF) -> ch < N.of_nat (length HF) ->
  calc_seg_idx_aux ch 0 0 [s0; s1; s2] = Some (ci, st, true) -> st = false ->
  N.of_nat (length HF) <= ch + 1 ->
  mac_okT cmac key (step_beta (if_cons_dir info0) fi (if_segid info0) (tl1 hop0)) (if_ts info0) (tl1 hop0) ->
  exists IF' HF',
    process_at_as (hop_mac_validator cmac key) fi (assemble ci ch rsv s0 s1 s2 IF HF)
    = (assemble ci ch rsv s0 s1 s2 IF' HF', Delivered)
    /\ shaped s0 s1 s2 IF' HF'
    /\ Forall (fun f => bytes_ok f = true) IF' /\ Forall (fun f => bytes_ok f = true) HF'
    /\ map tl1 HF' = map tl1 HF /\ length IF' = length IF
    /\ (forall i, i <> N.to_nat ci -> nth i IF' [] = nth i IF [])
    /\ info_segid_only info0 (nth (N.to_nat ci) IF' [])
    /\ if_segid (nth (N.to_nat ci) IF' []) = step_beta (if_cons_dir info0) fi (if_segid info0) (tl1 hop0).
Proof.
  intros Hci Hch Ecalc -> Hfin Hmac.
  assert (Hli : length info0 = 8%nat) by (unfold info0; eapply info0_len; eassumption).
  assert (Hlh : length hop0 = 12%nat) by (unfold hop0; eapply hop0_len; eassumption).
  destruct (ing_info_segid cmac ci ch s0 s1 s2 IF HF Hs Hci Hch HbI HbH fi) as (Eseg & Ets & Ecd).
  fold info0 hop0 in Eseg, Ets, Ecd.
  assert (Ebeta : beta_used ci ch IF HF fi = step_beta (if_cons_dir info0) fi (if_segid info0) (tl1 hop0)).
  { unfold beta_used, step_beta. fold info0 hop0. now rewrite (sigma_tl _ Hlh). }
  assert (Harm : (N.of_nat (length HF) <=? ch + 1) = true) by lia.
  unfold process_at_as.
  rewrite (ingress_fwd (hop_mac_validator cmac key) _ _ _ _ _ _ _ _ Hm Hs Hci Hch fi false true Ecalc eq_refl Harm).
  fold hop0 info0.
  set (info1 := ing_info fi info0 hop0) in *. set (hop1 := ing_hop fi info0 hop0).
  assert (Ev1 : v_hop (hop_mac_validator cmac key) ch hop0 info1 false true = None).
  { cbn [v_hop hop_mac_validator]. apply hop_mac_check_none. rewrite Eseg, Ets, Ebeta.
    apply (mac_ok_tl _ _ _ _ _ Hlh). exact Hmac. }
  rewrite Ev1. cbn [vresult io_action].
  pose proof (ing_info_only fi info0 hop0 Hli) as Ho1. fold info1 in Ho1.
  pose proof (ing_hop_only fi info0 hop0 Hlh) as Ho2. fold hop1 in Ho2.
  exists (upd IF (N.to_nat ci) info1), (upd HF (N.to_nat ch) hop1).
  assert (Hbi0 : bytes_ok info0 = true) by (unfold info0; now apply Forall_nth_ok).
  assert (Hbh0 : bytes_ok hop0 = true) by (unfold hop0; now apply Forall_nth_ok).
  refine (conj eq_refl (conj _ (conj _ (conj _ (conj _ (conj _ (conj _ (conj _ _)))))))).
  - apply shaped_upd; auto; try lia; [destruct Ho1 as [Hl _]; lia|destruct Ho2 as [Hl _]; lia].
  - apply Forall_upd; [exact HbI|]. now apply ing_info_bytes_ok.
  - apply Forall_upd; [exact HbH|]. now apply ing_hop_bytes_ok.
  - apply (map_upd_same tl1 HF (N.to_nat ch) hop1 []); [lia|]. apply hop_flags_only_tl. exact Ho2.
  - apply upd_length. lia.
  - intros i Hi. apply nth_upd_other; lia.
  - rewrite nth_upd_same by lia. exact Ho1.
  - rewrite nth_upd_same by lia. now rewrite Eseg, Ebeta.
Qed.

Let nh := nth (N.to_nat (ch + 1)) HF [].
Let ni := nth (N.to_nat (ci + 1)) IF [].

Lemma cross_state fi :
  ci + 1 < N.of_nat (length IF) -> ch + 2 < N.of_nat (length HF) -> ch + 2 <= 63 ->
  calc_seg_idx_aux ch 0 0 [s0; s1; s2] = Some (ci, false, true) ->
  calc_seg_idx_aux (ch + 1) 0 0 [s0; s1; s2] = Some (ci + 1, true, false) ->
  mac_okT cmac key (step_beta (if_cons_dir info0) fi (if_segid info0) (tl1 hop0)) (if_ts info0) (tl1 hop0) ->
  mac_okT cmac key (if_segid ni) (if_ts ni) (tl1 nh) ->
  exists IF' HF' eg,
    process_at_as (hop_mac_validator cmac key) fi (assemble ci ch rsv s0 s1 s2 IF HF)
    = (assemble (ci + 1) (ch + 2) rsv s0 s1 s2 IF' HF', Forwarded eg)
    /\ shaped s0 s1 s2 IF' HF'
    /\ Forall (fun f => bytes_ok f = true) IF' /\ Forall (fun f => bytes_ok f = true) HF'
    /\ map tl1 HF' = map tl1 HF /\ length IF' = length IF
    /\ (forall i, i <> N.to_nat ci -> i <> N.to_nat (ci + 1) -> nth i IF' [] = nth i IF [])
    /\ info_segid_only info0 (nth (N.to_nat ci) IF' [])
    /\ if_segid (nth (N.to_nat ci) IF' []) = step_beta (if_cons_dir info0) fi (if_segid info0) (tl1 hop0)
    /\ info_segid_only ni (nth (N.to_nat (ci + 1)) IF' [])
    /\ if_segid (nth (N.to_nat (ci + 1)) IF' []) = step_segid (if_cons_dir ni) true (if_segid ni) (tl1 nh).
Proof.
  intros Hci Hch Hfit Ec0 Ec1 Hmac0 Hmac1.
  assert (Hci0 : ci < N.of_nat (length IF)) by lia. assert (Hch0 : ch < N.of_nat (length HF)) by lia.
  assert (Hli : length info0 = 8%nat) by (unfold info0; eapply info0_len; eassumption).
  assert (Hlh : length hop0 = 12%nat) by (unfold hop0; eapply hop0_len; eassumption).
  assert (Hlni : length ni = 8%nat) by (unfold ni; eapply info0_len; eassumption).
  assert (Hch1' : ch + 1 < N.of_nat (length HF)) by lia.
  assert (Hlnh : length nh = 12%nat) by (unfold nh; eapply hop0_len; eassumption).
  assert (Hbni : bytes_ok ni = true) by (unfold ni; now apply Forall_nth_ok).
  assert (Hbnh : bytes_ok nh = true) by (unfold nh; now apply Forall_nth_ok).
  destruct (ing_info_segid cmac ci ch s0 s1 s2 IF HF Hs Hci0 Hch0 HbI HbH fi) as (Eseg & Ets & Ecd).
  fold info0 hop0 in Eseg, Ets, Ecd.
  assert (Ebeta : beta_used ci ch IF HF fi = step_beta (if_cons_dir info0) fi (if_segid info0) (tl1 hop0)).
  { unfold beta_used, step_beta. fold info0 hop0. now rewrite (sigma_tl _ Hlh). }
  set (info1 := ing_info fi info0 hop0) in *. set (hop1 := ing_hop fi info0 hop0).
  pose proof (ing_info_only fi info0 hop0 Hli) as Ho1. fold info1 in Ho1.
  pose proof (ing_hop_only fi info0 hop0 Hlh) as Ho2. fold hop1 in Ho2.
  assert (Hl1 : length info1 = 8%nat) by (destruct Ho1 as [Hl _]; lia).
  assert (Hl2 : length hop1 = 12%nat) by (destruct Ho2 as [Hl _]; lia).
  unfold process_at_as.
  rewrite (ingress_fwd_cross (hop_mac_validator cmac key) _ _ _ _ _ _ _ _ Hm Hs Hci ltac:(lia) ltac:(lia) fi Ec0).
  fold hop0 info0 info1 hop1 nh ni.
  assert (Ev0 : v_hop (hop_mac_validator cmac key) ch hop0 info1 false true = None).
  { cbn [v_hop hop_mac_validator]. apply hop_mac_check_none. rewrite Eseg, Ets, Ebeta.
    apply (mac_ok_tl _ _ _ _ _ Hlh). exact Hmac0. }
  assert (Ev1 : forall i st en, v_hop (hop_mac_validator cmac key) i nh ni st en = None).
  { intros. cbn [v_hop hop_mac_validator]. apply hop_mac_check_none. apply (mac_ok_tl _ _ _ _ _ Hlnh). exact Hmac1. }
  rewrite Ev0, Ev1. cbn [v_seg hop_mac_validator or_else vresult io_action].
  assert (Hi' : (N.to_nat ci < length IF)%nat) by lia. assert (Hh' : (N.to_nat ch < length HF)%nat) by lia.
  pose proof (sh_if_cnt _ _ _ _ _ Hs) as Hni.
  assert (Hci3 : ci + 1 < 4) by (unfold nz in Hni; destruct (s0 =? 0), (s1 =? 0), (s2 =? 0); lia).
  assert (Hm2 : meta_ok (ci + 1) (ch + 1) rsv s0 s1 s2) by (unfold meta_ok in *; lia).
  set (IF1 := upd IF (N.to_nat ci) info1). set (HF1 := upd HF (N.to_nat ch) hop1).
  assert (Hs1 : shaped s0 s1 s2 IF1 HF1) by (apply shaped_upd; auto).
  assert (Hci1 : ci + 1 < N.of_nat (length IF1)) by (unfold IF1; rewrite upd_length; lia).
  assert (Hch1 : ch + 1 < N.of_nat (length HF1)) by (unfold HF1; rewrite upd_length; lia).
  assert (Hnf1 : ch + 1 + 1 < N.of_nat (length HF1)) by (unfold HF1; rewrite upd_length; lia).
  rewrite (egress_fwd (hop_mac_validator cmac key) _ _ _ _ _ _ _ _ Hm2 Hs1 Hci1 Hch1 true Ec1 Hnf1 ltac:(lia)).
  assert (En1 : nth (N.to_nat (ch + 1)) HF1 [] = nh) by (unfold HF1; apply nth_upd_other; lia).
  assert (En2 : nth (N.to_nat (ci + 1)) IF1 [] = ni) by (unfold IF1; apply nth_upd_other; lia).
  rewrite En1, En2, Ev1. cbn [vresult].
  replace (ch + 1 + 1) with (ch + 2) by lia.
  assert (Hbi0 : bytes_ok info0 = true) by (unfold info0; now apply Forall_nth_ok).
  assert (Hbh0 : bytes_ok hop0 = true) by (unfold hop0; now apply Forall_nth_ok).
  assert (HbI1 : Forall (fun f => bytes_ok f = true) IF1) by (apply Forall_upd; [exact HbI|now apply ing_info_bytes_ok]).
  assert (HbH1 : Forall (fun f => bytes_ok f = true) HF1) by (apply Forall_upd; [exact HbH|now apply ing_hop_bytes_ok]).
  pose proof (eg_info_only ni nh Hlni) as Ho3. pose proof (eg_hop_only ni nh Hlnh) as Ho4.
  eexists. eexists. eexists. split; [reflexivity|].
  assert (HlI1 : length IF1 = length IF) by (unfold IF1; apply upd_length; lia).
  assert (HlH1 : length HF1 = length HF) by (unfold HF1; apply upd_length; lia).
  refine (conj _ (conj _ (conj _ (conj _ (conj _ (conj _ (conj _ (conj _ (conj _ _))))))))).
  - apply shaped_upd; auto; try lia; [destruct Ho3 as [Hl _]; lia|destruct Ho4 as [Hl _]; lia].
  - apply Forall_upd; [exact HbI1|]. now apply eg_info_bytes_ok.
  - apply Forall_upd; [exact HbH1|]. now apply eg_hop_bytes_ok.
  - rewrite (map_upd_same tl1 HF1 (N.to_nat (ch + 1)) _ []); [|lia|rewrite En1; apply hop_flags_only_tl; exact Ho4].
    unfold HF1. apply (map_upd_same tl1 HF (N.to_nat ch) hop1 []); [lia|]. apply hop_flags_only_tl. exact Ho2.
  - rewrite upd_length by lia. exact HlI1.
  - intros i Hi1 Hi2. rewrite nth_upd_other by lia. unfold IF1. apply nth_upd_other; lia.
  - rewrite nth_upd_other by lia. unfold IF1. rewrite nth_upd_same by lia. exact Ho1.
  - rewrite nth_upd_other by lia. unfold IF1. rewrite nth_upd_same by lia. now rewrite Eseg, Ebeta.
  - rewrite nth_upd_same by lia. exact Ho3.
  - rewrite nth_upd_same by lia. rewrite (eg_info_segid ni nh Hlni Hbni Hbnh).
    unfold step_segid. rewrite (sigma_tl _ Hlnh). destruct (if_cons_dir ni); reflexivity.
Qed.
End Pieces.

(** * whole segments and whole paths *)
Lemma info_len8 s0 s1 s2 IF HF i :
  shaped s0 s1 s2 IF HF -> i < N.of_nat (length IF) -> length (nth (N.to_nat i) IF []) = 8%nat.
Proof.
  intros Hs Hi. pose proof (sh_if_len _ _ _ _ _ Hs) as Ha. unfold all_len in Ha. rewrite Forall_forall in Ha.
  apply Ha, nth_In. lia.
Qed.

Lemma forwarded_through_app {E} (l1 l2 : list (validator E * bool)) b :
  forwarded_through (l1 ++ l2) b
  = match forwarded_through l1 b with Some b1 => forwarded_through l2 b1 | None => None end.
Proof.
  revert b. induction l1 as [|[v fi] l1 IH]; intros b; cbn [app forwarded_through]; [reflexivity|].
  destruct (process_at_as v fi b) as [b1 r]. destruct r; try reflexivity. apply IH.
Qed.

Lemma firstn_snoc {A} (l : list A) k d : (k < length l)%nat -> firstn (S k) l = firstn k l ++ [nth k l d].
Proof.
  revert k. induction l as [|x l IH]; intros k H; cbn [length] in H; [lia|].
  destruct k as [|k]; [reflexivity|]. cbn [firstn nth app]. f_equal. apply IH. lia.
Qed.
Lemma seq_snoc a k : seq a (S k) = seq a k ++ [(a + k)%nat].
Proof. rewrite seq_S. reflexivity. Qed.
Lemma nth_skipn {A} (l : list A) a i d : nth i (skipn a l) d = nth (a + i) l d.
Proof.
  revert l. induction a as [|a IH]; intros l; [reflexivity|].
  destruct l as [|x l]; [now destruct i|]. cbn [skipn Nat.add nth]. apply IH.
Qed.

Section Walk.
Variable cmac : list N -> list N -> list N.
Variable keyf : nat -> list N.
Variables rsv s0 s1 s2 : N.
Variable T : list (list N).      (* the tails of all hop fields, in wire order: never changes *)
Variable IF0 : list (list N).    (* the info fields at the start: CONS_DIR, timestamp, SegIDs *)
Hypothesis Htot : N.of_nat (length T) = s0 + s1 + s2.
Hypothesis H64 : s0 + s1 + s2 <= 64.

Fixpoint seg_ok (cons : bool) (ts : N) (fi : bool) (s : N) (tails keys : list (list N)) : Prop :=
  match tails, keys with
  | t :: r, k :: kr =>
    mac_okT cmac k (step_beta cons fi s t) ts t
    /\ match r with [] => True | _ :: _ => seg_ok cons ts false (step_segid cons fi s t) r kr end
  | _, _ => True
  end.
Fixpoint seg_end (cons fi : bool) (s : N) (tails : list (list N)) : N :=
  match tails with
  | [] => s
  | t :: r => match r with [] => step_beta cons fi s t | _ :: _ => seg_end cons false (step_segid cons fi s t) r end
  end.

Lemma seg_ok_split cons ts pre : forall fi s kpre t k,
  length pre = length kpre -> (fi = false \/ pre <> []) ->
  (seg_ok cons ts fi s (pre ++ [t]) (kpre ++ [k])
   <-> run_ok cmac cons ts fi s pre kpre /\ mac_okT cmac k (step_beta cons false (run_segid cons fi s pre) t) ts t)
  /\ seg_end cons fi s (pre ++ [t]) = step_beta cons false (run_segid cons fi s pre) t.
Proof.
  induction pre as [|x pre IH]; intros fi s kpre t k Hl Hfi.
  - destruct kpre; [|discriminate]. destruct Hfi as [->|Hn]; [|congruence].
    cbn [app seg_ok run_ok run_segid seg_end]. tauto.
  - destruct kpre as [|y kpre]; [discriminate|]. cbn [length] in Hl.
    destruct (IH false (step_segid cons fi s x) kpre t k ltac:(lia) (or_introl eq_refl)) as [IH1 IH2].
    cbn [app seg_ok run_ok run_segid seg_end].
    destruct (pre ++ [t]) as [|z r] eqn:E; [destruct pre; discriminate|].
    split; [|exact IH2]. rewrite IH1. tauto.
Qed.

(** hypotheses of a walk from hop [ch] ([m] hops left in the current segment [ci], whose SegID
    is [s]; [ns]: lengths of the segments after it): every AS finds the MAC of its hop field(s)
    under the chaining value obtained by XOR-folding along the wire *)
Definition calc (h : N) := calc_seg_idx_aux h 0 0 [s0; s1; s2].

Fixpoint walk_ok (ns : list nat) (fi : bool) (ci ch s : N) (m : nat) : Prop :=
  let info := nth (N.to_nat ci) IF0 [] in
  let e := ch + N.of_nat (m - 1) in
  (fi = false \/ (2 <= m)%nat) /\ (1 <= m)%nat /\ ci < N.of_nat (length IF0)
  /\ (forall i, (i < m - 1)%nat -> exists st, calc (ch + N.of_nat i) = Some (ci, st, false))
  /\ seg_ok (if_cons_dir info) (if_ts info) fi s (firstn m (skipn (N.to_nat ch) T)) (map keyf (seq (N.to_nat ch) m))
  /\ match ns with
     | [] => calc e = Some (ci, false, true) /\ N.of_nat (length T) <= e + 1
     | n :: ns' =>
       calc e = Some (ci, false, true) /\ calc (e + 1) = Some (ci + 1, true, false)
       /\ e + 2 < N.of_nat (length T) /\ e + 2 <= 63 /\ (2 <= n)%nat
       /\ ci + 1 < N.of_nat (length IF0)
       /\ let ni := nth (N.to_nat (ci + 1)) IF0 [] in
          let t1 := nth (N.to_nat (e + 1)) T [] in
          mac_okT cmac (keyf (N.to_nat e)) (if_segid ni) (if_ts ni) t1
          /\ walk_ok ns' false (ci + 1) (e + 2) (step_segid (if_cons_dir ni) true (if_segid ni) t1) (n - 1)
     end.

(** the ASes that forward, the hop at which the packet is delivered, the SegIDs at the end *)
Fixpoint ases (ns : list nat) (fi : bool) (ch : N) (m : nat) : list (validator (list N * list N) * bool) :=
  run_of cmac fi (map keyf (seq (N.to_nat ch) (m - 1)))
  ++ match ns with
     | [] => []
     | n :: ns' =>
       let e := ch + N.of_nat (m - 1) in
       (hop_mac_validator cmac (keyf (N.to_nat e)), false) :: ases ns' false (e + 2) (n - 1)
     end.
Fixpoint last_hop (ns : list nat) (ch : N) (m : nat) : N :=
  let e := ch + N.of_nat (m - 1) in
  match ns with [] => e | n :: ns' => last_hop ns' (e + 2) (n - 1) end.
Fixpoint end_segids (ns : list nat) (fi : bool) (ci ch s : N) (m : nat) : list N :=
  let info := nth (N.to_nat ci) IF0 [] in
  let e := ch + N.of_nat (m - 1) in
  seg_end (if_cons_dir info) fi s (firstn m (skipn (N.to_nat ch) T))
  :: match ns with
     | [] => []
     | n :: ns' =>
       let ni := nth (N.to_nat (ci + 1)) IF0 [] in
       let t1 := nth (N.to_nat (e + 1)) T [] in
       end_segids ns' false (ci + 1) (e + 2) (step_segid (if_cons_dir ni) true (if_segid ni) t1) (n - 1)
     end.

Lemma static_fields IF i :
  (forall j, info_segid_only (nth j IF0 []) (nth j IF [])) -> length (nth i IF []) = 8%nat ->
  if_cons_dir (nth i IF []) = if_cons_dir (nth i IF0 []) /\ if_ts (nth i IF []) = if_ts (nth i IF0 []).
Proof.
  intros H Hl. specialize (H i). assert (Hl0 : length (nth i IF0 []) = 8%nat) by (destruct H as [E _]; lia).
  destruct (info_segid_only_fields _ _ Hl0 H) as (_ & E1 & E2). auto.
Qed.

Lemma walk_from ns : forall fi ci ch s m IF HF,
  meta_ok ci ch rsv s0 s1 s2 -> shaped s0 s1 s2 IF HF ->
  Forall (fun f => bytes_ok f = true) IF -> Forall (fun f => bytes_ok f = true) HF ->
  map tl1 HF = T -> length IF = length IF0 ->
  (forall i, info_segid_only (nth i IF0 []) (nth i IF [])) ->
  (forall i, (N.to_nat ci < i)%nat -> nth i IF [] = nth i IF0 []) ->
  if_segid (nth (N.to_nat ci) IF []) = s ->
  walk_ok ns fi ci ch s m ->
  exists IF1 HF1 IF' HF',
    let ci1 := ci + N.of_nat (length ns) in
    let el := last_hop ns ch m in
    forwarded_through (ases ns fi ch m) (assemble ci ch rsv s0 s1 s2 IF HF)
    = Some (assemble ci1 el rsv s0 s1 s2 IF1 HF1)
    /\ process_at_as (hop_mac_validator cmac (keyf (N.to_nat el))) false (assemble ci1 el rsv s0 s1 s2 IF1 HF1)
       = (assemble ci1 el rsv s0 s1 s2 IF' HF', Delivered)
    /\ N.of_nat (length T) = el + 1
    /\ shaped s0 s1 s2 IF' HF'
    /\ Forall (fun f => bytes_ok f = true) IF' /\ Forall (fun f => bytes_ok f = true) HF'
    /\ map tl1 HF' = T /\ length IF' = length IF0
    /\ (forall i, info_segid_only (nth i IF0 []) (nth i IF' []))
    /\ (forall i, (i < N.to_nat ci)%nat -> nth i IF' [] = nth i IF [])
    /\ (forall j, (j < S (length ns))%nat ->
          if_segid (nth (N.to_nat ci + j) IF' []) = nth j (end_segids ns fi ci ch s m) 0).
Proof.
  induction ns as [|n ns IH]; intros fi ci ch s m IF HF Hm Hs HbI HbH HT HlI Hstat Hlater Hsid Hw.
  - (* last segment *)
    cbn [walk_ok] in Hw. destruct Hw as (Hfi & Hm1 & Hci0 & Hint & Hseg & Ecalc & Hfin).
    set (e := ch + N.of_nat (m - 1)) in *.
    assert (HlH : length HF = length T) by (rewrite <- HT; now rewrite map_length).
    pose proof (calc_some_lt _ _ _ _ _ Ecalc) as Helt. rewrite <- Htot in Helt.
    assert (Hci : ci < N.of_nat (length IF)) by lia.
    assert (Hl8 : length (nth (N.to_nat ci) IF []) = 8%nat) by (eapply info_len8; eassumption).
    destruct (static_fields IF (N.to_nat ci) Hstat Hl8) as [Ecd Ets].
    (* split the segment into its interior run and its last hop *)
    assert (Em : m = S (m - 1)) by lia.
    assert (Hsl : firstn m (skipn (N.to_nat ch) T)
                  = firstn (m - 1) (skipn (N.to_nat ch) T) ++ [nth (N.to_nat e) T []]).
    { rewrite Em at 1. rewrite (firstn_snoc _ (m - 1) []) by (rewrite skipn_length; lia).
      rewrite nth_skipn. replace (N.to_nat ch + (m - 1))%nat with (N.to_nat e) by (unfold e; lia). reflexivity. }
    assert (Hks : map keyf (seq (N.to_nat ch) m)
                  = map keyf (seq (N.to_nat ch) (m - 1)) ++ [keyf (N.to_nat e)]).
    { rewrite Em at 1. rewrite seq_snoc, map_app. cbn [map].
      replace (N.to_nat ch + (m - 1))%nat with (N.to_nat e) by (unfold e; lia). reflexivity. }
    rewrite Hsl, Hks in Hseg.
    destruct (seg_ok_split (if_cons_dir (nth (N.to_nat ci) IF0 [])) (if_ts (nth (N.to_nat ci) IF0 []))
                (firstn (m - 1) (skipn (N.to_nat ch) T)) fi s (map keyf (seq (N.to_nat ch) (m - 1)))
                (nth (N.to_nat e) T []) (keyf (N.to_nat e))) as [Hsplit Hend].
    { rewrite firstn_length, skipn_length, map_length, seq_length. lia. }
    { destruct Hfi as [->|H2]; [now left|right]. intros E. apply (f_equal (@length _)) in E.
      rewrite firstn_length, skipn_length in E. cbn in E. lia. }
    apply Hsplit in Hseg. destruct Hseg as [Hrun Hmac].
    (* the interior run *)
    destruct (run_state cmac (map keyf (seq (N.to_nat ch) (m - 1))) fi ci ch rsv s0 s1 s2 IF HF Hm Hs Hci HbI HbH)
      as (IF1 & HF1 & Efw & Hs1 & HbI1 & HbH1 & HT1 & HlI1 & Hoth1 & Hso1 & Esid1).
    { rewrite map_length, seq_length. lia. }
    { rewrite map_length, seq_length. lia. }
    { intros i Hi. rewrite map_length, seq_length in Hi. apply Hint. exact Hi. }
    { rewrite map_length, seq_length, HT, Ecd, Ets, Hsid. exact Hrun. }
    rewrite map_length, seq_length in Efw, Esid1. rewrite HT, Ecd, Hsid in Esid1. rewrite HT in HT1.
    fold e in Efw.
    (* the last hop *)
    assert (Hm1' : meta_ok ci e rsv s0 s1 s2) by (unfold meta_ok in *; lia).
    assert (Hci1 : ci < N.of_nat (length IF1)) by lia.
    assert (Hch1 : e < N.of_nat (length HF1)) by (rewrite <- (map_length tl1 HF1), HT1; lia).
    assert (Hl81 : length (nth (N.to_nat ci) IF1 []) = 8%nat) by (eapply info_len8; eassumption).
    destruct (info_segid_only_fields _ _ Hl8 Hso1) as (_ & Ets1 & Ecd1).
    assert (Etl : tl1 (nth (N.to_nat e) HF1 []) = nth (N.to_nat e) T []).
    { rewrite <- HT1. change [] with (tl1 []) at 2. now rewrite map_nth. }
    destruct (last_state cmac (keyf (N.to_nat e)) ci e rsv s0 s1 s2 IF1 HF1 Hm1' Hs1 HbI1 HbH1 false false Hci1 Hch1 Ecalc eq_refl)
      as (IF' & HF' & Eproc & Hs' & HbI' & HbH' & HT' & HlI' & Hoth' & Hso' & Esid').
    { rewrite <- (map_length tl1 HF1), HT1. exact Hfin. }
    { rewrite Etl, Ecd1, Ets1, Ecd, Ets, Esid1. exact Hmac. }
    exists IF1, HF1, IF', HF'. cbn [length last_hop ases N.of_nat]. rewrite N.add_0_r, app_nil_r. fold e.
    assert (Hfin' : N.of_nat (length T) = e + 1) by lia.
    refine (conj Efw (conj Eproc (conj Hfin' (conj Hs' (conj HbI' (conj HbH' (conj _ (conj _ (conj _ (conj _ _)))))))))).
    + now rewrite HT', HT1.
    + lia.
    + intros i. destruct (Nat.eq_dec i (N.to_nat ci)) as [->|Hne].
      * eapply info_segid_only_trans; [apply Hstat|]. eapply info_segid_only_trans; eassumption.
      * rewrite (Hoth' i Hne), (Hoth1 i Hne). apply Hstat.
    + intros i Hi. rewrite (Hoth' i ltac:(lia)), (Hoth1 i ltac:(lia)). reflexivity.
    + intros j Hj. assert (j = 0)%nat by lia. subst j. rewrite Nat.add_0_r. cbn [end_segids nth].
      rewrite Esid', Etl, Ecd1, Ecd, Esid1, Hsl. symmetry. exact Hend.
  - (* a segment followed by others *)
    cbn [walk_ok] in Hw. destruct Hw as (Hfi & Hm1 & Hci0 & Hint & Hseg & Ecalc & Ecalc1 & He2 & He63 & Hn2 & Hci01 & Hmacn & Hwn).
    set (e := ch + N.of_nat (m - 1)) in *.
    assert (HlH : length HF = length T) by (rewrite <- HT; now rewrite map_length).
    assert (Hci : ci < N.of_nat (length IF)) by lia.
    assert (Hl8 : length (nth (N.to_nat ci) IF []) = 8%nat) by (eapply info_len8; eassumption).
    destruct (static_fields IF (N.to_nat ci) Hstat Hl8) as [Ecd Ets].
    assert (Em : m = S (m - 1)) by lia.
    assert (Hsl : firstn m (skipn (N.to_nat ch) T)
                  = firstn (m - 1) (skipn (N.to_nat ch) T) ++ [nth (N.to_nat e) T []]).
    { rewrite Em at 1. rewrite (firstn_snoc _ (m - 1) []) by (rewrite skipn_length; lia).
      rewrite nth_skipn. replace (N.to_nat ch + (m - 1))%nat with (N.to_nat e) by (unfold e; lia). reflexivity. }
    assert (Hks : map keyf (seq (N.to_nat ch) m)
                  = map keyf (seq (N.to_nat ch) (m - 1)) ++ [keyf (N.to_nat e)]).
    { rewrite Em at 1. rewrite seq_snoc, map_app. cbn [map].
      replace (N.to_nat ch + (m - 1))%nat with (N.to_nat e) by (unfold e; lia). reflexivity. }
    rewrite Hsl, Hks in Hseg.
    destruct (seg_ok_split (if_cons_dir (nth (N.to_nat ci) IF0 [])) (if_ts (nth (N.to_nat ci) IF0 []))
                (firstn (m - 1) (skipn (N.to_nat ch) T)) fi s (map keyf (seq (N.to_nat ch) (m - 1)))
                (nth (N.to_nat e) T []) (keyf (N.to_nat e))) as [Hsplit Hend].
    { rewrite firstn_length, skipn_length, map_length, seq_length. lia. }
    { destruct Hfi as [->|H2]; [now left|right]. intros E. apply (f_equal (@length _)) in E.
      rewrite firstn_length, skipn_length in E. cbn in E. lia. }
    apply Hsplit in Hseg. destruct Hseg as [Hrun Hmac].
    destruct (run_state cmac (map keyf (seq (N.to_nat ch) (m - 1))) fi ci ch rsv s0 s1 s2 IF HF Hm Hs Hci HbI HbH)
      as (IF1 & HF1 & Efw & Hs1 & HbI1 & HbH1 & HT1 & HlI1 & Hoth1 & Hso1 & Esid1).
    { rewrite map_length, seq_length. lia. }
    { rewrite map_length, seq_length. lia. }
    { intros i Hi. rewrite map_length, seq_length in Hi. apply Hint. exact Hi. }
    { rewrite map_length, seq_length, HT, Ecd, Ets, Hsid. exact Hrun. }
    rewrite map_length, seq_length in Efw, Esid1. rewrite HT, Ecd, Hsid in Esid1. rewrite HT in HT1.
    fold e in Efw.
    (* the crossover AS *)
    assert (Hm1' : meta_ok ci e rsv s0 s1 s2) by (unfold meta_ok in *; lia).
    assert (HlH1 : length HF1 = length T) by (rewrite <- HT1; now rewrite map_length).
    assert (Hl81 : length (nth (N.to_nat ci) IF1 []) = 8%nat) by (eapply info_len8; [eassumption|lia]).
    destruct (info_segid_only_fields _ _ Hl8 Hso1) as (_ & Ets1 & Ecd1).
    assert (Etl : forall j, tl1 (nth j HF1 []) = nth j T []).
    { intros j. rewrite <- HT1. change [] with (tl1 []) at 2. now rewrite map_nth. }
    assert (Eni : nth (N.to_nat (ci + 1)) IF1 [] = nth (N.to_nat (ci + 1)) IF0 []).
    { rewrite (Hoth1 (N.to_nat (ci + 1)) ltac:(lia)). apply Hlater. lia. }
    destruct (cross_state cmac (keyf (N.to_nat e)) ci e rsv s0 s1 s2 IF1 HF1 Hm1' Hs1 HbI1 HbH1 false)
      as (IF2 & HF2 & eg & Eproc & Hs2 & HbI2 & HbH2 & HT2 & HlI2 & Hoth2 & Hso2 & Esid2 & Hso2' & Esid2'); try lia.
    { exact Ecalc. } { exact Ecalc1. }
    { rewrite Etl, Ecd1, Ets1, Ecd, Ets, Esid1. exact Hmac. }
    { rewrite Eni, Etl. exact Hmacn. }
    rewrite Eni, Etl in Esid2'. rewrite Eni in Hso2'. rewrite HT1 in HT2.
    (* the remaining segments *)
    assert (Hm2 : meta_ok (ci + 1) (e + 2) rsv s0 s1 s2).
    { pose proof (sh_if_cnt _ _ _ _ _ Hs) as Hni. unfold meta_ok in *.
      assert (N.of_nat (length IF) <= 3) by (unfold nz in Hni; destruct (s0 =? 0), (s1 =? 0), (s2 =? 0); lia). lia. }
    destruct (IH false (ci + 1) (e + 2)
                (step_segid (if_cons_dir (nth (N.to_nat (ci + 1)) IF0 [])) true (if_segid (nth (N.to_nat (ci + 1)) IF0 []))
                            (nth (N.to_nat (e + 1)) T []))
                (n - 1)%nat IF2 HF2 Hm2 Hs2 HbI2 HbH2 HT2) as (IF3 & HF3 & IF' & HF' & Hres).
    + lia.
    + intros i. destruct (Nat.eq_dec i (N.to_nat ci)) as [->|Hne]; [|destruct (Nat.eq_dec i (N.to_nat (ci + 1))) as [->|Hne1]].
      * eapply info_segid_only_trans; [apply Hstat|]. eapply info_segid_only_trans; eassumption.
      * exact Hso2'.
      * rewrite (Hoth2 i Hne Hne1), (Hoth1 i Hne). apply Hstat.
    + intros i Hi. rewrite (Hoth2 i ltac:(lia) ltac:(lia)), (Hoth1 i ltac:(lia)). apply Hlater. lia.
    + exact Esid2'.
    + exact Hwn.
    + cbv zeta in Hres. destruct Hres as (Efw3 & Eproc3 & Hfin3 & Hs' & HbI' & HbH' & HT' & HlI' & Hstat' & Hbefore & Hsegids).
      exists IF3, HF3, IF', HF'. cbv zeta. cbn [length last_hop ases]. fold e.
      replace (ci + N.of_nat (S (length ns))) with (ci + 1 + N.of_nat (length ns)) by lia.
      refine (conj _ (conj Eproc3 (conj Hfin3 (conj Hs' (conj HbI' (conj HbH' (conj HT' (conj HlI' (conj Hstat' (conj _ _)))))))))).
      * rewrite forwarded_through_app, Efw. cbn [forwarded_through]. rewrite Eproc. exact Efw3.
      * intros i Hi. rewrite (Hbefore i ltac:(lia)), (Hoth2 i ltac:(lia) ltac:(lia)), (Hoth1 i ltac:(lia)). reflexivity.
      * intros j Hj. destruct j as [|j].
        -- rewrite Nat.add_0_r. cbn [end_segids nth]. rewrite (Hbefore (N.to_nat ci) ltac:(lia)), Esid2, Etl, Ecd1, Ecd, Esid1, Hsl.
           symmetry. exact Hend.
        -- cbn [end_segids nth]. fold e. rewrite <- (Hsegids j ltac:(lia)). do 2 f_equal. lia.
Qed.
End Walk.

(** * segments chained in construction order *)
Section Chains.
Variable cmac : list N -> list N -> list N.

Fixpoint cons_chainT (ts beta : N) (tails keys : list (list N)) : Prop :=
  match tails, keys with
  | t :: r, k :: kr => mac_okT cmac k beta ts t /\ cons_chainT ts (N.lxor beta (sigmaT t)) r kr
  | _, _ => True
  end.
Definition beta_afterT (beta : N) (tails : list (list N)) : N :=
  fold_left (fun b t => N.lxor b (sigmaT t)) tails beta.

Lemma beta_afterT_app beta l t : beta_afterT beta (l ++ [t]) = N.lxor (beta_afterT beta l) (sigmaT t).
Proof. unfold beta_afterT. now rewrite fold_left_app. Qed.
Lemma lxor_cancel a c : N.lxor (N.lxor a c) c = a.
Proof. now rewrite N.lxor_assoc, N.lxor_nilpotent, N.lxor_0_r. Qed.

Lemma cons_chainT_app ts beta hs ks h k :
  length hs = length ks ->
  cons_chainT ts beta (hs ++ [h]) (ks ++ [k])
  <-> cons_chainT ts beta hs ks /\ mac_okT cmac k (beta_afterT beta hs) ts h.
Proof.
  revert beta ks. induction hs as [|x hs IH]; intros beta [|y ks] Hl; cbn [length] in Hl; try lia.
  - cbn. tauto.
  - cbn [app cons_chainT beta_afterT fold_left]. rewrite (IH _ ks ltac:(lia)). unfold beta_afterT. tauto.
Qed.

(** travelled in construction direction *)
Lemma seg_ok_cons ts tails : forall fi beta keys,
  cons_chainT ts beta tails keys ->
  seg_ok cmac true ts fi beta tails keys
  /\ seg_end true fi beta tails = beta_afterT beta (removelast tails).
Proof.
  induction tails as [|t r IH]; intros fi beta keys H; [split; [destruct keys; exact I|reflexivity]|].
  destruct keys as [|k kr]; [split; [exact I|]|].
  - (* no keys: only the SegID evolution matters *)
    cbn [seg_end]. destruct r as [|t' r']; [unfold step_beta; now rewrite orb_true_r|].
    destruct (IH false (N.lxor beta (sigmaT t)) [] I) as [_ E]. unfold step_segid. rewrite E. reflexivity.
  - cbn [cons_chainT] in H. destruct H as [H1 H2].
    destruct (IH false (N.lxor beta (sigmaT t)) kr H2) as [IH1 IH2].
    cbn [seg_ok seg_end]. unfold step_beta, step_segid. rewrite orb_true_r.
    destruct r as [|t' r']; [split; [split; [exact H1|exact I]|reflexivity]|].
    split; [split; [exact H1|exact IH1]|]. rewrite IH2. reflexivity.
Qed.

(** travelled against construction direction, entered from outside *)
Lemma seg_ok_against_out ts tails : forall beta keys,
  length tails = length keys -> cons_chainT ts beta tails keys ->
  seg_ok cmac false ts false (beta_afterT beta tails) (rev tails) (rev keys)
  /\ seg_end false false (beta_afterT beta tails) (rev tails) = beta.
Proof.
  induction tails as [|c C IH] using rev_ind; intros beta keys Hl H; [split; [exact I|reflexivity]|].
  destruct keys as [|k0 K] using rev_ind; [rewrite app_length in Hl; cbn in Hl; lia|]. clear IHK.
  rewrite !app_length in Hl. cbn [length] in Hl.
  apply cons_chainT_app in H as [Hc Hmac]; [|lia].
  destruct (IH beta K ltac:(lia) Hc) as [IH1 IH2].
  rewrite !rev_app_distr, beta_afterT_app. cbn [rev app seg_ok seg_end].
  unfold step_beta, step_segid. cbn [orb]. rewrite lxor_cancel.
  destruct (rev C) as [|c' r'] eqn:Er.
  - split; [split; [exact Hmac|exact I]|].
    assert (C = []) by (destruct C; [reflexivity|]; apply (f_equal (@length _)) in Er; rewrite rev_length in Er; discriminate).
    subst C. reflexivity.
  - split; [split; [exact Hmac|exact IH1]|exact IH2].
Qed.

(** travelled against construction direction, the first AS entered from inside *)
Lemma seg_ok_against ts tails : forall beta keys,
  length tails = length keys -> tails <> [] -> cons_chainT ts beta tails keys ->
  seg_ok cmac false ts true (beta_afterT beta (removelast tails)) (rev tails) (rev keys)
  /\ seg_end false true (beta_afterT beta (removelast tails)) (rev tails) = beta.
Proof.
  intros beta keys Hl Hne H.
  destruct tails as [|c C] using rev_ind; [congruence|]. clear IHC.
  destruct keys as [|k0 K] using rev_ind; [rewrite app_length in Hl; cbn in Hl; lia|]. clear IHK.
  rewrite !app_length in Hl. cbn [length] in Hl.
  apply cons_chainT_app in H as [Hc Hmac]; [|lia].
  destruct (seg_ok_against_out ts C beta K ltac:(lia) Hc) as [A1 A2].
  rewrite removelast_last, !rev_app_distr. cbn [rev app seg_ok seg_end].
  unfold step_beta, step_segid. cbn [orb].
  destruct (rev C) as [|c' r'] eqn:Er.
  - split; [split; [exact Hmac|exact I]|].
    assert (C = []) by (destruct C; [reflexivity|]; apply (f_equal (@length _)) in Er; rewrite rev_length in Er; discriminate).
    subst C. reflexivity.
  - split; [split; [exact Hmac|exact A1]|exact A2].
Qed.

(** a segment as the path carries it: construction-chained from some [beta0] with the keys of
    its ASes, SegID normalised at its first hop on the wire *)
Definition seg_chained (cons : bool) (ts s : N) (tails keys : list (list N)) : Prop :=
  length tails = length keys /\ tails <> []
  /\ exists beta0,
       cons_chainT ts beta0 (if cons then tails else rev tails) (if cons then keys else rev keys)
       /\ s = (if cons then beta0 else beta_afterT beta0 (removelast (rev tails))).

Lemma seg_chained_ok cons ts s tails keys :
  seg_chained cons ts s tails keys ->
  seg_ok cmac cons ts true s tails keys
  /\ seg_chained (negb cons) ts (seg_end cons true s tails) (rev tails) (rev keys).
Proof.
  intros (Hl & Hne & beta0 & Hc & ->). destruct cons.
  - destruct (seg_ok_cons ts tails true beta0 keys Hc) as [A1 A2]. split; [exact A1|].
    refine (conj _ (conj _ (ex_intro _ beta0 (conj _ _)))).
    + now rewrite !rev_length.
    + intros E. apply Hne. apply (f_equal (@rev _)) in E. now rewrite rev_involutive in E.
    + cbn [negb]. now rewrite !rev_involutive.
    + cbn [negb]. now rewrite rev_involutive, A2.
  - assert (Hne' : rev tails <> []).
    { intros E. apply Hne. apply (f_equal (@rev _)) in E. now rewrite rev_involutive in E. }
    destruct (seg_ok_against ts (rev tails) beta0 (rev keys) ltac:(now rewrite !rev_length) Hne' Hc) as [A1 A2].
    rewrite (rev_involutive tails), (rev_involutive keys) in A1. rewrite (rev_involutive tails) in A2. split; [exact A1|].
    refine (conj _ (conj Hne' (ex_intro _ beta0 (conj _ _)))).
    + now rewrite !rev_length.
    + cbn [negb]. exact Hc.
    + cbn [negb]. exact A2.
Qed.
End Chains.

(** * a whole path: every segment chained, regular crossovers *)
Section Path.
Variable cmac : list N -> list N -> list N.
Variable keyf : nat -> list N.
Variables rsv s0 s1 s2 : N.
Variable T : list (list N).
Variable IF0 : list (list N).
Hypothesis Htot : N.of_nat (length T) = s0 + s1 + s2.
Hypothesis H64 : s0 + s1 + s2 <= 64.

Notation WOK := (walk_ok cmac keyf s0 s1 s2 T IF0).
Notation ENDS := (end_segids T IF0).

(** segment [ci] occupies the [n] hops from [base]; [ns]: the lengths of the segments after it *)
Fixpoint path_ok (ns : list nat) (ci base : N) (n : nat) : Prop :=
  let info := nth (N.to_nat ci) IF0 [] in
  (2 <= n)%nat /\ ci < N.of_nat (length IF0)
  /\ (forall j, (j < n)%nat -> calc s0 s1 s2 (base + N.of_nat j) = Some (ci, (j =? 0)%nat, (S j =? n)%nat))
  /\ seg_ok cmac (if_cons_dir info) (if_ts info) true (if_segid info)
            (firstn n (skipn (N.to_nat base) T)) (map keyf (seq (N.to_nat base) n))
  /\ match ns with
     | [] => N.of_nat (length T) = base + N.of_nat n
     | n' :: ns' =>
       keyf (N.to_nat base + n)%nat = keyf (N.to_nat base + n - 1)%nat
       /\ path_ok ns' (ci + 1) (base + N.of_nat n) n'
     end.
Fixpoint full_ends (ns : list nat) (ci base : N) (n : nat) : list N :=
  let info := nth (N.to_nat ci) IF0 [] in
  seg_end (if_cons_dir info) true (if_segid info) (firstn n (skipn (N.to_nat base) T))
  :: match ns with [] => [] | n' :: ns' => full_ends ns' (ci + 1) (base + N.of_nat n) n' end.

Lemma path_total ns : forall ci base n, path_ok ns ci base n -> base + N.of_nat n <= N.of_nat (length T).
Proof.
  induction ns as [|n' ns IH]; intros ci base n H; cbn [path_ok] in H.
  - destruct H as (_ & _ & _ & _ & E). lia.
  - destruct H as (_ & _ & _ & _ & _ & Hn). apply IH in Hn. lia.
Qed.

Lemma path_ok_depth ns : forall ci base n,
  path_ok ns ci base n -> ci + N.of_nat (length ns) < N.of_nat (length IF0).
Proof.
  induction ns as [|n' ns IH]; intros ci base n H; cbn [path_ok] in H.
  - destruct H as (_ & Hc & _). cbn [length]. lia.
  - destruct H as (_ & _ & _ & _ & _ & Hn). apply IH in Hn. cbn [length]. lia.
Qed.

Lemma path_ok_head ns ci base n :
  path_ok ns ci base n ->
  (2 <= n)%nat /\ ci < N.of_nat (length IF0)
  /\ (forall j, (j < n)%nat -> calc s0 s1 s2 (base + N.of_nat j) = Some (ci, (j =? 0)%nat, (S j =? n)%nat)).
Proof. destruct ns; cbn [path_ok]; intros (H1 & H2 & H3 & _); auto. Qed.

Lemma path_walk_ok ns : forall ci base n,
  path_ok ns ci base n ->
  let info := nth (N.to_nat ci) IF0 [] in
  let t0 := nth (N.to_nat base) T [] in
  let s' := step_segid (if_cons_dir info) true (if_segid info) t0 in
  WOK ns true ci base (if_segid info) n
  /\ ENDS ns true ci base (if_segid info) n = full_ends ns ci base n
  /\ mac_okT cmac (keyf (N.to_nat base)) (if_segid info) (if_ts info) t0
  /\ WOK ns false ci (base + 1) s' (n - 1)
  /\ ENDS ns false ci (base + 1) s' (n - 1) = full_ends ns ci base n.
Proof.
  induction ns as [|n' ns IH]; intros ci base n H info t0 s'.
  - pose proof (path_total _ _ _ _ H) as Htl. cbn [path_ok] in H. destruct H as (Hn & Hci & Hcalc & Hseg & Hlen).
    fold info in Hseg.
    assert (Hbase : (N.to_nat base < length T)%nat) by lia.
    assert (Esl : firstn n (skipn (N.to_nat base) T) = t0 :: firstn (n - 1) (skipn (S (N.to_nat base)) T)).
    { rewrite (skipn_cons_nth T _ [] Hbase). destruct n as [|n1]; [lia|]. replace (S n1 - 1)%nat with n1 by lia. reflexivity. }
    assert (Eks : map keyf (seq (N.to_nat base) n) = keyf (N.to_nat base) :: map keyf (seq (S (N.to_nat base)) (n - 1))).
    { destruct n as [|n1]; [lia|]. replace (S n1 - 1)%nat with n1 by lia. reflexivity. }
    assert (Hr : firstn (n - 1) (skipn (S (N.to_nat base)) T) <> []).
    { intros E. apply (f_equal (@length _)) in E. rewrite firstn_length, skipn_length in E. cbn in E. lia. }
    assert (Hseg2 := Hseg). rewrite Esl, Eks in Hseg2. cbn [seg_ok] in Hseg2.
    destruct (firstn (n - 1) (skipn (S (N.to_nat base)) T)) as [|tr rr] eqn:Er; [congruence|].
    destruct Hseg2 as [Hmac0 Hsegr]. unfold step_beta in Hmac0. cbn [orb] in Hmac0.
    assert (Ee : base + 1 + N.of_nat (n - 1 - 1) = base + N.of_nat (n - 1)) by lia.
    assert (Ece : calc s0 s1 s2 (base + N.of_nat (n - 1)) = Some (ci, false, true)).
    { rewrite (Hcalc (n - 1)%nat ltac:(lia)). do 2 f_equal; [f_equal|]; [apply Nat.eqb_neq; lia|apply Nat.eqb_eq; lia]. }
    refine (conj _ (conj _ (conj Hmac0 (conj _ _)))).
    + cbn [walk_ok]. fold info. refine (conj (or_intror Hn) (conj _ (conj Hci (conj _ (conj Hseg (conj Ece _)))))); [lia| |lia].
      intros i Hi. rewrite (Hcalc i ltac:(lia)). assert ((S i =? n)%nat = false) by (apply Nat.eqb_neq; lia). rewrite H. eauto.
    + cbn [end_segids full_ends]. reflexivity.
    + cbn [walk_ok]. fold info. rewrite Ee.
      refine (conj (or_introl eq_refl) (conj _ (conj Hci (conj _ (conj _ (conj Ece _)))))); [lia| | |lia].
      * intros i Hi. replace (base + 1 + N.of_nat i) with (base + N.of_nat (S i)) by lia.
        rewrite (Hcalc (S i) ltac:(lia)). assert ((S (S i) =? n)%nat = false) by (apply Nat.eqb_neq; lia). rewrite H. eauto.
      * replace (N.to_nat (base + 1)) with (S (N.to_nat base)) by lia. rewrite Er. exact Hsegr.
    + cbn [end_segids full_ends]. fold info. f_equal.
      replace (N.to_nat (base + 1)) with (S (N.to_nat base)) by lia. rewrite Esl, Er. reflexivity.
  - pose proof (path_total _ _ _ _ H) as Htl. cbn [path_ok] in H. destruct H as (Hn & Hci & Hcalc & Hseg & Hkey & Hnext).
    fold info in Hseg.
    pose proof (path_total _ _ _ _ Hnext) as Htl'.
    destruct (IH (ci + 1) (base + N.of_nat n) n' Hnext) as (_ & _ & Hmacn & Hwn & Hen).
    destruct (path_ok_head _ _ _ _ Hnext) as (Hn' & Hci' & Hcalc').
    assert (Hbase : (N.to_nat base < length T)%nat) by lia.
    assert (Esl : firstn n (skipn (N.to_nat base) T) = t0 :: firstn (n - 1) (skipn (S (N.to_nat base)) T))
      by (rewrite (skipn_cons_nth T _ [] Hbase); destruct n as [|n1]; [lia|]; replace (S n1 - 1)%nat with n1 by lia; reflexivity).
    assert (Eks : map keyf (seq (N.to_nat base) n) = keyf (N.to_nat base) :: map keyf (seq (S (N.to_nat base)) (n - 1)))
      by (destruct n as [|n1]; [lia|]; replace (S n1 - 1)%nat with n1 by lia; reflexivity).
    assert (Hr : firstn (n - 1) (skipn (S (N.to_nat base)) T) <> [])
      by (intros E; apply (f_equal (@length _)) in E; rewrite firstn_length, skipn_length in E; cbn in E; lia).
    assert (Hseg2 := Hseg). rewrite Esl, Eks in Hseg2. cbn [seg_ok] in Hseg2.
    destruct (firstn (n - 1) (skipn (S (N.to_nat base)) T)) as [|tr rr] eqn:Er; [congruence|].
    destruct Hseg2 as [Hmac0 Hsegr]. unfold step_beta in Hmac0. cbn [orb] in Hmac0.
    assert (Ee : base + 1 + N.of_nat (n - 1 - 1) = base + N.of_nat (n - 1)) by lia.
    assert (Ece : calc s0 s1 s2 (base + N.of_nat (n - 1)) = Some (ci, false, true))
      by (rewrite (Hcalc (n - 1)%nat ltac:(lia)); do 2 f_equal; [f_equal|]; [apply Nat.eqb_neq; lia|apply Nat.eqb_eq; lia]).
    assert (Ece1 : calc s0 s1 s2 (base + N.of_nat (n - 1) + 1) = Some (ci + 1, true, false))
      by (replace (base + N.of_nat (n - 1) + 1) with (base + N.of_nat n + N.of_nat 0) by lia;
          rewrite (Hcalc' 0%nat ltac:(lia)); do 2 f_equal; apply Nat.eqb_neq; lia).
    assert (Ekey : keyf (N.to_nat (base + N.of_nat n)) = keyf (N.to_nat (base + N.of_nat (n - 1))))
      by (replace (N.to_nat (base + N.of_nat n)) with (N.to_nat base + n)%nat by lia;
          replace (N.to_nat (base + N.of_nat (n - 1))) with (N.to_nat base + n - 1)%nat by lia; exact Hkey).
    assert (Ecross :
      let e := base + N.of_nat (n - 1) in
      let ni := nth (N.to_nat (ci + 1)) IF0 [] in
      let t1 := nth (N.to_nat (e + 1)) T [] in
      mac_okT cmac (keyf (N.to_nat e)) (if_segid ni) (if_ts ni) t1
      /\ WOK ns false (ci + 1) (e + 2) (step_segid (if_cons_dir ni) true (if_segid ni) t1) (n' - 1)).
    { cbv zeta. replace (base + N.of_nat (n - 1) + 1) with (base + N.of_nat n) by lia.
      replace (base + N.of_nat (n - 1) + 2) with (base + N.of_nat n + 1) by lia.
      rewrite <- Ekey. split; [exact Hmacn|exact Hwn]. }
    cbv zeta in Ecross. destruct Ecross as [Hx1 Hx2].
    refine (conj _ (conj _ (conj Hmac0 (conj _ _)))).
    + cbn [walk_ok]. fold info.
      refine (conj (or_intror Hn) (conj _ (conj Hci (conj _ (conj Hseg (conj Ece (conj Ece1 (conj _ (conj _ (conj Hn' (conj Hci' (conj Hx1 Hx2)))))))))))); [lia| |lia|lia].
      intros i Hi. rewrite (Hcalc i ltac:(lia)). assert (Hq : (S i =? n)%nat = false) by (apply Nat.eqb_neq; lia). rewrite Hq. eauto.
    + cbn [end_segids full_ends]. fold info. f_equal.
      replace (base + N.of_nat (n - 1) + 1) with (base + N.of_nat n) by lia.
      replace (base + N.of_nat (n - 1) + 2) with (base + N.of_nat n + 1) by lia. exact Hen.
    + cbn [walk_ok]. fold info. rewrite Ee.
      refine (conj (or_introl eq_refl) (conj _ (conj Hci (conj _ (conj _ (conj Ece (conj Ece1 (conj _ (conj _ (conj Hn' (conj Hci' (conj Hx1 Hx2)))))))))))); [lia| | |lia|lia].
      * intros i Hi. replace (base + 1 + N.of_nat i) with (base + N.of_nat (S i)) by lia.
        rewrite (Hcalc (S i) ltac:(lia)). assert (Hq : (S (S i) =? n)%nat = false) by (apply Nat.eqb_neq; lia). rewrite Hq. eauto.
      * replace (N.to_nat (base + 1)) with (S (N.to_nat base)) by lia. rewrite Er. exact Hsegr.
    + cbn [end_segids full_ends]. fold info. rewrite Ee. f_equal.
      * replace (N.to_nat (base + 1)) with (S (N.to_nat base)) by lia. rewrite Esl, Er. reflexivity.
      * replace (base + N.of_nat (n - 1) + 1) with (base + N.of_nat n) by lia.
        replace (base + N.of_nat (n - 1) + 2) with (base + N.of_nat n + 1) by lia. exact Hen.
Qed.
End Path.

(** * the forward walk of a whole path *)
Section PathDelivers.
Variable cmac : list N -> list N -> list N.
Variable keyf : nat -> list N.
Variables rsv s0 s1 s2 : N.
Variable T : list (list N).
Variable IF0 : list (list N).
Hypothesis Htot : N.of_nat (length T) = s0 + s1 + s2.
Hypothesis H64 : s0 + s1 + s2 <= 64.

Lemma path_delivers ns n0 HF :
  path_ok cmac keyf s0 s1 s2 T IF0 ns 0 0 n0 ->
  meta_ok 0 0 rsv s0 s1 s2 -> shaped s0 s1 s2 IF0 HF ->
  Forall (fun f => bytes_ok f = true) IF0 -> Forall (fun f => bytes_ok f = true) HF ->
  map tl1 HF = T ->
  exists IF1 HF1 IF' HF',
    let ci1 := N.of_nat (length ns) in
    let el := last_hop ns 0 n0 in
    forwarded_through (ases cmac keyf ns true 0 n0) (assemble 0 0 rsv s0 s1 s2 IF0 HF)
    = Some (assemble ci1 el rsv s0 s1 s2 IF1 HF1)
    /\ process_at_as (hop_mac_validator cmac (keyf (N.to_nat el))) false (assemble ci1 el rsv s0 s1 s2 IF1 HF1)
       = (assemble ci1 el rsv s0 s1 s2 IF' HF', Delivered)
    /\ N.of_nat (length T) = el + 1
    /\ shaped s0 s1 s2 IF' HF'
    /\ Forall (fun f => bytes_ok f = true) IF' /\ Forall (fun f => bytes_ok f = true) HF'
    /\ map tl1 HF' = T /\ length IF' = length IF0
    /\ (forall i, info_segid_only (nth i IF0 []) (nth i IF' []))
    /\ (forall j, (j < S (length ns))%nat -> if_segid (nth j IF' []) = nth j (full_ends T IF0 ns 0 0 n0) 0).
Proof.
  intros Hp Hm Hs HbI HbH HT.
  destruct (path_walk_ok cmac keyf s0 s1 s2 T IF0 Htot H64 ns 0 0 n0 Hp) as (Hw & He & _).
  destruct (walk_from cmac keyf rsv s0 s1 s2 T IF0 Htot H64 ns true 0 0 _ n0 IF0 HF Hm Hs HbI HbH HT eq_refl
              (fun i => info_segid_only_refl _) (fun i _ => eq_refl) eq_refl Hw)
    as (IF1 & HF1 & IF' & HF' & Hres).
  cbv zeta in Hres. rewrite N.add_0_l in Hres.
  destruct Hres as (E1 & E2 & E3 & E4 & E5 & E6 & E7 & E8 & E9 & _ & E11).
  exists IF1, HF1, IF', HF'. cbv zeta.
  refine (conj E1 (conj E2 (conj E3 (conj E4 (conj E5 (conj E6 (conj E7 (conj E8 (conj E9 _))))))))).
  intros j Hj. rewrite <- He. exact (E11 j Hj).
Qed.
End PathDelivers.
