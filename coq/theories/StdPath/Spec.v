(** Executable statement of C12/C11 over observable behaviour, independent of the model of
    the implementation: an independent reader of the path header (literal numbers of the SCION
    header specification, the meta header read as one 32-bit word), the segment a hop index
    belongs to, and the boolean oracles evaluated on the IMPLEMENTATION's observed output. *)
From Sci Require Export StdPath.Model.
Local Open Scope N_scope.

(** PathMeta as one big-endian 32-bit word:  C(2) CurrHF(6) RSV(6) Seg0Len(6) Seg1Len(6) Seg2Len(6) *)
Definition sp_word (b : list N) : N := be_val 0 (firstn 4 b).
Definition sp_curr_inf (b : list N) : N := sp_word b / 1073741824.
Definition sp_curr_hf (b : list N) : N := (sp_word b / 16777216) mod 64.
Definition sp_lens (b : list N) : list N :=
  [(sp_word b / 4096) mod 64; (sp_word b / 64) mod 64; sp_word b mod 64].
Definition sp_ninfo (b : list N) : N := N.of_nat (length (filter (fun x => negb (x =? 0)) (sp_lens b))).
Definition sp_nhops (b : list N) : N := fold_right N.add 0 (sp_lens b).
Definition sp_hop_at (b : list N) (j : N) : list N :=
  firstn 12 (skipn (N.to_nat (4 + 8 * sp_ninfo b + 12 * j)) b).
Definition sp_info_at (b : list N) (i : N) : list N := firstn 8 (skipn (N.to_nat (4 + 8 * i)) b).

(** the hop fields of the path, each tagged with (segment index, first of its segment, last
    of its segment): the specification of [calculate_segment_index] *)
Definition sp_positions (lens : list N) : list (N * bool * bool) :=
  flat_map (fun '(i, len) =>
              map (fun j => (N.of_nat i, (j =? 0)%nat, (S j =? N.to_nat len)%nat)) (seq 0 (N.to_nat len)))
           (combine (seq 0 (length lens)) lens).
Definition sp_seg_index (lens : list N) (k : N) : option (N * bool * bool) :=
  nth_error (sp_positions lens) (N.to_nat k).

(** well-formed segment lengths: non-empty segments first (no zero-length segment before a
    non-empty one), at least one segment *)
Definition sp_lens_wf (lens : list N) : bool :=
  match lens with
  | [a; c; d] => negb (a =? 0) && ((negb (c =? 0)) || (d =? 0))
  | _ => false
  end.

(** the info field flags differ exactly in CONS_DIR, everything else is equal *)
Definition sp_info_toggled (f g : list N) : bool :=
  match f, g with
  | x :: fr, y :: gr => (N.lxor x y =? 1) && list_eqb N.eqb fr gr
  | _, _ => false
  end.

(** * one-hop paths: the second hop field must authenticate at the second AS.
      Independent reader (literal offsets of the SCION header specification): info field at 0,
      hop field 1 at 8, hop field 2 at 20; the hop MAC is the first six bytes of the MAC over
      0(2) beta(2) timestamp(4) 0(1) ExpTime(1) ConsIngress(2) ConsEgress(2) 0(2), where beta is
      the SegID after hop 1 (SegID xor first two MAC bytes of hop 1 unless already advanced),
      and ExpTime / ConsIngress / ConsEgress are those STORED in hop field 2. *)
Definition sp_onehop_second_hop_ok (mac : list N -> list N -> list N) (key : list N) (advanced : bool)
           (ingress : N) (b : list N) : bool :=
  let segid := be_val 0 (firstn 2 (skipn 2 b)) in
  let ts4 := firstn 4 (skipn 4 b) in
  let sigma1 := be_val 0 (firstn 2 (skipn 14 b)) in
  let beta := if advanced then segid else N.lxor segid sigma1 in
  let exp1 := nth 9 b 0 in
  let exp2 := nth 21 b 0 in
  let ci2 := firstn 2 (skipn 22 b) in
  let ce2 := firstn 2 (skipn 24 b) in
  let block := [0; 0; beta / 256; beta mod 256] ++ ts4 ++ [0; exp2] ++ ci2 ++ ce2 ++ [0; 0] in
  list_eqb N.eqb (firstn 6 (skipn 26 b)) (firstn 6 (mac key block))
  && (be_val 0 ci2 =? ingress) && (be_val 0 ce2 =? 0) && (exp2 =? exp1) && (length b =? 32)%nat.
