(** C16 -- property theorems only.  Each is closed by [exact]/short glue from lemmas of
    [Proofs] and followed by [Print Assumptions]. *)
From Sci Require Import Policy.Model Policy.Spec Policy.Proofs.
Local Open Scope N_scope.

(** ** ACLs *)

(** An ACL allows a path exactly when, for every hop, the first entry whose predicate
    matches the hop is an allow entry (the default deciding when none matches).  All ACLs
    (any number of entries, any predicates), all NON-EMPTY hop lists.  The empty hop list is
    the recorded finding [empty_hop_list] (Findings.acl_empty_hop_list_refuted): there the
    code answers with the default action.  [PathPolicyHop::hops_from_path] never produces
    an empty list ([hops_from_path_nonempty] below). *)
Theorem acl_iff_spec :
  forall (a : acl) (hs : list hop),
    empty_hop_list hs = false ->
    (acl_matches a hs = true <-> acl_spec a hs).
Proof.
  intros a hs H. apply acl_iff_spec_nonempty. destruct hs; [discriminate|congruence].
Qed.
Check acl_iff_spec :
  forall a hs, empty_hop_list hs = false -> (acl_matches a hs = true <-> acl_spec a hs).
Print Assumptions acl_iff_spec.
Example acl_iff_spec_nonvacuous :
  let a := mkAcl [(Deny, mkPred 2 None IfAny); (Allow, mkPred 1 (Some 7) (IfEither 3))] Deny in
  empty_hop_list [mkHop 1 7 2 3] = false
  /\ acl_matches a [mkHop 1 7 2 3] = true /\ acl_matches a [mkHop 1 7 2 3; mkHop 2 7 3 0] = false.
Proof. vm_compute. auto. Qed.

(** complete description of [AclPolicy::matches] on every input, the empty list included:
    the default action on the empty list, the first-match sentence otherwise *)
Theorem acl_matches_total_char :
  forall (a : acl) (hs : list hop),
    acl_matches a hs = true <->
    match hs with
    | [] => a_default a = Allow
    | _ => acl_spec a hs
    end.
Proof.
  intros a hs. rewrite acl_matches_char. destruct hs.
  - destruct (a_default a); cbn; split; congruence.
  - apply acl_specb_iff.
Qed.
Print Assumptions acl_matches_total_char.

(** [HopPredicate::is_wildcard] -- which decides in [AclPolicy::parse] whether an entry "must be
    the last entry" -- holds exactly for the predicates that every hop satisfies (the
    [pred_wildb] oracle used on ACL texts in [Cases]). *)
Theorem wildcard_pred_iff_matches_all :
  forall p : pred, pred_is_wildcard p = true <-> forall h, hop_sat p h.
Proof. intros p. rewrite pred_wildb_model. apply pred_wildb_iff. Qed.
Print Assumptions wildcard_pred_iff_matches_all.

(** for hops of real paths (non-zero ISD and AS) the predicate semantics used above is the
    documented one: 0 in the predicate's ISD / AS / interface is a wildcard, [Either]
    matches ingress or egress, [Both] matches ingress and egress *)
Theorem pred_matches_documented :
  forall (p : pred) (h : hop),
    real_hop h -> (pred_matches p h = true <-> hop_sat_doc p h).
Proof. intros p h Hr. rewrite pred_matches_iff. apply hop_sat_real, Hr. Qed.
Print Assumptions pred_matches_documented.

(** [hops_from_path] yields at least two hops whenever it succeeds, so the ACL theorem's
    premise holds for every hop list derived from a path *)
Theorem hops_from_path_nonempty :
  forall m hs, hops_from_path m = Some hs -> empty_hop_list hs = false /\ (2 <= length hs)%nat.
Proof.
  intros m hs H. pose proof (hops_from_path_len m hs H). destruct hs; cbn in *; [lia|auto].
Qed.
Print Assumptions hops_from_path_nonempty.

(** ** Hop patterns *)

(** [match_from e hops p] returns (never running out of fuel) exactly the positions [q] such
    that the hops from [p] up to [q] form a word of the language of [e].  All expressions
    (any nesting, nullable bodies under [+] and [*] included), all hop lists, all start
    positions inside the list. *)
Theorem match_from_spec :
  forall (e : expr) (hs : list hop) (p : nat),
    (p <= length hs)%nat ->
    exists S, match_from e hs p = Some S
      /\ forall q, In q S <-> ((p <= q <= length hs)%nat /\ lang e (seg hs p q)).
Proof. exact match_from_good. Qed.
Print Assumptions match_from_spec.

(** A hop pattern allows a path exactly when the hop sequence belongs to the regular
    language denoted by the pattern: [HopPatternPolicy::matches] = membership in the
    concatenation of the languages of the top-level expressions.  All patterns, all hop
    lists (the empty pattern and the empty hop list included). *)
Theorem pattern_iff_lang :
  forall (es : list expr) (hs : list hop),
    exists b, policy_matches es hs = Some b /\ (b = true <-> lang_seq es hs).
Proof. exact policy_matches_spec. Qed.
Check pattern_iff_lang :
  forall es hs, exists b, policy_matches es hs = Some b /\ (b = true <-> lang_seq es hs).
Print Assumptions pattern_iff_lang.
Example pattern_iff_lang_nonvacuous :
  let es := [EPred (mkPred 1 None IfAny);
             EStar (EOpt (EOr (EPred (mkPred 2 None IfAny)) (EPlus (EPred (mkPred 0 (Some 7) IfAny)))))] in
  policy_matches es [mkHop 1 5 0 1; mkHop 2 7 1 2; mkHop 3 7 2 0] = Some true
  /\ policy_matches es [mkHop 1 5 0 1; mkHop 3 6 1 0] = Some false.
Proof. vm_compute. auto. Qed.

(** Matching always terminates without panicking: the fuel [length hops + 1] given to the
    repetition loop of [all_nested_matches] is never exhausted, on any pattern and any hop
    list, and [Policy::matches] (pattern and ACL combined) always produces a boolean.  (The
    only index expression, [hops[pos]], is guarded by [pos < hops.len()].) *)
Theorem match_total :
  forall (a : option acl) (p : option (list expr)) (hs : list hop),
    (forall es, policy_matches es hs <> None)
    /\ combined_matches a p hs <> None.
Proof.
  intros a p hs.
  assert (H : forall es, policy_matches es hs <> None).
  { intros es. destruct (policy_matches_spec es hs) as (b & -> & _). discriminate. }
  split; [exact H|]. unfold combined_matches. destruct p as [es|].
  - specialize (H es). destruct (policy_matches es hs) as [[|]|]; congruence.
  - discriminate.
Qed.
Print Assumptions match_total.

(** ** Parser and lexer *)

(** Parsing always terminates without panicking: on every input string and on every token
    list handed to [HopPatternParser] directly (with or without EOI, empty included) the
    result is [Ok] or [Err]; the fuel (= number of tokens) is never exhausted, the
    [tokens.len() - 1] and [tokens[pos]] sites are never reached out of range.  (The lexer is
    a structural pass over the characters.) *)
Theorem parse_total :
  forall (s : list N) (ts : list token),
    is_panic (parse_pattern s) = false /\ is_panic (parse_tokens ts) = false.
Proof. intros s ts. split; apply parse_tokens_total. Qed.
Print Assumptions parse_total.

(** Redundant parentheses and whitespace do not change a pattern's meaning.  Let [es] be any
    list of expressions and [kss] ANY spelling of them by the token grammar of [Spec]
    ([or_k]: each expression a left-associated [|]-chain of postfix pieces, any
    sub-expression wrapped in any number of parenthesis pairs).  Lay the tokens out as text
    with arbitrary runs of whitespace (any Unicode White_Space character: space, tab, LF, CR,
    FF, VT, NEL, NBSP, ...) before every token and at the end (two adjacent predicate tokens
    separated by at least one).  Then lexing and parsing that text yields
    exactly [es].  Hence two texts that differ only in redundant parentheses and whitespace
    parse to the same expressions, and so denote the same language.
    (Before the repair recorded in known_findings/C16.json the lexer skipped only space, tab
    and newline and this theorem was false for e.g. "1 2\r\n".) *)
Theorem parens_ws_irrelevant :
  forall (es : list expr) (kss : list (list tkind)) (items : list (list N * tkind)) (trail : list N),
    Forall2 (or_k pred_from_str) es kss ->
    map snd items = concat kss ->
    items_ok items = true -> skip_ws trail = true ->
    parse_pattern (render items trail) = Ok es.
Proof.
  intros es kss items trail HF Hk Hi Ht. unfold parse_pattern, lex.
  apply (parse_grammar es kss); [exact HF|].
  rewrite <- Hk. apply (lex_kinds items trail 0%N Hi Ht).
Qed.
Print Assumptions parens_ws_irrelevant.
Example parens_ws_irrelevant_nonvacuous :
  (* "(1|2)+ 3"  and  " ( ( 1 ) |(2 ) )+\r\n((3))\t" *)
  parse_pattern [40; 49; 124; 50; 41; 43; 32; 51]
  = parse_pattern [32; 40; 32; 40; 32; 49; 32; 41; 32; 124; 40; 50; 32; 41; 32; 41; 43; 13; 10; 40; 40; 51; 41; 41; 9]
  /\ parse_pattern [40; 49; 124; 50; 41; 43; 32; 51]
     = Ok [EPlus (EOr (EPred (mkPred 1 None IfAny)) (EPred (mkPred 2 None IfAny))); EPred (mkPred 3 None IfAny)].
Proof. vm_compute. auto. Qed.

(** Every hop pattern has a text form: the fully parenthesised spelling with one space
    before each token lexes and parses back to exactly the pattern (all expression lists whose
    predicates are printable, i.e. satisfy the premises of [pred_print_parse] below).  So the
    premises of [parens_ws_irrelevant] are satisfiable for every pattern. *)
Theorem every_pattern_has_text :
  forall es : list expr,
    Forall printable (flat_map preds_of es) ->
    parse_pattern (text_of es) = Ok es.
Proof. exact text_roundtrip. Qed.
Print Assumptions every_pattern_has_text.

(** the grammar is closed under wrapping any sub-expression in one more pair of parentheses,
    and regrouping an alternation does not change its language *)
Theorem parens_redundant :
  forall e ks,
    (or_k pred_from_str e ks -> post_k pred_from_str e (KLParen :: ks ++ [KRParen]))
    /\ (post_k pred_from_str e ks -> post_k pred_from_str e (KLParen :: ks ++ [KRParen]))
    /\ (forall a b c w, lang (EOr a (EOr b c)) w <-> lang (EOr (EOr a b) c) w).
Proof.
  intros e ks. split; [apply PK_paren|]. split; [intros H; apply PK_paren, OK_post, H|].
  intros a b c w. rewrite !or_iff. tauto.
Qed.
Print Assumptions parens_redundant.

(** ** Predicate text form *)

(** Hop predicates survive printing and re-parsing: for every predicate whose fields lie in
    the ranges of their Rust types (u16 ISD and interfaces, 48-bit AS -- decimal below 2^32,
    colon-separated hexadecimal above) [HopPredicate::from_str(p.to_string()) = Ok(p)].
    Excluded: the recorded finding [ifaces_without_asn] (interfaces present, AS absent; see
    Findings.pred_ifaces_without_asn_refuted), a shape the parser itself never produces. *)
Theorem pred_print_parse :
  forall p : pred,
    pred_wf p -> ifaces_without_asn p = false ->
    pred_from_str (pred_to_str p) = Some p.
Proof. exact pred_roundtrip. Qed.
Check pred_print_parse :
  forall p, pred_wf p -> ifaces_without_asn p = false -> pred_from_str (pred_to_str p) = Some p.
Print Assumptions pred_print_parse.
Example pred_print_parse_nonvacuous :
  let p := mkPred 65535 (Some 281474976710655) (IfBoth 65535 0) in
  pred_wf p /\ ifaces_without_asn p = false
  /\ pred_to_str p = [54; 53; 53; 51; 53; 45; 102; 102; 102; 102; 58; 102; 102; 102; 102; 58;
                      102; 102; 102; 102; 35; 54; 53; 53; 51; 53; 44; 48].
Proof. split; [cbv; repeat split; reflexivity|]. vm_compute. auto. Qed.

(** ** The run-time oracles are the specification *)

(** The boolean oracles that [Cases] evaluates on the IMPLEMENTATION's observed results are
    equivalent to the [Prop]-level specification: [acl_specb] to the first-match sentence,
    [langb] (Brzozowski derivatives, unrelated to the position-set algorithm) to membership
    in the pattern's language, [hop_satb] to predicate satisfaction. *)
Theorem oracles_are_spec :
  (forall a hs, acl_specb a hs = true <-> acl_spec a hs)
  /\ (forall es hs, langb es hs = true <-> lang_seq es hs)
  /\ (forall p h, hop_satb p h = true <-> hop_sat p h).
Proof. split; [exact acl_specb_iff|]. split; [exact langb_iff|exact hop_satb_iff]. Qed.
Print Assumptions oracles_are_spec.
