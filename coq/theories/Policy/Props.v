(** C16 -- property theorems only.  Each is closed by [exact]/short glue from lemmas of
    [Proofs] and followed by [Print Assumptions]. *)
From Sci Require Import Policy.Model Policy.Spec Policy.Proofs.
Local Open Scope N_scope.

(** ** ACLs *)

(** An ACL allows a path exactly when, for every hop, the first entry whose predicate
    matches the hop is an allow entry (the default deciding when none matches).  All ACLs
    (any number of entries, any predicates), all NON-EMPTY hop lists.  The empty hop list is
    the recorded finding [empty_hop_list] (Findings.acl_empty_hop_list_refuted): there the
    code answers with the default action.  [PathPolicyHop::hops_from_path] never produces
    an empty list ([hops_from_path_nonempty] below). *)
Theorem acl_iff_spec :
  forall (a : acl) (hs : list hop),
    empty_hop_list hs = false ->
    (acl_matches a hs = true <-> acl_spec a hs).
Proof.
  intros a hs H. apply acl_iff_spec_nonempty. destruct hs; [discriminate|congruence].
Qed.
Check acl_iff_spec :
  forall a hs, empty_hop_list hs = false -> (acl_matches a hs = true <-> acl_spec a hs).
Print Assumptions acl_iff_spec.
Example acl_iff_spec_nonvacuous :
  let a := mkAcl [(Deny, mkPred 2 None IfAny); (Allow, mkPred 1 (Some 7) (IfEither 3))] Deny in
  empty_hop_list [mkHop 1 7 2 3] = false
  /\ acl_matches a [mkHop 1 7 2 3] = true /\ acl_matches a [mkHop 1 7 2 3; mkHop 2 7 3 0] = false.
Proof. vm_compute. auto. Qed.

(** complete description of [AclPolicy::matches] on every input, the empty list included:
    the default action on the empty list, the first-match sentence otherwise *)
Theorem acl_matches_total_char :
  forall (a : acl) (hs : list hop),
    acl_matches a hs = true <->
    match hs with
    | [] => a_default a = Allow
    | _ => acl_spec a hs
    end.
Proof.
  intros a hs. rewrite acl_matches_char. destruct hs.
  - destruct (a_default a); cbn; split; congruence.
  - apply acl_specb_iff.
Qed.
Print Assumptions acl_matches_total_char.

(** for hops of real paths (non-zero ISD and AS) the predicate semantics used above is the
    documented one: 0 in the predicate's ISD / AS / interface is a wildcard, [Either]
    matches ingress or egress, [Both] matches ingress and egress *)
Theorem pred_matches_documented :
  forall (p : pred) (h : hop),
    real_hop h -> (pred_matches p h = true <-> hop_sat_doc p h).
Proof. intros p h Hr. rewrite pred_matches_iff. apply hop_sat_real, Hr. Qed.
Print Assumptions pred_matches_documented.

(** [hops_from_path] yields at least two hops whenever it succeeds, so the ACL theorem's
    premise holds for every hop list derived from a path *)
Theorem hops_from_path_nonempty :
  forall m hs, hops_from_path m = Some hs -> empty_hop_list hs = false /\ (2 <= length hs)%nat.
Proof.
  intros m hs H. pose proof (hops_from_path_len m hs H). destruct hs; cbn in *; [lia|auto].
Qed.
Print Assumptions hops_from_path_nonempty.

(** ** Hop patterns *)

(** [match_from e hops p] returns (never running out of fuel) exactly the positions [q] such
    that the hops from [p] up to [q] form a word of the language of [e].  All expressions
    (any nesting, nullable bodies under [+] and [*] included), all hop lists, all start
    positions inside the list. *)
Theorem match_from_spec :
  forall (e : expr) (hs : list hop) (p : nat),
    (p <= length hs)%nat ->
    exists S, match_from e hs p = Some S
      /\ forall q, In q S <-> ((p <= q <= length hs)%nat /\ lang e (seg hs p q)).
Proof. exact match_from_good. Qed.
Print Assumptions match_from_spec.

(** A hop pattern allows a path exactly when the hop sequence belongs to the regular
    language denoted by the pattern: [HopPatternPolicy::matches] = membership in the
    concatenation of the languages of the top-level expressions.  All patterns, all hop
    lists (the empty pattern and the empty hop list included). *)
Theorem pattern_iff_lang :
  forall (es : list expr) (hs : list hop),
    exists b, policy_matches es hs = Some b /\ (b = true <-> lang_seq es hs).
Proof. exact policy_matches_spec. Qed.
Check pattern_iff_lang :
  forall es hs, exists b, policy_matches es hs = Some b /\ (b = true <-> lang_seq es hs).
Print Assumptions pattern_iff_lang.
Example pattern_iff_lang_nonvacuous :
  let es := [EPred (mkPred 1 None IfAny);
             EStar (EOpt (EOr (EPred (mkPred 2 None IfAny)) (EPlus (EPred (mkPred 0 (Some 7) IfAny)))))] in
  policy_matches es [mkHop 1 5 0 1; mkHop 2 7 1 2; mkHop 3 7 2 0] = Some true
  /\ policy_matches es [mkHop 1 5 0 1; mkHop 3 6 1 0] = Some false.
Proof. vm_compute. auto. Qed.

(** Matching always terminates without panicking: the fuel [length hops + 1] given to the
    repetition loop of [all_nested_matches] is never exhausted, on any pattern and any hop
    list, and [Policy::matches] (pattern and ACL combined) always produces a boolean.  (The
    only index expression, [hops[pos]], is guarded by [pos < hops.len()].) *)
Theorem match_total :
  forall (a : option acl) (p : option (list expr)) (hs : list hop),
    (forall es, policy_matches es hs <> None)
    /\ combined_matches a p hs <> None.
Proof.
  intros a p hs.
  assert (H : forall es, policy_matches es hs <> None).
  { intros es. destruct (policy_matches_spec es hs) as (b & -> & _). discriminate. }
  split; [exact H|]. unfold combined_matches. destruct p as [es|].
  - specialize (H es). destruct (policy_matches es hs) as [[|]|]; congruence.
  - discriminate.
Qed.
Print Assumptions match_total.
