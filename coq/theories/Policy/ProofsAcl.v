(** C16 -- lemmas, part 1: predicates and ACLs. *)
From Sci Require Import Policy.Model Policy.Spec.
From Coq Require Import Lia ZifyBool ZifyNat ZifyN.
Local Open Scope N_scope.
Arguments N.add : simpl never.
Arguments N.sub : simpl never.
Arguments N.mul : simpl never.
Arguments N.div : simpl never.
Arguments N.modulo : simpl never.
Arguments N.eqb : simpl never.
Arguments N.ltb : simpl never.
Arguments N.leb : simpl never.

(** * Part 1: predicates and ACLs *)

Lemma id_satb_iff p x : id_satb p x = true <-> id_sat p x.
Proof. unfold id_satb, id_sat. lia. Qed.
Lemma if_satb_iff p x : if_satb p x = true <-> if_sat p x.
Proof. unfold if_satb, if_sat. lia. Qed.

Lemma hop_satb_iff p h : hop_satb p h = true <-> hop_sat p h.
Proof.
  unfold hop_satb, hop_sat. rewrite !andb_true_iff, id_satb_iff.
  assert (Ha : match p_asn p with Some a => id_satb a (h_asn h) | None => true end = true
               <-> match p_asn p with Some a => id_sat a (h_asn h) | None => True end).
  { destruct (p_asn p); [apply id_satb_iff | tauto]. }
  assert (Hi : match p_ifs p with
               | IfAny => true
               | IfEither a => if_satb a (h_in h) || if_satb a (h_out h)
               | IfBoth pi pe => if_satb pi (h_in h) && if_satb pe (h_out h) end = true
               <-> ifs_sat (p_ifs p) (h_in h) (h_out h)).
  { destruct (p_ifs p); cbn [ifs_sat]; [tauto | |].
    - rewrite orb_true_iff, !if_satb_iff. tauto.
    - rewrite andb_true_iff, !if_satb_iff. tauto. }
  tauto.
Qed.

(** the model's predicate test and the specification's are the same boolean function *)
Lemma pred_matches_satb p h : pred_matches p h = hop_satb p h.
Proof.
  unfold pred_matches, hop_satb, id_matches, id_satb, ifs_matches, if_matches, if_satb.
  destruct (p_ifs p); reflexivity.
Qed.

Lemma pred_matches_iff p h : pred_matches p h = true <-> hop_sat p h.
Proof. rewrite pred_matches_satb. apply hop_satb_iff. Qed.

Lemma hop_sat_real p h : real_hop h -> (hop_sat p h <-> hop_sat_doc p h).
Proof.
  intros [Hi Ha]. unfold hop_sat, hop_sat_doc, id_sat.
  destruct (p_asn p); intuition congruence.
Qed.

(** list version of [hop_allowed] *)
Definition allowed_l (es : list entry) (d : aclop) (h : hop) : Prop :=
  (exists k e, first_matching es h k e /\ fst e = Allow)
  \/ ((forall e, In e es -> ~ hop_sat (snd e) h) /\ d = Allow).

Definition decide_l (es : list entry) (d : aclop) (h : hop) : bool :=
  match find (fun e : entry => hop_satb (snd e) h) es with
  | Some (Allow, _) => true
  | Some (Deny, _) => false
  | None => match d with Allow => true | Deny => false end
  end.

Lemma decide_l_iff es d h : decide_l es d h = true <-> allowed_l es d h.
Proof.
  unfold decide_l, allowed_l. induction es as [|[o p] r IH].
  - cbn [find]. split.
    + intros H. right. split; [intros e []|]. destruct d; [reflexivity|discriminate].
    + intros [(k & e & (Hn & _) & _) | [_ ->]]; [|reflexivity]. destruct k; discriminate.
  - cbn [find snd]. destruct (hop_satb p h) eqn:Hs.
    + apply hop_satb_iff in Hs. split.
      * intros H. left. exists 0%nat, (o, p). split; [|destruct o; [reflexivity|discriminate]].
        split; [reflexivity|]. split; [exact Hs|]. intros j e' Hj. lia.
      * intros [(k & e & (Hn & He & Hfirst) & Ho) | [Hnone _]].
        -- destruct k as [|k].
           ++ cbn in Hn. inversion Hn; subst e. cbn in Ho. subst o. reflexivity.
           ++ exfalso. apply (Hfirst 0%nat (o, p)); [lia|reflexivity|exact Hs].
        -- exfalso. apply (Hnone (o, p)); [left; reflexivity|exact Hs].
    + assert (Hns : ~ hop_sat p h) by (rewrite <- hop_satb_iff; congruence).
      rewrite IH. clear IH. split.
      * intros [(k & e & (Hn & He & Hfirst) & Ho) | [Hnone Hd]].
        -- left. exists (S k), e. split; [|exact Ho]. split; [exact Hn|]. split; [exact He|].
           intros j e' Hj Hn'. destruct j as [|j].
           ++ cbn in Hn'. inversion Hn'; subst e'. exact Hns.
           ++ cbn in Hn'. apply (Hfirst j e'); [lia|exact Hn'].
        -- right. split; [|exact Hd]. intros e [<-|Hin]; [exact Hns|apply Hnone; exact Hin].
      * intros [(k & e & (Hn & He & Hfirst) & Ho) | [Hnone Hd]].
        -- destruct k as [|k].
           ++ cbn in Hn. inversion Hn; subst e. contradiction.
           ++ left. exists k, e. split; [|exact Ho]. split; [exact Hn|]. split; [exact He|].
              intros j e' Hj Hn'. apply (Hfirst (S j) e'); [lia|exact Hn'].
        -- right. split; [|exact Hd]. intros e Hin. apply Hnone. right. exact Hin.
Qed.

Lemma hop_allowedb_iff a h : hop_allowedb a h = true <-> hop_allowed a h.
Proof. apply (decide_l_iff (a_entries a) (a_default a) h). Qed.

Lemma acl_specb_iff a hs : acl_specb a hs = true <-> acl_spec a hs.
Proof.
  unfold acl_specb, acl_spec. rewrite forallb_forall.
  split; intros H h Hin; apply hop_allowedb_iff, H, Hin.
Qed.

(** the inner loop finds the first matching entry *)
Lemma acl_entries_loop_find es h :
  acl_entries_loop es h =
  match find (fun e : entry => hop_satb (snd e) h) es with
  | Some (Allow, _) => Some true
  | Some (Deny, _) => None
  | None => Some false
  end.
Proof.
  induction es as [|[o p] r IH]; [reflexivity|].
  cbn [acl_entries_loop find snd]. unfold entry_matches. cbn [fst snd].
  rewrite pred_matches_satb. destruct (hop_satb p h); [destruct o; reflexivity|exact IH].
Qed.

Lemma acl_hops_loop_forallb a hs : acl_hops_loop a hs = forallb (hop_allowedb a) hs.
Proof.
  induction hs as [|h r IH]; [reflexivity|].
  cbn [acl_hops_loop forallb]. rewrite acl_entries_loop_find, IH. clear IH.
  generalize (forallb (hop_allowedb a) r) as b. intro b. unfold hop_allowedb.
  destruct (find (fun e : entry => hop_satb (snd e) h) (a_entries a)) as [[[|] p]|].
  - reflexivity.
  - reflexivity.
  - destruct (a_default a); reflexivity.
Qed.

(** exact characterisation of [AclPolicy::matches], including the empty hop list *)
Lemma acl_matches_char a hs :
  acl_matches a hs = match hs with [] => is_allow (a_default a) | _ => acl_specb a hs end.
Proof.
  unfold acl_matches. destruct hs as [|h r]; [reflexivity|]. cbn [is_nil orb].
  destruct (a_entries a) eqn:He.
  - cbn [is_nil]. unfold acl_specb, hop_allowedb. rewrite He. cbn [find].
    destruct (a_default a); cbn [is_allow].
    + symmetry. apply forallb_forall. reflexivity.
    + reflexivity.
  - cbn [is_nil]. apply acl_hops_loop_forallb.
Qed.

Lemma acl_iff_spec_nonempty a hs :
  hs <> [] -> (acl_matches a hs = true <-> acl_spec a hs).
Proof.
  intros Hne. rewrite acl_matches_char. destruct hs; [congruence|]. apply acl_specb_iff.
Qed.

Lemma acl_spec_nil a : acl_spec a [].
Proof. intros h []. Qed.

(** [hops_from_path] never yields an empty hop list (at least two hops) *)
Lemma hops_chunks_nonempty l hs : hops_chunks l = Some hs -> hs <> [].
Proof.
  destruct l as [|[[i a] id] [|[[i2 a2] id2] r]]; cbn [hops_chunks]; [discriminate| |].
  - intros H; inversion H; discriminate.
  - destruct ((i =? i2) && (a =? a2)); [|discriminate].
    destruct (hops_chunks r); [|discriminate]. intros H; inversion H; discriminate.
Qed.

Lemma hops_from_path_len m hs : hops_from_path m = Some hs -> (2 <= length hs)%nat.
Proof.
  destruct m as [[[|[[i a] id] rest]|]|]; cbn [hops_from_path]; try discriminate.
  destruct (hops_chunks rest) as [l|] eqn:E; [|discriminate].
  intros H; inversion H; subst hs. apply hops_chunks_nonempty in E.
  destruct l; [congruence|cbn; lia].
Qed.

(** [pred_wildb] is exactly "every hop satisfies the predicate"; it is the model's
    [pred_is_wildcard] ([HopPredicate::is_wildcard]). *)
Lemma pred_wildb_model p : pred_is_wildcard p = pred_wildb p.
Proof. unfold pred_is_wildcard, pred_wildb, ifs_is_wildcard. destruct (p_ifs p); reflexivity. Qed.

Lemma pred_wildb_iff p : pred_wildb p = true <-> forall h, hop_sat p h.
Proof.
  unfold pred_wildb, hop_sat, id_sat. split.
  - intros H h. rewrite !andb_true_iff in H. destruct H as ((Hi & Ha) & Hf).
    split; [lia|]. split.
    + destruct (p_asn p); [lia|exact I].
    + destruct (p_ifs p); cbn [ifs_sat]; unfold if_sat; lia.
  - intros H.
    (* a hop that differs from the predicate in every field *)
    set (a0 := match p_asn p with Some a => a + 1 | None => 1 end).
    set (i0 := match p_ifs p with IfAny => 1 | IfEither a => a + 1 | IfBoth i _ => i + 1 end).
    set (e0 := match p_ifs p with IfAny => 1 | IfEither a => a + 1 | IfBoth _ e => e + 1 end).
    destruct (H (mkHop (p_isd p + 1) a0 i0 e0)) as (Hi & Ha & Hf). cbn [h_isd h_asn h_in h_out] in *.
    rewrite !andb_true_iff. refine (conj (conj _ _) _).
    + lia.
    + unfold a0 in Ha. destruct (p_asn p); [lia|reflexivity].
    + unfold i0, e0 in Hf. destruct (p_ifs p); cbn [ifs_sat] in Hf; unfold if_sat in Hf; [reflexivity|lia|lia].
Qed.
