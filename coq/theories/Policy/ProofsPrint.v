(** C16 -- lemmas, part 6: every hop pattern has a text form (fully parenthesised, one space
    before each token) that lexes and parses back to it.  This instantiates the premises of
    [parens_ws_irrelevant] for ALL expression lists (non-vacuity) and extends "predicates
    survive printing and re-parsing" to whole patterns. *)
From Sci Require Import Policy.Model Policy.Spec Policy.ProofsParse Policy.ProofsText.
From Coq Require Import Lia ZifyBool ZifyN.
Local Open Scope N_scope.

Definition printable (p : pred) : Prop := pred_wf p /\ ifaces_without_asn p = false.

Fixpoint preds_of (e : expr) : list pred :=
  match e with
  | EPred p => [p]
  | EOr a b => preds_of a ++ preds_of b
  | EOpt a | EPlus a | EStar a => preds_of a
  end.

(** fully parenthesised token kinds *)
Fixpoint full (e : expr) : list tkind :=
  match e with
  | EPred p => [KPred (pred_to_str p)]
  | EOr a b => KLParen :: (full a ++ KOr :: full b) ++ [KRParen]
  | EOpt a => full a ++ [KQMark]
  | EPlus a => full a ++ [KPlus]
  | EStar a => full a ++ [KStar]
  end.

Lemma full_post e : Forall printable (preds_of e) -> post_k pred_from_str e (full e).
Proof.
  induction e as [p|a IHa b IHb|a IHa|a IHa|a IHa]; cbn [preds_of full]; intros H.
  - inversion H as [|? ? [Hw Hc] _]; subst. apply PK_pred. apply pred_roundtrip; assumption.
  - apply Forall_app in H. destruct H as [Ha Hb].
    apply PK_paren. apply OK_or; [apply OK_post, IHa, Ha|apply IHb, Hb].
  - apply PK_opt, IHa, H.
  - apply PK_plus, IHa, H.
  - apply PK_star, IHa, H.
Qed.

Definition text_items (es : list expr) : list (list N * tkind) :=
  map (fun k => ([32], k)) (concat (map full es)).
Definition text_of (es : list expr) : list N := render (text_items es) [].

(** characters of a printed predicate are plain *)
Definition pchar (c : N) : Prop :=
  (48 <= c <= 57) \/ (97 <= c <= 102) \/ c = 45 \/ c = 35 \/ c = 44 \/ c = 58.

Lemma pchar_plain c : pchar c -> plain_char c = true.
Proof. unfold pchar, plain_char, unicode_ws. cbn [existsb]. lia. Qed.

Lemma dec_pchars n : Forall pchar (print_dec n).
Proof. eapply Forall_impl; [|apply print_dec_chars]. intros c H. unfold pchar. cbv beta in H. lia. Qed.
Lemma hex_pchars n : Forall pchar (print_hex n).
Proof. eapply Forall_impl; [|apply print_hex_chars]. intros c H. unfold pchar. cbv beta in H. lia. Qed.

Lemma pred_to_str_pchars p : Forall pchar (pred_to_str p).
Proof.
  assert (H1 : forall c, In c [45; 35; 44; 58] -> pchar c).
  { intros c Hc. unfold pchar. cbn in Hc. lia. }
  assert (H2 : forall c, In c [45; 35; 44; 58] -> Forall pchar [c]).
  { intros c Hc. constructor; [apply H1, Hc|constructor]. }
  unfold pred_to_str, asn_to_str, ifs_to_str.
  apply Forall_app; split; [apply dec_pchars|]. apply Forall_app; split.
  - destruct (p_asn p) as [a|]; [|constructor]. constructor; [apply H1; cbn; auto|].
    destruct (a <=? _); [apply dec_pchars|].
    apply Forall_app; split; [apply hex_pchars|]. apply Forall_app; split; [apply H2; cbn; auto|].
    apply Forall_app; split; [apply hex_pchars|]. apply Forall_app; split; [apply H2; cbn; auto|].
    apply hex_pchars.
  - destruct (p_ifs p) as [|a|i e]; [constructor| |].
    + constructor; [apply H1; cbn; auto|apply dec_pchars].
    + constructor; [apply H1; cbn; auto|].
      apply Forall_app; split; [apply dec_pchars|]. apply Forall_app; split; [apply H2; cbn; auto|].
      apply dec_pchars.
Qed.

Lemma pred_to_str_nonempty p : pred_to_str p <> [].
Proof.
  unfold pred_to_str. pose proof (print_dec_nonempty (p_isd p)) as H.
  destruct (print_dec (p_isd p)); [congruence|discriminate].
Qed.

Lemma full_kinds_ok e : Forall (fun k => kind_ok k = true) (full e).
Proof.
  induction e as [p|a IHa b IHb|a IHa|a IHa|a IHa]; cbn [full].
  - constructor; [|constructor]. cbn [kind_ok].
    pose proof (pred_to_str_nonempty p). destruct (pred_to_str p) eqn:E; [congruence|]. cbn [negb andb].
    rewrite <- E. apply forallb_forall. intros c Hc.
    apply pchar_plain. pose proof (pred_to_str_pchars p) as Hf. rewrite Forall_forall in Hf. apply Hf, Hc.
  - constructor; [reflexivity|]. repeat (apply Forall_app; split); auto; repeat constructor; auto.
  - apply Forall_app; split; [exact IHa|repeat constructor].
  - apply Forall_app; split; [exact IHa|repeat constructor].
  - apply Forall_app; split; [exact IHa|repeat constructor].
Qed.

Lemma spaced_items_ok ks :
  Forall (fun k => kind_ok k = true) ks -> items_ok (map (fun k => ([32], k)) ks) = true.
Proof.
  induction 1 as [|k ks Hk _ IH]; [reflexivity|]. cbn [map items_ok].
  rewrite Hk, IH. cbn [skip_ws forallb]. replace (unicode_ws 32) with true by reflexivity.
  cbn [andb]. destruct k; try reflexivity. destruct ks as [|k2 ks']; [reflexivity|].
  cbn [map]. destruct k2; reflexivity.
Qed.

Lemma text_roundtrip es :
  Forall printable (flat_map preds_of es) -> parse_pattern (text_of es) = Ok es.
Proof.
  intros Hp. unfold parse_pattern, lex, text_of.
  apply (parse_grammar es (map full es)).
  - induction es as [|e es IH]; [constructor|]. cbn [flat_map] in Hp. apply Forall_app in Hp.
    destruct Hp as [He Hes]. constructor; [apply OK_post, full_post, He|apply IH, Hes].
  - replace (concat (map full es)) with (map snd (text_items es)).
    + apply (lex_kinds (text_items es) [] 0); [|reflexivity].
      apply spaced_items_ok. clear Hp. induction es as [|e es IH]; [constructor|].
      cbn [map concat]. apply Forall_app; split; [apply full_kinds_ok|exact IH].
    + unfold text_items. rewrite map_map. cbn [snd]. apply map_id.
Qed.
