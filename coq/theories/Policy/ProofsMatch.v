(** C16 -- lemmas, part 2: the position-set matcher computes exactly the regular language of
    the pattern; the fuel [length hops + 1] of the repetition fixpoint is adequate. *)
From Sci Require Import Policy.Model Policy.Spec Policy.ProofsAcl.
From Coq Require Import Lia ZifyBool ZifyNat.
Local Open Scope nat_scope.

(** ** segments of the hop list *)
Definition seg (hs : list hop) (p q : nat) : list hop := firstn (q - p) (skipn p hs).

Lemma seg_nil hs p : seg hs p p = [].
Proof. unfold seg. rewrite Nat.sub_diag. reflexivity. Qed.

Lemma seg_length hs p q : p <= q <= length hs -> length (seg hs p q) = q - p.
Proof. intros H. unfold seg. rewrite firstn_length, skipn_length. lia. Qed.

Lemma seg_all hs : seg hs 0 (length hs) = hs.
Proof. unfold seg. rewrite Nat.sub_0_r. cbn [skipn]. apply firstn_all. Qed.

Lemma skipn_skipn {A} (l : list A) a b : skipn a (skipn b l) = skipn (b + a) l.
Proof.
  revert l; induction b as [|b IH]; intros l; [reflexivity|].
  destruct l; cbn [skipn plus]; [apply skipn_nil|apply IH].
Qed.

Lemma firstn_add_app {A} (l : list A) a b :
  firstn (a + b) l = firstn a l ++ firstn b (skipn a l).
Proof.
  revert l; induction a as [|a IH]; intros l; [reflexivity|].
  destruct l; cbn [plus firstn skipn app]; [rewrite firstn_nil; reflexivity|].
  f_equal. apply IH.
Qed.

Lemma seg_app hs p m q : p <= m <= q -> seg hs p m ++ seg hs m q = seg hs p q.
Proof.
  intros H. unfold seg.
  replace (q - p) with ((m - p) + (q - m)) by lia.
  rewrite firstn_add_app. f_equal. f_equal. rewrite skipn_skipn. f_equal. lia.
Qed.

Lemma app_eq_length_inv {A} (a c b d : list A) :
  length a = length c -> a ++ b = c ++ d -> a = c /\ b = d.
Proof.
  revert c; induction a as [|x a IH]; intros [|y c] Hl He; cbn in *; try discriminate; auto.
  inversion He; subst. destruct (IH c) as [-> ->]; auto.
Qed.

Lemma seg_split hs p q w1 w2 :
  p <= q <= length hs -> seg hs p q = w1 ++ w2 ->
  let m := p + length w1 in
  p <= m <= q /\ w1 = seg hs p m /\ w2 = seg hs m q.
Proof.
  intros Hb He m.
  assert (Hl : length w1 + length w2 = q - p).
  { rewrite <- app_length, <- He. apply seg_length, Hb. }
  assert (Hm : p <= m <= q) by (unfold m; lia).
  split; [exact Hm|].
  pose proof (seg_app hs p m q Hm) as Ha. rewrite He in Ha.
  assert (Hl1 : length (seg hs p m) = length w1) by (rewrite seg_length; unfold m; lia).
  apply app_eq_length_inv in Ha; [|exact Hl1]. destruct Ha; split; congruence.
Qed.

Lemma seg_single hs p h : nth_error hs p = Some h -> seg hs p (S p) = [h].
Proof.
  intros H. unfold seg. replace (S p - p) with 1 by lia.
  apply nth_error_split in H. destruct H as (l1 & l2 & -> & <-).
  rewrite skipn_app, Nat.sub_diag, skipn_all. reflexivity.
Qed.

Lemma seg_single_inv hs p q h :
  p <= q <= length hs -> seg hs p q = [h] -> q = S p /\ nth_error hs p = Some h.
Proof.
  intros Hb He. pose proof (seg_length hs p q Hb) as Hl. rewrite He in Hl. cbn in Hl.
  assert (q = S p) by lia. subst q. split; [reflexivity|].
  unfold seg in He. replace (S p - p) with 1 in He by lia.
  rewrite <- (firstn_skipn p hs) at 1.
  rewrite nth_error_app2; rewrite firstn_length; [|lia].
  replace (p - Nat.min p (length hs)) with 0 by lia.
  destruct (skipn p hs); cbn in He; [discriminate|]. inversion He; reflexivity.
Qed.

(** ** position sets *)
Lemma ps_mem_iff n s : ps_mem n s = true <-> In n s.
Proof.
  unfold ps_mem. rewrite existsb_exists. split.
  - intros (x & Hx & He). apply Nat.eqb_eq in He. subst. exact Hx.
  - intros H. exists n. split; [exact H|apply Nat.eqb_refl].
Qed.
Lemma ps_mem_false n s : ps_mem n s = false <-> ~ In n s.
Proof. rewrite <- ps_mem_iff. destruct (ps_mem n s); split; congruence. Qed.

Lemma ps_add_in x n s : In x (ps_add n s) <-> x = n \/ In x s.
Proof.
  unfold ps_add. destruct (ps_mem n s) eqn:E.
  - apply ps_mem_iff in E. split; [auto|]. intros [->|H]; assumption.
  - cbn. split; intros [H|H]; auto.
Qed.

Lemma ps_union_in x a b : In x (ps_union a b) <-> In x a \/ In x b.
Proof.
  unfold ps_union. induction b as [|n b IH]; cbn [fold_right].
  - cbn. tauto.
  - rewrite ps_add_in, IH. cbn. intuition.
Qed.

(** ** language facts *)
Lemma plus_snoc e w1 w2 : lang (EPlus e) w1 -> lang e w2 -> lang (EPlus e) (w1 ++ w2).
Proof.
  intros H1 H2. remember (EPlus e) as e' eqn:Ee. induction H1; inversion Ee; subst.
  - apply L_plus_more; [assumption|apply L_plus_one; assumption].
  - rewrite <- app_assoc. apply L_plus_more; [assumption|]. apply IHlang2; reflexivity.
Qed.

Lemma star_iff_plus e w : lang (EStar e) w <-> w = [] \/ lang (EPlus e) w.
Proof.
  split.
  - intros H. remember (EStar e) as e' eqn:Ee. induction H; inversion Ee; subst.
    + left; reflexivity.
    + right. destruct (IHlang2 eq_refl) as [->|Hp].
      * rewrite app_nil_r. apply L_plus_one; assumption.
      * apply L_plus_more; assumption.
  - intros [->|H]; [apply L_star_nil|].
    remember (EPlus e) as e' eqn:Ee. induction H; inversion Ee; subst.
    + rewrite <- (app_nil_r w). apply L_star_more; [assumption|apply L_star_nil].
    + apply L_star_more; [assumption|]. apply IHlang2; reflexivity.
Qed.

Lemma opt_iff e w : lang (EOpt e) w <-> w = [] \/ lang e w.
Proof.
  split.
  - intros H; inversion H; subst; auto.
  - intros [->|H]; [apply L_opt_none|apply L_opt_some, H].
Qed.

Lemma or_iff a b w : lang (EOr a b) w <-> lang a w \/ lang b w.
Proof.
  split.
  - intros H; inversion H; subst; auto.
  - intros [H|H]; [apply L_or_l, H|apply L_or_r, H].
Qed.

Lemma pred_iff p w : lang (EPred p) w <-> exists h, w = [h] /\ hop_sat p h.
Proof.
  split.
  - intros H; inversion H; subst. eauto.
  - intros (h & -> & H). apply L_pred, H.
Qed.

(** ** the repetition fixpoint ([all_nested_matches]) *)
Section NestedProofs.
  Variable len : nat.
  Variable mf : nat -> option pset.
  Hypothesis Hmf : forall x, x <= len ->
    exists S, mf x = Some S /\ forall y, In y S -> x <= y <= len.

  Definition step (x y : nat) : Prop := exists S, mf x = Some S /\ In y S.

  Inductive reach (p : nat) : nat -> Prop :=
  | reach_one q : step p q -> reach p q
  | reach_more m q : reach p m -> step m q -> reach p q.

  Lemma step_bound x y : x <= len -> step x y -> x <= y <= len.
  Proof.
    intros Hx (S & HS & Hy). destruct (Hmf x Hx) as (S' & HS' & Hb).
    rewrite HS in HS'. inversion HS'; subst. apply Hb, Hy.
  Qed.

  Lemma reach_bound p q : p <= len -> reach p q -> p <= q <= len.
  Proof.
    intros Hp H. induction H as [q H|m q _ IH H].
    - apply step_bound; assumption.
    - pose proof (step_bound m q (proj2 IH) H). lia.
  Qed.

  Lemma reach_cons p m q : step p m -> reach m q -> reach p q.
  Proof.
    intros Hs H. induction H as [q H|m' q _ IH H].
    - eapply reach_more; [apply reach_one, Hs|exact H].
    - eapply reach_more; [exact IH|exact H].
  Qed.

  Lemma step_some x S y : mf x = Some S -> (step x y <-> In y S).
  Proof.
    intros H. split.
    - intros (S' & HS' & Hy). rewrite H in HS'. inversion HS'; subst. exact Hy.
    - intros Hy. exists S. auto.
  Qed.

  (** [nested_inner] *)
  Lemma inner_spec res : forall all next a n,
    nested_inner res all next = (a, n) ->
    (forall y, In y a <-> In y all \/ In y res)
    /\ (forall y, In y n <-> In y next \/ (In y res /\ ~ In y all))
    /\ (NoDup all -> NoDup a)
    /\ length a + length next = length all + length n.
  Proof.
    induction res as [|x r IH]; intros all next a n H; cbn [nested_inner] in H.
    - inversion H; subst. refine (conj _ (conj _ (conj _ _))); auto; intros y; cbn; tauto.
    - destruct (ps_mem x all) eqn:E.
      + apply ps_mem_iff in E. destruct (IH _ _ _ _ H) as (I1 & I2 & I5 & I6).
        refine (conj _ (conj _ (conj _ _))); auto.
        * intros y. rewrite I1. cbn. intuition (subst; auto).
        * intros y. rewrite I2. cbn. intuition (subst; auto). congruence.
      + apply ps_mem_false in E. destruct (IH _ _ _ _ H) as (I1 & I2 & I5 & I6).
        refine (conj _ (conj _ (conj _ _))).
        * intros y. rewrite I1. cbn. intuition.
        * intros y. rewrite I2. cbn. destruct (Nat.eq_dec x y) as [->|Hne]; intuition.
        * intros Hnd. apply I5. constructor; assumption.
        * cbn [length] in I6. lia.
  Qed.

  (** [nested_outer] *)
  Lemma outer_spec frontier : forall all next,
    (forall x, In x frontier -> x <= len) ->
    exists a n, nested_outer mf frontier all next = Some (a, n)
    /\ (forall y, In y a <-> In y all \/ exists x, In x frontier /\ step x y)
    /\ (forall y, In y n <-> In y next \/ ((exists x, In x frontier /\ step x y) /\ ~ In y all))
    /\ (NoDup all -> NoDup a)
    /\ length a + length next = length all + length n.
  Proof.
    induction frontier as [|x fr IH]; intros all next Hb; cbn [nested_outer].
    - exists all, next. refine (conj eq_refl (conj _ (conj _ (conj _ _)))); auto.
      + intros y. split; [auto|]. intros [H|(x & [] & _)]; exact H.
      + intros y. split; [auto|]. intros [H|((x & [] & _) & _)]; exact H.
    - destruct (Hmf x (Hb x (or_introl eq_refl))) as (res & Hres & _). rewrite Hres.
      destruct (nested_inner res all next) as [a1 n1] eqn:Ei.
      destruct (inner_spec _ _ _ _ _ Ei) as (I1 & I2 & I5 & I6).
      destruct (IH a1 n1 (fun z Hz => Hb z (or_intror Hz))) as (a & n & Ho & O1 & O2 & O5 & O6).
      exists a, n. refine (conj Ho (conj _ (conj _ (conj _ _)))).
      + intros y. rewrite O1, I1. split.
        * intros [[H|H]|(x' & Hx' & Hs)]; auto.
          -- right. exists x. split; [left; reflexivity|]. apply (step_some x res y Hres), H.
          -- right. exists x'. split; [right; exact Hx'|exact Hs].
        * intros [H|(x' & [<-|Hx'] & Hs)]; auto.
          -- left. right. apply (step_some x res y Hres), Hs.
          -- right. exists x'. auto.
      + intros y. rewrite O2, I2, I1. split.
        * intros [[H|[H Hn]]|[(x' & Hx' & Hs) Hn]]; auto.
          -- right. split; [|exact Hn]. exists x. split; [left; reflexivity|].
             apply (step_some x res y Hres), H.
          -- right. split; [|tauto]. exists x'. split; [right; exact Hx'|exact Hs].
        * intros [H|[(x' & [<-|Hx'] & Hs) Hn]]; auto.
          -- left. right. split; [|exact Hn]. apply (step_some x res y Hres), Hs.
          -- destruct (in_dec Nat.eq_dec y res) as [Hr|Hr].
             ++ left. right. split; assumption.
             ++ right. split; [exists x'; auto|]. tauto.
      + intros Hnd. apply O5, I5, Hnd.
      + lia.
  Qed.

  Section Loop.
    Variable p : nat.
    Hypothesis Hp : p <= len.

    Definition Inv (all frontier : pset) : Prop :=
      NoDup all /\ incl frontier all
      /\ (forall x, In x all -> reach p x)
      /\ (forall y, step p y -> In y all)
      /\ (forall x, In x all -> ~ In x frontier -> forall y, step x y -> In y all).

    Lemma inv_final all q : Inv all [] -> (In q all <-> reach p q).
    Proof.
      intros (_ & _ & Hr & Hs & Hc). split; [apply Hr|].
      intros H. induction H as [q H|m q _ IH H]; [apply Hs, H|].
      apply (Hc m IH (fun F => F) q H).
    Qed.

    Lemma inv_length all frontier : Inv all frontier -> length all <= S len.
    Proof.
      intros (Hnd & _ & Hr & _). rewrite <- (seq_length (S len) 0).
      apply NoDup_incl_length; [exact Hnd|].
      intros x Hx. apply in_seq. pose proof (reach_bound p x Hp (Hr x Hx)). lia.
    Qed.

    Lemma inv_step all frontier a n :
      Inv all frontier ->
      nested_outer mf frontier all [] = Some (a, n) ->
      (forall y, In y a <-> In y all \/ exists x, In x frontier /\ step x y) ->
      (forall y, In y n <-> In y [] \/ ((exists x, In x frontier /\ step x y) /\ ~ In y all)) ->
      (NoDup all -> NoDup a) ->
      Inv a n.
    Proof.
      intros (Hnd & Hinc & Hr & Hs & Hc) _ O1 O2 O5.
      refine (conj (O5 Hnd) (conj _ (conj _ (conj _ _)))).
      - intros y Hy. apply O2 in Hy. destruct Hy as [[]|[He _]]. apply O1. right. exact He.
      - intros x Hx. apply O1 in Hx. destruct Hx as [Hx|(x0 & Hx0 & Hst)]; [apply Hr, Hx|].
        eapply reach_more; [apply Hr, Hinc, Hx0|exact Hst].
      - intros y Hy. apply O1. left. apply Hs, Hy.
      - intros x Hx Hxn y Hst. apply O1.
        assert (Hxa : In x all).
        { apply O1 in Hx. destruct Hx as [Hx|He]; [exact Hx|].
          destruct (in_dec Nat.eq_dec x all) as [Hi|Hi]; [exact Hi|].
          exfalso. apply Hxn. apply O2. right. split; assumption. }
        destruct (in_dec Nat.eq_dec x frontier) as [Hf|Hf].
        + right. exists x. split; assumption.
        + left. apply (Hc x Hxa Hf y Hst).
    Qed.

    Lemma loop_spec fuel : forall all frontier,
      Inv all frontier -> len + 2 <= length all + fuel ->
      exists res, nested_loop mf fuel all frontier = Some res
                  /\ forall q, In q res <-> reach p q.
    Proof.
      induction fuel as [|f IH]; intros all frontier HI Hm.
      - pose proof (inv_length _ _ HI). lia.
      - destruct frontier as [|x fr].
        + exists all. split; [reflexivity|]. intros q. apply inv_final, HI.
        + cbn [nested_loop].
          assert (Hb : forall z, In z (x :: fr) -> z <= len).
          { intros z Hz. destruct HI as (_ & Hinc & Hr & _).
            apply (reach_bound p z Hp), Hr, Hinc, Hz. }
          destruct (outer_spec (x :: fr) all [] Hb) as (a & n & Ho & O1 & O2 & O5 & O6).
          rewrite Ho. pose proof (inv_step _ _ _ _ HI Ho O1 O2 O5) as HI'.
          destruct n as [|y n'].
          * exists a. split; [destruct f; reflexivity|]. intros q. apply inv_final, HI'.
          * apply IH; [exact HI'|]. cbn [length] in O6. lia.
    Qed.

    Lemma all_nested_spec :
      exists res, all_nested mf (S len) p = Some res /\ forall q, In q res <-> reach p q.
    Proof.
      unfold all_nested. destruct (Hmf p Hp) as (fr & Hfr & _). rewrite Hfr.
      destruct (nested_inner fr [] []) as [a n] eqn:Ei.
      destruct (inner_spec _ _ _ _ _ Ei) as (I1 & _ & I5 & _).
      assert (HI : Inv a a).
      { refine (conj (I5 (NoDup_nil _)) (conj (incl_refl _) (conj _ (conj _ _)))).
        - intros x Hx. apply reach_one. apply (step_some p fr x Hfr).
          apply I1 in Hx. destruct Hx as [[]|Hx]; exact Hx.
        - intros y Hy. apply I1. right. apply (step_some p fr y Hfr), Hy.
        - intros x Hx Hn. contradiction. }
      destruct a as [|x a'].
      - exists []. split; [reflexivity|]. intros q. apply inv_final, HI.
      - apply loop_spec; [exact HI|]. cbn [length]. lia.
    Qed.
  End Loop.
End NestedProofs.

(** ** [match_from] computes the language *)
Definition good (e : expr) : Prop :=
  forall hs p, p <= length hs ->
    exists S, match_from e hs p = Some S
              /\ forall q, In q S <-> (p <= q <= length hs /\ lang e (seg hs p q)).

Lemma reach_iff_plus e hs (He : good e) p q :
  p <= length hs ->
  (reach (match_from e hs) p q <-> (p <= q <= length hs /\ lang (EPlus e) (seg hs p q))).
Proof.
  intros Hp.
  assert (Hstep : forall x y, x <= length hs ->
            (step (match_from e hs) x y <-> (x <= y <= length hs /\ lang e (seg hs x y)))).
  { intros x y Hx. destruct (He hs x Hx) as (S & HS & Hiff).
    rewrite (step_some _ x S y HS). apply Hiff. }
  split.
  - intros H. induction H as [q H|m q _ IH H].
    + apply Hstep in H; [|exact Hp]. split; [tauto|]. apply L_plus_one. tauto.
    + destruct IH as (Hb & Hl). apply Hstep in H; [|lia]. destruct H as (Hb2 & Hl2).
      split; [lia|]. rewrite <- (seg_app hs p m q) by lia. apply plus_snoc; assumption.
  - intros (Hb & Hl). remember (seg hs p q) as w eqn:Ew. remember (EPlus e) as e' eqn:Ee.
    revert p q Hp Hb Ew. induction Hl; inversion Ee; subst; intros p q Hp Hb Ew.
    + apply reach_one. apply Hstep; [exact Hp|]. split; [exact Hb|]. rewrite <- Ew. assumption.
    + symmetry in Ew. destruct (seg_split hs p q w1 w2 Hb Ew) as (Hm & E1 & E2).
      set (m := p + length w1) in *.
      eapply reach_cons.
      * apply Hstep; [exact Hp|]. split; [|rewrite <- E1; exact Hl1]. lia.
      * apply IHHl2; [reflexivity|lia|lia|exact E2].
Qed.

Lemma match_from_good e : good e.
Proof.
  induction e as [pr|a IHa b IHb|i IHi|i IHi|i IHi]; intros hs p Hp; cbn [match_from].
  - eexists. split; [reflexivity|]. intros q. rewrite pred_iff. split.
    + destruct (nth_error hs p) as [h|] eqn:En; [|intros []].
      destruct (pred_matches pr h) eqn:Em; [|intros []].
      intros [<-|[]].
      assert (p < length hs) by (apply nth_error_Some; congruence).
      split; [lia|]. exists h. split; [apply seg_single, En|apply pred_matches_iff, Em].
    + intros (Hb & h & Ew & Hs). destruct (seg_single_inv hs p q h Hb Ew) as (-> & En).
      rewrite En. apply pred_matches_iff in Hs. rewrite Hs. left; reflexivity.
  - destruct (IHa hs p Hp) as (l & -> & Hl). destruct (IHb hs p Hp) as (r & -> & Hr).
    eexists. split; [reflexivity|]. intros q. rewrite ps_union_in, Hl, Hr, or_iff. tauto.
  - destruct (IHi hs p Hp) as (r & -> & Hr).
    eexists. split; [reflexivity|]. intros q. rewrite ps_union_in, Hr, opt_iff. cbn [In]. split.
    + intros [[<-|[]]|H]; [|tauto]. split; [lia|]. left. apply seg_nil.
    + intros (Hb & [Hn|Hl]); [|tauto]. left. left.
      pose proof (seg_length hs p q Hb) as Hlen. rewrite Hn in Hlen. cbn in Hlen. lia.
  - assert (Hmf : forall x, x <= length hs ->
              exists S, match_from i hs x = Some S /\ forall y, In y S -> x <= y <= length hs).
    { intros x Hx. destruct (IHi hs x Hx) as (S & HS & Hiff). exists S. split; [exact HS|].
      intros y Hy. apply Hiff in Hy. tauto. }
    destruct (all_nested_spec (length hs) (match_from i hs) Hmf p Hp) as (res & Hres & Hiff).
    exists res. split; [exact Hres|]. intros q. rewrite Hiff. apply reach_iff_plus; assumption.
  - assert (Hmf : forall x, x <= length hs ->
              exists S, match_from i hs x = Some S /\ forall y, In y S -> x <= y <= length hs).
    { intros x Hx. destruct (IHi hs x Hx) as (S & HS & Hiff). exists S. split; [exact HS|].
      intros y Hy. apply Hiff in Hy. tauto. }
    destruct (all_nested_spec (length hs) (match_from i hs) Hmf p Hp) as (res & Hres & Hiff).
    rewrite Hres. eexists. split; [reflexivity|]. intros q.
    rewrite ps_add_in, Hiff, (reach_iff_plus i hs IHi p q Hp), star_iff_plus. split.
    + intros [->|H]; [|tauto]. split; [lia|]. left. apply seg_nil.
    + intros (Hb & [Hn|Hl]); [|tauto]. left.
      pose proof (seg_length hs p q Hb) as Hlen. rewrite Hn in Hlen. cbn in Hlen. lia.
Qed.

(** ** the top-level sequence loop *)
Lemma collect_spec e hs : forall ps acc,
  (forall p, In p ps -> p <= length hs) ->
  exists S, collect (match_from e hs) ps acc = Some S
    /\ forall q, In q S <->
         In q acc \/ exists p, In p ps /\ p <= q <= length hs /\ lang e (seg hs p q).
Proof.
  induction ps as [|p r IH]; intros acc Hb; cbn [collect].
  - exists acc. split; [reflexivity|]. intros q. split; [auto|]. intros [H|(p & [] & _)]; exact H.
  - destruct (match_from_good e hs p (Hb p (or_introl eq_refl))) as (S & -> & HS).
    destruct (IH (ps_union acc S) (fun z Hz => Hb z (or_intror Hz))) as (S' & -> & HS').
    exists S'. split; [reflexivity|]. intros q. rewrite HS', ps_union_in, HS. split.
    + intros [[H|H]|(p' & Hp' & H)]; auto.
      * right. exists p. split; [left; reflexivity|exact H].
      * right. exists p'. split; [right; exact Hp'|exact H].
    + intros [H|(p' & [<-|Hp'] & H)]; auto. right. exists p'. auto.
Qed.

Lemma lang_seq_nil w : lang_seq [] w <-> w = [].
Proof. split; [intros H; inversion H; reflexivity|intros ->; constructor]. Qed.

Lemma lang_seq_cons e es w :
  lang_seq (e :: es) w <-> exists w1 w2, w = w1 ++ w2 /\ lang e w1 /\ lang_seq es w2.
Proof.
  split.
  - intros H; inversion H; subst. eauto.
  - intros (w1 & w2 & -> & H1 & H2). constructor; assumption.
Qed.

Lemma policy_loop_spec hs : forall es P,
  (forall p, In p P -> p <= length hs) ->
  exists b, policy_loop es hs P = Some b
    /\ (b = true <-> exists p, In p P /\ lang_seq es (seg hs p (length hs))).
Proof.
  induction es as [|e r IH]; intros P Hb; cbn [policy_loop].
  - eexists. split; [reflexivity|]. rewrite ps_mem_iff. split.
    + intros H. exists (length hs). split; [exact H|]. rewrite seg_nil. constructor.
    + intros (p & Hp & Hl). apply lang_seq_nil in Hl.
      pose proof (seg_length hs p (length hs) (conj (Hb p Hp) (le_n _))) as Hlen.
      rewrite Hl in Hlen. cbn in Hlen. replace (length hs) with p by (specialize (Hb p Hp); lia).
      exact Hp.
  - destruct (collect_spec e hs P [] Hb) as (next & -> & Hn).
    assert (Hequiv : (exists m, In m next /\ lang_seq r (seg hs m (length hs)))
                     <-> exists p, In p P /\ lang_seq (e :: r) (seg hs p (length hs))).
    { split.
      - intros (m & Hm & Hl). apply Hn in Hm. destruct Hm as [[]|(p & Hp & Hb' & Hle)].
        exists p. split; [exact Hp|]. rewrite <- (seg_app hs p m (length hs)) by lia.
        constructor; assumption.
      - intros (p & Hp & Hl). apply lang_seq_cons in Hl. destruct Hl as (w1 & w2 & Ew & H1 & H2).
        destruct (seg_split hs p (length hs) w1 w2 (conj (Hb p Hp) (le_n _)) Ew) as (Hm & E1 & E2).
        exists (p + length w1). split; [|rewrite <- E2; exact H2].
        apply Hn. right. exists p. split; [exact Hp|]. split; [lia|]. rewrite <- E1. exact H1. }
    destruct next as [|m0 next'].
    + exists false. split; [reflexivity|]. split; [discriminate|].
      intros H. apply Hequiv in H. destruct H as (m & [] & _).
    + assert (Hb' : forall m, In m (m0 :: next') -> m <= length hs).
      { intros m Hm. apply Hn in Hm. destruct Hm as [[]|(p & _ & Hle & _)]. lia. }
      destruct (IH (m0 :: next') Hb') as (b & Hpl & Hiff).
      exists b. split; [exact Hpl|]. rewrite Hiff. exact Hequiv.
Qed.

Lemma policy_matches_spec es hs :
  exists b, policy_matches es hs = Some b /\ (b = true <-> lang_seq es hs).
Proof.
  unfold policy_matches.
  destruct (policy_loop_spec hs es [0]) as (b & Hb & Hiff).
  { intros p [<-|[]]. lia. }
  exists b. split; [exact Hb|]. rewrite Hiff. split.
  - intros (p & [<-|[]] & H). rewrite seg_all in H. exact H.
  - intros H. exists 0. split; [left; reflexivity|]. rewrite seg_all. exact H.
Qed.
