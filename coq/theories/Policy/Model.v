(** C16 -- executable model of sciparse's path policy languages
    (crates/libs/sciparse/src/scion/path/policy.rs, policy/{types,acl,hop_pattern}.rs and the
    leaf parsers identifier/{isd,asn}.rs).  Definitions only, no proofs.

    Conventions: strings are lists of Unicode scalar values ([list N]); byte offsets (token
    spans) are computed with [utf8_len].  A Rust [BTreeSet<usize>] is modelled by a
    duplicate-free [list nat] up to membership (iteration order never influences a result:
    the sets are only unioned, tested for membership and for emptiness).  Loops whose
    termination is not structural carry explicit fuel; running out of fuel is the outcome
    [None] (matcher) / [Panic FUEL] (parser) and is proved unreachable in [Proofs].  Index and
    arithmetic sites that could panic in Rust are explicit [Panic] values. *)
From Sci Require Export Common.Outcome.
From Sci Require Import Gen.PolicyConfig.
Local Open Scope N_scope.

(** * types.rs: hops and hop predicates *)

Record hop := mkHop { h_isd : N; h_asn : N; h_in : N; h_out : N }.

Inductive ifpred :=
| IfAny
| IfEither (a : N)
| IfBoth (i e : N).

Record pred := mkPred { p_isd : N; p_asn : option N; p_ifs : ifpred }.

(** [Isd::matches] / [Asn::matches]: wildcard on either side *)
Definition id_matches (a b : N) : bool := (a =? 0) || (b =? 0) || (a =? b).
(** [InterfacePredicate::matches]: wildcard on the predicate side only *)
Definition if_matches (p x : N) : bool := (p =? 0) || (p =? x).

Definition ifs_matches (ip : ifpred) (i e : N) : bool :=
  match ip with
  | IfEither a => if_matches a i || if_matches a e
  | IfBoth pi pe => if_matches pi i && if_matches pe e
  | IfAny => true
  end.

(** [HopPredicate::matches] (via [PathPolicyHop::matches]) *)
Definition pred_matches (p : pred) (h : hop) : bool :=
  id_matches (p_isd p) (h_isd h)
  && match p_asn p with Some a => id_matches a (h_asn h) | None => true end
  && ifs_matches (p_ifs p) (h_in h) (h_out h).

Definition ifs_is_wildcard (ip : ifpred) : bool :=
  match ip with
  | IfAny => true
  | IfEither a => a =? 0
  | IfBoth i e => (i =? 0) && (e =? 0)
  end.

Definition pred_is_wildcard (p : pred) : bool :=
  (p_isd p =? 0)
  && match p_asn p with Some a => a =? 0 | None => true end
  && ifs_is_wildcard (p_ifs p).

(** * acl.rs *)

Inductive aclop := Allow | Deny.
Definition is_allow (o : aclop) : bool := match o with Allow => true | Deny => false end.

Definition entry := (aclop * pred)%type.
Record acl := mkAcl { a_entries : list entry; a_default : aclop }.

Inductive aclres := RAllow | RDeny | RImpartial.

(** [AclEntry::matches] *)
Definition entry_matches (e : entry) (h : hop) : aclres :=
  if pred_matches (snd e) h
  then match fst e with Allow => RAllow | Deny => RDeny end
  else RImpartial.

(** inner [for entry in &self.entries]: [Some true] = hop_matched and break,
    [Some false] = loop ran to its end, [None] = [return false] *)
Fixpoint acl_entries_loop (es : list entry) (h : hop) : option bool :=
  match es with
  | [] => Some false
  | e :: r =>
    match entry_matches e h with
    | RAllow => Some true
    | RDeny => None
    | RImpartial => acl_entries_loop r h
    end
  end.

(** outer [for hop in path] *)
Fixpoint acl_hops_loop (a : acl) (hs : list hop) : bool :=
  match hs with
  | [] => true
  | h :: r =>
    match acl_entries_loop (a_entries a) h with
    | None => false
    | Some matched =>
      if negb matched && negb (is_allow (a_default a)) then false
      else acl_hops_loop a r
    end
  end.

Definition is_nil {A} (l : list A) : bool := match l with [] => true | _ => false end.

(** [AclPolicy::matches] *)
Definition acl_matches (a : acl) (hs : list hop) : bool :=
  if is_nil hs || is_nil (a_entries a) then is_allow (a_default a)
  else acl_hops_loop a hs.

(** * hop_pattern.rs: expressions and the position-set matcher *)

Inductive expr :=
| EPred (p : pred)
| EOr (a b : expr)
| EOpt (e : expr)
| EPlus (e : expr)
| EStar (e : expr).

Definition pset := list nat.
Definition ps_mem (n : nat) (s : pset) : bool := existsb (Nat.eqb n) s.
Definition ps_add (n : nat) (s : pset) : pset := if ps_mem n s then s else n :: s.
(** [a] extended by the elements of [b] *)
Definition ps_union (a b : pset) : pset := fold_right ps_add a b.

Section Nested.
  (** [inner.match_from(hops, _)]; [None] = fuel exhausted somewhere below *)
  Variable mf : nat -> option pset.

  (** [for n in res { if !all.contains(&n) { all.insert(n); next.insert(n); } }] *)
  Fixpoint nested_inner (res : list nat) (all next : pset) : pset * pset :=
    match res with
    | [] => (all, next)
    | n :: r =>
      if ps_mem n all then nested_inner r all next
      else nested_inner r (n :: all) (n :: next)
    end.

  (** [for p in frontier { let res = inner.match_from(hops, p); ... }] *)
  Fixpoint nested_outer (frontier : list nat) (all next : pset) : option (pset * pset) :=
    match frontier with
    | [] => Some (all, next)
    | p :: fr =>
      match mf p with
      | None => None
      | Some res => let '(a, n) := nested_inner res all next in nested_outer fr a n
      end
    end.

  (** [while !frontier.is_empty() { ... frontier = next; }] -- one unit of fuel per iteration *)
  Fixpoint nested_loop (fuel : nat) (all frontier : pset) : option pset :=
    match frontier with
    | [] => Some all
    | _ :: _ =>
      match fuel with
      | O => None
      | S f =>
        match nested_outer frontier all [] with
        | None => None
        | Some (a, n) => nested_loop f a n
        end
      end
    end.

  (** [all_nested_matches]: [frontier = inner.match_from(hops, pos); all.extend(&frontier)] *)
  Definition all_nested (fuel : nat) (pos : nat) : option pset :=
    match mf pos with
    | None => None
    | Some fr => let '(a, _) := nested_inner fr [] [] in nested_loop fuel a a
    end.
End Nested.

(** [HopPatternExpression::match_from].  [pos < hops.len() && hops[pos]...] is the guarded
    index [nth_error] (the index site is unreachable when the guard fails). *)
Fixpoint match_from (e : expr) (hs : list hop) (pos : nat) {struct e} : option pset :=
  match e with
  | EPred p =>
    Some match nth_error hs pos with
         | Some h => if pred_matches p h then [S pos] else []
         | None => []
         end
  | EOr a b =>
    match match_from a hs pos with
    | None => None
    | Some l =>
      match match_from b hs pos with
      | None => None
      | Some r => Some (ps_union l r)
      end
    end
  | EOpt i =>
    match match_from i hs pos with
    | None => None
    | Some r => Some (ps_union [pos] r)
    end
  | EPlus i => all_nested (match_from i hs) (S (length hs)) pos
  | EStar i =>
    match all_nested (match_from i hs) (S (length hs)) pos with
    | None => None
    | Some v => Some (ps_add pos v)
    end
  end.

(** [for &position in &positions { next_positions.extend(expr.match_from(hops, position)) }] *)
Fixpoint collect (f : nat -> option pset) (ps : list nat) (acc : pset) : option pset :=
  match ps with
  | [] => Some acc
  | p :: r =>
    match f p with
    | None => None
    | Some s => collect f r (ps_union acc s)
    end
  end.

(** [HopPatternPolicy::matches]: loop over the top-level expressions *)
Fixpoint policy_loop (es : list expr) (hs : list hop) (positions : pset) : option bool :=
  match es with
  | [] => Some (ps_mem (length hs) positions)
  | e :: r =>
    match collect (match_from e hs) positions [] with
    | None => None
    | Some next =>
      match next with
      | [] => Some false
      | _ :: _ => policy_loop r hs next
      end
    end
  end.

Definition policy_matches (es : list expr) (hs : list hop) : option bool :=
  policy_loop es hs [0%nat].

(** [Policy::matches]: hop pattern first, then ACL *)
Definition combined_matches (a : option acl) (p : option (list expr)) (hs : list hop) : option bool :=
  match (match p with Some es => policy_matches es hs | None => Some true end) with
  | None => None
  | Some false => Some false
  | Some true => Some (match a with Some a => acl_matches a hs | None => true end)
  end.

(** * types.rs: [hops_from_path] on the interface list of the path metadata
    (an interface is (isd, asn, id)); [None] models the three [Err] returns *)
Definition iface := (N * N * N)%type.

Fixpoint hops_chunks (l : list iface) : option (list hop) :=
  match l with
  | [] => None                                  (* remainder is not one element *)
  | [(i, a, id)] => Some [mkHop i a id 0]       (* last hop *)
  | (i1, a1, id1) :: (i2, a2, id2) :: r =>
    if (i1 =? i2) && (a1 =? a2) then
      match hops_chunks r with
      | Some hs => Some (mkHop i1 a1 id1 id2 :: hs)
      | None => None
      end
    else None
  end.

Definition hops_from_path (meta : option (option (list iface))) : option (list hop) :=
  match meta with
  | None => None
  | Some None => None
  | Some (Some []) => None
  | Some (Some ((i, a, id) :: rest)) =>
    match hops_chunks rest with
    | Some hs => Some (mkHop i a 0 id :: hs)
    | None => None
    end
  end.

(** * leaf text parsers ([u16::from_str], [u64::from_str], [u16::from_str_radix(_, 16)]) *)

Definition U16_MAX : N := 65535.
Definition U64_MAX : N := 18446744073709551615.
Definition ASN_MAX : N := 2 ^ ASN_BITS - 1.

Definition digit_val (radix c : N) : option N :=
  let d := if (48 <=? c) && (c <=? 57) then Some (c - 48)
           else if (97 <=? c) && (c <=? 122) then Some (c - 87)
           else if (65 <=? c) && (c <=? 90) then Some (c - 55)
           else None in
  match d with
  | Some v => if v <? radix then Some v else None
  | None => None
  end.

Fixpoint digits_acc (radix max v : N) (s : list N) : option N :=
  match s with
  | [] => Some v
  | c :: r =>
    match digit_val radix c with
    | None => None
    | Some d =>
      let v' := v * radix + d in
      if max <? v' then None else digits_acc radix max v' r
    end
  end.

(** unsigned [from_str_radix]: empty and a lone sign are errors, one leading '+' is accepted *)
Definition parse_uint (radix max : N) (s : list N) : option N :=
  match s with
  | [] => None
  | [c] => if (c =? 43) || (c =? 45) then None else digits_acc radix max 0 s
  | c :: r => if c =? 43 then digits_acc radix max 0 r else digits_acc radix max 0 s
  end.

(** [str::splitn(2, sep)]: first piece, and the remainder when the separator occurs *)
Fixpoint split_once (sep : N) (s : list N) : list N * option (list N) :=
  match s with
  | [] => ([], None)
  | c :: r =>
    if c =? sep then ([], Some r)
    else let '(a, b) := split_once sep r in (c :: a, b)
  end.

(** [Asn::from_str] *)
Definition asn_from_str (s : list N) : option N :=
  match parse_uint 10 U64_MAX s with
  | Some v => if v <=? ASN_DECIMAL_MAX then Some v else None
  | None =>
    let '(s1, r1) := split_once 58 s in
    match r1 with
    | None => None
    | Some r1 =>
      let '(s2, r2) := split_once 58 r1 in
      match r2 with
      | None => None
      | Some s3 =>
        match parse_uint 16 U16_MAX s1, parse_uint 16 U16_MAX s2, parse_uint 16 U16_MAX s3 with
        | Some a, Some b, Some c =>
          let v := (a * 2 ^ ASN_BITS_PER_PART + b) * 2 ^ ASN_BITS_PER_PART + c in
          if ASN_MAX <? v then None else Some v
        | _, _, _ => None
        end
      end
    end
  end.

(** [InterfacesPredicate::from_str] *)
Definition ifs_from_str (s : list N) : option ifpred :=
  let '(a, b) := split_once 44 s in
  match b with
  | None =>
    match parse_uint 10 U16_MAX a with Some v => Some (IfEither v) | None => None end
  | Some e =>
    match parse_uint 10 U16_MAX a with
    | None => None
    | Some i =>
      match parse_uint 10 U16_MAX e with Some o => Some (IfBoth i o) | None => None end
    end
  end.

(** [HopPredicate::from_str] *)
Definition pred_from_str (s : list N) : option pred :=
  let '(isd_s, more) := split_once 45 s in
  match parse_uint 10 U16_MAX isd_s with
  | None => None
  | Some isd =>
    match more with
    | None => Some (mkPred isd None IfAny)
    | Some more =>
      let '(asn_s, more2) := split_once 35 more in
      match asn_from_str asn_s with
      | None => None
      | Some asn =>
        match more2 with
        | None => Some (mkPred isd (Some asn) IfAny)
        | Some ifs_s =>
          match ifs_from_str ifs_s with
          | None => None
          | Some ifs => Some (mkPred isd (Some asn) ifs)
          end
        end
      end
    end
  end.

(** * Display *)

Definition digit_char (d : N) : N := if d <? 10 then 48 + d else 87 + d.

(** digits of [n] in [radix], most significant first, in front of [acc]; [fuel] bounds the
    number of digits (64 suffices for every u64 in any radix >= 2) *)
Fixpoint print_radix_aux (fuel : nat) (radix n : N) (acc : list N) : list N :=
  match fuel with
  | O => acc
  | S f =>
    if n <? radix then digit_char n :: acc
    else print_radix_aux f radix (n / radix) (digit_char (n mod radix) :: acc)
  end.
Definition print_dec (n : N) : list N := print_radix_aux 64 10 n [].
Definition print_hex (n : N) : list N := print_radix_aux 64 16 n [].

(** [Display for Asn] *)
Definition asn_to_str (a : N) : list N :=
  if a <=? ASN_DECIMAL_MAX then print_dec a
  else print_hex ((a / 2 ^ (2 * ASN_BITS_PER_PART)) mod 65536) ++ [58]
       ++ print_hex ((a / 2 ^ ASN_BITS_PER_PART) mod 65536) ++ [58]
       ++ print_hex (a mod 65536).

(** [Display for InterfacesPredicate] *)
Definition ifs_to_str (ip : ifpred) : list N :=
  match ip with
  | IfAny => []
  | IfEither a => print_dec a
  | IfBoth i e => print_dec i ++ [44] ++ print_dec e
  end.

(** [Display for HopPredicate] *)
Definition pred_to_str (p : pred) : list N :=
  print_dec (p_isd p)
  ++ match p_asn p with Some a => 45 :: asn_to_str a | None => [] end
  ++ match p_ifs p with IfAny => [] | ip => 35 :: ifs_to_str ip end.

(** * acl.rs: [AclPolicy::parse] *)

(** [char::is_whitespace] (Unicode White_Space) *)
Definition is_whitespace (c : N) : bool :=
  ((9 <=? c) && (c <=? 13)) || (c =? 32) || (c =? 133) || (c =? 160) || (c =? 5760)
  || ((8192 <=? c) && (c <=? 8202)) || (c =? 8232) || (c =? 8233) || (c =? 8239)
  || (c =? 8287) || (c =? 12288).

(** [str::split_whitespace] *)
Fixpoint split_ws_go (s : list N) (cur : list N) : list (list N) :=
  match s with
  | [] => match cur with [] => [] | _ => [rev cur] end
  | c :: r =>
    if is_whitespace c then
      match cur with [] => split_ws_go r [] | _ => rev cur :: split_ws_go r [] end
    else split_ws_go r (c :: cur)
  end.
Definition split_ws (s : list N) : list (list N) := split_ws_go s [].

(** [AclEntryOperator::parse] *)
Definition op_parse (s : list N) : option aclop :=
  match s with
  | [43] => Some Allow
  | [45] => Some Deny
  | _ => None
  end.

(** the [while let (Some(first), Some(second))] loop and the default operator *)
Fixpoint acl_parse_go (ws : list (list N)) (acc : list entry) : option acl :=
  match ws with
  | [] => None
  | [f] => match op_parse f with Some o => Some (mkAcl (rev acc) o) | None => None end
  | f :: s :: rest =>
    match op_parse f with
    | None => None
    | Some o =>
      match pred_from_str s with
      | None => None
      | Some hp =>
        if pred_is_wildcard hp then
          match rest with
          | _ :: _ => None
          | [] => Some (mkAcl (rev acc) o)
          end
        else acl_parse_go rest ((o, hp) :: acc)
      end
    end
  end.

Definition acl_parse (s : list N) : option acl := acl_parse_go (split_ws s) [].

(** * hop_pattern.rs: lexer *)

Inductive tkind :=
| KPred (s : list N)
| KBang | KAnd | KOr | KLParen | KRParen | KQMark | KPlus | KStar | KEOI.

Record token := mkTok { t_kind : tkind; t_lo : N; t_hi : N }.

Definition utf8_len (c : N) : N :=
  if c <? 128 then 1 else if c <? 2048 then 2 else if c <? 65536 then 3 else 4.

Definition memN (c : N) (l : list N) : bool := existsb (N.eqb c) l.

(** the [match c] of [next_token]: a single-character token, skipped whitespace, or the
    start of a hop predicate *)
Inductive cclass := CSingle (k : tkind) | CSkip | CStart.
Definition classify (c : N) : cclass :=
  if c =? CH_QMARK then CSingle KQMark
  else if c =? CH_PLUS then CSingle KPlus
  else if c =? CH_STAR then CSingle KStar
  else if c =? CH_BANG then CSingle KBang
  else if c =? CH_AND then CSingle KAnd
  else if c =? CH_OR then CSingle KOr
  else if c =? CH_LPAREN then CSingle KLParen
  else if c =? CH_RPAREN then CSingle KRParen
  else if is_whitespace c then CSkip
  else CStart.

(** the break condition of [read_hop_predicate] *)
Definition pred_break (c : N) : bool := is_whitespace c || memN c RESERVED_CHARS.

(** [tokenize], written as one structural pass over the characters: [cur] is the hop
    predicate being read by [read_hop_predicate] (start offset, characters reversed); a
    character that ends the predicate is not consumed by [read_hop_predicate] and is handled
    by [next_token] afterwards, exactly as here.  [idx] is the byte offset of [c]. *)
Fixpoint lex_go (s : list N) (idx : N) (cur : option (N * list N)) : list token :=
  match s with
  | [] =>
    match cur with
    | Some (st, id) => [mkTok (KPred (rev id)) st idx]
    | None => []
    end ++ [mkTok KEOI idx idx]
  | c :: r =>
    let idx' := idx + utf8_len c in
    let fresh :=
      match classify c with
      | CSingle k => mkTok k idx (idx + 1) :: lex_go r idx' None
      | CSkip => lex_go r idx' None
      | CStart => lex_go r idx' (Some (idx, [c]))
      end in
    match cur with
    | Some (st, id) =>
      if pred_break c then mkTok (KPred (rev id)) st idx :: fresh
      else lex_go r idx' (Some (st, c :: id))
    | None => fresh
    end
  end.

Definition lex (s : list N) : list token := lex_go s 0 None.

(** * hop_pattern.rs: Pratt parser *)

(** error = (class, span.0, span.1); classes:
    1 invalid hop predicate, 2 '!' unsupported, 3 expected ')', 4 end of stream inside
    parentheses, 5 unexpected token, 6 end of stream at expression start, 7 '&' unsupported,
    8 trailing tokens *)
Definition perr := (N * N * N)%type.
Definition FUEL : N := 90.

Definition perr_at (code : N) (t : token) : perr := (code, t_lo t, t_hi t).

Fixpoint parse_expr (fuel : nat) (endsp : N * N) (lbp : N) (ts : list token) {struct fuel}
  : outcome (expr * list token) perr :=
  match ts with
  | [] => Err (6, fst endsp, snd endsp)
  | t :: r =>
    match fuel with
    | O => Panic FUEL
    | S f =>
      match t_kind t with
      | KPred s =>
        match pred_from_str s with
        | Some p => parse_led f endsp lbp (EPred p) r
        | None => Err (perr_at 1 t)
        end
      | KBang => Err (perr_at 2 t)
      | KLParen =>
        match parse_expr f endsp NO_BIND_POWER r with
        | Ok (e, r') =>
          match r' with
          | t' :: r'' =>
            match t_kind t' with
            | KRParen => parse_led f endsp lbp e r''
            | _ => Err (perr_at 3 t')
            end
          | [] => Err (perr_at 4 t)
          end
        | Err x => Err x
        | Panic x => Panic x
        end
      | _ => Err (perr_at 5 t)
      end
    end
  end
(** the "left denotation" loop; a unit of fuel per consumed token *)
with parse_led (fuel : nat) (endsp : N * N) (lbp : N) (e : expr) (ts : list token) {struct fuel}
  : outcome (expr * list token) perr :=
  match ts with
  | [] => Ok (e, ts)
  | t :: r =>
    match t_kind t with
    | KQMark => match fuel with O => Panic FUEL | S f => parse_led f endsp lbp (EOpt e) r end
    | KPlus => match fuel with O => Panic FUEL | S f => parse_led f endsp lbp (EPlus e) r end
    | KStar => match fuel with O => Panic FUEL | S f => parse_led f endsp lbp (EStar e) r end
    | KAnd => Err (perr_at 7 t)          (* self.tokens[self.pos]: in range, peek was Some *)
    | KOr =>
      if OR_BIND_POWER <? lbp then Ok (e, ts)
      else
        match fuel with
        | O => Panic FUEL
        | S f =>
          match parse_expr f endsp (OR_BIND_POWER + 1) r with
          | Ok (rhs, r') => parse_led f endsp lbp (EOr e rhs) r'
          | Err x => Err x
          | Panic x => Panic x
          end
        end
    | _ => Ok (e, ts)
    end
  end.

Definition is_eoi (k : tkind) : bool := match k with KEOI => true | _ => false end.

(** [while self.peek_kind() != Some(&TokenKind::EOI)] *)
Fixpoint parse_top (fuel : nat) (endsp : N * N) (ts : list token) (acc : list expr)
  : outcome (list expr * list token) perr :=
  match ts with
  | t :: _ =>
    if is_eoi (t_kind t) then Ok (rev acc, ts)
    else
      match fuel with
      | O => Panic FUEL
      | S f =>
        match parse_expr (S f) endsp NO_BIND_POWER ts with
        | Ok (e, r) => parse_top f endsp r (e :: acc)
        | Err x => Err x
        | Panic x => Panic x
        end
      end
  | [] => Err (6, fst endsp, snd endsp)   (* parse_expr: consume() is None *)
  end.

Definition end_span (ts : list token) : N * N :=
  match rev ts with
  | t :: _ => (t_hi t, t_hi t)
  | [] => (0, 0)
  end.

(** [HopPatternParser::parse].  [self.tokens.len() - 1] is [Panic 1] on an empty token
    slice and [self.tokens[self.pos]] is [Panic 2] when out of range. *)
Definition parse_tokens (ts : list token) : outcome (list expr) perr :=
  match parse_top (length ts) (end_span ts) ts [] with
  | Ok (es, rest) =>
    match length ts with
    | O => Panic 1
    | S n =>
      if Nat.ltb (length ts - length rest) n then
        match rest with
        | t :: _ => Err (perr_at 8 t)
        | [] => Panic 2
        end
      else Ok es
    end
  | Err x => Err x
  | Panic x => Panic x
  end.

(** [HopPatternPolicy::parse] *)
Definition parse_pattern (s : list N) : outcome (list expr) perr := parse_tokens (lex s).
