(** C16 -- lemmas, part 3: the Pratt parser never panics and never runs out of fuel (fuel =
    token count); it inverts the token-level grammar of [Spec] (so redundant parentheses do
    not change the parsed expression); the lexer ignores whitespace between tokens. *)
From Sci Require Import Policy.Model Policy.Spec.
From Sci Require Import Gen.PolicyConfig.
From Coq Require Import Lia ZifyBool ZifyNat ZifyN.
Local Open Scope nat_scope.

Definition pres := outcome (expr * list token) perr.

(** ** unfolding equations *)
Lemma parse_expr_nil fuel endsp lbp : parse_expr fuel endsp lbp [] = Err (6%N, fst endsp, snd endsp).
Proof. destruct fuel; reflexivity. Qed.

Lemma parse_expr_cons f endsp lbp t r :
  parse_expr (S f) endsp lbp (t :: r) =
  match t_kind t with
  | KPred s =>
    match pred_from_str s with
    | Some p => parse_led f endsp lbp (EPred p) r
    | None => Err (perr_at 1 t)
    end
  | KBang => Err (perr_at 2 t)
  | KLParen =>
    match parse_expr f endsp NO_BIND_POWER r with
    | Ok (e, r') =>
      match r' with
      | t' :: r'' =>
        match t_kind t' with
        | KRParen => parse_led f endsp lbp e r''
        | _ => Err (perr_at 3 t')
        end
      | [] => Err (perr_at 4 t)
      end
    | Err x => Err x
    | Panic x => Panic x
    end
  | _ => Err (perr_at 5 t)
  end.
Proof. reflexivity. Qed.

Lemma parse_led_nil fuel endsp lbp e : parse_led fuel endsp lbp e [] = Ok (e, []).
Proof. destruct fuel; reflexivity. Qed.

Lemma parse_led_cons f endsp lbp e t r :
  parse_led (S f) endsp lbp e (t :: r) =
  match t_kind t with
  | KQMark => parse_led f endsp lbp (EOpt e) r
  | KPlus => parse_led f endsp lbp (EPlus e) r
  | KStar => parse_led f endsp lbp (EStar e) r
  | KAnd => Err (perr_at 7 t)
  | KOr =>
    if (OR_BIND_POWER <? lbp)%N then Ok (e, t :: r)
    else
      match parse_expr f endsp (OR_BIND_POWER + 1)%N r with
      | Ok (rhs, r') => parse_led f endsp lbp (EOr e rhs) r'
      | Err x => Err x
      | Panic x => Panic x
      end
  | _ => Ok (e, t :: r)
  end.
Proof. reflexivity. Qed.

(** ** totality: with fuel >= number of tokens nothing panics, and the rest shrinks *)
Definition shorter (strict : bool) (n : nat) (o : pres) : Prop :=
  match o with
  | Ok (_, r) => if strict then length r < n else length r <= n
  | Err _ => True
  | Panic _ => False
  end.

Lemma parse_ok : forall fuel,
  (forall endsp lbp ts, length ts <= fuel -> shorter true (length ts) (parse_expr fuel endsp lbp ts))
  /\ (forall endsp lbp e ts, length ts <= fuel -> shorter false (length ts) (parse_led fuel endsp lbp e ts)).
Proof.
  induction fuel as [|f [IHe IHl]].
  - split; intros; destruct ts; cbn in *; try lia; exact I || lia.
  - split.
    + intros endsp lbp [|t r] Hlen; [rewrite parse_expr_nil; exact I|].
      rewrite parse_expr_cons. cbn [length] in *.
      destruct (t_kind t); try exact I.
      * destruct (pred_from_str s); [|exact I].
        specialize (IHl endsp lbp (EPred p) r ltac:(lia)).
        destruct (parse_led f endsp lbp (EPred p) r) as [[e' r']| |]; cbn in *; [lia|exact I|exact IHl].
      * specialize (IHe endsp NO_BIND_POWER r ltac:(lia)).
        destruct (parse_expr f endsp NO_BIND_POWER r) as [[e r']| |]; cbn in *; [|exact I|exact IHe].
        destruct r' as [|t' r'']; [exact I|]. cbn [length] in IHe.
        destruct (t_kind t'); try exact I.
        specialize (IHl endsp lbp e r'' ltac:(lia)).
        destruct (parse_led f endsp lbp e r'') as [[e' r3]| |]; cbn in *; [lia|exact I|exact IHl].
    + intros endsp lbp e [|t r] Hlen; [rewrite parse_led_nil; cbn; lia|].
      rewrite parse_led_cons. cbn [length] in *.
      assert (Hpost : forall e', shorter false (S (length r)) (parse_led f endsp lbp e' r)).
      { intros e'. specialize (IHl endsp lbp e' r ltac:(lia)).
        destruct (parse_led f endsp lbp e' r) as [[e2 r2]| |]; cbn in *; [lia|exact I|exact IHl]. }
      destruct (t_kind t); try (cbn; lia); try apply Hpost; try exact I.
      destruct (OR_BIND_POWER <? lbp)%N; [cbn; lia|].
      specialize (IHe endsp (OR_BIND_POWER + 1)%N r ltac:(lia)).
      destruct (parse_expr f endsp (OR_BIND_POWER + 1)%N r) as [[rhs r']| |]; cbn in *; [|exact I|exact IHe].
      specialize (IHl endsp lbp (EOr e rhs) r' ltac:(lia)).
      destruct (parse_led f endsp lbp (EOr e rhs) r') as [[e2 r2]| |]; cbn in *; [lia|exact I|exact IHl].
Qed.

(** ** the result does not depend on the amount of (sufficient) fuel *)
Lemma fuel_irrel : forall f1,
  (forall f2 endsp lbp ts, length ts <= f1 -> length ts <= f2 ->
     parse_expr f1 endsp lbp ts = parse_expr f2 endsp lbp ts)
  /\ (forall f2 endsp lbp e ts, length ts <= f1 -> length ts <= f2 ->
     parse_led f1 endsp lbp e ts = parse_led f2 endsp lbp e ts).
Proof.
  induction f1 as [|f1 [IHe IHl]].
  - split; intros; destruct ts; cbn in *; try lia.
    + rewrite !parse_expr_nil; reflexivity.
    + rewrite !parse_led_nil; reflexivity.
  - split.
    + intros f2 endsp lbp [|t r] H1 H2; [rewrite !parse_expr_nil; reflexivity|].
      destruct f2 as [|f2]; cbn [length] in *; [lia|]. rewrite !parse_expr_cons.
      destruct (t_kind t); try reflexivity.
      * destruct (pred_from_str s); [|reflexivity]. apply IHl; lia.
      * rewrite (IHe f2 endsp NO_BIND_POWER r) by lia.
        pose proof (proj1 (parse_ok f2) endsp NO_BIND_POWER r ltac:(lia)) as Hs.
        destruct (parse_expr f2 endsp NO_BIND_POWER r) as [[e r']| |]; try reflexivity.
        cbn in Hs. destruct r' as [|t' r'']; [reflexivity|]. cbn [length] in Hs.
        destruct (t_kind t'); try reflexivity. apply IHl; lia.
    + intros f2 endsp lbp e [|t r] H1 H2; [rewrite !parse_led_nil; reflexivity|].
      destruct f2 as [|f2]; cbn [length] in *; [lia|]. rewrite !parse_led_cons.
      destruct (t_kind t); try reflexivity; try (apply IHl; lia).
      destruct (OR_BIND_POWER <? lbp)%N; [reflexivity|].
      rewrite (IHe f2 endsp (OR_BIND_POWER + 1)%N r) by lia.
      pose proof (proj1 (parse_ok f2) endsp (OR_BIND_POWER + 1)%N r ltac:(lia)) as Hs.
      destruct (parse_expr f2 endsp (OR_BIND_POWER + 1)%N r) as [[rhs r']| |]; try reflexivity.
      cbn in Hs. apply IHl; lia.
Qed.

Lemma led_irrel f1 f2 endsp lbp e ts :
  length ts <= f1 -> length ts <= f2 -> parse_led f1 endsp lbp e ts = parse_led f2 endsp lbp e ts.
Proof. apply (proj2 (fuel_irrel f1)). Qed.
Lemma expr_irrel f1 f2 endsp lbp ts :
  length ts <= f1 -> length ts <= f2 -> parse_expr f1 endsp lbp ts = parse_expr f2 endsp lbp ts.
Proof. apply (proj1 (fuel_irrel f1)). Qed.

(** ** the top-level loop and [parse] *)
Lemma parse_top_ok : forall fuel endsp ts acc,
  length ts <= fuel ->
  match parse_top fuel endsp ts acc with
  | Ok (_, rest) => length rest <= length ts /\ exists t r, rest = t :: r /\ is_eoi (t_kind t) = true
  | Err _ => True
  | Panic _ => False
  end.
Proof.
  induction fuel as [|f IH]; intros endsp ts acc Hlen.
  - destruct ts; cbn in *; [exact I|lia].
  - destruct ts as [|t r]; [exact I|]. cbn [parse_top].
    destruct (is_eoi (t_kind t)) eqn:Ee.
    + split; [lia|]. eauto.
    + pose proof (proj1 (parse_ok (S f)) endsp NO_BIND_POWER (t :: r) Hlen) as Hs.
      destruct (parse_expr (S f) endsp NO_BIND_POWER (t :: r)) as [[e r']| |]; cbn in Hs; [|exact I|exact Hs].
      cbn [length] in Hlen.
      assert (Hr' : length r' <= f) by lia.
      specialize (IH endsp r' (e :: acc) Hr').
      destruct (parse_top f endsp r' (e :: acc)) as [[es rest]| |]; [|exact I|exact IH].
      destruct IH as (Hl & Hex). split; [cbn [length]; lia|exact Hex].
Qed.

Lemma parse_tokens_total ts : is_panic (parse_tokens ts) = false.
Proof.
  unfold parse_tokens.
  pose proof (parse_top_ok (length ts) (end_span ts) ts [] (le_n _)) as H.
  destruct (parse_top (length ts) (end_span ts) ts []) as [[es rest]| |]; [|reflexivity|contradiction].
  destruct H as (Hl & t & r & -> & _).
  destruct (length ts); [cbn in Hl; lia|].
  destruct (Nat.ltb _ _); reflexivity.
Qed.

(** ** the parser inverts the token grammar *)
Scheme post_k_mut := Minimality for post_k Sort Prop
  with or_k_mut := Minimality for or_k Sort Prop.
Combined Scheme post_or_k_ind from post_k_mut, or_k_mut.

Notation postK := (post_k pred_from_str).
Notation orK := (or_k pred_from_str).

Definition nopost (rest : list token) : Prop :=
  match rest with
  | [] => True
  | t :: _ => match t_kind t with KQMark | KPlus | KStar | KAnd => False | _ => True end
  end.
Definition head_not_or (rest : list token) : Prop :=
  match rest with
  | [] => True
  | t :: _ => match t_kind t with KOr => False | _ => True end
  end.

Lemma led_stop fuel endsp lbp e rest :
  nopost rest -> (head_not_or rest \/ (OR_BIND_POWER <? lbp)%N = true) ->
  parse_led fuel endsp lbp e rest = Ok (e, rest).
Proof.
  intros Hn Ho. destruct rest as [|t r]; [apply parse_led_nil|].
  cbn in Hn, Ho. destruct fuel as [|f].
  - cbn [parse_led]. destruct (t_kind t); try contradiction; try reflexivity.
    destruct Ho as [[]| ->]. reflexivity.
  - rewrite parse_led_cons. destruct (t_kind t); try contradiction; try reflexivity.
    destruct Ho as [[]| ->]. reflexivity.
Qed.

Lemma first_tok :
  (forall e ks, postK e ks -> exists k ks', ks = k :: ks' /\ (k = KLParen \/ exists s, k = KPred s))
  /\ (forall e ks, orK e ks -> exists k ks', ks = k :: ks' /\ (k = KLParen \/ exists s, k = KPred s)).
Proof.
  apply post_or_k_ind; intros.
  - exists (KPred s), []. split; [reflexivity|right; exists s; reflexivity].
  - exists KLParen, (ks ++ [KRParen]). split; [reflexivity|left; reflexivity].
  - destruct H0 as (k & ks' & -> & Hk). exists k, (ks' ++ [KQMark]). auto.
  - destruct H0 as (k & ks' & -> & Hk). exists k, (ks' ++ [KPlus]). auto.
  - destruct H0 as (k & ks' & -> & Hk). exists k, (ks' ++ [KStar]). auto.
  - assumption.
  - destruct H0 as (k & ks' & -> & Hk). exists k, (ks' ++ KOr :: kb). auto.
Qed.

Lemma map_eq_snoc {A B} (f : A -> B) l ks k :
  map f l = ks ++ [k] -> exists l0 x, l = l0 ++ [x] /\ map f l0 = ks /\ f x = k.
Proof.
  intros H. apply map_eq_app in H. destruct H as (l0 & l1 & -> & H0 & H1).
  destruct l1 as [|x [|y l1]]; cbn in H1; try discriminate. inversion H1. eauto.
Qed.

Lemma postfix_step fuel endsp lbp e0 e q rest :
  S (length rest) <= fuel ->
  (forall f, parse_led (S f) endsp lbp e0 (q :: rest) = parse_led f endsp lbp e rest) ->
  parse_led fuel endsp lbp e0 (q :: rest) = parse_led fuel endsp lbp e rest.
Proof.
  intros Hlen H. destruct fuel as [|f]; [lia|]. rewrite H. apply led_irrel; lia.
Qed.

Lemma grammar_ok :
  (forall e ks, postK e ks ->
     forall fuel endsp lbp ts rest, map t_kind ts = ks -> length (ts ++ rest) <= fuel ->
       parse_expr fuel endsp lbp (ts ++ rest) = parse_led fuel endsp lbp e rest)
  /\ (forall e ks, orK e ks ->
     forall fuel endsp lbp ts rest, map t_kind ts = ks -> length (ts ++ rest) <= fuel ->
       (lbp <= OR_BIND_POWER)%N -> nopost rest ->
       parse_expr fuel endsp lbp (ts ++ rest) = parse_led fuel endsp lbp e rest).
Proof.
  apply post_or_k_ind.
  - (* predicate *)
    intros s p Hp fuel endsp lbp ts rest Hk Hlen.
    destruct ts as [|t [|t2 ts]]; cbn in Hk; try discriminate. inversion Hk as [Hkt]. clear Hk.
    cbn [app length] in *. destruct fuel as [|f]; [lia|].
    rewrite parse_expr_cons, Hkt, Hp. apply led_irrel; lia.
  - (* parentheses *)
    intros e ks _ IH fuel endsp lbp ts rest Hk Hlen.
    destruct ts as [|l ts]; cbn in Hk; [discriminate|]. inversion Hk as [[Hl Hk']]. clear Hk.
    apply map_eq_snoc in Hk'. destruct Hk' as (ts0 & r & -> & Hts0 & Hr).
    cbn [app length] in *. rewrite <- app_assoc in *. cbn [app] in *.
    destruct fuel as [|f]; [lia|]. rewrite parse_expr_cons, Hl.
    rewrite (IH f endsp NO_BIND_POWER ts0 (r :: rest) Hts0 ltac:(lia)).
    + rewrite led_stop; [|cbn; rewrite Hr; exact I|left; cbn; rewrite Hr; exact I].
      rewrite Hr. apply led_irrel; rewrite app_length in Hlen; cbn [length] in Hlen; lia.
    + unfold NO_BIND_POWER, OR_BIND_POWER. lia.
    + cbn. rewrite Hr. exact I.
  - (* ? *)
    intros e ks _ IH fuel endsp lbp ts rest Hk Hlen.
    apply map_eq_snoc in Hk. destruct Hk as (ts0 & q & -> & Hts0 & Hq).
    rewrite <- app_assoc in *. cbn [app] in *.
    rewrite (IH fuel endsp lbp ts0 (q :: rest) Hts0 Hlen).
    apply postfix_step; [rewrite app_length in Hlen; cbn [length] in Hlen; lia|].
    intros f. rewrite parse_led_cons, Hq. reflexivity.
  - (* + *)
    intros e ks _ IH fuel endsp lbp ts rest Hk Hlen.
    apply map_eq_snoc in Hk. destruct Hk as (ts0 & q & -> & Hts0 & Hq).
    rewrite <- app_assoc in *. cbn [app] in *.
    rewrite (IH fuel endsp lbp ts0 (q :: rest) Hts0 Hlen).
    apply postfix_step; [rewrite app_length in Hlen; cbn [length] in Hlen; lia|].
    intros f. rewrite parse_led_cons, Hq. reflexivity.
  - (* * *)
    intros e ks _ IH fuel endsp lbp ts rest Hk Hlen.
    apply map_eq_snoc in Hk. destruct Hk as (ts0 & q & -> & Hts0 & Hq).
    rewrite <- app_assoc in *. cbn [app] in *.
    rewrite (IH fuel endsp lbp ts0 (q :: rest) Hts0 Hlen).
    apply postfix_step; [rewrite app_length in Hlen; cbn [length] in Hlen; lia|].
    intros f. rewrite parse_led_cons, Hq. reflexivity.
  - (* or-chain of one piece *)
    intros e ks _ IH fuel endsp lbp ts rest Hk Hlen _ _. apply IH; assumption.
  - (* a | b *)
    intros a b ka kb _ IHa Hb IHb fuel endsp lbp ts rest Hk Hlen Hlbp Hn.
    apply map_eq_app in Hk. destruct Hk as (ta & tob & -> & Hta & Htob).
    destruct tob as [|o tb]; cbn in Htob; [discriminate|]. inversion Htob as [[Ho Htb]]. clear Htob.
    rewrite <- app_assoc in *. cbn [app] in *.
    rewrite (IHa fuel endsp lbp ta (o :: tb ++ rest) Hta Hlen Hlbp); [|cbn; rewrite Ho; exact I].
    rewrite app_length in Hlen. cbn [length] in Hlen.
    destruct fuel as [|f]; [lia|]. rewrite parse_led_cons, Ho.
    replace (OR_BIND_POWER <? lbp)%N with false by lia.
    rewrite (IHb f endsp (OR_BIND_POWER + 1)%N tb rest Htb ltac:(lia)).
    rewrite led_stop; [|exact Hn|right; unfold OR_BIND_POWER; reflexivity].
    apply led_irrel; rewrite app_length in Hlen; lia.
Qed.

Lemma or_parse e ks fuel endsp ts rest :
  orK e ks -> map t_kind ts = ks -> length (ts ++ rest) <= fuel ->
  nopost rest -> head_not_or rest ->
  parse_expr fuel endsp NO_BIND_POWER (ts ++ rest) = Ok (e, rest).
Proof.
  intros Hk Hm Hlen Hn Ho.
  rewrite (proj2 grammar_ok e ks Hk fuel endsp NO_BIND_POWER ts rest Hm Hlen); [|unfold NO_BIND_POWER, OR_BIND_POWER; lia|exact Hn].
  apply led_stop; [exact Hn|left; exact Ho].
Qed.

Lemma top_grammar es kss :
  Forall2 orK es kss ->
  forall fuel endsp ts eoi rest0 acc,
    map t_kind ts = concat kss -> is_eoi (t_kind eoi) = true ->
    length (ts ++ eoi :: rest0) <= fuel ->
    parse_top fuel endsp (ts ++ eoi :: rest0) acc = Ok (rev acc ++ es, eoi :: rest0).
Proof.
  induction 1 as [|e ks es kss He HF IH]; intros fuel endsp ts eoi rest0 acc Hm Heoi Hlen.
  - destruct ts; [|discriminate]. cbn [app]. rewrite app_nil_r.
    destruct fuel; cbn [parse_top]; rewrite Heoi; reflexivity.
  - cbn [concat] in Hm. apply map_eq_app in Hm. destruct Hm as (t1 & t2 & -> & H1 & H2).
    destruct (proj2 first_tok e ks He) as (k & ks' & Eks & Hk).
    destruct t1 as [|t t1]; [subst ks; discriminate|].
    assert (Hnot : is_eoi (t_kind t) = false).
    { rewrite Eks in H1. cbn [map] in H1. inversion H1 as [[Hkt Hrest]].
      destruct Hk as [->|(s & ->)]; rewrite Hkt; reflexivity. }
    rewrite <- app_assoc in *. cbn [app length] in Hlen |- *.
    destruct fuel as [|f]; [lia|]. cbn [parse_top]. rewrite Hnot.
    assert (Hrest : nopost (t2 ++ eoi :: rest0) /\ head_not_or (t2 ++ eoi :: rest0)).
    { destruct t2 as [|t' t2'].
      - cbn. destruct (t_kind eoi); try discriminate. auto.
      - inversion HF as [|e' ks2 es' kss' He' HF']; subst.
        + discriminate.
        + destruct (proj2 first_tok e' ks2 He') as (k2 & ks2' & -> & Hk2).
          cbn in H2. inversion H2 as [[Hkt' Hrest']]. cbn. rewrite Hkt'.
          destruct Hk2 as [->|(s & ->)]; auto. }
    change (t :: t1 ++ t2 ++ eoi :: rest0) with ((t :: t1) ++ (t2 ++ eoi :: rest0)).
    rewrite (or_parse e ks (S f) endsp (t :: t1) (t2 ++ eoi :: rest0) He H1); [|cbn [app length]; lia|tauto|tauto].
    rewrite (IH f endsp t2 eoi rest0 (e :: acc) H2 Heoi).
    + cbn [rev]. rewrite <- app_assoc. reflexivity.
    + rewrite app_length in Hlen. lia.
Qed.

(** every token list that spells the expressions [es] (with any amount of redundant
    parentheses) followed by EOI parses to exactly [es] *)
Lemma parse_grammar es kss ts :
  Forall2 orK es kss -> map t_kind ts = concat kss ++ [KEOI] -> parse_tokens ts = Ok es.
Proof.
  intros HF Hm. apply map_eq_snoc in Hm. destruct Hm as (ts0 & eoi & -> & Hts0 & Heoi).
  unfold parse_tokens.
  rewrite (top_grammar es kss HF (length (ts0 ++ [eoi])) (end_span (ts0 ++ [eoi])) ts0 eoi [] []
             Hts0 ltac:(rewrite Heoi; reflexivity) (le_n _)).
  cbn [rev app]. rewrite app_length. cbn [length].
  replace (length ts0 + 1) with (S (length ts0)) by lia.
  replace (S (length ts0) - 1) with (length ts0) by lia.
  rewrite Nat.ltb_irrefl. reflexivity.
Qed.

(** ** lexer: whitespace between tokens is irrelevant *)
Local Open Scope N_scope.

Lemma skip_char_class c : unicode_ws c = true ->
  classify c = CSkip /\ pred_break c = true.
Proof.
  unfold unicode_ws. intros H.
  assert (Hw : is_whitespace c = true) by (unfold is_whitespace; lia).
  split.
  - unfold classify, CH_QMARK, CH_PLUS, CH_STAR, CH_BANG, CH_AND, CH_OR, CH_LPAREN, CH_RPAREN.
    rewrite Hw.
    repeat match goal with |- context [if (c =? ?k) then _ else _] =>
      let E := fresh in destruct (c =? k) eqn:E; [exfalso; lia|] end.
    reflexivity.
  - unfold pred_break. rewrite Hw. reflexivity.
Qed.

Lemma plain_char_class c : plain_char c = true -> classify c = CStart /\ pred_break c = false.
Proof.
  unfold plain_char. cbn [existsb]. intros H. split.
  - unfold classify, CH_QMARK, CH_PLUS, CH_STAR, CH_BANG, CH_AND, CH_OR, CH_LPAREN, CH_RPAREN,
      is_whitespace.
    repeat match goal with |- context [if ?b then _ else _] =>
      let E := fresh in destruct b eqn:E; [exfalso; unfold unicode_ws in *; lia|] end.
    reflexivity.
  - unfold pred_break, is_whitespace, memN, RESERVED_CHARS. cbn [existsb]. unfold unicode_ws in *. lia.
Qed.

Lemma single_class k c : tok_text k = [c] -> (forall s, k <> KPred s) ->
  classify c = CSingle k /\ pred_break c = true.
Proof.
  intros H Hn. destruct k; cbn in H; try discriminate; inversion H; subst;
    try (split; reflexivity). exfalso. eapply Hn; reflexivity.
Qed.

Definition kinds (ts : list token) : list tkind := map t_kind ts.

Lemma lex_skip w : skip_ws w = true ->
  forall r idx, exists idx', lex_go (w ++ r) idx None = lex_go r idx' None.
Proof.
  induction w as [|c w IH]; intros Hw r idx; [eauto|].
  cbn [skip_ws forallb] in Hw. apply andb_true_iff in Hw. destruct Hw as [Hc Hw].
  destruct (skip_char_class c Hc) as [Hcl _].
  cbn [app lex_go]. rewrite Hcl. apply IH, Hw.
Qed.

Lemma lex_pred_cont s : forallb plain_char s = true ->
  forall r idx st id, exists idx',
    lex_go (s ++ r) idx (Some (st, id)) = lex_go r idx' (Some (st, rev s ++ id)).
Proof.
  induction s as [|c s IH]; intros Hs r idx st id; [eauto|].
  cbn [forallb] in Hs. apply andb_true_iff in Hs. destruct Hs as [Hc Hs].
  destruct (plain_char_class c Hc) as [_ Hb].
  cbn [app lex_go]. rewrite Hb.
  destruct (IH Hs r (idx + utf8_len c) st (c :: id)) as (idx' & ->).
  exists idx'. cbn [rev]. rewrite <- app_assoc. reflexivity.
Qed.

Lemma lex_pred_end c r idx st id : pred_break c = true ->
  lex_go (c :: r) idx (Some (st, id)) = mkTok (KPred (rev id)) st idx :: lex_go (c :: r) idx None.
Proof. intros H. cbn [lex_go]. rewrite H. reflexivity. Qed.

Definition head_breaks (s : list N) : Prop :=
  match s with [] => True | c :: _ => pred_break c = true end.

Lemma lex_pred_flush text idx st id :
  head_breaks text ->
  kinds (lex_go text idx (Some (st, id))) = KPred (rev id) :: kinds (lex_go text idx None).
Proof.
  destruct text as [|c r]; intros H.
  - reflexivity.
  - cbn in H. rewrite lex_pred_end by exact H. reflexivity.
Qed.

Lemma render_head_breaks items trail :
  items_ok items = true -> skip_ws trail = true ->
  match items with
  | (w2, KPred _) :: _ => w2 <> []
  | _ => True
  end ->
  head_breaks (render items trail).
Proof.
  intros Hi Ht Hsep. unfold render. destruct items as [|[w k] r].
  - cbn. destruct trail as [|c t]; [exact I|]. cbn in Ht. apply andb_true_iff in Ht.
    apply (skip_char_class c), (proj1 Ht).
  - cbn [items_ok] in Hi. rewrite !andb_true_iff in Hi. destruct Hi as (((Hw & Hk) & _) & _).
    cbn [flat_map fst snd]. destruct w as [|c w].
    + cbn [app]. destruct k; try (cbn; reflexivity).
      * exfalso. apply Hsep. reflexivity.
      * discriminate.
    + cbn. cbn in Hw. apply andb_true_iff in Hw. apply (skip_char_class c), (proj1 Hw).
Qed.

Lemma lex_kinds items : forall trail idx,
  items_ok items = true -> skip_ws trail = true ->
  kinds (lex_go (render items trail) idx None) = map snd items ++ [KEOI].
Proof.
  induction items as [|[w k] r IH]; intros trail idx Hi Ht.
  - unfold render. cbn [flat_map app map].
    destruct (lex_skip trail Ht [] idx) as (idx' & E). rewrite app_nil_r in E. rewrite E. reflexivity.
  - pose proof Hi as Hi0. cbn [items_ok] in Hi. rewrite !andb_true_iff in Hi.
    destruct Hi as (((Hw & Hk) & Hsep) & Hr).
    unfold render. cbn [flat_map fst snd map]. rewrite <- !app_assoc.
    destruct (lex_skip w Hw (tok_text k ++ flat_map (fun it : list N * tkind => fst it ++ tok_text (snd it)) r ++ trail) idx) as (idx1 & ->).
    fold (render r trail).
    destruct k as [s| | | | | | | | |]; try discriminate;
      try (cbn [tok_text app lex_go];
           match goal with |- context [classify ?c] =>
             let v := eval vm_compute in (classify c) in change (classify c) with v end;
           unfold kinds; cbn [map app t_kind]; f_equal; apply IH; assumption).
    cbn [tok_text kind_ok] in *. apply andb_true_iff in Hk. destruct Hk as [Hne Hs].
    destruct s as [|c s]; [discriminate|]. cbn [forallb] in Hs. apply andb_true_iff in Hs.
    destruct Hs as [Hc Hs]. destruct (plain_char_class c Hc) as [Hcl _].
    cbn [app lex_go]. rewrite Hcl.
    destruct (lex_pred_cont s Hs (render r trail) (idx1 + utf8_len c) idx1 [c]) as (idx2 & ->).
    rewrite lex_pred_flush.
    + cbn [map]. rewrite rev_app_distr, rev_involutive. cbn [rev app]. f_equal. apply IH; assumption.
    + apply render_head_breaks; [exact Hr|exact Ht|].
      destruct r as [|[w2 k2] r']; [exact I|]. destruct k2; try exact I.
      destruct w2; [discriminate|discriminate].
Qed.
