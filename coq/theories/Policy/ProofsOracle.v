(** C16 -- lemmas, part 5: the derivative-based membership oracle [langb] of [Spec] decides
    exactly [lang_seq] (so the oracle evaluated on the implementation's output in [Cases] is
    the specification itself, by an algorithm unrelated to the implementation's). *)
From Sci Require Import Policy.Model Policy.Spec Policy.ProofsAcl Policy.ProofsMatch.
From Coq Require Import Lia.

Inductive rlang : re -> list hop -> Prop :=
| RL_eps : rlang REps []
| RL_ch p h : hop_sat p h -> rlang (RCh p) [h]
| RL_alt_l a b w : rlang a w -> rlang (RAlt a b) w
| RL_alt_r a b w : rlang b w -> rlang (RAlt a b) w
| RL_cat a b w1 w2 : rlang a w1 -> rlang b w2 -> rlang (RCat a b) (w1 ++ w2)
| RL_star_nil a : rlang (RStar a) []
| RL_star_app a w1 w2 : rlang a w1 -> rlang (RStar a) w2 -> rlang (RStar a) (w1 ++ w2).

Lemma rcat_inv a b w :
  rlang (RCat a b) w -> exists w1 w2, w = w1 ++ w2 /\ rlang a w1 /\ rlang b w2.
Proof. intros H; inversion H; subst; eauto. Qed.

Lemma nullable_iff r : nullable r = true <-> rlang r [].
Proof.
  induction r; cbn [nullable].
  - split; [discriminate|intros H; inversion H].
  - split; [constructor|reflexivity].
  - split; [discriminate|intros H; inversion H].
  - rewrite Bool.orb_true_iff, IHr1, IHr2. split.
    + intros [H|H]; [apply RL_alt_l|apply RL_alt_r]; exact H.
    + intros H; inversion H; subst; auto.
  - rewrite Bool.andb_true_iff, IHr1, IHr2. split.
    + intros [H1 H2]. change (@nil hop) with (@nil hop ++ []). constructor; assumption.
    + intros H. apply rcat_inv in H. destruct H as (w1 & w2 & E & H1 & H2).
      symmetry in E. apply app_eq_nil in E. destruct E; subst. auto.
  - split; [constructor|reflexivity].
Qed.

Lemma alt_iff a b w : rlang (alt a b) w <-> rlang a w \/ rlang b w.
Proof.
  assert (Hn : forall w, ~ rlang RNone w) by (intros w' H; inversion H).
  assert (G : rlang (RAlt a b) w <-> rlang a w \/ rlang b w).
  { split; [intros H; inversion H; subst; auto|intros [H|H]; [apply RL_alt_l|apply RL_alt_r]; exact H]. }
  unfold alt. destruct a; destruct b; try exact G;
    try (split; [auto|intros [H|H]; [exact H || (exfalso; eapply Hn; exact H)|exact H || (exfalso; eapply Hn; exact H)]]).
Qed.

Lemma cat_iff a b w :
  rlang (cat a b) w <-> exists w1 w2, w = w1 ++ w2 /\ rlang a w1 /\ rlang b w2.
Proof.
  assert (G : rlang (RCat a b) w <-> exists w1 w2, w = w1 ++ w2 /\ rlang a w1 /\ rlang b w2).
  { split.
    - intros H; inversion H; subst. eauto.
    - intros (w1 & w2 & -> & H1 & H2). constructor; assumption. }
  unfold cat. destruct a; try exact G.
  - split; [intros H; inversion H|intros (w1 & w2 & _ & H & _); inversion H].
  - split.
    + intros H. exists [], w. split; [reflexivity|]. split; [constructor|exact H].
    + intros (w1 & w2 & -> & H1 & H2). inversion H1; subst. exact H2.
Qed.

Lemma star_cons_inv a h w :
  rlang (RStar a) (h :: w) ->
  exists w1 w2, w = w1 ++ w2 /\ rlang a (h :: w1) /\ rlang (RStar a) w2.
Proof.
  intros H. remember (RStar a) as r eqn:Er. remember (h :: w) as hw eqn:Ew.
  revert h w Ew. induction H; inversion Er; subst; intros h w Ew; [discriminate|].
  destruct w1 as [|x w1'].
  - cbn in Ew. apply IHrlang2; [reflexivity|exact Ew].
  - cbn in Ew. inversion Ew; subst. eauto.
Qed.

Lemma deriv_iff h : forall r w, rlang (deriv h r) w <-> rlang r (h :: w).
Proof.
  induction r as [| |p|a IHa b IHb|a IHa b IHb|a IHa]; intros w; cbn [deriv].
  - split; intros H; inversion H.
  - split; intros H; inversion H.
  - destruct (hop_satb p h) eqn:E.
    + apply hop_satb_iff in E. split.
      * intros H; inversion H; subst. constructor. exact E.
      * intros H; inversion H; subst. constructor.
    + split; [intros H; inversion H|]. intros H; inversion H as [|? ? Hs| | | | |]; subst.
      apply hop_satb_iff in Hs. congruence.
  - rewrite alt_iff, IHa, IHb. split.
    + intros [H|H]; [apply RL_alt_l|apply RL_alt_r]; exact H.
    + intros H; inversion H; subst; auto.
  - assert (Hc : rlang (cat (deriv h a) b) w <-> exists w1 w2, w = w1 ++ w2 /\ rlang a (h :: w1) /\ rlang b w2).
    { rewrite cat_iff. split; intros (w1 & w2 & E & H1 & H2); exists w1, w2; (split; [exact E|]); split; try exact H2; apply IHa; exact H1. }
    assert (Hinv : rlang (RCat a b) (h :: w) <->
                   (exists w1 w2, w = w1 ++ w2 /\ rlang a (h :: w1) /\ rlang b w2)
                   \/ (rlang a [] /\ rlang b (h :: w))).
    { split.
      - intros H. apply rcat_inv in H. destruct H as (w1 & w2 & E & H1 & H2).
        destruct w1 as [|x w1'].
        + right. cbn in E. subst. auto.
        + left. cbn in E. inversion E; subst. eauto.
      - intros [(w1 & w2 & -> & H1 & H2)|[H1 H2]].
        + change (h :: w1 ++ w2) with ((h :: w1) ++ w2). constructor; assumption.
        + change (h :: w) with ([] ++ h :: w). constructor; assumption. }
    rewrite Hinv. destruct (nullable a) eqn:En.
    + apply nullable_iff in En. rewrite alt_iff, Hc, IHb. tauto.
    + rewrite Hc. split; [auto|]. intros [H|[H _]]; [exact H|].
      apply nullable_iff in H. congruence.
  - rewrite cat_iff. split.
    + intros (w1 & w2 & -> & H1 & H2). apply IHa in H1.
      change (h :: w1 ++ w2) with ((h :: w1) ++ w2). constructor; assumption.
    + intros H. apply star_cons_inv in H. destruct H as (w1 & w2 & -> & H1 & H2).
      exists w1, w2. split; [reflexivity|]. split; [apply IHa; exact H1|exact H2].
Qed.

Lemma re_matches_iff : forall hs r, re_matches r hs = true <-> rlang r hs.
Proof.
  unfold re_matches. induction hs as [|h hs IH]; intros r; cbn [fold_left].
  - apply nullable_iff.
  - rewrite IH. apply deriv_iff.
Qed.

Lemma rstar_iff a w (P : list hop -> Prop) :
  (forall w, rlang a w <-> P w) ->
  forall e, (forall w, lang e w <-> P w) ->
  (rlang (RStar a) w <-> lang (EStar e) w).
Proof.
  intros Ha e He. split.
  - intros H. remember (RStar a) as r eqn:Er. induction H; inversion Er; subst.
    + constructor.
    + apply L_star_more; [apply He, Ha; assumption|apply IHrlang2; reflexivity].
  - intros H. remember (EStar e) as e' eqn:Ee. induction H; inversion Ee; subst.
    + constructor.
    + apply RL_star_app; [apply Ha, He; assumption|apply IHlang2; reflexivity].
Qed.

Lemma plus_iff_cat_star a w :
  lang (EPlus a) w <-> exists w1 w2, w = w1 ++ w2 /\ lang a w1 /\ lang (EStar a) w2.
Proof.
  split.
  - intros H. inversion H; subst.
    + exists w, []. rewrite app_nil_r. split; [reflexivity|]. split; [assumption|constructor].
    + exists w1, w2. split; [reflexivity|]. split; [assumption|]. apply star_iff_plus. right. assumption.
  - intros (w1 & w2 & -> & H1 & H2). apply star_iff_plus in H2. destruct H2 as [->|H2].
    + rewrite app_nil_r. apply L_plus_one, H1.
    + apply L_plus_more; assumption.
Qed.

Lemma re_of_iff : forall e w, rlang (re_of e) w <-> lang e w.
Proof.
  induction e as [p|a IHa b IHb|a IHa|a IHa|a IHa]; intros w; cbn [re_of].
  - split; intros H; inversion H; subst; constructor; assumption.
  - split.
    + intros H; inversion H; subst; [apply L_or_l, IHa|apply L_or_r, IHb]; assumption.
    + intros H; inversion H; subst; [apply RL_alt_l, IHa|apply RL_alt_r, IHb]; assumption.
  - split.
    + intros H; inversion H as [| |? ? ? H1|? ? ? H1| | |]; subst.
      * inversion H1; subst. constructor.
      * apply L_opt_some, IHa, H1.
    + intros H; inversion H; subst; [apply RL_alt_l; constructor|apply RL_alt_r, IHa; assumption].
  - rewrite (plus_iff_cat_star a w). split.
    + intros H. apply rcat_inv in H. destruct H as (w1 & w2 & -> & H1 & H2).
      exists w1, w2. split; [reflexivity|]. split; [apply IHa, H1|].
      apply (rstar_iff (re_of a) w2 (lang a) IHa a (fun _ => iff_refl _)), H2.
    + intros (w1 & w2 & -> & H1 & H2). constructor; [apply IHa, H1|].
      apply (rstar_iff (re_of a) w2 (lang a) IHa a (fun _ => iff_refl _)), H2.
  - apply (rstar_iff (re_of a) w (lang a) IHa a (fun _ => iff_refl _)).
Qed.

Lemma re_seq_iff : forall es w, rlang (re_seq es) w <-> lang_seq es w.
Proof.
  induction es as [|e es IH]; intros w; cbn [re_seq].
  - split; intros H; inversion H; constructor.
  - split.
    + intros H; inversion H; subst. constructor; [apply re_of_iff|apply IH]; assumption.
    + intros H; inversion H; subst. constructor; [apply re_of_iff|apply IH]; assumption.
Qed.

Lemma langb_iff es hs : langb es hs = true <-> lang_seq es hs.
Proof. unfold langb. rewrite re_matches_iff. apply re_seq_iff. Qed.
