(** Correspondence driver for C16: evaluated by [vm_compute] on case files written by the
    Rust harness (harness/hc_policy/src/bin/h_policy.rs).  For each case the model is run on
    the same input as the implementation and compared (bit 1), and the property oracles of
    [Spec] are evaluated on the IMPLEMENTATION's observed output (bit 2; bits 16/32 when the
    failing input lies in a known-finding class). *)
From Sci Require Export Policy.Model Policy.Spec.
Local Open Scope N_scope.

(** implementation's parse result *)
Inductive pres := PROk (es : list expr) | PRErr (code lo hi : N) | PRPanic.

Inductive pcase :=
(** ACL x every hop sequence up to [maxlen] over [alpha]; results packed 60 per word *)
| CAclEx (a : acl) (alpha : list hop) (maxlen : N) (bits : list N) (npanic : N)
| CAcl (a : acl) (hs : list hop) (res : N)
(** pattern string, implementation's parse result, x every hop sequence *)
| CPatEx (s : list N) (r : pres) (alpha : list hop) (maxlen : N) (bits : list N) (npanic : N)
| CPat (s : list N) (r : pres) (hs : list hop) (res : N)
| CParse (s : list N) (r : pres)
| CToks (ts : list token) (r : pres)
(** [s'] is [s] with redundant parentheses / whitespace added *)
| CEquiv (s s' : list N) (r r' : pres)
| CAclParse (s : list N) (r : option acl) (panicked : bool)
(** [s] is the documented text form of [a] ("{op} {pred} ... {default-op}") *)
| CAclText (a : acl) (s : list N) (r : option acl) (panicked : bool)
| CPredStr (s : list N) (r : option pred) (panicked : bool)
| CPredPrint (p : pred) (out : list N) (back : option pred) (panicked : bool)
| CHops (m : option (option (list iface))) (r : option (list hop)) (panicked : bool)
| CPolicy (a : option acl) (s : option (list N)) (hs : list hop) (res : N).

(** ** equality tests *)
Definition optb {A} (eqb : A -> A -> bool) (x y : option A) : bool :=
  match x, y with Some a, Some b => eqb a b | None, None => true | _, _ => false end.
Definition ifpred_eqb (a b : ifpred) : bool :=
  match a, b with
  | IfAny, IfAny => true
  | IfEither x, IfEither y => x =? y
  | IfBoth i e, IfBoth i' e' => (i =? i') && (e =? e')
  | _, _ => false
  end.
Definition pred_eqb (a b : pred) : bool :=
  (p_isd a =? p_isd b) && optb N.eqb (p_asn a) (p_asn b) && ifpred_eqb (p_ifs a) (p_ifs b).
Fixpoint expr_eqb (a b : expr) : bool :=
  match a, b with
  | EPred p, EPred q => pred_eqb p q
  | EOr a1 a2, EOr b1 b2 => expr_eqb a1 b1 && expr_eqb a2 b2
  | EOpt x, EOpt y | EPlus x, EPlus y | EStar x, EStar y => expr_eqb x y
  | _, _ => false
  end.
Definition aclop_eqb (a b : aclop) : bool :=
  match a, b with Allow, Allow | Deny, Deny => true | _, _ => false end.
Definition entry_eqb (a b : entry) : bool := aclop_eqb (fst a) (fst b) && pred_eqb (snd a) (snd b).
Definition acl_eqb (a b : acl) : bool :=
  list_eqb entry_eqb (a_entries a) (a_entries b) && aclop_eqb (a_default a) (a_default b).
Definition hop_eqb (a b : hop) : bool :=
  (h_isd a =? h_isd b) && (h_asn a =? h_asn b) && (h_in a =? h_in b) && (h_out a =? h_out b).
Definition pres_eqb (a b : pres) : bool :=
  match a, b with
  | PROk x, PROk y => list_eqb expr_eqb x y
  | PRErr c l h, PRErr c' l' h' => (c =? c') && (l =? l') && (h =? h')
  | PRPanic, PRPanic => true
  | _, _ => false
  end.

Definition enc_parse (o : outcome (list expr) perr) : pres :=
  match o with
  | Ok es => PROk es
  | Err (c, l, h) => PRErr c l h
  | Panic _ => PRPanic
  end.
Definition is_prpanic (r : pres) : bool := match r with PRPanic => true | _ => false end.

(** ** hop-sequence enumeration and bit packing (same order as the harness) *)
Fixpoint seqs_len (alpha : list hop) (k : nat) : list (list hop) :=
  match k with
  | O => [[]]
  | S k' => flat_map (fun h => map (cons h) (seqs_len alpha k')) alpha
  end.
Definition all_seqs (alpha : list hop) (n : N) : list (list hop) :=
  flat_map (seqs_len alpha) (seq 0 (S (N.to_nat n))).

Fixpoint pack_go (l : list bool) (k : nat) (w acc : N) : list N :=
  match l with
  | [] => match k with O => [] | _ => [acc] end
  | b :: r =>
    let acc' := if b then acc + w else acc in
    match k with
    | 59%nat => acc' :: pack_go r 0 1 0
    | _ => pack_go r (S k) (w * 2) acc'
    end
  end.
Definition pack (l : list bool) : list N := pack_go l 0 1 0.

Definition enc_bool (b : bool) : N := if b then 1 else 0.
Definition enc_ob (o : option bool) : N :=
  match o with Some true => 1 | Some false => 0 | None => 98 end.

Definition bit (b : bool) (v : N) : N := if b then v else 0.

(** bit 16: the ACL sentence fails on the implementation's output, only on the empty list *)
Definition acl_oracle (a : acl) (hs : list hop) (impl : bool) : N :=
  if Bool.eqb (acl_specb a hs) impl then 0
  else if empty_hop_list hs then 16 else 2.

Definition nor (l : list N) : N := fold_left N.lor l 0.

Definition unpack_check (seqs : list (list hop)) (f : list hop -> bool) (bits : list N) : bool :=
  list_eqb N.eqb (pack (map f seqs)) bits.

Definition verdict (c : pcase) : N :=
  match c with
  | CAclEx a alpha n bits np =>
    let seqs := all_seqs alpha n in
    let mism := negb (unpack_check seqs (acl_matches a) bits) in
    (* oracle: the spec agrees with the implementation on every non-empty sequence; the
       empty sequence is compared separately (first bit of the first word) *)
    let impl_empty := match bits with w :: _ => N.odd w | [] => false end in
    let spec_bits := pack (map (fun hs => if empty_hop_list hs then impl_empty else acl_specb a hs) seqs) in
    let viol := negb (list_eqb N.eqb spec_bits bits) || negb (np =? 0) in
    bit mism 1 + bit viol 2 + acl_oracle a [] impl_empty
  | CAcl a hs res =>
    bit (negb (enc_bool (acl_matches a hs) =? res)) 1
    + (if res =? 99 then 2 else acl_oracle a hs (res =? 1))
  | CPatEx s r alpha n bits np =>
    let m := enc_parse (parse_pattern s) in
    match r with
    | PROk es =>
      let seqs := all_seqs alpha n in
      let model_bits := pack (map (fun hs => enc_ob (policy_matches es hs) =? 1) seqs) in
      let fuel_out := existsb (fun hs => enc_ob (policy_matches es hs) =? 98) seqs in
      let mism := negb (pres_eqb m r) || negb (list_eqb N.eqb model_bits bits) || fuel_out in
      let viol := negb (unpack_check seqs (langb es) bits) || negb (np =? 0) in
      bit mism 1 + bit viol 2
    | _ => bit (negb (pres_eqb m r)) 1 + bit (is_prpanic r) 2
    end
  | CPat s r hs res =>
    let m := enc_parse (parse_pattern s) in
    match r with
    | PROk es =>
      bit (negb (pres_eqb m r) || negb (enc_ob (policy_matches es hs) =? res)) 1
      + bit (negb (enc_bool (langb es hs) =? res)) 2
    | _ => bit (negb (pres_eqb m r)) 1 + bit (is_prpanic r) 2
    end
  | CParse s r => bit (negb (pres_eqb (enc_parse (parse_pattern s)) r)) 1 + bit (is_prpanic r) 2
  | CToks ts r => bit (negb (pres_eqb (enc_parse (parse_tokens ts)) r)) 1 + bit (is_prpanic r) 2
  | CEquiv s s' r r' =>
    bit (negb (pres_eqb (enc_parse (parse_pattern s)) r)
         || negb (pres_eqb (enc_parse (parse_pattern s')) r')) 1
    + bit (negb (pres_eqb r r') || is_prpanic r) 2
  | CAclParse s r p =>
    bit (negb (optb acl_eqb (acl_parse s) r)) 1 + bit p 2
  | CAclText a s r p =>
    (* oracle: the text of an ACL parses back to that ACL; the only documented exception is
       an entry with an all-wildcard predicate, which is rejected unless it comes last (in
       the text of [a] the default operator always follows it) *)
    let expected := if existsb (fun e : entry => pred_wildb (snd e)) (a_entries a) then None else Some a in
    bit (negb (optb acl_eqb (acl_parse s) r)) 1
    + bit (p || negb (optb acl_eqb r expected)) 2
  | CPredStr s r p =>
    bit (negb (optb pred_eqb (pred_from_str s) r)) 1 + bit p 2
  | CPredPrint p out back pk =>
    let mism := negb (list_eqb N.eqb (pred_to_str p) out)
                || negb (optb pred_eqb (pred_from_str out) back) in
    let ok := optb pred_eqb back (Some p) && negb pk in
    bit mism 1 + (if ok then 0 else if ifaces_without_asn p then 32 else 2)
  | CHops m r p =>
    let nonempty := match r with Some [] => false | _ => true end in
    bit (negb (optb (list_eqb hop_eqb) (hops_from_path m) r)) 1 + bit (p || negb nonempty) 2
  | CPolicy a s hs res =>
    match s with
    | None => bit (negb (enc_ob (combined_matches a None hs) =? res)) 1 + bit (res =? 99) 2
    | Some s =>
      match parse_pattern s with
      | Ok es => bit (negb (enc_ob (combined_matches a (Some es) hs) =? res)) 1 + bit (res =? 99) 2
      | _ => 1
      end
    end
  end.

Definition verdicts (cs : list pcase) : list N := map verdict cs.
