(** C16 -- lemmas, part 4: hop predicates survive printing and re-parsing. *)
From Sci Require Import Policy.Model Policy.Spec.
From Sci Require Import Gen.PolicyConfig.
From Coq Require Import Lia ZifyBool ZifyNat ZifyN.
Local Open Scope N_scope.
Ltac Zify.zify_post_hook ::= Z.div_mod_to_equations.
Arguments N.add : simpl never.
Arguments N.sub : simpl never.
Arguments N.mul : simpl never.
Arguments N.div : simpl never.
Arguments N.modulo : simpl never.
Arguments N.eqb : simpl never.
Arguments N.ltb : simpl never.
Arguments N.leb : simpl never.
Arguments N.pow : simpl never.

Ltac split_ifs :=
  repeat match goal with
         | |- context [if ?b then _ else _] => let E := fresh "E" in destruct b eqn:E
         end.

(** ** digits *)
Definition dchar (radix c : N) : Prop := exists d, d < radix /\ c = digit_char d.

Lemma digit_val_char radix d : d < radix -> radix <= 16 -> digit_val radix (digit_char d) = Some d.
Proof.
  intros Hd Hr. unfold digit_char. destruct (d <? 10) eqn:E10; unfold digit_val;
    split_ifs; try lia; f_equal; lia.
Qed.

Lemma dchar_range radix c : radix <= 16 -> dchar radix c ->
  (48 <= c <= 57) \/ (97 <= c <= 102).
Proof. intros Hr (d & Hd & ->). unfold digit_char. split_ifs; lia. Qed.

Lemma dchar10_range c : dchar 10 c -> 48 <= c <= 57.
Proof. intros (d & Hd & ->). unfold digit_char. split_ifs; lia. Qed.

Lemma print_chars radix : forall fuel n acc,
  2 <= radix -> Forall (dchar radix) acc -> Forall (dchar radix) (print_radix_aux fuel radix n acc).
Proof.
  induction fuel as [|f IH]; intros n acc Hr Ha; cbn [print_radix_aux]; [exact Ha|].
  destruct (n <? radix) eqn:E.
  - constructor; [|exact Ha]. exists n. split; [lia|reflexivity].
  - apply IH; [exact Hr|]. constructor; [|exact Ha]. exists (n mod radix). split; [|reflexivity].
    apply N.mod_lt. lia.
Qed.

Lemma print_nonempty_acc radix : forall fuel n acc,
  acc <> [] -> print_radix_aux fuel radix n acc <> [].
Proof.
  induction fuel as [|f IH]; intros n acc Ha; cbn [print_radix_aux]; [exact Ha|].
  destruct (n <? radix); [discriminate|]. apply IH. discriminate.
Qed.

Lemma print_nonempty radix fuel n : fuel <> O -> print_radix_aux fuel radix n [] <> [].
Proof.
  destruct fuel as [|f]; [congruence|]. intros _. cbn [print_radix_aux].
  destruct (n <? radix); [discriminate|]. apply print_nonempty_acc. discriminate.
Qed.

Lemma print_parse radix max : forall fuel n acc,
  2 <= radix -> radix <= 16 -> n < radix ^ N.of_nat fuel -> n <= max ->
  digits_acc radix max 0 (print_radix_aux fuel radix n acc) = digits_acc radix max n acc.
Proof.
  induction fuel as [|f IH]; intros n acc Hr Hr2 Hn Hm.
  - cbn in Hn. assert (n = 0) by lia. subst. reflexivity.
  - cbn [print_radix_aux]. destruct (n <? radix) eqn:E.
    + cbn [digits_acc]. rewrite digit_val_char by lia.
      replace (0 * radix + n) with n by lia. replace (max <? n) with false by lia. reflexivity.
    + rewrite Nat2N.inj_succ, N.pow_succ_r' in Hn.
      assert (Hq : n / radix < radix ^ N.of_nat f).
      { apply N.div_lt_upper_bound; lia. }
      assert (Hqm : n / radix <= max).
      { pose proof (N.div_le_upper_bound n radix n ltac:(lia)). nia. }
      rewrite IH by assumption. cbn [digits_acc].
      rewrite digit_val_char; [|apply N.mod_lt; lia|lia].
      replace (n / radix * radix + n mod radix) with n.
      * replace (max <? n) with false by lia. reflexivity.
      * pose proof (N.div_mod n radix ltac:(lia)). lia.
Qed.

Lemma parse_uint_digits radix max c r :
  c <> 43 -> c <> 45 -> parse_uint radix max (c :: r) = digits_acc radix max 0 (c :: r).
Proof.
  intros H1 H2. unfold parse_uint. destruct r.
  - replace ((c =? 43) || (c =? 45)) with false by lia. reflexivity.
  - replace (c =? 43) with false by lia. reflexivity.
Qed.

Lemma pow10_64 : 18446744073709551616 <= 10 ^ 64. Proof. vm_compute. discriminate. Qed.
Lemma pow16_64 : 18446744073709551616 <= 16 ^ 64. Proof. vm_compute. discriminate. Qed.

Lemma parse_print_dec max n : n <= max -> n < 18446744073709551616 ->
  parse_uint 10 max (print_dec n) = Some n.
Proof.
  intros Hm Hn. unfold print_dec.
  pose proof (print_chars 10 64 n [] ltac:(lia) (Forall_nil _)) as Hc.
  pose proof (print_nonempty 10 64 n ltac:(discriminate)) as Hne.
  pose proof (print_parse 10 max 64 n [] ltac:(lia) ltac:(lia)) as Hp.
  destruct (print_radix_aux 64 10 n []) as [|c r]; [congruence|].
  inversion Hc as [|? ? Hc0 _]; subst. apply dchar10_range in Hc0.
  rewrite parse_uint_digits by lia. rewrite Hp; [reflexivity| |exact Hm].
  change (N.of_nat 64) with 64. pose proof pow10_64. lia.
Qed.

Lemma parse_print_hex max n : n <= max -> n < 18446744073709551616 ->
  parse_uint 16 max (print_hex n) = Some n.
Proof.
  intros Hm Hn. unfold print_hex.
  pose proof (print_chars 16 64 n [] ltac:(lia) (Forall_nil _)) as Hc.
  pose proof (print_nonempty 16 64 n ltac:(discriminate)) as Hne.
  pose proof (print_parse 16 max 64 n [] ltac:(lia) ltac:(lia)) as Hp.
  destruct (print_radix_aux 64 16 n []) as [|c r]; [congruence|].
  inversion Hc as [|? ? Hc0 _]; subst. apply (dchar_range 16) in Hc0; [|lia].
  rewrite parse_uint_digits by lia. rewrite Hp; [reflexivity| |exact Hm].
  change (N.of_nat 64) with 64. pose proof pow16_64. lia.
Qed.

Lemma print_dec_chars n : Forall (fun c => 48 <= c <= 57) (print_dec n).
Proof.
  unfold print_dec. eapply Forall_impl; [|apply (print_chars 10 64 n []); [lia|constructor]].
  intros c. apply dchar10_range.
Qed.
Lemma print_hex_chars n : Forall (fun c => (48 <= c <= 57) \/ (97 <= c <= 102)) (print_hex n).
Proof.
  unfold print_hex. eapply Forall_impl; [|apply (print_chars 16 64 n []); [lia|constructor]].
  intros c. apply dchar_range. lia.
Qed.
Lemma print_dec_nonempty n : print_dec n <> [].
Proof. apply print_nonempty. discriminate. Qed.
Lemma print_hex_nonempty n : print_hex n <> [].
Proof. apply print_nonempty. discriminate. Qed.

(** ** splitting *)
Lemma split_once_none sep s : Forall (fun c => c <> sep) s -> split_once sep s = (s, None).
Proof.
  induction 1 as [|c s Hc _ IH]; [reflexivity|]. cbn [split_once].
  replace (c =? sep) with false by lia. rewrite IH. reflexivity.
Qed.

Lemma split_once_some sep s1 s2 :
  Forall (fun c => c <> sep) s1 -> split_once sep (s1 ++ sep :: s2) = (s1, Some s2).
Proof.
  induction 1 as [|c s Hc _ IH]; cbn [app split_once].
  - rewrite N.eqb_refl. reflexivity.
  - replace (c =? sep) with false by lia. rewrite IH. reflexivity.
Qed.

(** a character that is no digit of the radix makes the digit loop fail *)
Lemma digits_acc_bad radix max : forall s v c,
  In c s -> digit_val radix c = None -> digits_acc radix max v s = None.
Proof.
  induction s as [|x s IH]; intros v c Hin Hc; [destruct Hin|]. cbn [digits_acc].
  destruct Hin as [->|Hin]; [rewrite Hc; reflexivity|].
  destruct (digit_val radix x); [|reflexivity]. destruct (max <? _); [reflexivity|].
  eapply IH; eassumption.
Qed.

(** ** AS numbers *)
Lemma asn_roundtrip a : a < 281474976710656 -> asn_from_str (asn_to_str a) = Some a.
Proof.
  intros Ha. unfold asn_to_str, asn_from_str, ASN_DECIMAL_MAX.
  destruct (a <=? 4294967295) eqn:E.
  - rewrite parse_print_dec by (unfold U64_MAX; lia). rewrite E. reflexivity.
  - change (2 ^ (2 * ASN_BITS_PER_PART)) with 4294967296.
    change (2 ^ ASN_BITS_PER_PART) with 65536.
    set (a1 := (a / 4294967296) mod 65536). set (a2 := (a / 65536) mod 65536).
    set (a3 := a mod 65536).
    assert (H1 : a1 < 65536) by (apply N.mod_lt; lia).
    assert (H2 : a2 < 65536) by (apply N.mod_lt; lia).
    assert (H3 : a3 < 65536) by (apply N.mod_lt; lia).
    (* the decimal attempt fails on the colon *)
    assert (Hdec : parse_uint 10 U64_MAX (print_hex a1 ++ [58] ++ print_hex a2 ++ [58] ++ print_hex a3) = None).
    { pose proof (print_hex_chars a1) as Hc. pose proof (print_hex_nonempty a1) as Hne.
      destruct (print_hex a1) as [|c r] eqn:Eh; [congruence|].
      inversion Hc as [|? ? Hc0 _]; subst. cbn [app].
      rewrite parse_uint_digits by lia.
      apply (digits_acc_bad 10 U64_MAX _ 0 58); [|reflexivity].
      right. apply in_or_app. right. left. reflexivity. }
    rewrite Hdec.
    assert (Hn58 : forall n, Forall (fun c => c <> 58) (print_hex n)).
    { intros n. eapply Forall_impl; [|apply print_hex_chars]. intros c Hc. cbv beta in Hc. lia. }
    cbn [app]. rewrite (split_once_some 58 (print_hex a1)) by apply Hn58.
    rewrite (split_once_some 58 (print_hex a2)) by apply Hn58.
    rewrite !parse_print_hex by (unfold U16_MAX; lia).
    change (2 ^ ASN_BITS_PER_PART) with 65536.
    change ASN_MAX with 281474976710655.
    assert (Hv : (a1 * 65536 + a2) * 65536 + a3 = a).
    { unfold a1, a2, a3. lia. }
    rewrite Hv. replace (281474976710655 <? a) with false by lia. reflexivity.
Qed.

Lemma asn_chars a : Forall (fun c => c <> 35) (asn_to_str a).
Proof.
  unfold asn_to_str. destruct (a <=? ASN_DECIMAL_MAX).
  - eapply Forall_impl; [|apply print_dec_chars]. intros c Hc. cbv beta in Hc. lia.
  - assert (Hh : forall n, Forall (fun c => c <> 35) (print_hex n)).
    { intros n. eapply Forall_impl; [|apply print_hex_chars]. intros c Hc. cbv beta in Hc. lia. }
    repeat (apply Forall_app; split); try apply Hh; repeat constructor; lia.
Qed.

(** ** interface predicates *)
Lemma ifs_roundtrip ip : ifs_wf ip -> ip <> IfAny -> ifs_from_str (ifs_to_str ip) = Some ip.
Proof.
  intros Hw Hn. unfold ifs_from_str.
  assert (Hd : forall n, Forall (fun c => c <> 44) (print_dec n)).
  { intros n. eapply Forall_impl; [|apply print_dec_chars]. intros c Hc. cbv beta in Hc. lia. }
  destruct ip as [|a|i e]; [congruence| |]; cbn [ifs_to_str ifs_wf] in *.
  - rewrite split_once_none by apply Hd. rewrite parse_print_dec by (unfold U16_MAX; lia). reflexivity.
  - cbn [app]. rewrite split_once_some by apply Hd.
    rewrite !parse_print_dec by (unfold U16_MAX; lia). reflexivity.
Qed.

(** ** hop predicates *)
Lemma pred_roundtrip p :
  pred_wf p -> ifaces_without_asn p = false -> pred_from_str (pred_to_str p) = Some p.
Proof.
  destruct p as [isd asn ifs]. unfold pred_wf, ifaces_without_asn, pred_to_str, pred_from_str.
  cbn [p_isd p_asn p_ifs]. intros (Hi & Ha & Hf) Hc.
  assert (Hd : forall n, Forall (fun c => c <> 45) (print_dec n)).
  { intros n. eapply Forall_impl; [|apply print_dec_chars]. intros c Hx. cbv beta in Hx. lia. }
  destruct asn as [a|].
  - cbn [app]. rewrite split_once_some by apply Hd.
    rewrite parse_print_dec by (unfold U16_MAX; lia).
    destruct ifs as [|x|i e].
    + rewrite app_nil_r. rewrite split_once_none by apply asn_chars.
      rewrite asn_roundtrip by exact Ha. reflexivity.
    + rewrite split_once_some by apply asn_chars. rewrite asn_roundtrip by exact Ha.
      rewrite (ifs_roundtrip (IfEither x)) by (assumption || discriminate). reflexivity.
    + rewrite split_once_some by apply asn_chars. rewrite asn_roundtrip by exact Ha.
      rewrite (ifs_roundtrip (IfBoth i e)) by (assumption || discriminate). reflexivity.
  - destruct ifs; try discriminate. cbn [app]. rewrite app_nil_r.
    rewrite split_once_none by apply Hd.
    rewrite parse_print_dec by (unfold U16_MAX; lia). reflexivity.
Qed.
