(** C16 -- witnesses of the recorded findings (closed by computation on the model; the same
    inputs are run on the real code by the harness, see known_findings/C16.json). *)
From Sci Require Import Policy.Model Policy.Spec Policy.Proofs.
Local Open Scope N_scope.

(** class [empty_hop_list]: the ACL "+ 1-ff00:0:110 -" on the empty hop list.  The property
    sentence holds vacuously, the code returns the default action (deny). *)
Lemma acl_empty_hop_list_refuted :
  exists (a : acl) (hs : list hop),
    empty_hop_list hs = true /\ acl_spec a hs /\ acl_matches a hs = false.
Proof.
  exists (mkAcl [(Allow, mkPred 1 (Some 280375465083152) IfAny)] Deny), [].
  split; [reflexivity|]. split; [apply acl_spec_nil|]. vm_compute. reflexivity.
Qed.

(** class [ifaces_without_asn]: ISD 1, no AS, "either interface 3" prints as "1#3", which
    does not parse *)
Lemma pred_ifaces_without_asn_refuted :
  exists p : pred,
    pred_wf p /\ ifaces_without_asn p = true
    /\ pred_to_str p = [49; 35; 51] /\ pred_from_str (pred_to_str p) = None.
Proof.
  exists (mkPred 1 None (IfEither 3)).
  split; [cbv; repeat split; reflexivity|]. vm_compute. auto.
Qed.
