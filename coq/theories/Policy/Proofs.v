(** C16 -- lemmas: [ProofsAcl] (predicates, ACLs, hops_from_path), [ProofsMatch] (position-set
    matcher = regular language, fuel adequacy), [ProofsParse] (lexer, Pratt parser), [ProofsText]
    (predicate text form), [ProofsOracle] (run-time oracles = specification), [ProofsPrint] (every
    pattern has a text form). *)
From Sci Require Export Policy.ProofsAcl Policy.ProofsMatch Policy.ProofsParse Policy.ProofsText Policy.ProofsOracle Policy.ProofsPrint.
