(** C16 -- independent specification of the path policy languages.

    This file states WHAT the policies mean, without reference to the matching algorithms:
    - [hop_sat]: when a hop satisfies a hop predicate (wildcard 0 in ISD, AS, interface);
    - [acl_spec]: "for every hop, the first entry whose predicate matches is Allow; the
      default decides when none matches";
    - [lang]/[lang_seq]: the regular language denoted by a hop pattern with the documented
      operators [|], [?], [+], [*] and top-level sequencing.
    It imports only the data types of [Model] (hops, predicates, ACLs, expressions), none of
    its functions and nothing generated.  The boolean versions ([hop_satb], [acl_specb],
    [langb]) are the oracles evaluated on the implementation's observed output; [langb]
    decides membership by Brzozowski derivatives, an algorithm unrelated to the
    implementation's position sets.  [Proofs] shows each oracle equivalent to its [Prop]. *)
From Sci Require Import Policy.Model.
Local Open Scope N_scope.

(** * Predicates *)

(** identifier match as documented on [Isd::matches]/[Asn::matches] ("taking wildcards
    into account"): 0 is a wildcard on either side *)
Definition id_sat (p x : N) : Prop := p = 0 \/ x = 0 \/ p = x.
(** interface match: 0 in the predicate is a wildcard *)
Definition if_sat (p x : N) : Prop := p = 0 \/ p = x.

Definition ifs_sat (ip : ifpred) (i e : N) : Prop :=
  match ip with
  | IfAny => True
  | IfEither a => if_sat a i \/ if_sat a e        (* "either ingress or egress" *)
  | IfBoth pi pe => if_sat pi i /\ if_sat pe e    (* "exact ingress and egress" *)
  end.

Definition hop_sat (p : pred) (h : hop) : Prop :=
  id_sat (p_isd p) (h_isd h)
  /\ match p_asn p with Some a => id_sat a (h_asn h) | None => True end
  /\ ifs_sat (p_ifs p) (h_in h) (h_out h).

(** hops of real paths never carry the wildcard ISD/AS; for them the hop-side wildcard
    clause of [id_sat] disappears: *)
Definition real_hop (h : hop) : Prop := h_isd h <> 0 /\ h_asn h <> 0.
Definition hop_sat_doc (p : pred) (h : hop) : Prop :=
  (p_isd p = 0 \/ p_isd p = h_isd h)
  /\ match p_asn p with Some a => a = 0 \/ a = h_asn h | None => True end
  /\ ifs_sat (p_ifs p) (h_in h) (h_out h).

Definition id_satb (p x : N) : bool := (p =? 0) || (x =? 0) || (p =? x).
Definition if_satb (p x : N) : bool := (p =? 0) || (p =? x).
Definition hop_satb (p : pred) (h : hop) : bool :=
  id_satb (p_isd p) (h_isd h)
  && match p_asn p with Some a => id_satb a (h_asn h) | None => true end
  && match p_ifs p with
     | IfAny => true
     | IfEither a => if_satb a (h_in h) || if_satb a (h_out h)
     | IfBoth pi pe => if_satb pi (h_in h) && if_satb pe (h_out h)
     end.

(** * ACL *)

(** entry number [k] is the first entry whose predicate the hop satisfies *)
Definition first_matching (es : list entry) (h : hop) (k : nat) (e : entry) : Prop :=
  nth_error es k = Some e /\ hop_sat (snd e) h
  /\ forall j e', (j < k)%nat -> nth_error es j = Some e' -> ~ hop_sat (snd e') h.

Definition hop_allowed (a : acl) (h : hop) : Prop :=
  (exists k e, first_matching (a_entries a) h k e /\ fst e = Allow)
  \/ ((forall e, In e (a_entries a) -> ~ hop_sat (snd e) h) /\ a_default a = Allow).

(** the property sentence *)
Definition acl_spec (a : acl) (hs : list hop) : Prop := forall h, In h hs -> hop_allowed a h.

Definition hop_allowedb (a : acl) (h : hop) : bool :=
  match find (fun e : entry => hop_satb (snd e) h) (a_entries a) with
  | Some (Allow, _) => true
  | Some (Deny, _) => false
  | None => match a_default a with Allow => true | Deny => false end
  end.
Definition acl_specb (a : acl) (hs : list hop) : bool := forallb (hop_allowedb a) hs.

(** a predicate every hop satisfies ([ProofsAcl.pred_wildb_iff]).  [AclPolicy::parse]
    documents that such an entry "must be the last entry"; any other predicate may stand
    anywhere in an ACL string. *)
Definition pred_wildb (p : pred) : bool :=
  (p_isd p =? 0)
  && match p_asn p with Some a => a =? 0 | None => true end
  && match p_ifs p with
     | IfAny => true
     | IfEither a => a =? 0
     | IfBoth i e => (i =? 0) && (e =? 0)
     end.

(** known-finding class C16 [empty_hop_list] (see Findings.v) *)
Definition empty_hop_list (hs : list hop) : bool := match hs with [] => true | _ => false end.

(** * Hop patterns *)

Inductive lang : expr -> list hop -> Prop :=
| L_pred p h : hop_sat p h -> lang (EPred p) [h]
| L_or_l a b w : lang a w -> lang (EOr a b) w
| L_or_r a b w : lang b w -> lang (EOr a b) w
| L_opt_none e : lang (EOpt e) []
| L_opt_some e w : lang e w -> lang (EOpt e) w
| L_plus_one e w : lang e w -> lang (EPlus e) w
| L_plus_more e w1 w2 : lang e w1 -> lang (EPlus e) w2 -> lang (EPlus e) (w1 ++ w2)
| L_star_nil e : lang (EStar e) []
| L_star_more e w1 w2 : lang e w1 -> lang (EStar e) w2 -> lang (EStar e) (w1 ++ w2).

(** "a hop pattern is a series of expressions that must match in order" *)
Inductive lang_seq : list expr -> list hop -> Prop :=
| LS_nil : lang_seq [] []
| LS_cons e es w1 w2 : lang e w1 -> lang_seq es w2 -> lang_seq (e :: es) (w1 ++ w2).

(** ** membership oracle by derivatives *)
Inductive re :=
| RNone | REps | RCh (p : pred) | RAlt (a b : re) | RCat (a b : re) | RStar (a : re).

Fixpoint re_of (e : expr) : re :=
  match e with
  | EPred p => RCh p
  | EOr a b => RAlt (re_of a) (re_of b)
  | EOpt a => RAlt REps (re_of a)
  | EPlus a => RCat (re_of a) (RStar (re_of a))
  | EStar a => RStar (re_of a)
  end.
Fixpoint re_seq (es : list expr) : re :=
  match es with [] => REps | e :: r => RCat (re_of e) (re_seq r) end.

Fixpoint nullable (r : re) : bool :=
  match r with
  | RNone => false | REps => true | RCh _ => false
  | RAlt a b => nullable a || nullable b
  | RCat a b => nullable a && nullable b
  | RStar _ => true
  end.

(** smart constructors (keep derivatives small; semantically [RAlt]/[RCat]) *)
Definition alt (a b : re) : re :=
  match a, b with
  | RNone, _ => b
  | _, RNone => a
  | _, _ => RAlt a b
  end.
Definition cat (a b : re) : re :=
  match a with
  | RNone => RNone
  | REps => b
  | _ => RCat a b
  end.

Fixpoint deriv (h : hop) (r : re) : re :=
  match r with
  | RNone => RNone
  | REps => RNone
  | RCh p => if hop_satb p h then REps else RNone
  | RAlt a b => alt (deriv h a) (deriv h b)
  | RCat a b =>
    if nullable a then alt (cat (deriv h a) b) (deriv h b) else cat (deriv h a) b
  | RStar a => cat (deriv h a) (RStar a)
  end.

Definition re_matches (r : re) (hs : list hop) : bool :=
  nullable (fold_left (fun r h => deriv h r) hs r).

Definition langb (es : list expr) (hs : list hop) : bool := re_matches (re_seq es) hs.

(** * Predicate text form *)

(** fields within the ranges of their Rust types (u16 ISD and interfaces, 48-bit AS) *)
Definition ifs_wf (ip : ifpred) : Prop :=
  match ip with
  | IfAny => True
  | IfEither a => a < 65536
  | IfBoth i e => i < 65536 /\ e < 65536
  end.
Definition pred_wf (p : pred) : Prop :=
  p_isd p < 65536
  /\ match p_asn p with Some a => a < 281474976710656 | None => True end
  /\ ifs_wf (p_ifs p).

(** known-finding class C16 [ifaces_without_asn]: interface predicate present, AS absent *)
Definition ifaces_without_asn (p : pred) : bool :=
  match p_asn p, p_ifs p with
  | None, IfAny => false
  | None, _ => true
  | Some _, _ => false
  end.

(** * Token-level grammar of hop-pattern expressions (for the parser theorems)

    [post_k e ks]: the token kinds [ks] spell [e] at "postfix level" (a predicate, a
    parenthesised expression, or one of those followed by [?], [+], [*]); [or_k e ks]: a
    left-associated [|]-chain of postfix-level pieces.  Parentheses may be nested around any
    sub-expression any number of times: every redundant pair is just another use of
    [PK_paren].  [pred_of] abstracts the predicate text parser. *)
Section Grammar.
  Variable pred_of : list N -> option pred.

  Inductive post_k : expr -> list tkind -> Prop :=
  | PK_pred s p : pred_of s = Some p -> post_k (EPred p) [KPred s]
  | PK_paren e ks : or_k e ks -> post_k e (KLParen :: ks ++ [KRParen])
  | PK_opt e ks : post_k e ks -> post_k (EOpt e) (ks ++ [KQMark])
  | PK_plus e ks : post_k e ks -> post_k (EPlus e) (ks ++ [KPlus])
  | PK_star e ks : post_k e ks -> post_k (EStar e) (ks ++ [KStar])
  with or_k : expr -> list tkind -> Prop :=
  | OK_post e ks : post_k e ks -> or_k e ks
  | OK_or a b ka kb : or_k a ka -> post_k b kb -> or_k (EOr a b) (ka ++ KOr :: kb).
End Grammar.

(** ** text of a token sequence with optional whitespace in front of every token *)
Definition tok_text (k : tkind) : list N :=
  match k with
  | KPred s => s
  | KBang => [33] | KAnd => [38] | KOr => [124] | KLParen => [40] | KRParen => [41]
  | KQMark => [63] | KPlus => [43] | KStar => [42]
  | KEOI => []
  end.

(** Unicode White_Space (what [char::is_whitespace] tests), as a literal table *)
Definition unicode_ws (c : N) : bool :=
  ((9 <=? c) && (c <=? 13)) || (c =? 32) || (c =? 133) || (c =? 160) || (c =? 5760)
  || ((8192 <=? c) && (c <=? 8202)) || (c =? 8232) || (c =? 8233) || (c =? 8239)
  || (c =? 8287) || (c =? 12288).

(** a run of whitespace characters *)
Definition skip_ws (w : list N) : bool := forallb unicode_ws w.

Definition render (items : list (list N * tkind)) (trail : list N) : list N :=
  flat_map (fun it : list N * tkind => fst it ++ tok_text (snd it)) items ++ trail.

(** a character that can stand inside a hop-predicate token: not an operator / parenthesis
    character and not (Unicode) whitespace *)
Definition plain_char (c : N) : bool :=
  negb (existsb (N.eqb c) [33; 38; 124; 40; 41; 43; 63; 42])
  && negb (unicode_ws c).

Definition kind_ok (k : tkind) : bool :=
  match k with
  | KPred s => negb (match s with [] => true | _ => false end) && forallb plain_char s
  | KEOI => false
  | _ => true
  end.

(** well-formed rendering: whitespace runs, sensible tokens, and two
    adjacent predicate tokens separated by at least one whitespace character *)
Fixpoint items_ok (items : list (list N * tkind)) : bool :=
  match items with
  | [] => true
  | (w, k) :: r =>
    skip_ws w && kind_ok k
    && match k, r with
       | KPred _, (w2, KPred _) :: _ => negb (match w2 with [] => true | _ => false end)
       | _, _ => true
       end
    && items_ok r
  end.
