(** C08 -- closed form of the SCMP reply the gateway builds, and the proof that every reply is
    a parameter-problem packet addressed to the peer quoting a prefix of the offending
    datagram ([Spec.spec_reply_ok]). *)
From Coq Require Import Lia ZifyBool ZifyNat ZifyN.
From Sci Require Import Common.ListAux Ingress.Model Ingress.Spec Ingress.Proofs.
Ltac Zify.zify_post_hook ::= Z.div_mod_to_equations.
Local Open Scope N_scope.

(** * List arithmetic *)

Lemma firstn_app_exact {A} (l1 l2 : list A) n : n = length l1 -> firstn n (l1 ++ l2) = l1.
Proof. intros ->. induction l1 as [|a l IH]; cbn; [reflexivity|f_equal; exact IH]. Qed.
Lemma skipn_app_exact {A} (l1 l2 : list A) n : n = length l1 -> skipn n (l1 ++ l2) = l2.
Proof. intros ->. induction l1 as [|a l IH]; cbn; [reflexivity|exact IH]. Qed.
Lemma firstn_app_le {A} (l1 l2 : list A) n : (n <= length l1)%nat -> firstn n (l1 ++ l2) = firstn n l1.
Proof.
  revert n; induction l1 as [|a l IH]; intros n H; cbn in *.
  - replace n with 0%nat by lia. reflexivity.
  - destruct n; [reflexivity|]. cbn. f_equal. apply IH. lia.
Qed.
Lemma skipn_app_le {A} (l1 l2 : list A) n : (n <= length l1)%nat -> skipn n (l1 ++ l2) = skipn n l1 ++ l2.
Proof.
  revert n; induction l1 as [|a l IH]; intros n H; cbn in *.
  - replace n with 0%nat by lia. reflexivity.
  - destruct n; [reflexivity|]. cbn. apply IH. lia.
Qed.

Lemma sub_app_le l tail lo hi : hi <= blen l -> sub (l ++ tail) lo hi = sub l lo hi.
Proof.
  intros H. unfold sub, blen in *.
  destruct (N.le_gt_cases lo hi) as [L|L].
  - rewrite skipn_app_le by lia. rewrite firstn_app_le; [reflexivity|]. rewrite skipn_length. lia.
  - replace (N.to_nat (hi - lo)) with 0%nat by lia. reflexivity.
Qed.

Lemma lane_write_app l tail r x :
  byte_hi r <= blen l -> lane_write (l ++ tail) r x = lane_write l r x ++ tail.
Proof.
  intros H. pose proof (byte_lo_le_hi r) as L. unfold lane_write.
  rewrite sub_app_le by exact H. unfold blen in H.
  rewrite firstn_app_le by lia. rewrite skipn_app_le by lia. rewrite <- !app_assoc. reflexivity.
Qed.

Lemma wr_app l tail r x :
  (size_bytes r <=? LANE_BYTES) = true -> byte_hi r <= blen l ->
  wr (l ++ tail) r x = Ok (lane_write l r x ++ tail).
Proof.
  intros H1 H2. rewrite wr_ok; [|exact H1|unfold blen in *; rewrite app_length; lia].
  rewrite lane_write_app by exact H2. reflexivity.
Qed.

(** * Semantics of byte-aligned writes *)

Lemma be_bytes_mod n : forall v, be_bytes n (v mod 2 ^ (8 * N.of_nat n)) = be_bytes n v.
Proof.
  induction n as [|n IH]; intros v; cbn [be_bytes]; [reflexivity|].
  replace (8 * N.of_nat (S n)) with (8 + 8 * N.of_nat n) by lia.
  rewrite N.pow_add_r. change (2 ^ 8) with 256.
  set (m := 2 ^ (8 * N.of_nat n)). assert (Hm : m <> 0) by (apply N.pow_nonzero; lia).
  rewrite N.mod_mul_r by lia.
  replace ((v mod 256 + 256 * ((v / 256) mod m)) / 256) with ((v / 256) mod m) by lia.
  replace ((v mod 256 + 256 * ((v / 256) mod m)) mod 256) with (v mod 256) by lia.
  rewrite IH. reflexivity.
Qed.

Lemma aligned_newval lane x n :
  (N.lor (N.ldiff lane (N.ones n)) (N.land x (N.ones n))) mod 2 ^ n = x mod 2 ^ n.
Proof.
  rewrite <- !N.land_ones. rewrite N.land_lor_distr_l, N.land_ldiff, N.lor_0_l.
  rewrite <- N.land_assoc, N.land_diag. reflexivity.
Qed.

(** a byte-aligned write replaces exactly the bytes of its range by the big-endian value,
    whatever was there *)
Lemma lane_write_aligned l (i k : nat) x :
  (i + k <= length l)%nat ->
  lane_write l (8 * N.of_nat i, 8 * N.of_nat k) x = firstn i l ++ be_bytes k x ++ skipn (i + k) l.
Proof.
  intros H. unfold lane_write, byte_lo, byte_hi, r_end, r_start, r_width. cbn [fst snd].
  replace (8 * N.of_nat i / 8) with (N.of_nat i) by lia.
  replace ((8 * N.of_nat i + 8 * N.of_nat k + 7) / 8) with (N.of_nat (i + k)) by lia.
  replace (N.of_nat (i + k) * 8 - (8 * N.of_nat i + 8 * N.of_nat k)) with 0 by lia.
  rewrite !N.shiftl_0_r. rewrite !Nat2N.id.
  replace (N.to_nat (N.of_nat (i + k) - N.of_nat i)) with k by lia.
  f_equal. f_equal. rewrite <- (be_bytes_mod k (N.lor _ _)). rewrite aligned_newval. apply be_bytes_mod.
Qed.

(** writing zero over zeros changes nothing *)
Lemma be_val_zeros k acc : be_val acc (repeat 0 k) = acc * 256 ^ N.of_nat k.
Proof.
  revert acc; induction k as [|k IH]; intros acc; cbn [repeat be_val]; [cbn; lia|].
  rewrite IH. replace (N.of_nat (S k)) with (1 + N.of_nat k) by lia. rewrite N.pow_add_r. lia.
Qed.
Lemma be_bytes_zero k : be_bytes k 0 = repeat 0 k.
Proof.
  induction k as [|k IH]; cbn [be_bytes]; [reflexivity|].
  change (0 / 256) with 0. change (0 mod 256) with 0. rewrite IH.
  clear IH. induction k; cbn; [reflexivity|f_equal; assumption].
Qed.

Lemma lane_write_zero_noop l r :
  byte_hi r <= blen l -> sub l (byte_lo r) (byte_hi r) = repeat 0 (N.to_nat (byte_hi r - byte_lo r)) ->
  lane_write l r 0 = l.
Proof.
  intros H Z. pose proof (byte_lo_le_hi r) as L. unfold lane_write. rewrite Z, be_val_zeros.
  rewrite N.mul_0_l, N.ldiff_0_l, N.land_0_l, N.shiftl_0_l, N.lor_0_l. rewrite be_bytes_zero, <- Z.
  unfold sub.
  rewrite <- (firstn_skipn (N.to_nat (byte_lo r)) l) at 4. f_equal.
  rewrite <- (firstn_skipn (N.to_nat (byte_hi r - byte_lo r)) (skipn (N.to_nat (byte_lo r)) l)) at 2.
  f_equal. rewrite ListAux.skipn_skipn. f_equal. lia.
Qed.

(** * The common header, the address header *)

Definition Z12 : bytes := [0;0;0;0;0;0;0;0;0;0;0;0].

Lemma nibble_writes e0 e1 e2 e3 e4 e5 e6 e7 e8 e10 e11 dn sn :
  (dn = 0 \/ dn = 3) -> (sn = 0 \/ sn = 3) ->
  lane_write (lane_write [e0;e1;e2;e3;e4;e5;e6;e7;e8;0;e10;e11] CommonHeader_DST_ADDR_INFO_RNG dn)
             CommonHeader_SRC_ADDR_INFO_RNG sn
  = [e0;e1;e2;e3;e4;e5;e6;e7;e8;dn * 16 + sn;e10;e11].
Proof. intros [-> | ->] [-> | ->]; vm_compute; reflexivity. Qed.

Ltac wr_step_zero :=
  rewrite wr_app by (try (vm_compute; reflexivity); vm_compute; discriminate);
  rewrite lane_write_zero_noop by (try (vm_compute; reflexivity); vm_compute; discriminate);
  cbn [obind].

Lemma common_header_closed u pt dn sn ps tail :
  (dn = 0 \/ dn = 3) -> (sn = 0 \/ sn = 3) ->
  wr_all (Z12 ++ tail) (common_header_writes u pt dn sn ps)
  = Ok ([0;0;0;0; PROTO_SCMP mod 256; u mod 256; (ps / 256) mod 256; ps mod 256; pt mod 256; dn * 16 + sn; 0; 0] ++ tail).
Proof.
  intros Hd Hs. unfold common_header_writes, Z12. cbn [wr_all]. Show.
  wr_step_zero. wr_step_zero. wr_step_zero.
  (* next header, header length, payload length, path type: aligned *)
  rewrite wr_app by (try (vm_compute; reflexivity); vm_compute; discriminate). cbn [obind].
  change CommonHeader_NEXT_HEADER_RNG with (8 * N.of_nat 4, 8 * N.of_nat 1).
  rewrite lane_write_aligned by (cbn; lia). cbn [firstn skipn app be_bytes Nat.add].
  rewrite wr_app by (try (vm_compute; reflexivity); vm_compute; discriminate). cbn [obind].
  change CommonHeader_HEADER_LEN_RNG with (8 * N.of_nat 5, 8 * N.of_nat 1).
  rewrite lane_write_aligned by (cbn; lia). cbn [firstn skipn app be_bytes Nat.add].
  rewrite wr_app by (try (vm_compute; reflexivity); vm_compute; discriminate). cbn [obind].
  change CommonHeader_PAYLOAD_LEN_RNG with (8 * N.of_nat 6, 8 * N.of_nat 2).
  rewrite lane_write_aligned by (cbn; lia). cbn [firstn skipn app be_bytes Nat.add].
  rewrite wr_app by (try (vm_compute; reflexivity); vm_compute; discriminate). cbn [obind].
  change CommonHeader_PATH_TYPE_RNG with (8 * N.of_nat 8, 8 * N.of_nat 1).
  rewrite lane_write_aligned by (cbn; lia). cbn [firstn skipn app be_bytes Nat.add].
  (* the two address type/length nibbles *)
  rewrite wr_app by (try (vm_compute; reflexivity); vm_compute; discriminate). cbn [obind].
  rewrite wr_app by (try (vm_compute; reflexivity); rewrite blen_lane_write; vm_compute; discriminate). cbn [obind].
  rewrite nibble_writes by assumption.
  (* reserved *)
  rewrite wr_app by (try (vm_compute; reflexivity); vm_compute; discriminate). cbn [obind].
  change CommonHeader_RSV_RNG with (8 * N.of_nat 10, 8 * N.of_nat 2).
  rewrite lane_write_aligned by (cbn; lia). cbn [firstn skipn app be_bytes Nat.add].
  change (0 / 256 mod 256) with 0. change (0 mod 256) with 0. reflexivity.
Qed.
