(** C08 -- closed form of the SCMP reply the gateway builds, and the proof that every reply is
    a parameter-problem packet addressed to the peer quoting a prefix of the offending
    datagram ([Spec.spec_reply_ok]). *)
From Coq Require Import Lia ZifyBool ZifyNat ZifyN.
From Sci Require Import Common.ListAux Ingress.Model Ingress.Spec Ingress.Proofs.
Ltac Zify.zify_post_hook ::= Z.div_mod_to_equations.
Local Open Scope N_scope.

(** * List arithmetic *)

Lemma firstn_app_exact {A} (l1 l2 : list A) n : n = length l1 -> firstn n (l1 ++ l2) = l1.
Proof. intros ->. induction l1 as [|a l IH]; cbn; [reflexivity|f_equal; exact IH]. Qed.
Lemma skipn_app_exact {A} (l1 l2 : list A) n : n = length l1 -> skipn n (l1 ++ l2) = l2.
Proof. intros ->. induction l1 as [|a l IH]; cbn; [reflexivity|exact IH]. Qed.
Lemma firstn_app_le {A} (l1 l2 : list A) n : (n <= length l1)%nat -> firstn n (l1 ++ l2) = firstn n l1.
Proof.
  revert n; induction l1 as [|a l IH]; intros n H; cbn in *.
  - replace n with 0%nat by lia. reflexivity.
  - destruct n; [reflexivity|]. cbn. f_equal. apply IH. lia.
Qed.
Lemma skipn_app_le {A} (l1 l2 : list A) n : (n <= length l1)%nat -> skipn n (l1 ++ l2) = skipn n l1 ++ l2.
Proof.
  revert n; induction l1 as [|a l IH]; intros n H; cbn in *.
  - replace n with 0%nat by lia. reflexivity.
  - destruct n; [reflexivity|]. cbn. apply IH. lia.
Qed.

Lemma sub_app_le l tail lo hi : hi <= blen l -> sub (l ++ tail) lo hi = sub l lo hi.
Proof.
  intros H. unfold sub, blen in *.
  destruct (N.le_gt_cases lo hi) as [L|L].
  - rewrite skipn_app_le by lia. rewrite firstn_app_le; [reflexivity|]. rewrite skipn_length. lia.
  - replace (N.to_nat (hi - lo)) with 0%nat by lia. reflexivity.
Qed.

Lemma lane_write_app l tail r x :
  byte_hi r <= blen l -> lane_write (l ++ tail) r x = lane_write l r x ++ tail.
Proof.
  intros H. pose proof (byte_lo_le_hi r) as L. unfold lane_write.
  rewrite sub_app_le by exact H. unfold blen in H.
  rewrite firstn_app_le by lia. rewrite skipn_app_le by lia. rewrite <- !app_assoc. reflexivity.
Qed.

Lemma wr_app l tail r x :
  (size_bytes r <=? LANE_BYTES) = true -> byte_hi r <= blen l ->
  wr (l ++ tail) r x = Ok (lane_write l r x ++ tail).
Proof.
  intros H1 H2. rewrite wr_ok; [|exact H1|unfold blen in *; rewrite app_length; lia].
  rewrite lane_write_app by exact H2. reflexivity.
Qed.

(** * Semantics of byte-aligned writes *)

Lemma be_bytes_mod n : forall v, be_bytes n (v mod 2 ^ (8 * N.of_nat n)) = be_bytes n v.
Proof.
  induction n as [|n IH]; intros v; cbn [be_bytes]; [reflexivity|].
  replace (8 * N.of_nat (S n)) with (8 + 8 * N.of_nat n) by lia.
  rewrite N.pow_add_r. change (2 ^ 8) with 256.
  set (m := 2 ^ (8 * N.of_nat n)). assert (Hm : m <> 0) by (apply N.pow_nonzero; lia).
  rewrite N.mod_mul_r by lia.
  replace ((v mod 256 + 256 * ((v / 256) mod m)) / 256) with ((v / 256) mod m) by lia.
  replace ((v mod 256 + 256 * ((v / 256) mod m)) mod 256) with (v mod 256) by lia.
  rewrite IH. reflexivity.
Qed.

Lemma aligned_newval lane x n :
  (N.lor (N.ldiff lane (N.ones n)) (N.land x (N.ones n))) mod 2 ^ n = x mod 2 ^ n.
Proof.
  rewrite <- !N.land_ones. rewrite N.land_lor_distr_l, N.land_ldiff, N.lor_0_l.
  rewrite <- N.land_assoc, N.land_diag. reflexivity.
Qed.

(** a byte-aligned write replaces exactly the bytes of its range by the big-endian value,
    whatever was there *)
Lemma lane_write_aligned l (i k : nat) x :
  (i + k <= length l)%nat ->
  lane_write l (8 * N.of_nat i, 8 * N.of_nat k) x = firstn i l ++ be_bytes k x ++ skipn (i + k) l.
Proof.
  intros H. unfold lane_write, byte_lo, byte_hi, r_end, r_start, r_width. cbn [fst snd].
  replace (8 * N.of_nat i / 8) with (N.of_nat i) by lia.
  replace ((8 * N.of_nat i + 8 * N.of_nat k + 7) / 8) with (N.of_nat (i + k)) by lia.
  replace (N.of_nat (i + k) * 8 - (8 * N.of_nat i + 8 * N.of_nat k)) with 0 by lia.
  rewrite !N.shiftl_0_r. rewrite !Nat2N.id.
  replace (N.to_nat (N.of_nat (i + k) - N.of_nat i)) with k by lia.
  f_equal. f_equal. rewrite <- (be_bytes_mod k (N.lor _ _)). rewrite aligned_newval. apply be_bytes_mod.
Qed.

(** writing zero over zeros changes nothing *)
Lemma be_val_zeros k acc : be_val acc (repeat 0 k) = acc * 256 ^ N.of_nat k.
Proof.
  revert acc; induction k as [|k IH]; intros acc; cbn [repeat be_val]; [cbn; lia|].
  rewrite IH. replace (N.of_nat (S k)) with (1 + N.of_nat k) by lia. rewrite N.pow_add_r. lia.
Qed.
Lemma be_bytes_zero k : be_bytes k 0 = repeat 0 k.
Proof.
  induction k as [|k IH]; cbn [be_bytes]; [reflexivity|].
  change (0 / 256) with 0. change (0 mod 256) with 0. rewrite IH.
  clear IH. induction k; cbn; [reflexivity|f_equal; assumption].
Qed.

Lemma lane_write_zero_noop l r :
  byte_hi r <= blen l -> sub l (byte_lo r) (byte_hi r) = repeat 0 (N.to_nat (byte_hi r - byte_lo r)) ->
  lane_write l r 0 = l.
Proof.
  intros H Z. pose proof (byte_lo_le_hi r) as L. unfold lane_write. rewrite Z, be_val_zeros.
  rewrite N.mul_0_l, N.ldiff_0_l, N.land_0_l, N.shiftl_0_l, N.lor_0_l. rewrite be_bytes_zero, <- Z.
  unfold sub.
  rewrite <- (firstn_skipn (N.to_nat (byte_lo r)) l) at 4. f_equal.
  rewrite <- (firstn_skipn (N.to_nat (byte_hi r - byte_lo r)) (skipn (N.to_nat (byte_lo r)) l)) at 2.
  f_equal. rewrite ListAux.skipn_skipn. f_equal. lia.
Qed.

(** * The common header, the address header *)

Definition Z12 : bytes := [0;0;0;0;0;0;0;0;0;0;0;0].

Lemma nibble_writes e0 e1 e2 e3 e4 e5 e6 e7 e8 e10 e11 dn sn :
  (dn = 0 \/ dn = 3) -> (sn = 0 \/ sn = 3) ->
  lane_write (lane_write [e0;e1;e2;e3;e4;e5;e6;e7;e8;0;e10;e11] CommonHeader_DST_ADDR_INFO_RNG dn)
             CommonHeader_SRC_ADDR_INFO_RNG sn
  = [e0;e1;e2;e3;e4;e5;e6;e7;e8;dn * 16 + sn;e10;e11].
Proof. intros [-> | ->] [-> | ->]; vm_compute; reflexivity. Qed.

Ltac wr_step_zero :=
  rewrite wr_app by (try (vm_compute; reflexivity); vm_compute; discriminate);
  rewrite lane_write_zero_noop by (try (vm_compute; reflexivity); vm_compute; discriminate);
  cbn [obind].

Ltac norm_buf tail :=
  cbn [firstn skipn be_bytes Nat.add];
  lazymatch goal with
  | |- context [?l ++ tail] => let l' := eval cbn [app] in l in change (l ++ tail) with (l' ++ tail)
  end.

Lemma common_header_closed u pt dn sn ps tail :
  (dn = 0 \/ dn = 3) -> (sn = 0 \/ sn = 3) ->
  wr_all (Z12 ++ tail) (common_header_writes u pt dn sn ps)
  = Ok ([0;0;0;0; PROTO_SCMP mod 256; u mod 256; (ps / 256) mod 256; ps mod 256; pt mod 256; dn * 16 + sn; 0; 0] ++ tail).
Proof.
  intros Hd Hs. unfold common_header_writes, Z12. cbn [wr_all].
  wr_step_zero. wr_step_zero. wr_step_zero.
  (* next header, header length, payload length, path type: aligned *)
  rewrite wr_app by (try (vm_compute; reflexivity); vm_compute; discriminate). cbn [obind].
  change CommonHeader_NEXT_HEADER_RNG with (8 * N.of_nat 4, 8 * N.of_nat 1).
  rewrite lane_write_aligned by (cbn; lia). norm_buf tail.
  rewrite wr_app by (try (vm_compute; reflexivity); vm_compute; discriminate). cbn [obind].
  change CommonHeader_HEADER_LEN_RNG with (8 * N.of_nat 5, 8 * N.of_nat 1).
  rewrite lane_write_aligned by (cbn; lia). norm_buf tail.
  rewrite wr_app by (try (vm_compute; reflexivity); vm_compute; discriminate). cbn [obind].
  change CommonHeader_PAYLOAD_LEN_RNG with (8 * N.of_nat 6, 8 * N.of_nat 2).
  rewrite lane_write_aligned by (cbn; lia). norm_buf tail.
  rewrite wr_app by (try (vm_compute; reflexivity); vm_compute; discriminate). cbn [obind].
  change CommonHeader_PATH_TYPE_RNG with (8 * N.of_nat 8, 8 * N.of_nat 1).
  rewrite lane_write_aligned by (cbn; lia). norm_buf tail.
  (* the two address type/length nibbles *)
  rewrite wr_app by (try (vm_compute; reflexivity); vm_compute; discriminate). cbn [obind].
  rewrite wr_app by (try (vm_compute; reflexivity); rewrite blen_lane_write; vm_compute; discriminate). cbn [obind].
  rewrite nibble_writes by assumption.
  (* reserved *)
  rewrite wr_app by (try (vm_compute; reflexivity); vm_compute; discriminate). cbn [obind].
  change CommonHeader_RSV_RNG with (8 * N.of_nat 10, 8 * N.of_nat 2).
  rewrite lane_write_aligned by (cbn; lia). norm_buf tail.
  change (0 / 256 mod 256) with 0. change (0 mod 256) with 0. reflexivity.
Qed.

Lemma address_closed e0 e1 e2 e3 e4 e5 e6 e7 e8 e9 e10 e11 tail :
  wr_all ([e0;e1;e2;e3;e4;e5;e6;e7;e8;e9;e10;e11] ++ repeat 0 16 ++ tail) (address_ia_writes IA_WILDCARD IA_WILDCARD)
  = Ok ([e0;e1;e2;e3;e4;e5;e6;e7;e8;e9;e10;e11] ++ repeat 0 16 ++ tail).
Proof.
  change ([e0;e1;e2;e3;e4;e5;e6;e7;e8;e9;e10;e11] ++ repeat 0 16 ++ tail)
    with ([e0;e1;e2;e3;e4;e5;e6;e7;e8;e9;e10;e11;0;0;0;0;0;0;0;0;0;0;0;0;0;0;0;0] ++ tail).
  unfold address_ia_writes. cbn [wr_all].
  change (N.shiftr IA_WILDCARD 48) with 0. change (N.land IA_WILDCARD (N.ones 48)) with 0.
  wr_step_zero. wr_step_zero. wr_step_zero. wr_step_zero. reflexivity.
Qed.

Lemma copy_into_exact pre old post lo data :
  lo = blen pre -> blen old = blen data -> copy_into (pre ++ old ++ post) lo data = Ok (pre ++ data ++ post).
Proof.
  intros -> H. unfold copy_into, blen in *. rewrite !app_length.
  replace (_ <=? _) with true by lia. f_equal.
  rewrite firstn_app_exact by lia. f_equal. f_equal.
  rewrite app_assoc. apply skipn_app_exact. rewrite app_length. lia.
Qed.

Lemma zeros_add a b : zeros (a + b) = zeros a ++ zeros b.
Proof. unfold zeros. rewrite <- repeat_app. f_equal. lia. Qed.

Definition reply_header_bytes (s d : ipaddr) (ps : N) : bytes :=
  [0;0;0;0; PROTO_SCMP mod 256; trunc 8 (reply_header_size s d / 4) mod 256;
   (trunc 16 ps / 256) mod 256; trunc 16 ps mod 256; PT_EMPTY mod 256; ip_nibble d * 16 + ip_nibble s; 0; 0]
  ++ repeat 0 16 ++ ip_octets d ++ ip_octets s.

Lemma ip_nibble_cases a : ip_nibble a = 0 \/ ip_nibble a = 3.
Proof. destruct a; [left|right]; reflexivity. Qed.

Lemma encode_reply_header_closed s d ps :
  ip_wf s = true -> ip_wf d = true -> encode_reply_header s d ps = Ok (reply_header_bytes s d ps).
Proof.
  intros Ws Wd. destruct (ip_wf_octets s Ws) as [Ls Os]. destruct (ip_wf_octets d Wd) as [Ld Od].
  unfold encode_reply_header, reply_header_bytes.
  rewrite reply_header_size_eq at 1.
  replace (28 + ip_size s + ip_size d) with (12 + (16 + (ip_size d + ip_size s))) by lia.
  rewrite !zeros_add. change (zeros 12) with Z12. change (zeros 16) with (repeat 0 16).
  rewrite common_header_closed by apply ip_nibble_cases. cbn [obind].
  rewrite address_closed. cbn [obind].
  destruct (host_rng_bytes (ip_size s) (ip_size d)) as [-> ->].
  match goal with |- context [copy_into (?h ++ repeat 0 16 ++ ?t) 28 _] =>
    change (h ++ repeat 0 16 ++ t) with ((h ++ repeat 0 16) ++ t) end.
  rewrite copy_into_exact; [|reflexivity|rewrite blen_zeros; lia]. cbn [obind].
  match goal with |- context [copy_into ((?h ++ repeat 0 16) ++ ?o ++ ?t) _ _] =>
    replace ((h ++ repeat 0 16) ++ o ++ t) with (((h ++ repeat 0 16) ++ o) ++ t ++ []) by (rewrite app_nil_r, <- !app_assoc; reflexivity) end.
  rewrite copy_into_exact; [| |rewrite blen_zeros; lia].
  - rewrite app_nil_r, <- !app_assoc. reflexivity.
  - unfold blen in *. rewrite !app_length, repeat_length. cbn [length]. lia.
Qed.

(** * The SCMP message *)

Lemma param_problem_closed c p tail :
  wr_all ([0;0;0;0;0;0;0;0] ++ tail) (param_problem_writes c p)
  = Ok ([SCMP_T_ParameterProblem mod 256; c mod 256; 0; 0; 0; 0; (p / 256) mod 256; p mod 256] ++ tail).
Proof.
  unfold param_problem_writes. cbn [wr_all].
  rewrite wr_app by (try (vm_compute; reflexivity); vm_compute; discriminate). cbn [obind].
  change ScmpParameterProblem_TYPE_RNG with (8 * N.of_nat 0, 8 * N.of_nat 1).
  rewrite lane_write_aligned by (cbn; lia). norm_buf tail.
  rewrite wr_app by (try (vm_compute; reflexivity); vm_compute; discriminate). cbn [obind].
  change ScmpParameterProblem_CODE_RNG with (8 * N.of_nat 1, 8 * N.of_nat 1).
  rewrite lane_write_aligned by (cbn; lia). norm_buf tail.
  rewrite wr_app by (try (vm_compute; reflexivity); vm_compute; discriminate). cbn [obind].
  change ScmpParameterProblem_CHECKSUM_RNG with (8 * N.of_nat 2, 8 * N.of_nat 2).
  rewrite lane_write_aligned by (cbn; lia). norm_buf tail.
  rewrite wr_app by (try (vm_compute; reflexivity); vm_compute; discriminate). cbn [obind].
  change ScmpParameterProblem_RESERVED_RNG with (8 * N.of_nat 4, 8 * N.of_nat 2).
  rewrite lane_write_aligned by (cbn; lia). norm_buf tail.
  rewrite wr_app by (try (vm_compute; reflexivity); vm_compute; discriminate). cbn [obind].
  change ScmpParameterProblem_POINTER_RNG with (8 * N.of_nat 6, 8 * N.of_nat 2).
  rewrite lane_write_aligned by (cbn; lia). norm_buf tail.
  change (0 / 256 mod 256) with 0. change (0 mod 256) with 0. reflexivity.
Qed.

Lemma encode_param_problem_closed s d c p off hs m :
  hs <= 60 -> encode_param_problem s d c p off hs = Ok m ->
  exists k2 k3,
    m = [SCMP_T_ParameterProblem mod 256; c mod 256; k2; k3; 0; 0; (p / 256) mod 256; p mod 256]
        ++ sub off 0 (pp_payload_size (blen off) hs - 8).
Proof.
  intros Hhs. pose proof (pp_payload_size_bounds (blen off) hs Hhs) as (P1 & P2 & P3).
  unfold encode_param_problem. set (ml := pp_payload_size (blen off) hs) in *.
  replace ml with (8 + (ml - 8)) at 1 by lia. rewrite zeros_add. change (zeros 8) with [0;0;0;0;0;0;0;0].
  rewrite param_problem_closed. cbn [obind]. change ScmpParameterProblem_HEADER_SIZE_BYTES with 8.
  unfold index_range. replace ((0 <=? ml - 8) && (ml - 8 <=? blen off)) with true by lia. cbn [obind].
  assert (Lq : blen (sub off 0 (ml - 8)) = ml - 8) by (rewrite blen_sub by lia; lia).
  match goal with |- context [copy_into (?h ++ zeros (ml - 8)) 8 ?q] =>
    replace (h ++ zeros (ml - 8)) with (h ++ zeros (ml - 8) ++ []) by (rewrite app_nil_r; reflexivity) end.
  rewrite copy_into_exact; [|reflexivity|rewrite blen_zeros; lia]. rewrite app_nil_r. cbn [obind].
  destruct (checksum _) as [ck| |]; cbn [obind]; try discriminate.
  rewrite wr_app by (try (vm_compute; reflexivity); vm_compute; discriminate).
  change ScmpParameterProblem_CHECKSUM_RNG with (8 * N.of_nat 2, 8 * N.of_nat 2).
  rewrite lane_write_aligned by (cbn; lia).
  cbn [firstn skipn be_bytes Nat.add app]. intros H. inversion H. eauto.
Qed.

(** * Every reply satisfies the specification's reply predicate *)

Lemma list_eqb_refl (l : list N) : list_eqb N.eqb l l = true.
Proof. induction l as [|a l IH]; cbn [list_eqb]; [reflexivity|]. rewrite N.eqb_refl, IH. reflexivity. Qed.

Lemma is_prefix_firstn (d : list N) j : is_prefix (firstn j d) d = true.
Proof.
  unfold is_prefix. rewrite firstn_length.
  replace (firstn (Nat.min j (length d)) d) with (firstn j d); [apply list_eqb_refl|].
  destruct (Nat.le_ge_cases j (length d)) as [L|L].
  - rewrite Nat.min_l by lia. reflexivity.
  - rewrite Nat.min_r by lia. rewrite !firstn_all2 by lia. reflexivity.
Qed.

Lemma sub0_firstn b n : sub b 0 n = firstn (N.to_nat n) b.
Proof. unfold sub. rewrite N.sub_0_r. reflexivity. Qed.

Lemma first12_fields e0 e1 e2 e3 e4 e5 e6 e7 e8 e9 e10 e11 X :
  let r := [e0;e1;e2;e3;e4;e5;e6;e7;e8;e9;e10;e11] ++ X in
  spec_version r = e0 / 16 /\ spec_next_hdr r = e4 /\ spec_hdr_len r = 4 * e5 /\
  spec_payload_len r = 256 * e6 + e7 /\ spec_path_type r = e8 /\
  spec_dst_tl r = e9 / 16 /\ spec_src_tl r = e9 mod 16.
Proof. repeat split; reflexivity. Qed.

Lemma reply_ok_lemma s p c ptr off d r :
  ip_wf s = true -> ip_wf p = true ->
  (off = d \/ exists n, off = sub d 0 n) ->
  encode_scmp_reply s p c ptr off = Ok r -> spec_reply_ok r d p = true.
Proof.
  intros Ws Wp Hoff E. pose proof (encode_scmp_reply_len _ _ _ _ _ _ E) as Hlen.
  destruct (ip_wf_octets s Ws) as [Ls Os]. destruct (ip_wf_octets p Wp) as [Lp Op].
  pose proof (reply_header_size_bounds s p) as (B1 & B2). pose proof (reply_header_size_eq s p) as Hs.
  set (hs := reply_header_size s p) in *.
  pose proof (pp_payload_size_bounds (blen off) hs ltac:(lia)) as (P1 & P2 & P3).
  unfold encode_scmp_reply in E. fold hs in E.
  destruct (negb _); [discriminate|]. destruct (_ <? _); [discriminate|]. destruct (_ <? _); [discriminate|].
  rewrite (encode_reply_header_closed s p _ Ws Wp) in E.
  destruct (encode_param_problem s p c ptr off hs) as [m| |] eqn:Em; try discriminate.
  assert (Hhs60 : hs <= 60) by lia.
  destruct (encode_param_problem_closed s p c ptr off hs m Hhs60 Em) as (k2 & k3 & Hm).
  set (ml := pp_payload_size (blen off) hs) in *.
  assert (Er : r = reply_header_bytes s p ml ++ m) by congruence. clear E. subst r.
  (* the quote is a prefix of the datagram *)
  assert (Hq : exists j, sub off 0 (ml - 8) = firstn j d).
  { destruct Hoff as [-> | (n & ->)].
    - exists (N.to_nat (ml - 8)). apply sub0_firstn.
    - rewrite !sub0_firstn, firstn_firstn. eauto. }
  destruct Hq as (j & Hq). rewrite Hq in Hm. clear Hq.
  (* lengths *)
  assert (Lh : blen (reply_header_bytes s p ml) = hs).
  { unfold reply_header_bytes, blen in *. rewrite !app_length, repeat_length. cbn [length]. lia. }
  assert (Lm : 8 <= blen m) by (rewrite Hm; unfold blen; rewrite app_length; cbn [length]; lia).
  change SCMP_ERROR_MAX_PACKET_SIZE with 1232 in Hlen.
  (* the fields of the first twelve bytes *)
  unfold reply_header_bytes. fold hs.
  rewrite <- !app_assoc.
  match goal with |- spec_reply_ok (?l12 ++ ?X) _ _ = true => set (RX := X) end.
  match goal with |- spec_reply_ok ([?e0;?e1;?e2;?e3;?e4;?e5;?e6;?e7;?e8;?e9;?e10;?e11] ++ _) _ _ = true =>
    pose proof (first12_fields e0 e1 e2 e3 e4 e5 e6 e7 e8 e9 e10 e11 RX) as F; cbv zeta in F end.
  match goal with |- spec_reply_ok ?R _ _ = true => set (r := R) in * end.
  destruct F as (F0 & F4 & F5 & F67 & F8 & F9d & F9s).
  change (0 / 16) with 0 in F0. change (PROTO_SCMP mod 256) with 202 in F4. change (PT_EMPTY mod 256) with 0 in F8.
  assert (Fhl : spec_hdr_len r = hs) by (rewrite F5; unfold trunc; change (2 ^ 8) with 256; lia).
  assert (Fpl : spec_payload_len r = ml) by (rewrite F67; unfold trunc; change (2 ^ 16) with 65536; lia).
  pose proof (ip_nibble_cases s) as Ns. pose proof (ip_nibble_cases p) as Np.
  assert (Fd : spec_dst_tl r = ip_nibble p) by (rewrite F9d; lia).
  assert (Fs : spec_src_tl r = ip_nibble s) by (rewrite F9s; lia).
  assert (Hl : forall a, spec_host_len (ip_nibble a) = ip_size a) by (intros [o|o]; reflexivity).
  assert (Fpo : spec_path_off r = hs).
  { unfold spec_path_off, spec_src_off, spec_dst_off. rewrite Fd, Fs, !Hl. lia. }
  assert (Flen : len r = hs + blen m).
  { unfold r, RX, len, blen in *. rewrite !app_length, repeat_length in *. cbn [length] in *. lia. }
  (* destination host field *)
  assert (Fdst : octets r spec_dst_off (ip_size p) = ip_octets p).
  { unfold octets, r, RX, spec_dst_off.
    match goal with |- firstn _ (skipn _ (?l12 ++ repeat 0 16 ++ ?o ++ ?rest)) = _ =>
      change (l12 ++ repeat 0 16 ++ o ++ rest) with ((l12 ++ repeat 0 16) ++ o ++ rest) end.
    rewrite skipn_app_exact by reflexivity. apply firstn_app_exact. unfold blen in Lp. lia. }
  (* the SCMP message *)
  assert (Fr : r = reply_header_bytes s p ml ++ m).
  { unfold r, RX, reply_header_bytes. fold hs. rewrite <- !app_assoc. reflexivity. }
  assert (Ft : byte r hs = 4).
  { rewrite Fr. unfold byte. unfold reply_header_bytes in *. fold hs in Lh |- *. unfold blen in Lh.
    rewrite app_nth2 by lia. replace (N.to_nat hs - _)%nat with 0%nat by lia. rewrite Hm. reflexivity. }
  assert (Fq : skipn (N.to_nat (hs + 8)) r = firstn j d).
  { rewrite Fr. unfold reply_header_bytes in *. fold hs in Lh |- *. unfold blen in Lh.
    replace (N.to_nat (hs + 8)) with (8 + N.to_nat hs)%nat by lia. rewrite <- ListAux.skipn_skipn.
    rewrite skipn_app_exact by lia. rewrite Hm. reflexivity. }
  unfold spec_reply_ok. rewrite Fhl, F0, F4, F8, Fpo, Fpl, Ft, Fq, is_prefix_firstn, Flen.
  assert (Edst : match p with
                 | IPv4 o => (spec_dst_tl r =? 0) && list_eqb N.eqb (octets r spec_dst_off 4) o
                 | IPv6 o => (spec_dst_tl r =? 3) && list_eqb N.eqb (octets r spec_dst_off 16) o
                 end = true).
  { rewrite Fd. destruct p as [o|o]; cbn [ip_nibble ip_size ip_octets] in *;
      change HAT_IPV4_SIZE with 4 in Fdst; change HAT_IPV6_SIZE with 16 in Fdst;
      rewrite Fdst, list_eqb_refl; reflexivity. }
  rewrite Edst. unfold SCMP_MAX, SEND_BUF.
  replace (hs + blen m <=? 1232) with true by (unfold blen in *; rewrite app_length in Hlen; unfold hs in *; lia).
  replace (12 <=? hs + blen m) with true by lia.
  replace (hs + 8 <=? hs + blen m) with true by lia.
  replace (ml =? hs + blen m - hs) with true.
  2:{ pose proof (encode_param_problem_len _ _ _ _ _ _ _ Em). fold ml in H. lia. }
  rewrite !N.eqb_refl. reflexivity.
Qed.

Lemma reply_spec_lemma local d from l r :
  ip_wf local = true -> ip_wf from = true ->
  gateway_inbound local d from = Ok l -> In (Sent r) l -> spec_reply_ok r d from = true.
Proof.
  intros Wl Wf H Hin.
  destruct (gateway_inbound_inv _ _ _ _ H) as [(v & _ & ->)|(e & Hc & [(_ & ->)|(_ & c & p & off & Hs & [(b & E & ->)|(ee & _ & ->)])])].
  - destruct Hin as [Hin|[]]. discriminate.
  - destruct Hin.
  - destruct Hin as [Hin|[]]. inversion Hin; subst b. rewrite check_is_nf in Hc.
    destruct (scmp_error_of_check d from e Hc) as (c' & p' & off' & Hs' & Hoff).
    rewrite Hs in Hs'. inversion Hs'; subst c' p' off'.
    apply (reply_ok_lemma local from c p off d r Wl Wf); [|exact E].
    destruct Hoff as [-> | ->]; [left; reflexivity|right; unfold f_view; eauto].
  - destruct Hin.
Qed.
