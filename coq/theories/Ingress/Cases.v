(** Correspondence driver for C08: evaluated by [vm_compute] on case files written by the Rust
    harness (harness/hc_ingress/src/bin/h_ingress.rs).  For each case the model is run on the
    same (local address, datagram, peer address) as the implementation and the outcome class
    and bytes are compared; and the property oracles of [Spec] are evaluated on the
    IMPLEMENTATION's observed output. *)
From Sci Require Export Ingress.Model Ingress.Spec.
Local Open Scope N_scope.

(** datagram literal: runs and literal chunks *)
Inductive seg := R (n byte : N) | B (l : list N).
Definition seg_expand (s : seg) : list N :=
  match s with R n b => repeat b (N.to_nat n) | B l => l end.
Definition expand (d : list seg) : list N := flat_map seg_expand d.

(** observed outcome of the implementation:
    [o_class] 0 = dispatched ([o_bytes] = the view handed to the dispatcher),
              1 = reply ([o_bytes] = the SCMP packet), 2 = reply could not be encoded (dropped)
              or, end-to-end, no effect observed, 3 = not answered because the datagram is an SCMP
              error message, 9 = panic or more than one effect;
    [o_err] failed check: 0 none, 1 MalformedPacket, 2 InvalidSourceAddress, 3 InvalidPathType,
            255 = not observable (end-to-end cases: only the gateway's effects are seen) *)
Record icase := mkI {
  i_local : ipaddr; i_from : ipaddr; i_dgram : list seg;
  o_class : N; o_err : N; o_bytes : list seg }.

Definition perr_code (e : perr) : N :=
  match e with MalformedPacket _ _ => 1 | InvalidSourceAddress _ => 2 | InvalidPathType _ _ => 3 end.

Definition bytes_eqb := list_eqb N.eqb.

Definition verdict (c : icase) : N :=
  let d := expand (i_dgram c) in
  let ob := expand (o_bytes c) in
  let m_act := gateway_decision (i_local c) d (i_from c) in
  let e2e := o_err c =? 255 in
  let m_err := match inbound_datagram_check d (i_from c) with
               | Ok _ => 0 | Err e => perr_code e | Panic _ => 9 end in
  let agree :=
    match m_act with
    | Ok (DDispatch v) => (o_class c =? 0) && bytes_eqb v ob
    | Ok (DReply r) => (o_class c =? 1) && bytes_eqb r ob
    | Ok (DEncodeError _) => (o_class c =? 2)
    | Ok DSuppress => if e2e then o_class c =? 2 else o_class c =? 3
    | Err _ => false
    | Panic _ => (o_class c =? 9)
    end && (if (o_class c =? 9) || (o_err c =? 255) then true else m_err =? o_err c) in
  (* property oracles on the implementation's output *)
  let oracle_ok :=
    if o_class c =? 0 then
      (* dispatched only if SpecAccept; what is dispatched is the packet itself *)
      spec_accept d (i_from c) && bytes_eqb ob (spec_packet d)
    else if o_class c =? 1 then spec_reply_ok ob d (i_from c)
    else if o_class c =? 2 then true       (* no reply: "at most one" *)
    else if o_class c =? 3 then spec_is_scmp_error d && negb (spec_accept d (i_from c))
    else false in                          (* panic *)
  (if agree then 0 else 1) + (if oracle_ok then 0 else 2).

Definition verdicts (cs : list icase) : list N := map verdict cs.
