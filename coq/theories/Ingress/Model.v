(** Model of the SNAP tunnel gateway's handling of one decrypted inbound datagram (C08):

    - [inbound_datagram_check]   snap-dataplane/src/tunnel_gateway/packet_policy.rs
    - [create_inbound_scmp_error], [create_scmp_error], the [Forwarded] arm of
      [TunnelGateway::start_server]   snap-dataplane/src/tunnel_gateway/gateway.rs
    - [ScionScmpPacket::try_encode] for a parameter-problem message over an empty path
      (sciparse packet/model.rs, header/model.rs, payload/scmp/model.rs, scion/checksum.rs)

    statement by statement, on top of the view-construction model [Sci.Wire.Model] (every read
    goes through the checked stand-ins [rd] / [get_unchecked], so a read outside the slice at
    hand is an explicit [Panic]).  Definitions only; bit ranges and constants come from
    [Gen.Layout], [Gen.Tables] (tools/gen.d/wire.py) and [Gen.Ingress] (tools/gen.d/ingress.py),
    regenerated from /repo on every run. *)
From Sci Require Export Wire.Model Gen.Ingress Ingress.Ip.
Local Open Scope N_scope.

(** WireHostAddr::ip *)
Definition host_ip (h : host_addr) : option ipaddr :=
  match h with
  | HA_V4 b => Some (IPv4 b)
  | HA_V6 b => Some (IPv6 b)
  | HA_Svc _ | HA_Unknown _ _ => None
  end.

(** * packet_policy.rs *)

Inductive perr :=
| MalformedPacket (datagram : bytes) (e : verr)
| InvalidSourceAddress (view : bytes)
| InvalidPathType (view : bytes) (pt : N).

Definition pres (A : Type) := outcome A perr.

(* The accessors of a constructed view are infallible in Rust.  Their model in Wire.Model has
   the result type [res]; an [Err] there cannot correspond to anything the Rust accessor
   does, so it is mapped to a panic site of its own (proved unreachable). *)
Definition P_VIEW_ERR := 20.
Definition lift {A} (r : res A) : pres A :=
  match r with Ok a => Ok a | Err _ => Panic P_VIEW_ERR | Panic s => Panic s end.

(** PathType::Scion | PathType::Empty => {} *)
Definition path_type_accepted (pt : N) : bool := existsb (N.eqb pt) accepted_path_types.

(** inbound_datagram_check(datagram, expected_ip): [Ok view] = the returned view's bytes *)
Definition inbound_datagram_check (datagram : bytes) (expected_ip : ipaddr) : pres bytes :=
  (* ScionPacketView::try_from_slice(datagram).map_err(MalformedPacket(datagram, e))? *)
  match try_from_slice KRaw datagram with
  | Panic s => Panic s
  | Err e => Err (MalformedPacket datagram e)
  | Ok (view, _) =>
    (* view.header().src_host_addr().ok().and_then(|w| w.ip()).ok_or(InvalidSourceAddress(view))? *)
    hdr <- lift (pkt_header view) ;;
    src <- lift (hv_src_host hdr) ;;
    match match src with Some w => host_ip w | None => None end with
    | None => Err (InvalidSourceAddress view)
    | Some src_ip =>
      (* if src_ip != expected_ip *)
      if negb (ip_eqb src_ip expected_ip) then Err (InvalidSourceAddress view) else
      (* match view.header().path_type() *)
      hdr' <- lift (pkt_header view) ;;
      pt <- lift (hv_path_type hdr') ;;
      if path_type_accepted pt then Ok view else Err (InvalidPathType view pt)
    end
  end.

(** * scion/checksum.rs *)

Definition fold_checksum (c : N) : N :=
  let c1 := N.shiftr c 16 + N.land c 65535 in
  N.shiftr c1 16 + N.land c1 65535.

(* sum of the big-endian 16-bit words of [data], a trailing odd byte zero-padded *)
Fixpoint be_words_sum (data : bytes) : N :=
  match data with
  | [] => 0
  | [a] => a * 256
  | a :: b :: r => a * 256 + b + be_words_sum r
  end.
(* add_slice: the slice's folded sum is added to the running sum; the result does not depend
   on the slice's alignment (the unaligned branch zero-prepends and swaps back) *)
Definition add_slice (acc : N) (data : bytes) : N :=
  match data with [] => acc | _ => acc + fold_checksum (be_words_sum data) end.
Definition add_u32 (acc v : N) : N := acc + N.land v 65535 + N.land (N.shiftr v 16) 65535.
Definition add_u64 (acc v : N) : N :=
  acc + (N.land v 65535 + N.land (N.shiftr v 16) 65535 + N.land (N.shiftr v 32) 65535
         + N.land (N.shiftr v 48) 65535).

(** ChecksumDigest::with_pseudoheader(address_header, protocol, buf) -- running sum.
    NOTE: [buf] contributes only its length (the function does not add the message bytes);
    [Gen.Ingress.CSUM_COVERS_MESSAGE] tells whether the current source adds them (inside this
    function or at the call site of the parameter-problem encoder). *)
Definition with_pseudoheader (dst_ia src_ia : N) (dst_host src_host : bytes) (proto : N) (buf : bytes) : N :=
  let d := add_u64 0 dst_ia in
  let d := add_u64 d src_ia in
  let d := add_slice d dst_host in
  let d := add_slice d src_host in
  let d := add_u32 d (trunc 32 (blen buf)) in
  let d := add_u32 d proto in
  if CSUM_COVERS_MESSAGE then add_slice d buf else d.

(* the running sum is a u32: += overflows (debug build: panic) *)
Definition checksum (acc : N) : res N :=
  if 2 ^ 32 <=? acc then Panic P_OVERFLOW else Ok (65535 - fold_checksum acc).

(** * Encoding of the reply *)

Definition zeros (n : N) : bytes := repeat 0 (N.to_nat n).

(** buf.get_unchecked_mut(lo..lo+len).copy_from_slice(data) *)
Definition copy_into (buf : bytes) (lo : N) (data : bytes) : res bytes :=
  if lo + blen data <=? blen buf
  then Ok (firstn (N.to_nat lo) buf ++ data ++ skipn (N.to_nat (lo + blen data)) buf)
  else Panic P_OOB.

(** u8::from(addr.addr_type()) and the encoded host bytes of a [ScionHostAddr] made from an
    [IpAddr] (WireHostAddr::V4 / V6) *)
Definition ip_nibble (a : ipaddr) : N := match a with IPv4 _ => HAT_IPV4 | IPv6 _ => HAT_IPV6 end.
Definition ip_size (a : ipaddr) : N := match a with IPv4 _ => HAT_IPV4_SIZE | IPv6 _ => HAT_IPV6_SIZE end.

(** ScionPacketHeader::required_size with DpPath::Empty *)
Definition reply_header_size (src dst : ipaddr) : N :=
  CommonHeader_SIZE_BYTES + addr_hdr_size (ip_size dst) (ip_size src) + 0.

(** ScmpParameterProblemLayout::from_offending_packet_length(..).size_bytes() *)
Definition pp_payload_size (offending_len header_size : N) : N :=
  let max_payload := SCMP_ERROR_MAX_PACKET_SIZE - header_size in          (* saturating_sub *)
  let max_offending_len := max_payload - ScmpParameterProblem_HEADER_SIZE_BYTES in
  let included := N.min offending_len max_offending_len in
  ScmpParameterProblem_HEADER_SIZE_BYTES + included.

(** a sequence of unchecked_bit_range_be_write calls on one buffer, in source order *)
Fixpoint wr_all (v : bytes) (ws : list (rng * N)) : res bytes :=
  match ws with
  | [] => Ok v
  | (r, x) :: t => v' <- wr v r x ;; wr_all v' t
  end.

(** CommonHeader::encode_unchecked(buf, header_len_units, path_type, dst_addr_type,
    src_addr_type, payload_size) with traffic_class = 0, flow_id = 0, next_header = SCMP *)
Definition common_header_writes (hl_units pt dst_nib src_nib payload_size : N) : list (rng * N) :=
  [ (CommonHeader_VERSION_RNG, 0);
    (CommonHeader_TRAFFIC_CLASS_RNG, 0);
    (CommonHeader_FLOW_ID_RNG, 0);
    (CommonHeader_NEXT_HEADER_RNG, PROTO_SCMP);
    (CommonHeader_HEADER_LEN_RNG, hl_units);
    (CommonHeader_PAYLOAD_LEN_RNG, payload_size);
    (CommonHeader_PATH_TYPE_RNG, pt);
    (CommonHeader_DST_ADDR_INFO_RNG, dst_nib);
    (CommonHeader_SRC_ADDR_INFO_RNG, src_nib);
    (CommonHeader_RSV_RNG, 0) ].

(** AddressHeader::encode_unchecked on buf[12..]: ISD / AS numbers (ranges shifted by the
    common header because the model writes into the whole header buffer) *)
Definition address_ia_writes (dst_ia src_ia : N) : list (rng * N) :=
  let sh r := rshift r CommonHeader_SIZE_BYTES in
  [ (sh AddressHeader_DST_ISD_RNG, N.shiftr dst_ia 48);
    (sh AddressHeader_DST_AS_RNG, N.land dst_ia (N.ones 48));
    (sh AddressHeader_SRC_ISD_RNG, N.shiftr src_ia 48);
    (sh AddressHeader_SRC_AS_RNG, N.land src_ia (N.ones 48)) ].

(** ScionPacketHeader::encode_unchecked(header_buf, payload_size as u16): common header,
    address header; the empty path writes nothing *)
Definition encode_reply_header (src dst : ipaddr) (payload_size : N) : res bytes :=
  let hs := reply_header_size src dst in
  let buf := zeros hs in
  b <- wr_all buf (common_header_writes (trunc 8 (hs / 4)) PT_EMPTY (ip_nibble dst) (ip_nibble src)
                                        (trunc 16 payload_size)) ;;
  b <- wr_all b (address_ia_writes IA_WILDCARD IA_WILDCARD) ;;
  (* AddressHeaderLayout::new(src_len, dst_len): host address ranges *)
  b <- copy_into b (byte_lo (dst_host_rng (ip_size src) (ip_size dst))) (ip_octets dst) ;;
  copy_into b (byte_lo (src_host_rng (ip_size src) (ip_size dst))) (ip_octets src).

(** ScmpParameterProblem::encode_unchecked(payload_buf, address_header, header_size) *)
Definition param_problem_writes (code pointer : N) : list (rng * N) :=
  [ (ScmpParameterProblem_TYPE_RNG, SCMP_T_ParameterProblem);
    (ScmpParameterProblem_CODE_RNG, code);
    (ScmpParameterProblem_CHECKSUM_RNG, 0);
    (ScmpParameterProblem_RESERVED_RNG, 0);
    (ScmpParameterProblem_POINTER_RNG, pointer) ].

Definition encode_param_problem (src dst : ipaddr) (code pointer : N) (offending : bytes)
           (header_size : N) : res bytes :=
  let message_length := pp_payload_size (blen offending) header_size in
  let buf := zeros message_length in
  b <- wr_all buf (param_problem_writes code pointer) ;;
  let included := message_length - ScmpParameterProblem_HEADER_SIZE_BYTES in
  (* &self.offending_packet[..offending_packet_len] *)
  quote <- index_range offending 0 included ;;
  b <- copy_into b ScmpParameterProblem_HEADER_SIZE_BYTES quote ;;
  c <- checksum (with_pseudoheader IA_WILDCARD IA_WILDCARD (ip_octets dst) (ip_octets src) PROTO_SCMP b) ;;
  wr b ScmpParameterProblem_CHECKSUM_RNG c.

Inductive encode_error := EBufferTooSmall (required : N) | EInvalidStructure.

(** ScionScmpPacket::new(src, dst, DpPath::Empty, msg).try_encode(target_buf) where
    target_buf is a pool buffer of PACKET_BUF_SIZE bytes; result: the first n bytes of the
    buffer (target_buf.truncate(n)) *)
Definition encode_scmp_reply (src dst : ipaddr) (code pointer : N) (offending : bytes)
  : outcome bytes encode_error :=
  let hs := reply_header_size src dst in
  (* wire_valid: header size a multiple of 4 and at most 1020; address/path/payload are valid *)
  if negb (hs mod 4 =? 0) then Err EInvalidStructure else
  if ScionHeader_MAX_SIZE_BYTES <? hs then Err EInvalidStructure else
  let payload_size := pp_payload_size (blen offending) hs in
  let required := hs + payload_size in
  if PACKET_BUF_SIZE <? required then Err (EBufferTooSmall required) else
  match encode_reply_header src dst payload_size with
  | Panic s => Panic s | Err _ => Panic P_VIEW_ERR
  | Ok h =>
    match encode_param_problem src dst code pointer offending hs with
    | Panic s => Panic s | Err _ => Panic P_VIEW_ERR
    | Ok p => Ok (h ++ p)
    end
  end.

(** * gateway.rs *)

(** create_inbound_scmp_error: (code, pointer, offending packet) *)
Definition inbound_scmp_error (e : perr) : res (N * N * bytes) :=
  match e with
  | MalformedPacket datagram _ => Ok (PP_CODE_MALFORMED, 0, datagram)
  | InvalidSourceAddress view =>
    (* offending_packet_view.header().src_host_addr_range().containing_byte_range().start as u16 *)
    hdr <- pkt_header view ;;
    s <- hv_src_addr_type hdr ;; d <- hv_dst_addr_type hdr ;;
    Ok (PP_CODE_INVALID_SOURCE, trunc 16 (byte_lo (src_host_rng (hat_size s) (hat_size d))), view)
  | InvalidPathType view _ =>
    _ <- pkt_header view ;;
    Ok (PP_CODE_INVALID_PATH_TYPE, trunc 16 (byte_lo CommonHeader_PATH_TYPE_RNG), view)
  end.

(** PacketPolicyError::offending_is_scmp_error: the rejected datagram is itself an SCMP error
    message (next header SCMP and first payload byte -- the SCMP type -- below the limit).
    [Gen.Ingress.SCMP_ERROR_SUPPRESS_BELOW] is 0 when the source has no such test. *)
Definition offending_is_scmp_error (e : perr) : res bool :=
  match e with
  | MalformedPacket _ _ => Ok false
  | InvalidPathType view _ | InvalidSourceAddress view =>
    hdr <- pkt_header view ;;
    nh <- hv_next_header hdr ;;
    if negb (nh =? PROTO_SCMP) then Ok false else
    p <- pkt_payload view ;;
    Ok (match p with [] => false | scmp_type :: _ => scmp_type <? SCMP_ERROR_SUPPRESS_BELOW end)
  end.

(** which arm of [match inbound_datagram_check(..)] is taken and what it produces *)
Inductive decision :=
| DDispatch (view : bytes)          (* Ok(view) *)
| DSuppress                         (* Err(e) if e.offending_is_scmp_error(): logged only *)
| DReply (scmp : bytes)             (* Err(e): create_scmp_error succeeded *)
| DEncodeError (e : encode_error).  (* Err(e): "Failed to create SCMP error packet" logged *)

(** the [HandleIncomingPacketResult::Forwarded] arm: [local] is the gateway socket's local IP,
    [from] the tunnel peer's IP *)
Definition gateway_decision (local : ipaddr) (datagram : bytes) (from : ipaddr) : outcome decision unit :=
  match inbound_datagram_check datagram from with
  | Panic s => Panic s
  | Ok view => Ok (DDispatch view)
  | Err e =>
    match offending_is_scmp_error e with
    | Panic s => Panic s | Err _ => Panic P_VIEW_ERR
    | Ok true => Ok DSuppress
    | Ok false =>
      match inbound_scmp_error e with
      | Panic s => Panic s | Err _ => Panic P_VIEW_ERR
      | Ok (code, pointer, offending) =>
        (* create_scmp_error(e, local_addr, ScionAddr::new(WILDCARD, from.ip().into()), buf) *)
        match encode_scmp_reply local from code pointer offending with
        | Panic s => Panic s
        | Ok b => Ok (DReply b)
        | Err ee => Ok (DEncodeError ee)
        end
      end
    end
  end.

(** the externally visible effects of handling one inbound datagram, in order *)
Inductive effect :=
| Dispatched (view : bytes)    (* self.dispatcher.try_dispatch(view) *)
| Sent (scmp : bytes).         (* snaptun_srv.handle_outgoing_packet(target_buf, from): back into the tunnel *)

Definition decision_effects (x : decision) : list effect :=
  match x with
  | DDispatch v => [Dispatched v]
  | DReply b => [Sent b]
  | DSuppress | DEncodeError _ => []
  end.

Definition gateway_inbound (local : ipaddr) (datagram : bytes) (from : ipaddr) : outcome (list effect) unit :=
  x <- gateway_decision local datagram from ;; Ok (decision_effects x).
