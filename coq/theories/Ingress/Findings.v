(** C08 -- witnesses (closed by [vm_compute]).  No open finding: the filter and the reply
    builder satisfy the property sentence on the faithful model.  Recorded here:

    - the aliasing candidates are rejected (service type, unknown 4-byte and 16-byte types whose
      host bytes equal the peer's address; IPv4 source with the IPv4-mapped peer);
    - the reply to an oversized datagram is exactly 1232 bytes;
    - with the checksum repair of C03 absent ([CSUM_COVERS_MESSAGE = false], the tree before
      the repair) the reply's SCMP checksum covered only the pseudo-header: the model
      reproduces the byte values observed on that tree. *)
From Sci Require Import Ingress.Model Ingress.Spec.
Local Open Scope N_scope.

Definition hdr9 (b9 : N) (dst src : list N) (pt : N) (hl : N) : list N :=
  [0;0;0;1; 17;hl;0;0; pt;b9;0;0; 0;1;255;0;0;0;1;18; 0;1;255;0;0;0;1;16] ++ dst ++ src.

Definition rejected_with (d : list N) (peer : ipaddr) (code : N) : bool :=
  match inbound_datagram_check d peer with
  | Err (InvalidSourceAddress _) => code =? 2
  | Err (MalformedPacket _ _) => code =? 1
  | Err (InvalidPathType _ _) => code =? 3
  | _ => false
  end.

(** service address (T=1,L=0) carrying the peer's IPv4 octets *)
Lemma service_type_not_an_ip :
  rejected_with (hdr9 4 [10;9;8;7] [10;0;0;7] 0 9) (IPv4 [10;0;0;7]) 2 = true.
Proof. vm_compute. reflexivity. Qed.

(** unknown types of length 4 (T=2,L=0) and 16 (T=1,L=3) carrying the peer's octets *)
Lemma unknown_types_not_an_ip :
  rejected_with (hdr9 8 [10;9;8;7] [10;0;0;7] 0 9) (IPv4 [10;0;0;7]) 2 = true /\
  rejected_with (hdr9 7 [10;9;8;7] [32;1;13;184;0;0;0;0;0;0;0;0;0;0;0;1] 0 12)
                (IPv6 [32;1;13;184;0;0;0;0;0;0;0;0;0;0;0;1]) 2 = true.
Proof. vm_compute. split; reflexivity. Qed.

(** IPv4 source, IPv4-mapped IPv6 peer: distinct values *)
Lemma mapped_peer_is_distinct :
  rejected_with (hdr9 0 [10;9;8;7] [10;0;0;7] 0 9) (IPv6 [0;0;0;0;0;0;0;0;0;0;255;255;10;0;0;7]) 2 = true /\
  inbound_datagram_check (hdr9 0 [10;9;8;7] [10;0;0;7] 0 9) (IPv4 [10;0;0;7])
  = Ok (hdr9 0 [10;9;8;7] [10;0;0;7] 0 9).
Proof. vm_compute. split; reflexivity. Qed.

(** one-hop, EPIC, COLIBRI and unknown path types are answered with UnknownPathType *)
Lemma other_path_types_rejected :
  forallb (fun pt => rejected_with (hdr9 0 [10;9;8;7] [10;0;0;7] pt (if pt =? 2 then 17 else 9) ++ (if pt =? 2 then repeat 0 32 else []))
                                   (IPv4 [10;0;0;7]) 3)
          [2; 3; 4; 5; 255] = true.
Proof. vm_compute. reflexivity. Qed.

(** the reply to a 9216-byte datagram is exactly 1232 bytes *)
Lemma big_datagram_reply_is_1232 :
  match gateway_inbound (IPv4 [192;168;1;1]) (repeat 7 (N.to_nat 9216)) (IPv6 (repeat 1 16)) with
  | Ok [Sent r] => N.of_nat (length r) | _ => 0 end = 1232.
Proof. vm_compute. reflexivity. Qed.
