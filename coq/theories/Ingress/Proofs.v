(** C08 -- lemmas.  The property theorems themselves are in Props.v. *)
From Coq Require Import Lia ZifyBool ZifyNat ZifyN.
From Sci Require Import Common.ListAux Ingress.Model Ingress.Spec.
Ltac Zify.zify_post_hook ::= Z.div_mod_to_equations.
Arguments N.add : simpl never. Arguments N.sub : simpl never. Arguments N.mul : simpl never. Arguments N.div : simpl never. Arguments N.modulo : simpl never. Arguments N.eqb : simpl never. Arguments N.ltb : simpl never. Arguments N.leb : simpl never. Arguments N.min : simpl never. Arguments N.pow : simpl never. Arguments N.shiftr : simpl never. Arguments N.shiftl : simpl never. Arguments N.land : simpl never. Arguments N.of_nat : simpl never. Arguments N.to_nat : simpl never.
Local Open Scope N_scope.

(** * Lists, [sub], [byte] *)

Lemma len_blen (b : list N) : len b = blen b.
Proof. reflexivity. Qed.

Lemma nth_firstn_lt {A} (l : list A) n i d : (i < n)%nat -> nth i (firstn n l) d = nth i l d.
Proof.
  revert n i; induction l as [|a l IH]; intros n i H.
  - rewrite firstn_nil. reflexivity.
  - destruct n as [|n]; [lia|]. destruct i as [|i]; cbn; [reflexivity|]. apply IH. lia.
Qed.

Lemma nth_skipn {A} (l : list A) k i d : nth i (skipn k l) d = nth (k + i) l d.
Proof.
  revert l; induction k as [|k IH]; intros l; [reflexivity|].
  destruct l as [|a l]; cbn [skipn]; [destruct i; reflexivity|]. apply IH.
Qed.

Lemma length_sub b lo hi :
  length (sub b lo hi) = Nat.min (N.to_nat (hi - lo)) (length b - N.to_nat lo).
Proof. unfold sub. rewrite firstn_length, skipn_length. reflexivity. Qed.

Lemma blen_sub b lo hi : lo <= hi -> hi <= blen b -> blen (sub b lo hi) = hi - lo.
Proof. unfold blen. rewrite length_sub. lia. Qed.

Lemma byte_sub b lo hi j : lo + j < hi -> byte (sub b lo hi) j = byte b (lo + j).
Proof.
  intros H. unfold byte, sub. rewrite nth_firstn_lt by lia. rewrite nth_skipn.
  f_equal. lia.
Qed.

Lemma sub_sub b n lo hi : hi <= n -> sub (sub b 0 n) lo hi = sub b lo hi.
Proof.
  intros H. unfold sub. cbn [N.to_nat skipn]. rewrite N.sub_0_r.
  rewrite skipn_firstn_comm, firstn_firstn. f_equal. lia.
Qed.

Lemma sub_sub_gen b a n lo hi : hi <= n - a -> sub (sub b a n) lo hi = sub b (a + lo) (a + hi).
Proof.
  intros H. unfold sub. rewrite skipn_firstn_comm, firstn_firstn.
  rewrite ListAux.skipn_skipn. f_equal; [lia|]. f_equal. lia.
Qed.

Lemma sub_full b : sub b 0 (blen b) = b.
Proof. unfold sub, blen. cbn [N.to_nat skipn]. rewrite N.sub_0_r, Nat2N.id. apply firstn_all. Qed.

Lemma octets_sub b off n : octets b off n = sub b off (off + n).
Proof. unfold octets, sub. f_equal. lia. Qed.

Lemma firstn_S_nth {A} (l : list A) d : (0 < length l)%nat -> firstn 1 l = [nth 0 l d].
Proof. destruct l; cbn; [lia|reflexivity]. Qed.

Lemma sub_single b i : i < blen b -> sub b i (i + 1) = [byte b i].
Proof.
  intros H. unfold sub, byte. replace (N.to_nat (i + 1 - i)) with 1%nat by lia.
  rewrite (firstn_S_nth _ 0) by (rewrite skipn_length; unfold blen in H; lia).
  rewrite nth_skipn. do 2 f_equal. lia.
Qed.

Lemma firstn_add {A} (l : list A) n m : firstn (n + m) l = firstn n l ++ firstn m (skipn n l).
Proof.
  revert l; induction n as [|n IH]; intros l; [reflexivity|].
  destruct l as [|a l]; cbn [Nat.add firstn skipn app]; [rewrite firstn_nil; reflexivity|].
  f_equal. apply IH.
Qed.

Lemma sub_split b lo mid hi : lo <= mid -> mid <= hi -> sub b lo hi = sub b lo mid ++ sub b mid hi.
Proof.
  intros H1 H2. unfold sub.
  replace (N.to_nat (hi - lo)) with (N.to_nat (mid - lo) + N.to_nat (hi - mid))%nat by lia.
  rewrite firstn_add. f_equal. rewrite ListAux.skipn_skipn. do 2 f_equal. lia.
Qed.

Lemma sub_two b i : i + 1 < blen b -> sub b i (i + 2) = [byte b i; byte b (i + 1)].
Proof.
  intros H. rewrite (sub_split b i (i + 1) (i + 2)) by lia.
  rewrite sub_single by lia. replace (i + 2) with (i + 1 + 1) by lia.
  rewrite sub_single by lia. reflexivity.
Qed.

Lemma bytes_ok_byte b i : bytes_ok b = true -> byte b i < 256.
Proof.
  intros H. unfold byte. unfold bytes_ok in H. rewrite forallb_forall in H.
  destruct (Nat.lt_ge_cases (N.to_nat i) (length b)) as [L|L].
  - specialize (H _ (nth_In b 0 L)). unfold byte_ok in H. lia.
  - rewrite nth_overflow by lia. lia.
Qed.

Lemma In_firstn {A} (l : list A) n x : In x (firstn n l) -> In x l.
Proof.
  revert l; induction n as [|n IH]; intros l H; [destruct H|].
  destruct l; cbn in H; [destruct H|]. destruct H as [H|H]; [left; exact H|right; apply IH, H].
Qed.
Lemma bytes_ok_firstn b n : bytes_ok b = true -> bytes_ok (firstn n b) = true.
Proof.
  unfold bytes_ok. rewrite !forallb_forall. intros H x Hx. apply H. eapply In_firstn; eauto.
Qed.
Lemma In_skipn {A} (l : list A) n x : In x (skipn n l) -> In x l.
Proof.
  revert l; induction n as [|n IH]; intros l H; [exact H|].
  destruct l; cbn in H; [destruct H|]. right. apply IH. exact H.
Qed.
Lemma bytes_ok_skipn b n : bytes_ok b = true -> bytes_ok (skipn n b) = true.
Proof.
  unfold bytes_ok. rewrite !forallb_forall. intros H x Hx. apply H. eapply In_skipn; eauto.
Qed.
Lemma bytes_ok_sub b lo hi : bytes_ok b = true -> bytes_ok (sub b lo hi) = true.
Proof. intros H. unfold sub. apply bytes_ok_firstn, bytes_ok_skipn, H. Qed.
Lemma bytes_ok_app a b : bytes_ok (a ++ b) = bytes_ok a && bytes_ok b.
Proof. unfold bytes_ok. apply forallb_app. Qed.

(** * [lane_read] on fields inside one or two bytes *)

Lemma lane_read_1 v i off w :
  off + w <= 8 -> 1 <= w -> i < blen v ->
  lane_read v (8 * i + off, w) = (byte v i / 2 ^ (8 - off - w)) mod 2 ^ w.
Proof.
  intros H1 H2 H3. unfold lane_read, byte_lo, byte_hi, r_end, r_start, r_width. cbn [fst snd].
  replace ((8 * i + off) / 8) with i by lia.
  replace ((8 * i + off + w + 7) / 8) with (i + 1) by lia.
  rewrite sub_single by exact H3. cbn [be_val]. rewrite N.mul_0_l, N.add_0_l.
  rewrite N.shiftr_div_pow2, N.land_ones. do 3 f_equal. lia.
Qed.

Lemma lane_read_2 v i off w :
  off < 8 -> 8 < off + w -> off + w <= 16 -> i + 1 < blen v ->
  lane_read v (8 * i + off, w) = ((byte v i * 256 + byte v (i + 1)) / 2 ^ (16 - off - w)) mod 2 ^ w.
Proof.
  intros H0 H1 H2 H3. unfold lane_read, byte_lo, byte_hi, r_end, r_start, r_width. cbn [fst snd].
  replace ((8 * i + off) / 8) with i by lia.
  replace ((8 * i + off + w + 7) / 8) with (i + 2) by lia.
  rewrite sub_two by exact H3. cbn [be_val]. rewrite N.mul_0_l, N.add_0_l.
  rewrite N.shiftr_div_pow2, N.land_ones. do 3 f_equal. lia.
Qed.

(** * [rd] on fields inside one or two bytes *)

Lemma rd_1 v i off w bits :
  off + w <= 8 -> 1 <= w -> w <= bits -> i < blen v ->
  rd v (8 * i + off, w) bits = Ok ((byte v i / 2 ^ (8 - off - w)) mod 2 ^ w).
Proof.
  intros H1 H2 H3 H4. unfold rd.
  assert (Hlo : byte_lo (8 * i + off, w) = i) by (unfold byte_lo, r_start; cbn [fst]; lia).
  assert (Hhi : byte_hi (8 * i + off, w) = i + 1) by (unfold byte_hi, r_end; cbn [fst snd]; lia).
  unfold size_bytes. rewrite Hlo, Hhi. unfold LANE_BYTES.
  replace (i + 1 - i <=? 16) with true by lia. replace (i + 1 <=? blen v) with true by lia.
  cbn [negb]. rewrite lane_read_1 by assumption. unfold trunc. f_equal. apply N.mod_small.
  pose proof (N.pow_le_mono_r 2 w bits ltac:(lia) H3).
  pose proof (N.mod_upper_bound (byte v i / 2 ^ (8 - off - w)) (2 ^ w) ltac:(apply N.pow_nonzero; lia)).
  lia.
Qed.

Lemma rd_2 v i off w bits :
  off < 8 -> 8 < off + w -> off + w <= 16 -> w <= bits -> i + 1 < blen v ->
  rd v (8 * i + off, w) bits = Ok (((byte v i * 256 + byte v (i + 1)) / 2 ^ (16 - off - w)) mod 2 ^ w).
Proof.
  intros H0 H1 H2 H3 H4. unfold rd.
  assert (Hlo : byte_lo (8 * i + off, w) = i) by (unfold byte_lo, r_start; cbn [fst]; lia).
  assert (Hhi : byte_hi (8 * i + off, w) = i + 2) by (unfold byte_hi, r_end; cbn [fst snd]; lia).
  unfold size_bytes. rewrite Hlo, Hhi. unfold LANE_BYTES.
  replace (i + 2 - i <=? 16) with true by lia. replace (i + 2 <=? blen v) with true by lia.
  cbn [negb]. rewrite lane_read_2 by assumption. unfold trunc. f_equal. apply N.mod_small.
  pose proof (N.pow_le_mono_r 2 w bits ltac:(lia) H3).
  pose proof (N.mod_upper_bound ((byte v i * 256 + byte v (i + 1)) / 2 ^ (16 - off - w)) (2 ^ w)
                ltac:(apply N.pow_nonzero; lia)).
  lia.
Qed.

(** the same on a sub-slice, in terms of the bytes of the enclosing buffer *)
Lemma rd_sub_1 b lo hi i off w bits :
  lo <= hi -> hi <= blen b -> lo + i < hi -> off + w <= 8 -> 1 <= w -> w <= bits ->
  rd (sub b lo hi) (8 * i + off, w) bits = Ok ((byte b (lo + i) / 2 ^ (8 - off - w)) mod 2 ^ w).
Proof.
  intros. rewrite rd_1 by (try assumption; rewrite blen_sub by assumption; lia).
  rewrite byte_sub by assumption. reflexivity.
Qed.
Lemma rd_sub_2 b lo hi i off w bits :
  lo <= hi -> hi <= blen b -> lo + i + 1 < hi -> off < 8 -> 8 < off + w -> off + w <= 16 -> w <= bits ->
  rd (sub b lo hi) (8 * i + off, w) bits
  = Ok (((byte b (lo + i) * 256 + byte b (lo + i + 1)) / 2 ^ (16 - off - w)) mod 2 ^ w).
Proof.
  intros. rewrite rd_2 by (try assumption; rewrite blen_sub by assumption; lia).
  rewrite (byte_sub b lo hi i) by lia. rewrite (byte_sub b lo hi (i + 1)) by lia.
  replace (lo + (i + 1)) with (lo + i + 1) by lia. reflexivity.
Qed.

(** * Normal form of [header_layout] in terms of the datagram's bytes *)

Lemma addr_hdr_size_eq s d : addr_hdr_size s d = 16 + d + s.
Proof. unfold addr_hdr_size. change AddressHeader_FIXED_SIZE_BITS with 128. lia. Qed.


Definition nf_seg0 (b : bytes) (o : N) : N := ((byte b (o + 1) * 256 + byte b (o + 2)) / 16) mod 64.
Definition nf_seg1 (b : bytes) (o : N) : N := ((byte b (o + 2) * 256 + byte b (o + 3)) / 64) mod 64.
Definition nf_seg2 (b : bytes) (o : N) : N := byte b (o + 3) mod 64.

Definition f_sn (d : bytes) : N := byte d 9 mod 16.
Definition f_dn (d : bytes) : N := (byte d 9 / 16) mod 16.
Definition f_total (d : bytes) : N := (byte d 5 mod 256) * 4.
Definition f_pl (d : bytes) : N := (byte d 6 * 256 + byte d 7) mod 65536.
Definition f_pt (d : bytes) : N := byte d 8 mod 256.
Definition f_ae (d : bytes) : N := 28 + hat_size (f_dn d) + hat_size (f_sn d).
Definition f_path (d : bytes) : res path_layout :=
  if f_pt d =? 1 then
    if blen d - f_ae d <? 4 then Err (BufTooSmall AT_PATHMETA 4 (blen d - f_ae d))
    else Ok (PL_Std (nf_seg0 d (f_ae d)) (nf_seg1 d (f_ae d)) (nf_seg2 d (f_ae d)))
  else if f_pt d =? 2 then Ok PL_OneHop
  else if f_pt d =? 0 then Ok PL_Empty
  else if f_total d <? f_ae d then Err (BufTooSmall AT_PATH (f_ae d * 8) (f_total d * 8))
  else Ok (PL_Unknown (f_pt d) (f_ae d * 8) (f_total d * 8)).

Definition hl_nf (b : bytes) : res hdr_layout :=
  if blen b <? 12 then Err (BufTooSmall AT_COMMON 12 (blen b)) else
  if negb ((byte b 0 / 16) mod 16 =? 0) then Err (VOther E_VERSION) else
  if blen b <? f_ae b then Err (BufTooSmall AT_ADDR (f_ae b) (blen b)) else
  path <- f_path b ;;
  let calc := f_ae b + path_layout_size path in
  if blen b <? calc then Err (BufTooSmall AT_TOTAL calc (blen b)) else
  if negb (calc =? f_total b) then Err (VOther E_HDRLEN) else
  Ok (mkHL (hat_size (f_sn b)) (hat_size (f_dn b)) path (f_total b) (f_pl b)).

Ltac rd_cb_1 R i off w :=
  change R with (8 * i + off, w);
  rewrite (rd_sub_1 _ 0 12 i off w) by lia.

Lemma header_layout_nf b : header_layout b = hl_nf b.
Proof.
  unfold header_layout, hl_nf, split_off_checked, f_path.
  change CommonHeader_SIZE_BYTES with 12. change StdPathMeta_SIZE_BYTES with 4.
  change PT_SCION with 1. change PT_ONEHOP with 2. change PT_EMPTY with 0.
  destruct (blen b <? 12) eqn:E12.
  { replace (12 <=? blen b) with false by lia. reflexivity. }
  replace (12 <=? blen b) with true by lia.
  rd_cb_1 CommonHeader_VERSION_RNG 0 0 4. cbn [obind].
  change (2 ^ (8 - 0 - 4)) with 16. change (2 ^ 4) with 16. rewrite N.add_0_l.
  destruct (negb ((byte b 0 / 16) mod 16 =? 0)); [reflexivity|].
  rd_cb_1 CommonHeader_PATH_TYPE_RNG 8 0 8. cbn [obind].
  rd_cb_1 CommonHeader_SRC_ADDR_INFO_RNG 9 4 4. cbn [obind].
  rd_cb_1 CommonHeader_DST_ADDR_INFO_RNG 9 0 4. cbn [obind].
  rd_cb_1 CommonHeader_HEADER_LEN_RNG 5 0 8. cbn [obind].
  change CommonHeader_PAYLOAD_LEN_RNG with (8 * 6 + 0, 16).
  rewrite (rd_sub_2 _ 0 12 6 0 16) by lia. cbn [obind].
  rewrite !N.add_0_l.
  change (2 ^ (8 - 0 - 8)) with 1. change (2 ^ (8 - 4 - 4)) with 1. change (2 ^ (8 - 0 - 4)) with 16.
  change (2 ^ (16 - 0 - 16)) with 1. change (2 ^ 8) with 256. change (2 ^ 4) with 16. change (2 ^ 16) with 65536.
  rewrite !N.div_1_r. change (6 + 1) with 7.
  fold (f_sn b) (f_dn b) (f_pt b) (f_total b) (f_pl b). rewrite !addr_hdr_size_eq.
  replace (12 + (16 + hat_size (f_dn b) + hat_size (f_sn b))) with (f_ae b) by (unfold f_ae; lia).
  set (ae := f_ae b).
  destruct (blen b <? ae) eqn:Eae; [reflexivity|].
  destruct (f_pt b =? 1) eqn:Ept.
  - (* standard path *)
    unfold index_range. replace ((ae <=? blen b) && (blen b <=? blen b)) with true by lia.
    cbn [obind]. rewrite blen_sub by lia.
    destruct (blen b - ae <? 4) eqn:E4.
    + replace (4 <=? blen b - ae) with false by lia. reflexivity.
    + replace (4 <=? blen b - ae) with true by lia.
      rewrite (sub_sub_gen b ae (blen b) 0 4) by lia. rewrite N.add_0_r.
      change StdPathMeta_SEG0_LEN_RNG with (8 * 1 + 6, 6).
      rewrite (rd_sub_2 _ ae (ae + 4) 1 6 6) by lia. cbn [obind].
      change StdPathMeta_SEG1_LEN_RNG with (8 * 2 + 4, 6).
      rewrite (rd_sub_2 _ ae (ae + 4) 2 4 6) by lia. cbn [obind].
      change StdPathMeta_SEG2_LEN_RNG with (8 * 3 + 2, 6).
      rewrite (rd_sub_1 _ ae (ae + 4) 3 2 6) by lia. cbn [obind].
      change (2 ^ (16 - 6 - 6)) with 16. change (2 ^ (16 - 4 - 6)) with 64. change (2 ^ (8 - 2 - 6)) with 1.
      change (2 ^ 6) with 64. rewrite N.div_1_r.
      unfold nf_seg0, nf_seg1, nf_seg2.
      replace (ae + 1 + 1) with (ae + 2) by lia. replace (ae + 2 + 1) with (ae + 3) by lia.
      reflexivity.
  - reflexivity.
Qed.

(** * Address type/length nibbles *)

Lemma nib_cases (n : N) : n < 16 ->
  n = 0 \/ n = 1 \/ n = 2 \/ n = 3 \/ n = 4 \/ n = 5 \/ n = 6 \/ n = 7 \/
  n = 8 \/ n = 9 \/ n = 10 \/ n = 11 \/ n = 12 \/ n = 13 \/ n = 14 \/ n = 15.
Proof. lia. Qed.

Ltac nib_destruct n H :=
  let C := fresh in
  pose proof (nib_cases n H) as C;
  repeat (destruct C as [C|C]; [subst n|]); [..|subst n].

Lemma hat_size_spec n : n < 16 -> hat_size n = spec_host_len n.
Proof.
  intros H. pose proof (nib_cases n H) as C.
  repeat (destruct C as [C|C]; [rewrite C; vm_compute; reflexivity|]). rewrite C. vm_compute. reflexivity.
Qed.

Lemma hat_size_bounds n : n < 16 -> 4 <= hat_size n <= 16 /\ hat_size n mod 4 = 0.
Proof.
  intros H. rewrite hat_size_spec by exact H. unfold spec_host_len. lia.
Qed.


(** no address type/length other than IPv4 and IPv6 decodes to an IP address: for EVERY type
    number [n] (not only nibbles) and every raw host field *)
Definition decode_ip (n : N) (raw : bytes) : option ipaddr :=
  match host_addr_decode n raw with Some w => host_ip w | None => None end.

Lemma decode_ip_some n raw a :
  decode_ip n raw = Some a ->
  (n = HAT_IPV4 /\ blen raw = 4 /\ a = IPv4 raw) \/ (n = HAT_IPV6 /\ blen raw = 16 /\ a = IPv6 raw).
Proof.
  unfold decode_ip, host_addr_decode.
  destruct (n =? HAT_IPV4) eqn:E0.
  { destruct (blen raw =? 4) eqn:E; cbn [host_ip]; [|discriminate]. intros H. left.
    inversion H. repeat split; lia. }
  destruct (n =? HAT_IPV6) eqn:E3.
  { destruct (blen raw =? 16) eqn:E; cbn [host_ip]; [|discriminate]. intros H. right.
    inversion H. repeat split; lia. }
  destruct (n =? HAT_SERVICE).
  { destruct (blen raw =? 4); cbn [host_ip]; discriminate. }
  destruct (blen raw <=? 16); cbn [host_ip]; discriminate.
Qed.

Lemma decode_ip_v4 raw : blen raw = 4 -> decode_ip HAT_IPV4 raw = Some (IPv4 raw).
Proof. intros H. unfold decode_ip, host_addr_decode. rewrite N.eqb_refl, H. reflexivity. Qed.
Lemma decode_ip_v6 raw : blen raw = 16 -> decode_ip HAT_IPV6 raw = Some (IPv6 raw).
Proof. intros H. unfold decode_ip, host_addr_decode. change (HAT_IPV6 =? HAT_IPV4) with false. cbv iota. rewrite N.eqb_refl, H. reflexivity. Qed.

(** * Facts from a successful header layout *)

(** [hl_nf] succeeds exactly when these hold *)
Definition layout_ok (d : bytes) (p : path_layout) : Prop :=
  12 <= blen d /\ (byte d 0 / 16) mod 16 = 0 /\ f_ae d <= blen d /\
  f_path d = Ok p /\ f_ae d + path_layout_size p <= blen d /\ f_ae d + path_layout_size p = f_total d.

Lemma hl_nf_ok d l :
  hl_nf d = Ok l ->
  layout_ok d (hl_path l) /\ hl_src_len l = hat_size (f_sn d) /\ hl_dst_len l = hat_size (f_dn d) /\
  hl_header_len l = f_total d /\ hl_payload_len l = f_pl d.
Proof.
  unfold hl_nf, layout_ok.
  destruct (blen d <? 12) eqn:E1; [discriminate|].
  destruct (negb ((byte d 0 / 16) mod 16 =? 0)) eqn:E2; [discriminate|].
  destruct (blen d <? f_ae d) eqn:E3; [discriminate|].
  destruct (f_path d) as [p|e|s] eqn:Ep; cbn [obind]; [|discriminate|discriminate].
  destruct (blen d <? f_ae d + path_layout_size p) eqn:E4; [discriminate|].
  destruct (negb (f_ae d + path_layout_size p =? f_total d)) eqn:E5; [discriminate|].
  intros H. inversion H; subst l; clear H. cbn [hl_path hl_src_len hl_dst_len hl_header_len hl_payload_len].
  repeat split; lia.
Qed.

Lemma hl_nf_complete d p :
  layout_ok d p ->
  hl_nf d = Ok (mkHL (hat_size (f_sn d)) (hat_size (f_dn d)) p (f_total d) (f_pl d)).
Proof.
  unfold hl_nf, layout_ok.
  intros (H1 & H2 & H3 & H4 & H5 & H6). rewrite H4. cbn [obind].
  replace (blen d <? 12) with false by lia.
  replace (negb ((byte d 0 / 16) mod 16 =? 0)) with false by lia.
  replace (blen d <? f_ae d) with false by lia.
  replace (blen d <? f_ae d + path_layout_size p) with false by lia.
  replace (negb (f_ae d + path_layout_size p =? f_total d)) with false by lia.
  reflexivity.
Qed.

(** * Normal form of [inbound_datagram_check] *)

Definition f_view (d : bytes) : bytes := sub d 0 (N.min (f_total d + f_pl d) (blen d)).
Definition f_src_raw (d : bytes) : bytes :=
  sub d (28 + hat_size (f_dn d)) (f_ae d).

Definition check_nf (d : bytes) (ip : ipaddr) : pres bytes :=
  match hl_nf d with
  | Panic s => Panic s
  | Err e => Err (MalformedPacket d e)
  | Ok _ =>
    match decode_ip (f_sn d) (f_src_raw d) with
    | None => Err (InvalidSourceAddress (f_view d))
    | Some a =>
      if negb (ip_eqb a ip) then Err (InvalidSourceAddress (f_view d))
      else if path_type_accepted (f_pt d) then Ok (f_view d)
      else Err (InvalidPathType (f_view d) (f_pt d))
    end
  end.

Lemma path_layout_size_nonneg p : 0 <= path_layout_size p.
Proof. lia. Qed.

(* reads in the header view of an accepted layout *)
Section View.
Variables (d : bytes) (p : path_layout).
Hypothesis L : layout_ok d p.

Let n := N.min (f_total d + f_pl d) (blen d).

Lemma view_bounds : 12 <= f_ae d /\ f_ae d <= f_total d /\ f_total d <= n /\ n <= blen d.
Proof.
  destruct L as (H1 & H2 & H3 & H4 & H5 & H6). unfold n.
  assert (12 <= f_ae d) by (unfold f_ae; lia). lia.
Qed.

Lemma view_pkt_header : pkt_header (f_view d) = Ok (sub d 0 (f_total d)).
Proof.
  pose proof view_bounds as (B1 & B2 & B3 & B4). fold n in B3, B4.
  unfold pkt_header, hv_header_len, f_view. fold n.
  change CommonHeader_HEADER_LEN_RNG with (8 * 5 + 0, 8).
  rewrite (rd_sub_1 d 0 n 5 0 8) by lia. cbn [obind].
  change (2 ^ (8 - 0 - 8)) with 1. change (2 ^ 8) with 256. rewrite N.div_1_r, N.add_0_l.
  fold (f_total d). unfold get_unchecked. rewrite blen_sub by lia. rewrite N.sub_0_r.
  replace ((0 <=? f_total d) && (f_total d <=? n)) with true by lia.
  rewrite sub_sub by lia. reflexivity.
Qed.

Lemma hdr_src_type : hv_src_addr_type (sub d 0 (f_total d)) = Ok (f_sn d).
Proof.
  pose proof view_bounds as (B1 & B2 & B3 & B4). fold n in B3, B4.
  unfold hv_src_addr_type. change CommonHeader_SRC_ADDR_INFO_RNG with (8 * 9 + 4, 4).
  rewrite (rd_sub_1 d 0 (f_total d) 9 4 4) by lia.
  change (2 ^ (8 - 4 - 4)) with 1. change (2 ^ 4) with 16. rewrite N.div_1_r, N.add_0_l. reflexivity.
Qed.
Lemma hdr_dst_type : hv_dst_addr_type (sub d 0 (f_total d)) = Ok (f_dn d).
Proof.
  pose proof view_bounds as (B1 & B2 & B3 & B4). fold n in B3, B4.
  unfold hv_dst_addr_type. change CommonHeader_DST_ADDR_INFO_RNG with (8 * 9 + 0, 4).
  rewrite (rd_sub_1 d 0 (f_total d) 9 0 4) by lia.
  change (2 ^ (8 - 0 - 4)) with 16. change (2 ^ 4) with 16. rewrite N.add_0_l. reflexivity.
Qed.
Lemma hdr_path_type : hv_path_type (sub d 0 (f_total d)) = Ok (f_pt d).
Proof.
  pose proof view_bounds as (B1 & B2 & B3 & B4). fold n in B3, B4.
  unfold hv_path_type. change CommonHeader_PATH_TYPE_RNG with (8 * 8 + 0, 8).
  rewrite (rd_sub_1 d 0 (f_total d) 8 0 8) by lia.
  change (2 ^ (8 - 0 - 8)) with 1. change (2 ^ 8) with 256. rewrite N.div_1_r, N.add_0_l. reflexivity.
Qed.

Lemma src_host_rng_bytes s t :
  byte_lo (src_host_rng s t) = 28 + t /\ byte_hi (src_host_rng s t) = 28 + t + s.
Proof.
  unfold src_host_rng, rshift, rng_of_range, byte_lo, byte_hi, r_start, r_end. cbn [fst snd].
  change AddressHeader_FIXED_SIZE_BITS with 128. change CommonHeader_SIZE_BYTES with 12. lia.
Qed.

Lemma hdr_src_host :
  hv_src_host (sub d 0 (f_total d)) = Ok (host_addr_decode (f_sn d) (f_src_raw d)).
Proof.
  pose proof view_bounds as (B1 & B2 & B3 & B4). fold n in B3, B4.
  unfold hv_src_host, hv_src_host_raw. rewrite hdr_src_type, hdr_dst_type. cbn [obind].
  destruct (src_host_rng_bytes (hat_size (f_sn d)) (hat_size (f_dn d))) as [-> ->].
  unfold get_unchecked. rewrite blen_sub by lia. rewrite N.sub_0_r.
  assert (E : 28 + hat_size (f_dn d) + hat_size (f_sn d) = f_ae d) by reflexivity. rewrite E.
  replace ((28 + hat_size (f_dn d) <=? f_ae d) && (f_ae d <=? f_total d)) with true by (unfold f_ae; lia).
  cbn [obind fst snd]. rewrite sub_sub by lia. reflexivity.
Qed.
End View.

Lemma try_from_slice_raw d :
  try_from_slice KRaw d =
  match hl_nf d with
  | Ok l => Ok (f_view d, sub d (N.min (f_total d + f_pl d) (blen d)) (blen d))
  | Err e => Err e | Panic s => Panic s end.
Proof.
  unfold try_from_slice, required_size, required_size_raw. rewrite header_layout_nf.
  destruct (hl_nf d) as [l|e|s] eqn:E; cbn [obind]; try reflexivity.
  destruct (hl_nf_ok d l E) as (_ & _ & _ & Ht & Hp). rewrite Ht, Hp.
  replace (blen d <? N.min (f_total d + f_pl d) (blen d)) with false by lia. reflexivity.
Qed.

Lemma check_is_nf d ip : inbound_datagram_check d ip = check_nf d ip.
Proof.
  unfold inbound_datagram_check, check_nf. rewrite try_from_slice_raw.
  destruct (hl_nf d) as [l|e|s] eqn:E; try reflexivity.
  destruct (hl_nf_ok d l E) as (L & _).
  rewrite (view_pkt_header d _ L). cbn [lift obind].
  rewrite (hdr_src_host d _ L). cbn [lift obind]. fold (decode_ip (f_sn d) (f_src_raw d)).
  destruct (decode_ip (f_sn d) (f_src_raw d)) as [a|]; [|reflexivity].
  destruct (negb (ip_eqb a ip)); [reflexivity|].
  rewrite (hdr_path_type d _ L). cbn [lift obind]. reflexivity.
Qed.

(** * The model's fields are the specification's fields *)

Section SpecFields.
Variable d : bytes.
Hypothesis OK : bytes_ok d = true.

Lemma B (i : N) : byte d i < 256.
Proof. apply bytes_ok_byte, OK. Qed.

Lemma sf_version : (byte d 0 / 16) mod 16 = spec_version d.
Proof. unfold spec_version. pose proof (B 0). lia. Qed.
Lemma sf_pt : f_pt d = spec_path_type d.
Proof. unfold f_pt, spec_path_type. pose proof (B 8). lia. Qed.
Lemma sf_sn : f_sn d = spec_src_tl d.
Proof. reflexivity. Qed.
Lemma sf_dn : f_dn d = spec_dst_tl d.
Proof. unfold f_dn, spec_dst_tl. pose proof (B 9). lia. Qed.
Lemma sf_total : f_total d = spec_hdr_len d.
Proof. unfold f_total, spec_hdr_len. pose proof (B 5). lia. Qed.
Lemma sf_pl : f_pl d = spec_payload_len d.
Proof. unfold f_pl, spec_payload_len. pose proof (B 6). pose proof (B 7). lia. Qed.
Lemma sn_lt : f_sn d < 16.
Proof. unfold f_sn. lia. Qed.
Lemma dn_lt : f_dn d < 16.
Proof. unfold f_dn. lia. Qed.
Lemma sf_src_off : 28 + hat_size (f_dn d) = spec_src_off d.
Proof. unfold spec_src_off, spec_dst_off. rewrite (hat_size_spec _ dn_lt), sf_dn. reflexivity. Qed.
Lemma sf_ae : f_ae d = spec_path_off d.
Proof.
  unfold f_ae, spec_path_off. rewrite <- sf_src_off. rewrite (hat_size_spec _ sn_lt), sf_sn. reflexivity.
Qed.
Lemma sf_seg0 : nf_seg0 d (f_ae d) = spec_seg0 d.
Proof.
  unfold nf_seg0, spec_seg0, spec_meta. rewrite <- sf_ae. set (o := f_ae d).
  pose proof (B o). pose proof (B (o + 1)). pose proof (B (o + 2)). pose proof (B (o + 3)). lia.
Qed.
Lemma sf_seg1 : nf_seg1 d (f_ae d) = spec_seg1 d.
Proof.
  unfold nf_seg1, spec_seg1, spec_meta. rewrite <- sf_ae. set (o := f_ae d).
  pose proof (B o). pose proof (B (o + 1)). pose proof (B (o + 2)). pose proof (B (o + 3)). lia.
Qed.
Lemma sf_seg2 : nf_seg2 d (f_ae d) = spec_seg2 d.
Proof.
  unfold nf_seg2, spec_seg2, spec_meta. rewrite <- sf_ae. set (o := f_ae d).
  pose proof (B o). pose proof (B (o + 1)). pose proof (B (o + 2)). pose proof (B (o + 3)). lia.
Qed.
End SpecFields.

(** * Acceptance is the specification *)

Lemma path_type_accepted_iff pt : path_type_accepted pt = true <-> pt = 0 \/ pt = 1.
Proof.
  unfold path_type_accepted. change accepted_path_types with [1; 0]. cbn [existsb]. lia.
Qed.

Lemma std_size_spec s0 s1 s2 :
  path_layout_size (PL_Std s0 s1 s2) = 4 + 8 * (nonzero s0 + nonzero s1 + nonzero s2) + 12 * (s0 + s1 + s2).
Proof.
  unfold path_layout_size, std_data_size, info_field_count, hop_field_count, nz, nonzero.
  change StdPathMeta_SIZE_BYTES with 4. change InfoField_SIZE_BYTES with 8. change HopField_SIZE_BYTES with 12.
  destruct (0 <? s0) eqn:E0, (0 <? s1) eqn:E1, (0 <? s2) eqn:E2;
    destruct (s0 =? 0) eqn:F0, (s1 =? 0) eqn:F1, (s2 =? 0) eqn:F2; lia.
Qed.

Lemma parses_sound d l :
  bytes_ok d = true -> hl_nf d = Ok l -> path_type_accepted (f_pt d) = true -> spec_parses d = true.
Proof.
  intros OK E A. destruct (hl_nf_ok d l E) as ((H1 & H2 & H3 & H4 & H5 & H6) & _).
  apply path_type_accepted_iff in A. unfold spec_parses. rewrite len_blen.
  rewrite <- (sf_version d OK), <- (sf_pt d OK), <- (sf_total d OK), <- (sf_ae d OK).
  unfold f_path in H4. destruct A as [A|A]; rewrite A in *.
  - change (0 =? 1) with false in H4. change (0 =? 2) with false in H4. change (0 =? 0) with true in H4.
    cbv iota in H4. inversion H4 as [Hp]. rewrite <- Hp in *. cbn [path_layout_size] in *.
    change (0 =? 0) with true. cbv iota. lia.
  - change (1 =? 1) with true in H4. cbv iota in H4.
    destruct (blen d - f_ae d <? 4) eqn:E4; [discriminate|]. inversion H4 as [Hp]. rewrite <- Hp in *.
    rewrite std_size_spec in *. rewrite (sf_seg0 d OK), (sf_seg1 d OK), (sf_seg2 d OK) in *.
    change (1 =? 0) with false. change (1 =? 1) with true. cbv iota.
    unfold spec_scion_path_len. lia.
Qed.

Lemma parses_complete d :
  bytes_ok d = true -> spec_parses d = true ->
  (exists l, hl_nf d = Ok l) /\ path_type_accepted (f_pt d) = true.
Proof.
  intros OK S. unfold spec_parses in S. rewrite len_blen in S.
  rewrite <- (sf_version d OK), <- (sf_pt d OK), <- (sf_total d OK), <- (sf_ae d OK) in S.
  destruct (f_pt d =? 0) eqn:P0.
  - assert (P : f_pt d = 0) by lia. split; [|apply path_type_accepted_iff; lia].
    eexists. apply (hl_nf_complete d PL_Empty). unfold layout_ok, f_path. rewrite P.
    change (0 =? 1) with false. change (0 =? 2) with false. change (0 =? 0) with true. cbv iota.
    cbn [path_layout_size]. repeat split; lia.
  - destruct (f_pt d =? 1) eqn:P1; [|lia].
    assert (P : f_pt d = 1) by lia. split; [|apply path_type_accepted_iff; lia].
    eexists. apply (hl_nf_complete d (PL_Std (nf_seg0 d (f_ae d)) (nf_seg1 d (f_ae d)) (nf_seg2 d (f_ae d)))).
    unfold layout_ok, f_path. rewrite P. change (1 =? 1) with true. cbv iota.
    replace (blen d - f_ae d <? 4) with false by lia.
    rewrite std_size_spec. rewrite (sf_seg0 d OK), (sf_seg1 d OK), (sf_seg2 d OK).
    unfold spec_scion_path_len in S. repeat split; lia.
Qed.

Lemma src_ip_spec d :
  bytes_ok d = true -> f_ae d <= blen d -> decode_ip (f_sn d) (f_src_raw d) = spec_src_ip d.
Proof.
  intros OK H. unfold spec_src_ip, f_src_raw. change (spec_src_tl d) with (f_sn d). rewrite <- (sf_src_off d OK), !octets_sub.
  pose proof (sn_lt d) as Hs.
  assert (Hb : blen (sub d (28 + hat_size (f_dn d)) (f_ae d)) = hat_size (f_sn d))
    by (rewrite blen_sub by (unfold f_ae in *; lia); unfold f_ae; lia).
  destruct (f_sn d =? 0) eqn:E0.
  { assert (E : f_sn d = 0) by lia. rewrite E in *. change (hat_size 0) with 4 in *.
    change 0 with HAT_IPV4 at 1. rewrite decode_ip_v4 by exact Hb. unfold f_ae. rewrite E.
    change (hat_size 0) with 4. reflexivity. }
  destruct (f_sn d =? 3) eqn:E3.
  { assert (E : f_sn d = 3) by lia. rewrite E in *. change (hat_size 3) with 16 in *.
    change 3 with HAT_IPV6 at 1. rewrite decode_ip_v6 by exact Hb. unfold f_ae. rewrite E.
    change (hat_size 3) with 16. reflexivity. }
  destruct (decode_ip (f_sn d) (sub d (28 + hat_size (f_dn d)) (f_ae d))) as [a|] eqn:D; [|reflexivity].
  apply decode_ip_some in D. change HAT_IPV4 with 0 in D. change HAT_IPV6 with 3 in D. lia.
Qed.

Lemma spec_packet_view d : bytes_ok d = true -> f_view d = spec_packet d.
Proof.
  intros OK. unfold f_view, spec_packet, sub. rewrite (sf_total d OK), (sf_pl d OK). change (len d) with (blen d).
  cbn [skipn N.to_nat]. rewrite N.sub_0_r. reflexivity.
Qed.

(** Accept <-> SpecAccept, and what is accepted is the packet itself *)
Lemma check_iff_spec_lemma d ip :
  bytes_ok d = true ->
  (inbound_datagram_check d ip = Ok (spec_packet d) <-> SpecAccept d ip) /\
  (forall v, inbound_datagram_check d ip = Ok v -> v = spec_packet d).
Proof.
  intros OK. rewrite check_is_nf. unfold SpecAccept, spec_accept, check_nf.
  rewrite <- (spec_packet_view d OK).
  destruct (hl_nf d) as [l|e|s] eqn:E.
  - destruct (hl_nf_ok d l E) as ((H1 & H2 & H3 & _) & _).
    rewrite <- (src_ip_spec d OK H3).
    destruct (decode_ip (f_sn d) (f_src_raw d)) as [a|].
    + destruct (ip_eqb a ip); cbn [negb].
      * destruct (path_type_accepted (f_pt d)) eqn:A.
        -- rewrite (parses_sound d l OK E A). cbn [andb]. split; [split; reflexivity|]. intros v Hv. inversion Hv. reflexivity.
        -- split; [split; [discriminate|]|discriminate].
           intros S. apply andb_prop in S. destruct S as [S _].
           destruct (parses_complete d OK S) as (_ & A'). congruence.
      * rewrite andb_false_r. split; [split; discriminate|discriminate].
    + rewrite andb_false_r. split; [split; discriminate|discriminate].
  - split; [split; [discriminate|]|discriminate].
    intros S. apply andb_prop in S. destruct S as [S _].
    destruct (parses_complete d OK S) as ((l & El) & _). congruence.
  - split; [split; [discriminate|]|discriminate].
    intros S. apply andb_prop in S. destruct S as [S _].
    destruct (parses_complete d OK S) as ((l & El) & _). congruence.
Qed.

(** * Writes: success, length, byte-ness *)

Lemma be_bytes_length n v : length (be_bytes n v) = n.
Proof. revert v; induction n as [|n IH]; intros v; cbn [be_bytes]; [reflexivity|]. rewrite app_length, IH. cbn. lia. Qed.

Lemma be_bytes_ok n v : bytes_ok (be_bytes n v) = true.
Proof.
  revert v; induction n as [|n IH]; intros v; cbn [be_bytes]; [reflexivity|].
  rewrite bytes_ok_app, IH. cbn [bytes_ok forallb andb]. unfold byte_ok. lia.
Qed.

Lemma byte_lo_le_hi r : byte_lo r <= byte_hi r.
Proof. unfold byte_lo, byte_hi, r_end, r_start. lia. Qed.

Lemma blen_lane_write v r x : byte_hi r <= blen v -> blen (lane_write v r x) = blen v.
Proof.
  intros H. pose proof (byte_lo_le_hi r). unfold lane_write, blen in *.
  rewrite !app_length, be_bytes_length, firstn_length, skipn_length. lia.
Qed.

Lemma bytes_ok_lane_write v r x : bytes_ok v = true -> bytes_ok (lane_write v r x) = true.
Proof.
  intros H. unfold lane_write. rewrite !bytes_ok_app, be_bytes_ok, bytes_ok_firstn, bytes_ok_skipn by exact H.
  reflexivity.
Qed.

Lemma wr_ok v r x :
  (size_bytes r <=? LANE_BYTES) = true -> byte_hi r <= blen v -> wr v r x = Ok (lane_write v r x).
Proof. intros H1 H2. unfold wr. rewrite H1. replace (byte_hi r <=? blen v) with true by lia. reflexivity. Qed.

Lemma wr_inv v r x v' : wr v r x = Ok v' -> blen v' = blen v /\ (bytes_ok v = true -> bytes_ok v' = true).
Proof.
  unfold wr. destruct (negb (size_bytes r <=? LANE_BYTES)); [discriminate|].
  destruct (negb (byte_hi r <=? blen v)) eqn:E; [discriminate|]. intros H. inversion H; subst v'.
  split; [apply blen_lane_write; lia|apply bytes_ok_lane_write].
Qed.

Lemma wr_no_err v r x e : wr v r x <> Err e.
Proof. unfold wr. destruct (negb _); [discriminate|]. destruct (negb _); discriminate. Qed.

(** every range fits the lane and ends within the first [n] bytes *)
Definition writes_within (n : N) (ws : list (rng * N)) : bool :=
  forallb (fun w => (size_bytes (fst w) <=? LANE_BYTES) && (byte_hi (fst w) <=? n)) ws.

Lemma wr_all_ok ws : forall v n,
  writes_within n ws = true -> n <= blen v ->
  exists v', wr_all v ws = Ok v' /\ blen v' = blen v /\ (bytes_ok v = true -> bytes_ok v' = true).
Proof.
  induction ws as [|[r x] t IH]; intros v n W H; cbn [wr_all].
  - exists v. auto.
  - cbn [writes_within forallb fst] in W. apply andb_prop in W. destruct W as [W1 W2].
    apply andb_prop in W1. destruct W1 as [W1a W1b].
    rewrite wr_ok by (try exact W1a; lia). cbn [obind].
    destruct (IH (lane_write v r x) n W2) as (v' & E & L & K).
    { rewrite blen_lane_write by lia. exact H. }
    exists v'. split; [exact E|]. split.
    + rewrite L. apply blen_lane_write. lia.
    + intros Hv. apply K, bytes_ok_lane_write, Hv.
Qed.

Lemma wr_all_inv ws : forall v v',
  wr_all v ws = Ok v' -> blen v' = blen v /\ (bytes_ok v = true -> bytes_ok v' = true).
Proof.
  induction ws as [|[r x] t IH]; intros v v' H; cbn [wr_all] in H.
  - inversion H. auto.
  - destruct (wr v r x) as [v1| |] eqn:E; cbn [obind] in H; try discriminate.
    destruct (wr_inv _ _ _ _ E) as [L1 K1]. destruct (IH _ _ H) as [L2 K2].
    split; [congruence|auto].
Qed.

Lemma wr_all_no_err ws : forall v e, wr_all v ws <> Err e.
Proof.
  induction ws as [|[r x] t IH]; intros v e; cbn [wr_all]; [discriminate|].
  destruct (wr v r x) as [v1|e1|s1] eqn:E; cbn [obind]; [apply IH| |discriminate].
  exfalso. exact (wr_no_err _ _ _ _ E).
Qed.

Lemma blen_zeros n : blen (zeros n) = n.
Proof. unfold blen, zeros. rewrite repeat_length. lia. Qed.
Lemma bytes_ok_zeros n : bytes_ok (zeros n) = true.
Proof. unfold zeros, bytes_ok. apply forallb_forall. intros x Hx. apply repeat_spec in Hx. subst. reflexivity. Qed.

Lemma copy_into_inv b lo data b' :
  copy_into b lo data = Ok b' ->
  blen b' = blen b /\ (bytes_ok b = true -> bytes_ok data = true -> bytes_ok b' = true).
Proof.
  unfold copy_into. destruct (lo + blen data <=? blen b) eqn:E; [|discriminate].
  intros H. inversion H; subst b'. split.
  - unfold blen in *. rewrite !app_length, firstn_length, skipn_length. lia.
  - intros H1 H2. rewrite !bytes_ok_app, H2, bytes_ok_firstn, bytes_ok_skipn by exact H1. reflexivity.
Qed.
Lemma copy_into_ok b lo data : lo + blen data <= blen b -> exists b', copy_into b lo data = Ok b'.
Proof. intros H. unfold copy_into. replace (lo + blen data <=? blen b) with true by lia. eauto. Qed.
Lemma copy_into_no_err b lo data e : copy_into b lo data <> Err e.
Proof. unfold copy_into. destruct (_ <=? _); discriminate. Qed.

(** * Sizes of the reply *)

Lemma ip_size_cases a : ip_size a = 4 \/ ip_size a = 16.
Proof. destruct a; [left|right]; reflexivity. Qed.

Lemma reply_header_size_eq s d : reply_header_size s d = 28 + ip_size s + ip_size d.
Proof. unfold reply_header_size. rewrite addr_hdr_size_eq. change CommonHeader_SIZE_BYTES with 12. lia. Qed.

Lemma reply_header_size_bounds s d :
  36 <= reply_header_size s d <= 60 /\ reply_header_size s d mod 4 = 0.
Proof.
  rewrite reply_header_size_eq. destruct (ip_size_cases s) as [-> | ->], (ip_size_cases d) as [-> | ->]; lia.
Qed.

Lemma pp_payload_size_bounds n hs :
  hs <= 60 -> 8 <= pp_payload_size n hs /\ hs + pp_payload_size n hs <= 1232 /\
  pp_payload_size n hs - 8 <= n.
Proof.
  intros H. unfold pp_payload_size. change SCMP_ERROR_MAX_PACKET_SIZE with 1232.
  change ScmpParameterProblem_HEADER_SIZE_BYTES with 8. lia.
Qed.

Lemma encode_reply_header_len s d ps h :
  encode_reply_header s d ps = Ok h -> blen h = reply_header_size s d.
Proof.
  unfold encode_reply_header. intros H.
  destruct (wr_all _ (common_header_writes _ _ _ _ _)) as [b1| |] eqn:E1; cbn [obind] in H; try discriminate.
  destruct (wr_all b1 _) as [b2| |] eqn:E2; cbn [obind] in H; try discriminate.
  destruct (copy_into b2 _ _) as [b3| |] eqn:E3; cbn [obind] in H; try discriminate.
  apply wr_all_inv in E1. apply wr_all_inv in E2. apply copy_into_inv in E3. apply copy_into_inv in H.
  rewrite blen_zeros in E1. destruct E1, E2, E3, H. congruence.
Qed.

Lemma encode_param_problem_len s d c p off hs m :
  encode_param_problem s d c p off hs = Ok m -> blen m = pp_payload_size (blen off) hs.
Proof.
  unfold encode_param_problem. intros H.
  destruct (wr_all _ _) as [b1| |] eqn:E1; cbn [obind] in H; try discriminate.
  destruct (index_range _ _ _) as [q| |] eqn:E2; cbn [obind] in H; try discriminate.
  destruct (copy_into b1 _ _) as [b3| |] eqn:E3; cbn [obind] in H; try discriminate.
  destruct (checksum _) as [ck| |] eqn:E4; cbn [obind] in H; try discriminate.
  apply wr_all_inv in E1. apply copy_into_inv in E3. apply wr_inv in H.
  rewrite blen_zeros in E1. destruct E1, E3, H. congruence.
Qed.

Lemma encode_scmp_reply_len s d c p off r :
  encode_scmp_reply s d c p off = Ok r -> blen r <= SCMP_ERROR_MAX_PACKET_SIZE.
Proof.
  unfold encode_scmp_reply. intros H.
  destruct (negb _); [discriminate|]. destruct (_ <? _); [discriminate|]. destruct (_ <? _); [discriminate|].
  destruct (encode_reply_header s d _) as [h| |] eqn:E1; try discriminate.
  destruct (encode_param_problem s d c p off _) as [m| |] eqn:E2; try discriminate.
  inversion H; subst r. apply encode_reply_header_len in E1. apply encode_param_problem_len in E2.
  pose proof (reply_header_size_bounds s d) as (B1 & B2).
  pose proof (pp_payload_size_bounds (blen off) (reply_header_size s d) ltac:(lia)) as (P1 & P2 & P3).
  change SCMP_ERROR_MAX_PACKET_SIZE with 1232. unfold blen in *. rewrite app_length. lia.
Qed.

(** every way [gateway_inbound] can succeed *)
Lemma gateway_inbound_inv local d from l :
  gateway_inbound local d from = Ok l ->
  (exists v, inbound_datagram_check d from = Ok v /\ l = [Dispatched v]) \/
  (exists e, inbound_datagram_check d from = Err e /\
     ((offending_is_scmp_error e = Ok true /\ l = []) \/
      (offending_is_scmp_error e = Ok false /\
       exists c p off, inbound_scmp_error e = Ok (c, p, off) /\
         ((exists r, encode_scmp_reply local from c p off = Ok r /\ l = [Sent r]) \/
          (exists ee, encode_scmp_reply local from c p off = Err ee /\ l = []))))).
Proof.
  unfold gateway_inbound, gateway_decision.
  destruct (inbound_datagram_check d from) as [v|e|s]; cbn [obind]; try discriminate.
  - intros H. inversion H. left. eauto.
  - intros H. right. exists e. split; [reflexivity|].
    destruct (offending_is_scmp_error e) as [[|]| |]; cbn [obind] in H; try discriminate.
    + inversion H. left. auto.
    + right. split; [reflexivity|].
      destruct (inbound_scmp_error e) as [[[c p] off]| |]; cbn [obind] in H; try discriminate.
      exists c, p, off. split; [reflexivity|].
      destruct (encode_scmp_reply local from c p off) as [b| |]; cbn [obind] in H; try discriminate;
        inversion H; eauto.
Qed.

Lemma reply_fits_lemma local d from l r :
  gateway_inbound local d from = Ok l -> In (Sent r) l -> blen r <= SCMP_ERROR_MAX_PACKET_SIZE.
Proof.
  intros H Hin.
  destruct (gateway_inbound_inv _ _ _ _ H) as [(v & _ & ->)|(e & _ & [(_ & ->)|(_ & c & p & off & _ & [(b & E & ->)|(ee & _ & ->)])])].
  - destruct Hin as [Hin|[]]. discriminate.
  - destruct Hin.
  - destruct Hin as [Hin|[]]. inversion Hin; subst b. eapply encode_scmp_reply_len; eauto.
  - destruct Hin.
Qed.

(** * No panic *)

Lemma hl_nf_no_panic d s : hl_nf d <> Panic s.
Proof.
  unfold hl_nf, f_path.
  repeat match goal with |- context [if ?c then _ else _] => destruct c end; cbn [obind];
  repeat match goal with |- context [if ?c then _ else _] => destruct c end; discriminate.
Qed.

Lemma check_nf_no_panic d ip s : check_nf d ip <> Panic s.
Proof.
  unfold check_nf. destruct (hl_nf d) eqn:E; try discriminate.
  - destruct (decode_ip _ _); [|discriminate]. destruct (negb _); [discriminate|].
    destruct (path_type_accepted _); discriminate.
  - exfalso. exact (hl_nf_no_panic _ _ E).
Qed.

(** the error of a rejected datagram carries the datagram or the view, and the SCMP error
    parameters are computed without panic *)
Lemma scmp_error_of_check d ip e :
  check_nf d ip = Err e ->
  exists code ptr off, inbound_scmp_error e = Ok (code, ptr, off) /\ (off = d \/ off = f_view d).
Proof.
  unfold check_nf. destruct (hl_nf d) as [l|e0|s] eqn:E; try discriminate.
  - destruct (hl_nf_ok d l E) as (L & _).
    assert (S : inbound_scmp_error (InvalidSourceAddress (f_view d)) =
                Ok (PP_CODE_INVALID_SOURCE, trunc 16 (byte_lo (src_host_rng (hat_size (f_sn d)) (hat_size (f_dn d)))), f_view d)).
    { unfold inbound_scmp_error. rewrite (view_pkt_header d _ L). cbn [obind].
      rewrite (hdr_src_type d _ L), (hdr_dst_type d _ L). reflexivity. }
    destruct (decode_ip _ _) as [a|].
    + destruct (negb _).
      * intros H. inversion H; subst e. eauto 6.
      * destruct (path_type_accepted _); [discriminate|]. intros H. inversion H; subst e.
        unfold inbound_scmp_error. rewrite (view_pkt_header d _ L). cbn [obind]. eauto 6.
    + intros H. inversion H; subst e. eauto 6.
  - intros H. inversion H; subst e. cbn [inbound_scmp_error]. eauto 6.
Qed.

(** checksum arithmetic stays inside a u32 *)
Lemma fold_checksum_le c : fold_checksum c <= c.
Proof.
  unfold fold_checksum. change 65535 with (N.ones 16). rewrite !N.shiftr_div_pow2, !N.land_ones. change (2 ^ 16) with 65536. lia.
Qed.

Lemma be_words_sum_le : forall (n : nat) b, (length b <= n)%nat -> bytes_ok b = true -> be_words_sum b <= 65536 * blen b.
Proof.
  induction n as [|n IH]; intros b Hn OK.
  - destruct b; [cbn; lia|cbn in Hn; lia].
  - destruct b as [|a [|c r]].
    + cbn. lia.
    + cbn [be_words_sum]. unfold bytes_ok in OK. cbn [forallb] in OK. apply andb_prop in OK. destruct OK as [Oa _].
      unfold byte_ok, blen in *. cbn [length]. lia.
    + cbn [be_words_sum]. unfold bytes_ok in OK. cbn [forallb] in OK.
      apply andb_prop in OK. destruct OK as [Oa OK]. apply andb_prop in OK. destruct OK as [Oc OKr].
      specialize (IH r ltac:(cbn [length] in Hn; lia) OKr). unfold byte_ok, blen in *. cbn [length]. lia.
Qed.

Lemma add_slice_le acc b : bytes_ok b = true -> add_slice acc b <= acc + 65536 * blen b.
Proof.
  intros OK. unfold add_slice. destruct b as [|x t]; [lia|].
  pose proof (fold_checksum_le (be_words_sum (x :: t))).
  pose proof (be_words_sum_le _ (x :: t) (le_n _) OK). lia.
Qed.

Lemma with_pseudoheader_bound dh sh buf :
  bytes_ok dh = true -> bytes_ok sh = true -> bytes_ok buf = true ->
  blen dh <= 16 -> blen sh <= 16 -> blen buf <= 1232 ->
  with_pseudoheader IA_WILDCARD IA_WILDCARD dh sh PROTO_SCMP buf < 2 ^ 32.
Proof.
  intros O1 O2 O3 L1 L2 L3. unfold with_pseudoheader.
  change (add_u64 (add_u64 0 IA_WILDCARD) IA_WILDCARD) with 0.
  set (a1 := add_slice 0 dh). set (a2 := add_slice a1 sh).
  pose proof (add_slice_le 0 dh O1). pose proof (add_slice_le a1 sh O2). fold a1 in H. fold a2 in H0.
  assert (B3 : add_u32 (add_u32 a2 (trunc 32 (blen buf))) PROTO_SCMP <= a2 + 4 * 65535).
  { unfold add_u32. change 65535 with (N.ones 16). rewrite !N.land_ones, !N.shiftr_div_pow2. change (N.ones 16) with 65535. change (2 ^ 16) with 65536. lia. }
  set (a3 := add_u32 (add_u32 a2 (trunc 32 (blen buf))) PROTO_SCMP) in *.
  pose proof (add_slice_le a3 buf O3). change (2 ^ 32) with 4294967296.
  destruct CSUM_COVERS_MESSAGE; lia.
Qed.

Lemma ip_wf_octets a : ip_wf a = true -> blen (ip_octets a) = ip_size a /\ bytes_ok (ip_octets a) = true.
Proof.
  destruct a as [o|o]; cbn [ip_wf ip_octets ip_size]; intros H; apply andb_prop in H; destruct H as [H1 H2];
    (split; [unfold blen; change HAT_IPV4_SIZE with 4; change HAT_IPV6_SIZE with 16; lia|exact H2]).
Qed.

Lemma host_rng_bytes s t :
  byte_lo (dst_host_rng s t) = 28 /\ byte_lo (src_host_rng s t) = 28 + t.
Proof.
  unfold dst_host_rng, src_host_rng, rshift, rng_of_range, byte_lo, r_start. cbn [fst snd].
  change AddressHeader_FIXED_SIZE_BITS with 128. change CommonHeader_SIZE_BYTES with 12. lia.
Qed.

Lemma encode_reply_header_total s d ps :
  ip_wf s = true -> ip_wf d = true ->
  exists h, encode_reply_header s d ps = Ok h /\ bytes_ok h = true.
Proof.
  intros Ws Wd. destruct (ip_wf_octets s Ws) as [Ls Os]. destruct (ip_wf_octets d Wd) as [Ld Od].
  pose proof (reply_header_size_bounds s d) as (B1 & B2). pose proof (reply_header_size_eq s d) as Hs.
  unfold encode_reply_header.
  destruct (wr_all_ok (common_header_writes (trunc 8 (reply_header_size s d / 4)) PT_EMPTY (ip_nibble d) (ip_nibble s) (trunc 16 ps))
                      (zeros (reply_header_size s d)) 12) as (b1 & E1 & L1 & K1);
    [vm_compute; reflexivity|rewrite blen_zeros; lia|].
  rewrite E1. cbn [obind]. rewrite blen_zeros in L1.
  destruct (wr_all_ok (address_ia_writes IA_WILDCARD IA_WILDCARD) b1 28) as (b2 & E2 & L2 & K2);
    [vm_compute; reflexivity|lia|].
  rewrite E2. cbn [obind].
  destruct (host_rng_bytes (ip_size s) (ip_size d)) as [-> ->].
  destruct (copy_into_ok b2 28 (ip_octets d)) as (b3 & E3); [lia|]. rewrite E3. cbn [obind].
  destruct (copy_into_inv _ _ _ _ E3) as [L3 K3].
  destruct (copy_into_ok b3 (28 + ip_size d) (ip_octets s)) as (b4 & E4); [lia|]. rewrite E4.
  destruct (copy_into_inv _ _ _ _ E4) as [L4 K4].
  exists b4. split; [reflexivity|]. apply K4; [|exact Os]. apply K3; [|exact Od]. apply K2, K1, bytes_ok_zeros.
Qed.

Lemma encode_param_problem_total s d c p off hs :
  ip_wf s = true -> ip_wf d = true -> bytes_ok off = true -> hs <= 60 ->
  exists m, encode_param_problem s d c p off hs = Ok m.
Proof.
  intros Ws Wd Ooff Hhs. destruct (ip_wf_octets s Ws) as [Ls Os]. destruct (ip_wf_octets d Wd) as [Ld Od].
  pose proof (pp_payload_size_bounds (blen off) hs Hhs) as (P1 & P2 & P3).
  unfold encode_param_problem. set (ml := pp_payload_size (blen off) hs) in *.
  destruct (wr_all_ok (param_problem_writes c p) (zeros ml) 8) as (b1 & E1 & L1 & K1);
    [vm_compute; reflexivity|rewrite blen_zeros; lia|].
  rewrite E1. cbn [obind]. rewrite blen_zeros in L1.
  change ScmpParameterProblem_HEADER_SIZE_BYTES with 8.
  unfold index_range. replace ((0 <=? ml - 8) && (ml - 8 <=? blen off)) with true by lia. cbn [obind].
  assert (Lq : blen (sub off 0 (ml - 8)) = ml - 8) by (rewrite blen_sub by lia; lia).
  destruct (copy_into_ok b1 8 (sub off 0 (ml - 8))) as (b2 & E2); [lia|]. rewrite E2. cbn [obind].
  destruct (copy_into_inv _ _ _ _ E2) as [L2 K2].
  assert (O2 : bytes_ok b2 = true) by (apply K2; [apply K1, bytes_ok_zeros|apply bytes_ok_sub, Ooff]).
  unfold checksum.
  pose proof (with_pseudoheader_bound (ip_octets d) (ip_octets s) b2 Od Os O2) as Hb.
  destruct (ip_size_cases s), (ip_size_cases d).
  all: specialize (Hb ltac:(lia) ltac:(lia) ltac:(lia)).
  all: replace (2 ^ 32 <=? _) with false by lia; cbn [obind].
  all: rewrite wr_ok by (try (vm_compute; reflexivity); change (byte_hi ScmpParameterProblem_CHECKSUM_RNG) with 4; lia); eauto.
Qed.

Lemma encode_scmp_reply_total s d c p off :
  ip_wf s = true -> ip_wf d = true -> bytes_ok off = true ->
  exists r, encode_scmp_reply s d c p off = Ok r.
Proof.
  intros Ws Wd Ooff. pose proof (reply_header_size_bounds s d) as (B1 & B2).
  pose proof (pp_payload_size_bounds (blen off) (reply_header_size s d) ltac:(lia)) as (P1 & P2 & P3).
  unfold encode_scmp_reply. change ScionHeader_MAX_SIZE_BYTES with 1020. change PACKET_BUF_SIZE with 9216.
  replace (negb (reply_header_size s d mod 4 =? 0)) with false by lia.
  replace (1020 <? reply_header_size s d) with false by lia.
  replace (9216 <? _) with false by lia.
  destruct (encode_reply_header_total s d (pp_payload_size (blen off) (reply_header_size s d)) Ws Wd) as (h & -> & _).
  destruct (encode_param_problem_total s d c p off (reply_header_size s d) Ws Wd Ooff ltac:(lia)) as (m & ->).
  eauto.
Qed.

(** * Suppression of replies to SCMP error messages *)

Lemma sub_cons b lo hi : lo < hi -> hi <= blen b -> sub b lo hi = byte b lo :: sub b (lo + 1) hi.
Proof.
  intros H1 H2. rewrite (sub_split b lo (lo + 1) hi) by lia. rewrite sub_single by lia. reflexivity.
Qed.

Section Payload.
Variables (d : bytes) (p : path_layout).
Hypothesis L : layout_ok d p.

Lemma hdr_next_header : hv_next_header (sub d 0 (f_total d)) = Ok (byte d 4 mod 256).
Proof.
  pose proof (view_bounds d p L) as (B1 & B2 & B3 & B4).
  unfold hv_next_header. change CommonHeader_NEXT_HEADER_RNG with (8 * 4 + 0, 8).
  rewrite (rd_sub_1 d 0 (f_total d) 4 0 8) by lia.
  change (2 ^ (8 - 0 - 8)) with 1. change (2 ^ 8) with 256. rewrite N.div_1_r, N.add_0_l. reflexivity.
Qed.

Lemma view_pkt_payload :
  pkt_payload (f_view d) = Ok (sub d (f_total d) (f_total d + N.min (f_pl d) (blen d - f_total d))).
Proof.
  pose proof (view_bounds d p L) as (B1 & B2 & B3 & B4).
  set (n := N.min (f_total d + f_pl d) (blen d)) in *.
  unfold pkt_payload, pkt_payload_range, f_view. fold n.
  change CommonHeader_HEADER_LEN_RNG with (8 * 5 + 0, 8).
  rewrite (rd_sub_1 d 0 n 5 0 8) by lia. cbn [obind].
  change (2 ^ (8 - 0 - 8)) with 1. change (2 ^ 8) with 256. rewrite N.div_1_r, N.add_0_l.
  fold (f_total d). unfold get_unchecked at 1. rewrite blen_sub by lia. rewrite N.sub_0_r.
  replace ((0 <=? f_total d) && (f_total d <=? n)) with true by lia. cbn [obind].
  rewrite sub_sub by lia.
  change CommonHeader_PAYLOAD_LEN_RNG with (8 * 6 + 0, 16).
  rewrite (rd_sub_2 d 0 (f_total d) 6 0 16) by lia. cbn [obind].
  change (2 ^ (16 - 0 - 16)) with 1. change (2 ^ 16) with 65536. rewrite N.div_1_r, !N.add_0_l.
  change (6 + 1) with 7. fold (f_pl d).
  unfold get_unchecked. rewrite blen_sub by lia. rewrite N.sub_0_r.
  replace (N.min (f_pl d) (n - f_total d)) with (N.min (f_pl d) (blen d - f_total d)) by lia.
  set (k := N.min (f_pl d) (blen d - f_total d)).
  replace ((f_total d <=? f_total d + k) && (f_total d + k <=? n)) with true by lia.
  cbn [obind fst snd]. rewrite sub_sub by lia. reflexivity.
Qed.

(** the decision of [offending_is_scmp_error] on a parsed datagram, from the datagram's bytes *)
Definition f_is_scmp_error : bool :=
  (byte d 4 mod 256 =? 202) && (f_total d <? blen d) && (0 <? f_pl d) && (byte d (f_total d) <? 128).

Lemma offending_view e :
  e = InvalidSourceAddress (f_view d) \/ (exists pt, e = InvalidPathType (f_view d) pt) ->
  offending_is_scmp_error e = Ok f_is_scmp_error.
Proof.
  pose proof (view_bounds d p L) as (B1 & B2 & B3 & B4).
  intros He.
  assert (E : offending_is_scmp_error e =
              (hdr <- pkt_header (f_view d) ;; nh <- hv_next_header hdr ;;
               if negb (nh =? PROTO_SCMP) then Ok false else
               pl <- pkt_payload (f_view d) ;;
               Ok (match pl with [] => false | t :: _ => t <? SCMP_ERROR_SUPPRESS_BELOW end))).
  { destruct He as [-> | (pt & ->)]; reflexivity. }
  rewrite E. clear E He. rewrite (view_pkt_header d p L). cbn [obind]. rewrite hdr_next_header. cbn [obind].
  unfold f_is_scmp_error. change PROTO_SCMP with 202. change SCMP_ERROR_SUPPRESS_BELOW with 128.
  destruct (byte d 4 mod 256 =? 202); cbn [negb andb]; [|reflexivity].
  rewrite view_pkt_payload. cbn [obind].
  set (k := N.min (f_pl d) (blen d - f_total d)).
  destruct (N.eq_dec k 0) as [K|K].
  - rewrite K, N.add_0_r. unfold sub. rewrite N.sub_diag. change (N.to_nat 0) with 0%nat. cbn [firstn].
    f_equal. unfold k in K. lia.
  - rewrite sub_cons by lia. f_equal.
    replace (f_total d <? blen d) with true by lia. replace (0 <? f_pl d) with true by lia. reflexivity.
Qed.
End Payload.

Lemma f_is_scmp_error_spec d : bytes_ok d = true -> f_is_scmp_error d = spec_is_scmp_error d.
Proof.
  intros OK. unfold f_is_scmp_error, spec_is_scmp_error, spec_next_hdr.
  rewrite (sf_total d OK), (sf_pl d OK). change (len d) with (blen d).
  pose proof (B d OK 4). replace (byte d 4 mod 256) with (byte d 4) by lia. reflexivity.
Qed.

(** the suppression test of a rejected datagram never panics; it is false for a malformed
    datagram and otherwise the specification's "is an SCMP error message" *)
Lemma offending_of_check d ip e :
  check_nf d ip = Err e ->
  exists b, offending_is_scmp_error e = Ok b /\
            (b = true -> bytes_ok d = true -> spec_is_scmp_error d = true).
Proof.
  unfold check_nf. destruct (hl_nf d) as [l|e0|s] eqn:E; try discriminate.
  - destruct (hl_nf_ok d l E) as (L & _).
    assert (V : forall e', e' = InvalidSourceAddress (f_view d) \/ (exists pt, e' = InvalidPathType (f_view d) pt) ->
                exists b, offending_is_scmp_error e' = Ok b /\ (b = true -> bytes_ok d = true -> spec_is_scmp_error d = true)).
    { intros e' He'. exists (f_is_scmp_error d). split; [apply (offending_view d _ L e' He')|].
      intros Hb OK. rewrite <- (f_is_scmp_error_spec d OK). exact Hb. }
    destruct (decode_ip _ _) as [a|].
    + destruct (negb _).
      * intros H. inversion H; subst e. apply V. left. reflexivity.
      * destruct (path_type_accepted _); [discriminate|]. intros H. inversion H; subst e. apply V. right. eauto.
    + intros H. inversion H; subst e. apply V. left. reflexivity.
  - intros H. inversion H; subst e. exists false. split; [reflexivity|discriminate].
Qed.

(** accepted: exactly one dispatch; rejected: exactly one reply, or -- only when the datagram is
    an SCMP error message -- nothing; never a panic *)
Lemma gateway_total local d from :
  bytes_ok d = true -> ip_wf local = true -> ip_wf from = true ->
  (exists v, inbound_datagram_check d from = Ok v /\ gateway_inbound local d from = Ok [Dispatched v]) \/
  (exists e, inbound_datagram_check d from = Err e /\
     ((exists r, gateway_inbound local d from = Ok [Sent r]) \/
      (spec_is_scmp_error d = true /\ gateway_inbound local d from = Ok []))).
Proof.
  intros OK Wl Wf. unfold gateway_inbound, gateway_decision. rewrite check_is_nf.
  destruct (check_nf d from) as [v|e|s] eqn:E; cbn [obind].
  - left. eauto.
  - right. exists e. split; [reflexivity|].
    destruct (offending_of_check d from e E) as (b & -> & Hb). destruct b.
    + right. split; [apply Hb; auto|reflexivity].
    + left. destruct (scmp_error_of_check d from e E) as (c & p & off & -> & Hoff).
      assert (Ooff : bytes_ok off = true).
      { destruct Hoff as [-> | ->]; [exact OK|apply bytes_ok_sub, OK]. }
      destruct (encode_scmp_reply_total local from c p off Wl Wf Ooff) as (r & ->). cbn [obind decision_effects]. eauto.
  - exfalso. exact (check_nf_no_panic _ _ _ E).
Qed.

(** * Statements used by Props.v *)

Lemma accept_iff_spec d ip :
  bytes_ok d = true -> ((exists v, inbound_datagram_check d ip = Ok v) <-> SpecAccept d ip).
Proof.
  intros OK. destruct (check_iff_spec_lemma d ip OK) as [[H1 H2] H3]. split.
  - intros (v & Hv). apply H1. rewrite Hv. f_equal. apply H3, Hv.
  - intros S. eexists. apply H2, S.
Qed.

Lemma accepted_is_packet d ip v :
  bytes_ok d = true -> inbound_datagram_check d ip = Ok v -> v = spec_packet d.
Proof. intros OK. apply (proj2 (check_iff_spec_lemma d ip OK)). Qed.

Lemma no_alias_lemma n raw :
  n <> 0 -> n <> 3 -> match host_addr_decode n raw with Some w => host_ip w | None => None end = None.
Proof.
  intros H0 H3. fold (decode_ip n raw). destruct (decode_ip n raw) as [a|] eqn:E; [|reflexivity].
  apply decode_ip_some in E. change HAT_IPV4 with 0 in E. change HAT_IPV6 with 3 in E. lia.
Qed.

Lemma no_alias_datagram d ip v :
  bytes_ok d = true -> inbound_datagram_check d ip = Ok v ->
  (spec_src_tl d = 0 /\ exists o, ip = IPv4 o /\ length o = 4%nat) \/
  (spec_src_tl d = 3 /\ exists o, ip = IPv6 o /\ length o = 16%nat).
Proof.
  intros OK H. rewrite check_is_nf in H. unfold check_nf in H.
  destruct (hl_nf d) as [l| |] eqn:E; try discriminate.
  destruct (hl_nf_ok d l E) as ((H1 & H2 & H3 & _) & _).
  destruct (decode_ip _ _) as [a|] eqn:D; [|discriminate].
  destruct (ip_eqb a ip) eqn:Q; cbn [negb] in H; [|discriminate].
  apply decode_ip_some in D. change (spec_src_tl d) with (f_sn d).
  change HAT_IPV4 with 0 in D. change HAT_IPV6 with 3 in D.
  assert (LE : forall x y, list_eqb N.eqb x y = true -> length x = length y).
  { induction x as [|a0 x IH]; intros [|b0 y] Hxy; cbn in Hxy; try discriminate; [reflexivity|].
    apply andb_prop in Hxy. cbn [length]. f_equal. apply IH, (proj2 Hxy). }
  destruct D as [(Dn & Dl & ->)|(Dn & Dl & ->)]; destruct ip as [o|o]; cbn [ip_eqb] in Q; try discriminate.
  - left. split; [exact Dn|]. exists o. split; [reflexivity|]. apply LE in Q. unfold blen in Dl. lia.
  - right. split; [exact Dn|]. exists o. split; [reflexivity|]. apply LE in Q. unfold blen in Dl. lia.
Qed.

Lemma effects_shape local d from l :
  gateway_inbound local d from = Ok l ->
  (exists v, inbound_datagram_check d from = Ok v /\ l = [Dispatched v]) \/
  (exists e, inbound_datagram_check d from = Err e /\ ((exists r, l = [Sent r]) \/ l = [])).
Proof.
  intros H.
  destruct (gateway_inbound_inv _ _ _ _ H) as [(v & Hc & ->)|(e & Hc & [(_ & ->)|(_ & c & p & off & _ & [(b & _ & ->)|(ee & _ & ->)])])]; eauto 7.
Qed.

Lemma one_effect_lemma local d from l :
  bytes_ok d = true -> gateway_inbound local d from = Ok l ->
  (length l <= 1)%nat /\
  (forall v, In (Dispatched v) l -> SpecAccept d from /\ v = spec_packet d /\ l = [Dispatched v]) /\
  (forall r, In (Sent r) l -> ~ SpecAccept d from /\ l = [Sent r]).
Proof.
  intros OK H. destruct (effects_shape _ _ _ _ H) as [(v & Hc & ->)|(e & Hc & [(r & ->)| ->])].
  - split; [cbn; lia|]. split.
    + intros v' [Hv|[]]. inversion Hv; subst v'. split; [apply (accept_iff_spec d from OK); eauto|].
      split; [eapply accepted_is_packet; eauto|reflexivity].
    + intros r [Hr|[]]. discriminate.
  - split; [cbn; lia|]. split.
    + intros v [Hv|[]]. discriminate.
    + intros r' [Hr|[]]. inversion Hr; subst r'. split; [|reflexivity].
      intros S. apply (accept_iff_spec d from OK) in S. destruct S as (v & Hv). congruence.
  - split; [cbn; lia|]. split; intros x [].
Qed.

Lemma exactly_one_lemma local d from :
  bytes_ok d = true -> ip_wf local = true -> ip_wf from = true ->
  (SpecAccept d from /\ gateway_inbound local d from = Ok [Dispatched (spec_packet d)]) \/
  (~ SpecAccept d from /\
   ((exists r, gateway_inbound local d from = Ok [Sent r]) \/
    (spec_is_scmp_error d = true /\ gateway_inbound local d from = Ok []))).
Proof.
  intros OK Wl Wf. destruct (gateway_total local d from OK Wl Wf) as [(v & Hc & Hg)|(e & Hc & Hg)].
  - left. split; [apply (accept_iff_spec d from OK); eauto|].
    rewrite Hg. rewrite (accepted_is_packet d from v OK Hc). reflexivity.
  - right. split; [|exact Hg]. intros S. apply (accept_iff_spec d from OK) in S. destruct S as (v & Hv). congruence.
Qed.

Lemma unanswered_lemma local d from :
  bytes_ok d = true -> ip_wf local = true -> ip_wf from = true ->
  gateway_inbound local d from = Ok [] -> spec_is_scmp_error d = true /\ ~ SpecAccept d from.
Proof.
  intros OK Wl Wf H. destruct (exactly_one_lemma local d from OK Wl Wf) as [(_ & G)|(S & [(r & G)|(E & _)])].
  - congruence.
  - congruence.
  - auto.
Qed.
