(** std::net::IpAddr as used by the SNAP ingress filter (C08).  Shared by the model and by the
    independent specification; imports nothing generated. *)
From Sci Require Export Common.Outcome.
Local Open Scope N_scope.

(** [IpAddr::V4(Ipv4Addr)] / [IpAddr::V6(Ipv6Addr)] with their octets.  Derived [PartialEq]:
    same variant and same octets; an IPv4-mapped IPv6 address ::ffff:a.b.c.d is an [IPv6]
    value and differs from [IPv4 [a;b;c;d]]. *)
Inductive ipaddr :=
| IPv4 (octets : list N)
| IPv6 (octets : list N).

Definition ip_octets (a : ipaddr) : list N := match a with IPv4 o | IPv6 o => o end.
Definition ip_wf (a : ipaddr) : bool :=
  match a with
  | IPv4 o => (N.of_nat (length o) =? 4) && bytes_ok o
  | IPv6 o => (N.of_nat (length o) =? 16) && bytes_ok o
  end.
Definition ip_eqb (x y : ipaddr) : bool :=
  match x, y with
  | IPv4 a, IPv4 b => list_eqb N.eqb a b
  | IPv6 a, IPv6 b => list_eqb N.eqb a b
  | _, _ => false
  end.

