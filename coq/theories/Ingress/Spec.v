(** C08 -- independent statement of what the SNAP ingress filter may let through, written
    against the SCION header specification with LITERAL byte offsets and sizes (nothing here
    is generated from /repo, nothing is shared with the model except the [ipaddr] type):

      common header (12 bytes)
        byte 0      Version (high 4 bits) | TrafficClass (high half)
        byte 4      NextHdr          byte 5      HdrLen (in 4-byte units)
        bytes 6-7   PayloadLen       byte 8      PathType (0 = empty, 1 = SCION)
        byte 9      DT(2) DL(2) ST(2) SL(2)      bytes 10-11 reserved
      address header
        DstISD(2) DstAS(6) SrcISD(2) SrcAS(6) DstHostAddr(4*(DL+1)) SrcHostAddr(4*(SL+1))
        host address type/length: T=0,L=0 IPv4; T=0,L=3 IPv6; T=1,L=0 service
      SCION path (type 1)
        PathMeta (4 bytes): C(2) CurrHF(6) RSV(6) Seg0Len(6) Seg1Len(6) Seg2Len(6)
        one 8-byte info field per non-empty segment, one 12-byte hop field per hop.

    Everything is an executable boolean, so the same definitions are the oracles evaluated on
    the implementation's observed output in the correspondence check (Cases.v). *)
From Sci Require Export Common.Outcome Ingress.Ip.
Local Open Scope N_scope.

Definition byte (b : list N) (i : N) : N := nth (N.to_nat i) b 0.
Definition octets (b : list N) (off len : N) : list N := firstn (N.to_nat len) (skipn (N.to_nat off) b).
Definition len (b : list N) : N := N.of_nat (length b).

Definition spec_version (b : list N) : N := byte b 0 / 16.
Definition spec_next_hdr (b : list N) : N := byte b 4.
Definition spec_hdr_len (b : list N) : N := 4 * byte b 5.
Definition spec_payload_len (b : list N) : N := 256 * byte b 6 + byte b 7.
Definition spec_path_type (b : list N) : N := byte b 8.
Definition spec_dst_tl (b : list N) : N := byte b 9 / 16.       (* DT DL *)
Definition spec_src_tl (b : list N) : N := byte b 9 mod 16.     (* ST SL *)
Definition spec_host_len (tl : N) : N := 4 * (tl mod 4 + 1).
Definition spec_dst_off : N := 12 + 16.
Definition spec_src_off (b : list N) : N := spec_dst_off + spec_host_len (spec_dst_tl b).
Definition spec_path_off (b : list N) : N := spec_src_off b + spec_host_len (spec_src_tl b).

(* PathMeta as one big-endian 32-bit word *)
Definition spec_meta (b : list N) : N :=
  let o := spec_path_off b in
  ((byte b o * 256 + byte b (o + 1)) * 256 + byte b (o + 2)) * 256 + byte b (o + 3).
Definition spec_seg0 (b : list N) : N := (spec_meta b / 4096) mod 64.
Definition spec_seg1 (b : list N) : N := (spec_meta b / 64) mod 64.
Definition spec_seg2 (b : list N) : N := spec_meta b mod 64.
Definition nonzero (x : N) : N := if x =? 0 then 0 else 1.
Definition spec_scion_path_len (b : list N) : N :=
  4 + 8 * (nonzero (spec_seg0 b) + nonzero (spec_seg1 b) + nonzero (spec_seg2 b))
    + 12 * (spec_seg0 b + spec_seg1 b + spec_seg2 b).

(** the datagram parses as a SCION packet with an empty or standard path: version 0, the
    header-length field equals the length implied by the address and path fields, and the
    whole header lies inside the datagram *)
Definition spec_parses (b : list N) : bool :=
  (12 <=? len b) && (spec_version b =? 0) &&
  (if spec_path_type b =? 0 then
     (spec_hdr_len b =? spec_path_off b) && (spec_hdr_len b <=? len b)
   else if spec_path_type b =? 1 then
     (spec_path_off b + 4 <=? len b) &&
     (spec_hdr_len b =? spec_path_off b + spec_scion_path_len b) && (spec_hdr_len b <=? len b)
   else false).

(** the SCION source host as an IP address: only T=0,L=0 (IPv4) and T=0,L=3 (IPv6) *)
Definition spec_src_ip (b : list N) : option ipaddr :=
  if spec_src_tl b =? 0 then Some (IPv4 (octets b (spec_src_off b) 4))
  else if spec_src_tl b =? 3 then Some (IPv6 (octets b (spec_src_off b) 16))
  else None.

Definition spec_accept (b : list N) (peer : ipaddr) : bool :=
  spec_parses b &&
  match spec_src_ip b with Some a => ip_eqb a peer | None => false end.

Definition SpecAccept (b : list N) (peer : ipaddr) : Prop := spec_accept b peer = true.

(** what is handed to the dispatcher is the packet itself: the datagram cut after header and
    announced payload (or the whole datagram when the payload is truncated) *)
Definition spec_packet (b : list N) : list N :=
  firstn (N.to_nat (N.min (spec_hdr_len b + spec_payload_len b) (len b))) b.

(** the datagram carries an SCMP error message: next header SCMP (202), a non-empty payload
    inside the datagram whose first byte -- the SCMP type -- is below 128 (types 128.. are
    informational).  An SCMP error message is never answered with an SCMP error message. *)
Definition spec_is_scmp_error (b : list N) : bool :=
  (spec_next_hdr b =? 202) && (spec_hdr_len b <? len b) && (0 <? spec_payload_len b) &&
  (byte b (spec_hdr_len b) <? 128).

(** * the reply *)
Definition SCMP_MAX : N := 1232.       (* SCMP error message incl. SCION header: at most 1232 bytes *)
Definition SEND_BUF : N := 9216.       (* the gateway's jumbo send buffer *)

Definition is_prefix (p l : list N) : bool := list_eqb N.eqb p (firstn (length p) l).

(** [r] is a SCMP parameter-problem packet (SCMP = protocol 202, parameter problem = type 4)
    over an empty path, addressed to host [peer], quoting a prefix of [datagram], at most
    1232 bytes long, with consistent length fields *)
Definition spec_reply_ok (r datagram : list N) (peer : ipaddr) : bool :=
  let hl := spec_hdr_len r in
  (len r <=? SCMP_MAX) && (SCMP_MAX <=? SEND_BUF) &&
  (12 <=? len r) && (spec_version r =? 0) && (spec_next_hdr r =? 202) &&
  (spec_path_type r =? 0) && (hl =? spec_path_off r) && (hl + 8 <=? len r) &&
  (spec_payload_len r =? len r - hl) &&
  (match peer with
   | IPv4 o => (spec_dst_tl r =? 0) && list_eqb N.eqb (octets r spec_dst_off 4) o
   | IPv6 o => (spec_dst_tl r =? 3) && list_eqb N.eqb (octets r spec_dst_off 16) o
   end) &&
  (byte r hl =? 4) &&
  is_prefix (skipn (N.to_nat (hl + 8)) r) datagram.
