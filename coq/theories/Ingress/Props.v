(** C08 -- property theorems only.  Each is closed by [exact]/short glue from lemmas of
    [Proofs], pinned by [Check], and followed by [Print Assumptions].

    Quantification: ALL datagrams [d : list N] whose elements are bytes ([bytes_ok d]) -- no
    length bound (9216 is only the size of the gateway's buffer) -- and all peer / local
    addresses.  [ip_wf a] says that [a] is an IP address: 4 resp. 16 octets.  An IPv4-mapped
    IPv6 peer is the value [IPv6 [0;..;0;255;255;a;b;c;d]]; it is a different value from
    [IPv4 [a;b;c;d]], as it is for [IpAddr]'s equality, and the theorems hold for it like for
    any other IPv6 value. *)
From Sci Require Import Ingress.Model Ingress.Spec Ingress.Proofs Ingress.ReplyProofs.
Local Open Scope N_scope.

(** The filter accepts exactly the datagrams the independent specification accepts: version 0,
    header length consistent with the address and path fields and inside the datagram, path
    type empty or SCION, source host of type IPv4 / IPv6 whose octets are the peer's. *)
Theorem check_iff_spec :
  forall (d : list N) (peer : ipaddr),
    bytes_ok d = true ->
    ((exists view, inbound_datagram_check d peer = Ok view) <-> SpecAccept d peer).
Proof. exact accept_iff_spec. Qed.
Check check_iff_spec :
  forall (d : list N) (peer : ipaddr), bytes_ok d = true ->
    ((exists view, inbound_datagram_check d peer = Ok view) <-> SpecAccept d peer).
Print Assumptions check_iff_spec.

(** what is accepted (and handed to the dispatcher) is the packet itself: the datagram cut
    after the announced payload *)
Theorem accepted_view_is_the_packet :
  forall (d : list N) (peer : ipaddr) (view : list N),
    bytes_ok d = true -> inbound_datagram_check d peer = Ok view -> view = spec_packet d.
Proof. exact accepted_is_packet. Qed.
Print Assumptions accepted_view_is_the_packet.

(** No address type/length aliasing: for EVERY type number other than IPv4 (0) and IPv6 (3) --
    the service type, every unknown type, every unknown length -- and every raw host field the
    decoded source address yields no IP address; and an accepted datagram carries source type
    IPv4 with a 4-octet IPv4 peer or source type IPv6 with a 16-octet IPv6 peer. *)
Theorem no_alias :
  (forall (n : N) (raw : list N), n <> 0 -> n <> 3 ->
     match host_addr_decode n raw with Some w => host_ip w | None => None end = None) /\
  (forall (d : list N) (peer : ipaddr) (view : list N),
     bytes_ok d = true -> inbound_datagram_check d peer = Ok view ->
     (spec_src_tl d = 0 /\ exists o, peer = IPv4 o /\ length o = 4%nat) \/
     (spec_src_tl d = 3 /\ exists o, peer = IPv6 o /\ length o = 16%nat)).
Proof. split; [exact no_alias_lemma|exact no_alias_datagram]. Qed.
Print Assumptions no_alias.

(** every reply the gateway sends is at most 1232 bytes, which fits the 9216-byte send buffer
    (no hypothesis on the datagram or the addresses) *)
Theorem reply_fits :
  forall (local peer : ipaddr) (d : list N) (effects : list effect) (reply : list N),
    gateway_inbound local d peer = Ok effects -> In (Sent reply) effects ->
    N.of_nat (length reply) <= 1232 /\ 1232 <= PACKET_BUF_SIZE.
Proof.
  intros local peer d effects reply H Hin. split; [|vm_compute; discriminate].
  exact (reply_fits_lemma local d peer effects reply H Hin).
Qed.
Print Assumptions reply_fits.

(** Every reply is what the property calls an SCMP parameter-problem message: a SCION packet
    (version 0, empty path, header length consistent) with next header SCMP (202) addressed to
    the tunnel peer's IP address, whose payload starts with SCMP type 4, whose length fields
    are truthful, that quotes a prefix of the offending datagram, and that is at most 1232
    bytes long ([spec_reply_ok], literal offsets).  No hypothesis on the datagram. *)
Theorem reply_is_parameter_problem_to_peer :
  forall (local peer : ipaddr) (d : list N) (effects : list effect) (reply : list N),
    ip_wf local = true -> ip_wf peer = true ->
    gateway_inbound local d peer = Ok effects -> In (Sent reply) effects ->
    spec_reply_ok reply d peer = true.
Proof. intros local peer d effects reply. exact (reply_spec_lemma local d peer effects reply). Qed.
Print Assumptions reply_is_parameter_problem_to_peer.

(** One datagram causes at most one effect.  A dispatch happens only for a datagram the
    specification accepts, dispatches the packet itself and is the only effect; a reply is sent
    only for a datagram the specification rejects and is the only effect: a rejected datagram
    is never dispatched and is answered at most once. *)
Theorem at_most_one_reply_never_dispatch :
  forall (local peer : ipaddr) (d : list N) (effects : list effect),
    bytes_ok d = true -> gateway_inbound local d peer = Ok effects ->
    (length effects <= 1)%nat /\
    (forall v, In (Dispatched v) effects ->
       SpecAccept d peer /\ v = spec_packet d /\ effects = [Dispatched v]) /\
    (forall r, In (Sent r) effects -> ~ SpecAccept d peer /\ effects = [Sent r]).
Proof. intros local peer d effects. exact (one_effect_lemma local d peer effects). Qed.
Print Assumptions at_most_one_reply_never_dispatch.

(** No datagram makes the gateway panic (no modelled panic site -- unchecked read or slice out
    of range, u32 checksum overflow, impossible accessor error -- is reachable), and the
    outcome is exactly: accepted => one dispatch of the packet; rejected => one SCMP reply, or
    no effect at all when (and only when possible: see the next theorem) the rejected datagram
    is itself an SCMP error message, which must not be answered with an SCMP error. *)
Theorem no_panic :
  forall (local peer : ipaddr) (d : list N),
    bytes_ok d = true -> ip_wf local = true -> ip_wf peer = true ->
    (SpecAccept d peer /\ gateway_inbound local d peer = Ok [Dispatched (spec_packet d)]) \/
    (~ SpecAccept d peer /\
     ((exists reply, gateway_inbound local d peer = Ok [Sent reply]) \/
      (spec_is_scmp_error d = true /\ gateway_inbound local d peer = Ok []))).
Proof. intros local peer d. exact (exactly_one_lemma local d peer). Qed.
Print Assumptions no_panic.

(** only SCMP error messages (next header 202, first payload byte below 128) that the filter
    rejects go unanswered: every other rejected datagram gets its reply *)
Theorem only_scmp_errors_go_unanswered :
  forall (local peer : ipaddr) (d : list N),
    bytes_ok d = true -> ip_wf local = true -> ip_wf peer = true ->
    gateway_inbound local d peer = Ok [] -> spec_is_scmp_error d = true /\ ~ SpecAccept d peer.
Proof. intros local peer d. exact (unanswered_lemma local d peer). Qed.
Print Assumptions only_scmp_errors_go_unanswered.

(** non-vacuity: an IPv4 packet over an empty path from its own peer is dispatched; from the
    IPv4-mapped form of the same peer, and from another peer, it is answered *)
Example accepted_and_rejected :
  let pkt := [0;0;0;1; 17;9;0;2; 0;0;0;0; 0;1;255;0;0;0;1;18; 0;1;255;0;0;0;1;16; 10;9;8;7; 10;0;0;7; 42;43] in
  let local := IPv4 [192;168;1;1] in
  gateway_inbound local pkt (IPv4 [10;0;0;7]) = Ok [Dispatched pkt] /\
  (exists r, gateway_inbound local pkt (IPv6 [0;0;0;0;0;0;0;0;0;0;255;255;10;0;0;7]) = Ok [Sent r]) /\
  (exists r, gateway_inbound local pkt (IPv4 [10;0;0;8]) = Ok [Sent r]) /\
  (* the same packet announcing SCMP (202) with first payload byte 42 < 128: an SCMP error, not answered *)
  gateway_inbound local (firstn 4 pkt ++ [202] ++ skipn 5 pkt) (IPv4 [10;0;0;8]) = Ok [].
Proof. vm_compute. repeat split; try (eexists; reflexivity). Qed.
