(** Model of the per-pair path worker of scion-stack:
      crates/scion-stack/src/path/manager.rs          (MultiPathManagerConfig::validate, cached_path,
                                                       path, report_path_issue, PathIssueManager)
      crates/scion-stack/src/path/manager/pathset.rs  (PathSet::{maintain, idle_check,
                                                       fetch_and_update, update_path_cache, rerank,
                                                       decide_active_path_update,
                                                       apply_active_path_decision, best_path,
                                                       handle_issue_rx, ingest_path_issue},
                                                       merge_new_paths_algo, check_path_expiry)
      crates/scion-stack/src/path/manager/issues.rs   (IssueKind::{target_type, penalty},
                                                       IssueMarkerTarget::{matches_path,
                                                       applies_to_path, applies_to_multiple_paths},
                                                       IssueMarker::decayed_penalty)
      crates/scion-stack/src/path/manager/reliability.rs, path/strategy.rs, strategy/scoring.rs
      crates/libs/scion-sdk-utils/src/backoff.rs      (ExponentialBackoff::duration)
    Definitions only, statement by statement.

    Time is [N] nanoseconds since the UNIX epoch (the code subtracts a [Duration] from a
    [SystemTime] in one place, [earliest_expiry - min_expiry_threshold], whose result is at once
    [max]ed with a non-negative instant, so truncated subtraction gives the same value).
    Scores are rationals; the exponential decay [2^(-t/half_life)] is the Section variable [decay].
    The path policy is the Section variable [pol]; [None] is an evaluation error.
    Hash-map iteration orders of the code (fetched paths, cached issues) are the list orders of
    the inputs here: every theorem holds for every order.

    Debug assertions and [expect]s of the code are recorded in [s_panic] (first site hit). *)
From Coq Require Export List NArith ZArith QArith Qminmax Bool Lia.
From Sci Require Export Common.Outcome Gen.PathMgrConfig.
Export ListNotations.
Local Open Scope N_scope.

Definition NS : N := 1000000000.
Definition U32 : N := 4294967296.

(** * Paths (the summary of a [ScionPath] the manager looks at) *)
Definition iface := (N * N)%type.             (* (isd_asn, interface id) *)
Record path := mkPath {
  p_id : N;                                   (* identity of the path object (ghost, for tables) *)
  p_fp : N;                                   (* fingerprint(): interface sequence + src + dst *)
  p_src : N; p_dst : N;                       (* src_ia(), dst_ia() *)
  p_exp : option N;                           (* expiration(), seconds *)
  p_ifs : option (list iface);                (* metadata().interfaces *)
  p_first : option iface;                     (* first_egress_interface() *)
  p_last : option iface;                      (* last_ingress_interface() *)
  p_hops : N }.                               (* hop field count used by PathLengthScorer *)

Record rel := mkRel { r_score : Q; r_last : N }.       (* ReliabilityScore *)
Record entry := mkEntry { e_path : path; e_rel : rel }. (* PathManagerPath *)
Definition e_fp (e : entry) : N := p_fp (e_path e).

(** * Issues *)
Inductive target :=
| TFullPath (fp : N)
| TInterface (ia : N) (ingress : option N) (egress : N)
| TFirstHop (ia : N) (egress : N)
| TLastHop (ia : N) (ingress : N).

Inductive issue :=
| IInterfaceDown (ia ifid : N)                (* SCMP ExternalInterfaceDown *)
| IConnectivityDown (ia ingress egress : N)   (* SCMP InternalConnectivityDown *)
| IFirstHop (ia ifid : N)                     (* SendError::FirstHopUnreachable *)
| IOther.                                     (* kinds report_path_issue drops *)

Record marker := mkMarker { m_target : target; m_ts : N; m_pen : Q }.

(* IssueKind::target_type followed by the DestinationNetwork filter of report_path_issue *)
Definition target_type (i : issue) : option target :=
  match i with
  | IInterfaceDown ia ifid => Some (TInterface ia None ifid)
  | IConnectivityDown ia ing eg => Some (TInterface ia (Some ing) eg)
  | IFirstHop ia ifid => Some (TFirstHop ia ifid)
  | IOther => None
  end.

Definition clampQ (lo hi q : Q) : Q := Qmax lo (Qmin hi q).       (* f32::clamp *)
Definition score_clamped (q : Q) : Q := clampQ SCORE_LO SCORE_HI q. (* Score::new_clamped *)

(* IssueKind::penalty *)
Definition penalty (i : issue) : Q :=
  score_clamped match i with
                | IInterfaceDown _ _ | IConnectivityDown _ _ _ => PENALTY_INTERFACE_DOWN
                | IFirstHop _ _ => PENALTY_FIRST_HOP
                | IOther => 0%Q
                end.

Definition issue_eqb (a b : issue) : bool :=      (* equality of dedup_id (no hash collision) *)
  match a, b with
  | IInterfaceDown a1 a2, IInterfaceDown b1 b2 => (a1 =? b1) && (a2 =? b2)
  | IConnectivityDown a1 a2 a3, IConnectivityDown b1 b2 b3 => (a1 =? b1) && (a2 =? b2) && (a3 =? b3)
  | IFirstHop a1 a2, IFirstHop b1 b2 => (a1 =? b1) && (a2 =? b2)
  | IOther, IOther => true
  | _, _ => false
  end.

Definition iface_is (o : option iface) (ia ifid : N) : bool :=
  match o with Some (a, i) => (a =? ia) && (i =? ifid) | None => false end.

(* the [while let Some(interface) = iter.nth(1)] walk: looks at the interfaces at odd positions *)
Fixpoint walk_ifs (ia : N) (ingress : option N) (egress : N) (l : list iface) : bool :=
  match l with
  | _ :: i :: rest =>
    if fst i =? ia then
      if match ingress with Some g => negb (snd i =? g) | None => false end then false
      else match rest with e :: _ => snd e =? egress | [] => false end
    else walk_ifs ia ingress egress rest
  | _ => false
  end.

(* IssueMarkerTarget::matches_path *)
Definition matches_path (t : target) (p : path) : bool :=
  match t with
  | TFullPath fp => p_fp p =? fp
  | TFirstHop ia eg => iface_is (p_first p) ia eg
  | TLastHop ia ing => iface_is (p_last p) ia ing
  | TInterface ia ingress egress =>
    match p_ifs p with
    | None => false
    | Some ifs =>
      if p_src p =? ia then
        match ingress with
        | Some _ => false
        | None => match ifs with i :: _ => snd i =? egress | [] => false end
        end
      else walk_ifs ia ingress egress ifs
    end
  end.

Definition applies_to_multiple_paths (t : target) : bool :=
  match t with TFullPath _ => false | _ => true end.

Definition applies_to_path (t : target) (src dst : N) : bool :=
  match t with
  | TFullPath _ | TInterface _ _ _ => true
  | TFirstHop ia _ => src =? ia
  | TLastHop ia _ => dst =? ia
  end.

(** * Configuration *)
Record cfg := mkCfg {
  c_src : N; c_dst : N;
  c_max_cached : N;
  c_refetch : N; c_min_delay : N; c_thresh : N; c_idle : N;       (* ns *)
  c_bo_min : N; c_bo_max : N; c_bo_num : N; c_bo_den : N; c_bo_jit : N;  (* ns; factor num/den *)
  c_issue_size : N; c_dedup : N;
  c_swap : Q }.

(* MultiPathManagerConfig::validate *)
Definition cfg_valid (c : cfg) : bool :=
  negb (c_refetch c <? c_min_delay c) && negb (c_thresh c <? c_min_delay c).

Definition default_cfg (src dst : N) : cfg :=
  mkCfg src dst DEF_MAX_CACHED DEF_REFETCH_INTERVAL DEF_MIN_REFETCH_DELAY DEF_MIN_EXPIRY_THRESHOLD
        DEF_MAX_IDLE DEF_BACKOFF_MIN DEF_BACKOFF_MAX DEF_BACKOFF_FACTOR_NUM DEF_BACKOFF_FACTOR_DEN
        DEF_BACKOFF_JITTER DEF_ISSUE_CACHE_SIZE DEF_ISSUE_DEDUP_WINDOW DEF_SWAP_THRESHOLD.

(* ExponentialBackoff::duration: min * factor^attempt (stops multiplying once the cap is reached) *)
Fixpoint pow_capped (num den : N) (n : nat) (v cap : N) : N :=
  match n with
  | O => v
  | S k => if cap <=? v then v else pow_capped num den k (v * num / den) cap
  end.
Definition backoff_base (c : cfg) (attempt : N) : N :=
  pow_capped (c_bo_num c) (c_bo_den c) (N.to_nat attempt) (c_bo_min c) (c_bo_max c).
(* [jit] is the draw [rand::random::<f32>() * jitter_secs], any value in [0, jitter] *)
Definition backoff_duration (c : cfg) (attempt jit : N) : N :=
  N.min (c_bo_max c) (backoff_base c attempt + N.min jit (c_bo_jit c)).

(** * Expiry *)
Inductive estate := Valid | NearExpiry | Expired.
Definition expiry_ns (p : path) : N := match p_exp p with Some e => e | None => 0 end * NS.
(* check_path_expiry *)
Definition check_path_expiry (p : path) (now thr : N) : estate :=
  let e := expiry_ns p in
  if e <=? now then Expired else if e - now <=? thr then NearExpiry else Valid.
Definition is_valid (c : cfg) (now : N) (p : path) : bool :=
  match check_path_expiry p now (c_thresh c) with Valid => true | _ => false end.
Definition is_expired (c : cfg) (now : N) (p : path) : bool :=
  match check_path_expiry p now (c_thresh c) with Expired => true | _ => false end.
(* ScionPath::is_expired(now.as_secs() as u32).unwrap_or(false), as used at hand-out *)
Definition expired_at_handout (p : path) (now : N) : bool :=
  match p_exp p with Some e => e <=? (now / NS) mod U32 | None => false end.

(** * State *)
Record imgr := mkIM {                        (* PathIssueManager *)
  im_cache : list (issue * marker);
  im_fifo : list (issue * N) }.

Record st := mkSt {
  s_cached : list entry;
  s_active : option path;                    (* shared.active_path (the stored fp is its p_fp) *)
  s_failed : N;
  s_next_refetch : N;
  s_next_idle : N;
  s_used : bool;                             (* was_used_in_idle_period *)
  s_im : imgr;
  s_chan : list marker;                      (* broadcast issues not yet received *)
  s_err : N;                                 (* current_error: 0 none, 1 NoPathsFound, 2 other *)
  s_init : bool;
  s_dead : bool;                             (* the worker loop has exited *)
  s_panic : option N }.                      (* first debug_assert / expect site hit *)

(* debug_assert / expect sites *)
Definition P_ACTIVE_ENTRY := 1.   (* decide_active_path_update: active set, no entry *)
Definition P_MERGE_ACTIVE := 2.   (* merge_new_paths_algo: active fp not among existing *)
Definition P_FIFO_VACANT := 3.    (* pop_front: id in FIFO but not in cache *)
Definition P_FETCH_EMPTY := 4.    (* fetch_and_update: fetched_paths empty after success *)

Definition first_some {A} (a b : option A) : option A := match a with Some _ => a | None => b end.

Definition init_st (c : cfg) (now : N) : st :=
  mkSt [] None 0 now (now + c_idle c) false (mkIM [] []) [] 0 false false None.

(** * Events and outputs *)
Inductive answer := AOk (ps : list path) | AErr.      (* the fetcher's answer; empty = AOk [] *)
Inductive ev :=
| Tick (now : N) (a : answer) (jit : N)    (* maintain(now); [a] is consumed iff a fetch is due *)
| Report (now : N) (i : issue)             (* report_path_issue(now, i) *)
| Deliver (now : N)                        (* the worker's issue_rx.recv() arm at now *)
| Direct (now : N) (m : marker)            (* handle_issue_rx(now, Ok(m)) *)
| Send (now : N)                           (* cached_path(src, dst, now) *)
| SendWait (now : N).                      (* path(src, dst, now), initialised path set *)

Inductive out :=
| ONone
| OTick (fetched : bool)
| OExit
| OReported (broadcast : bool)
| ODelivered (some : bool)
| OPath (p : path)
| ONoPath
| OErr (class : N).

Definition ev_time (e : ev) : N :=
  match e with
  | Tick n _ _ | Report n _ | Deliver n | Direct n _ | Send n | SendWait n => n
  end.

Section Model.
Variable pol : path -> option bool.            (* policy evaluation; None = error *)
Variable decay : Q -> N -> N -> Q.             (* exponential_decay base elapsed half_life *)

Definition allowed (p : path) : bool :=        (* PathStrategy::predicate via the blanket impl *)
  match pol p with Some true => true | _ => false end.

(** * Scores *)
(* ReliabilityScore::score *)
Definition rel_score (r : rel) (now : N) : Q :=
  score_clamped (decay (r_score r) (now - r_last r) RELIABILITY_HALF_LIFE).
(* ReliabilityScore::update *)
Definition rel_update (r : rel) (pen : Q) (now : N) : rel :=
  mkRel (clampQ REL_CLAMP_LO REL_CLAMP_HI (rel_score r now + pen)%Q) now.
(* PathLengthScorer::score *)
Definition length_score (p : path) : Q :=
  score_clamped (LENGTH_MAX_SCORE - inject_Z (Z.of_N (p_hops p)) * PER_HOP_PENALTY)%Q.
(* PathScorer::score with the default scorers *)
Definition total (e : entry) (now : N) : Q :=
  (rel_score (e_rel e) now * RELIABILITY_IMPACT + length_score (e_path e) * LENGTH_IMPACT)%Q.
(* IssueMarker::decayed_penalty *)
Definition decayed_penalty (m : marker) (now : N) : Q :=
  score_clamped (decay (m_pen m) (now - m_ts m) ISSUE_HALF_LIFE).

Definition Qltb (a b : Q) : bool := negb (Qle_bool b a).

(* rank_inplace: a stable sort, best (highest score) first *)
Fixpoint insert_ranked (now : N) (x : entry) (l : list entry) : list entry :=
  match l with
  | [] => [x]
  | y :: r => if Qltb (total x now) (total y now) then y :: insert_ranked now x r else x :: l
  end.
Definition rank (now : N) (l : list entry) : list entry := fold_right (insert_ranked now) [] l.

(** * Issue manager *)
Fixpoint cache_get (i : issue) (l : list (issue * marker)) : option marker :=
  match l with [] => None | (j, m) :: r => if issue_eqb i j then Some m else cache_get i r end.
Definition cache_remove (i : issue) (l : list (issue * marker)) : list (issue * marker) :=
  filter (fun jm => negb (issue_eqb i (fst jm))) l.
(* HashMap::insert: replace in place or add *)
Fixpoint cache_insert (i : issue) (m : marker) (l : list (issue * marker)) : list (issue * marker) :=
  match l with
  | [] => [(i, m)]
  | (j, m') :: r => if issue_eqb i j then (i, m) :: r else (j, m') :: cache_insert i m r
  end.

(* PathIssueManager::pop_front *)
Definition pop_front (im : imgr) : imgr * option N :=
  match im_fifo im with
  | [] => (im, None)
  | (i, ts) :: fifo' =>
    match cache_get i (im_cache im) with
    | Some m => if m_ts m =? ts then (mkIM (cache_remove i (im_cache im)) fifo', None)
                else (mkIM (im_cache im) fifo', None)
    | None => (mkIM (im_cache im) fifo', Some P_FIFO_VACANT)
    end
  end.

(* the eviction loop of add_issue (C06 repair): [while cache.len() >= max_entries] pop the FIFO
   front; a stale entry (its issue was re-reported since: timestamp differs) removes nothing, so
   the loop goes on until an entry was really evicted or the FIFO is empty *)
Fixpoint evict (size : N) (cache : list (issue * marker)) (fifo : list (issue * N)) : imgr * option N :=
  if size <=? N.of_nat (length cache) then
    match fifo with
    | [] => (mkIM cache [], None)
    | (i, ts) :: fifo' =>
      match cache_get i cache with
      | Some m => if m_ts m =? ts then evict size (cache_remove i cache) fifo' else evict size cache fifo'
      | None => let '(im, _) := evict size cache fifo' in (im, Some P_FIFO_VACANT)
      end
    end
  else (mkIM cache fifo, None).

(* a FIFO entry is live when it carries the timestamp of its cached issue *)
Definition live (cache : list (issue * marker)) (jt : issue * N) : bool :=
  match cache_get (fst jt) cache with Some m => m_ts m =? snd jt | None => false end.

(* PathIssueManager::add_issue (with the C06 repair: eviction loop; stale FIFO entries are
   dropped once the FIFO holds 2 * max(max_entries, 1) entries).
   Returns the manager, whether the issue was broadcast, panic *)
Definition add_issue (c : cfg) (im : imgr) (i : issue) (m : marker) : imgr * bool * option N :=
  let dup := match cache_get i (im_cache im) with
             | Some ex => (m_ts m - m_ts ex) <? c_dedup c
             | None => false
             end in
  if dup then (im, false, None) else
  let '(im1, pn) := evict (c_issue_size c) (im_cache im) (im_fifo im) in
  let fifo2 := if 2 * N.max (c_issue_size c) 1 <=? N.of_nat (length (im_fifo im1))
               then filter (live (im_cache im1)) (im_fifo im1) else im_fifo im1 in
  (mkIM (cache_insert i m (im_cache im1)) (fifo2 ++ [(i, m_ts m)]), true, pn).

(* PathIssueManager::apply_cached_issues *)
Definition apply_cached_issues (im : imgr) (e : entry) (now : N) : entry :=
  fold_left (fun e jm => if matches_path (m_target (snd jm)) (e_path e)
                         then mkEntry (e_path e) (rel_update (e_rel e) (decayed_penalty (snd jm) now) now)
                         else e)
            (im_cache im) e.

(** * Path set *)
Definition opt_fp (o : option path) : option N := option_map p_fp o.
Definition optN_eq (a b : option N) : bool :=
  match a, b with Some x, Some y => x =? y | None, None => true | _, _ => false end.

(* PathSet::ingest_path_issue: the cache afterwards, and whether the active path was hit *)
Fixpoint ingest_all (m : marker) (now : N) (afp : option N) (cs : list entry) : list entry * bool :=
  match cs with
  | [] => ([], false)
  | e :: r =>
    let '(r', hit) := ingest_all m now afp r in
    if matches_path (m_target m) (e_path e)
    then (mkEntry (e_path e) (rel_update (e_rel e) (m_pen m) now) :: r', optN_eq (Some (e_fp e)) afp || hit)
    else (e :: r', hit)
  end.
Fixpoint ingest_first (m : marker) (now : N) (afp : option N) (cs : list entry) : list entry * bool :=
  match cs with
  | [] => ([], false)
  | e :: r =>
    if matches_path (m_target m) (e_path e)
    then (mkEntry (e_path e) (rel_update (e_rel e) (m_pen m) now) :: r, optN_eq (Some (e_fp e)) afp)
    else let '(r', hit) := ingest_first m now afp r in (e :: r', hit)
  end.
Definition ingest_path_issue (m : marker) (now : N) (afp : option N) (cs : list entry) :=
  if applies_to_multiple_paths (m_target m) then ingest_all m now afp cs else ingest_first m now afp cs.

(* PathSet::drain_and_apply_issue_channel *)
Definition drain (c : cfg) (now : N) (afp : option N) (chan : list marker) (cs : list entry)
  : list entry * bool :=
  fold_left (fun acc m =>
               if applies_to_path (m_target m) (c_src c) (c_dst c)
               then let '(cs', hit) := ingest_path_issue m now afp (fst acc) in (cs', snd acc || hit)
               else acc)
            chan (cs, false).

(* best_path *)
Definition best_path (c : cfg) (now : N) (cs : list entry) : option entry :=
  find (fun e => is_valid c now (e_path e)) cs.
(* active_path_entry *)
Definition active_entry (act : option path) (cs : list entry) : option entry :=
  match act with Some a => find (fun e => e_fp e =? p_fp a) cs | None => None end.

Inductive decision := NoChange | Replace | ForceReplace.

(* decide_active_path_update *)
Definition decide (c : cfg) (now : N) (cs : list entry) (act : option path) : decision * option N :=
  let best := best_path c now cs in
  let d := match act with
           | None => Replace
           | Some a => match check_path_expiry a now (c_thresh c) with
                       | Valid => NoChange | NearExpiry => Replace | Expired => ForceReplace
                       end
           end in
  match d, best with
  | NoChange, Some b =>
    match active_entry act cs with
    | Some ae => if Qltb (c_swap c) (total b now - total ae now)%Q then (Replace, None) else (NoChange, None)
    | None => (NoChange, Some P_ACTIVE_ENTRY)
    end
  | _, _ => (d, None)
  end.

(* apply_active_path_decision *)
Definition apply_decision (d : decision) (best : option entry) (act : option path) : option path :=
  let best := if optN_eq (opt_fp act) (option_map e_fp best) then None else best in
  match d, best with
  | NoChange, _ => act
  | Replace, None => act
  | ForceReplace, None => None
  | _, Some b => Some (e_path b)
  end.

(* maybe_update_active_path *)
Definition maybe_update_active (c : cfg) (now : N) (cs : list entry) (act : option path)
  : option path * option N :=
  let '(d, pn) := decide c now cs act in
  (apply_decision d (best_path c now cs) act, pn).

(* the HashMap<fingerprint, path> built from the fetched paths: a later path replaces an
   earlier one with the same fingerprint *)
Fixpoint fm_insert (p : path) (fm : list path) : list path :=
  match fm with
  | [] => [p]
  | q :: r => if p_fp q =? p_fp p then p :: r else q :: fm_insert p r
  end.
Definition fm_of (ps : list path) : list path := fold_left (fun fm p => fm_insert p fm) ps [].
Fixpoint fm_remove (fp : N) (fm : list path) : option (path * list path) :=
  match fm with
  | [] => None
  | q :: r => if p_fp q =? fp then Some (q, r)
              else match fm_remove fp r with Some (p, r') => Some (p, q :: r') | None => None end
  end.

(* the retain_mut pass of update_path_cache *)
Fixpoint retain (c : cfg) (now : N) (afp : option N) (cs : list entry) (fm : list path)
         (act : option path) : list entry * list path * option path :=
  match cs with
  | [] => ([], fm, act)
  | e :: r =>
    let fp := e_fp e in
    let '(e', fm') := match fm_remove fp fm with
                      | Some (p, fm') => (mkEntry p (e_rel e), fm')
                      | None => (e, fm)
                      end in
    let keep := negb (is_expired c now (e_path e')) in
    let act' := if optN_eq (Some fp) afp then (if keep then Some (e_path e') else None) else act in
    let '(r', fm'', act'') := retain c now afp r fm' act' in
    (if keep then e' :: r' else r', fm'', act'')
  end.

Fixpoint position (fp : N) (cs : list entry) : option nat :=
  match cs with
  | [] => None
  | e :: r => if e_fp e =? fp then Some O else option_map S (position fp r)
  end.
(* Vec::swap(0, idx) *)
Definition swap0 (idx : nat) (cs : list entry) : list entry :=
  match idx, cs with
  | O, _ => cs
  | S k, x :: r => match nth_error r k with
                   | Some y => y :: firstn k r ++ x :: skipn (S k) r
                   | None => cs
                   end
  | _, [] => cs
  end.

(* the selection loop of merge_new_paths_algo on the remaining suffixes; [n] = slots left *)
Fixpoint merge_take (now : N) (n : nat) (ex nw : list entry) : nat * nat :=
  match n with
  | O => (O, O)
  | S n' =>
    match ex, nw with
    | e :: ex', x :: nw' =>
      if negb (Qltb (total e now) (total x now))          (* existing better or tie *)
      then let '(a, b) := merge_take now n' ex' nw in (S a, b)
      else let '(a, b) := merge_take now n' ex nw' in (a, S b)
    | _ :: ex', [] => let '(a, b) := merge_take now n' ex' [] in (S a, b)
    | [], _ :: nw' => let '(a, b) := merge_take now n' [] nw' in (a, S b)
    | [], [] => (O, O)
    end
  end.

(* merge_new_paths_algo *)
Definition merge_new_paths (now : N) (ex nw : list entry) (afp : option N) (target : N)
  : list entry * option N :=
  let '(ex1, ke0, pn) :=
    match afp with
    | Some fp => match position fp ex with
                 | Some idx => (swap0 idx ex, 1%nat, None)
                 | None => (ex, O, Some P_MERGE_ACTIVE)
                 end
    | None => (ex, O, None)
    end in
  let '(a, b) := merge_take now (N.to_nat target - ke0) (skipn ke0 ex1) nw in
  (firstn (ke0 + a) ex1 ++ firstn b nw, pn).

(* update_path_cache: (cached, active, chan, panic) *)
Definition update_path_cache (c : cfg) (s : st) (fetched : list path) (now : N)
  : list entry * option path * list marker * option N :=
  let afp := opt_fp (s_active s) in
  let '(cs1, fm, act1) := retain c now afp (s_cached s) (fm_of fetched) (s_active s) in
  match fm with
  | [] => (cs1, act1, s_chan s, None)
  | _ =>
    let '(cs2, _) := drain c now (opt_fp act1) (s_chan s) cs1 in
    let cands := map (fun p => apply_cached_issues (s_im s) (mkEntry p (mkRel 0%Q now)) now) fm in
    let cands := rank now cands in
    let '(cs3, pn) := merge_new_paths now cs2 cands (opt_fp act1) (c_max_cached c) in
    (cs3, act1, [], pn)
  end.

(* earliest_expiry *)
Definition earliest_expiry (cs : list entry) : option N :=
  fold_left (fun acc e => match p_exp (e_path e) with
                          | Some x => match acc with Some a => Some (N.min a x) | None => Some x end
                          | None => acc
                          end) cs None.

(* fetch_and_update (with the C06 repair: an empty cache after a successful lookup is not an
   [expect] failure, the next lookup is scheduled after the minimum delay) *)
Definition fetch_and_update (c : cfg) (s : st) (now : N) (a : answer) (jit : N) : st :=
  let res := match a with
             | AErr => None
             | AOk ps => match filter allowed ps with [] => None | l => Some l end
             end in
  let err := match a, res with _, Some _ => 0 | AErr, None => 2 | AOk _, None => 1 end in
  let '(cs, act, chan, pn) := update_path_cache c s (match res with Some l => l | None => [] end) now in
  let '(failed, next) :=
    match res with
    | Some _ =>
      let cand := match earliest_expiry cs with
                  | Some e => N.min (now + c_refetch c) (e * NS - c_thresh c)
                  | None => now
                  end in
      (0, N.max cand (now + c_min_delay c))
    | None =>
      let f := s_failed s + 1 in
      (f, now + N.max (backoff_duration c f jit) (c_min_delay c))
    end in
  let cs := rank now cs in
  let '(act, pn2) := maybe_update_active c now cs act in
  mkSt cs act failed next (s_next_idle s) (s_used s) (s_im s) chan err true false
       (first_some (s_panic s) (first_some pn pn2)).

(* the worker's exit path *)
Definition exit_st (s : st) : st :=
  mkSt (s_cached s) None (s_failed s) (s_next_refetch s) (s_next_idle s) (s_used s) (s_im s)
       (s_chan s) 2 true true (s_panic s).

(* maintain *)
Definition maintain (c : cfg) (s : st) (now : N) (a : answer) (jit : N) : st * out :=
  let idle_due := s_next_idle s <=? now in
  if idle_due && negb (s_used s) then (exit_st s, OExit) else
  let s1 := if idle_due
            then mkSt (s_cached s) (s_active s) (s_failed s) (s_next_refetch s) (now + c_idle c) false
                      (s_im s) (s_chan s) (s_err s) (s_init s) (s_dead s) (s_panic s)
            else s in
  if s_next_refetch s1 <=? now then (fetch_and_update c s1 now a jit, OTick true)
  else (s1, OTick false).

Definition with_cached_active (s : st) (cs : list entry) (act : option path) (chan : list marker)
           (pn : option N) : st :=
  mkSt cs act (s_failed s) (s_next_refetch s) (s_next_idle s) (s_used s) (s_im s) chan (s_err s)
       (s_init s) (s_dead s) (first_some (s_panic s) pn).

(* handle_issue_rx for a received marker [m]; [rest] = what is still in the channel *)
Definition handle_issue (c : cfg) (s : st) (now : N) (m : marker) (rest : list marker) : st :=
  if negb (applies_to_path (m_target m) (c_src c) (c_dst c))
  then with_cached_active s (s_cached s) (s_active s) rest None
  else
    let afp := opt_fp (s_active s) in
    let '(cs1, hit1) := ingest_path_issue m now afp (s_cached s) in
    let '(cs2, hit2) := drain c now afp rest cs1 in
    if hit1 || hit2 then
      let cs3 := rank now cs2 in
      let '(act, pn) := maybe_update_active c now cs3 (s_active s) in
      with_cached_active s cs3 act [] pn
    else with_cached_active s cs2 (s_active s) [] None.

Definition set_used (s : st) : st :=
  mkSt (s_cached s) (s_active s) (s_failed s) (s_next_refetch s) (s_next_idle s) true (s_im s)
       (s_chan s) (s_err s) (s_init s) (s_dead s) (s_panic s).

(* hand-out with the C06 repair: an expired path is never returned *)
Definition hand_out (s : st) (now : N) : option path :=
  match s_active s with
  | Some p => if expired_at_handout p now then None else Some p
  | None => None
  end.

Definition step (c : cfg) (s : st) (e : ev) : st * out :=
  if s_dead s then (s, ONone) else
  match e with
  | Tick now a jit => maintain c s now a jit
  | Report now i =>
    match target_type i with
    | None => (s, OReported false)
    | Some t =>
      let m := mkMarker t now (penalty i) in
      let '(im, bc, pn) := add_issue c (s_im s) i m in
      (mkSt (s_cached s) (s_active s) (s_failed s) (s_next_refetch s) (s_next_idle s) (s_used s) im
            (if bc then s_chan s ++ [m] else s_chan s) (s_err s) (s_init s) (s_dead s)
            (first_some (s_panic s) pn), OReported bc)
    end
  | Deliver now =>
    match s_chan s with
    | [] => (s, ODelivered false)
    | m :: rest => (handle_issue c s now m rest, ODelivered true)
    end
  | Direct now m => (handle_issue c s now m (s_chan s), ODelivered true)
  | Send now =>
    let s' := set_used s in
    match hand_out s now with Some p => (s', OPath p) | None => (s', ONoPath) end
  | SendWait now =>
    let s' := set_used s in
    match s_active s with
    | Some p => if expired_at_handout p now then (s', OErr 1) else (s', OPath p)
    | None => (s', OErr (if s_err s =? 0 then 1 else s_err s))
    end
  end.

Definition run (c : cfg) (s : st) (evs : list ev) : st := fold_left (fun s e => fst (step c s e)) evs s.

(* the outputs along a run *)
Fixpoint outs (c : cfg) (s : st) (evs : list ev) : list out :=
  match evs with
  | [] => []
  | e :: r => let '(s', o) := step c s e in o :: outs c s' r
  end.

End Model.
