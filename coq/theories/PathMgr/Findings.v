(** Witnesses, by computation on the model.
    C06: the three defects repaired in /repo (known_findings/C06.json, "fixed"): the ORIGINAL
    code fragments are restated here and shown to violate the bounds the repaired model is
    proved to keep; and the situations in which the repairs act are shown reachable.
    C07: the two open findings (known_findings/C07.json) -- see the second half. *)
From Sci Require Import PathMgr.Model PathMgr.Spec.
Local Open Scope N_scope.

Definition nodecay : Q -> N -> N -> Q := fun b _ _ => b.
Definition allpol : path -> option bool := fun _ => Some true.

(** * C06 *)
(* PathIssueManager::add_issue before the repair: every non-duplicate report pushes a FIFO
   entry; eviction only through pop_front *)
Definition add_issue_orig (c : cfg) (im : imgr) (i : issue) (m : marker) : imgr :=
  let dup := match cache_get i (im_cache im) with
             | Some ex => (m_ts m - m_ts ex) <? c_dedup c
             | None => false
             end in
  if dup then im else
  let im1 := if c_issue_size c <=? N.of_nat (length (im_cache im)) then fst (pop_front im) else im in
  mkIM (cache_insert i m (im_cache im1)) (im_fifo im1 ++ [(i, m_ts m)]).

Definition report_orig (c : cfg) (im : imgr) (now : N) (i : issue) : imgr :=
  match target_type i with
  | Some t => add_issue_orig c im i (mkMarker t now (penalty i))
  | None => im
  end.

Definition sizes (im : imgr) : nat * nat := (length (im_cache im), length (im_fifo im)).

(* one issue re-reported 50 times, 11 s apart (dedup window 10 s), cache size 4: the FIFO holds
   50 entries for 1 cached issue; ten distinct issues then grow the map to 11 > 4 *)
Definition small_cfg : cfg :=
  mkCfg 1 2 3 100000000000 2000000000 5000000000 30000000000 1000000000 10000000000 2 1 0 4 10000000000 (1 # 10).
Definition rereports : list (N * issue) :=
  map (fun k => (11000000000 * N.of_nat k, IInterfaceDown 10 3)) (seq 0 50).
Definition distinct10 : list (N * issue) :=
  map (fun k => (1000000000000 + N.of_nat k, IInterfaceDown 77 (100 + N.of_nat k))) (seq 0 10).
Lemma orig_fifo_unbounded :
  sizes (fold_left (fun im ti => report_orig small_cfg im (fst ti) (snd ti)) rereports (mkIM [] [])) = (1%nat, 50%nat).
Proof. vm_compute. reflexivity. Qed.
Lemma orig_map_exceeds_max :
  fst (sizes (fold_left (fun im ti => report_orig small_cfg im (fst ti) (snd ti)) (rereports ++ distinct10) (mkIM [] [])))
  = 11%nat.
Proof. vm_compute. reflexivity. Qed.
(* the repaired code on the same reports: the FIFO is compacted at 8 = 2 * 4 entries, the
   eviction loop pops past the stale entries *)
Lemma repaired_issue_memory :
  sizes (s_im (run allpol nodecay small_cfg (init_st small_cfg 0)
                   (map (fun ti => Report (fst ti) (snd ti)) rereports))) = (1%nat, 8%nat)
  /\ sizes (s_im (run allpol nodecay small_cfg (init_st small_cfg 0)
                   (map (fun ti => Report (fst ti) (snd ti)) (rereports ++ distinct10)))) = (4%nat, 4%nat).
Proof. vm_compute. split; reflexivity. Qed.
(* with a zero deduplication window and equal timestamps the debug assertion of pop_front is
   reachable (also in the unrepaired code): the premise of issue_memory_bounded /
   worker_never_panics is needed *)
Lemma zero_window_same_instant_hits_assert :
  let c := mkCfg 1 2 3 100000000000 2000000000 5000000000 30000000000 1000000000 10000000000 2 1 0 2 0 (1 # 10) in
  s_panic (run allpol nodecay c (init_st c 0)
               [Report 5 (IInterfaceDown 10 3); Report 5 (IInterfaceDown 10 3); Report 6 (IInterfaceDown 11 7);
                Report 7 (IInterfaceDown 12 7); Report 8 (IInterfaceDown 13 7)]) = Some P_FIFO_VACANT.
Proof. vm_compute. reflexivity. Qed.

(* hand-out before the repair: the slot as it is *)
Definition hand_out_orig (s : st) : option path := s_active s.
(* default configuration, one path expiring at 301 s, lookups fail from 60 s on: at 302 s the
   slot still holds the expired path (next tick at 487.5 s) *)
Definition P301 : path := mkPath 0 0 1 2 (Some 301) None None None 3.
Definition failing_lookups : list ev :=
  [Tick 0 (AOk [P301]) 0; Send 1; Tick 60000000000 AErr 0; Send 140000000000; Tick 150000000000 AErr 0;
   Send 280000000000; Tick 285000000000 AErr 0].
Lemma orig_hands_out_expired :
  let s := run allpol nodecay (default_cfg 1 2) (init_st (default_cfg 1 2) 0) failing_lookups in
  hand_out_orig s = Some P301 /\ s_next_refetch s = 487500000000
  /\ hand_out s 302000000000 = None.
Proof. vm_compute. exact (conj eq_refl (conj eq_refl eq_refl)). Qed.

(* a successful lookup can leave the cache empty (the situation of the removed expect()):
   the fetched path refreshes the only cached path and is itself expired *)
Definition Pgood : path := mkPath 0 0 1 2 (Some 3700) None None None 3.
Definition Pstale : path := mkPath 1 0 1 2 (Some 10) None None None 3.
Lemma refresh_with_expired_empties_cache :
  let c := default_cfg 1 2 in
  let s := run allpol nodecay c (init_st c 0) [Tick 0 (AOk [Pgood]) 0; Send 1799000000000; Tick 1800000000000 (AOk [Pstale]) 0] in
  s_cached s = [] /\ s_active s = None /\ s_err s = 0 /\ s_next_refetch s = 1860000000000 /\ s_panic s = None.
Proof. vm_compute. exact (conj eq_refl (conj eq_refl (conj eq_refl (conj eq_refl eq_refl)))). Qed.

(** C06-backoff-outlasts-threshold (open).  The validator accepts a backoff ceiling above the
    expiry threshold.  Threshold 60 s, backoff 60 s x 1.5 up to 300 s.  Paths X (expires 500 s,
    2 hops), Y (600 s, 3 hops), Z (9000 s, 4 hops).  The tick at 440 s (= 500 - 60) finds the
    lookup failing, moves the slot from X to Y; the tick at 530 s fails again, Y has 70 s left
    (valid, kept), the next tick is at 665 s.  From 600 s to 665 s the slot holds the expired Y:
    senders get nothing although Z is cached and valid. *)
Definition cfg_bo : cfg :=
  mkCfg 1 2 50 1800000000000 60000000000 60000000000 100000000000000 60000000000 300000000000 3 2 0 100 10000000000 (1 # 2).
Definition PX : path := mkPath 0 0 1 2 (Some 500) None None None 2.
Definition PY : path := mkPath 1 1 1 2 (Some 600) None None None 3.
Definition PZ : path := mkPath 2 2 1 2 (Some 9000) None None None 4.
Lemma backoff_outlasts_threshold :
  cfg_valid cfg_bo = true /\ (c_thresh cfg_bo <? c_bo_max cfg_bo) = true /\
  let evs := [Tick 0 (AOk [PX; PY; PZ]) 0; Send 1000000000; Tick 440000000000 AErr 0; Send 441000000000;
              Tick 530000000000 AErr 0; Send 599000000000; Send 601000000000] in
  let s := run allpol nodecay cfg_bo (init_st cfg_bo 0) evs in
  outs allpol nodecay cfg_bo (init_st cfg_bo 0) evs
    = [OTick true; OPath PX; OTick true; OPath PY; OTick true; OPath PY; ONoPath]
  /\ s_next_refetch s = 665000000000
  /\ existsb (fun e => is_valid cfg_bo 601000000000 (e_path e)) (s_cached s) = true.
Proof. vm_compute. exact (conj eq_refl (conj eq_refl (conj eq_refl (conj eq_refl eq_refl)))). Qed.

(** * C07 -- open findings *)
(* two disjoint 3-hop paths src -> AS(10+id) -> dst *)
Definition mk7 (id e1 e2 : N) : path :=
  mkPath id id 1 2 (Some 20000) (Some [(1, e1); (10 + id, 2); (10 + id, e2); (2, 4)]) (Some (1, e1)) (Some (2, 4)) 3.
Definition PA := mk7 0 1 3.      (* leaves AS 10 through interface 3 *)
Definition PB := mk7 1 5 7.      (* leaves AS 11 through interface 7 *)

(** C07-hysteresis-keeps-failed.  Both paths are cached, PA is in use.  PB's interface is
    reported down at 1 s; at 2 s PA's interface is reported down.  PB is valid and avoids the
    interface that just failed, but both scores are now -1 + 0.094: the gap 0 is below the swap
    threshold 0.5, the active path is KEPT, and the next send still uses the failed interface. *)
Definition hysteresis_history : list ev :=
  [Tick 0 (AOk [PA; PB]) 0; Send 0;
   Report 1000000000 (IInterfaceDown 11 7); Deliver 1000000000;
   Report 2000000000 (IInterfaceDown 10 3); Deliver 2000000000; Send 2000000000].
Lemma hysteresis_keeps_failed :
  let c := default_cfg 1 2 in
  outs allpol nodecay c (init_st c 0) hysteresis_history
  = [OTick true; OPath PA; OReported true; ODelivered true; OReported true; ODelivered true; OPath PA]
  /\ affected (IInterfaceDown 10 3) PA = true /\ affected (IInterfaceDown 10 3) PB = false
  /\ is_valid c 2000000000 PB = true.
Proof. vm_compute. exact (conj eq_refl (conj eq_refl (conj eq_refl eq_refl))). Qed.
(* the same with the real decay shape (30 s later the alternative's penalty has only decayed
   to -0.79): use the halving step function *)
Definition halving (b : Q) (t h : N) : Q := (b * (1 # Pos.pow 2 (N.succ_pos (t / h))) * 2)%Q.
Lemma hysteresis_keeps_failed_after_30s :
  let c := default_cfg 1 2 in
  let evs := [Tick 0 (AOk [PA; PB]) 0; Send 0; Report 1000000000 (IInterfaceDown 11 7); Deliver 1000000000;
              Report 31000000000 (IInterfaceDown 10 3); Deliver 31000000000; Send 31000000000] in
  last (outs allpol halving c (init_st c 0) evs) ONone = OPath PA.
Proof. vm_compute. reflexivity. Qed.

(** C07-ingress-not-matched.  PA enters AS 10 through interface 2 and the destination AS through
    interface 4.  A report that one of these interfaces is down matches nothing: the state is
    unchanged and the next send still uses PA although PB avoids the interface. *)
Lemma ingress_not_matched :
  let c := default_cfg 1 2 in
  let evs i := [Tick 0 (AOk [PA; PB]) 0; Send 0; Report 1000000000 i; Deliver 1000000000; Send 1000000000] in
  last (outs allpol nodecay c (init_st c 0) (evs (IInterfaceDown 10 2))) ONone = OPath PA
  /\ last (outs allpol nodecay c (init_st c 0) (evs (IInterfaceDown 2 4))) ONone = OPath PA
  /\ class_ingress (IInterfaceDown 10 2) PA = true /\ class_ingress (IInterfaceDown 2 4) PA = true
  /\ affected (IInterfaceDown 10 2) PB = false
  /\ matches_path (TInterface 10 None 2) PA = false.
Proof. vm_compute. exact (conj eq_refl (conj eq_refl (conj eq_refl (conj eq_refl (conj eq_refl eq_refl))))). Qed.
