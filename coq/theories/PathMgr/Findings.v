(** Witnesses, by computation on the model.
    C06: the three defects repaired in /repo (known_findings/C06.json, "fixed"): the ORIGINAL
    code fragments are restated here and shown to violate the bounds the repaired model is
    proved to keep; and the situations in which the repairs act are shown reachable.
    C07: the two open findings (known_findings/C07.json) -- see the second half. *)
From Sci Require Import PathMgr.Model PathMgr.Spec.
Local Open Scope N_scope.

Definition nodecay : Q -> N -> N -> Q := fun b _ _ => b.
Definition allpol : path -> option bool := fun _ => Some true.

(** * C06 *)
(* PathIssueManager::add_issue before the repair: every non-duplicate report pushes a FIFO
   entry; eviction only through pop_front *)
Definition add_issue_orig (c : cfg) (im : imgr) (i : issue) (m : marker) : imgr :=
  let dup := match cache_get i (im_cache im) with
             | Some ex => (m_ts m - m_ts ex) <? c_dedup c
             | None => false
             end in
  if dup then im else
  let im1 := if c_issue_size c <=? N.of_nat (length (im_cache im)) then fst (pop_front im) else im in
  mkIM (cache_insert i m (im_cache im1)) (im_fifo im1 ++ [(i, m_ts m)]).

Definition report_orig (c : cfg) (im : imgr) (now : N) (i : issue) : imgr :=
  match target_type i with
  | Some t => add_issue_orig c im i (mkMarker t now (penalty i))
  | None => im
  end.

Definition sizes (im : imgr) : nat * nat := (length (im_cache im), length (im_fifo im)).

(* one issue re-reported 50 times, 11 s apart (dedup window 10 s), cache size 4: the FIFO holds
   50 entries for 1 cached issue; ten distinct issues then grow the map to 11 > 4 *)
Definition small_cfg : cfg :=
  mkCfg 1 2 3 100000000000 2000000000 5000000000 30000000000 1000000000 10000000000 2 1 0 4 10000000000 (1 # 10).
Definition rereports : list (N * issue) :=
  map (fun k => (11000000000 * N.of_nat k, IInterfaceDown 10 3)) (seq 0 50).
Definition distinct10 : list (N * issue) :=
  map (fun k => (1000000000000 + N.of_nat k, IInterfaceDown 77 (100 + N.of_nat k))) (seq 0 10).
Lemma orig_fifo_unbounded :
  sizes (fold_left (fun im ti => report_orig small_cfg im (fst ti) (snd ti)) rereports (mkIM [] [])) = (1%nat, 50%nat).
Proof. vm_compute. reflexivity. Qed.
Lemma orig_map_exceeds_max :
  fst (sizes (fold_left (fun im ti => report_orig small_cfg im (fst ti) (snd ti)) (rereports ++ distinct10) (mkIM [] [])))
  = 11%nat.
Proof. vm_compute. reflexivity. Qed.
(* the repaired code on the same reports *)
Lemma repaired_issue_memory :
  sizes (s_im (run allpol nodecay small_cfg (init_st small_cfg 0)
                   (map (fun ti => Report (fst ti) (snd ti)) (rereports ++ distinct10)))) = (4%nat, 4%nat).
Proof. vm_compute. reflexivity. Qed.

(* hand-out before the repair: the slot as it is *)
Definition hand_out_orig (s : st) : option path := s_active s.
(* default configuration, one path expiring at 301 s, lookups fail from 60 s on: at 302 s the
   slot still holds the expired path (next tick at 487.5 s) *)
Definition P301 : path := mkPath 0 0 1 2 (Some 301) None None None 3.
Definition failing_lookups : list ev :=
  [Tick 0 (AOk [P301]) 0; Send 1; Tick 60000000000 AErr 0; Send 140000000000; Tick 150000000000 AErr 0;
   Send 280000000000; Tick 285000000000 AErr 0].
Lemma orig_hands_out_expired :
  let s := run allpol nodecay (default_cfg 1 2) (init_st (default_cfg 1 2) 0) failing_lookups in
  hand_out_orig s = Some P301 /\ s_next_refetch s = 487500000000
  /\ hand_out s 302000000000 = None.
Proof. vm_compute. exact (conj eq_refl (conj eq_refl eq_refl)). Qed.

(* a successful lookup can leave the cache empty (the situation of the removed expect()):
   the fetched path refreshes the only cached path and is itself expired *)
Definition Pgood : path := mkPath 0 0 1 2 (Some 3700) None None None 3.
Definition Pstale : path := mkPath 1 0 1 2 (Some 10) None None None 3.
Lemma refresh_with_expired_empties_cache :
  let c := default_cfg 1 2 in
  let s := run allpol nodecay c (init_st c 0) [Tick 0 (AOk [Pgood]) 0; Send 1799000000000; Tick 1800000000000 (AOk [Pstale]) 0] in
  s_cached s = [] /\ s_active s = None /\ s_err s = 0 /\ s_next_refetch s = 1860000000000 /\ s_panic s = None.
Proof. vm_compute. exact (conj eq_refl (conj eq_refl (conj eq_refl (conj eq_refl eq_refl)))). Qed.
