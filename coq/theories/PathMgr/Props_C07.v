(** C07 -- reported link failures steer traffic away at once and paths recover later.
    Property theorems only.  Two parts of the property sentence are false of the code and are
    recorded as open findings (known_findings/C07.json; witnesses in [Findings]):
      - C07-hysteresis-keeps-failed: fail-over happens only when a healthy alternative outranks
        every affected path and beats the penalised active path by more than the swap
        threshold; [failover_immediate] states exactly these premises;
      - C07-ingress-not-matched: an interface-down report is matched against EGRESS interfaces
        only; [match_iff_uses_interface] states the reading the code implements. *)
From Coq Require Import Qabs Lqa.
From Sci Require Import PathMgr.Model PathMgr.Spec PathMgr.Proofs PathMgr.Proofs_C07.
Local Open Scope N_scope.

(** On every well-formed path (interface list [src egress; in; eg; ...; dst ingress], every AS
    at most once): an ExternalInterfaceDown(ia, x) report matches exactly the paths that leave
    AS ia through x; an InternalConnectivityDown(ia, g, x) report exactly the paths that cross
    AS ia from g to x; a first-hop send failure exactly the paths whose first egress is that
    interface.  All positions: source AS, transit ASes; the last AS has no egress. *)
Theorem match_iff_uses_interface :
  forall (p : path) (i : issue) (t : target),
    wf_path p = true -> target_type i = Some t ->
    matches_path t p = steers i p.
Proof.
  intros p i t W E. destruct i as [ia x|ia g x|ia x|]; cbn in E; inversion E; subst t; cbn [steers].
  - apply matches_interface_egress. exact W.
  - apply matches_interface_transit. exact W.
  - cbn. unfold iface_is, iface_eqb. destruct (p_first p) as [[a b]|]; reflexivity.
Qed.
Print Assumptions match_iff_uses_interface.

Section C07.
Variable pol : path -> option bool.
Variable decay : Q -> N -> N -> Q.

(** A failure report that matches no cached path changes nothing: the worker's whole state is
    the same after handling it (reliabilities, ranking, active slot, timers); and a report that
    does not match the path in use leaves the active slot and the cached paths as they are. *)
Theorem unmatched_issue_is_noop :
  forall (c : cfg) (s : st) (now : N) (m : marker),
    s_dead s = false -> s_chan s = [] ->
    ((forall e, In e (s_cached s) -> matches_path (m_target m) (e_path e) = false) ->
     step pol decay c s (Direct now m) = (s, ODelivered true)) /\
    ((forall e, In e (s_cached s) ->
                e_fp e = match s_active s with Some a => p_fp a | None => e_fp e + 1 end ->
                matches_path (m_target m) (e_path e) = false) ->
     let s' := fst (step pol decay c s (Direct now m)) in
     s_active s' = s_active s /\ map e_path (s_cached s') = map e_path (s_cached s)).
Proof.
  intros c s now m Hd Hc. unfold step. rewrite Hd, Hc. split.
  - intros H. rewrite (handle_issue_nomatch decay c s now m H Hc). reflexivity.
  - intros H. cbn [fst]. apply handle_issue_active_unhit. exact H.
Qed.

(** Fail-over at once.  The active path [a] is hit by the report (every cached entry with its
    fingerprint matches); some cached path [b], valid at [now], is not matched; after the
    penalties of this report [b] outranks every matched valid path and beats the penalised
    active entry by more than the swap threshold.  Then the report's handling itself moves the
    active slot to a valid path that is not matched, and the very next send returns it. *)
Theorem failover_immediate :
  forall (c : cfg) (s : st) (now : N) (m : marker) (a : path),
    s_dead s = false -> s_chan s = [] ->
    applies_to_path (m_target m) (c_src c) (c_dst c) = true ->
    applies_to_multiple_paths (m_target m) = true ->
    s_active s = Some a ->
    (exists ae, In ae (s_cached s) /\ e_fp ae = p_fp a) ->
    (forall e, In e (s_cached s) -> e_fp e = p_fp a -> matches_path (m_target m) (e_path e) = true) ->
    let cs1 := fst (ingest_all decay m now (Some (p_fp a)) (s_cached s)) in
    forall b, In b cs1 -> is_valid c now (e_path b) = true -> matches_path (m_target m) (e_path b) = false ->
    (forall e, In e cs1 -> matches_path (m_target m) (e_path e) = true -> is_valid c now (e_path e) = true ->
               (total decay e now < total decay b now)%Q) ->
    (forall e, In e cs1 -> e_fp e = p_fp a -> (c_swap c < total decay b now - total decay e now)%Q) ->
    let s' := fst (step pol decay c s (Direct now m)) in
    exists p', s_active s' = Some p' /\ matches_path (m_target m) p' = false /\
               (now / NS < U32 -> snd (step pol decay c s' (Send now)) = OPath p').
Proof.
  intros c s now m a Hd Hc Hap Hmul Ha Hae Hmatch cs1 b Hb Vb Nb Hrank Hgap s'.
  destruct (failover_step decay c s now m a Hap Hmul Ha Hae Hmatch b Hb Vb Nb Hrank Hgap) as (p' & A & B & V).
  assert (Es : s' = handle_issue decay c s now m []).
  { subst s'. unfold step. rewrite Hd, Hc. reflexivity. }
  exists p'. rewrite Es. split; [exact A|]. split; [exact B|].
  intros L. unfold step.
  assert (Hd' : s_dead (handle_issue decay c s now m []) = false).
  { unfold handle_issue, with_cached_active. destruct (negb _); [exact Hd|].
    destruct (ingest_path_issue decay m now _ (s_cached s)) as [cs1' h1].
    destruct (drain decay c now _ [] cs1') as [cs2 h2].
    destruct (h1 || h2); [|exact Hd].
    destruct (maybe_update_active decay c now _ (s_active s)) as [act pn]. exact Hd. }
  rewrite Hd'. unfold hand_out. rewrite A.
  assert (X : expired_at_handout p' now = false).
  { unfold is_valid, check_path_expiry, expiry_ns in V. unfold expired_at_handout.
    destruct (p_exp p') as [x|]; [|reflexivity].
    destruct (x * NS <=? now) eqn:E; [discriminate|]. apply N.leb_gt in E.
    apply N.leb_gt. rewrite N.mod_small by exact L.
    apply N.div_lt_upper_bound; [discriminate|]. lia. }
  rewrite X. reflexivity.
Qed.

(** The same for a report that went through the issue manager ([Report] then the worker's
    [Deliver]): the worker receives the one pending marker and handles it exactly as above. *)
Theorem failover_immediate_delivered :
  forall (c : cfg) (s : st) (now : N) (m : marker),
    s_dead s = false -> s_chan s = [m] ->
    fst (step pol decay c s (Deliver now)) = handle_issue decay c s now m [] /\
    (forall s0, s_dead s0 = false -> s_chan s0 = [] ->
       s_cached s0 = s_cached s -> s_active s0 = s_active s ->
       s_active (fst (step pol decay c s0 (Direct now m))) = s_active (fst (step pol decay c s (Deliver now)))).
Proof.
  intros c s now m Hd Hc. split.
  - unfold step. rewrite Hd, Hc. reflexivity.
  - intros s0 Hd0 Hc0 Ec Ea. unfold step. rewrite Hd, Hc, Hd0, Hc0. cbn [fst].
    unfold handle_issue, with_cached_active. rewrite Ec, Ea.
    destruct (negb _); [cbn; congruence|].
    destruct (ingest_path_issue decay m now (opt_fp (s_active s)) (s_cached s)) as [cs1 h1].
    destruct (drain decay c now (opt_fp (s_active s)) [] cs1) as [cs2 h2].
    destruct (h1 || h2); [|cbn; congruence].
    destruct (maybe_update_active decay c now (rank decay now cs2) (s_active s)) as [act pn]. reflexivity.
Qed.

(** Traffic does not return while the penalty is fresh: whenever the slot is re-evaluated
    (after a lookup, after an issue) and the active path is valid, it stays as long as no
    cached entry's score exceeds the active entry's by more than the swap threshold -- in
    particular as long as a penalised path's reliability is not better than the active one's
    by [swap - 2 * LENGTH_IMPACT]. *)
Theorem no_return_while_fresh :
  forall (c : cfg) (now : N) (cs : list entry) (a : path) (ae : entry),
    check_path_expiry a now (c_thresh c) = Valid ->
    active_entry (Some a) cs = Some ae ->
    (forall e, In e cs ->
       (rel_score decay (e_rel e) now - rel_score decay (e_rel ae) now <= c_swap c - 2 * LENGTH_IMPACT)%Q) ->
    maybe_update_active decay c now cs (Some a) = (Some a, None).
Proof.
  intros c now cs a ae V Ea H. apply (keep_active pol decay c now cs a ae V Ea).
  intros e He. specialize (H e He). unfold total.
  assert (R : forall p, (-1 <= length_score p /\ length_score p <= 1)%Q).
  { intros p. unfold length_score, score_clamped, clampQ. split.
    - apply Q.le_max_l.
    - apply Q.max_lub; [discriminate|apply Q.le_min_l]. }
  destruct (R (e_path e)) as [A1 A2]. destruct (R (e_path ae)) as [B1 B2].
  unfold RELIABILITY_IMPACT, LENGTH_IMPACT in *. lra.
Qed.

(** ... and does become eligible again once the penalty has decayed: for every tolerance there is
    a time after which the path's reliability score is within it of zero (for every decay
    function that vanishes, as 2^(-t/h) does). *)
Theorem eligible_after_decay :
  decay_vanishes decay ->
  forall (r : rel) (eps : Q), (0 < eps)%Q ->
    exists T, forall now, T <= now - r_last r ->
      (- eps <= rel_score decay r now /\ rel_score decay r now <= eps)%Q.
Proof. exact (rel_score_vanishes decay). Qed.

End C07.
Print Assumptions unmatched_issue_is_noop.
Print Assumptions failover_immediate.
Print Assumptions failover_immediate_delivered.
Print Assumptions no_return_while_fresh.
Print Assumptions eligible_after_decay.

(** non-vacuity: the decay hypotheses are satisfiable; a clean fail-over on concrete paths *)
Example decay_hypotheses_satisfiable :
  decay_sign decay_drop /\ decay_id0 decay_drop /\ decay_contracts decay_drop /\ decay_vanishes decay_drop.
Proof. exact (conj decay_drop_sign (conj decay_drop_id0 (conj decay_drop_contracts decay_drop_vanishes))). Qed.

Example failover_run :
  let mk id e1 e2 := mkPath id id 1 2 (Some 20000) (Some [(1, e1); (10 + id, 2); (10 + id, e2); (2, 4)])
                            (Some (1, e1)) (Some (2, 4)) 3 in
  let pa := mk 0 1 3 in let pb := mk 1 5 7 in
  let c := default_cfg 1 2 in
  let evs := [Tick 0 (AOk [pa; pb]) 0; Send 0; Report 5000000000 (IInterfaceDown 10 3); Deliver 5000000000;
              Send 5000000000] in
  outs (fun _ => Some true) decay_drop c (init_st c 0) evs
  = [OTick true; OPath pa; OReported true; ODelivered true; OPath pb].
Proof. vm_compute. reflexivity. Qed.
