(** Lemmas for C06: size bounds of the cache and of the issue memory, the refetch window, liveness
    at hand-out. *)
From Coq Require Import Permutation.
From Sci Require Import PathMgr.Model PathMgr.Proofs.
Local Open Scope N_scope.

Section WithModel.
Variable pol : path -> option bool.
Variable decay : Q -> N -> N -> Q.

(** ** cache size *)
Definition bound (c : cfg) : nat := Nat.max (N.to_nat (c_max_cached c)) 1.

Lemma map_length_eq {A B} (f : A -> B) l1 l2 : map f l1 = map f l2 -> length l1 = length l2.
Proof. intros H. rewrite <- (map_length f l1), <- (map_length f l2), H. reflexivity. Qed.

Lemma update_path_cache_len c s fetched now :
  (length (s_cached s) <= bound c)%nat ->
  (length (fst (fst (fst (update_path_cache decay c s fetched now)))) <= bound c)%nat.
Proof.
  intros H. unfold update_path_cache.
  pose proof (retain_length c now (opt_fp (s_active s)) (s_cached s) (fm_of fetched) (s_active s)) as L.
  destruct (retain c now _ (s_cached s) (fm_of fetched) (s_active s)) as [[cs1 fm] act1]. cbn in L.
  destruct fm as [|q fm']; [cbn; lia|].
  destruct (drain decay c now (opt_fp act1) (s_chan s) cs1) as [cs2 h].
  match goal with |- context [merge_new_paths decay now cs2 ?cands ?afp ?tg] =>
    pose proof (merge_length decay now cs2 cands afp tg) as M;
    destruct (merge_new_paths decay now cs2 cands afp tg) as [cs3 pn'] end.
  cbn in *. exact M.
Qed.

Lemma fetch_and_update_len c s now a jit :
  (length (s_cached s) <= bound c)%nat ->
  (length (s_cached (fetch_and_update pol decay c s now a jit)) <= bound c)%nat.
Proof.
  intros H. unfold fetch_and_update.
  match goal with |- context [update_path_cache decay c s ?f now] =>
    pose proof (update_path_cache_len c s f now H) as L;
    destruct (update_path_cache decay c s f now) as [[[cs act] chan] pn] end.
  cbn in L.
  destruct (maybe_update_active decay c now (rank decay now cs) act) as [act' pn2].
  match goal with |- context [let '(failed, next) := ?x in _] => destruct x as [failed next] end.
  cbn. rewrite rank_length. exact L.
Qed.

Lemma handle_issue_len c s now m rest :
  length (s_cached (handle_issue decay c s now m rest)) = length (s_cached s).
Proof.
  unfold handle_issue. destruct (negb _); [reflexivity|].
  pose proof (ingest_paths decay m now (opt_fp (s_active s)) (s_cached s)) as E1.
  destruct (ingest_path_issue decay m now _ (s_cached s)) as [cs1 hit1]. cbn in E1.
  pose proof (drain_paths decay c now (opt_fp (s_active s)) rest cs1) as E2.
  destruct (drain decay c now _ rest cs1) as [cs2 hit2]. cbn in E2.
  apply map_length_eq in E1, E2.
  destruct (hit1 || hit2).
  - destruct (maybe_update_active decay c now (rank decay now cs2) (s_active s)) as [act pn]. cbn.
    rewrite rank_length. congruence.
  - cbn. congruence.
Qed.

Lemma step_len c s e :
  (length (s_cached s) <= bound c)%nat ->
  (length (s_cached (fst (step pol decay c s e))) <= bound c)%nat.
Proof.
  intros H. unfold step. destruct (s_dead s); [exact H|].
  destruct e as [now a jit|now i|now|now m|now|now]; cbn [fst].
  - unfold maintain. destruct (_ && _); [exact H|].
    destruct (s_next_refetch _ <=? now); cbn [fst].
    + apply fetch_and_update_len. destruct (s_next_idle s <=? now); exact H.
    + destruct (s_next_idle s <=? now); exact H.
  - destruct (target_type i); [|exact H].
    destruct (add_issue c (s_im s) i _) as [[im bc] pn]. exact H.
  - destruct (s_chan s); [exact H|]. cbn [fst]. rewrite handle_issue_len. exact H.
  - rewrite handle_issue_len. exact H.
  - destruct (hand_out s now); exact H.
  - destruct (s_active s); [destruct (expired_at_handout _ _)|]; exact H.
Qed.

Lemma run_len c evs : forall s,
  (length (s_cached s) <= bound c)%nat -> (length (s_cached (run pol decay c s evs)) <= bound c)%nat.
Proof.
  induction evs as [|e r IH]; intros s H; cbn; [exact H|]. apply IH, step_len, H.
Qed.

(** ** refetch window *)
Lemma fetch_and_update_window c s now a jit :
  cfg_valid c = true ->
  let s' := fetch_and_update pol decay c s now a jit in
  now + c_min_delay c <= s_next_refetch s' /\
  s_next_refetch s' <= now + N.max (c_refetch c) (c_bo_max c).
Proof.
  intros V. unfold cfg_valid in V. apply andb_prop in V. destruct V as [V1 V2].
  apply negb_true_iff, N.ltb_ge in V1. apply negb_true_iff, N.ltb_ge in V2.
  unfold fetch_and_update.
  destruct (update_path_cache decay c s _ now) as [[[cs act] chan] pn].
  destruct (maybe_update_active decay c now (rank decay now cs) act) as [act' pn2].
  match goal with |- context [let '(failed, next) := ?x in _] => remember x as fn eqn:Efn end.
  destruct fn as [failed next]. cbn.
  match type of Efn with _ = match ?r with _ => _ end => destruct r end; inv Efn.
  - split; [lia|]. destruct (earliest_expiry cs); lia.
  - unfold backoff_duration. split; lia.
Qed.

(** ** liveness at hand-out *)
Lemma not_expired_at_handout p now x :
  expired_at_handout p now = false -> p_exp p = Some x -> now / NS < U32 -> now < x * NS.
Proof.
  unfold expired_at_handout. intros H E L. rewrite E in H. apply N.leb_gt in H.
  rewrite N.mod_small in H by exact L.
  assert (E1 : now = NS * (now / NS) + now mod NS) by (apply N.div_mod; discriminate).
  assert (E2 : now mod NS < NS) by (apply N.mod_lt; discriminate).
  nia.
Qed.

(** ** issue memory *)
Lemma issue_eqb_eq a b : issue_eqb a b = true <-> a = b.
Proof.
  split.
  - destruct a, b; cbn; intros H; try discriminate; try reflexivity;
      repeat (apply andb_prop in H; destruct H as [H ?]);
      repeat match goal with E : (_ =? _) = true |- _ => apply N.eqb_eq in E; subst end; reflexivity.
  - intros <-. destruct a; cbn; rewrite ?N.eqb_refl; reflexivity.
Qed.
Lemma issue_eqb_refl a : issue_eqb a a = true.
Proof. apply issue_eqb_eq. reflexivity. Qed.
Lemma issue_eqb_neq a b : issue_eqb a b = false <-> a <> b.
Proof.
  split.
  - intros H E. apply issue_eqb_eq in E. congruence.
  - intros H. destruct (issue_eqb a b) eqn:E; [apply issue_eqb_eq in E; contradiction|reflexivity].
Qed.

Notation keys l := (map fst l).

(* the FIFO holds exactly the keys of the cache, each once, with the cached timestamp *)
Record IMInv (im : imgr) : Prop := {
  imi_nodup_c : NoDup (keys (im_cache im));
  imi_nodup_f : NoDup (keys (im_fifo im));
  imi_len : length (im_fifo im) = length (im_cache im);
  imi_ts : forall i ts, In (i, ts) (im_fifo im) -> exists m, cache_get i (im_cache im) = Some m /\ m_ts m = ts }.

Lemma cache_get_In i l m : cache_get i l = Some m -> In i (keys l).
Proof.
  induction l as [|[j m'] r IH]; cbn; [discriminate|].
  destruct (issue_eqb i j) eqn:E; [apply issue_eqb_eq in E; auto|auto].
Qed.
Lemma cache_get_None i l : cache_get i l = None <-> ~ In i (keys l).
Proof.
  induction l as [|[j m'] r IH]; cbn; [tauto|].
  destruct (issue_eqb i j) eqn:E.
  - apply issue_eqb_eq in E. split; [discriminate|]. intros H. destruct H. auto.
  - apply issue_eqb_neq in E. rewrite IH. split; [intros H [G|G]; [congruence|auto]|tauto].
Qed.

Lemma keys_cache_insert_new i m l :
  ~ In i (keys l) -> keys (cache_insert i m l) = keys l ++ [i].
Proof.
  induction l as [|[j m'] r IH]; cbn; [reflexivity|]. intros H.
  destruct (issue_eqb i j) eqn:E; [apply issue_eqb_eq in E; exfalso; apply H; left; congruence|].
  cbn. rewrite IH by tauto. reflexivity.
Qed.
Lemma keys_cache_insert_old i m l :
  In i (keys l) -> keys (cache_insert i m l) = keys l.
Proof.
  induction l as [|[j m'] r IH]; cbn; [tauto|]. intros H.
  destruct (issue_eqb i j) eqn:E; [apply issue_eqb_eq in E; subst; reflexivity|].
  apply issue_eqb_neq in E. cbn. rewrite IH; [reflexivity|]. destruct H; [congruence|assumption].
Qed.
Lemma cache_get_insert_same i m l : cache_get i (cache_insert i m l) = Some m.
Proof.
  induction l as [|[j m'] r IH]; cbn; [rewrite issue_eqb_refl; reflexivity|].
  destruct (issue_eqb i j) eqn:E; cbn; [rewrite issue_eqb_refl; reflexivity|rewrite E; exact IH].
Qed.
Lemma cache_get_insert_other i j m l : i <> j -> cache_get j (cache_insert i m l) = cache_get j l.
Proof.
  intros H. induction l as [|[k m'] r IH]; cbn.
  - apply not_eq_sym in H. apply issue_eqb_neq in H. rewrite H. reflexivity.
  - destruct (issue_eqb i k) eqn:E; cbn.
    + apply issue_eqb_eq in E. subst k. apply not_eq_sym in H. apply issue_eqb_neq in H. rewrite H. reflexivity.
    + destruct (issue_eqb j k); [reflexivity|exact IH].
Qed.

Lemma keys_filter_fifo i (l : list (issue * N)) :
  keys (filter (fun jt => negb (issue_eqb i (fst jt))) l) = filter (fun j => negb (issue_eqb i j)) (keys l).
Proof. induction l as [|[j t] r IH]; cbn; [reflexivity|]. destruct (issue_eqb i j); cbn; rewrite IH; reflexivity. Qed.
Lemma keys_cache_remove i l :
  keys (cache_remove i l) = filter (fun j => negb (issue_eqb i j)) (keys l).
Proof. unfold cache_remove. induction l as [|[j t] r IH]; cbn; [reflexivity|]. destruct (issue_eqb i j); cbn; rewrite IH; reflexivity. Qed.

Lemma filter_remove_length i l :
  NoDup l -> In i l -> S (length (filter (fun j => negb (issue_eqb i j)) l)) = length l.
Proof.
  induction l as [|j r IH]; cbn; [tauto|]. intros N [H|H].
  - subst j. rewrite issue_eqb_refl. cbn. inv N. f_equal.
    assert (G : forall x, In x r -> negb (issue_eqb i x) = true).
    { intros x Hx. apply negb_true_iff, issue_eqb_neq. intros ->. contradiction. }
    clear -G. induction r as [|y r IH]; cbn; [reflexivity|]. rewrite G by (left; reflexivity). cbn. f_equal.
    apply IH. intros x Hx. apply G. right. exact Hx.
  - inv N. destruct (issue_eqb i j) eqn:E; [apply issue_eqb_eq in E; subst; contradiction|].
    cbn. f_equal. apply IH; assumption.
Qed.
Lemma filter_not_In i l : ~ In i (filter (fun j => negb (issue_eqb i j)) l).
Proof. intros H. apply filter_In in H. destruct H as [_ H]. rewrite issue_eqb_refl in H. discriminate. Qed.
Lemma NoDup_filter' {A} (f : A -> bool) l : NoDup l -> NoDup (filter f l).
Proof.
  induction l as [|a r IH]; cbn; intros H; [constructor|]. inv H.
  destruct (f a); [constructor; [rewrite filter_In; tauto|auto]|auto].
Qed.
Lemma NoDup_snoc {A} (l : list A) a : NoDup l -> ~ In a l -> NoDup (l ++ [a]).
Proof.
  induction l as [|b r IH]; cbn; intros H Ha; [constructor; [tauto|constructor]|].
  inv H. constructor.
  - rewrite in_app_iff. cbn. intros [G|[G|[]]]; [contradiction|subst; tauto].
  - apply IH; tauto.
Qed.

Lemma cache_get_remove_other i j l : i <> j -> cache_get j (cache_remove i l) = cache_get j l.
Proof.
  intros H. unfold cache_remove. induction l as [|[k m'] r IH]; cbn; [reflexivity|].
  destruct (issue_eqb i k) eqn:E; cbn.
  - apply issue_eqb_eq in E. subst k. apply not_eq_sym in H. apply issue_eqb_neq in H. rewrite H. exact IH.
  - destruct (issue_eqb j k); [reflexivity|exact IH].
Qed.

(* keys of FIFO and cache coincide as sets *)
Lemma IMInv_keys im : IMInv im -> forall i, In i (keys (im_cache im)) -> In i (keys (im_fifo im)).
Proof.
  intros [Nc Nf L T].
  assert (G : incl (keys (im_cache im)) (keys (im_fifo im))).
  { apply NoDup_length_incl; [exact Nf|rewrite !map_length; lia|].
    intros i Hi. apply in_map_iff in Hi. destruct Hi as [[j ts] [E Hi]]. cbn in E. subst j.
    destruct (T i ts Hi) as (m & G & _). eapply cache_get_In; eauto. }
  exact G.
Qed.

Lemma pop_front_inv im : IMInv im -> IMInv (fst (pop_front im)) /\ snd (pop_front im) = None /\
  (length (im_cache (fst (pop_front im))) = pred (length (im_cache im))).
Proof.
  intros I. pose proof I as [Nc Nf L T]. unfold pop_front.
  destruct (im_fifo im) as [|[i ts] fifo'] eqn:Ef.
  - cbn. split; [exact I|]. split; [reflexivity|]. cbn in L. rewrite <- L. reflexivity.
  - destruct (T i ts (or_introl eq_refl)) as (m & G & Ets). rewrite G, Ets, N.eqb_refl. cbn.
    cbn in Nf. inv Nf.
    assert (Hi : In i (keys (im_cache im))) by (eapply cache_get_In; eauto).
    pose proof (filter_remove_length i _ Nc Hi) as FL. rewrite <- keys_cache_remove in FL.
    rewrite !map_length in FL.
    split; [|split; [reflexivity|lia]].
    constructor; cbn.
    + rewrite keys_cache_remove. apply NoDup_filter', Nc.
    + exact H2.
    + cbn in L. lia.
    + intros j tj Hj. destruct (T j tj (or_intror Hj)) as (mj & Gj & Ej).
      exists mj. split; [|exact Ej]. rewrite cache_get_remove_other; [exact Gj|].
      intros ->. apply H1. apply in_map_iff. exists (j, tj). split; [reflexivity|exact Hj].
Qed.

Lemma add_issue_inv c im i m :
  IMInv im ->
  let r := add_issue c im i m in
  IMInv (fst (fst r)) /\ snd r = None /\
  (length (im_cache (fst (fst r))) <= Nat.max (length (im_cache im)) (Nat.max (N.to_nat (c_issue_size c)) 1))%nat.
Proof.
  intros I. pose proof I as [Nc Nf L T]. unfold add_issue.
  destruct (cache_get i (im_cache im)) as [ex|] eqn:G.
  - destruct (_ <? c_dedup c).
    + cbn. split; [exact I|split; [reflexivity|lia]].
    + cbn.
      assert (Hi : In i (keys (im_cache im))) by (eapply cache_get_In; eauto).
      assert (Hf : In i (keys (im_fifo im))) by (apply IMInv_keys; assumption).
      pose proof (filter_remove_length i _ Nf Hf) as FL. rewrite <- keys_filter_fifo in FL.
      rewrite !map_length in FL.
      assert (Lc : length (cache_insert i m (im_cache im)) = length (im_cache im)).
      { rewrite <- (map_length fst), <- (map_length fst (im_cache im)).
        change (length (keys (cache_insert i m (im_cache im))) = length (keys (im_cache im))).
        rewrite keys_cache_insert_old by exact Hi. reflexivity. }
      split; [|split; [reflexivity|lia]].
      constructor; cbn.
      * rewrite keys_cache_insert_old by exact Hi. exact Nc.
      * rewrite map_app. cbn. apply NoDup_snoc.
        -- change (NoDup (keys (filter (fun jt => negb (issue_eqb i (fst jt))) (im_fifo im)))).
           rewrite keys_filter_fifo. apply NoDup_filter', Nf.
        -- change (~ In i (keys (filter (fun jt => negb (issue_eqb i (fst jt))) (im_fifo im)))).
           rewrite keys_filter_fifo. apply filter_not_In.
      * rewrite app_length. cbn. lia.
      * intros j tj Hj. apply in_app_or in Hj. destruct Hj as [Hj|[Hj|[]]].
        -- apply filter_In in Hj. destruct Hj as [Hj Hne]. cbn in Hne.
           apply negb_true_iff, issue_eqb_neq in Hne.
           destruct (T j tj Hj) as (mj & Gj & Ej). exists mj. split; [|exact Ej].
           rewrite cache_get_insert_other; assumption.
        -- inv Hj. exists m. split; [apply cache_get_insert_same|reflexivity].
  - assert (Hn : ~ In i (keys (im_cache im))) by (apply cache_get_None; exact G).
    set (im1p := if c_issue_size c <=? N.of_nat (length (im_cache im)) then pop_front im else (im, None)).
    assert (P : IMInv (fst im1p) /\ snd im1p = None /\
                (length (im_cache (fst im1p)) <= length (im_cache im))%nat /\
                (S (length (im_cache (fst im1p))) <= Nat.max (length (im_cache im)) (Nat.max (N.to_nat (c_issue_size c)) 1))%nat /\
                ~ In i (keys (im_cache (fst im1p)))).
    { subst im1p. destruct (c_issue_size c <=? N.of_nat (length (im_cache im))) eqn:E.
      - destruct (pop_front_inv im I) as (A & B & C). split; [exact A|]. split; [exact B|].
        split; [lia|]. split.
        + destruct (length (im_cache im)) eqn:El; [|lia]. cbn in C. lia.
        + (* popping removes keys only *)
          unfold pop_front. destruct (im_fifo im) as [|[j ts] fifo']; [exact Hn|].
          destruct (cache_get j (im_cache im)) as [mj|]; [|exact Hn].
          destruct (m_ts mj =? ts); [|exact Hn]. cbn. rewrite keys_cache_remove.
          intros H. apply filter_In in H. tauto.
      - cbn. apply N.leb_gt in E. split; [exact I|]. split; [reflexivity|]. split; [lia|]. split; [lia|exact Hn]. }
    fold im1p. destruct im1p as [im1 pn]. cbn in P. destruct P as (I1 & Pn & L1 & L2 & Hn1). subst pn.
    pose proof I1 as [Nc1 Nf1 Ll1 T1]. cbn.
    assert (Lc : length (cache_insert i m (im_cache im1)) = S (length (im_cache im1))).
    { rewrite <- (map_length fst), <- (map_length fst (im_cache im1)).
      change (length (keys (cache_insert i m (im_cache im1))) = S (length (keys (im_cache im1)))).
      rewrite keys_cache_insert_new by exact Hn1. rewrite app_length. cbn. lia. }
    split; [|split; [reflexivity|lia]].
    constructor; cbn.
    + rewrite keys_cache_insert_new by exact Hn1. apply NoDup_snoc; assumption.
    + rewrite map_app. cbn. apply NoDup_snoc; [exact Nf1|].
      intros H. apply Hn1. change (In i (keys (im_fifo im1))) in H.
      apply in_map_iff in H. destruct H as [[j tj] [E H]]. cbn in E. subst j.
      destruct (T1 i tj H) as (mj & Gj & _). eapply cache_get_In; eauto.
    + rewrite app_length. cbn. lia.
    + intros j tj Hj. apply in_app_or in Hj. destruct Hj as [Hj|[Hj|[]]].
      * destruct (T1 j tj Hj) as (mj & Gj & Ej). exists mj. split; [|exact Ej].
        rewrite cache_get_insert_other; [exact Gj|]. intros ->. apply Hn1. eapply cache_get_In; eauto.
      * inv Hj. exists m. split; [apply cache_get_insert_same|reflexivity].
Qed.

Definition ibound (c : cfg) : nat := Nat.max (N.to_nat (c_issue_size c)) 1.
Definition IMBounded (c : cfg) (s : st) : Prop :=
  IMInv (s_im s) /\ (length (im_cache (s_im s)) <= ibound c)%nat.

Lemma fetch_and_update_im c s now a jit : s_im (fetch_and_update pol decay c s now a jit) = s_im s.
Proof.
  unfold fetch_and_update.
  destruct (update_path_cache decay c s _ now) as [[[cs act] chan] pn].
  destruct (maybe_update_active decay c now (rank decay now cs) act) as [act' pn2].
  match goal with |- context [let '(failed, next) := ?x in _] => destruct x as [failed next] end.
  reflexivity.
Qed.
Lemma handle_issue_im c s now m rest : s_im (handle_issue decay c s now m rest) = s_im s.
Proof.
  unfold handle_issue. destruct (negb _); [reflexivity|].
  destruct (ingest_path_issue decay m now _ (s_cached s)) as [cs1 hit1].
  destruct (drain decay c now _ rest cs1) as [cs2 hit2].
  destruct (hit1 || hit2); [|reflexivity].
  destruct (maybe_update_active decay c now (rank decay now cs2) (s_active s)) as [act pn]. reflexivity.
Qed.

Lemma step_im c s e : IMBounded c s -> IMBounded c (fst (step pol decay c s e)).
Proof.
  intros [I B]. unfold step. destruct (s_dead s); [split; assumption|].
  destruct e as [now a jit|now i|now|now m|now|now]; cbn [fst].
  - unfold maintain. destruct (_ && _); [split; assumption|].
    destruct (s_next_refetch _ <=? now); cbn [fst].
    + unfold IMBounded. rewrite fetch_and_update_im. destruct (s_next_idle s <=? now); split; assumption.
    + destruct (s_next_idle s <=? now); split; assumption.
  - destruct (target_type i) as [t|]; [|split; assumption].
    pose proof (add_issue_inv c (s_im s) i (mkMarker t now (penalty i)) I) as A.
    destruct (add_issue c (s_im s) i _) as [[im bc] pn]. cbn in A. destruct A as (A1 & A2 & A3).
    split; cbn; [exact A1|]. unfold ibound in *. lia.
  - destruct (s_chan s); [split; assumption|]. cbn [fst]. unfold IMBounded. rewrite handle_issue_im. split; assumption.
  - unfold IMBounded. rewrite handle_issue_im. split; assumption.
  - destruct (hand_out s now); split; assumption.
  - destruct (s_active s); [destruct (expired_at_handout _ _)|]; split; assumption.
Qed.

Lemma run_im c evs : forall s, IMBounded c s -> IMBounded c (run pol decay c s evs).
Proof. induction evs as [|e r IH]; intros s H; cbn; [exact H|]. apply IH, step_im, H. Qed.

Lemma init_im c t0 : IMBounded c (init_st c t0).
Proof.
  split; [constructor; cbn; try constructor; try reflexivity; intros i ts []|cbn; unfold ibound; lia].
Qed.

End WithModel.

Section Handout.
Variable pol : path -> option bool.
Variable decay : Q -> N -> N -> Q.

Lemma step_out_live c s e s' p :
  step pol decay c s e = (s', OPath p) ->
  (exists now, e = Send now \/ e = SendWait now) /\ expired_at_handout p (ev_time e) = false.
Proof.
  unfold step. destruct (s_dead s); [discriminate|].
  destruct e as [now a jit|now i|now|now m|now|now]; intros E.
  - unfold maintain in E. destruct (_ && _); [discriminate|].
    destruct (s_next_refetch _ <=? now); discriminate.
  - destruct (target_type i); [|discriminate].
    destruct (add_issue c (s_im s) i _) as [[im bc] pn]. discriminate.
  - destruct (s_chan s); discriminate.
  - discriminate.
  - unfold hand_out in E. destruct (s_active s) as [q|]; [|discriminate].
    destruct (expired_at_handout q now) eqn:X; inv E. split; [exists now; auto|exact X].
  - destruct (s_active s) as [q|]; [|discriminate].
    destruct (expired_at_handout q now) eqn:X; inv E. split; [exists now; auto|exact X].
Qed.

Lemma step_tick_window c s now a jit s' :
  cfg_valid c = true -> step pol decay c s (Tick now a jit) = (s', OTick true) ->
  now + c_min_delay c <= s_next_refetch s' /\ s_next_refetch s' <= now + N.max (c_refetch c) (c_bo_max c).
Proof.
  intros V. unfold step. destruct (s_dead s); [discriminate|].
  unfold maintain. destruct (_ && _); [discriminate|].
  destruct (s_next_refetch _ <=? now); intros E; inv E.
  apply fetch_and_update_window. exact V.
Qed.
End Handout.

(** ** no debug assertion / expect of the worker is reachable *)
Section NoPanic.
Variable pol : path -> option bool.
Variable decay : Q -> N -> N -> Q.

(* the active slot's fingerprint is cached *)
Definition AIp (cs : list entry) (act : option path) : Prop :=
  forall a, act = Some a -> exists e, In e cs /\ e_fp e = p_fp a.

Lemma AIp_None cs : AIp cs None.
Proof. intros a H. discriminate. Qed.

Lemma AIp_paths cs cs' act : map e_path cs' = map e_path cs -> AIp cs act -> AIp cs' act.
Proof.
  intros E H a Ha. destruct (H a Ha) as (e & A & B).
  apply (in_map e_path) in A. rewrite <- E in A. apply in_map_iff in A. destruct A as (e' & A1 & A2).
  exists e'. split; [exact A2|]. unfold e_fp in *. rewrite A1. exact B.
Qed.

Lemma AIp_perm cs cs' act : Permutation cs cs' -> AIp cs act -> AIp cs' act.
Proof.
  intros P H a Ha. destruct (H a Ha) as (e & A & B). exists e. split; [eapply Permutation_in; eauto|exact B].
Qed.

Lemma fm_remove_fp fp fm p fm' : fm_remove fp fm = Some (p, fm') -> p_fp p = fp.
Proof.
  revert p fm'. induction fm as [|q r IH]; intros p fm' E; cbn in E; [discriminate|].
  destruct (p_fp q =? fp) eqn:Eq.
  - inv E. apply N.eqb_eq. exact Eq.
  - destruct (fm_remove fp r) as [[p0 r']|]; [|discriminate]. inv E. eapply IH. reflexivity.
Qed.

Definition has_fp (f : N) (cs : list entry) : bool := existsb (fun e => e_fp e =? f) cs.

Lemma retain_no_fp c now f cs : forall fm act,
  has_fp f cs = false -> snd (retain c now (Some f) cs fm act) = act.
Proof.
  induction cs as [|e r IH]; intros fm act H; cbn; [reflexivity|].
  cbn in H. apply orb_false_iff in H. destruct H as [H1 H2].
  destruct (fm_remove (e_fp e) fm) as [[p fm1]|].
  - rewrite H1.
    specialize (IH fm1 act H2). destruct (retain c now (Some f) r fm1 act) as [[r' fm''] act'']. cbn in *. exact IH.
  - rewrite H1.
    specialize (IH fm act H2). destruct (retain c now (Some f) r fm act) as [[r' fm''] act'']. cbn in *. exact IH.
Qed.

Lemma retain_has_fp c now f cs : forall fm act,
  has_fp f cs = true ->
  let '(cs', _, act') := retain c now (Some f) cs fm act in
  act' = None \/ exists e', In e' cs' /\ e_fp e' = f /\ act' = Some (e_path e').
Proof.
  induction cs as [|e r IH]; intros fm act H; [discriminate|].
  cbn [retain].
  set (efm := match fm_remove (e_fp e) fm with
              | Some (p, fm') => (mkEntry p (e_rel e), fm')
              | None => (e, fm)
              end).
  assert (Hfp : e_fp (fst efm) = e_fp e).
  { subst efm. destruct (fm_remove (e_fp e) fm) as [[p fm1]|] eqn:Er; [|reflexivity].
    cbn. unfold e_fp at 1. cbn. eapply fm_remove_fp. exact Er. }
  destruct efm as [e' fm1]. cbn in Hfp.
  set (keep := negb (is_expired c now (e_path e'))).
  set (act1 := if optN_eq (Some (e_fp e)) (Some f) then (if keep then Some (e_path e') else None) else act).
  destruct (has_fp f r) eqn:Hr.
  - specialize (IH fm1 act1 eq_refl). destruct (retain c now (Some f) r fm1 act1) as [[r' fm''] act''].
    destruct IH as [IH|(x & A & B & C)]; [left; exact IH|].
    right. exists x. split; [destruct keep; [right|]; exact A|]. split; assumption.
  - pose proof (retain_no_fp c now f r fm1 act1 Hr) as Eact.
    destruct (retain c now (Some f) r fm1 act1) as [[r' fm''] act'']. cbn in Eact. subst act''.
    assert (H' : (e_fp e =? f) || has_fp f r = true) by exact H. clear H. rename H' into H.
    rewrite Hr, orb_false_r in H. subst act1. cbn [optN_eq]. rewrite H.
    destruct keep; [|left; reflexivity].
    right. exists e'. split; [left; reflexivity|]. split; [|reflexivity].
    rewrite Hfp. apply N.eqb_eq. exact H.
Qed.

Lemma retain_AIp c now cs fm act cs' fm' act' :
  retain c now (opt_fp act) cs fm act = (cs', fm', act') -> AIp cs act -> AIp cs' act'.
Proof.
  intros E H. destruct act as [a|].
  - cbn in E. destruct (H a eq_refl) as (e & A & B).
    assert (Hh : has_fp (p_fp a) cs = true).
    { unfold has_fp. apply existsb_exists. exists e. split; [exact A|apply N.eqb_eq; exact B]. }
    pose proof (retain_has_fp c now (p_fp a) cs fm (Some a) Hh) as R. rewrite E in R.
    destruct R as [->|(x & X1 & X2 & ->)]; [apply AIp_None|].
    intros a' Ea. inv Ea. exists x. split; [exact X1|reflexivity].
  - cbn in E.
    assert (G : forall cs fm, snd (retain c now None cs fm None) = None).
    { clear. induction cs as [|e r IH]; intros fm; cbn; [reflexivity|].
      destruct (fm_remove (e_fp e) fm) as [[p fm1]|].
      - specialize (IH fm1). destruct (retain c now None r fm1 None) as [[r' fm''] act'']. exact IH.
      - specialize (IH fm). destruct (retain c now None r fm None) as [[r' fm''] act'']. exact IH. }
    specialize (G cs fm). rewrite E in G. cbn in G. subst act'. apply AIp_None.
Qed.

Lemma position_Some fp cs idx :
  position fp cs = Some idx -> exists y, nth_error cs idx = Some y /\ e_fp y = fp.
Proof.
  revert idx. induction cs as [|e r IH]; intros idx H; cbn in H; [discriminate|].
  destruct (e_fp e =? fp) eqn:E.
  - inv H. exists e. split; [reflexivity|apply N.eqb_eq; exact E].
  - destruct (position fp r) as [k|]; [|discriminate]. inv H. apply (IH k eq_refl).
Qed.
Lemma position_None fp cs : position fp cs = None -> forall e, In e cs -> e_fp e <> fp.
Proof.
  induction cs as [|x r IH]; intros H e He; [destruct He|]. cbn in H.
  destruct (e_fp x =? fp) eqn:E; [discriminate|].
  destruct (position fp r) eqn:P; [discriminate|].
  destruct He as [<-|He]; [apply N.eqb_neq; exact E|apply IH; [reflexivity|exact He]].
Qed.
Lemma swap0_head idx cs y : nth_error cs idx = Some y -> exists t, swap0 idx cs = y :: t.
Proof.
  destruct idx as [|k]; destruct cs as [|x r]; cbn; intros H; try discriminate.
  - inv H. eexists; reflexivity.
  - rewrite H. eexists; reflexivity.
Qed.

Lemma merge_AIp now ex nw act target :
  AIp ex act ->
  let r := merge_new_paths decay now ex nw (opt_fp act) target in
  AIp (fst r) act /\ snd r = None.
Proof.
  intros H. unfold merge_new_paths. destruct act as [a|]; cbn [opt_fp option_map].
  - destruct (H a eq_refl) as (e & A & B).
    destruct (position (p_fp a) ex) as [idx|] eqn:P.
    + destruct (position_Some _ _ _ P) as (y & Y1 & Y2).
      destruct (swap0_head idx ex y Y1) as (t & St). rewrite St.
      destruct (merge_take decay now _ _ nw) as [k1 k2]. cbn.
      split; [|reflexivity]. intros a' Ea. inv Ea. exists y. split; [left; reflexivity|exact Y2].
    + exfalso. apply (position_None _ _ P e A B).
  - destruct (merge_take decay now _ _ nw) as [k1 k2]. cbn. split; [apply AIp_None|reflexivity].
Qed.

Lemma maybe_update_active_AIp c now cs act :
  AIp cs act ->
  let r := maybe_update_active decay c now cs act in
  AIp cs (fst r) /\ snd r = None.
Proof.
  intros H. unfold maybe_update_active.
  assert (Hpn : snd (decide decay c now cs act) = None).
  { unfold decide. destruct act as [a|]; [|reflexivity].
    destruct (check_path_expiry a now (c_thresh c)); try reflexivity.
    destruct (best_path c now cs); [|reflexivity].
    destruct (H a eq_refl) as (e1 & A & B).
    unfold active_entry.
    destruct (find (fun e0 => e_fp e0 =? p_fp a) cs) eqn:F.
    - destruct (Qltb _ _); reflexivity.
    - exfalso. pose proof (find_none _ _ F e1 A) as X. cbn in X. rewrite B, N.eqb_refl in X. discriminate. }
  destruct (decide decay c now cs act) as [d pn]. cbn in Hpn. subst pn. cbn. split; [|reflexivity].
  unfold apply_decision.
  assert (Hb : forall b, best_path c now cs = Some b -> AIp cs (Some (e_path b))).
  { intros b E a Ea. inv Ea. exists b. split; [|reflexivity]. unfold best_path in E. apply find_some in E. tauto. }
  destruct (optN_eq _ _).
  - destruct d; [exact H|exact H|apply AIp_None].
  - destruct (best_path c now cs) as [b|] eqn:Eb.
    + destruct d; [exact H| |]; apply Hb; reflexivity.
    + destruct d; [exact H|exact H|apply AIp_None].
Qed.

Definition NP (s : st) : Prop := AIp (s_cached s) (s_active s) /\ IMInv (s_im s) /\ s_panic s = None.

Lemma update_path_cache_AIp c s fetched now :
  AIp (s_cached s) (s_active s) ->
  let r := update_path_cache decay c s fetched now in
  AIp (fst (fst (fst r))) (snd (fst (fst r))) /\ snd r = None.
Proof.
  intros H. unfold update_path_cache.
  destruct (retain c now (opt_fp (s_active s)) (s_cached s) (fm_of fetched) (s_active s)) as [[cs1 fm] act1] eqn:Er.
  pose proof (retain_AIp _ _ _ _ _ _ _ _ Er H) as A1.
  destruct fm as [|q fm']; [cbn; split; [exact A1|reflexivity]|].
  pose proof (drain_paths decay c now (opt_fp act1) (s_chan s) cs1) as Ed.
  destruct (drain decay c now (opt_fp act1) (s_chan s) cs1) as [cs2 h]. cbn in Ed.
  assert (A2 : AIp cs2 act1) by (eapply AIp_paths; eauto).
  match goal with |- context [merge_new_paths decay now cs2 ?cands (opt_fp act1) ?tg] =>
    pose proof (merge_AIp now cs2 cands act1 tg A2) as M;
    destruct (merge_new_paths decay now cs2 cands (opt_fp act1) tg) as [cs3 pn'] end.
  cbn in *. exact M.
Qed.

Lemma fetch_and_update_NP c s now a jit : NP s -> NP (fetch_and_update pol decay c s now a jit).
Proof.
  intros (A & I & Pn). unfold fetch_and_update.
  match goal with |- context [update_path_cache decay c s ?f now] =>
    pose proof (update_path_cache_AIp c s f now A) as U;
    destruct (update_path_cache decay c s f now) as [[[cs act] chan] pn] end.
  cbn in U. destruct U as [U1 U2]. subst pn.
  pose proof (maybe_update_active_AIp c now (rank decay now cs) act
                (AIp_perm _ _ _ (Permutation_sym (rank_perm decay now cs)) U1)) as M.
  destruct (maybe_update_active decay c now (rank decay now cs) act) as [act' pn2]. cbn in M. destruct M as [M1 M2]. subst pn2.
  match goal with |- context [let '(failed, next) := ?x in _] => destruct x as [failed next] end.
  split; [exact M1|]. split; [exact I|]. cbn. rewrite Pn. reflexivity.
Qed.

Lemma handle_issue_NP c s now m rest : NP s -> NP (handle_issue decay c s now m rest).
Proof.
  intros (A & I & Pn). unfold handle_issue, with_cached_active.
  destruct (negb _); [split; [exact A|split; [exact I|cbn; rewrite Pn; reflexivity]]|].
  pose proof (ingest_paths decay m now (opt_fp (s_active s)) (s_cached s)) as E1.
  destruct (ingest_path_issue decay m now _ (s_cached s)) as [cs1 hit1]. cbn in E1.
  pose proof (drain_paths decay c now (opt_fp (s_active s)) rest cs1) as E2.
  destruct (drain decay c now _ rest cs1) as [cs2 hit2]. cbn in E2.
  assert (A2 : AIp cs2 (s_active s)). { eapply AIp_paths; [|exact A]. congruence. }
  destruct (hit1 || hit2).
  - pose proof (maybe_update_active_AIp c now (rank decay now cs2) (s_active s)
                  (AIp_perm _ _ _ (Permutation_sym (rank_perm decay now cs2)) A2)) as M.
    destruct (maybe_update_active decay c now (rank decay now cs2) (s_active s)) as [act pn]. cbn in M.
    destruct M as [M1 M2]. subst pn. split; [exact M1|]. split; [exact I|]. cbn. rewrite Pn. reflexivity.
  - split; [exact A2|]. split; [exact I|]. cbn. rewrite Pn. reflexivity.
Qed.

Lemma step_NP c s e : NP s -> NP (fst (step pol decay c s e)).
Proof.
  intros N0. pose proof N0 as (A & I & Pn). unfold step. destruct (s_dead s); [exact N0|].
  destruct e as [now a jit|now i|now|now m|now|now]; cbn [fst].
  - unfold maintain. destruct (_ && _); [split; [apply AIp_None|split; assumption]|].
    destruct (s_next_refetch _ <=? now); cbn [fst].
    + apply fetch_and_update_NP. destruct (s_next_idle s <=? now); exact N0.
    + destruct (s_next_idle s <=? now); exact N0.
  - destruct (target_type i) as [t|]; [|exact N0].
    pose proof (add_issue_inv c (s_im s) i (mkMarker t now (penalty i)) I) as X.
    destruct (add_issue c (s_im s) i _) as [[im bc] pn]. cbn in X. destruct X as (X1 & X2 & _). subst pn.
    split; [exact A|]. split; [exact X1|]. cbn. rewrite Pn. reflexivity.
  - destruct (s_chan s); [exact N0|]. apply handle_issue_NP, N0.
  - apply handle_issue_NP, N0.
  - destruct (hand_out s now); exact N0.
  - destruct (s_active s); [destruct (expired_at_handout _ _)|]; exact N0.
Qed.

Lemma run_NP c evs : forall s, NP s -> NP (run pol decay c s evs).
Proof. induction evs as [|e r IH]; intros s H; cbn; [exact H|]. apply IH, step_NP, H. Qed.

Lemma init_NP c t0 : NP (init_st c t0).
Proof.
  split; [apply AIp_None|]. split; [|reflexivity].
  constructor; cbn; try constructor; try reflexivity. intros i ts [].
Qed.
End NoPanic.

(** ** the slot is served by a cached entry, fingerprints are unique; a re-evaluation leaves a
       valid path in the slot whenever a valid path is cached *)
Section Served.
Variable pol : path -> option bool.
Variable decay : Q -> N -> N -> Q.

Definition fps (cs : list entry) : list N := map e_fp cs.
Definition Sync (cs : list entry) (act : option path) : Prop :=
  forall a, act = Some a -> exists e, In e cs /\ e_path e = a.

Lemma Sync_None cs : Sync cs None.
Proof. intros a H; discriminate. Qed.
Lemma Sync_AIp cs act : Sync cs act -> AIp cs act.
Proof. intros H a Ha. destruct (H a Ha) as (e & A & B). exists e. split; [exact A|]. unfold e_fp. rewrite B. reflexivity. Qed.

Lemma fps_paths cs cs' : map e_path cs' = map e_path cs -> fps cs' = fps cs.
Proof.
  intros E. unfold fps, e_fp. rewrite <- (map_map e_path p_fp cs'), <- (map_map e_path p_fp cs), E. reflexivity.
Qed.
Lemma Sync_paths cs cs' act : map e_path cs' = map e_path cs -> Sync cs act -> Sync cs' act.
Proof.
  intros E H a Ha. destruct (H a Ha) as (e & A & B).
  apply (in_map e_path) in A. rewrite <- E in A. apply in_map_iff in A. destruct A as (e' & A1 & A2).
  exists e'. split; [exact A2|congruence].
Qed.
Lemma Sync_perm cs cs' act : Permutation cs cs' -> Sync cs act -> Sync cs' act.
Proof. intros P H a Ha. destruct (H a Ha) as (e & A & B). exists e. split; [eapply Permutation_in; eauto|exact B]. Qed.

Lemma NoDup_fp_inj cs e y : NoDup (fps cs) -> In e cs -> In y cs -> e_fp e = e_fp y -> e = y.
Proof.
  induction cs as [|x r IH]; intros N He Hy E; [destruct He|]. cbn in N. inv N.
  destruct He as [<-|He], Hy as [<-|Hy]; try reflexivity.
  - exfalso. apply H1. rewrite E. apply in_map. exact Hy.
  - exfalso. apply H1. rewrite <- E. apply in_map. exact He.
  - apply IH; assumption.
Qed.

(* re-evaluation *)
Lemma reeval_valid c now cs act :
  NoDup (fps cs) -> Sync cs act ->
  (exists e, In e cs /\ is_valid c now (e_path e) = true) ->
  exists p, fst (maybe_update_active decay c now cs act) = Some p /\ is_valid c now p = true.
Proof.
  intros ND Sy (v & Hv & Vv). unfold maybe_update_active.
  destruct (find (fun e => is_valid c now (e_path e)) cs) as [b|] eqn:Fb.
  2:{ exfalso. pose proof (find_none _ _ Fb v Hv) as X. cbn in X. congruence. }
  pose proof Fb as Fb'. apply find_some in Fb'. destruct Fb' as [Inb Vb].
  assert (Eb : best_path c now cs = Some b) by exact Fb.
  destruct (decide decay c now cs act) as [d pn] eqn:Ed. cbn [fst]. rewrite Eb.
  unfold apply_decision. destruct act as [a|]; cbn [opt_fp option_map optN_eq].
  - destruct (p_fp a =? e_fp b) eqn:Ef.
    + (* the best entry is the active one: the slot's path is its path *)
      apply N.eqb_eq in Ef. destruct (Sy a eq_refl) as (ea & A1 & A2).
      assert (ea = b). { apply (NoDup_fp_inj cs); try assumption. unfold e_fp. rewrite A2. exact Ef. }
      subst ea. subst a.
      assert (d <> ForceReplace).
      { unfold decide in Ed. unfold is_valid in Vb. destruct (check_path_expiry (e_path b) now (c_thresh c)); try discriminate.
        rewrite Eb in Ed. destruct (active_entry _ cs); [destruct (Qltb _ _)|]; inv Ed; discriminate. }
      exists (e_path b). split; [destruct d; try reflexivity; congruence|exact Vb].
    + destruct d eqn:Dd.
      * (* NoChange only for a valid active path *)
        exists a. split; [reflexivity|]. unfold decide in Ed. unfold is_valid.
        destruct (check_path_expiry a now (c_thresh c)); [reflexivity| |]; rewrite ?Eb in Ed; inv Ed.
      * exists (e_path b). split; [reflexivity|exact Vb].
      * exists (e_path b). split; [reflexivity|exact Vb].
  - unfold decide in Ed. inv Ed. exists (e_path b). split; [reflexivity|exact Vb].
Qed.

(* --- preservation of uniqueness and of Sync --- *)
Lemma retain_fps_incl c now afp cs : forall fm act x,
  In x (fst (fst (retain c now afp cs fm act))) -> In (e_fp x) (fps cs).
Proof.
  induction cs as [|e r IH]; intros fm act x; cbn; [tauto|].
  destruct (fm_remove (e_fp e) fm) as [[p fm1]|] eqn:Er.
  - match goal with |- context [retain c now afp r fm1 ?a] => specialize (IH fm1 a x);
      destruct (retain c now afp r fm1 a) as [[r' fm''] act''] end.
    cbn in *. destruct (negb _); cbn; intros H.
    + destruct H as [<-|H]; [left; unfold e_fp; cbn; symmetry; eapply fm_remove_fp; eauto|right; auto].
    + right; auto.
  - match goal with |- context [retain c now afp r fm ?a] => specialize (IH fm a x);
      destruct (retain c now afp r fm a) as [[r' fm''] act''] end.
    cbn in *. destruct (negb _); cbn; intros H.
    + destruct H as [<-|H]; [left; reflexivity|right; auto].
    + right; auto.
Qed.

Lemma retain_NoDup c now afp cs : forall fm act,
  NoDup (fps cs) -> NoDup (fps (fst (fst (retain c now afp cs fm act)))).
Proof.
  induction cs as [|e r IH]; intros fm act N; cbn; [constructor|]. cbn in N. inv N.
  destruct (fm_remove (e_fp e) fm) as [[p fm1]|] eqn:Er.
  - match goal with |- context [retain c now afp r fm1 ?a] =>
      pose proof (retain_fps_incl c now afp r fm1 a) as Inc; specialize (IH fm1 a H2);
      destruct (retain c now afp r fm1 a) as [[r' fm''] act''] end.
    cbn in *. destruct (negb _); cbn; [|exact IH].
    constructor; [|exact IH]. unfold e_fp at 1. cbn. rewrite (fm_remove_fp _ _ _ _ Er).
    intros X. apply in_map_iff in X. destruct X as (y & Y1 & Y2). apply H1. rewrite <- Y1. apply Inc. exact Y2.
  - match goal with |- context [retain c now afp r fm ?a] =>
      pose proof (retain_fps_incl c now afp r fm a) as Inc; specialize (IH fm a H2);
      destruct (retain c now afp r fm a) as [[r' fm''] act''] end.
    cbn in *. destruct (negb _); cbn; [|exact IH].
    constructor; [|exact IH].
    intros X. apply in_map_iff in X. destruct X as (y & Y1 & Y2). apply H1. rewrite <- Y1. apply Inc. exact Y2.
Qed.

(* fetched map: unique fingerprints *)
Lemma fm_insert_fps p fm x : In x (map p_fp (fm_insert p fm)) <-> x = p_fp p \/ In x (map p_fp fm).
Proof.
  induction fm as [|q r IH]; cbn; [intuition|].
  destruct (p_fp q =? p_fp p) eqn:E; cbn.
  - apply N.eqb_eq in E. rewrite E. intuition.
  - rewrite IH. intuition.
Qed.
Lemma fm_insert_NoDup p fm : NoDup (map p_fp fm) -> NoDup (map p_fp (fm_insert p fm)).
Proof.
  induction fm as [|q r IH]; cbn; intros N; [repeat constructor; intros []|]. inv N.
  destruct (p_fp q =? p_fp p) eqn:E; cbn.
  - apply N.eqb_eq in E. constructor; [rewrite <- E; exact H1|exact H2].
  - constructor; [|apply IH; exact H2]. rewrite fm_insert_fps. intros [X|X]; [apply N.eqb_neq in E; congruence|contradiction].
Qed.
Lemma fm_of_NoDup ps : NoDup (map p_fp (fm_of ps)).
Proof.
  unfold fm_of. assert (G : forall acc, NoDup (map p_fp acc) -> NoDup (map p_fp (fold_left (fun fm p => fm_insert p fm) ps acc))).
  { induction ps as [|p r IH]; intros acc N; cbn; [exact N|]. apply IH, fm_insert_NoDup, N. }
  apply G. constructor.
Qed.

Lemma fm_remove_spec fp fm p fm' :
  fm_remove fp fm = Some (p, fm') -> NoDup (map p_fp fm) ->
  NoDup (map p_fp fm') /\ ~ In fp (map p_fp fm') /\ (forall x, In x (map p_fp fm') -> In x (map p_fp fm)).
Proof.
  revert p fm'. induction fm as [|q r IH]; intros p fm' E N; cbn in E; [discriminate|]. cbn in N. inv N.
  destruct (p_fp q =? fp) eqn:Eq.
  - inv E. apply N.eqb_eq in Eq. subst fp. split; [exact H2|]. split; [exact H1|]. intros x Hx. right. exact Hx.
  - destruct (fm_remove fp r) as [[p0 r']|] eqn:E0; [|discriminate]. inv E.
    destruct (IH _ _ eq_refl H2) as (A & B & C). cbn. split.
    + constructor; [intros X; apply H1, C, X|exact A].
    + split; [intros [X|X]; [apply N.eqb_neq in Eq; congruence|contradiction]|].
      intros x [X|X]; [left; exact X|right; apply C, X].
Qed.
Lemma fm_remove_none fp fm : fm_remove fp fm = None -> ~ In fp (map p_fp fm).
Proof.
  induction fm as [|q r IH]; cbn; [tauto|]. destruct (p_fp q =? fp) eqn:Eq; [discriminate|].
  destruct (fm_remove fp r) as [[p0 r']|]; [discriminate|]. intros _ [X|X]; [apply N.eqb_neq in Eq; congruence|apply IH; auto].
Qed.

(* after the retain pass the remaining fetched paths are new: none of them has the fingerprint
   of a cached entry *)
Lemma retain_fm_fresh c now afp cs : forall fm act,
  NoDup (map p_fp fm) ->
  let r := retain c now afp cs fm act in
  NoDup (map p_fp (snd (fst r))) /\
  (forall x, In x (map p_fp (snd (fst r))) -> In x (map p_fp fm) /\ ~ In x (fps cs)).
Proof.
  induction cs as [|e r IH]; intros fm act N; cbn; [split; [exact N|intros x Hx; split; [exact Hx|intros []]]|].
  destruct (fm_remove (e_fp e) fm) as [[p fm1]|] eqn:Er.
  - destruct (fm_remove_spec _ _ _ _ Er N) as (N1 & F1 & I1).
    match goal with |- context [retain c now afp r fm1 ?a] => specialize (IH fm1 a N1);
      destruct (retain c now afp r fm1 a) as [[r' fm''] act''] end.
    cbn in *. destruct IH as [A B]. split; [exact A|]. intros x Hx. destruct (B x Hx) as [B1 B2].
    split; [apply I1, B1|]. intros [X|X]; [subst x; contradiction|contradiction].
  - pose proof (fm_remove_none _ _ Er) as F1.
    match goal with |- context [retain c now afp r fm ?a] => specialize (IH fm a N);
      destruct (retain c now afp r fm a) as [[r' fm''] act''] end.
    cbn in *. destruct IH as [A B]. split; [exact A|]. intros x Hx. destruct (B x Hx) as [B1 B2].
    split; [exact B1|]. intros [X|X]; [subst x; contradiction|contradiction].
Qed.

Lemma In_firstn {A} n (l : list A) x : In x (firstn n l) -> In x l.
Proof.
  revert n. induction l as [|a l IH]; intros n H; [rewrite firstn_nil in H; exact H|].
  destruct n; cbn in H; [destruct H|]. destruct H as [H|H]; [left; exact H|right; eapply IH; exact H].
Qed.
Lemma NoDup_firstn' {A} n (l : list A) : NoDup l -> NoDup (firstn n l).
Proof.
  revert n. induction l as [|a l IH]; intros n N; [rewrite firstn_nil; constructor|].
  destruct n; cbn; [constructor|]. inv N. constructor; [|apply IH; assumption].
  intros X. apply H1. eapply In_firstn. exact X.
Qed.

Lemma NoDup_app_intro {A} (l1 l2 : list A) :
  NoDup l1 -> NoDup l2 -> (forall x, In x l1 -> ~ In x l2) -> NoDup (l1 ++ l2).
Proof.
  induction l1 as [|a l IH]; intros N1 N2 D; [exact N2|]. inv N1. cbn. constructor.
  - rewrite in_app_iff. intros [X|X]; [contradiction|]. apply (D a (or_introl eq_refl) X).
  - apply IH; [assumption|assumption|]. intros x Hx. apply D. right. exact Hx.
Qed.

Lemma merge_NoDup now ex nw afp target :
  NoDup (fps ex) -> NoDup (fps nw) -> (forall x, In x (fps nw) -> ~ In x (fps ex)) ->
  NoDup (fps (fst (merge_new_paths decay now ex nw afp target))).
Proof.
  intros N1 N2 D. unfold merge_new_paths.
  set (pre := match afp with
              | Some fp => match position fp ex with
                           | Some idx => (swap0 idx ex, 1%nat, None)
                           | None => (ex, 0%nat, Some P_MERGE_ACTIVE)
                           end
              | None => (ex, 0%nat, None)
              end).
  assert (Hp : Permutation (fst (fst pre)) ex).
  { subst pre. destruct afp as [fp|]; [|reflexivity]. destruct (position fp ex); [|reflexivity]. cbn. apply swap0_perm. }
  destruct pre as [[ex1 ke0] pn]. cbn in Hp.
  destruct (merge_take decay now _ _ nw) as [k1 k2]. cbn.
  unfold fps. rewrite map_app. apply NoDup_app_intro.
  - rewrite <- firstn_map. apply NoDup_firstn'. eapply Permutation_NoDup; [symmetry; apply Permutation_map; exact Hp|exact N1].
  - rewrite <- firstn_map. apply NoDup_firstn', N2.
  - intros x H1 H2. rewrite <- firstn_map in H1, H2. apply In_firstn in H1. apply In_firstn in H2.
    apply (D x H2). eapply Permutation_in; [apply Permutation_map; exact Hp|exact H1].
Qed.

Lemma merge_Sync now ex nw act target :
  NoDup (fps ex) -> Sync ex act -> Sync (fst (merge_new_paths decay now ex nw (opt_fp act) target)) act.
Proof.
  intros N H. unfold merge_new_paths. destruct act as [a|]; cbn [opt_fp option_map]; [|intros a Ha; discriminate].
  destruct (H a eq_refl) as (e & A & B).
  destruct (position (p_fp a) ex) as [idx|] eqn:P.
  - destruct (position_Some _ _ _ P) as (y & Y1 & Y2).
    assert (y = e).
    { apply (NoDup_fp_inj ex); [exact N|eapply nth_error_In; eauto|exact A|]. unfold e_fp at 2. rewrite B. exact Y2. }
    subst y. destruct (swap0_head idx ex e Y1) as (t & St). rewrite St.
    destruct (merge_take decay now _ _ nw) as [k1 k2]. cbn.
    intros a' Ea. inv Ea. exists e. split; [left; reflexivity|reflexivity].
  - exfalso. apply (position_None _ _ P e A). unfold e_fp. rewrite B. reflexivity.
Qed.

Definition SI (s : st) : Prop := NoDup (fps (s_cached s)) /\ Sync (s_cached s) (s_active s).

Lemma update_path_cache_SI c s fetched now :
  SI s ->
  let r := update_path_cache decay c s fetched now in
  NoDup (fps (fst (fst (fst r)))) /\ Sync (fst (fst (fst r))) (snd (fst (fst r))).
Proof.
  intros [N Sy]. unfold update_path_cache.
  pose proof (retain_NoDup c now (opt_fp (s_active s)) (s_cached s) (fm_of fetched) (s_active s) N) as N1.
  pose proof (retain_fm_fresh c now (opt_fp (s_active s)) (s_cached s) (fm_of fetched) (s_active s) (fm_of_NoDup fetched)) as F.
  pose proof (retain_fps_incl c now (opt_fp (s_active s)) (s_cached s) (fm_of fetched) (s_active s)) as Inc.
  assert (Sy1 : Sync (fst (fst (retain c now (opt_fp (s_active s)) (s_cached s) (fm_of fetched) (s_active s))))
                     (snd (retain c now (opt_fp (s_active s)) (s_cached s) (fm_of fetched) (s_active s)))).
  { destruct (s_active s) as [a|] eqn:Ea.
    - cbn [opt_fp option_map]. destruct (Sy a eq_refl) as (e & A & B).
      assert (Hh : has_fp (p_fp a) (s_cached s) = true).
      { unfold has_fp. apply existsb_exists. exists e. split; [exact A|]. unfold e_fp. rewrite B. apply N.eqb_refl. }
      pose proof (retain_has_fp c now (p_fp a) (s_cached s) (fm_of fetched) (Some a) Hh) as R.
      destruct (retain c now (Some (p_fp a)) (s_cached s) (fm_of fetched) (Some a)) as [[cs' fm'] act']. cbn.
      destruct R as [->|(x & X1 & X2 & ->)]; [apply Sync_None|].
      intros a' E. inv E. exists x. split; [exact X1|reflexivity].
    - cbn [opt_fp option_map].
      assert (G : forall cs fm, snd (retain c now None cs fm None) = None).
      { clear. induction cs as [|e r IH]; intros fm; cbn; [reflexivity|].
        destruct (fm_remove (e_fp e) fm) as [[p fm1]|].
        - specialize (IH fm1). destruct (retain c now None r fm1 None) as [[r' fm''] act'']. exact IH.
        - specialize (IH fm). destruct (retain c now None r fm None) as [[r' fm''] act'']. exact IH. }
      rewrite G. apply Sync_None. }
  destruct (retain c now (opt_fp (s_active s)) (s_cached s) (fm_of fetched) (s_active s)) as [[cs1 fm] act1].
  cbn in N1, F, Inc, Sy1. destruct F as [F1 F2].
  destruct fm as [|q fm']; [cbn; split; assumption|].
  pose proof (drain_paths decay c now (opt_fp act1) (s_chan s) cs1) as Ed.
  destruct (drain decay c now (opt_fp act1) (s_chan s) cs1) as [cs2 h]. cbn in Ed.
  assert (N2 : NoDup (fps cs2)) by (rewrite (fps_paths _ _ Ed); exact N1).
  assert (Sy2 : Sync cs2 act1) by (eapply Sync_paths; eauto).
  set (cands := rank decay now (map (fun p => apply_cached_issues decay (s_im s) (mkEntry p (mkRel 0 now)) now) (q :: fm'))).
  assert (Pc : Permutation (fps cands) (map p_fp (q :: fm'))).
  { subst cands. unfold fps. etransitivity; [apply Permutation_map, rank_perm|].
    generalize (q :: fm'). intros L. rewrite map_map.
    replace (map (fun x => e_fp (apply_cached_issues decay (s_im s) (mkEntry x (mkRel 0 now)) now)) L) with (map p_fp L); [reflexivity|].
    apply map_ext. intros p. unfold e_fp. rewrite apply_cached_issues_path. reflexivity. }
  assert (Nc : NoDup (fps cands)) by (eapply Permutation_NoDup; [symmetry; exact Pc|exact F1]).
  assert (Dc : forall x, In x (fps cands) -> ~ In x (fps cs2)).
  { intros x Hx Hx2. assert (Hf : In x (map p_fp (q :: fm'))) by (eapply Permutation_in; eauto).
    destruct (F2 x Hf) as [_ Nin]. apply Nin. rewrite (fps_paths _ _ Ed) in Hx2.
    unfold fps in Hx2. apply in_map_iff in Hx2. destruct Hx2 as (y & Y1 & Y2). rewrite <- Y1. apply Inc. exact Y2. }
  pose proof (merge_NoDup now cs2 cands (opt_fp act1) (c_max_cached c) N2 Nc Dc) as M1.
  pose proof (merge_Sync now cs2 cands act1 (c_max_cached c) N2 Sy2) as M2.
  fold cands. destruct (merge_new_paths decay now cs2 cands (opt_fp act1) (c_max_cached c)) as [cs3 pn']. cbn in *.
  split; assumption.
Qed.

Lemma maybe_update_active_Sync c now cs act :
  Sync cs act -> Sync cs (fst (maybe_update_active decay c now cs act)).
Proof.
  intros H. unfold maybe_update_active. destruct (decide decay c now cs act) as [d pn]. cbn.
  unfold apply_decision.
  assert (Hb : forall b, best_path c now cs = Some b -> Sync cs (Some (e_path b))).
  { intros b E a Ea. inv Ea. exists b. split; [|reflexivity]. unfold best_path in E. apply find_some in E. tauto. }
  destruct (optN_eq _ _).
  - destruct d; [exact H|exact H|apply Sync_None].
  - destruct (best_path c now cs) as [b|] eqn:Eb.
    + destruct d; [exact H| |]; apply Hb; reflexivity.
    + destruct d; [exact H|exact H|apply Sync_None].
Qed.

Lemma rank_fps_NoDup now cs : NoDup (fps cs) -> NoDup (fps (rank decay now cs)).
Proof. intros N. eapply Permutation_NoDup; [symmetry; apply Permutation_map, rank_perm|exact N]. Qed.

Lemma fetch_and_update_SI c s now a jit : SI s -> SI (fetch_and_update pol decay c s now a jit).
Proof.
  intros I. unfold fetch_and_update.
  match goal with |- context [update_path_cache decay c s ?f now] =>
    pose proof (update_path_cache_SI c s f now I) as U;
    destruct (update_path_cache decay c s f now) as [[[cs act] chan] pn] end.
  cbn in U. destruct U as [U1 U2].
  pose proof (maybe_update_active_Sync c now (rank decay now cs) act
                (Sync_perm _ _ _ (Permutation_sym (rank_perm decay now cs)) U2)) as M.
  destruct (maybe_update_active decay c now (rank decay now cs) act) as [act' pn2]. cbn in M.
  match goal with |- context [let '(failed, next) := ?x in _] => destruct x as [failed next] end.
  split; cbn; [apply rank_fps_NoDup; exact U1|exact M].
Qed.

Lemma handle_issue_SI c s now m rest : SI s -> SI (handle_issue decay c s now m rest).
Proof.
  intros [N Sy]. unfold handle_issue, with_cached_active.
  destruct (negb _); [split; assumption|].
  pose proof (ingest_paths decay m now (opt_fp (s_active s)) (s_cached s)) as E1.
  destruct (ingest_path_issue decay m now _ (s_cached s)) as [cs1 hit1]. cbn in E1.
  pose proof (drain_paths decay c now (opt_fp (s_active s)) rest cs1) as E2.
  destruct (drain decay c now _ rest cs1) as [cs2 hit2]. cbn in E2.
  assert (E : map e_path cs2 = map e_path (s_cached s)) by congruence.
  assert (N2 : NoDup (fps cs2)) by (rewrite (fps_paths _ _ E); exact N).
  assert (S2 : Sync cs2 (s_active s)) by (eapply Sync_paths; eauto).
  destruct (hit1 || hit2).
  - pose proof (maybe_update_active_Sync c now (rank decay now cs2) (s_active s)
                  (Sync_perm _ _ _ (Permutation_sym (rank_perm decay now cs2)) S2)) as M.
    destruct (maybe_update_active decay c now (rank decay now cs2) (s_active s)) as [act pn]. cbn in M.
    split; cbn; [apply rank_fps_NoDup; exact N2|exact M].
  - split; assumption.
Qed.

Lemma step_SI c s e : SI s -> SI (fst (step pol decay c s e)).
Proof.
  intros I. pose proof I as [N Sy]. unfold step. destruct (s_dead s); [exact I|].
  destruct e as [now a jit|now i|now|now m|now|now]; cbn [fst].
  - unfold maintain. destruct (_ && _); [split; [exact N|apply Sync_None]|].
    destruct (s_next_refetch _ <=? now); cbn [fst].
    + apply fetch_and_update_SI. destruct (s_next_idle s <=? now); exact I.
    + destruct (s_next_idle s <=? now); exact I.
  - destruct (target_type i) as [t|]; [|exact I].
    destruct (add_issue c (s_im s) i _) as [[im bc] pn]. exact I.
  - destruct (s_chan s); [exact I|]. apply handle_issue_SI, I.
  - apply handle_issue_SI, I.
  - destruct (hand_out s now); exact I.
  - destruct (s_active s); [destruct (expired_at_handout _ _)|]; exact I.
Qed.

Lemma run_SI c evs : forall s, SI s -> SI (run pol decay c s evs).
Proof. induction evs as [|e r IH]; intros s H; cbn; [exact H|]. apply IH, step_SI, H. Qed.
Lemma init_SI c t0 : SI (init_st c t0).
Proof. split; [constructor|apply Sync_None]. Qed.

(* earliest_expiry is a lower bound of every cached expiry *)
Lemma earliest_expiry_le cs e x :
  In e cs -> p_exp (e_path e) = Some x -> exists m, earliest_expiry cs = Some m /\ m <= x.
Proof.
  unfold earliest_expiry.
  assert (G : forall cs acc, (forall a, acc = Some a -> exists m, fold_left (fun acc e => match p_exp (e_path e) with
                          | Some x => match acc with Some a => Some (N.min a x) | None => Some x end
                          | None => acc end) cs acc = Some m /\ m <= a)).
  { induction cs0 as [|y r IH]; intros acc a Ha; cbn; [exists a; split; [exact Ha|lia]|].
    subst acc. destruct (p_exp (e_path y)) as [z|].
    - destruct (IH (Some (N.min a z)) _ eq_refl) as (m & M1 & M2). exists m. split; [exact M1|lia].
    - apply IH. reflexivity. }
  revert e x. induction cs as [|y r IH]; intros e x He Hx; [destruct He|]. cbn.
  destruct He as [<-|He].
  - rewrite Hx. apply (G r (Some x) x eq_refl).
  - destruct (p_exp (e_path y)) as [z|].
    + (* generalise over the accumulator *)
      clear IH.
      assert (K : forall r acc, In e r -> exists m, fold_left (fun acc e => match p_exp (e_path e) with
                          | Some x => match acc with Some a => Some (N.min a x) | None => Some x end
                          | None => acc end) r acc = Some m /\ m <= x).
      { induction r0 as [|w r0 IHr]; intros acc Hin; [destruct Hin|]. cbn. destruct Hin as [<-|Hin].
        - rewrite Hx. destruct acc as [a|].
          + destruct (G r0 (Some (N.min a x)) _ eq_refl) as (m & M1 & M2). exists m. split; [exact M1|lia].
          + apply (G r0 (Some x) x eq_refl).
        - apply IHr. exact Hin. }
      apply K. exact He.
    + apply (IH e x He Hx).
Qed.

Lemma valid_expiry c now p : is_valid c now p = true -> exists x, p_exp p = Some x /\ now + c_thresh c < x * NS.
Proof.
  unfold is_valid, check_path_expiry, expiry_ns. destruct (p_exp p) as [x|].
  - intros H. exists x. split; [reflexivity|].
    destruct (x * NS <=? now) eqn:E1; [discriminate|]. apply N.leb_gt in E1.
    destruct (x * NS - now <=? c_thresh c) eqn:E2; [discriminate|]. apply N.leb_gt in E2. lia.
  - intros H. exfalso. change (0 * NS) with 0 in H. destruct now; cbn in H; discriminate.
Qed.

(* after a lookup: if a valid path is cached the slot holds a valid path, and it outlives the
   time of the next scheduled lookup *)
Lemma fetch_serves c s now a jit :
  cfg_valid c = true -> c_bo_max c <= c_thresh c -> SI s ->
  let s' := fetch_and_update pol decay c s now a jit in
  (exists e, In e (s_cached s') /\ is_valid c now (e_path e) = true) ->
  exists p x, s_active s' = Some p /\ is_valid c now p = true /\ p_exp p = Some x /\
              s_next_refetch s' <= x * NS /\ s_dead s' = false.
Proof.
  intros V Hbo I. unfold cfg_valid in V. apply andb_prop in V. destruct V as [V1 V2].
  apply negb_true_iff, N.ltb_ge in V1. apply negb_true_iff, N.ltb_ge in V2.
  unfold fetch_and_update.
  match goal with |- context [update_path_cache decay c s ?f now] =>
    pose proof (update_path_cache_SI c s f now I) as U;
    destruct (update_path_cache decay c s f now) as [[[cs act] chan] pn] end.
  cbn in U. destruct U as [U1 U2].
  assert (N3 : NoDup (fps (rank decay now cs))) by (apply rank_fps_NoDup; exact U1).
  assert (S3 : Sync (rank decay now cs) act) by (eapply Sync_perm; [symmetry; apply rank_perm|exact U2]).
  pose proof (maybe_update_active_Sync c now (rank decay now cs) act S3) as M.
  pose proof (reeval_valid c now (rank decay now cs) act N3 S3) as R.
  destruct (maybe_update_active decay c now (rank decay now cs) act) as [act' pn2]. cbn in M, R.
  match goal with |- context [let '(failed, next) := ?x in _] => remember x as fn eqn:Efn end.
  destruct fn as [failed next]. cbn. intros Hv.
  destruct (R Hv) as (p & Ep & Vp). subst act'.
  destruct (valid_expiry c now p Vp) as (x & Ex & Lx).
  exists p, x. split; [reflexivity|]. split; [exact Vp|]. split; [exact Ex|]. split; [|reflexivity].
  destruct (M p eq_refl) as (e & He & Pe).
  assert (He' : In e cs) by (apply (rank_In decay now cs); exact He).
  assert (Ex' : p_exp (e_path e) = Some x) by (rewrite Pe; exact Ex).
  match type of Efn with _ = match ?r with _ => _ end => destruct r end; inv Efn.
  - destruct (earliest_expiry_le cs e x He' Ex') as (m & Em & Lm). rewrite Em.
    assert (m * NS <= x * NS) by (apply N.mul_le_mono_r; exact Lm). lia.
  - unfold backoff_duration. lia.
Qed.
End Served.
