(** Lemmas for C06: size bounds of the cache and of the issue memory, the refetch window, liveness
    at hand-out. *)
From Coq Require Import Permutation.
From Sci Require Import PathMgr.Model PathMgr.Proofs.
Local Open Scope N_scope.

Section WithModel.
Variable pol : path -> option bool.
Variable decay : Q -> N -> N -> Q.

(** ** cache size *)
Definition bound (c : cfg) : nat := Nat.max (N.to_nat (c_max_cached c)) 1.

Lemma map_length_eq {A B} (f : A -> B) l1 l2 : map f l1 = map f l2 -> length l1 = length l2.
Proof. intros H. rewrite <- (map_length f l1), <- (map_length f l2), H. reflexivity. Qed.

Lemma update_path_cache_len c s fetched now :
  (length (s_cached s) <= bound c)%nat ->
  (length (fst (fst (fst (update_path_cache decay c s fetched now)))) <= bound c)%nat.
Proof.
  intros H. unfold update_path_cache.
  pose proof (retain_length c now (opt_fp (s_active s)) (s_cached s) (fm_of fetched) (s_active s)) as L.
  destruct (retain c now _ (s_cached s) (fm_of fetched) (s_active s)) as [[cs1 fm] act1]. cbn in L.
  destruct fm as [|q fm']; [cbn; lia|].
  destruct (drain decay c now (opt_fp act1) (s_chan s) cs1) as [cs2 h].
  match goal with |- context [merge_new_paths decay now cs2 ?cands ?afp ?tg] =>
    pose proof (merge_length decay now cs2 cands afp tg) as M;
    destruct (merge_new_paths decay now cs2 cands afp tg) as [cs3 pn'] end.
  cbn in *. exact M.
Qed.

Lemma fetch_and_update_len c s now a jit :
  (length (s_cached s) <= bound c)%nat ->
  (length (s_cached (fetch_and_update pol decay c s now a jit)) <= bound c)%nat.
Proof.
  intros H. unfold fetch_and_update.
  match goal with |- context [update_path_cache decay c s ?f now] =>
    pose proof (update_path_cache_len c s f now H) as L;
    destruct (update_path_cache decay c s f now) as [[[cs act] chan] pn] end.
  cbn in L.
  destruct (maybe_update_active decay c now (rank decay now cs) act) as [act' pn2].
  match goal with |- context [let '(failed, next) := ?x in _] => destruct x as [failed next] end.
  cbn. rewrite rank_length. exact L.
Qed.

Lemma handle_issue_len c s now m rest :
  length (s_cached (handle_issue decay c s now m rest)) = length (s_cached s).
Proof.
  unfold handle_issue. destruct (negb _); [reflexivity|].
  pose proof (ingest_paths decay m now (opt_fp (s_active s)) (s_cached s)) as E1.
  destruct (ingest_path_issue decay m now _ (s_cached s)) as [cs1 hit1]. cbn in E1.
  pose proof (drain_paths decay c now (opt_fp (s_active s)) rest cs1) as E2.
  destruct (drain decay c now _ rest cs1) as [cs2 hit2]. cbn in E2.
  apply map_length_eq in E1, E2.
  destruct (hit1 || hit2).
  - destruct (maybe_update_active decay c now (rank decay now cs2) (s_active s)) as [act pn]. cbn.
    rewrite rank_length. congruence.
  - cbn. congruence.
Qed.

Lemma step_len c s e :
  (length (s_cached s) <= bound c)%nat ->
  (length (s_cached (fst (step pol decay c s e))) <= bound c)%nat.
Proof.
  intros H. unfold step. destruct (s_dead s); [exact H|].
  destruct e as [now a jit|now i|now|now m|now|now]; cbn [fst].
  - unfold maintain. destruct (_ && _); [exact H|].
    destruct (s_next_refetch _ <=? now); cbn [fst].
    + apply fetch_and_update_len. destruct (s_next_idle s <=? now); exact H.
    + destruct (s_next_idle s <=? now); exact H.
  - destruct (target_type i); [|exact H].
    destruct (add_issue c (s_im s) i _) as [[im bc] pn]. exact H.
  - destruct (s_chan s); [exact H|]. cbn [fst]. rewrite handle_issue_len. exact H.
  - rewrite handle_issue_len. exact H.
  - destruct (hand_out s now); exact H.
  - destruct (s_active s); [destruct (expired_at_handout _ _)|]; exact H.
Qed.

Lemma run_len c evs : forall s,
  (length (s_cached s) <= bound c)%nat -> (length (s_cached (run pol decay c s evs)) <= bound c)%nat.
Proof.
  induction evs as [|e r IH]; intros s H; cbn; [exact H|]. apply IH, step_len, H.
Qed.

(** ** refetch window *)
Lemma fetch_and_update_window c s now a jit :
  cfg_valid c = true ->
  let s' := fetch_and_update pol decay c s now a jit in
  now + c_min_delay c <= s_next_refetch s' /\
  s_next_refetch s' <= now + N.max (c_refetch c) (c_bo_max c).
Proof.
  intros V. unfold cfg_valid in V. apply andb_prop in V. destruct V as [V1 V2].
  apply negb_true_iff, N.ltb_ge in V1. apply negb_true_iff, N.ltb_ge in V2.
  unfold fetch_and_update.
  destruct (update_path_cache decay c s _ now) as [[[cs act] chan] pn].
  destruct (maybe_update_active decay c now (rank decay now cs) act) as [act' pn2].
  match goal with |- context [let '(failed, next) := ?x in _] => remember x as fn eqn:Efn end.
  destruct fn as [failed next]. cbn.
  match type of Efn with _ = match ?r with _ => _ end => destruct r end; inv Efn.
  - split; [lia|]. destruct (earliest_expiry cs); lia.
  - unfold backoff_duration. split; lia.
Qed.

(** ** liveness at hand-out *)
Lemma not_expired_at_handout p now x :
  expired_at_handout p now = false -> p_exp p = Some x -> now / NS < U32 -> now < x * NS.
Proof.
  unfold expired_at_handout. intros H E L. rewrite E in H. apply N.leb_gt in H.
  rewrite N.mod_small in H by exact L.
  assert (E1 : now = NS * (now / NS) + now mod NS) by (apply N.div_mod; discriminate).
  assert (E2 : now mod NS < NS) by (apply N.mod_lt; discriminate).
  nia.
Qed.

(** ** issue memory *)
Lemma issue_eqb_eq a b : issue_eqb a b = true <-> a = b.
Proof.
  split.
  - destruct a, b; cbn; intros H; try discriminate; try reflexivity;
      repeat (apply andb_prop in H; destruct H as [H ?]);
      repeat match goal with E : (_ =? _) = true |- _ => apply N.eqb_eq in E; subst end; reflexivity.
  - intros <-. destruct a; cbn; rewrite ?N.eqb_refl; reflexivity.
Qed.
Lemma issue_eqb_refl a : issue_eqb a a = true.
Proof. apply issue_eqb_eq. reflexivity. Qed.
Lemma issue_eqb_neq a b : issue_eqb a b = false <-> a <> b.
Proof.
  split.
  - intros H E. apply issue_eqb_eq in E. congruence.
  - intros H. destruct (issue_eqb a b) eqn:E; [apply issue_eqb_eq in E; contradiction|reflexivity].
Qed.

Notation keys l := (map fst l).

(* the FIFO holds exactly the keys of the cache, each once, with the cached timestamp *)
Record IMInv (im : imgr) : Prop := {
  imi_nodup_c : NoDup (keys (im_cache im));
  imi_nodup_f : NoDup (keys (im_fifo im));
  imi_len : length (im_fifo im) = length (im_cache im);
  imi_ts : forall i ts, In (i, ts) (im_fifo im) -> exists m, cache_get i (im_cache im) = Some m /\ m_ts m = ts }.

Lemma cache_get_In i l m : cache_get i l = Some m -> In i (keys l).
Proof.
  induction l as [|[j m'] r IH]; cbn; [discriminate|].
  destruct (issue_eqb i j) eqn:E; [apply issue_eqb_eq in E; auto|auto].
Qed.
Lemma cache_get_None i l : cache_get i l = None <-> ~ In i (keys l).
Proof.
  induction l as [|[j m'] r IH]; cbn; [tauto|].
  destruct (issue_eqb i j) eqn:E.
  - apply issue_eqb_eq in E. split; [discriminate|]. intros H. destruct H. auto.
  - apply issue_eqb_neq in E. rewrite IH. split; [intros H [G|G]; [congruence|auto]|tauto].
Qed.

Lemma keys_cache_insert_new i m l :
  ~ In i (keys l) -> keys (cache_insert i m l) = keys l ++ [i].
Proof.
  induction l as [|[j m'] r IH]; cbn; [reflexivity|]. intros H.
  destruct (issue_eqb i j) eqn:E; [apply issue_eqb_eq in E; exfalso; apply H; left; congruence|].
  cbn. rewrite IH by tauto. reflexivity.
Qed.
Lemma keys_cache_insert_old i m l :
  In i (keys l) -> keys (cache_insert i m l) = keys l.
Proof.
  induction l as [|[j m'] r IH]; cbn; [tauto|]. intros H.
  destruct (issue_eqb i j) eqn:E; [apply issue_eqb_eq in E; subst; reflexivity|].
  apply issue_eqb_neq in E. cbn. rewrite IH; [reflexivity|]. destruct H; [congruence|assumption].
Qed.
Lemma cache_get_insert_same i m l : cache_get i (cache_insert i m l) = Some m.
Proof.
  induction l as [|[j m'] r IH]; cbn; [rewrite issue_eqb_refl; reflexivity|].
  destruct (issue_eqb i j) eqn:E; cbn; [rewrite issue_eqb_refl; reflexivity|rewrite E; exact IH].
Qed.
Lemma cache_get_insert_other i j m l : i <> j -> cache_get j (cache_insert i m l) = cache_get j l.
Proof.
  intros H. induction l as [|[k m'] r IH]; cbn.
  - apply not_eq_sym in H. apply issue_eqb_neq in H. rewrite H. reflexivity.
  - destruct (issue_eqb i k) eqn:E; cbn.
    + apply issue_eqb_eq in E. subst k. apply not_eq_sym in H. apply issue_eqb_neq in H. rewrite H. reflexivity.
    + destruct (issue_eqb j k); [reflexivity|exact IH].
Qed.

Lemma keys_filter_fifo i (l : list (issue * N)) :
  keys (filter (fun jt => negb (issue_eqb i (fst jt))) l) = filter (fun j => negb (issue_eqb i j)) (keys l).
Proof. induction l as [|[j t] r IH]; cbn; [reflexivity|]. destruct (issue_eqb i j); cbn; rewrite IH; reflexivity. Qed.
Lemma keys_cache_remove i l :
  keys (cache_remove i l) = filter (fun j => negb (issue_eqb i j)) (keys l).
Proof. unfold cache_remove. induction l as [|[j t] r IH]; cbn; [reflexivity|]. destruct (issue_eqb i j); cbn; rewrite IH; reflexivity. Qed.

Lemma filter_remove_length i l :
  NoDup l -> In i l -> S (length (filter (fun j => negb (issue_eqb i j)) l)) = length l.
Proof.
  induction l as [|j r IH]; cbn; [tauto|]. intros N [H|H].
  - subst j. rewrite issue_eqb_refl. cbn. inv N. f_equal.
    assert (G : forall x, In x r -> negb (issue_eqb i x) = true).
    { intros x Hx. apply negb_true_iff, issue_eqb_neq. intros ->. contradiction. }
    clear -G. induction r as [|y r IH]; cbn; [reflexivity|]. rewrite G by (left; reflexivity). cbn. f_equal.
    apply IH. intros x Hx. apply G. right. exact Hx.
  - inv N. destruct (issue_eqb i j) eqn:E; [apply issue_eqb_eq in E; subst; contradiction|].
    cbn. f_equal. apply IH; assumption.
Qed.
Lemma filter_not_In i l : ~ In i (filter (fun j => negb (issue_eqb i j)) l).
Proof. intros H. apply filter_In in H. destruct H as [_ H]. rewrite issue_eqb_refl in H. discriminate. Qed.
Lemma NoDup_filter' {A} (f : A -> bool) l : NoDup l -> NoDup (filter f l).
Proof.
  induction l as [|a r IH]; cbn; intros H; [constructor|]. inv H.
  destruct (f a); [constructor; [rewrite filter_In; tauto|auto]|auto].
Qed.
Lemma NoDup_snoc {A} (l : list A) a : NoDup l -> ~ In a l -> NoDup (l ++ [a]).
Proof.
  induction l as [|b r IH]; cbn; intros H Ha; [constructor; [tauto|constructor]|].
  inv H. constructor.
  - rewrite in_app_iff. cbn. intros [G|[G|[]]]; [contradiction|subst; tauto].
  - apply IH; tauto.
Qed.

Lemma cache_get_remove_other i j l : i <> j -> cache_get j (cache_remove i l) = cache_get j l.
Proof.
  intros H. unfold cache_remove. induction l as [|[k m'] r IH]; cbn; [reflexivity|].
  destruct (issue_eqb i k) eqn:E; cbn.
  - apply issue_eqb_eq in E. subst k. apply not_eq_sym in H. apply issue_eqb_neq in H. rewrite H. exact IH.
  - destruct (issue_eqb j k); [reflexivity|exact IH].
Qed.

(* keys of FIFO and cache coincide as sets *)
Lemma IMInv_keys im : IMInv im -> forall i, In i (keys (im_cache im)) -> In i (keys (im_fifo im)).
Proof.
  intros [Nc Nf L T].
  assert (G : incl (keys (im_cache im)) (keys (im_fifo im))).
  { apply NoDup_length_incl; [exact Nf|rewrite !map_length; lia|].
    intros i Hi. apply in_map_iff in Hi. destruct Hi as [[j ts] [E Hi]]. cbn in E. subst j.
    destruct (T i ts Hi) as (m & G & _). eapply cache_get_In; eauto. }
  exact G.
Qed.

Lemma pop_front_inv im : IMInv im -> IMInv (fst (pop_front im)) /\ snd (pop_front im) = None /\
  (length (im_cache (fst (pop_front im))) = pred (length (im_cache im))).
Proof.
  intros I. pose proof I as [Nc Nf L T]. unfold pop_front.
  destruct (im_fifo im) as [|[i ts] fifo'] eqn:Ef.
  - cbn. split; [exact I|]. split; [reflexivity|]. cbn in L. rewrite <- L. reflexivity.
  - destruct (T i ts (or_introl eq_refl)) as (m & G & Ets). rewrite G, Ets, N.eqb_refl. cbn.
    cbn in Nf. inv Nf.
    assert (Hi : In i (keys (im_cache im))) by (eapply cache_get_In; eauto).
    pose proof (filter_remove_length i _ Nc Hi) as FL. rewrite <- keys_cache_remove in FL.
    rewrite !map_length in FL.
    split; [|split; [reflexivity|lia]].
    constructor; cbn.
    + rewrite keys_cache_remove. apply NoDup_filter', Nc.
    + exact H2.
    + cbn in L. lia.
    + intros j tj Hj. destruct (T j tj (or_intror Hj)) as (mj & Gj & Ej).
      exists mj. split; [|exact Ej]. rewrite cache_get_remove_other; [exact Gj|].
      intros ->. apply H1. apply in_map_iff. exists (j, tj). split; [reflexivity|exact Hj].
Qed.

Lemma add_issue_inv c im i m :
  IMInv im ->
  let r := add_issue c im i m in
  IMInv (fst (fst r)) /\ snd r = None /\
  (length (im_cache (fst (fst r))) <= Nat.max (length (im_cache im)) (Nat.max (N.to_nat (c_issue_size c)) 1))%nat.
Proof.
  intros I. pose proof I as [Nc Nf L T]. unfold add_issue.
  destruct (cache_get i (im_cache im)) as [ex|] eqn:G.
  - destruct (_ <? c_dedup c).
    + cbn. split; [exact I|split; [reflexivity|lia]].
    + cbn.
      assert (Hi : In i (keys (im_cache im))) by (eapply cache_get_In; eauto).
      assert (Hf : In i (keys (im_fifo im))) by (apply IMInv_keys; assumption).
      pose proof (filter_remove_length i _ Nf Hf) as FL. rewrite <- keys_filter_fifo in FL.
      rewrite !map_length in FL.
      assert (Lc : length (cache_insert i m (im_cache im)) = length (im_cache im)).
      { rewrite <- (map_length fst), <- (map_length fst (im_cache im)).
        change (length (keys (cache_insert i m (im_cache im))) = length (keys (im_cache im))).
        rewrite keys_cache_insert_old by exact Hi. reflexivity. }
      split; [|split; [reflexivity|lia]].
      constructor; cbn.
      * rewrite keys_cache_insert_old by exact Hi. exact Nc.
      * rewrite map_app. cbn. apply NoDup_snoc.
        -- change (NoDup (keys (filter (fun jt => negb (issue_eqb i (fst jt))) (im_fifo im)))).
           rewrite keys_filter_fifo. apply NoDup_filter', Nf.
        -- change (~ In i (keys (filter (fun jt => negb (issue_eqb i (fst jt))) (im_fifo im)))).
           rewrite keys_filter_fifo. apply filter_not_In.
      * rewrite app_length. cbn. lia.
      * intros j tj Hj. apply in_app_or in Hj. destruct Hj as [Hj|[Hj|[]]].
        -- apply filter_In in Hj. destruct Hj as [Hj Hne]. cbn in Hne.
           apply negb_true_iff, issue_eqb_neq in Hne.
           destruct (T j tj Hj) as (mj & Gj & Ej). exists mj. split; [|exact Ej].
           rewrite cache_get_insert_other; assumption.
        -- inv Hj. exists m. split; [apply cache_get_insert_same|reflexivity].
  - assert (Hn : ~ In i (keys (im_cache im))) by (apply cache_get_None; exact G).
    set (im1p := if c_issue_size c <=? N.of_nat (length (im_cache im)) then pop_front im else (im, None)).
    assert (P : IMInv (fst im1p) /\ snd im1p = None /\
                (length (im_cache (fst im1p)) <= length (im_cache im))%nat /\
                (S (length (im_cache (fst im1p))) <= Nat.max (length (im_cache im)) (Nat.max (N.to_nat (c_issue_size c)) 1))%nat /\
                ~ In i (keys (im_cache (fst im1p)))).
    { subst im1p. destruct (c_issue_size c <=? N.of_nat (length (im_cache im))) eqn:E.
      - destruct (pop_front_inv im I) as (A & B & C). split; [exact A|]. split; [exact B|].
        split; [lia|]. split.
        + destruct (length (im_cache im)) eqn:El; [|lia]. cbn in C. lia.
        + (* popping removes keys only *)
          unfold pop_front. destruct (im_fifo im) as [|[j ts] fifo']; [exact Hn|].
          destruct (cache_get j (im_cache im)) as [mj|]; [|exact Hn].
          destruct (m_ts mj =? ts); [|exact Hn]. cbn. rewrite keys_cache_remove.
          intros H. apply filter_In in H. tauto.
      - cbn. apply N.leb_gt in E. split; [exact I|]. split; [reflexivity|]. split; [lia|]. split; [lia|exact Hn]. }
    fold im1p. destruct im1p as [im1 pn]. cbn in P. destruct P as (I1 & Pn & L1 & L2 & Hn1). subst pn.
    pose proof I1 as [Nc1 Nf1 Ll1 T1]. cbn.
    assert (Lc : length (cache_insert i m (im_cache im1)) = S (length (im_cache im1))).
    { rewrite <- (map_length fst), <- (map_length fst (im_cache im1)).
      change (length (keys (cache_insert i m (im_cache im1))) = S (length (keys (im_cache im1)))).
      rewrite keys_cache_insert_new by exact Hn1. rewrite app_length. cbn. lia. }
    split; [|split; [reflexivity|lia]].
    constructor; cbn.
    + rewrite keys_cache_insert_new by exact Hn1. apply NoDup_snoc; assumption.
    + rewrite map_app. cbn. apply NoDup_snoc; [exact Nf1|].
      intros H. apply Hn1. change (In i (keys (im_fifo im1))) in H.
      apply in_map_iff in H. destruct H as [[j tj] [E H]]. cbn in E. subst j.
      destruct (T1 i tj H) as (mj & Gj & _). eapply cache_get_In; eauto.
    + rewrite app_length. cbn. lia.
    + intros j tj Hj. apply in_app_or in Hj. destruct Hj as [Hj|[Hj|[]]].
      * destruct (T1 j tj Hj) as (mj & Gj & Ej). exists mj. split; [|exact Ej].
        rewrite cache_get_insert_other; [exact Gj|]. intros ->. apply Hn1. eapply cache_get_In; eauto.
      * inv Hj. exists m. split; [apply cache_get_insert_same|reflexivity].
Qed.

Definition ibound (c : cfg) : nat := Nat.max (N.to_nat (c_issue_size c)) 1.
Definition IMBounded (c : cfg) (s : st) : Prop :=
  IMInv (s_im s) /\ (length (im_cache (s_im s)) <= ibound c)%nat.

Lemma fetch_and_update_im c s now a jit : s_im (fetch_and_update pol decay c s now a jit) = s_im s.
Proof.
  unfold fetch_and_update.
  destruct (update_path_cache decay c s _ now) as [[[cs act] chan] pn].
  destruct (maybe_update_active decay c now (rank decay now cs) act) as [act' pn2].
  match goal with |- context [let '(failed, next) := ?x in _] => destruct x as [failed next] end.
  reflexivity.
Qed.
Lemma handle_issue_im c s now m rest : s_im (handle_issue decay c s now m rest) = s_im s.
Proof.
  unfold handle_issue. destruct (negb _); [reflexivity|].
  destruct (ingest_path_issue decay m now _ (s_cached s)) as [cs1 hit1].
  destruct (drain decay c now _ rest cs1) as [cs2 hit2].
  destruct (hit1 || hit2); [|reflexivity].
  destruct (maybe_update_active decay c now (rank decay now cs2) (s_active s)) as [act pn]. reflexivity.
Qed.

Lemma step_im c s e : IMBounded c s -> IMBounded c (fst (step pol decay c s e)).
Proof.
  intros [I B]. unfold step. destruct (s_dead s); [split; assumption|].
  destruct e as [now a jit|now i|now|now m|now|now]; cbn [fst].
  - unfold maintain. destruct (_ && _); [split; assumption|].
    destruct (s_next_refetch _ <=? now); cbn [fst].
    + unfold IMBounded. rewrite fetch_and_update_im. destruct (s_next_idle s <=? now); split; assumption.
    + destruct (s_next_idle s <=? now); split; assumption.
  - destruct (target_type i) as [t|]; [|split; assumption].
    pose proof (add_issue_inv c (s_im s) i (mkMarker t now (penalty i)) I) as A.
    destruct (add_issue c (s_im s) i _) as [[im bc] pn]. cbn in A. destruct A as (A1 & A2 & A3).
    split; cbn; [exact A1|]. unfold ibound in *. lia.
  - destruct (s_chan s); [split; assumption|]. cbn [fst]. unfold IMBounded. rewrite handle_issue_im. split; assumption.
  - unfold IMBounded. rewrite handle_issue_im. split; assumption.
  - destruct (hand_out s now); split; assumption.
  - destruct (s_active s); [destruct (expired_at_handout _ _)|]; split; assumption.
Qed.

Lemma run_im c evs : forall s, IMBounded c s -> IMBounded c (run pol decay c s evs).
Proof. induction evs as [|e r IH]; intros s H; cbn; [exact H|]. apply IH, step_im, H. Qed.

Lemma init_im c t0 : IMBounded c (init_st c t0).
Proof.
  split; [constructor; cbn; try constructor; try reflexivity; intros i ts []|cbn; unfold ibound; lia].
Qed.

End WithModel.

Section Handout.
Variable pol : path -> option bool.
Variable decay : Q -> N -> N -> Q.

Lemma step_out_live c s e s' p :
  step pol decay c s e = (s', OPath p) ->
  (exists now, e = Send now \/ e = SendWait now) /\ expired_at_handout p (ev_time e) = false.
Proof.
  unfold step. destruct (s_dead s); [discriminate|].
  destruct e as [now a jit|now i|now|now m|now|now]; intros E.
  - unfold maintain in E. destruct (_ && _); [discriminate|].
    destruct (s_next_refetch _ <=? now); discriminate.
  - destruct (target_type i); [|discriminate].
    destruct (add_issue c (s_im s) i _) as [[im bc] pn]. discriminate.
  - destruct (s_chan s); discriminate.
  - discriminate.
  - unfold hand_out in E. destruct (s_active s) as [q|]; [|discriminate].
    destruct (expired_at_handout q now) eqn:X; inv E. split; [exists now; auto|exact X].
  - destruct (s_active s) as [q|]; [|discriminate].
    destruct (expired_at_handout q now) eqn:X; inv E. split; [exists now; auto|exact X].
Qed.

Lemma step_tick_window c s now a jit s' :
  cfg_valid c = true -> step pol decay c s (Tick now a jit) = (s', OTick true) ->
  now + c_min_delay c <= s_next_refetch s' /\ s_next_refetch s' <= now + N.max (c_refetch c) (c_bo_max c).
Proof.
  intros V. unfold step. destruct (s_dead s); [discriminate|].
  unfold maintain. destruct (_ && _); [discriminate|].
  destruct (s_next_refetch _ <=? now); intros E; inv E.
  apply fetch_and_update_window. exact V.
Qed.
End Handout.
