(** Lemmas for C06: size bounds of the cache and of the issue memory, the refetch window, liveness
    at hand-out. *)
From Coq Require Import Permutation.
From Sci Require Import PathMgr.Model PathMgr.Proofs.
Local Open Scope N_scope.

Section WithModel.
Variable pol : path -> option bool.
Variable decay : Q -> N -> N -> Q.

(** ** cache size *)
Definition bound (c : cfg) : nat := Nat.max (N.to_nat (c_max_cached c)) 1.

Lemma map_length_eq {A B} (f : A -> B) l1 l2 : map f l1 = map f l2 -> length l1 = length l2.
Proof. intros H. rewrite <- (map_length f l1), <- (map_length f l2), H. reflexivity. Qed.

Lemma update_path_cache_len c s fetched now :
  (length (s_cached s) <= bound c)%nat ->
  (length (fst (fst (fst (update_path_cache decay c s fetched now)))) <= bound c)%nat.
Proof.
  intros H. unfold update_path_cache.
  pose proof (retain_length c now (opt_fp (s_active s)) (s_cached s) (fm_of fetched) (s_active s)) as L.
  destruct (retain c now _ (s_cached s) (fm_of fetched) (s_active s)) as [[cs1 fm] act1]. cbn in L.
  destruct fm as [|q fm']; [cbn; lia|].
  destruct (drain decay c now (opt_fp act1) (s_chan s) cs1) as [cs2 h].
  match goal with |- context [merge_new_paths decay now cs2 ?cands ?afp ?tg] =>
    pose proof (merge_length decay now cs2 cands afp tg) as M;
    destruct (merge_new_paths decay now cs2 cands afp tg) as [cs3 pn'] end.
  cbn in *. exact M.
Qed.

Lemma fetch_and_update_len c s now a jit :
  (length (s_cached s) <= bound c)%nat ->
  (length (s_cached (fetch_and_update pol decay c s now a jit)) <= bound c)%nat.
Proof.
  intros H. unfold fetch_and_update.
  match goal with |- context [update_path_cache decay c s ?f now] =>
    pose proof (update_path_cache_len c s f now H) as L;
    destruct (update_path_cache decay c s f now) as [[[cs act] chan] pn] end.
  cbn in L.
  destruct (maybe_update_active decay c now (rank decay now cs) act) as [act' pn2].
  match goal with |- context [let '(failed, next) := ?x in _] => destruct x as [failed next] end.
  cbn. rewrite rank_length. exact L.
Qed.

Lemma handle_issue_len c s now m rest :
  length (s_cached (handle_issue decay c s now m rest)) = length (s_cached s).
Proof.
  unfold handle_issue. destruct (negb _); [reflexivity|].
  pose proof (ingest_paths decay m now (opt_fp (s_active s)) (s_cached s)) as E1.
  destruct (ingest_path_issue decay m now _ (s_cached s)) as [cs1 hit1]. cbn in E1.
  pose proof (drain_paths decay c now (opt_fp (s_active s)) rest cs1) as E2.
  destruct (drain decay c now _ rest cs1) as [cs2 hit2]. cbn in E2.
  apply map_length_eq in E1, E2.
  destruct (hit1 || hit2).
  - destruct (maybe_update_active decay c now (rank decay now cs2) (s_active s)) as [act pn]. cbn.
    rewrite rank_length. congruence.
  - cbn. congruence.
Qed.

Lemma step_len c s e :
  (length (s_cached s) <= bound c)%nat ->
  (length (s_cached (fst (step pol decay c s e))) <= bound c)%nat.
Proof.
  intros H. unfold step. destruct (s_dead s); [exact H|].
  destruct e as [now a jit|now i|now|now m|now|now]; cbn [fst].
  - unfold maintain. destruct (_ && _); [exact H|].
    destruct (s_next_refetch _ <=? now); cbn [fst].
    + apply fetch_and_update_len. destruct (s_next_idle s <=? now); exact H.
    + destruct (s_next_idle s <=? now); exact H.
  - destruct (target_type i); [|exact H].
    destruct (add_issue c (s_im s) i _) as [[im bc] pn]. exact H.
  - destruct (s_chan s); [exact H|]. cbn [fst]. rewrite handle_issue_len. exact H.
  - rewrite handle_issue_len. exact H.
  - destruct (hand_out s now); exact H.
  - destruct (s_active s); [destruct (expired_at_handout _ _)|]; exact H.
Qed.

Lemma run_len c evs : forall s,
  (length (s_cached s) <= bound c)%nat -> (length (s_cached (run pol decay c s evs)) <= bound c)%nat.
Proof.
  induction evs as [|e r IH]; intros s H; cbn; [exact H|]. apply IH, step_len, H.
Qed.

(** ** refetch window *)
Lemma fetch_and_update_window c s now a jit :
  cfg_valid c = true ->
  let s' := fetch_and_update pol decay c s now a jit in
  now + c_min_delay c <= s_next_refetch s' /\
  s_next_refetch s' <= now + N.max (c_refetch c) (c_bo_max c).
Proof.
  intros V. unfold cfg_valid in V. apply andb_prop in V. destruct V as [V1 V2].
  apply negb_true_iff, N.ltb_ge in V1. apply negb_true_iff, N.ltb_ge in V2.
  unfold fetch_and_update.
  destruct (update_path_cache decay c s _ now) as [[[cs act] chan] pn].
  destruct (maybe_update_active decay c now (rank decay now cs) act) as [act' pn2].
  match goal with |- context [let '(failed, next) := ?x in _] => remember x as fn eqn:Efn end.
  destruct fn as [failed next]. cbn.
  match type of Efn with _ = match ?r with _ => _ end => destruct r end; inv Efn.
  - split; [lia|]. destruct (earliest_expiry cs); lia.
  - unfold backoff_duration. split; lia.
Qed.

(** ** liveness at hand-out *)
Lemma not_expired_at_handout p now x :
  expired_at_handout p now = false -> p_exp p = Some x -> now / NS < U32 -> now < x * NS.
Proof.
  unfold expired_at_handout. intros H E L. rewrite E in H. apply N.leb_gt in H.
  rewrite N.mod_small in H by exact L.
  assert (E1 : now = NS * (now / NS) + now mod NS) by (apply N.div_mod; discriminate).
  assert (E2 : now mod NS < NS) by (apply N.mod_lt; discriminate).
  nia.
Qed.

(** ** issue memory *)
Lemma issue_eqb_eq a b : issue_eqb a b = true <-> a = b.
Proof.
  split.
  - destruct a, b; cbn; intros H; try discriminate; try reflexivity;
      repeat (apply andb_prop in H; destruct H as [H ?]);
      repeat match goal with E : (_ =? _) = true |- _ => apply N.eqb_eq in E; subst end; reflexivity.
  - intros <-. destruct a; cbn; rewrite ?N.eqb_refl; reflexivity.
Qed.
Lemma issue_eqb_refl a : issue_eqb a a = true.
Proof. apply issue_eqb_eq. reflexivity. Qed.
Lemma issue_eqb_neq a b : issue_eqb a b = false <-> a <> b.
Proof.
  split.
  - intros H E. apply issue_eqb_eq in E. congruence.
  - intros H. destruct (issue_eqb a b) eqn:E; [apply issue_eqb_eq in E; contradiction|reflexivity].
Qed.

Notation keys l := (map fst l).

Lemma cache_get_In i l m : cache_get i l = Some m -> In i (keys l).
Proof.
  induction l as [|[j m'] r IH]; cbn; [discriminate|].
  destruct (issue_eqb i j) eqn:E; [apply issue_eqb_eq in E; auto|auto].
Qed.
Lemma cache_get_None i l : cache_get i l = None <-> ~ In i (keys l).
Proof.
  induction l as [|[j m'] r IH]; cbn; [tauto|].
  destruct (issue_eqb i j) eqn:E.
  - apply issue_eqb_eq in E. split; [discriminate|]. intros H. destruct H. auto.
  - apply issue_eqb_neq in E. rewrite IH. split; [intros H [G|G]; [congruence|auto]|tauto].
Qed.

Lemma keys_cache_insert_new i m l :
  ~ In i (keys l) -> keys (cache_insert i m l) = keys l ++ [i].
Proof.
  induction l as [|[j m'] r IH]; cbn; [reflexivity|]. intros H.
  destruct (issue_eqb i j) eqn:E; [apply issue_eqb_eq in E; exfalso; apply H; left; congruence|].
  cbn. rewrite IH by tauto. reflexivity.
Qed.
Lemma keys_cache_insert_old i m l :
  In i (keys l) -> keys (cache_insert i m l) = keys l.
Proof.
  induction l as [|[j m'] r IH]; cbn; [tauto|]. intros H.
  destruct (issue_eqb i j) eqn:E; [apply issue_eqb_eq in E; subst; reflexivity|].
  apply issue_eqb_neq in E. cbn. rewrite IH; [reflexivity|]. destruct H; [congruence|assumption].
Qed.
Lemma cache_get_insert_same i m l : cache_get i (cache_insert i m l) = Some m.
Proof.
  induction l as [|[j m'] r IH]; cbn; [rewrite issue_eqb_refl; reflexivity|].
  destruct (issue_eqb i j) eqn:E; cbn; [rewrite issue_eqb_refl; reflexivity|rewrite E; exact IH].
Qed.
Lemma cache_get_insert_other i j m l : i <> j -> cache_get j (cache_insert i m l) = cache_get j l.
Proof.
  intros H. induction l as [|[k m'] r IH]; cbn.
  - apply not_eq_sym in H. apply issue_eqb_neq in H. rewrite H. reflexivity.
  - destruct (issue_eqb i k) eqn:E; cbn.
    + apply issue_eqb_eq in E. subst k. apply not_eq_sym in H. apply issue_eqb_neq in H. rewrite H. reflexivity.
    + destruct (issue_eqb j k); [reflexivity|exact IH].
Qed.

Lemma keys_filter_fifo i (l : list (issue * N)) :
  keys (filter (fun jt => negb (issue_eqb i (fst jt))) l) = filter (fun j => negb (issue_eqb i j)) (keys l).
Proof. induction l as [|[j t] r IH]; cbn; [reflexivity|]. destruct (issue_eqb i j); cbn; rewrite IH; reflexivity. Qed.
Lemma keys_cache_remove i l :
  keys (cache_remove i l) = filter (fun j => negb (issue_eqb i j)) (keys l).
Proof. unfold cache_remove. induction l as [|[j t] r IH]; cbn; [reflexivity|]. destruct (issue_eqb i j); cbn; rewrite IH; reflexivity. Qed.

Lemma filter_remove_length i l :
  NoDup l -> In i l -> S (length (filter (fun j => negb (issue_eqb i j)) l)) = length l.
Proof.
  induction l as [|j r IH]; cbn; [tauto|]. intros N [H|H].
  - subst j. rewrite issue_eqb_refl. cbn. inv N. f_equal.
    assert (G : forall x, In x r -> negb (issue_eqb i x) = true).
    { intros x Hx. apply negb_true_iff, issue_eqb_neq. intros ->. contradiction. }
    clear -G. induction r as [|y r IH]; cbn; [reflexivity|]. rewrite G by (left; reflexivity). cbn. f_equal.
    apply IH. intros x Hx. apply G. right. exact Hx.
  - inv N. destruct (issue_eqb i j) eqn:E; [apply issue_eqb_eq in E; subst; contradiction|].
    cbn. f_equal. apply IH; assumption.
Qed.
Lemma filter_not_In i l : ~ In i (filter (fun j => negb (issue_eqb i j)) l).
Proof. intros H. apply filter_In in H. destruct H as [_ H]. rewrite issue_eqb_refl in H. discriminate. Qed.
Lemma NoDup_filter' {A} (f : A -> bool) l : NoDup l -> NoDup (filter f l).
Proof.
  induction l as [|a r IH]; cbn; intros H; [constructor|]. inv H.
  destruct (f a); [constructor; [rewrite filter_In; tauto|auto]|auto].
Qed.
Lemma NoDup_snoc {A} (l : list A) a : NoDup l -> ~ In a l -> NoDup (l ++ [a]).
Proof.
  induction l as [|b r IH]; cbn; intros H Ha; [constructor; [tauto|constructor]|].
  inv H. constructor.
  - rewrite in_app_iff. cbn. intros [G|[G|[]]]; [contradiction|subst; tauto].
  - apply IH; tauto.
Qed.

Lemma cache_get_remove_other i j l : i <> j -> cache_get j (cache_remove i l) = cache_get j l.
Proof.
  intros H. unfold cache_remove. induction l as [|[k m'] r IH]; cbn; [reflexivity|].
  destruct (issue_eqb i k) eqn:E; cbn.
  - apply issue_eqb_eq in E. subst k. apply not_eq_sym in H. apply issue_eqb_neq in H. rewrite H. exact IH.
  - destruct (issue_eqb j k); [reflexivity|exact IH].
Qed.

Lemma cache_get_remove_same i l : cache_get i (cache_remove i l) = None.
Proof.
  unfold cache_remove. induction l as [|[k m'] r IH]; cbn; [reflexivity|].
  destruct (issue_eqb i k) eqn:E; cbn; [exact IH|rewrite E; exact IH].
Qed.
Lemma cache_get_remove_sub i j l x : cache_get j (cache_remove i l) = Some x -> cache_get j l = Some x.
Proof.
  intros H. destruct (issue_eqb i j) eqn:E.
  - apply issue_eqb_eq in E. subst j. rewrite cache_get_remove_same in H. discriminate.
  - apply issue_eqb_neq in E. rewrite cache_get_remove_other in H by exact E. exact H.
Qed.

(** The FIFO with lazy deletion: every entry's issue is cached; the LAST entry of an issue
    carries the cached timestamp (it is live), every earlier one a smaller timestamp (stale);
    every cached issue has an entry. *)
Definition later (i : issue) (l : list (issue * N)) : bool := existsb (fun jt => issue_eqb i (fst jt)) l.
Fixpoint FI (cache : list (issue * marker)) (fifo : list (issue * N)) : Prop :=
  match fifo with
  | [] => True
  | (i, ts) :: r =>
    (exists m, cache_get i cache = Some m /\ (if later i r then ts < m_ts m else ts = m_ts m)) /\ FI cache r
  end.
Record IMInv (im : imgr) : Prop := {
  imi_nodup : NoDup (keys (im_cache im));
  imi_fi : FI (im_cache im) (im_fifo im);
  imi_cov : forall i, In i (keys (im_cache im)) -> later i (im_fifo im) = true }.

Lemma later_app i l1 l2 : later i (l1 ++ l2) = later i l1 || later i l2.
Proof. unfold later. apply existsb_app. Qed.
Lemma later_false i l : later i l = false <-> ~ In i (keys l).
Proof.
  induction l as [|[j t] r IH]; cbn; [tauto|].
  destruct (issue_eqb i j) eqn:E; cbn.
  - apply issue_eqb_eq in E. subst. split; [discriminate|]. intros H. exfalso. apply H. left. reflexivity.
  - apply issue_eqb_neq in E. rewrite IH. split; [intros H [G|G]; [congruence|auto]|tauto].
Qed.
Lemma later_filter i f l : later i (filter f l) = true -> later i l = true.
Proof.
  unfold later. rewrite !existsb_exists. intros (x & A & B). exists x. split; [|exact B].
  apply filter_In in A. tauto.
Qed.

Lemma FI_remove i cache r : FI cache r -> later i r = false -> FI (cache_remove i cache) r.
Proof.
  induction r as [|[j ts] r IH]; intros F L; [exact I|]. cbn in F, L. destruct F as [(m & G & C) F].
  apply orb_false_iff in L. destruct L as [L1 L2]. apply issue_eqb_neq in L1.
  split; [|apply IH; assumption]. exists m. split; [|exact C]. rewrite cache_get_remove_other; assumption.
Qed.

Definition evict_post (size : N) (cache : list (issue * marker)) (fifo : list (issue * N))
           (r : imgr * option N) : Prop :=
  IMInv (fst r) /\ snd r = None /\
  (N.of_nat (length (im_cache (fst r))) < size \/ im_cache (fst r) = []) /\
  (length (im_cache (fst r)) <= length cache)%nat /\ (length (im_fifo (fst r)) <= length fifo)%nat /\
  (forall j x, cache_get j (im_cache (fst r)) = Some x -> cache_get j cache = Some x).

Lemma evict_stop size cache fifo :
  NoDup (keys cache) -> FI cache fifo -> (forall i, In i (keys cache) -> later i fifo = true) ->
  (N.of_nat (length cache) < size \/ cache = []) ->
  evict_post size cache fifo (mkIM cache fifo, None).
Proof.
  intros N F C R. unfold evict_post. cbn.
  refine (conj _ (conj eq_refl (conj R (conj (le_n _) (conj (le_n _) (fun j x H => H)))))).
  constructor; cbn; assumption.
Qed.

Lemma evict_inv size : forall fifo cache,
  NoDup (keys cache) -> FI cache fifo -> (forall i, In i (keys cache) -> later i fifo = true) ->
  evict_post size cache fifo (evict size cache fifo).
Proof.
  induction fifo as [|[i ts] r IH]; intros cache N F C; cbn [evict].
  - destruct (size <=? N.of_nat (length cache)) eqn:E.
    + assert (cache = []).
      { destruct cache as [|[k mk] rest]; [reflexivity|]. specialize (C k (or_introl eq_refl)). discriminate. }
      subst cache. apply evict_stop; auto.
    + apply N.leb_gt in E. apply evict_stop; auto.
  - destruct (size <=? N.of_nat (length cache)) eqn:E.
    2:{ apply N.leb_gt in E. apply evict_stop; auto. }
    unfold evict_post.
    cbn in F. destruct F as [(m & G & Cm) F]. rewrite G.
    destruct (m_ts m =? ts) eqn:Et.
    + apply N.eqb_eq in Et.
      assert (L : later i r = false). { destruct (later i r); [lia|reflexivity]. }
      assert (Hi : In i (keys cache)) by (eapply cache_get_In; eauto).
      pose proof (filter_remove_length i _ N Hi) as FL. rewrite <- keys_cache_remove in FL. rewrite !map_length in FL.
      specialize (IH (cache_remove i cache)). unfold evict_post in IH.
      destruct IH as (A1 & A2 & A3 & A4 & A5 & A6).
      * rewrite keys_cache_remove. apply NoDup_filter', N.
      * apply FI_remove; assumption.
      * intros j Hj. rewrite keys_cache_remove in Hj. apply filter_In in Hj. destruct Hj as [Hj Hn].
        apply negb_true_iff in Hn. specialize (C j Hj). cbn in C.
        assert (issue_eqb j i = false).
        { destruct (issue_eqb j i) eqn:X; [|reflexivity]. apply issue_eqb_eq in X. subst. rewrite issue_eqb_refl in Hn. discriminate. }
        rewrite H in C. exact C.
      * refine (conj A1 (conj A2 (conj A3 (conj _ (conj _ _))))); [lia|cbn; lia|].
        intros j x Hx. apply (cache_get_remove_sub i). apply A6. exact Hx.
    + apply N.eqb_neq in Et.
      assert (L : later i r = true). { destruct (later i r); [reflexivity|]. congruence. }
      specialize (IH cache N F). unfold evict_post in IH.
      destruct IH as (A1 & A2 & A3 & A4 & A5 & A6).
      * intros j Hj. specialize (C j Hj). cbn in C. destruct (issue_eqb j i) eqn:X; [|exact C].
        apply issue_eqb_eq in X. subst. exact L.
      * refine (conj A1 (conj A2 (conj A3 (conj A4 (conj _ A6))))). cbn. lia.
Qed.

Lemma FI_In_cache cache fifo i ts : FI cache fifo -> In (i, ts) fifo -> In i (keys cache).
Proof.
  induction fifo as [|[j t] r IH]; intros F H; [destruct H|]. cbn in F. destruct F as [(m & G & _) F].
  destruct H as [H|H]; [inv H; eapply cache_get_In; eauto|apply IH; assumption].
Qed.

Lemma filter_live_inv cache fifo :
  FI cache fifo ->
  FI cache (filter (live cache) fifo) /\
  (forall i, later i fifo = true -> later i (filter (live cache) fifo) = true) /\
  NoDup (keys (filter (live cache) fifo)).
Proof.
  induction fifo as [|[i ts] r IH]; intros F; [cbn; repeat split; auto; constructor|].
  cbn in F. destruct F as [(m & G & Cm) F]. destruct (IH F) as (A & B & D).
  assert (Hl : live cache (i, ts) = (m_ts m =? ts)) by (unfold live; cbn [fst snd]; rewrite G; reflexivity).
  cbn [filter]. rewrite Hl.
  destruct (m_ts m =? ts) eqn:Et.
  - apply N.eqb_eq in Et.
    assert (L : later i r = false). { destruct (later i r); [lia|reflexivity]. }
    assert (L' : later i (filter (live cache) r) = false).
    { destruct (later i (filter (live cache) r)) eqn:X; [|reflexivity]. apply later_filter in X. congruence. }
    refine (conj _ (conj _ _)).
    + split; [|exact A]. exists m. split; [exact G|]. rewrite L'. lia.
    + intros j Hj. cbn in Hj |- *. destruct (issue_eqb j i); [reflexivity|]. cbn in *. apply B. exact Hj.
    + cbn. constructor; [apply later_false; exact L'|exact D].
  - apply N.eqb_neq in Et.
    assert (L : later i r = true). { destruct (later i r); [reflexivity|]. congruence. }
    refine (conj A (conj _ D)).
    intros j Hj. cbn in Hj. destruct (issue_eqb j i) eqn:X; [|apply B; exact Hj].
    apply issue_eqb_eq in X. subst. apply B. exact L.
Qed.

Lemma filter_live_length cache fifo :
  NoDup (keys cache) -> FI cache fifo -> (length (filter (live cache) fifo) <= length cache)%nat.
Proof.
  intros N F. destruct (filter_live_inv cache fifo F) as (A & _ & D).
  rewrite <- (map_length fst (filter _ _)), <- (map_length fst cache).
  apply NoDup_incl_length; [exact D|].
  intros i Hi. apply in_map_iff in Hi. destruct Hi as ([j t] & E & Hi). cbn in E. subst j.
  eapply FI_In_cache; eauto.
Qed.

(* pushing the entry of a (re-)reported issue whose timestamp is later than the cached one *)
Lemma FI_push cache fifo i m :
  FI cache fifo -> (forall ex, cache_get i cache = Some ex -> m_ts ex < m_ts m) ->
  FI (cache_insert i m cache) (fifo ++ [(i, m_ts m)]).
Proof.
  intros F Hts. induction fifo as [|[j ts] r IH].
  - cbn. split; [|exact I]. exists m. split; [apply cache_get_insert_same|reflexivity].
  - cbn in F. destruct F as [(mj & G & C) F]. cbn [app FI]. split; [|apply IH; exact F].
    rewrite later_app. cbn [later existsb fst]. rewrite orb_false_r.
    destruct (issue_eqb j i) eqn:E.
    + apply issue_eqb_eq in E. subst j. exists m. split; [apply cache_get_insert_same|].
      rewrite orb_true_r. specialize (Hts mj G). destruct (later i r); lia.
    + rewrite orb_false_r. exists mj. split; [|exact C].
      apply issue_eqb_neq in E. rewrite cache_get_insert_other; [exact G|]. intros ->. congruence.
Qed.

Lemma add_issue_IMInv c im i m :
  0 < c_dedup c -> IMInv im ->
  let r := add_issue c im i m in IMInv (fst (fst r)) /\ snd r = None.
Proof.
  intros D Inv. pose proof Inv as [N F C]. unfold add_issue.
  set (dup := match cache_get i (im_cache im) with
              | Some ex => m_ts m - m_ts ex <? c_dedup c
              | None => false
              end).
  destruct dup eqn:Edup; [cbn; split; [exact Inv|reflexivity]|].
  pose proof (evict_inv (c_issue_size c) (im_fifo im) (im_cache im) N F C) as E. unfold evict_post in E.
  destruct (evict (c_issue_size c) (im_cache im) (im_fifo im)) as [im1 pn]. cbn [fst snd] in E.
  destruct E as (I1 & Pn & _ & _ & _ & Sub). subst pn. pose proof I1 as [N1 F1 C1]. cbn [fst snd].
  split; [|reflexivity].
  assert (Hts : forall ex, cache_get i (im_cache im1) = Some ex -> m_ts ex < m_ts m).
  { intros ex Hex. apply Sub in Hex. subst dup. rewrite Hex in Edup. apply N.ltb_ge in Edup. lia. }
  set (fifo2 := if 2 * N.max (c_issue_size c) 1 <=? N.of_nat (length (im_fifo im1))
                then filter (live (im_cache im1)) (im_fifo im1) else im_fifo im1).
  assert (P2 : FI (im_cache im1) fifo2 /\ (forall j, later j (im_fifo im1) = true -> later j fifo2 = true)).
  { subst fifo2. destruct (_ <=? _); [|split; auto]. destruct (filter_live_inv _ _ F1) as (A & B & _). split; assumption. }
  destruct P2 as [F2 C2].
  constructor; cbn [im_cache im_fifo].
  - destruct (cache_get i (im_cache im1)) as [ex|] eqn:G.
    + rewrite keys_cache_insert_old by (eapply cache_get_In; eauto). exact N1.
    + rewrite keys_cache_insert_new by (apply cache_get_None; exact G).
      apply NoDup_snoc; [exact N1|apply cache_get_None; exact G].
  - apply FI_push; assumption.
  - intros j Hj. rewrite later_app. cbn [later existsb fst]. rewrite orb_false_r.
    destruct (issue_eqb j i) eqn:X; [apply orb_true_r|]. rewrite orb_false_r.
    apply C2, C1. apply issue_eqb_neq in X.
    destruct (cache_get i (im_cache im1)) as [ex|] eqn:G.
    + rewrite keys_cache_insert_old in Hj by (eapply cache_get_In; eauto). exact Hj.
    + rewrite keys_cache_insert_new in Hj by (apply cache_get_None; exact G).
      apply in_app_or in Hj. destruct Hj as [Hj|[Hj|[]]]; [exact Hj|congruence].
Qed.

Lemma cache_insert_length i m l : (length (cache_insert i m l) <= S (length l))%nat.
Proof. induction l as [|[j m'] r IH]; cbn; [lia|]. destruct (issue_eqb i j); cbn; lia. Qed.

Lemma add_issue_bounds c im i m :
  IMInv im ->
  let M := Nat.max (N.to_nat (c_issue_size c)) 1 in
  (length (im_cache im) <= M)%nat -> (length (im_fifo im) <= 2 * M)%nat ->
  let r := add_issue c im i m in
  (length (im_cache (fst (fst r))) <= M)%nat /\ (length (im_fifo (fst (fst r))) <= 2 * M)%nat.
Proof.
  intros Inv M Bc Bf. pose proof Inv as [N F C]. unfold add_issue.
  destruct (match cache_get i (im_cache im) with
            | Some ex => m_ts m - m_ts ex <? c_dedup c
            | None => false
            end); [cbn; split; assumption|].
  pose proof (evict_inv (c_issue_size c) (im_fifo im) (im_cache im) N F C) as E. unfold evict_post in E.
  destruct (evict (c_issue_size c) (im_cache im) (im_fifo im)) as [im1 pn]. cbn [fst snd] in E.
  destruct E as (I1 & _ & Room & Lc & Lf & _). pose proof I1 as [N1 F1 C1]. cbn [fst snd im_cache im_fifo].
  pose proof (cache_insert_length i m (im_cache im1)) as Li.
  split.
  - destruct Room as [R|R]; [subst M; lia|rewrite R; cbn [cache_insert length]; subst M; lia].
  - rewrite app_length. cbn [length].
    destruct (2 * N.max (c_issue_size c) 1 <=? N.of_nat (length (im_fifo im1))) eqn:X.
    + pose proof (filter_live_length _ _ N1 F1). subst M. lia.
    + apply N.leb_gt in X. subst M. lia.
Qed.

Definition ibound (c : cfg) : nat := Nat.max (N.to_nat (c_issue_size c)) 1.
Definition IMBounded (c : cfg) (s : st) : Prop :=
  IMInv (s_im s) /\ (length (im_cache (s_im s)) <= ibound c)%nat /\ (length (im_fifo (s_im s)) <= 2 * ibound c)%nat.

Lemma fetch_and_update_im c s now a jit : s_im (fetch_and_update pol decay c s now a jit) = s_im s.
Proof.
  unfold fetch_and_update.
  destruct (update_path_cache decay c s _ now) as [[[cs act] chan] pn].
  destruct (maybe_update_active decay c now (rank decay now cs) act) as [act' pn2].
  match goal with |- context [let '(failed, next) := ?x in _] => destruct x as [failed next] end.
  reflexivity.
Qed.
Lemma handle_issue_im c s now m rest : s_im (handle_issue decay c s now m rest) = s_im s.
Proof.
  unfold handle_issue. destruct (negb _); [reflexivity|].
  destruct (ingest_path_issue decay m now _ (s_cached s)) as [cs1 hit1].
  destruct (drain decay c now _ rest cs1) as [cs2 hit2].
  destruct (hit1 || hit2); [|reflexivity].
  destruct (maybe_update_active decay c now (rank decay now cs2) (s_active s)) as [act pn]. reflexivity.
Qed.

Lemma step_im c s e : 0 < c_dedup c -> IMBounded c s -> IMBounded c (fst (step pol decay c s e)).
Proof.
  intros D B0. pose proof B0 as (I & B & Bf). unfold step. destruct (s_dead s); [exact B0|].
  destruct e as [now a jit|now i|now|now m|now|now]; cbn [fst].
  - unfold maintain. destruct (_ && _); [exact B0|].
    destruct (s_next_refetch _ <=? now); cbn [fst].
    + unfold IMBounded. rewrite fetch_and_update_im. destruct (s_next_idle s <=? now); exact B0.
    + destruct (s_next_idle s <=? now); exact B0.
  - destruct (target_type i) as [t|]; [|exact B0].
    pose proof (add_issue_IMInv c (s_im s) i (mkMarker t now (penalty i)) D I) as A.
    pose proof (add_issue_bounds c (s_im s) i (mkMarker t now (penalty i)) I B Bf) as A'.
    destruct (add_issue c (s_im s) i _) as [[im bc] pn]. cbn in A, A'. destruct A as (A1 & A2). destruct A' as [A3 A4].
    split; [exact A1|split; assumption].
  - destruct (s_chan s); [exact B0|]. cbn [fst]. unfold IMBounded. rewrite handle_issue_im. exact B0.
  - unfold IMBounded. rewrite handle_issue_im. exact B0.
  - destruct (hand_out s now); exact B0.
  - destruct (s_active s); [destruct (expired_at_handout _ _)|]; exact B0.
Qed.

Lemma run_im c evs : 0 < c_dedup c -> forall s, IMBounded c s -> IMBounded c (run pol decay c s evs).
Proof. intros D. induction evs as [|e r IH]; intros s H; cbn; [exact H|]. apply IH, step_im; assumption. Qed.

Lemma init_im c t0 : IMBounded c (init_st c t0).
Proof.
  split; [constructor; cbn; [constructor|exact I|intros i []]|cbn; unfold ibound; lia].
Qed.

End WithModel.

Section Handout.
Variable pol : path -> option bool.
Variable decay : Q -> N -> N -> Q.

Lemma step_out_live c s e s' p :
  step pol decay c s e = (s', OPath p) ->
  (exists now, e = Send now \/ e = SendWait now) /\ expired_at_handout p (ev_time e) = false.
Proof.
  unfold step. destruct (s_dead s); [discriminate|].
  destruct e as [now a jit|now i|now|now m|now|now]; intros E.
  - unfold maintain in E. destruct (_ && _); [discriminate|].
    destruct (s_next_refetch _ <=? now); discriminate.
  - destruct (target_type i); [|discriminate].
    destruct (add_issue c (s_im s) i _) as [[im bc] pn]. discriminate.
  - destruct (s_chan s); discriminate.
  - discriminate.
  - unfold hand_out in E. destruct (s_active s) as [q|]; [|discriminate].
    destruct (expired_at_handout q now) eqn:X; inv E. split; [exists now; auto|exact X].
  - destruct (s_active s) as [q|]; [|discriminate].
    destruct (expired_at_handout q now) eqn:X; inv E. split; [exists now; auto|exact X].
Qed.

Lemma step_tick_window c s now a jit s' :
  cfg_valid c = true -> step pol decay c s (Tick now a jit) = (s', OTick true) ->
  now + c_min_delay c <= s_next_refetch s' /\ s_next_refetch s' <= now + N.max (c_refetch c) (c_bo_max c).
Proof.
  intros V. unfold step. destruct (s_dead s); [discriminate|].
  unfold maintain. destruct (_ && _); [discriminate|].
  destruct (s_next_refetch _ <=? now); intros E; inv E.
  apply fetch_and_update_window. exact V.
Qed.
End Handout.

(** ** no debug assertion / expect of the worker is reachable *)
Section NoPanic.
Variable pol : path -> option bool.
Variable decay : Q -> N -> N -> Q.

(* the active slot's fingerprint is cached *)
Definition AIp (cs : list entry) (act : option path) : Prop :=
  forall a, act = Some a -> exists e, In e cs /\ e_fp e = p_fp a.

Lemma AIp_None cs : AIp cs None.
Proof. intros a H. discriminate. Qed.

Lemma AIp_paths cs cs' act : map e_path cs' = map e_path cs -> AIp cs act -> AIp cs' act.
Proof.
  intros E H a Ha. destruct (H a Ha) as (e & A & B).
  apply (in_map e_path) in A. rewrite <- E in A. apply in_map_iff in A. destruct A as (e' & A1 & A2).
  exists e'. split; [exact A2|]. unfold e_fp in *. rewrite A1. exact B.
Qed.

Lemma AIp_perm cs cs' act : Permutation cs cs' -> AIp cs act -> AIp cs' act.
Proof.
  intros P H a Ha. destruct (H a Ha) as (e & A & B). exists e. split; [eapply Permutation_in; eauto|exact B].
Qed.

Lemma fm_remove_fp fp fm p fm' : fm_remove fp fm = Some (p, fm') -> p_fp p = fp.
Proof.
  revert p fm'. induction fm as [|q r IH]; intros p fm' E; cbn in E; [discriminate|].
  destruct (p_fp q =? fp) eqn:Eq.
  - inv E. apply N.eqb_eq. exact Eq.
  - destruct (fm_remove fp r) as [[p0 r']|]; [|discriminate]. inv E. eapply IH. reflexivity.
Qed.

Definition has_fp (f : N) (cs : list entry) : bool := existsb (fun e => e_fp e =? f) cs.

Lemma retain_no_fp c now f cs : forall fm act,
  has_fp f cs = false -> snd (retain c now (Some f) cs fm act) = act.
Proof.
  induction cs as [|e r IH]; intros fm act H; cbn; [reflexivity|].
  cbn in H. apply orb_false_iff in H. destruct H as [H1 H2].
  destruct (fm_remove (e_fp e) fm) as [[p fm1]|].
  - rewrite H1.
    specialize (IH fm1 act H2). destruct (retain c now (Some f) r fm1 act) as [[r' fm''] act'']. cbn in *. exact IH.
  - rewrite H1.
    specialize (IH fm act H2). destruct (retain c now (Some f) r fm act) as [[r' fm''] act'']. cbn in *. exact IH.
Qed.

Lemma retain_has_fp c now f cs : forall fm act,
  has_fp f cs = true ->
  let '(cs', _, act') := retain c now (Some f) cs fm act in
  act' = None \/ exists e', In e' cs' /\ e_fp e' = f /\ act' = Some (e_path e').
Proof.
  induction cs as [|e r IH]; intros fm act H; [discriminate|].
  cbn [retain].
  set (efm := match fm_remove (e_fp e) fm with
              | Some (p, fm') => (mkEntry p (e_rel e), fm')
              | None => (e, fm)
              end).
  assert (Hfp : e_fp (fst efm) = e_fp e).
  { subst efm. destruct (fm_remove (e_fp e) fm) as [[p fm1]|] eqn:Er; [|reflexivity].
    cbn. unfold e_fp at 1. cbn. eapply fm_remove_fp. exact Er. }
  destruct efm as [e' fm1]. cbn in Hfp.
  set (keep := negb (is_expired c now (e_path e'))).
  set (act1 := if optN_eq (Some (e_fp e)) (Some f) then (if keep then Some (e_path e') else None) else act).
  destruct (has_fp f r) eqn:Hr.
  - specialize (IH fm1 act1 eq_refl). destruct (retain c now (Some f) r fm1 act1) as [[r' fm''] act''].
    destruct IH as [IH|(x & A & B & C)]; [left; exact IH|].
    right. exists x. split; [destruct keep; [right|]; exact A|]. split; assumption.
  - pose proof (retain_no_fp c now f r fm1 act1 Hr) as Eact.
    destruct (retain c now (Some f) r fm1 act1) as [[r' fm''] act'']. cbn in Eact. subst act''.
    assert (H' : (e_fp e =? f) || has_fp f r = true) by exact H. clear H. rename H' into H.
    rewrite Hr, orb_false_r in H. subst act1. cbn [optN_eq]. rewrite H.
    destruct keep; [|left; reflexivity].
    right. exists e'. split; [left; reflexivity|]. split; [|reflexivity].
    rewrite Hfp. apply N.eqb_eq. exact H.
Qed.

Lemma retain_AIp c now cs fm act cs' fm' act' :
  retain c now (opt_fp act) cs fm act = (cs', fm', act') -> AIp cs act -> AIp cs' act'.
Proof.
  intros E H. destruct act as [a|].
  - cbn in E. destruct (H a eq_refl) as (e & A & B).
    assert (Hh : has_fp (p_fp a) cs = true).
    { unfold has_fp. apply existsb_exists. exists e. split; [exact A|apply N.eqb_eq; exact B]. }
    pose proof (retain_has_fp c now (p_fp a) cs fm (Some a) Hh) as R. rewrite E in R.
    destruct R as [->|(x & X1 & X2 & ->)]; [apply AIp_None|].
    intros a' Ea. inv Ea. exists x. split; [exact X1|reflexivity].
  - cbn in E.
    assert (G : forall cs fm, snd (retain c now None cs fm None) = None).
    { clear. induction cs as [|e r IH]; intros fm; cbn; [reflexivity|].
      destruct (fm_remove (e_fp e) fm) as [[p fm1]|].
      - specialize (IH fm1). destruct (retain c now None r fm1 None) as [[r' fm''] act'']. exact IH.
      - specialize (IH fm). destruct (retain c now None r fm None) as [[r' fm''] act'']. exact IH. }
    specialize (G cs fm). rewrite E in G. cbn in G. subst act'. apply AIp_None.
Qed.

Lemma position_Some fp cs idx :
  position fp cs = Some idx -> exists y, nth_error cs idx = Some y /\ e_fp y = fp.
Proof.
  revert idx. induction cs as [|e r IH]; intros idx H; cbn in H; [discriminate|].
  destruct (e_fp e =? fp) eqn:E.
  - inv H. exists e. split; [reflexivity|apply N.eqb_eq; exact E].
  - destruct (position fp r) as [k|]; [|discriminate]. inv H. apply (IH k eq_refl).
Qed.
Lemma position_None fp cs : position fp cs = None -> forall e, In e cs -> e_fp e <> fp.
Proof.
  induction cs as [|x r IH]; intros H e He; [destruct He|]. cbn in H.
  destruct (e_fp x =? fp) eqn:E; [discriminate|].
  destruct (position fp r) eqn:P; [discriminate|].
  destruct He as [<-|He]; [apply N.eqb_neq; exact E|apply IH; [reflexivity|exact He]].
Qed.
Lemma swap0_head idx cs y : nth_error cs idx = Some y -> exists t, swap0 idx cs = y :: t.
Proof.
  destruct idx as [|k]; destruct cs as [|x r]; cbn; intros H; try discriminate.
  - inv H. eexists; reflexivity.
  - rewrite H. eexists; reflexivity.
Qed.

Lemma merge_AIp now ex nw act target :
  AIp ex act ->
  let r := merge_new_paths decay now ex nw (opt_fp act) target in
  AIp (fst r) act /\ snd r = None.
Proof.
  intros H. unfold merge_new_paths. destruct act as [a|]; cbn [opt_fp option_map].
  - destruct (H a eq_refl) as (e & A & B).
    destruct (position (p_fp a) ex) as [idx|] eqn:P.
    + destruct (position_Some _ _ _ P) as (y & Y1 & Y2).
      destruct (swap0_head idx ex y Y1) as (t & St). rewrite St.
      destruct (merge_take decay now _ _ nw) as [k1 k2]. cbn.
      split; [|reflexivity]. intros a' Ea. inv Ea. exists y. split; [left; reflexivity|exact Y2].
    + exfalso. apply (position_None _ _ P e A B).
  - destruct (merge_take decay now _ _ nw) as [k1 k2]. cbn. split; [apply AIp_None|reflexivity].
Qed.

Lemma maybe_update_active_AIp c now cs act :
  AIp cs act ->
  let r := maybe_update_active decay c now cs act in
  AIp cs (fst r) /\ snd r = None.
Proof.
  intros H. unfold maybe_update_active.
  assert (Hpn : snd (decide decay c now cs act) = None).
  { unfold decide. destruct act as [a|]; [|reflexivity].
    destruct (check_path_expiry a now (c_thresh c)); try reflexivity.
    destruct (best_path c now cs); [|reflexivity].
    destruct (H a eq_refl) as (e1 & A & B).
    unfold active_entry.
    destruct (find (fun e0 => e_fp e0 =? p_fp a) cs) eqn:F.
    - destruct (Qltb _ _); reflexivity.
    - exfalso. pose proof (find_none _ _ F e1 A) as X. cbn in X. rewrite B, N.eqb_refl in X. discriminate. }
  destruct (decide decay c now cs act) as [d pn]. cbn in Hpn. subst pn. cbn. split; [|reflexivity].
  unfold apply_decision.
  assert (Hb : forall b, best_path c now cs = Some b -> AIp cs (Some (e_path b))).
  { intros b E a Ea. inv Ea. exists b. split; [|reflexivity]. unfold best_path in E. apply find_some in E. tauto. }
  destruct (optN_eq _ _).
  - destruct d; [exact H|exact H|apply AIp_None].
  - destruct (best_path c now cs) as [b|] eqn:Eb.
    + destruct d; [exact H| |]; apply Hb; reflexivity.
    + destruct d; [exact H|exact H|apply AIp_None].
Qed.

Definition NP (s : st) : Prop := AIp (s_cached s) (s_active s) /\ IMInv (s_im s) /\ s_panic s = None.

Lemma update_path_cache_AIp c s fetched now :
  AIp (s_cached s) (s_active s) ->
  let r := update_path_cache decay c s fetched now in
  AIp (fst (fst (fst r))) (snd (fst (fst r))) /\ snd r = None.
Proof.
  intros H. unfold update_path_cache.
  destruct (retain c now (opt_fp (s_active s)) (s_cached s) (fm_of fetched) (s_active s)) as [[cs1 fm] act1] eqn:Er.
  pose proof (retain_AIp _ _ _ _ _ _ _ _ Er H) as A1.
  destruct fm as [|q fm']; [cbn; split; [exact A1|reflexivity]|].
  pose proof (drain_paths decay c now (opt_fp act1) (s_chan s) cs1) as Ed.
  destruct (drain decay c now (opt_fp act1) (s_chan s) cs1) as [cs2 h]. cbn in Ed.
  assert (A2 : AIp cs2 act1) by (eapply AIp_paths; eauto).
  match goal with |- context [merge_new_paths decay now cs2 ?cands (opt_fp act1) ?tg] =>
    pose proof (merge_AIp now cs2 cands act1 tg A2) as M;
    destruct (merge_new_paths decay now cs2 cands (opt_fp act1) tg) as [cs3 pn'] end.
  cbn in *. exact M.
Qed.

Lemma fetch_and_update_NP c s now a jit : NP s -> NP (fetch_and_update pol decay c s now a jit).
Proof.
  intros (A & I & Pn). unfold fetch_and_update.
  match goal with |- context [update_path_cache decay c s ?f now] =>
    pose proof (update_path_cache_AIp c s f now A) as U;
    destruct (update_path_cache decay c s f now) as [[[cs act] chan] pn] end.
  cbn in U. destruct U as [U1 U2]. subst pn.
  pose proof (maybe_update_active_AIp c now (rank decay now cs) act
                (AIp_perm _ _ _ (Permutation_sym (rank_perm decay now cs)) U1)) as M.
  destruct (maybe_update_active decay c now (rank decay now cs) act) as [act' pn2]. cbn in M. destruct M as [M1 M2]. subst pn2.
  match goal with |- context [let '(failed, next) := ?x in _] => destruct x as [failed next] end.
  split; [exact M1|]. split; [exact I|]. cbn. rewrite Pn. reflexivity.
Qed.

Lemma handle_issue_NP c s now m rest : NP s -> NP (handle_issue decay c s now m rest).
Proof.
  intros (A & I & Pn). unfold handle_issue, with_cached_active.
  destruct (negb _); [split; [exact A|split; [exact I|cbn; rewrite Pn; reflexivity]]|].
  pose proof (ingest_paths decay m now (opt_fp (s_active s)) (s_cached s)) as E1.
  destruct (ingest_path_issue decay m now _ (s_cached s)) as [cs1 hit1]. cbn in E1.
  pose proof (drain_paths decay c now (opt_fp (s_active s)) rest cs1) as E2.
  destruct (drain decay c now _ rest cs1) as [cs2 hit2]. cbn in E2.
  assert (A2 : AIp cs2 (s_active s)). { eapply AIp_paths; [|exact A]. congruence. }
  destruct (hit1 || hit2).
  - pose proof (maybe_update_active_AIp c now (rank decay now cs2) (s_active s)
                  (AIp_perm _ _ _ (Permutation_sym (rank_perm decay now cs2)) A2)) as M.
    destruct (maybe_update_active decay c now (rank decay now cs2) (s_active s)) as [act pn]. cbn in M.
    destruct M as [M1 M2]. subst pn. split; [exact M1|]. split; [exact I|]. cbn. rewrite Pn. reflexivity.
  - split; [exact A2|]. split; [exact I|]. cbn. rewrite Pn. reflexivity.
Qed.

Lemma step_NP c s e : 0 < c_dedup c -> NP s -> NP (fst (step pol decay c s e)).
Proof.
  intros D N0. pose proof N0 as (A & I & Pn). unfold step. destruct (s_dead s); [exact N0|].
  destruct e as [now a jit|now i|now|now m|now|now]; cbn [fst].
  - unfold maintain. destruct (_ && _); [split; [apply AIp_None|split; assumption]|].
    destruct (s_next_refetch _ <=? now); cbn [fst].
    + apply fetch_and_update_NP. destruct (s_next_idle s <=? now); exact N0.
    + destruct (s_next_idle s <=? now); exact N0.
  - destruct (target_type i) as [t|]; [|exact N0].
    pose proof (add_issue_IMInv c (s_im s) i (mkMarker t now (penalty i)) D I) as X.
    destruct (add_issue c (s_im s) i _) as [[im bc] pn]. cbn in X. destruct X as (X1 & X2). subst pn.
    split; [exact A|]. split; [exact X1|]. cbn. rewrite Pn. reflexivity.
  - destruct (s_chan s); [exact N0|]. apply handle_issue_NP, N0.
  - apply handle_issue_NP, N0.
  - destruct (hand_out s now); exact N0.
  - destruct (s_active s); [destruct (expired_at_handout _ _)|]; exact N0.
Qed.

Lemma run_NP c evs : 0 < c_dedup c -> forall s, NP s -> NP (run pol decay c s evs).
Proof. intros D. induction evs as [|e r IH]; intros s H; cbn; [exact H|]. apply IH, step_NP; assumption. Qed.

Lemma init_NP c t0 : NP (init_st c t0).
Proof.
  split; [apply AIp_None|]. split; [|reflexivity].
  constructor; cbn; [constructor|exact I|intros i []].
Qed.
End NoPanic.

(** ** the slot is served by a cached entry, fingerprints are unique; a re-evaluation leaves a
       valid path in the slot whenever a valid path is cached *)
Section Served.
Variable pol : path -> option bool.
Variable decay : Q -> N -> N -> Q.

Definition fps (cs : list entry) : list N := map e_fp cs.
Definition Sync (cs : list entry) (act : option path) : Prop :=
  forall a, act = Some a -> exists e, In e cs /\ e_path e = a.

Lemma Sync_None cs : Sync cs None.
Proof. intros a H; discriminate. Qed.
Lemma Sync_AIp cs act : Sync cs act -> AIp cs act.
Proof. intros H a Ha. destruct (H a Ha) as (e & A & B). exists e. split; [exact A|]. unfold e_fp. rewrite B. reflexivity. Qed.

Lemma fps_paths cs cs' : map e_path cs' = map e_path cs -> fps cs' = fps cs.
Proof.
  intros E. unfold fps, e_fp. rewrite <- (map_map e_path p_fp cs'), <- (map_map e_path p_fp cs), E. reflexivity.
Qed.
Lemma Sync_paths cs cs' act : map e_path cs' = map e_path cs -> Sync cs act -> Sync cs' act.
Proof.
  intros E H a Ha. destruct (H a Ha) as (e & A & B).
  apply (in_map e_path) in A. rewrite <- E in A. apply in_map_iff in A. destruct A as (e' & A1 & A2).
  exists e'. split; [exact A2|congruence].
Qed.
Lemma Sync_perm cs cs' act : Permutation cs cs' -> Sync cs act -> Sync cs' act.
Proof. intros P H a Ha. destruct (H a Ha) as (e & A & B). exists e. split; [eapply Permutation_in; eauto|exact B]. Qed.

Lemma NoDup_fp_inj cs e y : NoDup (fps cs) -> In e cs -> In y cs -> e_fp e = e_fp y -> e = y.
Proof.
  induction cs as [|x r IH]; intros N He Hy E; [destruct He|]. cbn in N. inv N.
  destruct He as [<-|He], Hy as [<-|Hy]; try reflexivity.
  - exfalso. apply H1. rewrite E. apply in_map. exact Hy.
  - exfalso. apply H1. rewrite <- E. apply in_map. exact He.
  - apply IH; assumption.
Qed.

(* re-evaluation *)
Lemma reeval_valid c now cs act :
  NoDup (fps cs) -> Sync cs act ->
  (exists e, In e cs /\ is_valid c now (e_path e) = true) ->
  exists p, fst (maybe_update_active decay c now cs act) = Some p /\ is_valid c now p = true.
Proof.
  intros ND Sy (v & Hv & Vv). unfold maybe_update_active.
  destruct (find (fun e => is_valid c now (e_path e)) cs) as [b|] eqn:Fb.
  2:{ exfalso. pose proof (find_none _ _ Fb v Hv) as X. cbn in X. congruence. }
  pose proof Fb as Fb'. apply find_some in Fb'. destruct Fb' as [Inb Vb].
  assert (Eb : best_path c now cs = Some b) by exact Fb.
  destruct (decide decay c now cs act) as [d pn] eqn:Ed. cbn [fst]. rewrite Eb.
  unfold apply_decision. destruct act as [a|]; cbn [opt_fp option_map optN_eq].
  - destruct (p_fp a =? e_fp b) eqn:Ef.
    + (* the best entry is the active one: the slot's path is its path *)
      apply N.eqb_eq in Ef. destruct (Sy a eq_refl) as (ea & A1 & A2).
      assert (ea = b). { apply (NoDup_fp_inj cs); try assumption. unfold e_fp. rewrite A2. exact Ef. }
      subst ea. subst a.
      assert (d <> ForceReplace).
      { unfold decide in Ed. unfold is_valid in Vb. destruct (check_path_expiry (e_path b) now (c_thresh c)); try discriminate.
        rewrite Eb in Ed. destruct (active_entry _ cs); [destruct (Qltb _ _)|]; inv Ed; discriminate. }
      exists (e_path b). split; [destruct d; try reflexivity; congruence|exact Vb].
    + destruct d eqn:Dd.
      * (* NoChange only for a valid active path *)
        exists a. split; [reflexivity|]. unfold decide in Ed. unfold is_valid.
        destruct (check_path_expiry a now (c_thresh c)); [reflexivity| |]; rewrite ?Eb in Ed; inv Ed.
      * exists (e_path b). split; [reflexivity|exact Vb].
      * exists (e_path b). split; [reflexivity|exact Vb].
  - unfold decide in Ed. inv Ed. exists (e_path b). split; [reflexivity|exact Vb].
Qed.

(* --- preservation of uniqueness and of Sync --- *)
Lemma retain_fps_incl c now afp cs : forall fm act x,
  In x (fst (fst (retain c now afp cs fm act))) -> In (e_fp x) (fps cs).
Proof.
  induction cs as [|e r IH]; intros fm act x; cbn; [tauto|].
  destruct (fm_remove (e_fp e) fm) as [[p fm1]|] eqn:Er.
  - match goal with |- context [retain c now afp r fm1 ?a] => specialize (IH fm1 a x);
      destruct (retain c now afp r fm1 a) as [[r' fm''] act''] end.
    cbn in *. destruct (negb _); cbn; intros H.
    + destruct H as [<-|H]; [left; unfold e_fp; cbn; symmetry; eapply fm_remove_fp; eauto|right; auto].
    + right; auto.
  - match goal with |- context [retain c now afp r fm ?a] => specialize (IH fm a x);
      destruct (retain c now afp r fm a) as [[r' fm''] act''] end.
    cbn in *. destruct (negb _); cbn; intros H.
    + destruct H as [<-|H]; [left; reflexivity|right; auto].
    + right; auto.
Qed.

Lemma retain_NoDup c now afp cs : forall fm act,
  NoDup (fps cs) -> NoDup (fps (fst (fst (retain c now afp cs fm act)))).
Proof.
  induction cs as [|e r IH]; intros fm act N; cbn; [constructor|]. cbn in N. inv N.
  destruct (fm_remove (e_fp e) fm) as [[p fm1]|] eqn:Er.
  - match goal with |- context [retain c now afp r fm1 ?a] =>
      pose proof (retain_fps_incl c now afp r fm1 a) as Inc; specialize (IH fm1 a H2);
      destruct (retain c now afp r fm1 a) as [[r' fm''] act''] end.
    cbn in *. destruct (negb _); cbn; [|exact IH].
    constructor; [|exact IH]. unfold e_fp at 1. cbn. rewrite (fm_remove_fp _ _ _ _ Er).
    intros X. apply in_map_iff in X. destruct X as (y & Y1 & Y2). apply H1. rewrite <- Y1. apply Inc. exact Y2.
  - match goal with |- context [retain c now afp r fm ?a] =>
      pose proof (retain_fps_incl c now afp r fm a) as Inc; specialize (IH fm a H2);
      destruct (retain c now afp r fm a) as [[r' fm''] act''] end.
    cbn in *. destruct (negb _); cbn; [|exact IH].
    constructor; [|exact IH].
    intros X. apply in_map_iff in X. destruct X as (y & Y1 & Y2). apply H1. rewrite <- Y1. apply Inc. exact Y2.
Qed.

(* fetched map: unique fingerprints *)
Lemma fm_insert_fps p fm x : In x (map p_fp (fm_insert p fm)) <-> x = p_fp p \/ In x (map p_fp fm).
Proof.
  induction fm as [|q r IH]; cbn; [intuition|].
  destruct (p_fp q =? p_fp p) eqn:E; cbn.
  - apply N.eqb_eq in E. rewrite E. intuition.
  - rewrite IH. intuition.
Qed.
Lemma fm_insert_NoDup p fm : NoDup (map p_fp fm) -> NoDup (map p_fp (fm_insert p fm)).
Proof.
  induction fm as [|q r IH]; cbn; intros N; [repeat constructor; intros []|]. inv N.
  destruct (p_fp q =? p_fp p) eqn:E; cbn.
  - apply N.eqb_eq in E. constructor; [rewrite <- E; exact H1|exact H2].
  - constructor; [|apply IH; exact H2]. rewrite fm_insert_fps. intros [X|X]; [apply N.eqb_neq in E; congruence|contradiction].
Qed.
Lemma fm_of_NoDup ps : NoDup (map p_fp (fm_of ps)).
Proof.
  unfold fm_of. assert (G : forall acc, NoDup (map p_fp acc) -> NoDup (map p_fp (fold_left (fun fm p => fm_insert p fm) ps acc))).
  { induction ps as [|p r IH]; intros acc N; cbn; [exact N|]. apply IH, fm_insert_NoDup, N. }
  apply G. constructor.
Qed.

Lemma fm_remove_spec fp fm p fm' :
  fm_remove fp fm = Some (p, fm') -> NoDup (map p_fp fm) ->
  NoDup (map p_fp fm') /\ ~ In fp (map p_fp fm') /\ (forall x, In x (map p_fp fm') -> In x (map p_fp fm)).
Proof.
  revert p fm'. induction fm as [|q r IH]; intros p fm' E N; cbn in E; [discriminate|]. cbn in N. inv N.
  destruct (p_fp q =? fp) eqn:Eq.
  - inv E. apply N.eqb_eq in Eq. subst fp. split; [exact H2|]. split; [exact H1|]. intros x Hx. right. exact Hx.
  - destruct (fm_remove fp r) as [[p0 r']|] eqn:E0; [|discriminate]. inv E.
    destruct (IH _ _ eq_refl H2) as (A & B & C). cbn. split.
    + constructor; [intros X; apply H1, C, X|exact A].
    + split; [intros [X|X]; [apply N.eqb_neq in Eq; congruence|contradiction]|].
      intros x [X|X]; [left; exact X|right; apply C, X].
Qed.
Lemma fm_remove_none fp fm : fm_remove fp fm = None -> ~ In fp (map p_fp fm).
Proof.
  induction fm as [|q r IH]; cbn; [tauto|]. destruct (p_fp q =? fp) eqn:Eq; [discriminate|].
  destruct (fm_remove fp r) as [[p0 r']|]; [discriminate|]. intros _ [X|X]; [apply N.eqb_neq in Eq; congruence|apply IH; auto].
Qed.

(* after the retain pass the remaining fetched paths are new: none of them has the fingerprint
   of a cached entry *)
Lemma retain_fm_fresh c now afp cs : forall fm act,
  NoDup (map p_fp fm) ->
  let r := retain c now afp cs fm act in
  NoDup (map p_fp (snd (fst r))) /\
  (forall x, In x (map p_fp (snd (fst r))) -> In x (map p_fp fm) /\ ~ In x (fps cs)).
Proof.
  induction cs as [|e r IH]; intros fm act N; cbn; [split; [exact N|intros x Hx; split; [exact Hx|intros []]]|].
  destruct (fm_remove (e_fp e) fm) as [[p fm1]|] eqn:Er.
  - destruct (fm_remove_spec _ _ _ _ Er N) as (N1 & F1 & I1).
    match goal with |- context [retain c now afp r fm1 ?a] => specialize (IH fm1 a N1);
      destruct (retain c now afp r fm1 a) as [[r' fm''] act''] end.
    cbn in *. destruct IH as [A B]. split; [exact A|]. intros x Hx. destruct (B x Hx) as [B1 B2].
    split; [apply I1, B1|]. intros [X|X]; [subst x; contradiction|contradiction].
  - pose proof (fm_remove_none _ _ Er) as F1.
    match goal with |- context [retain c now afp r fm ?a] => specialize (IH fm a N);
      destruct (retain c now afp r fm a) as [[r' fm''] act''] end.
    cbn in *. destruct IH as [A B]. split; [exact A|]. intros x Hx. destruct (B x Hx) as [B1 B2].
    split; [exact B1|]. intros [X|X]; [subst x; contradiction|contradiction].
Qed.

Lemma In_firstn {A} n (l : list A) x : In x (firstn n l) -> In x l.
Proof.
  revert n. induction l as [|a l IH]; intros n H; [rewrite firstn_nil in H; exact H|].
  destruct n; cbn in H; [destruct H|]. destruct H as [H|H]; [left; exact H|right; eapply IH; exact H].
Qed.
Lemma NoDup_firstn' {A} n (l : list A) : NoDup l -> NoDup (firstn n l).
Proof.
  revert n. induction l as [|a l IH]; intros n N; [rewrite firstn_nil; constructor|].
  destruct n; cbn; [constructor|]. inv N. constructor; [|apply IH; assumption].
  intros X. apply H1. eapply In_firstn. exact X.
Qed.

Lemma NoDup_app_intro {A} (l1 l2 : list A) :
  NoDup l1 -> NoDup l2 -> (forall x, In x l1 -> ~ In x l2) -> NoDup (l1 ++ l2).
Proof.
  induction l1 as [|a l IH]; intros N1 N2 D; [exact N2|]. inv N1. cbn. constructor.
  - rewrite in_app_iff. intros [X|X]; [contradiction|]. apply (D a (or_introl eq_refl) X).
  - apply IH; [assumption|assumption|]. intros x Hx. apply D. right. exact Hx.
Qed.

Lemma merge_NoDup now ex nw afp target :
  NoDup (fps ex) -> NoDup (fps nw) -> (forall x, In x (fps nw) -> ~ In x (fps ex)) ->
  NoDup (fps (fst (merge_new_paths decay now ex nw afp target))).
Proof.
  intros N1 N2 D. unfold merge_new_paths.
  set (pre := match afp with
              | Some fp => match position fp ex with
                           | Some idx => (swap0 idx ex, 1%nat, None)
                           | None => (ex, 0%nat, Some P_MERGE_ACTIVE)
                           end
              | None => (ex, 0%nat, None)
              end).
  assert (Hp : Permutation (fst (fst pre)) ex).
  { subst pre. destruct afp as [fp|]; [|reflexivity]. destruct (position fp ex); [|reflexivity]. cbn. apply swap0_perm. }
  destruct pre as [[ex1 ke0] pn]. cbn in Hp.
  destruct (merge_take decay now _ _ nw) as [k1 k2]. cbn.
  unfold fps. rewrite map_app. apply NoDup_app_intro.
  - rewrite <- firstn_map. apply NoDup_firstn'. eapply Permutation_NoDup; [symmetry; apply Permutation_map; exact Hp|exact N1].
  - rewrite <- firstn_map. apply NoDup_firstn', N2.
  - intros x H1 H2. rewrite <- firstn_map in H1, H2. apply In_firstn in H1. apply In_firstn in H2.
    apply (D x H2). eapply Permutation_in; [apply Permutation_map; exact Hp|exact H1].
Qed.

Lemma merge_Sync now ex nw act target :
  NoDup (fps ex) -> Sync ex act -> Sync (fst (merge_new_paths decay now ex nw (opt_fp act) target)) act.
Proof.
  intros N H. unfold merge_new_paths. destruct act as [a|]; cbn [opt_fp option_map]; [|intros a Ha; discriminate].
  destruct (H a eq_refl) as (e & A & B).
  destruct (position (p_fp a) ex) as [idx|] eqn:P.
  - destruct (position_Some _ _ _ P) as (y & Y1 & Y2).
    assert (y = e).
    { apply (NoDup_fp_inj ex); [exact N|eapply nth_error_In; eauto|exact A|]. unfold e_fp at 2. rewrite B. exact Y2. }
    subst y. destruct (swap0_head idx ex e Y1) as (t & St). rewrite St.
    destruct (merge_take decay now _ _ nw) as [k1 k2]. cbn.
    intros a' Ea. inv Ea. exists e. split; [left; reflexivity|reflexivity].
  - exfalso. apply (position_None _ _ P e A). unfold e_fp. rewrite B. reflexivity.
Qed.

Definition SI (s : st) : Prop := NoDup (fps (s_cached s)) /\ Sync (s_cached s) (s_active s).

Lemma update_path_cache_SI c s fetched now :
  SI s ->
  let r := update_path_cache decay c s fetched now in
  NoDup (fps (fst (fst (fst r)))) /\ Sync (fst (fst (fst r))) (snd (fst (fst r))).
Proof.
  intros [N Sy]. unfold update_path_cache.
  pose proof (retain_NoDup c now (opt_fp (s_active s)) (s_cached s) (fm_of fetched) (s_active s) N) as N1.
  pose proof (retain_fm_fresh c now (opt_fp (s_active s)) (s_cached s) (fm_of fetched) (s_active s) (fm_of_NoDup fetched)) as F.
  pose proof (retain_fps_incl c now (opt_fp (s_active s)) (s_cached s) (fm_of fetched) (s_active s)) as Inc.
  assert (Sy1 : Sync (fst (fst (retain c now (opt_fp (s_active s)) (s_cached s) (fm_of fetched) (s_active s))))
                     (snd (retain c now (opt_fp (s_active s)) (s_cached s) (fm_of fetched) (s_active s)))).
  { destruct (s_active s) as [a|] eqn:Ea.
    - cbn [opt_fp option_map]. destruct (Sy a eq_refl) as (e & A & B).
      assert (Hh : has_fp (p_fp a) (s_cached s) = true).
      { unfold has_fp. apply existsb_exists. exists e. split; [exact A|]. unfold e_fp. rewrite B. apply N.eqb_refl. }
      pose proof (retain_has_fp c now (p_fp a) (s_cached s) (fm_of fetched) (Some a) Hh) as R.
      destruct (retain c now (Some (p_fp a)) (s_cached s) (fm_of fetched) (Some a)) as [[cs' fm'] act']. cbn.
      destruct R as [->|(x & X1 & X2 & ->)]; [apply Sync_None|].
      intros a' E. inv E. exists x. split; [exact X1|reflexivity].
    - cbn [opt_fp option_map].
      assert (G : forall cs fm, snd (retain c now None cs fm None) = None).
      { clear. induction cs as [|e r IH]; intros fm; cbn; [reflexivity|].
        destruct (fm_remove (e_fp e) fm) as [[p fm1]|].
        - specialize (IH fm1). destruct (retain c now None r fm1 None) as [[r' fm''] act'']. exact IH.
        - specialize (IH fm). destruct (retain c now None r fm None) as [[r' fm''] act'']. exact IH. }
      rewrite G. apply Sync_None. }
  destruct (retain c now (opt_fp (s_active s)) (s_cached s) (fm_of fetched) (s_active s)) as [[cs1 fm] act1].
  cbn in N1, F, Inc, Sy1. destruct F as [F1 F2].
  destruct fm as [|q fm']; [cbn; split; assumption|].
  pose proof (drain_paths decay c now (opt_fp act1) (s_chan s) cs1) as Ed.
  destruct (drain decay c now (opt_fp act1) (s_chan s) cs1) as [cs2 h]. cbn in Ed.
  assert (N2 : NoDup (fps cs2)) by (rewrite (fps_paths _ _ Ed); exact N1).
  assert (Sy2 : Sync cs2 act1) by (eapply Sync_paths; eauto).
  set (cands := rank decay now (map (fun p => apply_cached_issues decay (s_im s) (mkEntry p (mkRel 0 now)) now) (q :: fm'))).
  assert (Pc : Permutation (fps cands) (map p_fp (q :: fm'))).
  { subst cands. unfold fps. etransitivity; [apply Permutation_map, rank_perm|].
    generalize (q :: fm'). intros L. rewrite map_map.
    replace (map (fun x => e_fp (apply_cached_issues decay (s_im s) (mkEntry x (mkRel 0 now)) now)) L) with (map p_fp L); [reflexivity|].
    apply map_ext. intros p. unfold e_fp. rewrite apply_cached_issues_path. reflexivity. }
  assert (Nc : NoDup (fps cands)) by (eapply Permutation_NoDup; [symmetry; exact Pc|exact F1]).
  assert (Dc : forall x, In x (fps cands) -> ~ In x (fps cs2)).
  { intros x Hx Hx2. assert (Hf : In x (map p_fp (q :: fm'))) by (eapply Permutation_in; eauto).
    destruct (F2 x Hf) as [_ Nin]. apply Nin. rewrite (fps_paths _ _ Ed) in Hx2.
    unfold fps in Hx2. apply in_map_iff in Hx2. destruct Hx2 as (y & Y1 & Y2). rewrite <- Y1. apply Inc. exact Y2. }
  pose proof (merge_NoDup now cs2 cands (opt_fp act1) (c_max_cached c) N2 Nc Dc) as M1.
  pose proof (merge_Sync now cs2 cands act1 (c_max_cached c) N2 Sy2) as M2.
  fold cands. destruct (merge_new_paths decay now cs2 cands (opt_fp act1) (c_max_cached c)) as [cs3 pn']. cbn in *.
  split; assumption.
Qed.

Lemma maybe_update_active_Sync c now cs act :
  Sync cs act -> Sync cs (fst (maybe_update_active decay c now cs act)).
Proof.
  intros H. unfold maybe_update_active. destruct (decide decay c now cs act) as [d pn]. cbn.
  unfold apply_decision.
  assert (Hb : forall b, best_path c now cs = Some b -> Sync cs (Some (e_path b))).
  { intros b E a Ea. inv Ea. exists b. split; [|reflexivity]. unfold best_path in E. apply find_some in E. tauto. }
  destruct (optN_eq _ _).
  - destruct d; [exact H|exact H|apply Sync_None].
  - destruct (best_path c now cs) as [b|] eqn:Eb.
    + destruct d; [exact H| |]; apply Hb; reflexivity.
    + destruct d; [exact H|exact H|apply Sync_None].
Qed.

Lemma rank_fps_NoDup now cs : NoDup (fps cs) -> NoDup (fps (rank decay now cs)).
Proof. intros N. eapply Permutation_NoDup; [symmetry; apply Permutation_map, rank_perm|exact N]. Qed.

Lemma fetch_and_update_SI c s now a jit : SI s -> SI (fetch_and_update pol decay c s now a jit).
Proof.
  intros I. unfold fetch_and_update.
  match goal with |- context [update_path_cache decay c s ?f now] =>
    pose proof (update_path_cache_SI c s f now I) as U;
    destruct (update_path_cache decay c s f now) as [[[cs act] chan] pn] end.
  cbn in U. destruct U as [U1 U2].
  pose proof (maybe_update_active_Sync c now (rank decay now cs) act
                (Sync_perm _ _ _ (Permutation_sym (rank_perm decay now cs)) U2)) as M.
  destruct (maybe_update_active decay c now (rank decay now cs) act) as [act' pn2]. cbn in M.
  match goal with |- context [let '(failed, next) := ?x in _] => destruct x as [failed next] end.
  split; cbn; [apply rank_fps_NoDup; exact U1|exact M].
Qed.

Lemma handle_issue_SI c s now m rest : SI s -> SI (handle_issue decay c s now m rest).
Proof.
  intros [N Sy]. unfold handle_issue, with_cached_active.
  destruct (negb _); [split; assumption|].
  pose proof (ingest_paths decay m now (opt_fp (s_active s)) (s_cached s)) as E1.
  destruct (ingest_path_issue decay m now _ (s_cached s)) as [cs1 hit1]. cbn in E1.
  pose proof (drain_paths decay c now (opt_fp (s_active s)) rest cs1) as E2.
  destruct (drain decay c now _ rest cs1) as [cs2 hit2]. cbn in E2.
  assert (E : map e_path cs2 = map e_path (s_cached s)) by congruence.
  assert (N2 : NoDup (fps cs2)) by (rewrite (fps_paths _ _ E); exact N).
  assert (S2 : Sync cs2 (s_active s)) by (eapply Sync_paths; eauto).
  destruct (hit1 || hit2).
  - pose proof (maybe_update_active_Sync c now (rank decay now cs2) (s_active s)
                  (Sync_perm _ _ _ (Permutation_sym (rank_perm decay now cs2)) S2)) as M.
    destruct (maybe_update_active decay c now (rank decay now cs2) (s_active s)) as [act pn]. cbn in M.
    split; cbn; [apply rank_fps_NoDup; exact N2|exact M].
  - split; assumption.
Qed.

Lemma step_SI c s e : SI s -> SI (fst (step pol decay c s e)).
Proof.
  intros I. pose proof I as [N Sy]. unfold step. destruct (s_dead s); [exact I|].
  destruct e as [now a jit|now i|now|now m|now|now]; cbn [fst].
  - unfold maintain. destruct (_ && _); [split; [exact N|apply Sync_None]|].
    destruct (s_next_refetch _ <=? now); cbn [fst].
    + apply fetch_and_update_SI. destruct (s_next_idle s <=? now); exact I.
    + destruct (s_next_idle s <=? now); exact I.
  - destruct (target_type i) as [t|]; [|exact I].
    destruct (add_issue c (s_im s) i _) as [[im bc] pn]. exact I.
  - destruct (s_chan s); [exact I|]. apply handle_issue_SI, I.
  - apply handle_issue_SI, I.
  - destruct (hand_out s now); exact I.
  - destruct (s_active s); [destruct (expired_at_handout _ _)|]; exact I.
Qed.

Lemma run_SI c evs : forall s, SI s -> SI (run pol decay c s evs).
Proof. induction evs as [|e r IH]; intros s H; cbn; [exact H|]. apply IH, step_SI, H. Qed.
Lemma init_SI c t0 : SI (init_st c t0).
Proof. split; [constructor|apply Sync_None]. Qed.

(* earliest_expiry is a lower bound of every cached expiry *)
Lemma earliest_expiry_le cs e x :
  In e cs -> p_exp (e_path e) = Some x -> exists m, earliest_expiry cs = Some m /\ m <= x.
Proof.
  unfold earliest_expiry.
  assert (G : forall cs acc, (forall a, acc = Some a -> exists m, fold_left (fun acc e => match p_exp (e_path e) with
                          | Some x => match acc with Some a => Some (N.min a x) | None => Some x end
                          | None => acc end) cs acc = Some m /\ m <= a)).
  { induction cs0 as [|y r IH]; intros acc a Ha; cbn; [exists a; split; [exact Ha|lia]|].
    subst acc. destruct (p_exp (e_path y)) as [z|].
    - destruct (IH (Some (N.min a z)) _ eq_refl) as (m & M1 & M2). exists m. split; [exact M1|lia].
    - apply IH. reflexivity. }
  revert e x. induction cs as [|y r IH]; intros e x He Hx; [destruct He|]. cbn.
  destruct He as [<-|He].
  - rewrite Hx. apply (G r (Some x) x eq_refl).
  - destruct (p_exp (e_path y)) as [z|].
    + (* generalise over the accumulator *)
      clear IH.
      assert (K : forall r acc, In e r -> exists m, fold_left (fun acc e => match p_exp (e_path e) with
                          | Some x => match acc with Some a => Some (N.min a x) | None => Some x end
                          | None => acc end) r acc = Some m /\ m <= x).
      { induction r0 as [|w r0 IHr]; intros acc Hin; [destruct Hin|]. cbn. destruct Hin as [<-|Hin].
        - rewrite Hx. destruct acc as [a|].
          + destruct (G r0 (Some (N.min a x)) _ eq_refl) as (m & M1 & M2). exists m. split; [exact M1|lia].
          + apply (G r0 (Some x) x eq_refl).
        - apply IHr. exact Hin. }
      apply K. exact He.
    + apply (IH e x He Hx).
Qed.

Lemma valid_expiry c now p : is_valid c now p = true -> exists x, p_exp p = Some x /\ now + c_thresh c < x * NS.
Proof.
  unfold is_valid, check_path_expiry, expiry_ns. destruct (p_exp p) as [x|].
  - intros H. exists x. split; [reflexivity|].
    destruct (x * NS <=? now) eqn:E1; [discriminate|]. apply N.leb_gt in E1.
    destruct (x * NS - now <=? c_thresh c) eqn:E2; [discriminate|]. apply N.leb_gt in E2. lia.
  - intros H. exfalso. change (0 * NS) with 0 in H. destruct now; cbn in H; discriminate.
Qed.

(* after a lookup: if a valid path is cached the slot holds a valid path, and it outlives the
   time of the next scheduled lookup *)
Lemma fetch_serves c s now a jit :
  cfg_valid c = true -> c_bo_max c <= c_thresh c -> SI s ->
  let s' := fetch_and_update pol decay c s now a jit in
  (exists e, In e (s_cached s') /\ is_valid c now (e_path e) = true) ->
  exists p x, s_active s' = Some p /\ is_valid c now p = true /\ p_exp p = Some x /\
              s_next_refetch s' <= x * NS /\ s_dead s' = false.
Proof.
  intros V Hbo I. unfold cfg_valid in V. apply andb_prop in V. destruct V as [V1 V2].
  apply negb_true_iff, N.ltb_ge in V1. apply negb_true_iff, N.ltb_ge in V2.
  unfold fetch_and_update.
  match goal with |- context [update_path_cache decay c s ?f now] =>
    pose proof (update_path_cache_SI c s f now I) as U;
    destruct (update_path_cache decay c s f now) as [[[cs act] chan] pn] end.
  cbn in U. destruct U as [U1 U2].
  assert (N3 : NoDup (fps (rank decay now cs))) by (apply rank_fps_NoDup; exact U1).
  assert (S3 : Sync (rank decay now cs) act) by (eapply Sync_perm; [symmetry; apply rank_perm|exact U2]).
  pose proof (maybe_update_active_Sync c now (rank decay now cs) act S3) as M.
  pose proof (reeval_valid c now (rank decay now cs) act N3 S3) as R.
  destruct (maybe_update_active decay c now (rank decay now cs) act) as [act' pn2]. cbn in M, R.
  match goal with |- context [let '(failed, next) := ?x in _] => remember x as fn eqn:Efn end.
  destruct fn as [failed next]. cbn. intros Hv.
  destruct (R Hv) as (p & Ep & Vp). subst act'.
  destruct (valid_expiry c now p Vp) as (x & Ex & Lx).
  exists p, x. split; [reflexivity|]. split; [exact Vp|]. split; [exact Ex|]. split; [|reflexivity].
  destruct (M p eq_refl) as (e & He & Pe).
  assert (He' : In e cs) by (apply (rank_In decay now cs); exact He).
  assert (Ex' : p_exp (e_path e) = Some x) by (rewrite Pe; exact Ex).
  match type of Efn with _ = match ?r with _ => _ end => destruct r end; inv Efn.
  - destruct (earliest_expiry_le cs e x He' Ex') as (m & Em & Lm). rewrite Em.
    assert (m * NS <= x * NS) by (apply N.mul_le_mono_r; exact Lm). lia.
  - unfold backoff_duration. lia.
Qed.
End Served.
