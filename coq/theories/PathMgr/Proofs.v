(** Lemmas about the path-manager model: structural facts (rank is a permutation, the issue
    passes only touch reliabilities, merge selects from its inputs) and the preservation of an
    arbitrary path predicate by every function that writes the cache or the active slot. *)
From Coq Require Import Permutation Sorting.
From Sci Require Import PathMgr.Model.
Local Open Scope N_scope.

Ltac inv H := inversion H; subst; clear H.

Lemma first_some_None {A} (a b : option A) : first_some a b = None <-> a = None /\ b = None.
Proof. destruct a, b; cbn; split; intros; try tauto; try discriminate; destruct H; discriminate. Qed.

Section WithModel.
Variable pol : path -> option bool.
Variable decay : Q -> N -> N -> Q.

Notation rank := (rank decay).
Notation total := (total decay).
Notation rel_update := (rel_update decay).

(** ** rank *)
Lemma insert_ranked_perm now x l : Permutation (insert_ranked decay now x l) (x :: l).
Proof.
  induction l as [|y r IH]; cbn; [reflexivity|].
  destruct (Qltb _ _); [|reflexivity].
  rewrite IH. apply perm_swap.
Qed.

Lemma rank_perm now l : Permutation (rank now l) l.
Proof.
  induction l as [|x r IH]; cbn; [reflexivity|].
  rewrite insert_ranked_perm. constructor. exact IH.
Qed.

Lemma rank_length now l : length (rank now l) = length l.
Proof. apply Permutation_length, rank_perm. Qed.

Lemma rank_In now l x : In x (rank now l) <-> In x l.
Proof. split; apply Permutation_in; [|symmetry]; apply rank_perm. Qed.

Lemma rank_Forall (Q : entry -> Prop) now l : Forall Q l -> Forall Q (rank now l).
Proof. intros H. eapply Permutation_Forall; [symmetry; apply rank_perm|exact H]. Qed.

(** ** the issue passes keep the paths *)
Lemma ingest_all_paths m now afp cs :
  map e_path (fst (ingest_all decay m now afp cs)) = map e_path cs.
Proof.
  induction cs as [|e r IH]; cbn; [reflexivity|].
  destruct (ingest_all decay m now afp r) as [r' hit]; cbn in *.
  destruct (matches_path _ _); cbn; rewrite IH; reflexivity.
Qed.

Lemma ingest_first_paths m now afp cs :
  map e_path (fst (ingest_first decay m now afp cs)) = map e_path cs.
Proof.
  induction cs as [|e r IH]; cbn; [reflexivity|].
  destruct (matches_path _ _); cbn; [reflexivity|].
  destruct (ingest_first decay m now afp r) as [r' hit]; cbn in *. rewrite IH. reflexivity.
Qed.

Lemma ingest_paths m now afp cs :
  map e_path (fst (ingest_path_issue decay m now afp cs)) = map e_path cs.
Proof.
  unfold ingest_path_issue. destruct (applies_to_multiple_paths _);
    [apply ingest_all_paths|apply ingest_first_paths].
Qed.

Lemma drain_paths c now afp chan cs :
  map e_path (fst (drain decay c now afp chan cs)) = map e_path cs.
Proof.
  unfold drain.
  assert (G : forall acc, map e_path (fst (fold_left
     (fun acc m => if applies_to_path (m_target m) (c_src c) (c_dst c)
                   then let '(cs', hit) := ingest_path_issue decay m now afp (fst acc) in (cs', snd acc || hit)
                   else acc) chan acc)) = map e_path (fst acc)).
  { induction chan as [|m r IH]; intros acc; cbn; [reflexivity|].
    rewrite IH. destruct (applies_to_path _ _ _); [|reflexivity].
    pose proof (ingest_paths m now afp (fst acc)) as E.
    destruct (ingest_path_issue decay m now afp (fst acc)) as [cs' hit]. exact E. }
  apply (G (cs, false)).
Qed.

Lemma apply_cached_issues_path im e now : e_path (apply_cached_issues decay im e now) = e_path e.
Proof.
  unfold apply_cached_issues. generalize (im_cache im). intros l. revert e.
  induction l as [|jm r IH]; intros e; cbn; [reflexivity|].
  rewrite IH. destruct (matches_path _ _); reflexivity.
Qed.

(** ** a path predicate is preserved *)
Section Pres.
Variable P : path -> Prop.
Definition EP (e : entry) : Prop := P (e_path e).
Definition OP (o : option path) : Prop := forall p, o = Some p -> P p.

Lemma EP_map cs : Forall EP cs <-> Forall P (map e_path cs).
Proof. rewrite Forall_map. reflexivity. Qed.

Lemma OP_None : OP None.
Proof. intros p H; discriminate. Qed.
Lemma OP_Some p : P p -> OP (Some p).
Proof. intros H q E; inv E; exact H. Qed.

Lemma fm_insert_pres p fm : P p -> Forall P fm -> Forall P (fm_insert p fm).
Proof.
  intros Hp. induction fm as [|q r IH]; intros H; cbn; [repeat constructor; exact Hp|].
  inv H. destruct (_ =? _); constructor; auto.
Qed.

Lemma fm_of_pres ps : Forall P ps -> Forall P (fm_of ps).
Proof.
  unfold fm_of. assert (G : forall acc, Forall P acc -> Forall P ps ->
    Forall P (fold_left (fun fm p => fm_insert p fm) ps acc)).
  { induction ps as [|p r IH]; intros acc Ha Hp; cbn; [exact Ha|].
    inv Hp. apply IH; [apply fm_insert_pres; assumption|assumption]. }
  intros H. apply G; [constructor|exact H].
Qed.

Lemma fm_remove_pres fp fm p fm' :
  fm_remove fp fm = Some (p, fm') -> Forall P fm -> P p /\ Forall P fm'.
Proof.
  revert p fm'. induction fm as [|q r IH]; intros p fm' E H; cbn in E; [discriminate|].
  inv H. destruct (_ =? _).
  - inv E. split; assumption.
  - destruct (fm_remove fp r) as [[p0 r']|] eqn:E0; [|discriminate]. inv E.
    destruct (IH _ _ eq_refl H3) as [A B]. split; [exact A|constructor; assumption].
Qed.

Lemma retain_pres c now afp cs fm act cs' fm' act' :
  retain c now afp cs fm act = (cs', fm', act') ->
  Forall EP cs -> Forall P fm -> OP act -> Forall EP cs' /\ Forall P fm' /\ OP act'.
Proof.
  revert fm act cs' fm' act'. induction cs as [|e r IH]; intros fm act cs' fm' act' E Hc Hf Ha.
  - cbn in E. inv E. auto.
  - cbn in E. inv Hc.
    destruct (fm_remove (e_fp e) fm) as [[p fm1]|] eqn:Er.
    + destruct (fm_remove_pres _ _ _ _ Er Hf) as [Pp Pf1].
      set (e' := mkEntry p (e_rel e)) in *.
      destruct (retain c now afp r fm1 _) as [[r' fm''] act''] eqn:Erec in E.
      inv E.
      assert (Ha' : OP (if optN_eq (Some (e_fp e)) afp
                        then if negb (is_expired c now (e_path e')) then Some (e_path e') else None
                        else act)).
      { destruct (optN_eq _ _); [|exact Ha]. destruct (negb _); [apply OP_Some; exact Pp|apply OP_None]. }
      destruct (IH _ _ _ _ _ Erec H2 Pf1 Ha') as (A & B & C).
      split; [|split; assumption]. destruct (negb _); [constructor; [exact Pp|exact A]|exact A].
    + destruct (retain c now afp r fm _) as [[r' fm''] act''] eqn:Erec in E.
      inv E.
      assert (Ha' : OP (if optN_eq (Some (e_fp e)) afp
                        then if negb (is_expired c now (e_path e)) then Some (e_path e) else None
                        else act)).
      { destruct (optN_eq _ _); [|exact Ha]. destruct (negb _); [apply OP_Some; exact H1|apply OP_None]. }
      destruct (IH _ _ _ _ _ Erec H2 Hf Ha') as (A & B & C).
      split; [|split; assumption]. destruct (negb _); [constructor; [exact H1|exact A]|exact A].
Qed.

Lemma retain_length c now afp cs fm act :
  (length (fst (fst (retain c now afp cs fm act))) <= length cs)%nat.
Proof.
  revert fm act. induction cs as [|e r IH]; intros fm act; cbn; [lia|].
  destruct (fm_remove (e_fp e) fm) as [[p fm1]|].
  - match goal with |- context [retain c now afp r fm1 ?a] => specialize (IH fm1 a);
      destruct (retain c now afp r fm1 a) as [[r' fm''] act''] end.
    cbn in *. destruct (negb _); cbn; lia.
  - match goal with |- context [retain c now afp r fm ?a] => specialize (IH fm a);
      destruct (retain c now afp r fm a) as [[r' fm''] act''] end.
    cbn in *. destruct (negb _); cbn; lia.
Qed.

Lemma Forall_firstn' {A} (Q : A -> Prop) n l : Forall Q l -> Forall Q (firstn n l).
Proof.
  revert n. induction l as [|a l IH]; intros n H; [rewrite firstn_nil; constructor|].
  destruct n; cbn; [constructor|]. inv H. constructor; auto.
Qed.

Lemma swap0_perm idx cs : Permutation (swap0 idx cs) cs.
Proof.
  destruct idx as [|k]; [reflexivity|]. destruct cs as [|x r]; [reflexivity|].
  unfold swap0.
  destruct (nth_error r k) as [y|] eqn:E; [|reflexivity].
  apply nth_error_split in E. destruct E as (l1 & l2 & E & Hl). subst r k.
  assert (F : firstn (length l1) (l1 ++ y :: l2) = l1).
  { rewrite firstn_app, firstn_all, Nat.sub_diag. cbn. apply app_nil_r. }
  assert (K : skipn (S (length l1)) (l1 ++ y :: l2) = l2).
  { replace (l1 ++ y :: l2) with ((l1 ++ [y]) ++ l2) by (rewrite <- app_assoc; reflexivity).
    replace (S (length l1)) with (length (l1 ++ [y])) by (rewrite app_length; cbn; lia).
    rewrite skipn_app, skipn_all, Nat.sub_diag. reflexivity. }
  rewrite F, K.
  (* y :: l1 ++ x :: l2  ~  x :: l1 ++ y :: l2 *)
  transitivity (y :: x :: l1 ++ l2).
  - constructor. symmetry. apply Permutation_middle.
  - rewrite perm_swap. constructor. apply Permutation_middle.
Qed.

Lemma merge_take_le now n ex nw :
  (fst (merge_take decay now n ex nw) + snd (merge_take decay now n ex nw) <= n)%nat.
Proof.
  revert ex nw. induction n as [|n IH]; intros ex nw; cbn; [lia|].
  destruct ex as [|e ex'], nw as [|x nw']; cbn; try lia.
  - specialize (IH [] nw'). destruct (merge_take decay now n [] nw'); cbn in *; lia.
  - specialize (IH ex' []). destruct (merge_take decay now n ex' []); cbn in *; lia.
  - destruct (negb _).
    + specialize (IH ex' (x :: nw')). destruct (merge_take decay now n ex' (x :: nw')); cbn in *; lia.
    + specialize (IH (e :: ex') nw'). destruct (merge_take decay now n (e :: ex') nw'); cbn in *; lia.
Qed.

Lemma merge_pres now ex nw afp target :
  Forall EP ex -> Forall EP nw -> Forall EP (fst (merge_new_paths decay now ex nw afp target)).
Proof.
  intros He Hn. unfold merge_new_paths.
  set (pre := match afp with
              | Some fp => match position fp ex with
                           | Some idx => (swap0 idx ex, 1%nat, None)
                           | None => (ex, 0%nat, Some P_MERGE_ACTIVE)
                           end
              | None => (ex, 0%nat, None)
              end).
  assert (Hpre : Forall EP (fst (fst pre))).
  { subst pre. destruct afp as [fp|]; [|exact He]. destruct (position fp ex); [|exact He].
    cbn. eapply Permutation_Forall; [symmetry; apply swap0_perm|exact He]. }
  destruct pre as [[ex1 ke0] pn]. cbn in Hpre.
  destruct (merge_take decay now _ _ nw) as [a b]. cbn.
  apply Forall_app. split; apply Forall_firstn'; assumption.
Qed.

Lemma merge_length now ex nw afp target :
  (length (fst (merge_new_paths decay now ex nw afp target)) <= Nat.max (N.to_nat target) 1)%nat.
Proof.
  unfold merge_new_paths.
  set (pre := match afp with
              | Some fp => match position fp ex with
                           | Some idx => (swap0 idx ex, 1%nat, None)
                           | None => (ex, 0%nat, Some P_MERGE_ACTIVE)
                           end
              | None => (ex, 0%nat, None)
              end).
  assert (Hke : (snd (fst pre) <= 1)%nat).
  { subst pre. destruct afp as [fp|]; [|cbn; lia]. destruct (position fp ex); cbn; lia. }
  destruct pre as [[ex1 ke0] pn]. cbn in Hke.
  pose proof (merge_take_le now (N.to_nat target - ke0) (skipn ke0 ex1) nw) as L.
  destruct (merge_take decay now _ _ nw) as [a b]. cbn in *.
  rewrite app_length, !firstn_length. lia.
Qed.

Lemma find_In {A} (f : A -> bool) l x : find f l = Some x -> In x l.
Proof. intros H. apply find_some in H. tauto. Qed.

Lemma maybe_update_active_pres c now cs act :
  Forall EP cs -> OP act -> OP (fst (maybe_update_active decay c now cs act)).
Proof.
  intros Hc Ha. unfold maybe_update_active.
  destruct (decide decay c now cs act) as [d pn]. cbn.
  unfold apply_decision.
  assert (Hb : forall b, best_path c now cs = Some b -> P (e_path b)).
  { intros b E. apply find_In in E. rewrite Forall_forall in Hc. apply (Hc b E). }
  destruct (optN_eq _ _).
  - destruct d; [exact Ha|exact Ha|apply OP_None].
  - destruct (best_path c now cs) as [b|] eqn:Eb.
    + destruct d; [exact Ha| |]; apply OP_Some, Hb; reflexivity.
    + destruct d; [exact Ha|exact Ha|apply OP_None].
Qed.

Lemma update_path_cache_pres c s fetched now cs act chan pn :
  update_path_cache decay c s fetched now = (cs, act, chan, pn) ->
  Forall EP (s_cached s) -> OP (s_active s) -> Forall P fetched ->
  Forall EP cs /\ OP act.
Proof.
  unfold update_path_cache. intros E Hc Ha Hf.
  destruct (retain c now (opt_fp (s_active s)) (s_cached s) (fm_of fetched) (s_active s))
    as [[cs1 fm] act1] eqn:Er.
  destruct (retain_pres _ _ _ _ _ _ _ _ _ Er Hc (fm_of_pres _ Hf) Ha) as (A & B & C).
  destruct fm as [|q fm'].
  - inv E. auto.
  - pose proof (drain_paths c now (opt_fp act1) (s_chan s) cs1) as Ed.
    destruct (drain decay c now (opt_fp act1) (s_chan s) cs1) as [cs2 h]. cbn in Ed.
    match type of E with context [merge_new_paths decay now cs2 ?cands ?afp ?tg] =>
      pose proof (merge_pres now cs2 cands afp tg) as M;
      destruct (merge_new_paths decay now cs2 cands afp tg) as [cs3 pn'] end.
    inv E. split; [|exact C]. apply M.
    + apply EP_map. rewrite Ed. apply EP_map. exact A.
    + apply rank_Forall. rewrite Forall_map. rewrite Forall_forall in *.
      intros p Hp. unfold EP. rewrite apply_cached_issues_path. cbn. apply B. exact Hp.
Qed.

Notation allowed := (allowed pol).
Notation fetch_and_update := (fetch_and_update pol decay).
Notation maintain := (maintain pol decay).
Notation handle_issue := (handle_issue decay).
Notation step := (step pol decay).

Definition PInv (s : st) : Prop := Forall EP (s_cached s) /\ OP (s_active s).

Lemma fetch_and_update_pres c s now a jit :
  PInv s -> (forall ps, a = AOk ps -> Forall P (filter allowed ps)) ->
  PInv (fetch_and_update c s now a jit).
Proof.
  intros [Hc Ha] Hf. unfold fetch_and_update.
  set (res := match a with
              | AErr => None
              | AOk ps => match filter allowed ps with [] => None | l => Some l end
              end).
  assert (Hres : Forall P (match res with Some l => l | None => [] end)).
  { subst res. destruct a as [ps|]; [|constructor].
    specialize (Hf ps eq_refl). destruct (filter allowed ps); [constructor|exact Hf]. }
  destruct (update_path_cache decay c s _ now) as [[[cs act] chan] pn] eqn:Eu.
  destruct (update_path_cache_pres _ _ _ _ _ _ _ _ Eu Hc Ha Hres) as [A B].
  match goal with |- context [maybe_update_active decay c now ?l act] =>
    pose proof (maybe_update_active_pres c now l act (rank_Forall _ now cs A) B) as M;
    destruct (maybe_update_active decay c now l act) as [act' pn2] end.
  clearbody res. destruct res; cbn; (split; [apply rank_Forall; exact A|exact M]).
Qed.

Lemma exit_pres s : PInv s -> PInv (exit_st s).
Proof. intros [A B]. split; [exact A|apply OP_None]. Qed.

Lemma maintain_pres c s now a jit :
  PInv s -> (forall ps, a = AOk ps -> Forall P (filter allowed ps)) ->
  PInv (fst (maintain c s now a jit)).
Proof.
  intros I Hf. unfold maintain.
  destruct (_ && _); [apply exit_pres, I|].
  match goal with |- context [s_next_refetch ?s1 <=? now] => assert (I1 : PInv s1) end.
  { destruct (s_next_idle s <=? now); [|exact I]. exact I. }
  destruct (s_next_refetch _ <=? now); cbn [fst]; [apply fetch_and_update_pres; assumption|exact I1].
Qed.

Lemma handle_issue_pres c s now m rest : PInv s -> PInv (handle_issue c s now m rest).
Proof.
  intros [Hc Ha]. unfold handle_issue.
  destruct (negb _); [split; assumption|].
  pose proof (ingest_paths m now (opt_fp (s_active s)) (s_cached s)) as E1.
  destruct (ingest_path_issue decay m now _ (s_cached s)) as [cs1 hit1]. cbn in E1.
  pose proof (drain_paths c now (opt_fp (s_active s)) rest cs1) as E2.
  destruct (drain decay c now _ rest cs1) as [cs2 hit2]. cbn in E2.
  assert (H2 : Forall EP cs2). { apply EP_map. rewrite E2, E1. apply EP_map. exact Hc. }
  destruct (hit1 || hit2).
  - pose proof (maybe_update_active_pres c now (rank now cs2) (s_active s) (rank_Forall _ now cs2 H2) Ha) as M.
    destruct (maybe_update_active decay c now (rank now cs2) (s_active s)) as [act pn].
    split; cbn; [apply rank_Forall; exact H2|exact M].
  - split; assumption.
Qed.

Lemma step_pres c s e :
  PInv s ->
  (forall now ps jit, e = Tick now (AOk ps) jit -> snd (step c s e) = OTick true ->
                      Forall P (filter allowed ps)) ->
  PInv (fst (step c s e)).
Proof.
  intros I Hf. unfold step. destruct (s_dead s) eqn:Ed; [exact I|].
  destruct e as [now a jit|now i|now|now m|now|now].
  - (* Tick: if no fetch happens the answer is not consumed *)
    unfold step in Hf. rewrite Ed in Hf.
    unfold Model.maintain in *.
    destruct (_ && _); [apply exit_pres, I|].
    match goal with |- context [s_next_refetch ?s1 <=? now] => assert (I1 : PInv s1) end.
    { destruct (s_next_idle s <=? now); exact I. }
    destruct (s_next_refetch _ <=? now); cbn [fst snd] in *; [|exact I1].
    apply fetch_and_update_pres; [exact I1|]. intros ps E. subst a. apply (Hf now ps jit eq_refl). reflexivity.
  - destruct (target_type i); [|exact I].
    destruct (add_issue c (s_im s) i _) as [[im bc] pn]. exact I.
  - destruct (s_chan s); [exact I|]. apply handle_issue_pres, I.
  - apply handle_issue_pres, I.
  - destruct (hand_out s now); exact I.
  - destruct (s_active s); [destruct (expired_at_handout _ _)|]; exact I.
Qed.

End Pres.

Lemma PInv_mono (P Q : path -> Prop) s : (forall p, P p -> Q p) -> PInv P s -> PInv Q s.
Proof.
  intros H [A B]. split.
  - eapply Forall_impl; [|exact A]. intros e. apply H.
  - intros p E. apply H, B, E.
Qed.

(** ** C05: provenance and policy *)
(* the paths of the lookup answers consumed by a fetch along a run *)
Definition new_fetched (e : ev) (o : out) : list path :=
  match e, o with Tick _ (AOk ps) _, OTick true => ps | _, _ => [] end.
Fixpoint fetched (c : cfg) (s : st) (evs : list ev) : list path :=
  match evs with
  | [] => []
  | e :: r => let so := Model.step pol decay c s e in new_fetched e (snd so) ++ fetched c (fst so) r
  end.

Definition good (F : list path) (p : path) : Prop := Model.allowed pol p = true /\ In p F.

Lemma good_mono F G p : good F p -> good (F ++ G) p.
Proof. intros [A B]. split; [exact A|apply in_or_app; left; exact B]. Qed.

Lemma step_good c F s e :
  PInv (good F) s ->
  PInv (good (F ++ new_fetched e (snd (Model.step pol decay c s e)))) (fst (Model.step pol decay c s e)).
Proof.
  intros I. apply step_pres.
  - eapply PInv_mono; [|exact I]. intros p. apply good_mono.
  - intros now ps jit E O. subst e. rewrite O. cbn [new_fetched].
    rewrite Forall_forall. intros p Hp. apply filter_In in Hp. destruct Hp as [Hin Hal].
    split; [exact Hal|apply in_or_app; right; exact Hin].
Qed.

Lemma run_good c evs : forall s F,
  PInv (good F) s -> PInv (good (F ++ fetched c s evs)) (Model.run pol decay c s evs).
Proof.
  induction evs as [|e r IH]; intros s F I; cbn.
  - rewrite app_nil_r. exact I.
  - rewrite app_assoc. apply IH. apply step_good. exact I.
Qed.

Lemma init_good c t0 : PInv (good []) (init_st c t0).
Proof. split; [constructor|intros p E; discriminate]. Qed.

Lemma run_init_good c t0 evs :
  PInv (good (fetched c (init_st c t0) evs)) (Model.run pol decay c (init_st c t0) evs).
Proof. apply (run_good c evs (init_st c t0) []), init_good. Qed.

(* what a Send / SendWait hands out is the active slot *)
Lemma step_out_path c s e s' p :
  Model.step pol decay c s e = (s', OPath p) -> s_active s = Some p.
Proof.
  unfold Model.step. destruct (s_dead s); [discriminate|].
  destruct e as [now a jit|now i|now|now m|now|now]; intros E.
  - unfold Model.maintain in E. destruct (_ && _); [discriminate|].
    destruct (s_next_refetch _ <=? now); discriminate.
  - destruct (target_type i); [|discriminate].
    destruct (add_issue c (s_im s) i _) as [[im bc] pn]. discriminate.
  - destruct (s_chan s); discriminate.
  - discriminate.
  - unfold hand_out in E. destruct (s_active s) as [q|]; [|discriminate].
    destruct (expired_at_handout q now); inv E. reflexivity.
  - destruct (s_active s) as [q|]; [|discriminate].
    destruct (expired_at_handout q now); inv E. reflexivity.
Qed.

End WithModel.
