(** Executable statements of C05/C06/C07 over OBSERVABLE behaviour of the path manager (what the
    hook of the harness reads after every step of the real code).  They do not use the model's
    state or step function; they are evaluated on the implementation's observations in the
    correspondence check, and they are what the theorems of [Props_C0x] state about the model. *)
From Sci Require Export PathMgr.Model.
Local Open Scope N_scope.

(** ** C05 *)
(* the policy, tabulated by the harness by calling the policy objects directly (outside the
   manager): entry [p_id] = Some b (evaluated to b) | None (evaluation error) *)
Definition tbl_pol (t : list (option bool)) (p : path) : option bool := nth (N.to_nat (p_id p)) t None.
Definition tbl_allowed (t : list (option bool)) (p : path) : bool :=
  match tbl_pol t p with Some true => true | _ => false end.
Definition connects_b (src dst : N) (p : path) : bool := (p_src p =? src) && (p_dst p =? dst).
Definition memN (x : N) (l : list N) : bool := existsb (N.eqb x) l.

(* a path handed to a sender: allowed, connects the pair, was in an earlier lookup answer *)
Definition handed_policy_ok (t : list (option bool)) (src dst : N) (offered : list N) (p : path) : bool :=
  tbl_allowed t p && connects_b src dst p && memN (p_id p) offered.

(** ** C06 *)
(* not expired at the instant of the hand-out: expiry (seconds) strictly after now *)
Definition handed_live_ok (p : path) (now_ns : N) : bool :=
  match p_exp p with Some e => now_ns <? e * 1000000000 | None => true end.
Definition cache_bound_ok (max_cached : N) (n_cached : N) : bool := n_cached <=? N.max max_cached 1.
(* the map within the configured size, the FIFO (lazy deletion) within twice that *)
Definition issue_bound_ok (size : N) (n_cache n_fifo : N) : bool :=
  (n_cache <=? N.max size 1) && (n_fifo <=? 2 * N.max size 1).
(* after a lookup at [now]: no sooner than the minimum delay, no later than the ceiling;
   [slack] absorbs the f32 rounding of the backoff ceiling *)
Definition refetch_window_ok (min_delay refetch bo_max slack now next : N) : bool :=
  (now + min_delay <=? next) && (next <=? now + N.max refetch bo_max + slack).

(* KNOWN FINDING class C06-backoff-outlasts-threshold (known_findings/C06.json): the
   configuration's backoff ceiling exceeds its expiry threshold (the validator accepts it) *)
Definition class_backoff (c : cfg) : bool := c_thresh c <? c_bo_max c.

(** ** C07 *)
(* "uses the interface": the path's interface list, as [src egress; in; eg; ...; dst ingress] *)
Fixpoint egresses (l : list iface) : list iface :=
  match l with e :: rest => e :: match rest with _ :: r => egresses r | [] => [] end | [] => [] end.
Fixpoint ingresses (l : list iface) : list iface :=
  match l with _ :: i :: rest => i :: ingresses rest | _ => [] end.
Definition iface_eqb (a b : iface) : bool := (fst a =? fst b) && (snd a =? snd b).
Definition uses_egress (p : path) (ia ifid : N) : bool :=
  match p_ifs p with Some l => existsb (iface_eqb (ia, ifid)) (egresses l) | None => false end.
Definition uses_ingress (p : path) (ia ifid : N) : bool :=
  match p_ifs p with Some l => existsb (iface_eqb (ia, ifid)) (ingresses l) | None => false end.
Definition uses_interface (p : path) (ia ifid : N) : bool := uses_egress p ia ifid || uses_ingress p ia ifid.
(* the AS-internal connection ingress -> egress *)
Fixpoint transits (l : list iface) : list (iface * iface) :=
  match l with _ :: i :: rest => match rest with e :: _ => (i, e) :: transits rest | [] => [] end | _ => [] end.
Definition uses_transit (p : path) (ia ing eg : N) : bool :=
  match p_ifs p with
  | Some l => existsb (fun ie => iface_eqb (fst ie) (ia, ing) && iface_eqb (snd ie) (ia, eg)) (transits l)
  | None => false
  end.

(* the interface an issue reports as broken, and "path p is affected by it" as the property
   text reads it *)
Definition affected (i : issue) (p : path) : bool :=
  match i with
  | IInterfaceDown ia ifid => uses_interface p ia ifid
  | IConnectivityDown ia ing eg => uses_transit p ia ing eg
  | IFirstHop ia ifid => match p_first p with Some f => iface_eqb f (ia, ifid) | None => false end
  | IOther => false
  end.

(** well-formed interface lists *)
(* [src egress; in1; eg1; in2; eg2; ...; dst ingress]: ingress and egress of a transit hop belong
   to one AS, and no AS is visited twice *)
Fixpoint wf_tail (seen : list N) (l : list iface) : bool :=
  match l with
  | [] => false
  | [i] => negb (memN (fst i) seen)
  | i :: e :: rest => (fst i =? fst e) && negb (memN (fst i) seen) && wf_tail (fst i :: seen) rest
  end.
Definition wf_ifs (src : N) (l : list iface) : bool :=
  match l with e0 :: rest => (fst e0 =? src) && wf_tail [src] rest | [] => false end.
Definition wf_path (p : path) : bool :=
  match p_ifs p with Some l => wf_ifs (p_src p) l | None => false end.


(* what the code steers by: an interface-down report is about the EGRESS interface of a hop *)
Definition steers (i : issue) (p : path) : bool :=
  match i with
  | IInterfaceDown ia ifid => uses_egress p ia ifid
  | IConnectivityDown ia ing eg => uses_transit p ia ing eg
  | IFirstHop ia ifid => match p_first p with Some f => iface_eqb f (ia, ifid) | None => false end
  | IOther => false
  end.

(** KNOWN FINDING classes (known_findings/C07.json) *)
(* C07-ingress-not-matched: the path uses the reported interface, but as an ingress *)
Definition class_ingress (i : issue) (p : path) : bool := affected i p && negb (steers i p).
