(** Correspondence driver for C05/C06/C07: evaluated by [vm_compute] on case files written by
    the Rust harness (harness/hc_pathmgr/src/bin/h_pathmgr.rs).  A case is one event history run
    on the real [PathSet] / [MultiPathManager] / [PathIssueManager] through the verif-hooks
    probe, with the probe's observation after every event.  The model is run on the same
    events and compared after every event; the property oracles of [Spec] are evaluated on the
    IMPLEMENTATION's observations.

    Two inputs of the code are not determined by the event: the iteration order of the
    [HashMap] of fetched paths and the jitter draw of the backoff.  Both are universally
    quantified in the theorems; here they are reconstructed from the observation (the order of
    the new paths in the observed cache; [next_refetch - now - base]) and the model must then
    reproduce the observation exactly. *)
From Coq Require Import Qabs.
From Sci Require Export PathMgr.Model PathMgr.Spec.
Local Open Scope N_scope.

(** ** the decay function used for the comparison: 2^(-t/h) in 40-bit fixed point *)
Definition SC : Z := 1099511627776.          (* 2^40 *)
Definition LN2S : Z := 762123384786.         (* ln 2 * 2^40 *)
Fixpoint exp_horner (n : nat) (y acc : Z) : Z :=
  match n with O => acc | S k => exp_horner k y (SC - (y * acc) / (Z.of_nat n * SC))%Z end.
Definition decay_approx (base : Q) (t h : N) : Q :=
  if Qeq_bool base 0 then 0%Q else if h =? 0 then 0%Q else
  let k := t / h in let r := t mod h in
  if 200 <? k then 0%Q else
  let xs := (Z.of_N r * SC / Z.of_N h)%Z in
  let y := (xs * LN2S / SC)%Z in
  let f := exp_horner 12 y SC in
  Qred (base * (f # Z.to_pos (SC * 2 ^ Z.of_N k)))%Q.

(** ** case format *)
Record cobs := mkObs {
  ob_out : N;            (* 0 nothing/tick without fetch, 1 tick with fetch, 2 exit, 3 reported+broadcast,
                            4 reported no broadcast, 5 delivered, 6 nothing to deliver, 7 path, 8 no path,
                            9 error, 99 panic *)
  ob_arg : N;            (* path id (7), error class (9) *)
  ob_cached : list N;    (* p_id of the cached paths, cache order *)
  ob_totals : list Z;    (* PathScorer::score of each cached entry at the event time, * 10^6 *)
  ob_active : option N;
  ob_next_refetch : N; ob_next_idle : N; ob_failed : N; ob_used : bool;
  ob_ic : N; ob_fifo : N; ob_chan : N; ob_err : N; ob_init : bool }.

Inductive cev :=
| CTick (now : N) (ans : option (list N))     (* Some ids = lookup answer, None = lookup error *)
| CReport (now : N) (i : issue)
| CDeliver (now : N)
| CDirect (now : N) (i : issue) (pen : Q)
| CSend (now : N)
| CSendWait (now : N).

Record pcase := mkCase {
  k_cfg : cfg; k_t0 : N;
  k_univ : list path;                 (* p_id = position *)
  k_pol : list (option bool);         (* policy result per p_id, evaluated outside the manager *)
  k_evs : list (cev * cobs) }.

(* compact numerals for the case files (long decimal numerals are slow to parse) *)
Definition rt (s f : N) : N := 100000000000000 + s * 1000000000 + f.   (* t0 = 100000 s *)
Definition sc (s : N) : N := s * 1000000000.
Definition ms (m : N) : N := m * 1000000.
Definition ia (isd asn : N) : N := isd * 281474976710656 + asn.

Definition cev_time (e : cev) : N :=
  match e with CTick n _ | CReport n _ | CDeliver n | CDirect n _ _ | CSend n | CSendWait n => n end.

Definition dummy_path : path := mkPath 999999 999999 0 0 None None None None 0.
Definition lookup (u : list path) (id : N) : path := nth (N.to_nat id) u dummy_path.

(** ** reconstruction of the hash order *)
Fixpoint index_of (x : N) (l : list N) (k : nat) : nat :=
  match l with [] => k | y :: r => if x =? y then k else index_of x r (S k) end.
Fixpoint insert_by (key : path -> nat) (x : path) (l : list path) : list path :=
  match l with
  | [] => [x]
  | y :: r => if (key y <=? key x)%nat then y :: insert_by key x r else x :: l
  end.
Definition order_by_obs (obs : list N) (ps : list path) : list path :=
  fold_right (insert_by (fun p => index_of (p_id p) obs O)) [] ps.

Definition to_ev (c : cfg) (t : list (option bool)) (u : list path) (s : st) (e : cev) (ob : cobs)
  : option ev :=
  match e with
  | CTick now ans =>
    let jit := ob_next_refetch ob - now - backoff_base c (s_failed s + 1) in
    Some (Tick now match ans with
                   | None => AErr
                   | Some ids => AOk (order_by_obs (ob_cached ob)
                                        (fm_of (filter (allowed (tbl_pol t)) (map (lookup u) ids))))
                   end jit)
  | CReport now i => Some (Report now i)
  | CDeliver now => Some (Deliver now)
  | CDirect now i pen =>
    match target_type i with Some tg => Some (Direct now (mkMarker tg now (score_clamped pen))) | None => None end
  | CSend now => Some (Send now)
  | CSendWait now => Some (SendWait now)
  end.

Definition out_code (o : out) : N * N :=
  match o with
  | ONone | OTick false => (0, 0) | OTick true => (1, 0) | OExit => (2, 0)
  | OReported true => (3, 0) | OReported false => (4, 0)
  | ODelivered true => (5, 0) | ODelivered false => (6, 0)
  | OPath p => (7, p_id p) | ONoPath => (8, 0) | OErr k => (9, k)
  end.

Definition absdiffN (a b : N) : N := if a <? b then b - a else a - b.
Definition TOTAL_TOL : Z := 200.               (* 2e-4 on scores *)
Definition MARGIN : Q := (1 # 10000).
Definition q_to_micro (q : Q) : Z := (Qnum q * 1000000 / Z.pos (Qden q))%Z.
Fixpoint totals_close (a : list Z) (b : list Z) : bool :=
  match a, b with
  | [], [] => true
  | x :: a', y :: b' => (Z.abs (x - y) <=? TOTAL_TOL)%Z && totals_close a' b'
  | _, _ => false
  end.

Definition boolN (b : bool) : N := if b then 1 else 0.
Definition ids_of (cs : list entry) : list N := map (fun e => p_id (e_path e)) cs.

(* everything but next_refetch *)
Definition obs_match (s' : st) (o : out) (now : N) (ob : cobs) : bool :=
  let '(code, arg) := out_code o in
  (code =? ob_out ob) && (arg =? ob_arg ob)
  && list_eqb N.eqb (ids_of (s_cached s')) (ob_cached ob)
  && optN_eqb (option_map p_id (s_active s')) (ob_active ob)
  && (s_failed s' =? ob_failed ob) && (s_next_idle s' =? ob_next_idle ob)
  && Bool.eqb (s_used s') (ob_used ob)
  && (N.of_nat (length (im_cache (s_im s'))) =? ob_ic ob)
  && (N.of_nat (length (im_fifo (s_im s'))) =? ob_fifo ob)
  && (N.of_nat (length (s_chan s')) =? ob_chan ob)
  && (s_err s' =? ob_err ob) && Bool.eqb (s_init s') (ob_init ob)
  && totals_close (map (fun e => q_to_micro (total decay_approx e now)) (s_cached s')) (ob_totals ob).

(* a decision of this step was within MARGIN of a tie: two different scores closer than
   MARGIN, or a swap gap within MARGIN of the threshold *)
Definition qabs_lt (q lim : Q) : bool := Qle_bool (Qabs q) lim.
Definition tight (c : cfg) (now : N) (s s' : st) (me : ev) : bool :=
  let cands := match me with
               | Tick _ (AOk ps) _ =>
                 map (fun p => apply_cached_issues decay_approx (s_im s) (mkEntry p (mkRel 0 now)) now) ps
               | _ => []
               end in
  let es := s_cached s ++ s_cached s' ++ cands in
  let ts := map (fun e => total decay_approx e now) es in
  existsb (fun a => existsb (fun b =>
     (negb (Qeq_bool a b) && qabs_lt (a - b) MARGIN)
     || qabs_lt (a - b - c_swap c) MARGIN || qabs_lt (b - a - c_swap c) MARGIN) ts) ts.

Definition set_next_refetch (s : st) (n : N) : st :=
  mkSt (s_cached s) (s_active s) (s_failed s) n (s_next_idle s) (s_used s) (s_im s) (s_chan s)
       (s_err s) (s_init s) (s_dead s) (s_panic s).

(** result of comparing one history: 0 agree, 1 disagree, 4 stopped at a decision inside MARGIN *)
Fixpoint compare_run (c : cfg) (t : list (option bool)) (u : list path) (s : st)
         (evs : list (cev * cobs)) : N :=
  match evs with
  | [] => 0
  | (e, ob) :: r =>
    match to_ev c t u s e ob with
    | None => if ob_out ob =? 0 then compare_run c t u s r else 1
    | Some me =>
      let now := cev_time e in
      let '(s', o) := step (tbl_pol t) decay_approx c s me in
      if ob_out ob =? 99 then (match s_panic s' with Some _ => 0 | None => 1 end)
      else if match s_panic s' with Some _ => true | None => false end then 1
      else if ob_out ob =? 2 then (match o with OExit => 0 | _ => 1 end)
      else
        let ok := obs_match s' o now ob in
        let dn := absdiffN (s_next_refetch s') (ob_next_refetch ob) in
        let tol := (ob_next_refetch ob - now) / 100000 + 2000 in
        if ok && (dn <=? tol) then compare_run c t u (set_next_refetch s' (ob_next_refetch ob)) r
        else if tight c now s s' me then 4 else 1
    end
  end.

(* [k_t0 = 0] marks a configuration that MultiPathManager::new rejected *)
Definition model_mismatch (k : pcase) : N :=
  if k_t0 k =? 0 then (if cfg_valid (k_cfg k) then 1 else 0)
  else if negb (cfg_valid (k_cfg k)) then 1
  else compare_run (k_cfg k) (k_pol k) (k_univ k) (init_st (k_cfg k) (k_t0 k)) (k_evs k).

(** ** property oracles on the implementation's observations *)
Definition panicked (k : pcase) : bool := existsb (fun eo => ob_out (snd eo) =? 99) (k_evs k).

(* ids offered by lookups that were consumed, up to and including each event *)
Fixpoint offered_upto (acc : list N) (evs : list (cev * cobs)) : list (list N * cev * cobs) :=
  match evs with
  | [] => []
  | (e, ob) :: r =>
    let acc' := match e with
                | CTick _ (Some ids) => if ob_out ob =? 1 then acc ++ ids else acc
                | _ => acc
                end in
    (acc', e, ob) :: offered_upto acc' r
  end.

(* C05: every cached path, the active path and every handed-out path is allowed by the policy
   table, connects the pair and was offered by an earlier lookup *)
Definition c05_step_ok (k : pcase) (x : list N * cev * cobs) : bool :=
  let '(off, e, ob) := x in
  let c := k_cfg k in
  let okp := fun id => handed_policy_ok (k_pol k) (c_src c) (c_dst c) off (lookup (k_univ k) id) in
  if ob_out ob =? 2 then true else
  forallb okp (ob_cached ob)
  && match ob_active ob with Some a => okp a | None => true end
  && (if ob_out ob =? 7 then okp (ob_arg ob) else true).
Definition c05_ok (k : pcase) : bool :=
  negb (panicked k) && forallb (c05_step_ok k) (offered_upto [] (k_evs k)).

Definition spec_valid (c : cfg) (now : N) (p : path) : bool :=
  match p_exp p with Some e => now + c_thresh c <? e * 1000000000 | None => false end.

(* C06 *)
Definition c06_step_ok (k : pcase) (eo : cev * cobs) : bool :=
  let '(e, ob) := eo in
  let c := k_cfg k in
  let now := cev_time e in
  if ob_out ob =? 2 then true else
  cache_bound_ok (c_max_cached c) (N.of_nat (length (ob_cached ob)))
  && issue_bound_ok (c_issue_size c) (ob_ic ob) (ob_fifo ob)
  && (if ob_out ob =? 7 then handed_live_ok (lookup (k_univ k) (ob_arg ob)) now else true)
  && (if ob_out ob =? 1
      then refetch_window_ok (c_min_delay c) (c_refetch c) (c_bo_max c) (c_bo_max c / 100000 + 2000) now (ob_next_refetch ob)
      else true).
Definition c06_ok (k : pcase) : bool := negb (panicked k) && forallb (c06_step_ok k) (k_evs k).

(* a successful lookup is taken in: when the cache has room for every fingerprint involved (no
   truncation), every allowed, unexpired path of the answer (the last one per fingerprint) is
   cached afterwards -- whether it is new or refreshes a cached entry --, and if one of them is
   valid the slot is not empty *)
Fixpoint last_per_fp (u : list path) (ids : list N) : list N :=
  match ids with
  | [] => []
  | x :: r => if existsb (fun j => p_fp (lookup u j) =? p_fp (lookup u x)) r then last_per_fp u r
              else x :: last_per_fp u r
  end.
Fixpoint nodupN (l : list N) : list N :=
  match l with [] => [] | x :: r => if memN x r then nodupN r else x :: nodupN r end.
Definition refresh_ok (k : pcase) (pre : list N) (now : N) (ids : list N) (ob : cobs) : bool :=
  let c := k_cfg k in let u := k_univ k in
  let al := last_per_fp u (filter (fun id => tbl_allowed (k_pol k) (lookup u id)) ids) in
  let nfp := length (nodupN (map (fun id => p_fp (lookup u id)) (pre ++ al))) in
  if (N.of_nat nfp <=? c_max_cached c) then
    let live := filter (fun id => handed_live_ok (lookup u id) now && match p_exp (lookup u id) with Some _ => true | None => false end) al in
    forallb (fun id => memN id (ob_cached ob)) live
    && (negb (existsb (fun id => spec_valid c now (lookup u id)) live)
        || match ob_active ob with Some _ => true | None => false end)
  else true.
Fixpoint c06_refresh_scan (k : pcase) (pre : list N) (evs : list (cev * cobs)) : bool :=
  match evs with
  | [] => true
  | (e, ob) :: r =>
    (match e with
     | CTick now (Some ids) => if ob_out ob =? 1 then refresh_ok k pre now ids ob else true
     | _ => true
     end)
    && c06_refresh_scan k (if (ob_out ob =? 2) || (ob_out ob =? 99) then pre else ob_cached ob) r
  end.

(* "while a valid path is known a sender is not left without one", on timely histories: a send
   that is not later than the next due tick gets no path although a cached path is valid *)
Fixpoint c06_starved (k : pcase) (pre : option cobs) (evs : list (cev * cobs)) : bool :=
  match evs with
  | [] => false
  | (e, ob) :: r =>
    (match e, pre with
     | CSend t, Some pv | CSendWait t, Some pv =>
       ((ob_out ob =? 8) || (ob_out ob =? 9)) && ob_init pv
       && (t <? ob_next_refetch pv) && (t <? ob_next_idle pv) && (ob_chan pv =? 0)
       && existsb (fun id => spec_valid (k_cfg k) t (lookup (k_univ k) id)) (ob_cached ob)
     | _, _ => false
     end) || c06_starved k (Some ob) r
  end.

Definition verdict_with (ok : pcase -> bool) (k : pcase) : N :=
  model_mismatch k + (if ok k then 0 else 2).

Definition verdict05 := verdict_with c05_ok.
Definition verdict06 (k : pcase) : N :=
  let starved := if k_t0 k =? 0 then false else c06_starved k None (k_evs k) in
  model_mismatch k
  + (if c06_ok k && (if k_t0 k =? 0 then true else c06_refresh_scan k [] (k_evs k))
        && negb (starved && negb (class_backoff (k_cfg k))) then 0 else 2)
  + (if starved && class_backoff (k_cfg k) then 16 else 0).
Definition verdicts05 (cs : list pcase) : list N := map verdict05 cs.
Definition verdicts06 (cs : list pcase) : list N := map verdict06 cs.

(** ** C07 oracles *)

Fixpoint zip_totals (ids : list N) (ts : list Z) : list (N * Z) :=
  match ids, ts with i :: ir, t :: tr => (i, t) :: zip_totals ir tr | _, _ => [] end.

Definition len_micro (p : path) : Z := Z.max 0 (100000 - 2000 * Z.of_N (p_hops p)).

(* a batch of reports handled in one worker step: a path is affected when one of them is about
   an interface it uses *)
Definition affectedB (B : list issue) (p : path) : bool := existsb (fun i => affected i p) B.

(* the premises of [failover_immediate], read off the observation AFTER the reports (scores in
   10^-6, with the comparison margin): some unaffected valid path outranks every affected valid
   path and beats the (penalised) previously active path by more than the swap threshold *)
Definition failover_premises (k : pcase) (B : list issue) (now : N) (aid : N) (post : cobs) : bool :=
  let c := k_cfg k in let u := k_univ k in
  let zt := zip_totals (ob_cached post) (ob_totals post) in
  let swap := q_to_micro (c_swap c) in
  existsb (fun bt =>
    let b := lookup u (fst bt) in
    negb (affectedB B b) && spec_valid c now b
    && forallb (fun mt => let m := lookup u (fst mt) in
                          negb (affectedB B m && spec_valid c now m) || (snd mt + 100 <? snd bt)%Z) zt
    && forallb (fun mt => negb (fst mt =? aid) || (swap + 100 <? snd bt - snd mt)%Z) zt) zt.

(* verdict bits of one handled batch of reports: 0 fine, 2 unexplained, 16 / 32 known classes.
   "The very next send uses a path avoiding it": after the worker handled the batch, if the
   path in use was affected and a cached valid path is not, the slot must hold an unaffected
   path.  A failure is explained by C07-ingress-not-matched when every report affecting the
   path in use does so through an ingress interface only, by C07-hysteresis-keeps-failed when
   the score premises of [failover_immediate] do not hold on the observed scores; otherwise it
   is a violation. *)
(* every cached path that leaves through a reported interface is penalised by the report: its
   observed reliability afterwards is at most (what it was before, if positive) minus the
   literal penalty (1.0 link failure, 0.4 first-hop send failure) *)
Definition lit_penalty_micro (i : issue) : Z :=
  match i with IFirstHop _ _ => 400000 | IOther => 0 | _ => 1000000 end%Z.
Definition penalised_ok (k : pcase) (B : list issue) (pre post : cobs) : bool :=
  let u := k_univ k in
  let pre_zt := zip_totals (ob_cached pre) (ob_totals pre) in
  forallb (fun it =>
    let p := lookup u (fst it) in
    match find (fun i => steers i p) B with
    | None => true
    | Some i =>
      let before := match find (fun jt => fst jt =? fst it) pre_zt with
                    | Some jt => Z.max 0 (snd jt - len_micro p)%Z | None => 0%Z end in
      (snd it - len_micro p <=? before - lit_penalty_micro i + 300)%Z
    end) (zip_totals (ob_cached post) (ob_totals post)).

Definition check_batch0 (k : pcase) (B : list issue) (now : N) (pre post : cobs) : N :=
  let c := k_cfg k in let u := k_univ k in
  match B, ob_active pre with
  | [], _ | _, None => 0
  | _, Some aid =>
    let a := lookup u aid in
    if affectedB B a then
      let alt := existsb (fun id => let p := lookup u id in negb (affectedB B p) && spec_valid c now p) (ob_cached pre) in
      let post_ok := match ob_active post with Some x => negb (affectedB B (lookup u x)) | None => false end in
      if negb alt || post_ok then 0
      else if forallb (fun i => negb (affected i a) || class_ingress i a) B then 32
      else if failover_premises k B now aid post then 2
      else 16
    else
      (* not about the path in use: the slot stays; about no cached path at all: nothing moves *)
      if negb (optN_eqb (ob_active post) (ob_active pre)) then 2
      else if negb (existsb (fun id => affectedB B (lookup u id)) (ob_cached pre))
              && negb (list_eqb N.eqb (ob_cached post) (ob_cached pre)) then 2
      else 0
  end.

(* reports that went through the issue manager additionally penalise every path they steer *)
Definition check_batch (k : pcase) (B : list issue) (now : N) (pre post : cobs) : N :=
  let b := check_batch0 k B now pre post in
  if (match B with [] => true | _ => false end) || penalised_ok k B pre post then b
  else if N.testbit b 1 then b else b + 2.

Definition is_neg_penalty (q : Q) : bool := Qle_bool q (-(2 # 5)).

(** "... and does become eligible again once it has decayed": oracles after a lookup.
    Literal numbers of the documentation (issues.rs / scoring.rs comments): penalty 1.0 for a
    link failure, 0.4 for a first-hop send failure, issue half-life 30 s, 0.02 per hop weighted
    0.1. *)
Definition spec_penalty_micro (i : issue) (elapsed : N) : Z :=
  let p := match i with IFirstHop _ _ => (2 # 5) | IOther => 0 | _ => 1 end%Q in
  q_to_micro (decay_approx p elapsed 30000000000).
Fixpoint untrack (i : issue) (l : list (issue * N)) : list (issue * N) :=
  match l with [] => [] | (j, t) :: r => if issue_eqb i j then untrack i r else (j, t) :: untrack i r end.

(* a path that ENTERS the cache (its fingerprint was not cached before) starts with at most the
   DECAYED penalties of the issues reported about its interfaces *)
Definition new_path_decayed_ok (k : pcase) (tracked : list (issue * N)) (now : N) (pre post : cobs) : bool :=
  let u := k_univ k in
  let old_fps := map (fun id => p_fp (lookup u id)) (ob_cached pre) in
  forallb (fun it =>
    let p := lookup u (fst it) in
    if memN (p_fp p) old_fps then true else
    let pen := fold_left (fun acc jt => if steers (fst jt) p then (acc + spec_penalty_micro (fst jt) (now - snd jt))%Z else acc)
                         tracked 0%Z in
    (- Z.min 1000000 pen - 300 <=? snd it - len_micro p)%Z)
  (zip_totals (ob_cached post) (ob_totals post)).
(* after a lookup the cache is ranked by score (so a recovered path wins against a worse one) *)
Fixpoint ranked_desc (l : list Z) : bool :=
  match l with x :: ((y :: _) as r) => (y <=? x + 100)%Z && ranked_desc r | _ => true end.
(* with no path in use before, the best-ranked valid path is taken into use *)
Definition takes_best_ok (k : pcase) (now : N) (pre post : cobs) : bool :=
  match ob_active pre with
  | Some _ => true
  | None => optN_eqb (ob_active post)
                     (find (fun id => spec_valid (k_cfg k) now (lookup (k_univ k) id)) (ob_cached post))
  end.

(* "traffic does not return to the failed interface while the penalty is fresh", at a lookup:
   a NEW path that enters the cache visibly penalised (observed reliability <= -0.15, i.e. over
   an interface with a fresh report) must not be preferred over a NEW allowed, unexpired path of
   the same answer that no report is about (expected penalty < 0.01): the avoiding path must not
   be dropped while the penalised one is kept (scores differ by more than the 0.1 the length can
   contribute), and the slot must not move to the penalised one while the avoiding one is valid *)
Definition tracked_penalty (tracked : list (issue * N)) (now : N) (p : path) : Z :=
  fold_left (fun acc jt => if steers (fst jt) p then (acc + spec_penalty_micro (fst jt) (now - snd jt))%Z else acc)
            tracked 0%Z.
Definition fresh_issue_ok (k : pcase) (tracked : list (issue * N)) (now : N) (pre post : cobs) (ids : list N) : bool :=
  let c := k_cfg k in let u := k_univ k in
  let old_fps := map (fun id => p_fp (lookup u id)) (ob_cached pre) in
  let is_new := fun id => negb (memN (p_fp (lookup u id)) old_fps) in
  let al := last_per_fp u (filter (fun id => tbl_allowed (k_pol k) (lookup u id)) ids) in
  let avoiding := filter (fun id => let p := lookup u id in
                             is_new id && handed_live_ok p now
                             && match p_exp p with Some _ => true | None => false end
                             && (tracked_penalty tracked now p <? 10000)%Z) al in
  let penalised_new := filter (fun it => is_new (fst it) && (snd it - len_micro (lookup u (fst it)) <=? -150000)%Z)
                              (zip_totals (ob_cached post) (ob_totals post)) in
  match penalised_new with
  | [] => true
  | _ =>
    forallb (fun id => memN id (ob_cached post)) avoiding
    && match ob_active post with
       | Some x => negb (existsb (fun it => fst it =? x) penalised_new
                         && negb (optN_eqb (ob_active pre) (Some x))
                         && existsb (fun id => spec_valid c now (lookup u id)) avoiding)
       | None => true
       end
  end.
Definition tick_answer_ok (k : pcase) (tracked : list (issue * N)) (e : cev) (pre post : cobs) : bool :=
  match e with
  | CTick now (Some ids) => fresh_issue_ok k tracked now pre post ids
  | _ => true
  end.

Fixpoint c07_scan (k : pcase) (pre : option cobs) (pend : list issue) (tracked : list (issue * N))
         (evs : list (cev * cobs)) : list N :=
  match evs with
  | [] => []
  | (e, ob) :: r =>
    let ndel := (length pend - N.to_nat (ob_chan ob))%nat in
    let '(bits, pend', tracked') :=
      match e, pre with
      | CReport now i, _ =>
        if ob_out ob =? 3 then (0, pend ++ [i], (i, now) :: untrack i tracked) else (0, pend, tracked)
      | CDeliver now, Some pv =>
        if ob_out ob =? 5 then (check_batch k (firstn ndel pend) now pv ob, skipn ndel pend, tracked)
        else (0, pend, tracked)
      | CDirect now i pen, Some pv =>
        (match pend with [] => if is_neg_penalty pen then check_batch0 k [i] now pv ob else 0 | _ => 0 end,
         skipn ndel pend, tracked)
      | CTick now _, Some pv =>
        (if (ob_out ob =? 1)
            && negb (new_path_decayed_ok k tracked now pv ob && ranked_desc (ob_totals ob) && takes_best_ok k now pv ob
                     && tick_answer_ok k tracked e pv ob)
         then 2 else 0, skipn ndel pend, tracked)
      | CTick now _, None =>
        (if (ob_out ob =? 1)
            && negb (new_path_decayed_ok k tracked now (mkObs 0 0 [] [] None 0 0 0 false 0 0 0 0 false) ob
                     && ranked_desc (ob_totals ob)
                     && tick_answer_ok k tracked e (mkObs 0 0 [] [] None 0 0 0 false 0 0 0 0 false) ob)
         then 2 else 0, skipn ndel pend, tracked)
      | _, _ => (0, pend, tracked)
      end in
    bits :: c07_scan k (Some ob) pend' tracked' r
  end.

Definition any_bit (b : N) (l : list N) : bool := existsb (fun x => N.testbit x (N.log2 b)) l.
Definition verdict07 (k : pcase) : N :=
  let bits := if k_t0 k =? 0 then [] else c07_scan k None [] [] (k_evs k) in
  model_mismatch k
  + (if panicked k || any_bit 2 bits then 2 else 0)
  + (if any_bit 16 bits then 16 else 0) + (if any_bit 32 bits then 32 else 0).
Definition verdicts07 (cs : list pcase) : list N := map verdict07 cs.

(** ** direct matching cases: IssueKind::target_type + IssueMarkerTarget::matches_path on one path *)
Record mcase := mkM { mc_issue : issue; mc_path : path; mc_obs : option bool }.
Definition optb_eqb (a b : option bool) : bool :=
  match a, b with Some x, Some y => Bool.eqb x y | None, None => true | _, _ => false end.
Definition verdict_match (m : mcase) : N :=
  let model := option_map (fun t => matches_path t (mc_path m)) (target_type (mc_issue m)) in
  (if optb_eqb model (mc_obs m) then 0 else 1)
  + match mc_obs m with
    | Some b => if Bool.eqb b (affected (mc_issue m) (mc_path m)) then 0
                else if class_ingress (mc_issue m) (mc_path m) && negb b then 32 else 2
    | None => 0
    end.
Definition verdicts_match (cs : list mcase) : list N := map verdict_match cs.
