(** Lemmas for C07: interface matching against the independent reading of [Spec], the no-op of an
    unmatched report, the ranking order, the fail-over step, and decay. *)
From Coq Require Import Permutation Qabs Sorted Lqa.
From Sci Require Import PathMgr.Model PathMgr.Spec PathMgr.Proofs.
Local Open Scope N_scope.

(** ** matching = "uses the interface" on well-formed interface lists *)
Lemma memN_In x l : memN x l = true <-> In x l.
Proof.
  unfold memN. rewrite existsb_exists. split.
  - intros (y & H & E). apply N.eqb_eq in E. subst. exact H.
  - intros H. exists x. split; [exact H|apply N.eqb_refl].
Qed.

(* egress interfaces / transits of the part after the first interface *)
Fixpoint tail_egresses (l : list iface) : list iface :=
  match l with _ :: e :: rest => e :: tail_egresses rest | _ => [] end.
Lemma egresses_tail : forall l e0, egresses (e0 :: l) = e0 :: tail_egresses l.
Proof.
  fix IH 1. intros l e0. destruct l as [|i [|e r]]; cbn; try reflexivity.
  f_equal. apply (IH r e).
Qed.
Lemma transits_tail : forall l e0,
  transits (e0 :: l) = match l with i :: e :: rest => (i, e) :: transits (e :: rest) | _ => [] end.
Proof. intros l e0. destruct l as [|i [|e r]]; reflexivity. Qed.

Lemma tail_egresses_In_aux : forall l,
  (forall x, In x (tail_egresses l) -> In x l) /\ (forall a x, In x (tail_egresses (a :: l)) -> In x (a :: l)).
Proof.
  induction l as [|e rest [IH1 IH2]]; split; cbn; try tauto.
  - intros x Hx. apply (IH2 e x Hx).
  - intros a x [<-|Hx]; [tauto|]. right. right. apply IH1. exact Hx.
Qed.
Lemma tail_egresses_In l x : In x (tail_egresses l) -> In x l.
Proof. apply (proj1 (tail_egresses_In_aux l)). Qed.

(* in a well-formed tail, ASes already seen do not occur again *)
Lemma wf_tail_fresh : forall l seen a,
  wf_tail seen l = true -> In a seen -> forall x, In x l -> fst x <> a.
Proof.
  fix IH 1. intros l seen a W Ha x Hx. destruct l as [|i [|e r]]; [destruct Hx| |].
  - cbn in W. destruct Hx as [<-|[]]. intros E. apply negb_true_iff in W.
    assert (M : memN (fst i) seen = true) by (apply memN_In; rewrite E; exact Ha). congruence.
  - cbn in W. apply andb_prop in W. destruct W as [W W3]. apply andb_prop in W. destruct W as [W1 W2].
    apply N.eqb_eq in W1. apply negb_true_iff in W2.
    assert (Ni : fst i <> a).
    { intros E. assert (M : memN (fst i) seen = true) by (apply memN_In; rewrite E; exact Ha). congruence. }
    destruct Hx as [<-|[<-|Hx]]; [exact Ni|rewrite <- W1; exact Ni|].
    apply (IH r (fst i :: seen) a W3 (or_intror Ha) x Hx).
Qed.

Lemma walk_ifs_spec : forall l seen e0 ia eg,
  wf_tail seen l = true -> ~ In ia seen -> fst e0 <> ia ->
  walk_ifs ia None eg (e0 :: l) = existsb (iface_eqb (ia, eg)) (tail_egresses l).
Proof.
  fix IH 1. intros l seen e0 ia eg W Hs H0. destruct l as [|i [|e r]].
  - reflexivity.
  - cbn. destruct (fst i =? ia); reflexivity.
  - cbn in W. apply andb_prop in W. destruct W as [W W3]. apply andb_prop in W. destruct W as [W1 W2].
    apply N.eqb_eq in W1.
    cbn [walk_ifs tail_egresses existsb].
    destruct (fst i =? ia) eqn:Ei.
    + apply N.eqb_eq in Ei.
      (* found the AS: the answer is its egress; no later interface belongs to that AS *)
      assert (R : existsb (iface_eqb (ia, eg)) (tail_egresses r) = false).
      { apply not_true_is_false. intros X. apply existsb_exists in X. destruct X as (x & Hx & Ex).
        unfold iface_eqb in Ex. cbn in Ex. apply andb_prop in Ex. destruct Ex as [Ex _]. apply N.eqb_eq in Ex.
        assert (Hin : In x r) by (apply tail_egresses_In; exact Hx).
        apply (wf_tail_fresh r (fst i :: seen) ia W3 (or_introl Ei) x Hin). symmetry. exact Ex. }
      rewrite R, orb_false_r. unfold iface_eqb. cbn. rewrite <- W1, Ei, N.eqb_refl. cbn. apply N.eqb_sym.
    + assert (He : iface_eqb (ia, eg) e = false).
      { unfold iface_eqb. cbn. rewrite <- W1. rewrite N.eqb_sym, Ei. reflexivity. }
      rewrite He. cbn.
      apply (IH r (fst i :: seen) e ia eg W3).
      * intros [E|E]; [apply N.eqb_neq in Ei; contradiction|contradiction].
      * rewrite <- W1. apply N.eqb_neq. exact Ei.
Qed.

Lemma matches_interface_egress p ia eg :
  wf_path p = true -> matches_path (TInterface ia None eg) p = uses_egress p ia eg.
Proof.
  unfold wf_path, matches_path, uses_egress. destruct (p_ifs p) as [l|]; [|discriminate].
  unfold wf_ifs. destruct l as [|e0 rest]; [discriminate|]. intros W.
  apply andb_prop in W. destruct W as [W0 W]. apply N.eqb_eq in W0.
  rewrite egresses_tail. cbn [existsb].
  destruct (p_src p =? ia) eqn:Es.
  - apply N.eqb_eq in Es.
    assert (R : existsb (iface_eqb (ia, eg)) (tail_egresses rest) = false).
    { apply not_true_is_false. intros X. apply existsb_exists in X. destruct X as (x & Hx & Ex).
      unfold iface_eqb in Ex. cbn in Ex. apply andb_prop in Ex. destruct Ex as [Ex _]. apply N.eqb_eq in Ex.
      assert (Hin : In x rest) by (apply tail_egresses_In; exact Hx).
      apply (wf_tail_fresh rest [p_src p] ia W (or_introl Es) x Hin). symmetry. exact Ex. }
    rewrite R, orb_false_r. unfold iface_eqb. cbn. rewrite W0, Es, N.eqb_refl. cbn. apply N.eqb_sym.
  - assert (He : iface_eqb (ia, eg) e0 = false).
    { unfold iface_eqb. cbn. rewrite W0, N.eqb_sym, Es. reflexivity. }
    rewrite He. cbn. apply (walk_ifs_spec rest [p_src p] e0 ia eg W).
    + intros [E|[]]. apply N.eqb_neq in Es. contradiction.
    + rewrite W0. apply N.eqb_neq. exact Es.
Qed.

(* with an ingress filter: the AS-internal connection ingress -> egress *)
Lemma transits_In_aux : forall l,
  (forall ie, In ie (transits l) -> In (fst ie) l /\ In (snd ie) l) /\
  (forall a ie, In ie (transits (a :: l)) -> In (fst ie) l /\ In (snd ie) l).
Proof.
  induction l as [|e rest [IH1 IH2]]; split; cbn; try tauto.
  - intros ie H. destruct (IH2 e ie H) as [A B]. split; right; assumption.
  - intros a ie. destruct rest as [|e' rest']; [cbn; tauto|].
    intros [<-|H]; cbn [fst snd]; [split; [left|right; left]; reflexivity|].
    destruct (IH1 ie H) as [A B]. split; right; assumption.
Qed.

Lemma walk_ifs_spec_in : forall l seen e0 ia g eg,
  wf_tail seen l = true -> ~ In ia seen ->
  walk_ifs ia (Some g) eg (e0 :: l)
  = existsb (fun ie => iface_eqb (fst ie) (ia, g) && iface_eqb (snd ie) (ia, eg)) (transits (e0 :: l)).
Proof.
  fix IH 1. intros l seen e0 ia g eg W Hs. destruct l as [|i [|e r]].
  - reflexivity.
  - cbn. destruct (fst i =? ia); [destruct (negb _)|]; reflexivity.
  - cbn in W. apply andb_prop in W. destruct W as [W W3]. apply andb_prop in W. destruct W as [W1 W2].
    apply N.eqb_eq in W1.
    rewrite transits_tail. cbn [walk_ifs existsb fst snd].
    destruct (fst i =? ia) eqn:Ei.
    + apply N.eqb_eq in Ei.
      assert (R : existsb (fun ie => iface_eqb (fst ie) (ia, g) && iface_eqb (snd ie) (ia, eg)) (transits (e :: r)) = false).
      { apply not_true_is_false. intros X. apply existsb_exists in X. destruct X as (x & Hx & Ex).
        apply andb_prop in Ex. destruct Ex as [Ex _]. unfold iface_eqb in Ex. cbn in Ex.
        apply andb_prop in Ex. destruct Ex as [Ex _]. apply N.eqb_eq in Ex.
        destruct (proj2 (transits_In_aux r) e x Hx) as [Hin _].
        apply (wf_tail_fresh r (fst i :: seen) ia W3 (or_introl Ei) (fst x) Hin). exact Ex. }
      rewrite R, orb_false_r. unfold iface_eqb. cbn. rewrite <- W1, Ei, !N.eqb_refl. cbn.
      destruct (snd i =? g); cbn; [reflexivity|reflexivity].
    + assert (He : iface_eqb i (ia, g) = false).
      { unfold iface_eqb. cbn. rewrite Ei. reflexivity. }
      rewrite He. cbn.
      apply (IH r (fst i :: seen) e ia g eg W3).
      intros [E|E]; [apply N.eqb_neq in Ei; contradiction|contradiction].
Qed.

Lemma matches_interface_transit p ia g eg :
  wf_path p = true -> matches_path (TInterface ia (Some g) eg) p = uses_transit p ia g eg.
Proof.
  unfold wf_path, matches_path, uses_transit. destruct (p_ifs p) as [l|]; [|discriminate].
  unfold wf_ifs. destruct l as [|e0 rest]; [discriminate|]. intros W.
  apply andb_prop in W. destruct W as [W0 W]. apply N.eqb_eq in W0.
  destruct (p_src p =? ia) eqn:Es.
  - apply N.eqb_eq in Es. symmetry. apply not_true_is_false. intros X.
    apply existsb_exists in X. destruct X as (x & Hx & Ex).
    apply andb_prop in Ex. destruct Ex as [Ex _]. unfold iface_eqb in Ex. cbn in Ex.
    apply andb_prop in Ex. destruct Ex as [Ex _]. apply N.eqb_eq in Ex.
    destruct (proj2 (transits_In_aux rest) e0 x Hx) as [Hin _].
    apply (wf_tail_fresh rest [p_src p] ia W (or_introl Es) (fst x) Hin). exact Ex.
  - apply (walk_ifs_spec_in rest [p_src p] e0 ia g eg W).
    intros [E|[]]. apply N.eqb_neq in Es. contradiction.
Qed.

(** ** an issue that matches no cached path *)
Section WithModel.
Variable pol : path -> option bool.
Variable decay : Q -> N -> N -> Q.

Lemma ingest_all_nomatch m now afp cs :
  (forall e, In e cs -> matches_path (m_target m) (e_path e) = false) ->
  ingest_all decay m now afp cs = (cs, false).
Proof.
  induction cs as [|e r IH]; intros H; cbn; [reflexivity|].
  rewrite IH by (intros x Hx; apply H; right; exact Hx).
  rewrite (H e (or_introl eq_refl)). reflexivity.
Qed.
Lemma ingest_first_nomatch m now afp cs :
  (forall e, In e cs -> matches_path (m_target m) (e_path e) = false) ->
  ingest_first decay m now afp cs = (cs, false).
Proof.
  induction cs as [|e r IH]; intros H; cbn; [reflexivity|].
  rewrite (H e (or_introl eq_refl)). rewrite IH by (intros x Hx; apply H; right; exact Hx). reflexivity.
Qed.
Lemma ingest_nomatch m now afp cs :
  (forall e, In e cs -> matches_path (m_target m) (e_path e) = false) ->
  ingest_path_issue decay m now afp cs = (cs, false).
Proof.
  intros H. unfold ingest_path_issue.
  destruct (applies_to_multiple_paths _); [apply ingest_all_nomatch|apply ingest_first_nomatch]; exact H.
Qed.

Lemma handle_issue_nomatch c s now m :
  (forall e, In e (s_cached s) -> matches_path (m_target m) (e_path e) = false) ->
  s_chan s = [] ->
  handle_issue decay c s now m [] = s.
Proof.
  intros H Hc. unfold handle_issue, with_cached_active.
  destruct (negb _).
  - destruct s; cbn in *. subst. destruct s_panic; reflexivity.
  - rewrite ingest_nomatch by exact H. cbn.
    destruct s; cbn in *. subst. destruct s_panic; reflexivity.
Qed.

(* a marker that does not hit the active path leaves the slot and the cached paths alone *)
Lemma ingest_all_hit m now afp cs :
  snd (ingest_all decay m now afp cs) = true ->
  exists e, In e cs /\ matches_path (m_target m) (e_path e) = true /\ afp = Some (e_fp e).
Proof.
  induction cs as [|e r IH]; cbn; [discriminate|].
  destruct (ingest_all decay m now afp r) as [r' hit]. cbn in *.
  destruct (matches_path (m_target m) (e_path e)) eqn:M; cbn.
  - intros H. apply orb_prop in H. destruct H as [H|H].
    + exists e. split; [left; reflexivity|]. split; [exact M|].
      unfold optN_eq in H. destruct afp as [x|]; [|discriminate]. apply N.eqb_eq in H. subst. reflexivity.
    + destruct (IH H) as (x & A & B & C). exists x. split; [right; exact A|tauto].
  - intros H. destruct (IH H) as (x & A & B & C). exists x. split; [right; exact A|tauto].
Qed.
Lemma ingest_first_hit m now afp cs :
  snd (ingest_first decay m now afp cs) = true ->
  exists e, In e cs /\ matches_path (m_target m) (e_path e) = true /\ afp = Some (e_fp e).
Proof.
  induction cs as [|e r IH]; cbn; [discriminate|].
  destruct (matches_path (m_target m) (e_path e)) eqn:M; cbn.
  - intros H. exists e. split; [left; reflexivity|]. split; [exact M|].
    unfold optN_eq in H. destruct afp as [x|]; [|discriminate]. apply N.eqb_eq in H. subst. reflexivity.
  - destruct (ingest_first decay m now afp r) as [r' hit]. cbn in *.
    intros H. destruct (IH H) as (x & A & B & C). exists x. split; [right; exact A|tauto].
Qed.

Lemma handle_issue_active_unhit c s now m :
  (forall e, In e (s_cached s) -> e_fp e = match s_active s with Some a => p_fp a | None => e_fp e + 1 end ->
             matches_path (m_target m) (e_path e) = false) ->
  let s' := handle_issue decay c s now m [] in
  s_active s' = s_active s /\ map e_path (s_cached s') = map e_path (s_cached s).
Proof.
  intros H. unfold handle_issue, with_cached_active.
  destruct (negb _); [cbn; auto|].
  pose proof (ingest_paths decay m now (opt_fp (s_active s)) (s_cached s)) as E1.
  destruct (ingest_path_issue decay m now (opt_fp (s_active s)) (s_cached s)) as [cs1 hit1] eqn:Ei.
  cbn in E1. cbn [drain fold_left].
  assert (Hh : hit1 = false).
  { destruct hit1; [|reflexivity]. exfalso.
    assert (X : exists e, In e (s_cached s) /\ matches_path (m_target m) (e_path e) = true /\ opt_fp (s_active s) = Some (e_fp e)).
    { unfold ingest_path_issue in Ei. destruct (applies_to_multiple_paths _).
      - apply (ingest_all_hit m now (opt_fp (s_active s)) (s_cached s)). rewrite Ei. reflexivity.
      - apply (ingest_first_hit m now (opt_fp (s_active s)) (s_cached s)). rewrite Ei. reflexivity. }
    destruct X as (e & A & B & C). destruct (s_active s) as [a|]; [|discriminate]. cbn in C. inv C.
    rewrite (H e A) in B; [discriminate|]. symmetry. assumption. }
  subst hit1. unfold drain. cbn. auto.
Qed.

(** ** ranking order *)
Lemma Qltb_true a b : Qltb a b = true <-> (a < b)%Q.
Proof.
  unfold Qltb. rewrite negb_true_iff. split.
  - intros H. apply Qnot_le_lt. intros L. apply Qle_bool_iff in L. congruence.
  - intros H. apply not_true_is_false. intros L. apply Qle_bool_iff in L. apply (Qlt_not_le _ _ H L).
Qed.
Lemma Qltb_false a b : Qltb a b = false <-> (b <= a)%Q.
Proof.
  unfold Qltb. rewrite negb_false_iff. apply Qle_bool_iff.
Qed.

Definition geq (now : N) (x y : entry) : Prop := (total decay y now <= total decay x now)%Q.

Lemma insert_ranked_sorted now x l :
  StronglySorted (geq now) l -> StronglySorted (geq now) (insert_ranked decay now x l).
Proof.
  induction l as [|y r IH]; intros S; cbn; [repeat constructor|].
  apply StronglySorted_inv in S. destruct S as [Sr Fy].
  destruct (Qltb (total decay x now) (total decay y now)) eqn:E.
  - apply Qltb_true in E. constructor; [apply IH; exact Sr|].
    eapply Permutation_Forall; [symmetry; apply insert_ranked_perm|].
    constructor; [apply Qlt_le_weak; exact E|exact Fy].
  - apply Qltb_false in E. constructor; [constructor; assumption|].
    constructor; [exact E|]. eapply Forall_impl; [|exact Fy]. intros z Hz. unfold geq in *.
    eapply Qle_trans; eassumption.
Qed.

Lemma rank_sorted now l : StronglySorted (geq now) (rank decay now l).
Proof.
  induction l as [|x r IH]; cbn; [constructor|]. apply insert_ranked_sorted. exact IH.
Qed.

Lemma find_sorted (R : entry -> entry -> Prop) (f : entry -> bool) l b :
  StronglySorted R l -> In b l -> f b = true ->
  exists x, find f l = Some x /\ f x = true /\ In x l /\ (x = b \/ R x b).
Proof.
  induction l as [|y r IH]; intros S Hb Fb; [destruct Hb|].
  apply StronglySorted_inv in S. destruct S as [Sr Fy]. cbn.
  destruct (f y) eqn:E.
  - exists y. split; [reflexivity|]. split; [exact E|]. split; [left; reflexivity|].
    destruct Hb as [->|Hb]; [left; reflexivity|right]. rewrite Forall_forall in Fy. apply Fy. exact Hb.
  - destruct Hb as [->|Hb]; [congruence|].
    destruct (IH Sr Hb Fb) as (x & A & B & C & D). exists x. split; [exact A|]. split; [exact B|].
    split; [right; exact C|exact D].
Qed.

End WithModel.

(** ** the fail-over step *)
Section Failover.
Variable pol : path -> option bool.
Variable decay : Q -> N -> N -> Q.
Notation total := (total decay).

Lemma ingest_all_hit_true m now afp cs :
  (exists e, In e cs /\ matches_path (m_target m) (e_path e) = true /\ afp = Some (e_fp e)) ->
  snd (ingest_all decay m now afp cs) = true.
Proof.
  induction cs as [|e r IH]; intros (x & A & B & C); [destruct A|]. cbn.
  destruct (ingest_all decay m now afp r) as [r' hit] eqn:Er. cbn in *.
  destruct A as [->|A].
  - rewrite B. cbn. subst afp. cbn. rewrite N.eqb_refl. reflexivity.
  - assert (H : hit = true) by (apply IH; exists x; tauto).
    subst hit. destruct (matches_path (m_target m) (e_path e)); cbn; [apply orb_true_r|reflexivity].
Qed.

Lemma In_map_path (cs1 cs : list entry) e :
  map e_path cs1 = map e_path cs -> In e cs1 -> exists e0, In e0 cs /\ e_path e0 = e_path e.
Proof.
  intros E H. apply (in_map e_path) in H. rewrite E in H. apply in_map_iff in H.
  destruct H as (e0 & A & B). exists e0. tauto.
Qed.

Lemma failover_step c s now m a :
  applies_to_path (m_target m) (c_src c) (c_dst c) = true ->
  applies_to_multiple_paths (m_target m) = true ->
  s_active s = Some a ->
  (exists ae, In ae (s_cached s) /\ e_fp ae = p_fp a) ->
  (forall e, In e (s_cached s) -> e_fp e = p_fp a -> matches_path (m_target m) (e_path e) = true) ->
  let cs1 := fst (ingest_all decay m now (Some (p_fp a)) (s_cached s)) in
  forall b, In b cs1 -> is_valid c now (e_path b) = true -> matches_path (m_target m) (e_path b) = false ->
  (forall e, In e cs1 -> matches_path (m_target m) (e_path e) = true -> is_valid c now (e_path e) = true ->
             (total e now < total b now)%Q) ->
  (forall e, In e cs1 -> e_fp e = p_fp a -> (c_swap c < total b now - total e now)%Q) ->
  exists p', s_active (handle_issue decay c s now m []) = Some p' /\
             matches_path (m_target m) p' = false /\ is_valid c now p' = true.
Proof.
  intros Hap Hmul Ha (ae & Hae & Fae) Hmatch cs1 b Hb Vb Nb Hrank Hgap.
  unfold handle_issue. rewrite Hap. cbn [negb]. unfold ingest_path_issue. rewrite Hmul, Ha. cbn [opt_fp option_map].
  pose proof (ingest_all_paths decay m now (Some (p_fp a)) (s_cached s)) as Ep.
  assert (Hhit : snd (ingest_all decay m now (Some (p_fp a)) (s_cached s)) = true).
  { apply ingest_all_hit_true. exists ae. split; [exact Hae|]. split; [apply Hmatch; assumption|]. rewrite Fae. reflexivity. }
  fold cs1 in Ep. destruct (ingest_all decay m now (Some (p_fp a)) (s_cached s)) as [cs1' hit1]. cbn in cs1, Ep, Hhit.
  subst cs1 hit1. unfold drain. cbn [fold_left fst snd orb].
  set (cs3 := rank decay now cs1').
  (* every entry of cs1' with the active fingerprint is matched *)
  assert (Hmatch1 : forall e, In e cs1' -> e_fp e = p_fp a -> matches_path (m_target m) (e_path e) = true).
  { intros e He Fe. destruct (In_map_path _ _ e Ep He) as (e0 & A & B). rewrite <- B. apply Hmatch; [exact A|].
    unfold e_fp in *. rewrite B. exact Fe. }
  (* the best valid entry of the ranked cache *)
  assert (Hb3 : In b cs3) by (apply rank_In; exact Hb).
  destruct (find_sorted (geq decay now) (fun e => is_valid c now (e_path e)) cs3 b (rank_sorted decay now cs1') Hb3 Vb)
    as (best & Fbest & Vbest & Inbest & Ord).
  assert (Inbest1 : In best cs1') by (apply (rank_In decay now cs1'); exact Inbest).
  assert (Gb : (total b now <= total best now)%Q).
  { destruct Ord as [->|G]; [apply Qle_refl|exact G]. }
  assert (Nbest : matches_path (m_target m) (e_path best) = false).
  { destruct (matches_path (m_target m) (e_path best)) eqn:M; [|reflexivity]. exfalso.
    pose proof (Hrank best Inbest1 M Vbest) as L. apply (Qlt_not_le _ _ L Gb). }
  assert (FPbest : (p_fp a =? e_fp best) = false).
  { apply N.eqb_neq. intros E. rewrite (Hmatch1 best Inbest1 (eq_sym E)) in Nbest. discriminate. }
  unfold maybe_update_active, decide. change (best_path c now cs3) with (find (fun e => is_valid c now (e_path e)) cs3).
  rewrite Fbest.
  assert (Happly : forall d, d <> NoChange ->
            apply_decision d (Some best) (Some a) = Some (e_path best)).
  { intros d Hd. unfold apply_decision. cbn. rewrite FPbest. destruct d; [congruence|reflexivity|reflexivity]. }
  exists (e_path best).
  destruct (check_path_expiry a now (c_thresh c)) eqn:Ea.
  - (* active still valid: the swap threshold decides *)
    unfold active_entry.
    destruct (find (fun e => e_fp e =? p_fp a) cs3) as [ae1|] eqn:Fa.
    + apply find_some in Fa. destruct Fa as [Ina1 Fp1]. apply N.eqb_eq in Fp1.
      assert (Ina1' : In ae1 cs1') by (apply (rank_In decay now cs1'); exact Ina1).
      pose proof (Hgap ae1 Ina1' Fp1) as G.
      assert (T : Qltb (c_swap c) (total best now - total ae1 now) = true).
      { apply Qltb_true. lra. }
      rewrite T. cbn [fst with_cached_active s_active]. rewrite Happly by discriminate. auto.
    + exfalso. (* the active entry is in the cache *)
      destruct (In_map_path (s_cached s) cs1' ae (eq_sym Ep) Hae) as (ae' & A & B).
      assert (A3 : In ae' cs3) by (apply rank_In; exact A).
      pose proof (find_none _ _ Fa ae' A3) as X. cbn in X.
      unfold e_fp in X, Fae. rewrite B, Fae, N.eqb_refl in X. discriminate.
  - cbn [fst with_cached_active s_active]. rewrite Happly by discriminate. auto.
  - cbn [fst with_cached_active s_active]. rewrite Happly by discriminate. auto.
Qed.

(** ** staying away / coming back *)
(* while no cached entry beats the (valid) active entry by more than the threshold, the slot
   keeps the active path *)
Lemma keep_active c now cs a ae :
  check_path_expiry a now (c_thresh c) = Valid ->
  active_entry (Some a) cs = Some ae ->
  (forall e, In e cs -> (total e now - total ae now <= c_swap c)%Q) ->
  maybe_update_active decay c now cs (Some a) = (Some a, None).
Proof.
  intros V Ea H. unfold maybe_update_active, decide. rewrite V, Ea.
  destruct (best_path c now cs) as [best|] eqn:Eb; [|reflexivity].
  assert (Inb : In best cs) by (unfold best_path in Eb; apply find_some in Eb; tauto).
  assert (T : Qltb (c_swap c) (total best now - total ae now) = false) by (apply Qltb_false, H, Inb).
  rewrite T. reflexivity.
Qed.

End Failover.

(** ** decay: what the theorems need of 2^(-t/h), and an instance *)
Definition decay_sign (decay : Q -> N -> N -> Q) : Prop :=
  forall b t h, ((b <= 0 -> decay b t h <= 0) /\ (0 <= b -> 0 <= decay b t h))%Q.
Definition decay_id0 (decay : Q -> N -> N -> Q) : Prop :=
  forall b h, 0 < h -> (decay b 0%N h == b)%Q.
Definition decay_contracts (decay : Q -> N -> N -> Q) : Prop :=
  forall b t1 t2 h, t1 <= t2 -> (Qabs (decay b t2 h) <= Qabs (decay b t1 h) /\ Qabs (decay b t1 h) <= Qabs b)%Q.
Definition decay_vanishes (decay : Q -> N -> N -> Q) : Prop :=
  forall b h eps, 0 < h -> (0 < eps)%Q -> exists T, forall t, T <= t -> (Qabs (decay b t h) <= eps)%Q.

(* an instance: the value is kept for one half-life and then dropped (the real function
   2^(-t/h) satisfies the four properties as well; this one shows they are consistent) *)
Definition decay_drop (b : Q) (t h : N) : Q := if t <? h then b else 0%Q.
Lemma decay_drop_sign : decay_sign decay_drop.
Proof. intros b t h. unfold decay_drop. destruct (t <? h); split; intros; try assumption; apply Qle_refl. Qed.
Lemma decay_drop_id0 : decay_id0 decay_drop.
Proof. intros b h H. unfold decay_drop. apply N.ltb_lt in H. rewrite H. reflexivity. Qed.
Lemma decay_drop_contracts : decay_contracts decay_drop.
Proof.
  intros b t1 t2 h L. unfold decay_drop.
  destruct (t1 <? h) eqn:E1, (t2 <? h) eqn:E2; split; try apply Qle_refl; try apply Qabs_nonneg.
  apply N.ltb_ge in E1. apply N.ltb_lt in E2. lia.
Qed.
Lemma decay_drop_vanishes : decay_vanishes decay_drop.
Proof.
  intros b h eps Hh He. exists h. intros t Ht. unfold decay_drop.
  apply N.ltb_ge in Ht. rewrite Ht. cbn. apply Qlt_le_weak. exact He.
Qed.

Lemma clamp_between lo hi q eps :
  (lo <= 0)%Q -> (0 <= hi)%Q -> (0 <= eps)%Q -> (- eps <= q)%Q -> (q <= eps)%Q ->
  (- eps <= clampQ lo hi q /\ clampQ lo hi q <= eps)%Q.
Proof.
  intros Hlo Hhi He H1 H2. unfold clampQ. split.
  - eapply Qle_trans; [|apply Q.le_max_r]. apply Q.min_glb; [lra|exact H1].
  - apply Q.max_lub; [lra|]. eapply Qle_trans; [apply Q.le_min_r|exact H2].
Qed.

Lemma rel_score_vanishes decay :
  decay_vanishes decay ->
  forall (r : rel) (eps : Q), (0 < eps)%Q ->
    exists T, forall now, T <= now - r_last r ->
      (- eps <= rel_score decay r now /\ rel_score decay r now <= eps)%Q.
Proof.
  intros HV r eps He.
  destruct (HV (r_score r) RELIABILITY_HALF_LIFE eps eq_refl He) as [T HT].
  exists T. intros now Hn. specialize (HT _ Hn). apply Qabs_Qle_condition in HT. destruct HT as [A B].
  unfold rel_score, score_clamped. apply clamp_between; try assumption; try (apply Qlt_le_weak; exact He).
  - unfold SCORE_LO. cbn. discriminate.
  - unfold SCORE_HI. cbn. discriminate.
Qed.
