(** C06 -- handed-out paths are live and the manager's state stays bounded.
    Property theorems only.  All are about the model of the REPAIRED code (known_findings/C06.json,
    "fixed": expired path at hand-out, unbounded issue FIFO, expect() on an empty cache); they
    hold for every policy and decay function, every configuration the validator accepts (the
    size bounds even for every configuration) and every event history. *)
From Sci Require Import PathMgr.Model PathMgr.Proofs PathMgr.Proofs_C06.
Local Open Scope N_scope.

Section C06.
Variable pol : path -> option bool.
Variable decay : Q -> N -> N -> Q.

(** Whatever the sequence of lookups, failures, issue reports and sends: the number of cached
    paths per pair never exceeds the configured maximum (or 1 if that is 0: the active path is
    always kept). *)
Theorem cache_bounded :
  forall (c : cfg) (t0 : N) (evs : list ev),
    N.of_nat (length (s_cached (run pol decay c (init_st c t0) evs))) <= N.max (c_max_cached c) 1.
Proof.
  intros c t0 evs.
  pose proof (run_len pol decay c evs (init_st c t0)) as H. unfold bound in H. cbn [init_st s_cached length] in H.
  specialize (H ltac:(lia)). lia.
Qed.

(** After every lookup (successful, empty or failed) at [now], the next one is scheduled no
    sooner than the configured minimum delay and no later than the larger of the refetch
    interval and the backoff ceiling -- for every jitter draw, every state, every configuration
    accepted by [MultiPathManagerConfig::validate]. *)
Theorem refetch_window :
  forall (c : cfg) (s s' : st) (now : N) (a : answer) (jit : N),
    cfg_valid c = true ->
    step pol decay c s (Tick now a jit) = (s', OTick true) ->
    c_min_delay c <= s_next_refetch s' - now /\
    s_next_refetch s' - now <= N.max (c_refetch c) (c_bo_max c).
Proof.
  intros c s s' now a jit V E. destruct (step_tick_window pol decay c s now a jit s' V E). lia.
Qed.

(** At the instant a path is handed to a sender ([Send] = cached_path, [SendWait] = path) it is
    not expired: its expiry lies strictly after [now].  Any state, any configuration.  (The
    code compares [now] in whole seconds truncated to u32, hence the year-2106 premise.) *)
Theorem handed_out_not_expired :
  forall (c : cfg) (s s' : st) (e : ev) (p : path) (x : N),
    step pol decay c s e = (s', OPath p) ->
    p_exp p = Some x -> ev_time e / NS < U32 ->
    ev_time e < x * NS.
Proof.
  intros c s s' e p x E Hx L. destruct (step_out_live pol decay c s e s' p E) as [_ H].
  eapply not_expired_at_handout; eauto.
Qed.

(** The issue memory stays bounded by its configured size: the map holds at most
    max(size, 1) issues and the FIFO (which keeps the stale entries of re-reported issues
    until it is compacted) at most twice that -- for every history, in particular for one issue
    re-reported for hours.  Underlying invariant ([Proofs_C06.IMInv]): every FIFO entry's issue is
    cached, the last FIFO entry of an issue is live and every earlier one stale, every cached
    issue has an entry -- so the eviction loop always makes room.
    Premise: a positive deduplication window (then an accepted re-report carries a strictly
    later timestamp than the cached one, whatever the clock does). *)
Theorem issue_memory_bounded :
  forall (c : cfg) (t0 : N) (evs : list ev),
    0 < c_dedup c ->
    let im := s_im (run pol decay c (init_st c t0) evs) in
    N.of_nat (length (im_cache im)) <= N.max (c_issue_size c) 1 /\
    N.of_nat (length (im_fifo im)) <= 2 * N.max (c_issue_size c) 1.
Proof.
  intros c t0 evs D im.
  destruct (run_im pol decay c evs D (init_st c t0) (init_im c t0)) as (I & B & Bf). fold im in I, B, Bf.
  unfold ibound in B, Bf. lia.
Qed.

(** None of the worker's debug assertions / expects is reachable, in any history: the active
    slot's fingerprint is always cached (decide_active_path_update, merge_new_paths_algo), every
    FIFO id is in the issue map (pop_front), and a successful lookup that leaves the cache empty
    is handled (the former expect in fetch_and_update).  In particular the worker task never
    dies on a panic, so senders never wait for a lookup that cannot complete.
    (Premise as for [issue_memory_bounded]: with a zero deduplication window two reports of one
    issue with the same timestamp leave two live FIFO entries, and pop_front's debug assertion
    "issue ID not found in cache" is reachable -- as in the unrepaired code.) *)
Theorem worker_never_panics :
  forall (c : cfg) (t0 : N) (evs : list ev),
    0 < c_dedup c ->
    let s := run pol decay c (init_st c t0) evs in
    s_panic s = None /\
    (forall a, s_active s = Some a -> exists e, In e (s_cached s) /\ e_fp e = p_fp a).
Proof.
  intros c t0 evs D s. destruct (run_NP pol decay c evs D (init_st c t0) (init_NP c t0)) as (A & _ & P).
  split; [exact P|exact A].
Qed.

(** While at least one valid path is known a sender is not left without one -- PARTIAL:
    (i) it is a statement about the instants up to the next scheduled lookup, i.e. it relies on
    the worker's timer firing when due (tokio, not modelled); (ii) it needs the backoff ceiling
    not to exceed the expiry threshold ([c_bo_max <= c_thresh], true of the default
    configuration, NOT enforced by the validator: open finding C06-backoff-outlasts-threshold,
    witness [Findings.backoff_outlasts_threshold]).
    After every lookup (successful, empty or failed) in every reachable state: if some cached
    path is valid, the active slot holds a valid path, and every send before the next scheduled
    lookup returns it, unexpired. *)
Theorem never_without_path_while_valid_known_partial :
  forall (c : cfg) (t0 : N) (evs : list ev) (now : N) (a : answer) (jit : N) (s' : st),
    cfg_valid c = true -> c_bo_max c <= c_thresh c ->
    step pol decay c (run pol decay c (init_st c t0) evs) (Tick now a jit) = (s', OTick true) ->
    (exists e, In e (s_cached s') /\ is_valid c now (e_path e) = true) ->
    exists p, s_active s' = Some p /\ is_valid c now p = true /\
      forall t, t < s_next_refetch s' -> t / NS < U32 -> snd (step pol decay c s' (Send t)) = OPath p.
Proof.
  intros c t0 evs now a jit s' V Hbo E Hv.
  pose proof (run_SI pol decay c evs (init_st c t0) (init_SI c t0)) as I.
  set (s := run pol decay c (init_st c t0) evs) in *.
  unfold step in E. destruct (s_dead s); [discriminate|]. unfold maintain in E.
  destruct (_ && _); [discriminate|].
  match type of E with context [s_next_refetch ?s1 <=? now] => assert (I1 : SI s1) by (destruct (s_next_idle s <=? now); exact I) end.
  destruct (s_next_refetch _ <=? now); inv E.
  destruct (fetch_serves pol decay c _ now a jit V Hbo I1 Hv) as (p & x & A & B & C & D & F).
  exists p. split; [exact A|]. split; [exact B|].
  intros t Lt Lu. unfold step. rewrite F. unfold hand_out. rewrite A.
  assert (X : expired_at_handout p t = false).
  { unfold expired_at_handout. rewrite C. apply N.leb_gt. rewrite N.mod_small by exact Lu.
    apply N.div_lt_upper_bound; [discriminate|]. lia. }
  rewrite X. reflexivity.
Qed.

End C06.
Print Assumptions never_without_path_while_valid_known_partial.
Print Assumptions worker_never_panics.
Print Assumptions cache_bounded.
Print Assumptions refetch_window.
Print Assumptions handed_out_not_expired.
Print Assumptions issue_memory_bounded.

(** non-vacuity: the validator accepts the default configuration; one issue re-reported twelve
    times 11 s apart keeps one map entry and (default size 100) twelve FIFO entries; a path that expires between two
    ticks is not handed out after its expiry *)
Example default_config_valid : cfg_valid (default_cfg 1 2) = true.
Proof. reflexivity. Qed.
Example rereport_keeps_one :
  let c := default_cfg 1 2 in
  let evs := map (fun k => Report (11000000000 * k) (IInterfaceDown 10 3)) [0;1;2;3;4;5;6;7;8;9;10;11] in
  let im := s_im (run (fun _ => Some true) (fun b _ _ => b) c (init_st c 0) evs) in
  (length (im_cache im), length (im_fifo im)) = (1%nat, 12%nat).
Proof. vm_compute. reflexivity. Qed.
Example expiry_between_ticks :
  let p := mkPath 0 0 1 2 (Some 301) None None None 3 in
  let c := default_cfg 1 2 in
  let evs := [Tick 0 (AOk [p]) 0; Send 1000000000; Tick 60000000000 AErr 0; Send 300000000000;
              Send 301000000000; SendWait 302000000000] in
  outs (fun _ => Some true) (fun b _ _ => b) c (init_st c 0) evs
  = [OTick true; OPath p; OTick true; OPath p; ONoPath; OErr 1].
Proof. vm_compute. reflexivity. Qed.
