(** C05 -- a socket's path policy is honoured by every path handed to a sender.
    Property theorems only; each closed by short glue from lemmas of [Proofs].

    All theorems are about [run c (init_st c t0) evs] for EVERY configuration [c], start time
    [t0] and event list [evs] (lookup answers with arbitrary path sets / empty / error, ticks at
    arbitrary times, issue reports, deliveries, send requests), every policy [pol] (an arbitrary
    function [path -> option bool]; [None] = the policy cannot be evaluated, e.g. no metadata)
    and every decay function. *)
From Sci Require Import PathMgr.Model PathMgr.Proofs PathMgr.Proofs_C06.
Local Open Scope N_scope.

Section C05.
Variable pol : path -> option bool.
Variable decay : Q -> N -> N -> Q.

Definition connects (c : cfg) (p : path) : Prop := p_src p = c_src c /\ p_dst p = c_dst c.

(** Every cached entry and the active slot hold a path that the policy allows and that occurs in
    the answer of a lookup consumed earlier in the history; it connects the requested pair as
    soon as the fetcher only answers with paths of the requested pair (the manager itself never
    inspects source and destination: that is the fetcher's contract). *)
Theorem policy_invariant :
  forall (c : cfg) (t0 : N) (evs : list ev),
    let s := run pol decay c (init_st c t0) evs in
    let F := fetched pol decay c (init_st c t0) evs in
    (forall e, In e (s_cached s) -> pol (e_path e) = Some true /\ In (e_path e) F) /\
    (forall p, s_active s = Some p -> pol p = Some true /\ In p F) /\
    ((forall p, In p F -> connects c p) ->
     (forall e, In e (s_cached s) -> connects c (e_path e)) /\
     (forall p, s_active s = Some p -> connects c p)).
Proof.
  intros c t0 evs s F. destruct (run_init_good pol decay c t0 evs) as [A B]. fold s F in A, B.
  assert (G : forall p, good pol F p -> pol p = Some true /\ In p F).
  { intros p [H1 H2]. split; [|exact H2]. unfold allowed in H1.
    destruct (pol p) as [[|]|]; try discriminate; reflexivity. }
  rewrite Forall_forall in A.
  refine (conj _ (conj _ _)).
  - intros e He. apply G, A, He.
  - intros p Hp. apply G, B, Hp.
  - intros HF. split.
    + intros e He. apply HF. apply (proj2 (A e He)).
    + intros p Hp. apply HF. apply (proj2 (B p Hp)).
Qed.

(** A path returned for sending -- immediately ([Send] = cached_path) or after waiting
    ([SendWait] = path / path_wait) -- at any point of any history satisfies the policy and stems
    from an earlier lookup. *)
Theorem send_returns_allowed :
  forall (c : cfg) (t0 : N) (evs : list ev) (e : ev) s' p,
    step pol decay c (run pol decay c (init_st c t0) evs) e = (s', OPath p) ->
    pol p = Some true /\ In p (fetched pol decay c (init_st c t0) evs) /\
    (* ... from the most recent lookup or an earlier one STILL VALID: not expired at hand-out *)
    (forall x, p_exp p = Some x -> ev_time e / NS < U32 -> ev_time e < x * NS).
Proof.
  intros c t0 evs e s' p E. pose proof (step_out_live pol decay c _ e s' p E) as [_ L].
  apply step_out_path in E.
  destruct (proj1 (proj2 (policy_invariant c t0 evs)) p E) as [A B].
  refine (conj A (conj B _)). intros x Hx Hu. eapply not_expired_at_handout; eauto.
Qed.

(** If no path fetched so far satisfies the policy the caller gets an error / no path, never an
    unfiltered path: the cache is empty, the active slot is empty, [Send] yields no path and
    [SendWait] yields an error. *)
Theorem no_allowed_path_gives_error :
  forall (c : cfg) (t0 : N) (evs : list ev),
    let s := run pol decay c (init_st c t0) evs in
    (forall p, In p (fetched pol decay c (init_st c t0) evs) -> pol p <> Some true) ->
    s_cached s = [] /\ s_active s = None /\
    forall now, (s_dead s = false ->
                 snd (step pol decay c s (Send now)) = ONoPath /\
                 exists k, snd (step pol decay c s (SendWait now)) = OErr k /\ k <> 0).
Proof.
  intros c t0 evs s H. destruct (policy_invariant c t0 evs) as (A & B & _). fold s in A, B.
  assert (Hc : s_cached s = []).
  { destruct (s_cached s) as [|e r]; [reflexivity|].
    destruct (A e (or_introl eq_refl)) as [H1 H2]. destruct (H _ H2 H1). }
  assert (Ha : s_active s = None).
  { destruct (s_active s) as [p|]; [|reflexivity].
    destruct (B p eq_refl) as [H1 H2]. destruct (H _ H2 H1). }
  refine (conj Hc (conj Ha _)). intros now Hd. unfold step, hand_out. rewrite Hd, Ha. cbn.
  split; [reflexivity|]. destruct (s_err s =? 0) eqn:E.
  - exists 1. split; [reflexivity|discriminate].
  - exists (s_err s). split; [reflexivity|]. apply N.eqb_neq in E. exact E.
Qed.

(** A path whose policy evaluation is impossible ([pol p = None]: the blanket impl's
    [unwrap_or(false)]) is treated as rejected: it is never cached, never active, never handed
    out. *)
Theorem no_metadata_rejected :
  forall (c : cfg) (t0 : N) (evs : list ev) (p : path),
    pol p = None ->
    let s := run pol decay c (init_st c t0) evs in
    (forall e, In e (s_cached s) -> e_path e <> p) /\ s_active s <> Some p /\
    forall e s', step pol decay c s e <> (s', OPath p).
Proof.
  intros c t0 evs p Hn s. destruct (policy_invariant c t0 evs) as (A & B & _). fold s in A, B.
  refine (conj _ (conj _ _)).
  - intros e He E. destruct (A e He) as [H1 _]. rewrite E, Hn in H1. discriminate.
  - intros E. destruct (B p E) as [H1 _]. rewrite Hn in H1. discriminate.
  - intros e s' E. apply step_out_path in E. destruct (B p E) as [H1 _]. rewrite Hn in H1. discriminate.
Qed.

End C05.
Print Assumptions policy_invariant.
Print Assumptions send_returns_allowed.
Print Assumptions no_allowed_path_gives_error.
Print Assumptions no_metadata_rejected.

(** non-vacuity: with a policy that allows path 1 only, a lookup answering [p0; p1; p2]
    (p2 without metadata: evaluation error) makes exactly p1 cached, active and handed out *)
Example policy_run :
  let mk id hops := mkPath id id 1 2 (Some 10000) (Some [(1, 1); (2, 2)]) (Some (1, 1)) (Some (2, 2)) hops in
  let p0 := mk 0 2 in let p1 := mk 1 3 in let p2 := mk 2 1 in
  let pol := fun p => if p_id p =? 1 then Some true else if p_id p =? 2 then None else Some false in
  let c := default_cfg 1 2 in
  let evs := [Tick 0 (AOk [p0; p1; p2]) 0; Send 1000000000] in
  map (fun e => p_id (e_path e)) (s_cached (run pol (fun b _ _ => b) c (init_st c 0) evs)) = [1]
  /\ outs pol (fun b _ _ => b) c (init_st c 0) evs = [OTick true; OPath p1].
Proof. vm_compute. split; reflexivity. Qed.
