(** C19: typedness of the produced paths, and the reparse theorem. *)
From Sci Require Import Combine.Model Combine.Spec Combine.Obs Combine.Proofs Combine.ProofsEnc Combine.ProofsC19 Combine.ProofsBound
  Combine.ProofsC04 Combine.ProofsPath Combine.ProofsWF Combine.ProofsDecode Common.ListAux.
From Coq Require Import Lia ZifyBool ZifyNat ZifyN Permutation.
Local Open Scope N_scope.

(** fields of the input fit their Rust types *)
Definition segment_typed (s : segment) : Prop :=
  sg_ts s < 4294967296 /\ sg_id s < 65536
  /\ Forall (fun ae => hop_typed (ae_hf ae) /\ Forall (fun p => hop_typed (pe_hf p)) (ae_peers ae)) (sg_entries s).

Lemma lxor_lt16 a b : a < 65536 -> b < 65536 -> N.lxor a b < 65536.
Proof.
  intros Ha Hb. destruct (N.eq_dec (N.lxor a b) 0) as [E|E]; [rewrite E; lia|].
  change 65536 with (2 ^ 16). apply N.log2_lt_pow2; [lia|].
  eapply N.le_lt_trans; [apply N.log2_lxor|].
  apply N.max_lub_lt.
  - destruct (N.eq_dec a 0) as [->|Ea]; [cbn; lia|]. apply N.log2_lt_pow2; lia.
  - destruct (N.eq_dec b 0) as [->|Eb]; [cbn; lia|]. apply N.log2_lt_pow2; lia.
Qed.

Lemma segid_fold_lt l : forall acc, acc < 65536 -> fold_left (fun beta ae => N.lxor beta (mac_hi16 (ae_hf ae))) l acc < 65536.
Proof.
  induction l as [|ae l IH]; intros acc H; cbn [fold_left]; [exact H|]. apply IH. apply lxor_lt16; [exact H|].
  unfold mac_hi16. apply N.mod_lt. discriminate.
Qed.

Lemma item_hf_typed s idx pr it :
  segment_typed s -> nth_error (sg_entries s) (fst it) = Some (snd it) -> hop_typed (item_hf idx pr it).
Proof.
  intros (_ & _ & Hall) Hn. rewrite Forall_forall in Hall. destruct (Hall _ (nth_error_In _ _ Hn)) as [H1 H2].
  unfold item_hf, item_peer. destruct pr as [pi|]; [|exact H1].
  destruct (Nat.eqb (fst it) idx); [|exact H1]. destruct (nth_error (ae_peers (snd it)) pi) as [p|] eqn:Ep; [|exact H1].
  rewrite Forall_forall in H2. exact (H2 p (nth_error_In _ _ Ep)).
Qed.

Lemma edge_step_typed st e st' :
  segment_typed (is_seg (se_seg e)) -> Forall seg_typed (ps_segs st) ->
  edge_step st e = Ok st' -> Forall seg_typed (ps_segs st').
Proof.
  intros Ht Hst H. pose proof H as H'. apply edge_step_pure in H' as (_ & _ & d & Hd & Hh & Hts & Hfl).
  rewrite Hd. apply Forall_app; split; [exact Hst|]. constructor; [|constructor].
  unfold seg_typed. rewrite Hfl, Hts, Hh. destruct Ht as (T1 & T2 & T3). split; [|split; [|split; [exact T1|]]].
  - unfold has_flag, INFO_CONS_DIR, INFO_PEERING. destruct (edge_cons_dir e), (e_peer (se_edge e)); cbn; lia.
  - (* the SegID accumulator *)
    unfold edge_step in H. apply bind_ok in H as (cap & _ & H). apply bind_ok in H as (hs & _ & H).
    apply bind_ok in H as (cd & _ & H). apply bind_ok in H as (sid & Hsid & H).
    destruct (3 <=? length (ps_segs st))%nat; [discriminate|]. inversion H; subst.
    cbn [ps_segs] in Hd. apply app_inv_head in Hd. inversion Hd; subst d. cbn [ds_segid].
    unfold initialize_segment_id in Hsid. apply bind_ok in Hsid as (ico & _ & Hsid). apply bind_ok in Hsid as (stop0 & _ & Hsid).
    match type of Hsid with (if ?c then _ else _) = _ => destruct c; [discriminate|] end.
    inversion Hsid; subst. apply segid_fold_lt. exact T2.
  - unfold edge_hops, orient, edge_items.
    assert (Hall : Forall hop_typed (map (item_hf (e_idx (se_edge e)) (e_peer (se_edge e)))
                     (rev (skipn (e_idx (se_edge e)) (enumerate (sg_entries (is_seg (se_seg e)))))))).
    { apply Forall_forall. intros h Hh'. apply in_map_iff in Hh' as ([i a] & <- & Hin).
      apply in_rev, In_skipn', in_enumerate in Hin. apply (item_hf_typed (is_seg (se_seg e))); [split; auto|exact Hin]. }
    destruct (edge_cons_dir e); [|exact Hall]. apply Forall_forall. intros h Hh'. apply in_rev in Hh'.
    rewrite Forall_forall in Hall. auto.
Qed.

Lemma edges_fold_typed l : forall st st',
  Forall (fun e => segment_typed (is_seg (se_seg e))) l -> Forall seg_typed (ps_segs st) ->
  ofold edge_step l st = Ok st' -> Forall seg_typed (ps_segs st').
Proof.
  induction l as [|e l IH]; intros st st' Hl Hst; cbn [ofold].
  - intros E; inversion E; subst. exact Hst.
  - inversion Hl; subst. intros H. apply bind_ok in H as (st1 & Hst1 & H).
    eapply IH; [assumption| |exact H]. eapply edge_step_typed; eauto.
Qed.

Lemma combine_reparse Hid Hfp ord_v ord_e src dst cores non_cores out p :
  (forall v l, Permutation (ord_v v l) l) -> (forall v w l, Permutation (ord_e v w l) l) ->
  Forall segment_typed (cores ++ non_cores) ->
  combine_paths Hid Hfp ord_v ord_e src dst cores non_cores = Ok out -> In p out ->
  decode_std (sp_bytes p) = Some (o_segs (obs_path p)).
Proof.
  intros Hv He Hty Hout Hp.
  pose proof (combine_outputs_shape _ _ _ _ _ _ _ _ _ Hv He Hout) as Hs. rewrite Forall_forall in Hs.
  destruct (Hs p Hp) as (segs & ifs & f & l & mtu & e & Hpe & _ & _ & _ & Hw & _).
  destruct (combine_solution_of _ _ _ _ _ _ _ _ _ _ Hv He Hout Hp) as (g & sol & Hg & Hsol & Hsp).
  destruct (sol_path_ends _ _ _ Hsp) as (st & f' & l' & Hst & _ & _ & _ & _ & _ & Hsegs).
  pose proof (get_paths_ok ord_v ord_e Hv He g src dst) as Hok. rewrite Forall_forall in Hok. destruct (Hok sol Hsol) as [Hin_g _].
  assert (Htyped : Forall seg_typed (sp_segs p)).
  { rewrite Hsegs. eapply (edges_fold_typed (so_edges sol) (mkPS 65535 [] [])); [|cbn; constructor|exact Hst].
    eapply Forall_impl; [|exact Hin_g]. intros ed Hedge. unfold sedge_in in Hedge.
    destruct (add_segments_from _ _ _ Hg _ _ _ _ Hedge) as [(vi & em & [] & _)|Hmem].
    rewrite Forall_forall in Hty. apply Hty. eapply input_segments_seg; eauto. }
  subst p. cbn [sp_bytes sp_segs obs_path o_segs] in *. apply decode_encode; assumption.
Qed.
