(** Observation of a model path: what a caller (and the harness) can read off a ScionPath.
    Connects the model's output type to the vocabulary of [Spec]. *)
From Sci Require Export Combine.Model Combine.Spec.
Local Open Scope N_scope.

(** what the harness observes of a model path *)
Definition obs_hop (h : hopf) : ohop := (hf_exp h, hf_in h, hf_eg h, hf_mac h).
Definition obs_seg (s : dpseg) : oseg := mkOS (ds_flags s) (ds_segid s) (ds_ts s) (map obs_hop (ds_hops s)).
Definition obs_path (p : spath) : opath :=
  mkOP (sp_src p) (sp_dst p) (map obs_seg (sp_segs p)) (path_expiration p)
       (match sp_meta p with Some m => md_exp m | None => 0 end)
       (match sp_meta p with Some m => md_mtu m | None => 0 end)
       (match sp_meta p with Some m => odefault [] (md_ifaces m) | None => [] end).


(** decidable well-formedness of a segment (the hypothesis of the C04 theorems that need one):
    at least two AS entries, no AS twice, ConsIngress = 0 exactly at the first entry and
    ConsEgress = 0 exactly at the last, peer hop fields with a non-zero peering interface and
    the entry's ConsEgress *)
Fixpoint nodupb (l : list N) : bool :=
  match l with [] => true | x :: r => negb (existsb (N.eqb x) r) && nodupb r end.
Definition wf_entryb (len : nat) (ie : nat * asentry) : bool :=
  let '(i, ae) := ie in
  Bool.eqb (hf_in (ae_hf ae) =? 0) (Nat.eqb i 0)
  && Bool.eqb (hf_eg (ae_hf ae) =? 0) (Nat.eqb (S i) len)
  && forallb (fun p => negb (hf_in (pe_hf p) =? 0) && (hf_eg (pe_hf p) =? hf_eg (ae_hf ae))) (ae_peers ae).
Definition wf_segb (s : segment) : bool :=
  (2 <=? length (sg_entries s))%nat && nodupb (map ae_ia (sg_entries s))
  && forallb (wf_entryb (length (sg_entries s))) (enumerate (sg_entries s)).

(** the peer entries of an AS entry name pairwise different peering links *)
Definition peer_key3_eqb (a b : N * N * N) : bool :=
  let '(a1, a2, a3) := a in let '(b1, b2, b3) := b in (a1 =? b1) && (a2 =? b2) && (a3 =? b3).
Fixpoint nodup3b (l : list (N * N * N)) : bool :=
  match l with [] => true | x :: r => negb (existsb (peer_key3_eqb x) r) && nodup3b r end.
Definition wf_peersb (s : segment) : bool :=
  forallb (fun ae => nodup3b (map (fun p => (hf_in (pe_hf p), pe_ia p, pe_if p)) (ae_peers ae))) (sg_entries s).

(** decidable tie test: do two neighbours of a (sorted) solution list compare Equal under the
    sort key of get_paths? *)
Fixpoint adjacent_ties (l : list solution) : bool :=
  match l with
  | a :: ((b :: _) as r) => (match cmp_sol a b with Eq => true | _ => false end) || adjacent_ties r
  | _ => false
  end.

(** * cost of a path, read off the path itself *)
Definition seg_cons_dir (s : dpseg) : bool := N.testbit (ds_flags s) 0.
Definition seg_peering (s : dpseg) : bool := N.testbit (ds_flags s) 1.
(** links used inside the segment, plus the peering link (counted on the segment that is
    left through it) *)
Definition seg_cost (s : dpseg) : N :=
  N.of_nat (length (ds_hops s) - 1) + (if seg_peering s && negb (seg_cons_dir s) then 1 else 0).
Definition segs_cost (l : list dpseg) : N := fold_right (fun s acc => seg_cost s + acc) 0 l.
Definition path_cost (p : spath) : N := segs_cost (sp_segs p).


(** decidable form of the hypothesis of [combine_sorted_partial]: among the candidate paths,
    equal fingerprints imply equal cost *)
Definition fp_cost_consistentb (cand : list spath) : bool :=
  forallb (fun x => forallb (fun y => negb (sp_fp x =? sp_fp y) || (path_cost x =? path_cost y)) cand) cand.

(** ** provenance oracle (on the implementation's output, against the INPUT segments)
    Every segment of a returned path must be, hop field by hop field, a suffix of one input
    segment with the same timestamp: the regular hop fields of the entries after the cut, and
    at the cut the regular hop field of that entry or -- with the Peering flag -- the hop field
    of ONE OF ITS OWN peer entries.  For a peering path the two chosen peer entries must
    describe the same link from both sides (each names the other's AS and the other's local
    interface).  Every metadata interface must be an interface of one of the claimed hop
    fields, labelled with the AS of the entry the hop field comes from, and the metadata MTU
    must be the minimum over the traversed ASes and links of the claimed entries. *)
Record claim := mkClaim { cl_ia : N; cl_peer : option peer; cl_hops : list (N * hopf); cl_mtus : list N }.

Definition ohop_of (h : hopf) : ohop := (hf_exp h, hf_in h, hf_eg h, hf_mac h).
Definition ohop_eqb' (a b : ohop) : bool :=
  (oh_exp a =? oh_exp b) && (oh_in a =? oh_in b) && (oh_eg a =? oh_eg b) && (oh_mac a =? oh_mac b).

Fixpoint suffixes {A} (l : list A) : list (list A) :=
  match l with [] => [] | x :: r => (x :: r) :: suffixes r end.

(** claims of one observed segment against one input segment *)
Definition seg_claims (o : oseg) (s : segment) : list claim :=
  if negb (sg_ts s =? os_ts o) then [] else
  let hops_cons := if cons_dir o then os_hops o else rev (os_hops o) in
  flat_map (fun suf =>
    match suf, hops_cons with
    | ae :: rest, h0 :: hrest =>
      if negb (list_eqb ohop_eqb' (map (fun e => ohop_of (ae_hf e)) rest) hrest) then [] else
      let tail := map (fun e => (ae_ia e, ae_hf e)) rest in
      (* MTUs the path is subject to: the internal MTU of every traversed AS, the MTU of every
         link between two traversed entries (the later entry's ingress MTU; 0 = not given), the
         peering link's MTU at a peering cut; at an uncut segment start a given ingress MTU *)
      let sat := fun m => N.min m 65535 in
      let nz := fun m => if m =? 0 then [] else [m] in
      let tail_mtus := flat_map (fun e => sat (ae_mtu e) :: nz (ae_imtu e)) rest in
      let is_first := Nat.eqb (length suf) (length (sg_entries s)) in
      if peering o
      then flat_map (fun p => if ohop_eqb' (ohop_of (pe_hf p)) h0
                              then [mkClaim (ae_ia ae) (Some p) ((ae_ia ae, pe_hf p) :: tail)
                                            (sat (ae_mtu ae) :: pe_mtu p :: tail_mtus)] else [])
                    (ae_peers ae)
      else if ohop_eqb' (ohop_of (ae_hf ae)) h0
           then [mkClaim (ae_ia ae) None ((ae_ia ae, ae_hf ae) :: tail)
                         (sat (ae_mtu ae) :: (if is_first then nz (ae_imtu ae) else []) ++ tail_mtus)] else []
    | _, _ => []
    end) (suffixes (sg_entries s)).

Definition all_claims (inputs : list segment) (o : oseg) : list claim := flat_map (seg_claims o) inputs.

Definition same_link (a b : claim) : bool :=
  match cl_peer a, cl_peer b with
  | Some p, Some q =>
    (pe_ia p =? cl_ia b) && (pe_if p =? hf_in (pe_hf q)) && (pe_ia q =? cl_ia a) && (pe_if q =? hf_in (pe_hf p))
  | _, _ => false
  end.

Definition ifaces_claimed (ifs : list (N * N)) (cs : list claim) : bool :=
  let avail := flat_map (fun c => flat_map (fun '(ia, h) => [(ia, hf_in h); (ia, hf_eg h)]) (cl_hops c)) cs in
  forallb (fun i => existsb (fun a => (fst a =? fst i) && (snd a =? snd i)) avail) ifs.

(** the metadata MTU is the minimum of 65535 and the claimed MTUs *)
Definition mtu_claimed (mtu : N) (cs : list claim) : bool :=
  mtu =? fold_right N.min 65535 (flat_map cl_mtus cs).

Definition provenance_ok (inputs : list segment) (p : opath) : bool :=
  let ifaces_claimed := fun ifs cs => ifaces_claimed ifs cs && mtu_claimed (o_mtu p) cs in
  match map (all_claims inputs) (o_segs p), o_segs p with
  | [c0], [s0] => negb (peering s0) && existsb (fun a => ifaces_claimed (o_ifs p) [a]) c0
  | [c0; c1], [s0; s1] =>
    if peering s0 || peering s1
    then peering s0 && peering s1
         && existsb (fun a => existsb (fun b => same_link a b && ifaces_claimed (o_ifs p) [a; b]) c1) c0
    else existsb (fun a => existsb (fun b => ifaces_claimed (o_ifs p) [a; b]) c1) c0
  | [c0; c1; c2], [s0; s1; s2] =>
    negb (peering s0 || peering s1 || peering s2)
    && existsb (fun a => existsb (fun b => existsb (fun c => ifaces_claimed (o_ifs p) [a; b; c]) c2) c1) c0
  | _, _ => false
  end.

(** ** metamorphic oracle: the paths obtained from a subset of the segments are still returned,
    in the same relative order, when further segments are added (a path may be superseded by
    one of the same route with a later expiry) *)
Fixpoint route_subseq (sub full : list opath) : bool :=
  match sub with
  | [] => true
  | p :: sub' =>
    (fix find (l : list opath) : bool :=
       match l with
       | [] => false
       | q :: l' => if same_route p q && (o_exp p <=? o_exp q) then route_subseq sub' l' else find l'
       end) full
  end.

(** ** decidable hypothesis of [combine_sorted]: no peer hop field of the segment set has the
    (ConsIngress, ConsEgress) pair of a regular hop field of the set (a peering interface is not
    at the same time a parent / child / core interface with the same partner interface) *)
Definition sig (h : hopf) : N * N := (hf_in h, hf_eg h).
Definition peer_sigs (segs : list segment) : list (N * N) :=
  flat_map (fun s => flat_map (fun ae => map (fun p => sig (pe_hf p)) (ae_peers ae)) (sg_entries s)) segs.
Definition reg_sigs (segs : list segment) : list (N * N) :=
  flat_map (fun s => map (fun ae => sig (ae_hf ae)) (sg_entries s)) segs.
Definition peer_sig_distinctb (segs : list segment) : bool :=
  forallb (fun a => negb (existsb (if_eqb a) (reg_sigs segs))) (peer_sigs segs).
(** the hop-field interface sequence of a path: what the fingerprint hashes besides src / dst *)
Definition hop_sigs (p : spath) : list (N * N) := map sig (flat_map ds_hops (sp_segs p)).

(** decidable form of the injectivity hypothesis on the fingerprint hash: among the candidate
    paths, equal fingerprints imply equal hop-field interface sequences *)
Definition fp_faithfulb (cand : list spath) : bool :=
  forallb (fun x => forallb (fun y => negb (sp_fp x =? sp_fp y) || list_eqb if_eqb (hop_sigs x) (hop_sigs y)) cand) cand.
