(** Observation of a model path: what a caller (and the harness) can read off a ScionPath.
    Connects the model's output type to the vocabulary of [Spec]. *)
From Sci Require Export Combine.Model Combine.Spec.
Local Open Scope N_scope.

(** what the harness observes of a model path *)
Definition obs_hop (h : hopf) : ohop := (hf_exp h, hf_in h, hf_eg h, hf_mac h).
Definition obs_seg (s : dpseg) : oseg := mkOS (ds_flags s) (ds_segid s) (ds_ts s) (map obs_hop (ds_hops s)).
Definition obs_path (p : spath) : opath :=
  mkOP (sp_src p) (sp_dst p) (map obs_seg (sp_segs p)) (path_expiration p)
       (match sp_meta p with Some m => md_exp m | None => 0 end)
       (match sp_meta p with Some m => md_mtu m | None => 0 end)
       (match sp_meta p with Some m => odefault [] (md_ifaces m) | None => [] end).

