(** Observation of a model path: what a caller (and the harness) can read off a ScionPath.
    Connects the model's output type to the vocabulary of [Spec]. *)
From Sci Require Export Combine.Model Combine.Spec.
Local Open Scope N_scope.

(** what the harness observes of a model path *)
Definition obs_hop (h : hopf) : ohop := (hf_exp h, hf_in h, hf_eg h, hf_mac h).
Definition obs_seg (s : dpseg) : oseg := mkOS (ds_flags s) (ds_segid s) (ds_ts s) (map obs_hop (ds_hops s)).
Definition obs_path (p : spath) : opath :=
  mkOP (sp_src p) (sp_dst p) (map obs_seg (sp_segs p)) (path_expiration p)
       (match sp_meta p with Some m => md_exp m | None => 0 end)
       (match sp_meta p with Some m => md_mtu m | None => 0 end)
       (match sp_meta p with Some m => odefault [] (md_ifaces m) | None => [] end).


(** decidable well-formedness of a segment (the hypothesis of the C04 theorems that need one):
    at least two AS entries, no AS twice, ConsIngress = 0 exactly at the first entry and
    ConsEgress = 0 exactly at the last, peer hop fields with a non-zero peering interface and
    the entry's ConsEgress *)
Fixpoint nodupb (l : list N) : bool :=
  match l with [] => true | x :: r => negb (existsb (N.eqb x) r) && nodupb r end.
Definition wf_entryb (len : nat) (ie : nat * asentry) : bool :=
  let '(i, ae) := ie in
  Bool.eqb (hf_in (ae_hf ae) =? 0) (Nat.eqb i 0)
  && Bool.eqb (hf_eg (ae_hf ae) =? 0) (Nat.eqb (S i) len)
  && forallb (fun p => negb (hf_in (pe_hf p) =? 0) && (hf_eg (pe_hf p) =? hf_eg (ae_hf ae))) (ae_peers ae).
Definition wf_segb (s : segment) : bool :=
  (2 <=? length (sg_entries s))%nat && nodupb (map ae_ia (sg_entries s))
  && forallb (wf_entryb (length (sg_entries s))) (enumerate (sg_entries s)).

(** the peer entries of an AS entry name pairwise different peering links *)
Definition peer_key3_eqb (a b : N * N * N) : bool :=
  let '(a1, a2, a3) := a in let '(b1, b2, b3) := b in (a1 =? b1) && (a2 =? b2) && (a3 =? b3).
Fixpoint nodup3b (l : list (N * N * N)) : bool :=
  match l with [] => true | x :: r => negb (existsb (peer_key3_eqb x) r) && nodup3b r end.
Definition wf_peersb (s : segment) : bool :=
  forallb (fun ae => nodup3b (map (fun p => (hf_in (pe_hf p), pe_ia p, pe_if p)) (ae_peers ae))) (sg_entries s).

(** decidable tie test: do two neighbours of a (sorted) solution list compare Equal under the
    sort key of get_paths? *)
Fixpoint adjacent_ties (l : list solution) : bool :=
  match l with
  | a :: ((b :: _) as r) => (match cmp_sol a b with Eq => true | _ => false end) || adjacent_ties r
  | _ => false
  end.

(** * cost of a path, read off the path itself *)
Definition seg_cons_dir (s : dpseg) : bool := N.testbit (ds_flags s) 0.
Definition seg_peering (s : dpseg) : bool := N.testbit (ds_flags s) 1.
(** links used inside the segment, plus the peering link (counted on the segment that is
    left through it) *)
Definition seg_cost (s : dpseg) : N :=
  N.of_nat (length (ds_hops s) - 1) + (if seg_peering s && negb (seg_cons_dir s) then 1 else 0).
Definition segs_cost (l : list dpseg) : N := fold_right (fun s acc => seg_cost s + acc) 0 l.
Definition path_cost (p : spath) : N := segs_cost (sp_segs p).


(** decidable form of the hypothesis of [combine_sorted_partial]: among the candidate paths,
    equal fingerprints imply equal cost *)
Definition fp_cost_consistentb (cand : list spath) : bool :=
  forallb (fun x => forallb (fun y => negb (sp_fp x =? sp_fp y) || (path_cost x =? path_cost y)) cand) cand.
