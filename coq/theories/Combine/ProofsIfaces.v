(** C04: for well-formed segments the metadata interface list is exactly the list of
    interfaces crossed according to the encoded hop fields ([Spec.path_ifaces]). *)
From Sci Require Import Combine.Model Combine.Spec Combine.Obs Combine.Proofs Combine.ProofsEnc Combine.ProofsC19 Combine.ProofsBound
  Combine.ProofsC04 Combine.ProofsPath Combine.ProofsWF Combine.ProofsSound Common.ListAux.
From Coq Require Import Lia ZifyBool ZifyNat ZifyN Permutation.
Local Open Scope N_scope.

Lemma rev_flat_map_rev {A B} (f : A -> list B) l : rev (flat_map f (rev l)) = flat_map (fun x => rev (f x)) l.
Proof.
  induction l as [|a l IH]; cbn [rev flat_map]; [reflexivity|].
  rewrite flat_map_app, rev_app_distr. cbn [flat_map]. rewrite app_nil_r, IH. reflexivity.
Qed.

(** facts about one traversed entry of a well-formed segment *)
Record ItemOK (L idx : nat) (pr : option nat) (it : nat * asentry) : Prop := {
  io_in : hf_in (ae_hf (snd it)) = 0 <-> fst it = 0%nat;
  io_eg : hf_eg (ae_hf (snd it)) = 0 <-> fst it = L;
  io_peer : forall pi p, pr = Some pi -> fst it = idx -> nth_error (ae_peers (snd it)) pi = Some p ->
                         hf_in (pe_hf p) <> 0 /\ hf_eg (pe_hf p) = hf_eg (ae_hf (snd it));
  io_peer_ex : forall pi, pr = Some pi -> fst it = idx -> exists p, nth_error (ae_peers (snd it)) pi = Some p;
  io_nonpeer0 : pr = None -> True }.

Definition is_some {A} (o : option A) : bool := match o with Some _ => true | None => false end.

(** interface ids an entry contributes (implementation), as (egress part, ingress part) *)
Definition eg_part (idx : nat) (pr : option nat) (it : nat * asentry) : list N :=
  let hf := item_hf idx pr it in if negb (hf_eg hf =? 0) then [hf_eg hf] else [].
Definition in_part (idx : nat) (pr : option nat) (it : nat * asentry) : list N :=
  let hf := item_hf idx pr it in
  if negb (hf_in hf =? 0) && (negb (item_shortcut idx it) || item_is_peer idx pr it) then [hf_in hf] else [].
Lemma item_ifs_ids idx pr it : map snd (item_ifs idx pr it) = eg_part idx pr it ++ in_part idx pr it.
Proof.
  unfold item_ifs, eg_part, in_part. rewrite map_app.
  destruct (negb (hf_eg (item_hf idx pr it) =? 0)),
           (negb (hf_in (item_hf idx pr it) =? 0) && (negb (item_shortcut idx it) || item_is_peer idx pr it)); reflexivity.
Qed.

(** the same entry seen by the specification *)
Lemma item_hf_eg L idx pr it : ItemOK L idx pr it -> (hf_eg (item_hf idx pr it) = 0 <-> fst it = L).
Proof.
  intros H. unfold item_hf, item_peer. destruct pr as [pi|]; [|apply (io_eg _ _ _ _ H)].
  destruct (Nat.eqb_spec (fst it) idx) as [E|E]; [|apply (io_eg _ _ _ _ H)].
  destruct (nth_error (ae_peers (snd it)) pi) as [p|] eqn:Ep; [|apply (io_eg _ _ _ _ H)].
  destruct (io_peer _ _ _ _ H pi p eq_refl E Ep) as [_ ->]. apply (io_eg _ _ _ _ H).
Qed.

Lemma in_part_spec L idx pr it (crossed : bool) :
  ItemOK L idx pr it ->
  (* crossed: the specification counts the construction-ingress side of this entry *)
  (crossed = negb (Nat.eqb (fst it) idx) || is_some pr) ->
  in_part idx pr it = if crossed && negb (hf_in (item_hf idx pr it) =? 0) then [hf_in (item_hf idx pr it)] else [].
Proof.
  intros H ->. unfold in_part, item_shortcut, item_is_peer.
  destruct (Nat.eqb_spec (fst it) idx) as [E|E]; cbn [negb andb orb].
  - destruct pr as [pi|]; cbn [is_some orb].
    + rewrite orb_true_r, andb_true_r. reflexivity.
    + rewrite orb_false_r. unfold item_hf, item_peer.
      destruct (Nat.eqb_spec (fst it) 0) as [E0|E0]; cbn [negb andb].
      * apply (io_in _ _ _ _ H) in E0. rewrite E0. reflexivity.
      * rewrite andb_false_r. reflexivity.
  - rewrite andb_true_r. reflexivity.
Qed.

Definition sseg (d : dpseg) : oseg := obs_seg d.

Lemma travel_obs d h :
  travel_in (sseg d) (obs_hop h) = (if seg_cons_dir d then hf_in h else hf_eg h)
  /\ travel_out (sseg d) (obs_hop h) = (if seg_cons_dir d then hf_eg h else hf_in h).
Proof. unfold travel_in, travel_out, cons_dir, sseg, obs_seg, seg_cons_dir; cbn. split; reflexivity. Qed.

Definition hop_of (idx : nat) (pr : option nat) (it : nat * asentry) : ohop := obs_hop (item_hf idx pr it).

Definition ItemsOK (L idx : nat) (pr : option nat) (X : list (nat * asentry)) : Prop := Forall (ItemOK L idx pr) X.

Lemma seg_ifaces_one s fi lo isf h : seg_ifaces s fi lo isf [h] = hop_ifaces s (negb isf || fi) lo h.
Proof. reflexivity. Qed.
Lemma seg_ifaces_cons2 s fi lo isf h h2 r :
  seg_ifaces s fi lo isf (h :: h2 :: r) = hop_ifaces s (negb isf || fi) true h ++ seg_ifaces s fi lo false (h2 :: r).
Proof. reflexivity. Qed.

(** ** travelling along construction: entries in increasing order *)
Lemma along_ifaces d L idx pr fi lo l : forall a isf,
  seg_cons_dir d = true ->
  ItemsOK L idx pr (combine (seq a (length l)) l) ->
  (idx <= a)%nat -> (a + length l = S L)%nat -> isf = Nat.eqb a idx -> fi = is_some pr ->
  flat_map (fun it => rev (map snd (item_ifs idx pr it))) (combine (seq a (length l)) l)
  = seg_ifaces (sseg d) fi lo isf (map (hop_of idx pr) (combine (seq a (length l)) l)).
Proof.
  induction l as [|x l IH]; intros a isf Hcd Hok Ha HL Hisf Hfi; [reflexivity|].
  cbn [length seq combine flat_map map] in *. unfold ItemsOK in Hok. apply Forall_cons_iff in Hok as [Hx Hrest].
  rewrite item_ifs_ids, rev_app_distr.
  assert (Hin : rev (in_part idx pr (a, x)) =
                if (negb (Nat.eqb a idx) || is_some pr) && negb (hf_in (item_hf idx pr (a, x)) =? 0)
                then [hf_in (item_hf idx pr (a, x))] else []).
  { rewrite (in_part_spec L idx pr (a, x) _ Hx eq_refl). cbn [fst].
    destruct ((negb (Nat.eqb a idx) || is_some pr) && negb (hf_in (item_hf idx pr (a, x)) =? 0)); reflexivity. }
  assert (Heg : rev (eg_part idx pr (a, x)) = if negb (hf_eg (item_hf idx pr (a, x)) =? 0) then [hf_eg (item_hf idx pr (a, x))] else []).
  { unfold eg_part. destruct (negb (hf_eg (item_hf idx pr (a, x)) =? 0)); reflexivity. }
  rewrite Hin, Heg.
  destruct (travel_obs d (item_hf idx pr (a, x))) as [Ti To]. rewrite Hcd in Ti, To.
  destruct l as [|y l'].
  - (* last entry: the leaf *)
    cbn [length seq combine flat_map map]. rewrite seg_ifaces_one. rewrite app_nil_r. unfold hop_ifaces, hop_of. rewrite Ti, To.
    assert (Ez : hf_eg (item_hf idx pr (a, x)) = 0) by (apply (item_hf_eg L idx pr (a, x) Hx); cbn; cbn in HL; lia).
    rewrite Ez. rewrite N.eqb_refl. cbn [negb]. rewrite andb_false_r. rewrite ?app_nil_r.
    rewrite Hisf, Hfi. reflexivity.
  - cbn [length seq combine map]. rewrite seg_ifaces_cons2.
    change (hop_of idx pr (S a, y) :: map (hop_of idx pr) (combine (seq (S (S a)) (length l')) l'))
      with (map (hop_of idx pr) (combine (seq (S a) (length (y :: l'))) (y :: l'))).
    rewrite <- (IH (S a) false Hcd Hrest ltac:(lia) ltac:(cbn [length] in *; lia)
                   ltac:(symmetry; apply Nat.eqb_neq; lia) Hfi).
    cbn [length seq combine flat_map]. f_equal.
    unfold hop_ifaces, hop_of. rewrite Ti, To. cbn [andb]. rewrite Hisf, Hfi. reflexivity.
Qed.

(** ** travelling against construction: entries in decreasing order *)
Lemma combine_seq_snoc {A} (l : list A) x a :
  combine (seq a (length (l ++ [x]))) (l ++ [x]) = combine (seq a (length l)) l ++ [((a + length l)%nat, x)].
Proof.
  rewrite app_length. cbn [length]. rewrite Nat.add_1_r, seq_S.
  rewrite combine_app' by (rewrite seq_length; reflexivity). reflexivity.
Qed.

Lemma against_ifaces d L idx pr fi lo l : forall isf,
  seg_cons_dir d = false ->
  ItemsOK L idx pr (combine (seq idx (length l)) l) -> (idx + length l <= S L)%nat ->
  isf = Nat.eqb (idx + length l) (S L) -> lo = is_some pr ->
  flat_map (fun it => map snd (item_ifs idx pr it)) (rev (combine (seq idx (length l)) l))
  = seg_ifaces (sseg d) fi lo isf (map (hop_of idx pr) (rev (combine (seq idx (length l)) l))).
Proof.
  induction l as [|x l IH] using rev_ind; intros isf Hcd Hok Hbound Hisf Hlo; [reflexivity|].
  rewrite combine_seq_snoc in *. rewrite rev_app_distr. cbn [rev app flat_map map].
  unfold ItemsOK in Hok. apply Forall_app in Hok as [Hrest Hx]. apply Forall_cons_iff in Hx as [Hx _].
  rewrite app_length in Hisf, Hbound. cbn [length] in Hisf, Hbound.
  set (top := ((idx + length l)%nat, x)) in *.
  rewrite item_ifs_ids.
  destruct (travel_obs d (item_hf idx pr top)) as [Ti To]. rewrite Hcd in Ti, To.
  assert (Heg : eg_part idx pr top =
                if (negb isf || fi) && negb (hf_eg (item_hf idx pr top) =? 0) then [hf_eg (item_hf idx pr top)] else []).
  { unfold eg_part. destruct (Nat.eqb_spec (idx + length l + 1) (S L)) as [E|E].
    - assert (Ez : hf_eg (item_hf idx pr top) = 0) by (apply (item_hf_eg L idx pr top Hx); cbn; lia).
      rewrite Ez, N.eqb_refl. cbn [negb]. rewrite andb_false_r. reflexivity.
    - rewrite Hisf. replace ((idx + (length l + 1) =? S L)%nat) with false by (symmetry; apply Nat.eqb_neq; lia).
      cbn [negb orb andb]. reflexivity. }
  rewrite Heg.
  destruct (rev (combine (seq idx (length l)) l)) as [|it2 rest] eqn:Erev.
  - (* the entry at the shortcut index *)
    assert (Hl : l = []).
    { apply (f_equal (@length _)) in Erev. rewrite rev_length, combine_length, seq_length, Nat.min_id in Erev.
      destruct l; [reflexivity|discriminate]. }
    subst l. cbn [length] in *. cbn [flat_map map]. rewrite seg_ifaces_one, app_nil_r.
    rewrite (in_part_spec L idx pr top lo Hx).
    + unfold hop_ifaces, hop_of. rewrite Ti, To. reflexivity.
    + unfold top. cbn [fst]. rewrite Nat.add_0_r, Nat.eqb_refl. cbn. exact Hlo.
  - cbn [map]. rewrite seg_ifaces_cons2.
    assert (Hne : l <> []) by (intros ->; discriminate).
    rewrite (in_part_spec L idx pr top true Hx).
    + specialize (IH false Hcd Hrest ltac:(lia)). cbn [map] in IH. rewrite <- IH.
      * cbn [flat_map]. f_equal. unfold hop_ifaces, hop_of. rewrite Ti, To. cbn [andb]. reflexivity.
      * symmetry. apply Nat.eqb_neq. lia.
      * exact Hlo.
    + unfold top. cbn [fst]. destruct (Nat.eqb_spec (idx + length l) idx) as [E|E]; [|reflexivity].
      destruct l; [congruence|cbn [length] in E; lia].
Qed.

(** ** one edge *)
Lemma map_snd_flat_map {A B C} (f : A -> list (B * C)) l :
  map snd (flat_map f l) = flat_map (fun x => map snd (f x)) l.
Proof. induction l as [|a l IH]; cbn [flat_map map]; [reflexivity|]. rewrite map_app, IH. reflexivity. Qed.

Lemma edge_items_ok e :
  wf_segment (is_seg (se_seg e)) -> EdgeOK (se_seg e) (se_edge e) ->
  ItemsOK (seg_len (is_seg (se_seg e)) - 1) (e_idx (se_edge e)) (e_peer (se_edge e))
          (skipn (e_idx (se_edge e)) (enumerate (sg_entries (is_seg (se_seg e))))).
Proof.
  intros Hwf [Hidx Hpeer]. apply Forall_forall. intros [i a] Hin. apply In_skipn', in_enumerate in Hin.
  destruct (wf_nth _ _ _ Hwf Hin) as (H1 & H2 & H3). pose proof (nth_error_lt _ _ _ Hin) as Hlt.
  constructor; cbn [fst snd].
  - exact H1.
  - rewrite H2. unfold seg_len in *. lia.
  - intros pi p _ _ Hp. apply H3. eapply nth_error_In; eauto.
  - intros pi Hpi ->. rewrite Hpi in Hpeer. destruct Hpeer as (ae & Hae & Hl). rewrite Hin in Hae. inversion Hae; subst.
    destruct (nth_error (ae_peers ae) pi) eqn:E; [eauto|]. apply nth_error_None in E. lia.
  - auto.
Qed.

Lemma edge_ifs_spec e d fi lo :
  wf_segment (is_seg (se_seg e)) -> EdgeOK (se_seg e) (se_edge e) ->
  ds_hops d = edge_hops e -> seg_cons_dir d = edge_cons_dir e ->
  (edge_cons_dir e = true -> fi = is_some (e_peer (se_edge e))) ->
  (edge_cons_dir e = false -> lo = is_some (e_peer (se_edge e))) ->
  map snd (edge_ifs e) = seg_ifaces (sseg d) fi lo true (map obs_hop (ds_hops d)).
Proof.
  intros Hwf Hok Hh Hcd Hfi Hlo. pose proof (edge_items_ok e Hwf Hok) as Hitems. destruct Hok as [Hidx _].
  rewrite Hh. unfold edge_ifs, edge_hops, edge_items.
  set (es := sg_entries (is_seg (se_seg e))) in *. set (idx := e_idx (se_edge e)) in *.
  set (pr := e_peer (se_edge e)) in *. unfold seg_len in *. fold es in Hidx, Hitems |- *.
  assert (Hinc : skipn idx (enumerate es) = combine (seq idx (length (skipn idx es))) (skipn idx es)).
  { unfold enumerate. rewrite skipn_combine, skipn_seq, skipn_length. reflexivity. }
  rewrite Hinc in *. set (l := skipn idx es) in *.
  assert (Hl : (idx + length l = S (length es - 1))%nat) by (unfold l; rewrite skipn_length; lia).
  destruct (edge_cons_dir e) eqn:Ecd; unfold orient.
  - unfold iface. rewrite (map_rev snd), map_snd_flat_map, rev_flat_map_rev. rewrite (map_rev (item_hf idx pr)), rev_involutive, map_map.
    apply (along_ifaces d (length es - 1) idx pr fi lo l idx true); auto.
    symmetry; apply Nat.eqb_refl.
  - unfold iface. rewrite map_snd_flat_map, map_map.
    apply (against_ifaces d (length es - 1) idx pr fi lo l true); auto; [lia|].
    symmetry. apply Nat.eqb_eq. exact Hl.
Qed.

(** ** the whole path *)
Definition SegOfEdge (d : dpseg) (e : sedge) : Prop :=
  ds_hops d = edge_hops e /\ seg_cons_dir d = edge_cons_dir e /\ seg_peering d = is_some (e_peer (se_edge e)).

Lemma path_ifaces_edges : forall es ds v0 isf,
  Forall2 SegOfEdge ds es ->
  chain_ok v0 es -> (isf = true -> exists a, v0 = VAS a) -> (exists b, end_vertex v0 es = VAS b) ->
  Forall (fun e => EdgeFull (se_src e) (se_dst e) (se_seg e) (se_edge e)) es ->
  Forall (fun e => wf_segment (is_seg (se_seg e))) es ->
  flat_map (fun e => map snd (edge_ifs e)) es = path_ifaces isf (map obs_seg ds).
Proof.
  induction es as [|e es IH]; intros ds v0 isf H2 Hc Hfirst Hend Hf Hw; inversion H2 as [|d ? ds' ? Hde H2']; subst; [reflexivity|].
  cbn [flat_map map path_ifaces chain_ok end_vertex] in *. destruct Hc as [Hsrc Hc].
  inversion Hf as [|? ? Hfe Hf']; subst. inversion Hw as [|? ? Hwe Hw']; subst.
  destruct Hde as (Hh & Hcd & Hp).
  rewrite <- (IH ds' (se_dst e) false H2' Hc ltac:(discriminate) Hend Hf' Hw'). f_equal.
  assert (Hpeer : peering (obs_seg d) = is_some (e_peer (se_edge e))) by exact Hp.
  change (os_hops (obs_seg d)) with (map obs_hop (ds_hops d)).
  apply edge_ifs_spec; auto; [exact (proj1 Hfe)| |].
  - (* along construction through a peer entry: the edge starts on a peering link, so it is not the first *)
    intros Ecd. rewrite Hpeer. destruct (e_peer (se_edge e)) as [pi|] eqn:Ep; cbn [is_some]; [|apply andb_false_r].
    rewrite andb_true_r. destruct isf; [|reflexivity]. exfalso.
    destruct (Hfirst eq_refl) as (a & Ha). destruct Hfe as (_ & _ & leaf & ae & Hleaf & _ & Hv). rewrite Ep in Hv.
    destruct Hv as (_ & p & _ & [[_ Hd]|[Hs _]]).
    + unfold edge_cons_dir in Ecd. rewrite Hd in Ecd. cbn in Ecd. discriminate.
    + congruence.
  - (* against construction through a peer entry: the edge ends on a peering link, so it is not the last *)
    intros Ecd. rewrite Hpeer. destruct (e_peer (se_edge e)) as [pi|] eqn:Ep; cbn [is_some];
      [|destruct (map obs_seg ds'); reflexivity].
    destruct ds' as [|d2 ds2]; [|reflexivity]. exfalso. inversion H2'; subst. cbn [end_vertex] in Hend.
    destruct Hend as (b & Hb). destruct Hfe as (_ & _ & leaf & ae & Hleaf & _ & Hv). rewrite Ep in Hv.
    destruct Hv as (_ & p & _ & [[_ Hd]|[_ Hd]]).
    + rewrite Hd in Hb. discriminate.
    + unfold edge_cons_dir in Ecd. rewrite Hd, Hleaf in Ecd. cbn in Ecd. rewrite N.eqb_refl in Ecd. discriminate.
Qed.

Lemma edges_fold_segs l : forall st st',
  ofold edge_step l st = Ok st' ->
  exists ds, ps_segs st' = ps_segs st ++ ds /\ Forall2 SegOfEdge ds l.
Proof.
  induction l as [|e l IH]; intros st st'; cbn [ofold].
  - intros E; inversion E; subst. exists []. rewrite app_nil_r. split; [reflexivity|constructor].
  - intros H. apply bind_ok in H as (st1 & Hst1 & H).
    apply edge_step_pure in Hst1 as (_ & _ & d & Hd & Hh & _ & Hfl).
    destruct (IH _ _ H) as (ds & Hds & Hall). exists (d :: ds). rewrite Hds, Hd, <- app_assoc. split; [reflexivity|].
    constructor; [|exact Hall]. unfold SegOfEdge, seg_cons_dir, seg_peering. rewrite Hfl.
    destruct (flags_bits (edge_cons_dir e) (match e_peer (se_edge e) with Some _ => true | None => false end)) as [F0 F1].
    rewrite F0, F1. split; [exact Hh|]. split; [reflexivity|]. destruct (e_peer (se_edge e)); reflexivity.
Qed.

Lemma list_eqb_refl l : list_eqb N.eqb l l = true.
Proof. induction l as [|a l IH]; cbn; [reflexivity|]. rewrite N.eqb_refl, IH. reflexivity. Qed.

Lemma combine_ifaces_truthful Hid Hfp ord_v ord_e src dst cores non_cores out :
  (forall v l, Permutation (ord_v v l) l) -> (forall v w l, Permutation (ord_e v w l) l) ->
  Forall wf_segment (cores ++ non_cores) ->
  combine_paths Hid Hfp ord_v ord_e src dst cores non_cores = Ok out ->
  Forall (fun p => ifaces_truthful (obs_path p) = true) out.
Proof.
  intros Hv He Hwf H.
  destruct (combine_stages _ _ _ _ _ _ _ _ _ H) as [[_ ->]|(g & cand & _ & Hg & HI & Hcand & Hcol & Hf)]; [constructor|].
  destruct (collect_paths_sorted Hfp _ _ (get_paths_sorted ord_v ord_e g src dst)
              (get_paths_full ord_v ord_e Hv He g src dst HI) (get_paths_cost ord_v ord_e g src dst) Hcol) as [_ Hall].
  apply Forall_forall. intros p Hp. destruct (filter_duplicates_In _ _ _ _ _ Hf Hp) as [[]|Hin].
  rewrite Forall_forall in Hall. destruct (Hall p Hin) as (s & Hs & Hsp & _).
  pose proof (get_paths_chain ord_v ord_e g src dst) as Hch. rewrite Forall_forall in Hch. destruct (Hch s Hs) as [(C1 & C2 & _) Hcur].
  pose proof (get_paths_full ord_v ord_e Hv He g src dst HI) as Hfull. rewrite Forall_forall in Hfull. specialize (Hfull s Hs).
  pose proof (get_paths_ok ord_v ord_e Hv He g src dst) as Hok. rewrite Forall_forall in Hok. destruct (Hok s Hs) as [Hin_g _].
  assert (Hws : Forall (fun e => wf_segment (is_seg (se_seg e))) (so_edges s)).
  { eapply Forall_impl; [|exact Hin_g]. intros e Hedge. unfold sedge_in in Hedge.
    destruct (add_segments_from _ _ _ Hg _ _ _ _ Hedge) as [(vi & em & [] & _)|Hmem].
    rewrite Forall_forall in Hwf. apply Hwf. eapply input_segments_seg; eauto. }
  destruct (sol_path_ends _ _ _ Hsp) as (st & f & l & Hst & _ & _ & _ & _ & Hmeta & Hsegs).
  pose proof Hst as Hst'. apply edges_fold_pure in Hst' as (_ & Hifs & _). cbn [ps_ifs app] in Hifs.
  destruct (edges_fold_segs _ _ _ Hst) as (ds & Hds & H2). cbn [ps_segs app] in Hds.
  unfold ifaces_truthful, meta_ids, obs_path. cbn [o_ifs o_segs]. rewrite Hmeta. cbn [md_ifaces odefault].
  rewrite Hsegs, Hds, Hifs. unfold iface. rewrite map_snd_flat_map.
  rewrite (path_ifaces_edges (so_edges s) ds (VAS src) true H2 C1 ltac:(eauto) ltac:(rewrite <- C2, Hcur; eauto) Hfull Hws).
  apply list_eqb_refl.
Qed.
