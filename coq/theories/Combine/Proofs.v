(** Lemmas for C19 (robustness of the combinator): graph invariant, absence of panics,
    polynomial bound on the search.  No well-formedness hypothesis on segments anywhere. *)
From Sci Require Import Combine.Model Common.ListAux.
From Coq Require Import Lia Permutation.
Local Open Scope N_scope.

(** * boolean equalities are sound *)
Lemma list_eqb_eq {A} (eqb : A -> A -> bool) :
  (forall a b, eqb a b = true -> a = b) -> forall x y, list_eqb eqb x y = true -> x = y.
Proof.
  intros H x; induction x as [|a x IH]; intros [|b y] E; cbn in E; try discriminate; auto.
  apply andb_true_iff in E as [E1 E2]. f_equal; auto.
Qed.

Ltac split_andb :=
  repeat match goal with
         | H : _ && _ = true |- _ => apply andb_true_iff in H; destruct H
         | H : (_ =? _) = true |- _ => apply N.eqb_eq in H
         end.

Lemma hopf_eqb_eq a b : hopf_eqb a b = true -> a = b.
Proof. destruct a, b; unfold hopf_eqb; cbn; intros H; split_andb; subst; reflexivity. Qed.
Lemma peer_eqb_eq a b : peer_eqb a b = true -> a = b.
Proof.
  destruct a, b; unfold peer_eqb; cbn; intros H; split_andb; subst.
  match goal with H : hopf_eqb _ _ = true |- _ => apply hopf_eqb_eq in H; subst end. reflexivity.
Qed.
Lemma asentry_eqb_eq a b : asentry_eqb a b = true -> a = b.
Proof.
  destruct a, b; unfold asentry_eqb; cbn; intros H; split_andb; subst.
  match goal with H : hopf_eqb _ _ = true |- _ => apply hopf_eqb_eq in H; subst end.
  match goal with H : list_eqb _ _ _ = true |- _ => apply (list_eqb_eq _ peer_eqb_eq) in H; subst end.
  reflexivity.
Qed.
Lemma segment_eqb_eq a b : segment_eqb a b = true -> a = b.
Proof.
  destruct a, b; unfold segment_eqb; cbn; intros H; split_andb; subst.
  match goal with H : list_eqb _ _ _ = true |- _ => apply (list_eqb_eq _ asentry_eqb_eq) in H; subst end.
  reflexivity.
Qed.
Lemma iseg_eqb_eq a b : iseg_eqb a b = true -> a = b.
Proof.
  destruct a as [ka sa ia], b as [kb sb ib]; unfold iseg_eqb; cbn; intros H; split_andb; subst.
  match goal with H : segment_eqb _ _ = true |- _ => apply segment_eqb_eq in H; subst end.
  destruct ka, kb; cbn in *; try discriminate; reflexivity.
Qed.
Lemma vertex_eqb_eq a b : vertex_eqb a b = true -> a = b.
Proof.
  destruct a, b; cbn; intros H; try discriminate; split_andb; subst; reflexivity.
Qed.
Lemma vertex_eqb_refl a : vertex_eqb a a = true.
Proof. destruct a; cbn; rewrite ?N.eqb_refl; reflexivity. Qed.

(** * association lists *)
Lemma aupd_In {K V} (eqb : K -> K -> bool) k0 (f : option V -> V) l k v :
  In (k, v) (aupd eqb k0 f l) ->
  In (k, v) l \/ (k = k0 /\ v = f None)
  \/ (exists v0, In (k, v0) l /\ eqb k k0 = true /\ v = f (Some v0)).
Proof.
  induction l as [|[k' v'] l IH]; cbn.
  - intros [E|[]]. inversion E; subst. right; left; auto.
  - destruct (eqb k' k0) eqn:Ek.
    + intros [E|H].
      * inversion E; subst. right; right. exists v'. auto.
      * left; auto.
    + intros [E|H].
      * left; left; exact E.
      * destruct (IH H) as [H1|[H1|(v0 & H1 & H2 & H3)]]; auto.
        right; right. exists v0; auto.
Qed.

Lemma aget_In {K V} (eqb : K -> K -> bool) k (l : list (K * V)) v :
  aget eqb k l = Some v -> exists k', In (k', v) l /\ eqb k' k = true.
Proof.
  induction l as [|[k' v'] l IH]; cbn; [discriminate|].
  destruct (eqb k' k) eqn:E.
  - intros H; inversion H; subst. exists k'; auto.
  - intros H. destruct (IH H) as (k2 & H1 & H2). exists k2; auto.
Qed.

(** * enumerate *)
Lemma in_combine_seq {A} (l : list A) s i a :
  In (i, a) (combine (seq s (length l)) l) -> (s <= i)%nat /\ nth_error l (i - s) = Some a.
Proof.
  revert s; induction l as [|x l IH]; intros s; cbn; [intros []|].
  intros [E|H].
  - inversion E; subst. rewrite Nat.sub_diag. split; [lia|reflexivity].
  - destruct (IH _ H) as [H1 H2]. split; [lia|].
    replace (i - s)%nat with (S (i - S s)) by lia. exact H2.
Qed.
Lemma in_enumerate {A} (l : list A) i a : In (i, a) (enumerate l) -> nth_error l i = Some a.
Proof.
  intros H. apply in_combine_seq in H as [_ H]. rewrite Nat.sub_0_r in H. exact H.
Qed.
Lemma nth_error_lt {A} (l : list A) i a : nth_error l i = Some a -> (i < length l)%nat.
Proof. intros H. apply nth_error_Some. congruence. Qed.
Lemma enumerate_length {A} (l : list A) : length (enumerate l) = length l.
Proof. unfold enumerate. rewrite combine_length, seq_length. lia. Qed.

(** * folds over outcomes *)
Lemma ofold_inv {A B} (P : B -> Prop) (Q : A -> Prop) (f : B -> A -> res B) l b :
  P b -> Forall Q l ->
  (forall b a, P b -> Q a -> exists b', f b a = Ok b' /\ P b') ->
  exists b', ofold f l b = Ok b' /\ P b'.
Proof.
  intros Hb Hl Hf. revert b Hb; induction Hl as [|a l Ha Hl IH]; intros b Hb; cbn.
  - exists b; auto.
  - destruct (Hf b a Hb Ha) as (b' & E & Hb'). rewrite E; cbn. apply IH; exact Hb'.
Qed.

(** * graph invariant *)
(** every edge of the graph refers to a position inside its own segment *)
Definition EdgeOK (s : iseg) (e : edge) : Prop :=
  (e_idx e < seg_len (is_seg s))%nat /\
  match e_peer e with
  | None => True
  | Some pi => exists ae, nth_error (sg_entries (is_seg s)) (e_idx e) = Some ae /\ (pi < length (ae_peers ae))%nat
  end.

Definition edge_in (g : graph) (src dst : vertex) (s : iseg) (e : edge) : Prop :=
  exists vi em, In (src, vi) g /\ In (dst, em) vi /\ In (s, e) em.

(** the weight stored in an edge: links used, plus one when the edge ends on a peering vertex *)
Definition EdgeW (dst : vertex) (s : iseg) (e : edge) : Prop :=
  e_weight e = N.of_nat (seg_len (is_seg s) - 1 - e_idx e)
               + match dst with VPeer _ _ _ _ => 1 | VAS _ => 0 end.

(** the vertices an edge connects, in terms of its segment *)
Definition EdgeV (src dst : vertex) (s : iseg) (e : edge) : Prop :=
  exists leaf ae, last_ia (is_seg s) = Some leaf /\ nth_error (sg_entries (is_seg s)) (e_idx e) = Some ae /\
  match e_peer e with
  | None => ((src = VAS leaf /\ dst = VAS (ae_ia ae)) \/ (src = VAS (ae_ia ae) /\ dst = VAS leaf))
            /\ (is_kind s = Core -> e_idx e = 0%nat)
            /\ (is_kind s = NonCore -> S (e_idx e) <> seg_len (is_seg s))
  | Some pi => is_kind s = NonCore /\ exists p, nth_error (ae_peers ae) pi = Some p /\
      ((src = VAS leaf /\ dst = VPeer (ae_ia ae) (hf_in (pe_hf p)) (pe_ia p) (pe_if p))
       \/ (src = VPeer (pe_ia p) (pe_if p) (ae_ia ae) (hf_in (pe_hf p)) /\ dst = VAS leaf))
  end.

Definition EdgeFull (src dst : vertex) (s : iseg) (e : edge) : Prop :=
  EdgeOK s e /\ EdgeW dst s e /\ EdgeV src dst s e.

Definition GInv (g : graph) : Prop := forall src dst s e, edge_in g src dst s e -> EdgeFull src dst s e.

Lemma GInv_nil : GInv [].
Proof. intros src dst s e (vi & em & [] & _). Qed.

Lemma ade_edges g a b s e src dst s' e' :
  edge_in (add_directed_edge g a b s e) src dst s' e' ->
  edge_in g src dst s' e' \/ (e' = e /\ s' = s /\ src = a /\ dst = b).
Proof.
  intros (vi & em & H1 & H2 & H3). unfold add_directed_edge in H1.
  set (G := fun oe : option emap => aupd iseg_eqb s (fun _ => e) (odefault [] oe)) in *.
  assert (Hlvl2 : forall vi0, src = a -> (vi0 = [] \/ In (src, vi0) g) -> In (dst, em) (aupd vertex_eqb b G vi0) ->
                              edge_in g src dst s' e' \/ (e' = e /\ s' = s /\ src = a /\ dst = b)).
  { intros vi0 Hsrc Hvi0 Hin.
    assert (Hlvl3 : forall em0, dst = b -> (em0 = [] \/ In (dst, em0) vi0) -> In (s', e') (aupd iseg_eqb s (fun _ => e) em0) ->
                                edge_in g src dst s' e' \/ (e' = e /\ s' = s /\ src = a /\ dst = b)).
    { intros em0 Hdst Hem0 Hin3. apply aupd_In in Hin3 as [Hin3|[[-> ->]|(v0 & Hin3 & Heq & ->)]].
      - destruct Hem0 as [->|Hem0]; [destruct Hin3|]. destruct Hvi0 as [->|Hvi0]; [destruct Hem0|].
        left. exists vi0, em0; auto.
      - right; auto.
      - right. split; [reflexivity|]. split; [apply iseg_eqb_eq; exact Heq|auto]. }
    apply aupd_In in Hin as [Hin|[[-> ->]|(em0 & Hin & Heq & ->)]].
    - destruct Hvi0 as [->|Hvi0]; [destruct Hin|]. left. exists vi0, em; auto.
    - apply (Hlvl3 []); auto.
    - apply (Hlvl3 em0); auto. apply vertex_eqb_eq; exact Heq. }
  apply aupd_In in H1 as [H1|[[-> ->]|(vi0 & H1 & Heq & ->)]].
  - left. exists vi, em; auto.
  - apply (Hlvl2 []); auto.
  - apply (Hlvl2 vi0); auto. apply vertex_eqb_eq; exact Heq.
Qed.

Lemma GInv_ade g a b s e : GInv g -> EdgeFull a b s e -> GInv (add_directed_edge g a b s e).
Proof.
  intros Hg He src dst s' e' H. apply ade_edges in H as [H|(-> & -> & -> & ->)]; [exact (Hg _ _ _ _ H)|exact He].
Qed.
Lemma GInv_add_edge g a b s e : GInv g -> EdgeFull a b s e -> EdgeFull b a s e -> GInv (add_edge g a b s e).
Proof. intros Hg He He'. unfold add_edge. apply GInv_ade; auto. apply GInv_ade; auto. Qed.

Lemma checked_sub_ok site a b : (b <= a)%nat -> checked_sub site a b = Ok (a - b)%nat.
Proof. unfold checked_sub. destruct (a <? b)%nat eqn:E; [apply Nat.ltb_lt in E; lia|reflexivity]. Qed.

Lemma number_of_hops_ok s idx tp :
  (idx < seg_len (is_seg s))%nat ->
  number_of_hops s idx tp = Ok (N.of_nat (seg_len (is_seg s) - 1 - idx) + if tp then 1 else 0).
Proof.
  intros H. unfold number_of_hops.
  rewrite checked_sub_ok by lia. cbn [obind]. rewrite checked_sub_ok by lia. cbn [obind].
  destruct tp; [reflexivity|]. rewrite N.add_0_r. reflexivity.
Qed.

Lemma first_ia_len s f : first_ia s = Some f -> (0 < seg_len s)%nat.
Proof. unfold first_ia, seg_len. destruct (sg_entries s); cbn; [discriminate|lia]. Qed.
Lemma first_ia_nth s f : first_ia s = Some f -> exists ae, nth_error (sg_entries s) 0 = Some ae /\ ae_ia ae = f.
Proof.
  unfold first_ia. destruct (sg_entries s) as [|a l]; cbn; [discriminate|]. intros E; inversion E. eauto.
Qed.
Lemma last_ia_len s f : last_ia s = Some f -> (0 < seg_len s)%nat.
Proof.
  unfold last_ia, seg_len. destruct (sg_entries s) as [|a l]; cbn; [discriminate|lia].
Qed.
Lemma last_ia_some s : (0 < seg_len s)%nat -> exists l, last_ia s = Some l.
Proof.
  unfold last_ia, seg_len. intros H. destruct (rev (sg_entries s)) eqn:E.
  - apply (f_equal (@length _)) in E. rewrite rev_length in E. cbn in E. lia.
  - cbn. eexists; reflexivity.
Qed.

Lemma add_core_segment_inv g s :
  is_kind s = Core ->
  GInv g -> (exists g', add_core_segment g s = Ok g' /\ GInv g') \/ add_core_segment g s = Err tt.
Proof.
  intros Hk Hg. unfold add_core_segment.
  destruct (first_ia (is_seg s)) as [f|] eqn:Ef; [|right; reflexivity].
  destruct (last_ia (is_seg s)) as [l|] eqn:El; [|right; reflexivity].
  left. pose proof (first_ia_len _ _ Ef) as Hlen. destruct (first_ia_nth _ _ Ef) as (ae & Hae & <-).
  rewrite (number_of_hops_ok s 0 false Hlen). cbn [obind].
  eexists; split; [reflexivity|].
  apply GInv_add_edge; auto; (split; [split; cbn; auto|split; [unfold EdgeW; cbn; reflexivity|]]);
    exists l, ae; cbn; (split; [exact El|split; [exact Hae|]]); (split; [|split; [auto|congruence]]); auto.
Qed.

Lemma add_peer_edges_inv s leaf idx ae g pp :
  is_kind s = NonCore -> last_ia (is_seg s) = Some leaf ->
  GInv g -> nth_error (sg_entries (is_seg s)) idx = Some ae ->
  In pp (enumerate (ae_peers ae)) ->
  exists g', add_peer_edges s leaf idx (ae_ia ae) g pp = Ok g' /\ GInv g'.
Proof.
  intros Hk Hleaf Hg Hnth Hin. destruct pp as [pi p]. unfold add_peer_edges.
  pose proof (nth_error_lt _ _ _ Hnth) as Hlt.
  rewrite (number_of_hops_ok s idx true Hlt). cbn [obind].
  rewrite (number_of_hops_ok s idx false Hlt). cbn [obind].
  eexists; split; [reflexivity|].
  pose proof (in_enumerate _ _ _ Hin) as Hp.
  assert (Hpl : (pi < length (ae_peers ae))%nat) by (eapply nth_error_lt; eauto).
  apply GInv_ade; [apply GInv_ade; auto|];
    (split; [split; cbn; [exact Hlt|exists ae; auto]|split; [unfold EdgeW; cbn; reflexivity|]]);
    exists leaf, ae; cbn; (split; [exact Hleaf|split; [exact Hnth|split; [exact Hk|exists p; split; [exact Hp|auto]]]]).
Qed.

Lemma add_non_core_entry_inv s leaf g ie :
  is_kind s = NonCore -> last_ia (is_seg s) = Some leaf ->
  GInv g -> In ie (enumerate (sg_entries (is_seg s))) ->
  exists g', add_non_core_entry s leaf g ie = Ok g' /\ GInv g'.
Proof.
  intros Hk Hleaf Hg Hin. destruct ie as [idx entry]. apply in_enumerate in Hin.
  pose proof (nth_error_lt _ _ _ Hin) as Hlt. unfold add_non_core_entry.
  rewrite checked_sub_ok by (unfold seg_len; lia). cbn [obind].
  assert (exists g1, (if negb (idx =? seg_len (is_seg s) - 1)%nat
                      then w <- number_of_hops s idx false ;;
                           Ok (add_edge g (VAS leaf) (VAS (ae_ia entry)) s (mkEdge w idx None))
                      else Ok g) = Ok g1 /\ GInv g1) as (g1 & -> & Hg1).
  { destruct (idx =? seg_len (is_seg s) - 1)%nat eqn:Eidx; cbn [negb].
    - eexists; split; [reflexivity|auto].
    - apply Nat.eqb_neq in Eidx.
      rewrite (number_of_hops_ok s idx false Hlt). cbn [obind]. eexists; split; [reflexivity|].
      apply GInv_add_edge; auto; (split; [split; cbn; auto|split; [unfold EdgeW; cbn; reflexivity|]]);
        exists leaf, entry; cbn; (split; [exact Hleaf|split; [exact Hin|]]);
        (split; [auto|split; [congruence|intros _; unfold seg_len in *; lia]]). }
  cbn [obind]. apply (ofold_inv GInv (fun pp => In pp (enumerate (ae_peers entry)))); auto.
  - apply Forall_forall; auto.
  - intros b a Hb Ha. eapply add_peer_edges_inv; eauto.
Qed.

Lemma add_non_core_segment_inv g s :
  is_kind s = NonCore ->
  GInv g -> (exists g', add_non_core_segment g s = Ok g' /\ GInv g') \/ add_non_core_segment g s = Err tt.
Proof.
  intros Hk Hg. unfold add_non_core_segment. destruct (last_ia (is_seg s)) as [leaf|] eqn:El; [|right; reflexivity].
  left. apply (ofold_inv GInv (fun ie => In ie (enumerate (sg_entries (is_seg s))))); auto.
  - apply Forall_forall. intros x Hx. apply in_rev in Hx. exact Hx.
  - intros b a Hb Ha. apply add_non_core_entry_inv; auto.
Qed.

Lemma add_segment_inv g s :
  GInv g -> (exists g', add_segment g s = Ok g' /\ GInv g') \/ add_segment g s = Err tt.
Proof.
  intros Hg. unfold add_segment. destruct (is_kind s) eqn:Ek;
    [apply add_core_segment_inv|apply add_non_core_segment_inv]; auto.
Qed.

Lemma add_segments_inv l : forall g, GInv g -> exists g', add_segments g l = Ok g' /\ GInv g'.
Proof.
  induction l as [|s l IH]; intros g Hg; cbn.
  - exists g; auto.
  - destruct (add_segment_inv g s Hg) as [(g' & -> & Hg')| ->]; auto.
Qed.

(** the HashMap iteration orders of the search: any functions returning a permutation *)
Definition order_ok (ord_v : vertex -> vinfo -> vinfo) (ord_e : vertex -> vertex -> emap -> emap) : Prop :=
  (forall v l, Permutation (ord_v v l) l) /\ (forall v w l, Permutation (ord_e v w l) l).

(** * search: every edge of every solution is an edge of the graph, at most three of them *)
Section Search.
Variable ord_v : vertex -> vinfo -> vinfo.
Variable ord_e : vertex -> vertex -> emap -> emap.
Hypothesis ord_v_perm : forall v l, Permutation (ord_v v l) l.
Hypothesis ord_e_perm : forall v w l, Permutation (ord_e v w l) l.

Definition sedge_in (g : graph) (se : sedge) : Prop :=
  edge_in g (se_src se) (se_dst se) (se_seg se) (se_edge se).
Definition sol_in (g : graph) (sol : solution) : Prop := Forall (sedge_in g) (so_edges sol).

Lemma candidates_in g sol c : In c (candidates ord_v ord_e g sol) -> sedge_in g c.
Proof.
  unfold candidates. destruct (aget vertex_eqb (so_cur sol) g) as [vi|] eqn:E; [|intros []].
  apply aget_In in E as (k' & Hin & Hk). apply vertex_eqb_eq in Hk. subst k'.
  intros H. apply in_flat_map in H as ([nv em] & H1 & H2).
  apply in_map_iff in H2 as ([s e] & <- & H2).
  exists vi, em. cbn. split; [exact Hin|]. split.
  - eapply Permutation_in; [apply ord_v_perm|exact H1].
  - eapply Permutation_in; [apply ord_e_perm|exact H2].
Qed.

Lemma try_add_edge_some sol c s :
  try_add_edge sol c = Some s ->
  so_edges s = so_edges sol ++ [c] /\ (length (so_edges sol) < 3)%nat /\ so_cur s = se_dst c.
Proof.
  unfold try_add_edge. destruct (valid_next_seg sol (se_seg c)) eqn:E; cbn; [|discriminate].
  intros H; inversion H; subst; cbn. split; [reflexivity|]. split; [|reflexivity].
  unfold valid_next_seg in E. destruct (so_edges sol) as [|a [|b [|d r]]]; cbn; try lia; discriminate.
Qed.

Definition news (g : graph) (sol : solution) : list solution :=
  flat_map (fun c => match try_add_edge sol c with Some s => [s] | None => [] end) (candidates ord_v ord_e g sol).

Lemma news_spec g sol s :
  In s (news g sol) -> sol_in g sol ->
  sol_in g s /\ length (so_edges s) = S (length (so_edges sol)) /\ (length (so_edges s) <= 3)%nat.
Proof.
  intros H Hsol. apply in_flat_map in H as (c & Hc & H).
  destruct (try_add_edge sol c) as [s'|] eqn:E; [|destruct H]. destruct H as [<-|[]].
  apply try_add_edge_some in E as (E1 & E2 & _). unfold sol_in. rewrite E1, app_length. cbn.
  split; [|lia]. apply Forall_app; split; [exact Hsol|]. constructor; [|constructor].
  eapply candidates_in; eauto.
Qed.

Lemma expand_fst g dst sol s : In s (fst (expand ord_v ord_e g dst sol)) -> In s (news g sol).
Proof. unfold expand; cbn. intros H. apply filter_In in H as [H _]. exact H. Qed.
Lemma expand_snd g dst sol s : In s (snd (expand ord_v ord_e g dst sol)) -> In s (news g sol).
Proof. unfold expand; cbn. intros H. apply filter_In in H as [H _]. exact H. Qed.

Definition SolOK (g : graph) (s : solution) : Prop := sol_in g s /\ (length (so_edges s) <= 3)%nat.

Lemma bfs_ok g dst fuel : forall queue,
  Forall (SolOK g) queue -> Forall (SolOK g) (bfs ord_v ord_e g dst fuel queue).
Proof.
  induction fuel as [|f IH]; intros queue Hq; cbn; [constructor|].
  apply Forall_app; split.
  - apply Forall_forall. intros s Hs. apply in_flat_map in Hs as (p & Hp & Hs).
    apply in_map_iff in Hp as (q & <- & Hq'). rewrite Forall_forall in Hq. destruct (Hq _ Hq') as [H1 H2].
    apply expand_snd in Hs. destruct (news_spec _ _ _ Hs H1) as (A & B & C). split; auto.
  - apply IH. apply Forall_forall. intros s Hs. apply in_flat_map in Hs as (p & Hp & Hs).
    apply in_map_iff in Hp as (q & <- & Hq'). rewrite Forall_forall in Hq. destruct (Hq _ Hq') as [H1 H2].
    apply expand_fst in Hs. destruct (news_spec _ _ _ Hs H1) as (A & B & C). split; auto.
Qed.

Lemma insert_by_perm {A} cmp (x : A) l : Permutation (insert_by cmp x l) (x :: l).
Proof.
  induction l as [|y l IH]; cbn; [reflexivity|].
  destruct (cmp x y); try reflexivity.
  rewrite IH. apply perm_swap.
Qed.
Lemma sort_by_perm {A} cmp (l : list A) : Permutation (sort_by cmp l) l.
Proof.
  induction l as [|x l IH]; cbn; [reflexivity|].
  rewrite insert_by_perm. constructor. exact IH.
Qed.

Lemma get_paths_ok g src dst : Forall (SolOK g) (get_paths ord_v ord_e g src dst).
Proof.
  unfold get_paths. eapply Permutation_Forall; [symmetry; apply sort_by_perm|].
  apply bfs_ok. constructor; [|constructor]. split; [constructor|cbn; lia].
Qed.

End Search.
